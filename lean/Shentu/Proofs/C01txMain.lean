import Shentu.Proofs.C01txLists
/-
  Helper lemmas for `Shentu/Props/C01tx.lean`, part 2: the well-formedness of a chain state as the VM loads it, what a
  successful transaction consists of, what the write-back does to the ledger, and that it keeps well-formedness.
-/
namespace Shentu.CvmTxH
open Shentu Shentu.EVM Shentu.CvmTx

/-- **Well-formed chain state** (as far as x/cvm reads it): the store has one entry per address; no account holds a negative
    amount of the bond denomination; the accounts together hold fewer than 2^64 bond coins (so every single balance fits the
    VM's uint64); an address without an account holds no bond coins (the bank creates the account with the first coin). -/
structure WF (c : Cfg) (l : Ledger) (st : Store) : Prop where
  keyed : Keyed st
  nonneg : ∀ a ∈ st, 0 ≤ l.balOf (c.nm a.addr) c.bond
  fits : total (loadWorld c l st) < U64
  held : ∀ x, World.get st x = none → l.balOf (c.nm x) c.bond = 0

theorem keyed_loadWorld (c : Cfg) (l : Ledger) {st : Store} (h : Keyed st) : Keyed (loadWorld c l st) := by
  unfold Keyed loadWorld
  rw [List.map_map]
  exact h

theorem total_loadWorld (c : Cfg) (l : Ledger) (st : Store) :
    total (loadWorld c l st) = (st.map (fun a => (l.balOf (c.nm a.addr) c.bond).toNat)).sum := by
  unfold loadWorld
  rw [total_map_bal]

theorem get_loadWorld (c : Cfg) (l : Ledger) (st : Store) (x : Nat) :
    World.get (loadWorld c l st) x = (World.get st x).map (fun a => { a with balance := (l.balOf (c.nm a.addr) c.bond).toNat }) := by
  induction st with
  | nil => rfl
  | cons a st ih =>
    unfold loadWorld at ih ⊢
    rw [List.map_cons, get_cons, get_cons]
    by_cases h : a.addr = x
    · simp [h]
    · simp only [h, if_false]; exact ih

-- ---------------------------------------------------------------- what a successful transaction consists of

theorem tx_ok_parts {c : Cfg} {l : Ledger} {vs : Vesting.Accounts} {st : Store} {m : Msg} {l' : Ledger} {st' : Store}
    (h : tx c l vs st m = .ok (l', st')) :
    ∃ w, spendCheck c l vs m = .ok () ∧ (m.deploy = true → World.get st m.callee = none) ∧
      (!m.deploy && (codeOf st m).size == 0 && m.data.size != 0) = false ∧
      (vmRun c l st m).status = 0 ∧ (vmRun c l st m).err = none ∧ installCode m (vmRun c l st m) = some w ∧
      blockedRaise c l (preStore st m) w = false ∧ l' = writeBack c l (preStore st m) w ∧ st' = storeAfter (preStore st m) w := by
  unfold tx at h
  split at h; · cases h
  rename_i u hsp
  split at h; · cases h
  rename_i hdup
  split at h; · cases h
  rename_i hnc
  dsimp only at h
  split at h; · cases h
  rename_i hstat
  split at h; · cases h
  rename_i herr
  split at h; · cases h
  rename_i w hw
  split at h; · cases h
  rename_i hbl
  injection h with h
  injection h with h1 h2
  refine ⟨w, hsp, ?_, by simpa using hnc, by simpa using hstat, herr, hw, by simpa using hbl, h1.symm, h2.symm⟩
  intro hd
  simp only [hd, Bool.true_and, Bool.not_eq_true, Option.isSome_eq_false_iff, Option.isNone_iff_eq_none] at hdup
  exact hdup

-- ---------------------------------------------------------------- the pre-state of the execution

theorem wf_preStore {c : Cfg} {l : Ledger} {st : Store} (m : Msg) (hwf : WF c l st)
    (hnew : m.deploy = true → World.get st m.callee = none) : WF c l (preStore st m) := by
  unfold preStore
  by_cases hd : m.deploy = true
  · rw [if_pos hd]
    have hnone := hnew hd
    have h0 : l.balOf (c.nm m.callee) c.bond = 0 := hwf.held _ hnone
    refine ⟨?_, ?_, ?_, ?_⟩
    · rw [keyed_cons]
      exact ⟨get_none_iff.mp hnone, hwf.keyed⟩
    · intro a ha
      rcases List.mem_cons.mp ha with e | e
      · subst e; show 0 ≤ l.balOf (c.nm m.callee) c.bond; omega
      · exact hwf.nonneg a e
    · have : loadWorld c l ({ addr := m.callee } :: st) =
          { addr := m.callee, balance := (l.balOf (c.nm m.callee) c.bond).toNat } :: loadWorld c l st := rfl
      rw [this, total_cons]
      show (l.balOf (c.nm m.callee) c.bond).toNat + total (loadWorld c l st) < U64
      rw [h0]
      have := hwf.fits
      simpa using this
    · intro x hx
      rw [get_cons] at hx
      split at hx
      · cases hx
      · exact hwf.held x hx
  · rw [if_neg hd]; exact hwf

theorem safe_installCode {n : Nat} {m : Msg} {r : CallRes} {w : World} (hs : SafeW n r.world) (h : installCode m r = some w) :
    SafeW n w := by
  unfold installCode at h
  split at h
  · split at h
    · rename_i acc hacc
      injection h with h
      subst h
      exact safe_put_code hs hacc r.ret acc.forebear
    · cases h
  · injection h with h; subst h; exact hs

/-- the interpreter's result on a well-formed pre-state is keyed and holds what the pre-state held -/
theorem safe_vmRun {c : Cfg} {l : Ledger} {st : Store} (m : Msg) (hwf : WF c l (preStore st m)) :
    SafeW (total (loadWorld c l (preStore st m))) (vmRun c l st m).world := by
  unfold vmRun
  exact execTop_safe (envOf st m) rfl m.gas _ m.depth hwf.fits ⟨keyed_loadWorld c l hwf.keyed, rfl⟩

-- ---------------------------------------------------------------- the write-back

section wb
variable {c : Cfg} {l : Ledger} {st : Store} {w : World}

theorem names_nodup (hinj : c.Inj) (hwf : WF c l st) (hw : Keyed w) : ((updates c st w).map (·.1)).Nodup := by
  unfold updates
  rw [List.map_map]
  exact nodup_map_of_inj c.nm hinj _ (touched_nodup hwf.keyed hw)

theorem sum_new (hw : SafeW n w) (hwf : WF c l st) : ((updates c st w).map (·.2)).sum = (n : Int) := by
  unfold updates
  rw [List.map_map]
  have : ((fun (u : Addr × Int) => u.2) ∘ fun x => (c.nm x, (cacheBal w x : Int))) = fun x => ((balOf w x : Nat) : Int) := rfl
  rw [this, ← cast_sum, sum_balOf_cover _ w hw.1 (touched_nodup hwf.keyed hw.1) (touched_cover st w), hw.2]

theorem sum_old (hwf : WF c l st) :
    ((updates c st w).map (fun u => l.balOf u.1 c.bond)).sum = (total (loadWorld c l st) : Int) := by
  unfold updates
  rw [List.map_map]
  have : ((fun (u : Addr × Int) => l.balOf u.1 c.bond) ∘ fun x => (c.nm x, (cacheBal w x : Int))) = fun x => l.balOf (c.nm x) c.bond := rfl
  rw [this]
  unfold touched
  rw [List.map_append, List.sum_append]
  rw [sum_map_zero _ _ (fun x hx => hwf.held x (touched_new_none hx))]
  rw [List.map_map, total_loadWorld, cast_sum]
  rw [Int.add_zero]
  apply sum_map_congr
  intro a ha
  show l.balOf (c.nm a.addr) c.bond = ((l.balOf (c.nm a.addr) c.bond).toNat : Int)
  have := hwf.nonneg a ha
  omega

/-- after the write-back every visited address holds, in the bond denomination, what the final cache says -/
theorem writeBack_balOf_touched (hinj : c.Inj) (hwf : WF c l st) (hw : Keyed w) {x : Nat} (hx : x ∈ touched st w) :
    (writeBack c l st w).balOf (c.nm x) c.bond = (cacheBal w x : Int) := by
  unfold writeBack
  apply setBalances_balOf_mem c.bond _ l _ _ (names_nodup hinj hwf hw)
  unfold updates
  exact List.mem_map.mpr ⟨x, hx, rfl⟩

/-- an address the write-back does not visit keeps every balance -/
theorem writeBack_balOf_untouched (a : Addr) (d : Denom) (ha : ∀ x ∈ touched st w, c.nm x ≠ a) :
    (writeBack c l st w).balOf a d = l.balOf a d := by
  unfold writeBack
  apply setBalances_balOf_notin
  intro u hu
  unfold updates at hu
  obtain ⟨x, hx, e⟩ := List.mem_map.mp hu
  subst e
  exact ha x hx

theorem writeBack_inv (hinj : c.Inj) (hwf : WF c l st) (hw : SafeW (total (loadWorld c l st)) w) (hi : l.Inv) :
    (writeBack c l st w).Inv := by
  unfold writeBack
  rw [setBalances_eq]
  apply Props.C01.writeBack_inv c.bond l _ (names_nodup hinj hwf hw.1) _ hi
  rw [sum_new hw hwf, sum_old hwf]

-- the store after the write-back

theorem storeAfter_addrs : (storeAfter st w).map (·.addr) = touched st w := by
  unfold storeAfter
  rw [List.map_map]
  conv => rhs; rw [← List.map_id (touched st w)]
  apply List.map_congr_left
  intro x _
  show (match World.get w x with | some a => ({ a with balance := 0 } : Account) | none => { addr := x }).addr = x
  split
  · rename_i a ha; exact get_addr (acc := a) ha
  · rfl

theorem get_storeAfter_none {x : Nat} : World.get (storeAfter st w) x = none ↔ x ∉ touched st w := by
  rw [← storeAfter_addrs, mem_addrs_iff]
  simp

theorem loadWorld_storeAfter_total (hinj : c.Inj) (hwf : WF c l st) (hw : Keyed w) :
    total (loadWorld c (writeBack c l st w) (storeAfter st w)) = total w := by
  rw [total_loadWorld]
  have h1 : (storeAfter st w).map (fun a => ((writeBack c l st w).balOf (c.nm a.addr) c.bond).toNat) =
      ((storeAfter st w).map (·.addr)).map (fun x => ((writeBack c l st w).balOf (c.nm x) c.bond).toNat) := by
    rw [List.map_map]; rfl
  rw [h1, storeAfter_addrs]
  have h2 : (touched st w).map (fun x => ((writeBack c l st w).balOf (c.nm x) c.bond).toNat) = (touched st w).map (balOf w) := by
    apply List.map_congr_left
    intro x hx
    rw [writeBack_balOf_touched hinj hwf hw hx]
    simp [cacheBal_eq]
  rw [h2]
  exact sum_balOf_cover _ w hw (touched_nodup hwf.keyed hw) (touched_cover st w)

/-- **the write-back keeps well-formedness** -/
theorem wf_writeBack (hinj : c.Inj) (hwf : WF c l st) (hw : SafeW (total (loadWorld c l st)) w) :
    WF c (writeBack c l st w) (storeAfter st w) := by
  refine ⟨?_, ?_, ?_, ?_⟩
  · show ((storeAfter st w).map (·.addr)).Nodup
    rw [storeAfter_addrs]
    exact touched_nodup hwf.keyed hw.1
  · intro a ha
    have hx : a.addr ∈ touched st w := by
      rw [← storeAfter_addrs]; exact List.mem_map.mpr ⟨a, ha, rfl⟩
    rw [writeBack_balOf_touched hinj hwf hw.1 hx]
    omega
  · rw [loadWorld_storeAfter_total hinj hwf hw.1, hw.2]
    exact hwf.fits
  · intro x hx
    rw [get_storeAfter_none] at hx
    rw [writeBack_balOf_untouched]
    · apply hwf.held
      apply Classical.byContradiction
      intro hn
      exact hx (mem_touched.mpr (Or.inl hn))
    · intro y hy e
      have := hinj _ _ e
      subst this
      exact hx hy

end wb

end Shentu.CvmTxH
