import Shentu.Proofs.C12TLoop
/-
  Share-level reading of the stake round (for `Shentu/Props/C12T.lean`): who voted, what each validator record ends
  with, the list of counted pieces, and the exchange of the two sums (over votes, over delegations).
-/
namespace Shentu.C12TH
open Shentu Shentu.Gov
set_option linter.unusedSimpArgs false
set_option linter.unusedVariables false

/-- every voter appears once (what `setVote` guarantees for the votes of one proposal) -/
def VotersDistinct (votes : List Vote) : Prop := (votes.map (·.voter)).Nodup

/-- the option voted from address `a` (0 = no vote) -/
def voteAt (votes : List Vote) (a : Addr) : Nat :=
  match votes.find? (·.voter == a) with
  | some v => v.option
  | none => 0

def hasVoted (votes : List Vote) (a : Addr) : Bool := votes.any (·.voter == a)

/-- the address voted and is not the operator address of a bonded validator: the delegator branch of the tally -/
def delegatorVoted (e : Env) (votes : List Vote) (a : Addr) : Bool := !isValidator e a && hasVoted votes a

theorem VotersDistinct.cons {v : Vote} {vs : List Vote} (h : VotersDistinct (v :: vs)) :
    v.voter ∉ vs.map (·.voter) ∧ VotersDistinct vs := List.nodup_cons.mp h

@[simp] theorem voteAt_nil (a : Addr) : voteAt [] a = 0 := rfl
theorem voteAt_cons (v : Vote) (vs : List Vote) (a : Addr) :
    voteAt (v :: vs) a = if v.voter == a then v.option else voteAt vs a := by
  unfold voteAt
  simp only [List.find?_cons]
  cases (v.voter == a) <;> rfl
@[simp] theorem hasVoted_nil (a : Addr) : hasVoted [] a = false := rfl
theorem hasVoted_cons (v : Vote) (vs : List Vote) (a : Addr) :
    hasVoted (v :: vs) a = (v.voter == a || hasVoted vs a) := by simp [hasVoted]

theorem hasVoted_false_of_not_mem (vs : List Vote) (a : Addr) (h : a ∉ vs.map (·.voter)) : hasVoted vs a = false := by
  cases hh : hasVoted vs a with
  | false => rfl
  | true =>
    obtain ⟨v, hv, hva⟩ := List.any_eq_true.mp hh
    exact absurd (List.mem_map.mpr ⟨v, hv, beq_iff_eq.mp hva⟩) h

theorem voteAt_of_not_voted (vs : List Vote) (a : Addr) (h : hasVoted vs a = false) : voteAt vs a = 0 := by
  induction vs with
  | nil => rfl
  | cons v vs ih =>
    rw [hasVoted_cons] at h
    have h1 : (v.voter == a) = false := by cases hh : (v.voter == a) <;> simp_all
    have h2 : hasVoted vs a = false := by cases hh : hasVoted vs a <;> simp_all
    rw [voteAt_cons, h1, ih h2]; rfl

theorem voteAt_of_mem (vs : List Vote) (hd : VotersDistinct vs) (v : Vote) (hv : v ∈ vs) : voteAt vs v.voter = v.option := by
  induction vs with
  | nil => cases hv
  | cons x xs ih =>
    have hd' := hd.cons
    rw [voteAt_cons]
    rcases List.mem_cons.mp hv with h | h
    · subst h; simp
    · have hm : v.voter ∈ xs.map (·.voter) := List.mem_map.mpr ⟨v, h, rfl⟩
      have hne : x.voter ≠ v.voter := fun hh => hd'.1 (by rw [hh]; exact hm)
      rw [beq_false_of_ne hne]
      exact ih hd'.2 h

theorem voteOf_not_voted (vs : List Vote) (a : Addr) (dflt : Nat) (h : hasVoted vs a = false) : voteOf vs a dflt = dflt := by
  induction vs generalizing dflt with
  | nil => rfl
  | cons v vs ih =>
    rw [hasVoted_cons] at h
    have h1 : (v.voter == a) = false := by cases hh : (v.voter == a) <;> simp_all
    have h2 : hasVoted vs a = false := by cases hh : hasVoted vs a <;> simp_all
    rw [voteOf_cons, h1, ih _ h2]; rfl

/-- with distinct voters, "the last vote from `a`" is "the vote from `a`" -/
theorem voteOf_eq (vs : List Vote) (hd : VotersDistinct vs) (a : Addr) (dflt : Nat) :
    voteOf vs a dflt = if hasVoted vs a then voteAt vs a else dflt := by
  induction vs generalizing dflt with
  | nil => rfl
  | cons v vs ih =>
    have hd' := hd.cons
    rw [voteOf_cons, voteAt_cons, hasVoted_cons]
    by_cases hva : v.voter = a
    · have h1 : (v.voter == a) = true := beq_iff_eq.mpr hva
      have h2 : hasVoted vs a = false := hasVoted_false_of_not_mem vs a (hva ▸ hd'.1)
      simp only [h1, if_true, Bool.true_or]
      exact voteOf_not_voted vs a _ h2
    · have h1 : (v.voter == a) = false := beq_false_of_ne hva
      simp only [h1, Bool.false_eq_true, if_false, Bool.false_or]
      exact ih hd'.2 dflt

theorem voteOf_zero (vs : List Vote) (hd : VotersDistinct vs) (a : Addr) : voteOf vs a 0 = voteAt vs a := by
  rw [voteOf_eq vs hd]
  cases h : hasVoted vs a with
  | true => rfl
  | false => simp [voteAt_of_not_voted vs a h]

/-! ## permutations of the votes -/

theorem hasVoted_perm {vs vs' : List Vote} (p : vs.Perm vs') (a : Addr) : hasVoted vs a = hasVoted vs' a := by
  rw [Bool.eq_iff_iff]
  unfold hasVoted
  simp only [List.any_eq_true]
  constructor
  · intro ⟨v, hv, h⟩; exact ⟨v, p.mem_iff.mp hv, h⟩
  · intro ⟨v, hv, h⟩; exact ⟨v, p.mem_iff.mpr hv, h⟩

theorem VotersDistinct.perm {vs vs' : List Vote} (p : vs.Perm vs') (hd : VotersDistinct vs) : VotersDistinct vs' :=
  (List.Perm.nodup_iff (p.map (fun x : Vote => x.voter))).mp hd

theorem voteAt_perm {vs vs' : List Vote} (p : vs.Perm vs') (hd : VotersDistinct vs) (a : Addr) :
    voteAt vs a = voteAt vs' a := by
  cases h : hasVoted vs a with
  | false =>
    rw [voteAt_of_not_voted vs a h, voteAt_of_not_voted vs' a (by rw [← hasVoted_perm p]; exact h)]
  | true =>
    obtain ⟨v, hv, hva⟩ := List.any_eq_true.mp h
    have hva' : v.voter = a := beq_iff_eq.mp hva
    rw [← hva', voteAt_of_mem vs hd v hv, voteAt_of_mem vs' (hd.perm p) v (p.mem_iff.mp hv)]

/-! ## exchange of the sums over votes and over delegations -/

theorem sumOn_filter_ite {α} (p q : α → Bool) (l : List α) (f : α → Int) :
    sumOn (l.filter p) (fun x => if q x then f x else 0) = sumOn (l.filter (fun x => q x && p x)) f := by
  rw [sumOn_filter, sumOn_filter]
  apply sumOn_congr
  intro x _
  cases p x <;> cases q x <;> simp

/-- summing over the processed (option, delegation) pairs = summing over the delegations of voting delegators -/
theorem sum_exchange (isV : Addr → Bool) (dels : List Del) (F : Nat → Del → Int) :
    ∀ (votes : List Vote), VotersDistinct votes →
    sumOn (votedDels isV dels votes) (fun od => F od.1 od.2) =
      sumOn (dels.filter (fun d => !isV d.1 && hasVoted votes d.1)) (fun d => F (voteAt votes d.1) d) := by
  intro votes
  induction votes with
  | nil =>
    intro _
    rw [sumOn_filter]
    simp only [votedDels, List.filter_nil, List.flatMap_nil, sumOn_nil, hasVoted_nil, Bool.and_false]
    exact (sumOn_zero _ _ (by intro d _; simp)).symm
  | cons v vs ih =>
    intro hd
    have hd' := hd.cons
    have ih' := ih hd'.2
    rw [sumOn_filter] at ih' ⊢
    cases hv : isV v.voter with
    | true =>
      rw [votedDels_cons_val _ _ _ _ hv, ih']
      apply sumOn_congr
      intro d _
      rw [hasVoted_cons, voteAt_cons]
      by_cases hdv : v.voter = d.1
      · have : isV d.1 = true := hdv ▸ hv
        simp [this]
      · simp [beq_false_of_ne hdv]
    | false =>
      rw [votedDels_cons_del _ _ _ _ hv, sumOn_append, sumOn_map, sumOn_filter, ih', ← sumOn_add]
      apply sumOn_congr
      intro d _
      rw [hasVoted_cons, voteAt_cons]
      by_cases hdv : v.voter = d.1
      · have h1 : isV d.1 = false := hdv ▸ hv
        have h2 : hasVoted vs d.1 = false := hasVoted_false_of_not_mem vs d.1 (hdv ▸ hd'.1)
        have h3 : (d.1 == v.voter) = true := beq_iff_eq.mpr hdv.symm
        have h4 : (v.voter == d.1) = true := beq_iff_eq.mpr hdv
        simp [h1, h2, h3, h4]
      · have h3 : (d.1 == v.voter) = false := beq_false_of_ne (fun h => hdv h.symm)
        have h4 : (v.voter == d.1) = false := beq_false_of_ne hdv
        simp [h3, h4]

/-! ## the validator table after the vote loop, in closed form -/

/-- the shares deducted from validator `a`: the delegations to `a` of the delegators that voted themselves -/
def dedOf (e : Env) (votes : List Vote) (a : Addr) : Int :=
  sumOn (e.stake.dels.filter (fun d => d.2.1 == a && delegatorVoted e votes d.1)) (fun d => d.2.2.raw)

/-- the record of validator `v` after the vote loop -/
def finalVal (e : Env) (votes : List Vote) (v : Addr × Int × Dec) : ValInfo :=
  { addr := v.1, tokens := v.2.1, shares := v.2.2, deductions := ⟨dedOf e votes v.1⟩, vote := voteAt votes v.1 }

theorem finalVals_closed (e : Env) (votes : List Vote) (hd : VotersDistinct votes) :
    finalVals e votes = e.stake.vals.map (finalVal e votes) := by
  unfold finalVals vals0
  rw [List.map_map]
  apply List.map_congr_left
  intro v _
  simp only [Function.comp, updV, finalVal, voteOf_zero votes hd, Dec.zero, dedOf, delegatorVoted]
  congr 2
  rw [sumOn_filter]
  have := sum_exchange (isValidator e) e.stake.dels (fun _ d => if d.2.1 == v.1 then d.2.2.raw else 0) votes hd
  rw [this, sumOn_filter_ite]
  exact Int.zero_add _

/-! ## the counted pieces -/

/-- one counted piece: `shares` of validator `val` (which has `vshares` shares and `vtokens` tokens) counted for `option` -/
structure Piece where
  val : Addr
  option : Nat
  shares : Dec
  vshares : Dec
  vtokens : Int

/-- the voting power the chain gives the piece -/
def Piece.power (p : Piece) : Dec := pw p.shares p.vshares p.vtokens

/-- pieces counted through delegators: one per delegation (to a bonded validator) of a voting delegator -/
def delPieces (e : Env) (votes : List Vote) : List Piece :=
  (votedDels (isValidator e) e.stake.dels votes).filterMap (fun od =>
    (lookOf (vals0 e) od.2.2.1).map (fun st => ⟨od.2.2.1, od.1, od.2.2.2, st.1, st.2⟩))

/-- pieces counted through validators: one per validator that voted — its shares minus the deductions -/
def valPieces (e : Env) (votes : List Vote) : List Piece :=
  (finalVals e votes).filterMap (fun vi =>
    if vi.vote == 0 then none else some ⟨vi.addr, vi.vote, Dec.sub vi.shares vi.deductions, vi.shares, vi.tokens⟩)

def pieces (e : Env) (votes : List Vote) : List Piece := delPieces e votes ++ valPieces e votes

theorem filterMap_congr' {α β} (l : List α) (f g : α → Option β) (h : ∀ x ∈ l, f x = g x) :
    l.filterMap f = l.filterMap g := by
  induction l with
  | nil => rfl
  | cons x xs ih =>
    simp only [List.filterMap_cons, h x List.mem_cons_self, ih (fun y hy => h y (List.mem_cons_of_mem _ hy))]

/-- **the accumulated results are the sum of the powers of the pieces** -/
theorem results_are_pieces (e : Env) (votes : List Vote) :
    stakeResults e votes = addList ({} : Results) ((pieces e votes).map (fun p => (p.option, p.power))) := by
  rw [stakeResults_eq]
  congr 1
  unfold pieces delPieces valPieces contribs
  rw [List.map_append, List.map_filterMap, List.map_filterMap]
  congr 1
  · apply filterMap_congr'
    intro od _
    cases lookOf (vals0 e) od.2.2.1 <;> rfl
  · apply filterMap_congr'
    intro vi _
    unfold valContrib
    cases (vi.vote == 0) <;> rfl

theorem lookOf_vals0 (e : Env) (a : Addr) :
    lookOf (vals0 e) a = (e.stake.vals.find? (·.1 == a)).map (fun v => (v.2.2, v.2.1)) := by
  unfold lookOf vals0
  rw [List.find?_map, Option.map_map]
  rfl

/-- the pieces do not depend on the order of the votes, up to their own order -/
theorem pieces_perm (e : Env) {vs vs' : List Vote} (p : vs.Perm vs') (hd : VotersDistinct vs) :
    (pieces e vs).Perm (pieces e vs') := by
  unfold pieces
  apply List.Perm.append
  · unfold delPieces votedDels
    exact ((p.filter _).flatMap_right _).filterMap _
  · unfold valPieces
    rw [finalVals_closed e vs hd, finalVals_closed e vs' (hd.perm p)]
    have : ∀ v, finalVal e vs v = finalVal e vs' v := by
      intro v
      unfold finalVal dedOf delegatorVoted
      rw [voteAt_perm p hd]
      simp only [hasVoted_perm p]
    rw [List.map_congr_left (fun v _ => this v)]

theorem stakeResults_perm (e : Env) {vs vs' : List Vote} (p : vs.Perm vs') (hd : VotersDistinct vs) :
    stakeResults e vs = stakeResults e vs' := by
  rw [results_are_pieces, results_are_pieces]
  exact addList_perm _ ((pieces_perm e p hd).map _)

/-! ## sorting -/

theorem insVote_perm (v : Vote) (l : List Vote) : (insVote v l).Perm (v :: l) := by
  induction l with
  | nil => exact List.Perm.refl _
  | cons x xs ih =>
    unfold insVote
    split
    · exact List.Perm.refl _
    · exact (List.Perm.cons x ih).trans (List.Perm.swap v x xs)

theorem sortVotes_perm (l : List Vote) : (sortVotes l).Perm l := by
  induction l with
  | nil => exact List.Perm.refl _
  | cons x xs ih =>
    show (insVote x (sortVotes xs)).Perm (x :: xs)
    exact (insVote_perm x _).trans (List.Perm.cons x ih)

end Shentu.C12TH
