import Shentu.Proofs.ShieldPoolInv
/-
  The operations that do not touch pools, purchase lists, stakes, `totalShield`, `stakingPool`,
  the id counters, `totalClaimed` or the parameters.
-/
namespace Shentu.Shield.PoolLm

/-- `s'` agrees with `s` on everything `PoolInv` (and the claim lock) reads -/
structure PoolFrame (s s' : State) : Prop where
  pools : s'.pools = s.pools
  lists : s'.lists = s.lists
  stakes : s'.stakes = s.stakes
  totalShield : s'.totalShield = s.totalShield
  stakingPool : s'.stakingPool = s.stakingPool
  nextPool : s'.nextPool = s.nextPool
  nextPurchase : s'.nextPurchase = s.nextPurchase
  totalClaimed : s'.totalClaimed = s.totalClaimed
  params : s'.params = s.params

theorem PoolFrame.refl (s : State) : PoolFrame s s := ⟨rfl, rfl, rfl, rfl, rfl, rfl, rfl, rfl, rfl⟩

theorem PoolFrame.trans {a b c : State} (h1 : PoolFrame a b) (h2 : PoolFrame b c) : PoolFrame a c :=
  ⟨h2.pools.trans h1.pools, h2.lists.trans h1.lists, h2.stakes.trans h1.stakes, h2.totalShield.trans h1.totalShield,
   h2.stakingPool.trans h1.stakingPool, h2.nextPool.trans h1.nextPool, h2.nextPurchase.trans h1.nextPurchase,
   h2.totalClaimed.trans h1.totalClaimed, h2.params.trans h1.params⟩

theorem PoolInv.frame {s s' : State} (h : PoolInv s) (f : PoolFrame s s') : PoolInv s' :=
  { toShieldInv := h.toShieldInv.congr f.pools f.lists f.totalShield f.nextPool f.nextPurchase,
    toStakeInv := h.toStakeInv.congr f.stakes f.stakingPool }

/-- `PoolInv` reads only these seven fields -/
theorem PoolInv.frame' {s s' : State} (h : PoolInv s) (h1 : s'.pools = s.pools) (h2 : s'.lists = s.lists)
    (h3 : s'.stakes = s.stakes) (h4 : s'.totalShield = s.totalShield) (h5 : s'.stakingPool = s.stakingPool)
    (h6 : s'.nextPool = s.nextPool) (h7 : s'.nextPurchase = s.nextPurchase) : PoolInv s' :=
  { toShieldInv := h.toShieldInv.congr h1 h2 h4 h6 h7, toStakeInv := h.toStakeInv.congr h3 h5 }

/-- closes a frame goal once the successful branch is isolated in `h` -/
macro "frame_done " h:ident : tactic => `(tactic| (cases $h:ident; constructor <;> rfl))
/-- a frame between two states that are definitionally equal on the framed fields -/
macro "frame_rfl" : tactic => `(tactic| exact ⟨rfl, rfl, rfl, rfl, rfl, rfl, rfl, rfl, rfl⟩)

theorem withdrawCollateral_frame {e : Env} {s s' : State} {a : Addr} {amt : Int}
    (h : withdrawCollateral e s a amt = .ok s') : PoolFrame s s' := by
  unfold withdrawCollateral at h
  ok_cases h <;> frame_done h

theorem stakingHook_frame {e : Env} {s s' : State} {a : Addr} {b : Int}
    (h : stakingHook e s a b = .ok s') : PoolFrame s s' := by
  unfold stakingHook at h
  ok_cases h
  · frame_done h
  · rename_i hw
    cases h
    refine PoolFrame.trans ?_ (withdrawCollateral_frame hw)
    frame_rfl
  · frame_done h

theorem stakingChanged_frame {e : Env} {s s' : State} {a : Addr}
    (h : stakingChanged e s a = .ok s') : PoolFrame s s' := by
  unfold stakingChanged at h
  split at h
  · frame_done h
  · exact stakingHook_frame h

theorem deposit_frame {e : Env} {s s' : State} {a : Addr} {c : Coins}
    (h : deposit e s a c = .ok s') : PoolFrame s s' := by
  unfold deposit at h
  ok_cases h <;> frame_done h

theorem withdraw_frame {e : Env} {s s' : State} {a : Addr} {c : Coins}
    (h : withdraw e s a c = .ok s') : PoolFrame s s' := by
  unfold withdraw at h
  ok_cases h
  exact withdrawCollateral_frame h

theorem withdrawRewards_frame {e : Env} {l l' : Ledger} {s s' : State} {a : Addr}
    (h : withdrawRewards e l s a = .ok (l', s')) : PoolFrame s s' := by
  unfold withdrawRewards at h
  ok_cases h <;> frame_done h

theorem withdrawReimbursement_frame {e : Env} {l l' : Ledger} {s s' : State} {pid : Nat} {a : Addr}
    (h : withdrawReimbursement e l s pid a = .ok (l', s')) : PoolFrame s s' := by
  unfold withdrawReimbursement at h
  ok_cases h <;> frame_done h

/-- `DelayWithdraws` only re-arranges the withdrawal queue -/
theorem delayWithdraws_eq {s s' : State} {a : Addr} {amt u : Int}
    (h : delayWithdraws s a amt u = .ok s') : ∃ q, s' = { s with withdraws := q } := by
  unfold delayWithdraws at h
  ok_cases h
  cases h; exact ⟨_, rfl⟩

theorem secureFromProvider_eq {e : Env} {s s' : State} {p : Provider} {amt dur : Int}
    (h : secureFromProvider e s p amt dur = .ok s') : ∃ q, s' = { s with withdraws := q } := by
  unfold secureFromProvider at h
  ok_cases h
  · cases h; exact ⟨s.withdraws, rfl⟩
  · exact delayWithdraws_eq h
  · cases h; exact ⟨s.withdraws, rfl⟩

/-- the walk over the providers in `SecureCollaterals` only re-arranges the withdrawal queue -/
theorem secureLoop_eq {e : Env} {ratio : Dec} {dur : Int} :
    ∀ (ps : List Provider) (rem : Int) (s s' : State), secureLoop e ratio dur ps rem s = .ok s' →
      ∃ q, s' = { s with withdraws := q } := by
  intro ps
  induction ps with
  | nil => intro rem s s' h; unfold secureLoop at h; cases h; exact ⟨s.withdraws, rfl⟩
  | cons p ps ih =>
    intro rem s s' h
    unfold secureLoop at h
    ok_cases h
    all_goals
      rcases secureFromProvider_eq (by assumption) with ⟨q1, hq1⟩
      subst hq1
      rcases ih _ _ _ h with ⟨q2, hq2⟩
      exact ⟨q2, hq2⟩

theorem delayWithdraws_frame {s s' : State} {a : Addr} {amt u : Int}
    (h : delayWithdraws s a amt u = .ok s') : PoolFrame s s' := by
  rcases delayWithdraws_eq h with ⟨q, rfl⟩; frame_rfl

theorem updateProviderForPayout_frame {s s' : State} {a : Addr} {pur pay : Int}
    (h : updateProviderForPayout s a pur pay = .ok s') : PoolFrame s s' := by
  unfold updateProviderForPayout at h
  ok_cases h <;> frame_done h

theorem reimburseLoop_frame {e : Env} {r1 r2 : Dec} :
    ∀ (ps : List Provider) (tp to_ : Int) (l : Ledger) (s : State) (left : Int) (l' : Ledger) (s' : State),
      reimburseLoop e r1 r2 ps tp to_ l s = .ok (left, l', s') → PoolFrame s s' := by
  intro ps
  induction ps with
  | nil => intro tp to_ l s left l' s' h; unfold reimburseLoop at h; cases h; exact PoolFrame.refl _
  | cons p ps ih =>
    intro tp to_ l s left l' s' h
    unfold reimburseLoop at h
    ok_cases h
    all_goals first
      | (cases h; exact PoolFrame.refl _)
      | exact (updateProviderForPayout_frame (by assumption)).trans
          ((stakingChanged_frame (by assumption)).trans (ih _ _ _ _ _ _ _ h))

theorem completeLoop_frame :
    ∀ (ws : List Withdraw) (s s' : State), completeLoop ws s = .ok s' → PoolFrame s s' := by
  intro ws
  induction ws with
  | nil => intro s s' h; unfold completeLoop at h; cases h; exact PoolFrame.refl _
  | cons w ws ih =>
    intro s s' h
    unfold completeLoop at h
    ok_cases h
    refine PoolFrame.trans ?_ (ih _ _ h)
    frame_rfl

theorem completeWithdrawals_frame {e : Env} {s s' : State}
    (h : completeWithdrawals e s = .ok s') : PoolFrame s s' := by
  unfold completeWithdrawals at h
  refine PoolFrame.trans ?_ (completeLoop_frame _ _ _ h)
  frame_rfl

theorem fundBlockRewards_frame (e : Env) (l : Ledger) (s : State) (a : Addr) (amt : Int) :
    PoolFrame s (fundBlockRewards e l s a amt).2 := by frame_rfl

/-- `CreateReimbursement` leaves pools, purchases and stakes alone and releases `amount` from the claim lock -/
theorem createReimbursement_ok {e : Env} {l l' : Ledger} {s s' : State} {pid : Nat} {amount : Int} {b : Addr}
    (h : createReimbursement e l s pid amount b = .ok (l', s')) :
    s'.pools = s.pools ∧ s'.lists = s.lists ∧ s'.stakes = s.stakes ∧ s'.totalShield = s.totalShield ∧
    s'.stakingPool = s.stakingPool ∧ s'.nextPool = s.nextPool ∧ s'.nextPurchase = s.nextPurchase ∧
    s'.params = s.params ∧ s'.totalClaimed = s.totalClaimed - amount := by
  unfold createReimbursement at h
  ok_cases h
  rename_i left l1 s1 hloop _
  have f := reimburseLoop_frame _ _ _ _ _ _ _ _ hloop
  cases h
  exact ⟨f.pools, f.lists, f.stakes, f.totalShield, f.stakingPool, f.nextPool, f.nextPurchase, f.params,
    by show s1.totalClaimed - amount = _; rw [f.totalClaimed]⟩

end Shentu.Shield.PoolLm
