import Shentu.Proofs.ShieldCollBasic
/-
  The collateral / withdrawal-queue half of the C03 invariant (`CollInv`), the part of it that
  survives while a payout is being spread over the providers (`CollRest`), the "view" of a state
  that these predicates depend on, and the master lemma for single-provider updates.
-/
set_option linter.unusedSimpArgs false
namespace Shentu.Shield.Coll
open List

/-- the amount `a` has queued for withdrawal -/
def qsum (s : State) (a : Addr) : Int := wsum (fun w => w.addr == a) s.withdraws

/-- The collateral / withdrawal-queue clauses of `BooksInv`, plus: provider addresses are pairwise distinct. -/
structure CollInv (s : State) : Prop where
  coll : s.totalCollateral = sumI (·.collateral) s.providers
  wdr : s.totalWithdrawing = sumI (·.withdrawing) s.providers
  wdrQ : ∀ p ∈ s.providers, p.withdrawing = sumI (·.amount) (s.withdraws.filter (·.addr == p.addr))
  wdrOwner : ∀ w ∈ s.withdraws, ∃ p ∈ s.providers, p.addr = w.addr
  wdrPos : ∀ w ∈ s.withdraws, 0 < w.amount
  provNonneg : ∀ p ∈ s.providers, 0 ≤ p.collateral ∧ 0 ≤ p.withdrawing ∧ p.withdrawing ≤ p.collateral
  nodup : (s.providers.map (·.addr)).Nodup

/-- `CollInv` without the clause about `totalCollateral` (which `CreateReimbursement` only restores at its end) -/
structure CollRest (s : State) : Prop where
  wdr : s.totalWithdrawing = sumI (·.withdrawing) s.providers
  wdrQ : ∀ p ∈ s.providers, p.withdrawing = qsum s p.addr
  wdrOwner : ∀ w ∈ s.withdraws, ∃ p ∈ s.providers, p.addr = w.addr
  wdrPos : ∀ w ∈ s.withdraws, 0 < w.amount
  provNonneg : ∀ p ∈ s.providers, 0 ≤ p.collateral ∧ 0 ≤ p.withdrawing ∧ p.withdrawing ≤ p.collateral
  nodup : (s.providers.map (·.addr)).Nodup

theorem collInv_iff (s : State) : CollInv s ↔ (s.totalCollateral = sumI (·.collateral) s.providers ∧ CollRest s) := by
  constructor
  · intro h; exact ⟨h.coll, ⟨h.wdr, h.wdrQ, h.wdrOwner, h.wdrPos, h.provNonneg, h.nodup⟩⟩
  · intro ⟨h1, h⟩; exact ⟨h1, h.wdr, h.wdrQ, h.wdrOwner, h.wdrPos, h.provNonneg, h.nodup⟩

theorem CollInv.rest {s : State} (h : CollInv s) : CollRest s := ((collInv_iff s).mp h).2

/-! ## the view -/

def pview (p : Provider) : Addr × Int × Int := (p.addr, p.collateral, p.withdrawing)

/-- `s'` has the same collateral books as `s`: same providers up to `bonded` and `rewards`, same queue, same totals -/
structure SameColl (s s' : State) : Prop where
  provs : s'.providers.map pview = s.providers.map pview
  queue : s'.withdraws = s.withdraws
  tc : s'.totalCollateral = s.totalCollateral
  tw : s'.totalWithdrawing = s.totalWithdrawing

theorem SameColl.refl (s : State) : SameColl s s := ⟨rfl, rfl, rfl, rfl⟩
theorem SameColl.trans {s1 s2 s3 : State} (h1 : SameColl s1 s2) (h2 : SameColl s2 s3) : SameColl s1 s3 :=
  ⟨h2.provs.trans h1.provs, h2.queue.trans h1.queue, h2.tc.trans h1.tc, h2.tw.trans h1.tw⟩
theorem SameColl.symm {s1 s2 : State} (h : SameColl s1 s2) : SameColl s2 s1 :=
  ⟨h.provs.symm, h.queue.symm, h.tc.symm, h.tw.symm⟩

def RestV (v : List (Addr × Int × Int)) (q : List Withdraw) (tw : Int) : Prop :=
  tw = sumI (·.2.2) v ∧ (∀ x ∈ v, x.2.2 = wsum (fun w => w.addr == x.1) q) ∧ (∀ w ∈ q, ∃ x ∈ v, x.1 = w.addr) ∧
  (∀ w ∈ q, 0 < w.amount) ∧ (∀ x ∈ v, 0 ≤ x.2.1 ∧ 0 ≤ x.2.2 ∧ x.2.2 ≤ x.2.1) ∧ (v.map (·.1)).Nodup

theorem collRest_iff_view (s : State) : CollRest s ↔ RestV (s.providers.map pview) s.withdraws s.totalWithdrawing := by
  unfold RestV
  constructor
  · intro h
    refine ⟨?_, ?_, ?_, h.wdrPos, ?_, ?_⟩
    · rw [h.wdr, sumI_map]; rfl
    · intro x hx; obtain ⟨p, hp, rfl⟩ := List.mem_map.mp hx; exact h.wdrQ p hp
    · intro w hw; obtain ⟨p, hp, he⟩ := h.wdrOwner w hw; exact ⟨pview p, List.mem_map.mpr ⟨p, hp, rfl⟩, he⟩
    · intro x hx; obtain ⟨p, hp, rfl⟩ := List.mem_map.mp hx; exact h.provNonneg p hp
    · rw [List.map_map]; exact h.nodup
  · intro ⟨h1, h2, h3, h4, h5, h6⟩
    refine ⟨?_, ?_, ?_, h4, ?_, ?_⟩
    · rw [h1, sumI_map]; rfl
    · intro p hp; exact h2 (pview p) (List.mem_map.mpr ⟨p, hp, rfl⟩)
    · intro w hw; obtain ⟨x, hx, he⟩ := h3 w hw; obtain ⟨p, hp, rfl⟩ := List.mem_map.mp hx; exact ⟨p, hp, he⟩
    · intro p hp; exact h5 (pview p) (List.mem_map.mpr ⟨p, hp, rfl⟩)
    · rw [List.map_map] at h6; exact h6

theorem sumColl_view (s : State) : sumI (·.collateral) s.providers = sumI (·.2.1) (s.providers.map pview) := by
  rw [sumI_map]; rfl

theorem SameColl.rest {s s' : State} (h : SameColl s s') (hr : CollRest s) : CollRest s' := by
  rw [collRest_iff_view] at hr ⊢
  rw [h.provs, h.queue, h.tw]; exact hr

theorem SameColl.sumColl {s s' : State} (h : SameColl s s') :
    sumI (·.collateral) s'.providers = sumI (·.collateral) s.providers := by
  rw [sumColl_view, sumColl_view, h.provs]

theorem SameColl.inv {s s' : State} (h : SameColl s s') (hi : CollInv s) : CollInv s' := by
  rw [collInv_iff] at hi ⊢
  exact ⟨by rw [h.tc, h.sumColl]; exact hi.1, h.rest hi.2⟩

/-- the collateral recorded for `a` (0 when `a` is not a provider) -/
def collOf (s : State) (a : Addr) : Int := match findProvider s a with | some p => p.collateral | none => 0
/-- the amount recorded as being withdrawn for `a` (0 when `a` is not a provider) -/
def wdgOf (s : State) (a : Addr) : Int := match findProvider s a with | some p => p.withdrawing | none => 0

theorem find_view (l : List Provider) (a : Addr) :
    (l.find? (·.addr == a)).map pview = (l.map pview).find? (·.1 == a) := by
  induction l with
  | nil => rfl
  | cons x xs ih =>
    simp only [List.map_cons, List.find?_cons]
    have : (pview x).1 = x.addr := rfl
    rw [this]
    split
    · rfl
    · exact ih

theorem collOf_view (s : State) (a : Addr) :
    collOf s a = match (s.providers.map pview).find? (·.1 == a) with | some x => x.2.1 | none => 0 := by
  rw [← find_view]; unfold collOf findProvider
  cases s.providers.find? (·.addr == a) <;> rfl

theorem wdgOf_view (s : State) (a : Addr) :
    wdgOf s a = match (s.providers.map pview).find? (·.1 == a) with | some x => x.2.2 | none => 0 := by
  rw [← find_view]; unfold wdgOf findProvider
  cases s.providers.find? (·.addr == a) <;> rfl

theorem SameColl.collOf {s s' : State} (h : SameColl s s') (a : Addr) : collOf s' a = collOf s a := by
  rw [collOf_view, collOf_view, h.provs]

theorem SameColl.wdgOf {s s' : State} (h : SameColl s s') (a : Addr) : wdgOf s' a = wdgOf s a := by
  rw [wdgOf_view, wdgOf_view, h.provs]

/-! ## permuting the queue -/

theorem CollRest.perm {s : State} (h : CollRest s) {q : List Withdraw} (hp : s.withdraws ~ q) :
    CollRest { s with withdraws := q } := by
  refine ⟨h.wdr, ?_, ?_, ?_, h.provNonneg, h.nodup⟩
  · intro p hp'; rw [h.wdrQ p hp']; exact wsum_perm _ hp
  · intro w hw; exact h.wdrOwner w (hp.mem_iff.mpr hw)
  · intro w hw; exact h.wdrPos w (hp.mem_iff.mpr hw)

theorem CollInv.perm {s : State} (h : CollInv s) {q : List Withdraw} (hp : s.withdraws ~ q) :
    CollInv { s with withdraws := q } := by
  rw [collInv_iff] at h ⊢
  exact ⟨h.1, h.2.perm hp⟩

/-! ## consequences -/

theorem CollRest.owner_addr {s : State} (h : CollRest s) {w : Withdraw} (hw : w ∈ s.withdraws) :
    ∃ p, findProvider s w.addr = some p := by
  obtain ⟨p, hp, he⟩ := h.wdrOwner w hw
  exact ⟨p, by rw [← he]; exact findProvider_of_mem h.nodup hp⟩

theorem CollRest.wdg_eq {s : State} (h : CollRest s) {a : Addr} {p : Provider} (hf : findProvider s a = some p) :
    p.withdrawing = qsum s a := by
  have := findProvider_some hf
  rw [h.wdrQ p this.1, this.2]

/-- an address without provider has nothing queued -/
theorem CollRest.qsum_none {s : State} (h : CollRest s) {a : Addr} (hf : findProvider s a = none) : qsum s a = 0 := by
  apply wsum_filter_false
  intro w hw
  obtain ⟨p, hp, he⟩ := h.wdrOwner w hw
  have := findProvider_none hf p hp
  simp only [beq_eq_false_iff_ne, ne_eq]
  rw [← he]; exact this

/-! ## the master lemma: one provider's record, the queue and the totals change together -/

theorem CollRest.update {s : State} (h : CollRest s) {a : Addr} {p p' : Provider} (hf : findProvider s a = some p)
    (ha : p'.addr = a) (s' : State)
    (hprov : s'.providers = updP p' s.providers)
    (htw : s'.totalWithdrawing = s.totalWithdrawing - p.withdrawing + p'.withdrawing)
    (hq : p'.withdrawing = qsum s' a)
    (hother : ∀ b, b ≠ a → qsum s' b = qsum s b)
    (hown : ∀ w ∈ s'.withdraws, w ∈ s.withdraws ∨ w.addr = a)
    (hpos : ∀ w ∈ s'.withdraws, 0 < w.amount)
    (hnn : 0 ≤ p'.collateral ∧ 0 ≤ p'.withdrawing ∧ p'.withdrawing ≤ p'.collateral) : CollRest s' := by
  obtain ⟨hpm, hpa⟩ := findProvider_some hf
  have haddr : p'.addr = p.addr := by rw [ha, hpa]
  have haddrs : s'.providers.map (·.addr) = s.providers.map (·.addr) := by rw [hprov, updP_addrs]
  refine ⟨?_, ?_, ?_, hpos, ?_, ?_⟩
  · rw [htw, hprov, sumI_updP _ p' p _ h.nodup hpm haddr, h.wdr]
  · intro x hx
    rw [hprov] at hx
    rcases mem_updP hx with hx | ⟨hx, hne⟩
    · subst hx; rw [ha]; exact hq
    · rw [hother x.addr (by rw [← ha]; exact hne)]; exact h.wdrQ x hx
  · intro w hw
    have : w.addr ∈ s'.providers.map (·.addr) := by
      rw [haddrs]
      rcases hown w hw with h1 | h1
      · obtain ⟨x, hx, he⟩ := h.wdrOwner w h1; exact List.mem_map.mpr ⟨x, hx, he⟩
      · rw [h1, ← hpa]; exact List.mem_map.mpr ⟨p, hpm, rfl⟩
    obtain ⟨x, hx, he⟩ := List.mem_map.mp this
    exact ⟨x, hx, he⟩
  · intro x hx
    rw [hprov] at hx
    rcases mem_updP hx with hx | ⟨hx, _⟩
    · subst hx; exact hnn
    · exact h.provNonneg x hx
  · rw [haddrs]; exact h.nodup

theorem sumColl_update {s : State} (hn : (s.providers.map (·.addr)).Nodup) {a : Addr} {p p' : Provider}
    (hf : findProvider s a = some p) (ha : p'.addr = a) :
    sumI (·.collateral) (updP p' s.providers) = sumI (·.collateral) s.providers - p.collateral + p'.collateral := by
  obtain ⟨hpm, hpa⟩ := findProvider_some hf
  exact sumI_updP _ p' p _ hn hpm (by rw [ha, hpa])

end Shentu.Shield.Coll
