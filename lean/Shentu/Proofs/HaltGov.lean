import Shentu.Proofs.GovLemmas
import Shentu.Proofs.HaltOracle
/-
  C08, governance part: the end-blocker (`RefundDeposits` / `DeleteDeposits` of the proposals that end) does not panic
  when the module account holds the recorded deposits (escrow invariant).
-/
namespace Shentu.Halt.Gv
open Shentu Shentu.Gov
set_option linter.unusedSimpArgs false
set_option linter.unusedVariables false

/-- what a list of deposit records holds in one denomination -/
def depSum (ds : List Deposit) (d : Denom) : Int := (ds.map (fun x => Coins.amountOf x.amount d)).sum

/-- the escrow invariant: every recorded deposit is a valid amount, and the module account holds at least the sum of
    all recorded deposits -/
structure Escrow (e : Env) (w : World) : Prop where
  valid : ∀ x ∈ w.g.deposits, Coins.isAnyNegative x.amount = false
  covered : ∀ d, depSum w.g.deposits d ≤ w.l.balOf e.modAddr d

theorem Escrow.congr {e : Env} {w w' : World} (h : Escrow e w) (hl : w'.l = w.l) (hd : w'.g.deposits = w.g.deposits) :
    Escrow e w' := ⟨by rw [hd]; exact h.valid, by rw [hd, hl]; exact h.covered⟩

theorem depSum_cons (x : Deposit) (ds : List Deposit) (d : Denom) :
    depSum (x :: ds) d = Coins.amountOf x.amount d + depSum ds d := by simp [depSum]

theorem depSum_nonneg (ds : List Deposit) (hv : ∀ x ∈ ds, Coins.isAnyNegative x.amount = false) (d : Denom) : 0 ≤ depSum ds d := by
  induction ds with
  | nil => simp [depSum]
  | cons x ds ih =>
    have h1 := Orc.amountOf_nonneg x.amount (hv x List.mem_cons_self) d
    have h2 := ih (fun y hy => hv y (List.mem_cons_of_mem _ hy))
    rw [depSum_cons]; omega

theorem depSum_split (p : Deposit → Bool) (ds : List Deposit) (d : Denom) :
    depSum ds d = depSum (ds.filter p) d + depSum (ds.filter (fun x => !(p x))) d := by
  induction ds with
  | nil => simp [depSum]
  | cons x ds ih =>
    simp only [depSum, List.filter_cons] at ih ⊢
    by_cases hp : p x <;> simp [hp, ih] <;> omega

/-! ## refunds -/

theorem refund_go_total (e : Env) : ∀ (ds : List Deposit) (l : Ledger),
    (∀ x ∈ ds, Coins.isAnyNegative x.amount = false) → (∀ d, depSum ds d ≤ l.balOf e.modAddr d) →
    ∃ l', refundDeposits.go e ds l = .ok l' ∧ ∀ d, l.balOf e.modAddr d - depSum ds d ≤ l'.balOf e.modAddr d := by
  intro ds
  induction ds with
  | nil => intro l _ _; exact ⟨l, by unfold refundDeposits.go; rfl, fun d => by simp [depSum]⟩
  | cons x ds ih =>
    intro l hv hc
    have hx := hv x List.mem_cons_self
    have hvs : ∀ y ∈ ds, Coins.isAnyNegative y.amount = false := fun y hy => hv y (List.mem_cons_of_mem _ hy)
    have hsend := Orc.send_total l e.modAddr x.depositor x.amount hx (by
      intro d
      have := hc d
      have := depSum_nonneg ds hvs d
      rw [depSum_cons] at *
      omega)
    unfold refundDeposits.go
    rw [hsend]
    dsimp only
    have hbal : ∀ d, l.balOf e.modAddr d - Coins.amountOf x.amount d ≤ (l.move e.modAddr x.depositor x.amount).balOf e.modAddr d := by
      intro d
      rw [Ledger.balOf_move]
      have := Orc.amountOf_nonneg x.amount hx d
      simp only [beq_self_eq_true, if_true]
      split <;> omega
    rcases ih (l.move e.modAddr x.depositor x.amount) hvs (by
      intro d
      have := hc d
      have := hbal d
      rw [depSum_cons] at *
      omega) with ⟨l', hl', hb'⟩
    refine ⟨l', hl', ?_⟩
    intro d
    have := hb' d
    have := hbal d
    rw [depSum_cons]
    omega

/-- `RefundDeposits` cannot panic under the escrow invariant, and keeps it -/
theorem refundDeposits_ok (e : Env) (w : World) (pid : Nat) (h : Escrow e w) :
    ∃ w', refundDeposits e w pid = .ok w' ∧ Escrow e w' := by
  have hv : ∀ x ∈ w.g.deposits.filter (·.pid == pid), Coins.isAnyNegative x.amount = false :=
    fun x hx => h.valid x (List.mem_filter.mp hx).1
  have hv2 : ∀ x ∈ w.g.deposits.filter (fun x => !(x.pid == pid)), Coins.isAnyNegative x.amount = false :=
    fun x hx => h.valid x (List.mem_filter.mp hx).1
  have hsplit := depSum_split (·.pid == pid) w.g.deposits
  rcases refund_go_total e (w.g.deposits.filter (·.pid == pid)) w.l hv (by
    intro d
    have := h.covered d
    have := depSum_nonneg _ hv2 d
    have := hsplit d
    omega) with ⟨l', hl', hb'⟩
  unfold refundDeposits
  dsimp only
  rw [hl']
  refine ⟨_, rfl, hv2, ?_⟩
  intro d
  have := h.covered d
  have := hb' d
  have := hsplit d
  show depSum (w.g.deposits.filter (fun x => !(x.pid == pid))) d ≤ l'.balOf e.modAddr d
  omega

/-! ## burns -/

theorem foldl_add_amount (ds : List Deposit) : ∀ (acc : Coins) (d : Denom),
    Coins.amountOf (ds.foldl (fun acc x => Coins.add acc x.amount) acc) d = Coins.amountOf acc d + depSum ds d := by
  induction ds with
  | nil => intro acc d; simp [depSum]
  | cons x xs ih =>
    intro acc d
    simp only [List.foldl_cons, ih, Coins.amountOf_add, depSum_cons]; omega

/-- `DeleteDeposits` (veto) cannot panic under the escrow invariant, and keeps it -/
theorem burnDeposits_ok (e : Env) (w : World) (pid : Nat) (h : Escrow e w) :
    ∃ w', burnDeposits e w pid = .ok w' ∧ Escrow e w' := by
  have hv2 : ∀ x ∈ w.g.deposits.filter (fun x => !(x.pid == pid)), Coins.isAnyNegative x.amount = false :=
    fun x hx => h.valid x (List.mem_filter.mp hx).1
  have hsplit := depSum_split (·.pid == pid) w.g.deposits
  have htot : ∀ d, Coins.amountOf ((w.g.deposits.filter (·.pid == pid)).foldl (fun acc x => Coins.add acc x.amount) ([] : Coins)) d =
      depSum (w.g.deposits.filter (·.pid == pid)) d := by
    intro d; rw [foldl_add_amount]; simp
  have hcov : Coins.covers (w.l.bal e.modAddr)
      ((w.g.deposits.filter (·.pid == pid)).foldl (fun acc x => Coins.add acc x.amount) ([] : Coins)) = true := by
    unfold Coins.covers
    apply List.all_eq_true.mpr
    intro d _
    have h1 := h.covered d
    have h2 := depSum_nonneg _ hv2 d
    have h3 := hsplit d
    have h4 := htot d
    unfold Ledger.balOf at h1
    simp only [decide_eq_true_eq, ge_iff_le]
    omega
  unfold burnDeposits
  dsimp only
  rw [hcov]
  simp only [Bool.not_true, Bool.false_eq_true, if_false]
  refine ⟨_, rfl, hv2, ?_⟩
  intro d
  show depSum (w.g.deposits.filter (fun x => !(x.pid == pid))) d ≤ (w.l.debit e.modAddr _).balOf e.modAddr d
  rw [Ledger.balOf_debit]
  have h1 := h.covered d
  have h3 := hsplit d
  have h4 := htot d
  simp only [beq_self_eq_true, if_true]
  omega

/-! ## the steps of the end-blocker -/

theorem runHandler_frame {w w' : World} {p : Proposal} (h : runHandler w p = .ok w') : w'.l = w.l ∧ w'.g = w.g := by
  unfold runHandler at h
  split at h
  · split at h
    · cases h
    · cases h; exact ⟨rfl, rfl⟩
  · cases h; exact ⟨rfl, rfl⟩

theorem finish_escrow (e : Env) (w : World) (p : Proposal) (pass : Bool) (t : Tally) (h : Escrow e w) :
    Escrow e (finish w p pass t) := by
  unfold finish
  split
  · split
    · rename_i w' hw'
      have ⟨h1, h2⟩ := runHandler_frame hw'
      exact h.congr h1 (by show (setP w'.g _).deposits = _; rw [setP_deposits, h2])
    · exact h.congr rfl (by show (setP w.g _).deposits = _; rw [setP_deposits])
  · exact h.congr rfl (by show (setP w.g _).deposits = _; rw [setP_deposits])

theorem stakeTally_deposits (e : Env) (g : State) (p : Proposal) (cd : Int) :
    (stakeTally e g p cd).2.2.2.deposits = g.deposits := by
  unfold stakeTally
  rfl

theorem processActive_ok (e : Env) (w : World) (p : Proposal) (h : Escrow e w) :
    ∃ w', processActive e w p = .ok w' ∧ Escrow e w' := by
  unfold processActive
  split
  · generalize securityTally w.g w.c p = st
    obtain ⟨pass, endVoting, t⟩ := st
    dsimp only
    split
    · refine ⟨_, rfl, h.congr rfl ?_⟩
      show (activateVotingPeriod e _ p).deposits = _
      unfold activateVotingPeriod
      rw [setP_deposits]
    · rcases refundDeposits_ok e w p.id h with ⟨w1, hw1, h1⟩
      rw [hw1]
      exact ⟨_, rfl, finish_escrow e w1 p pass t h1⟩
  · have hdep := stakeTally_deposits e w.g p 0
    generalize stakeTally e w.g p 0 = st at hdep
    obtain ⟨pass, veto, t, g1⟩ := st
    dsimp only at hdep ⊢
    have h0 : Escrow e { w with g := g1 } := h.congr rfl hdep
    split
    · rcases burnDeposits_ok e { w with g := g1 } p.id h0 with ⟨w2, hw2, h2⟩
      rw [hw2]
      exact ⟨_, rfl, finish_escrow e w2 p pass t h2⟩
    · rcases refundDeposits_ok e { w with g := g1 } p.id h0 with ⟨w2, hw2, h2⟩
      rw [hw2]
      exact ⟨_, rfl, finish_escrow e w2 p pass t h2⟩

theorem processSecurityVote_ok (e : Env) (w : World) (p : Proposal) (h : Escrow e w) :
    ∃ w', processSecurityVote e w p = .ok w' ∧ Escrow e w' := by
  unfold processSecurityVote
  split
  · exact ⟨w, rfl, h⟩
  · generalize securityTally w.g w.c p = st
    obtain ⟨pass, endVoting, t⟩ := st
    dsimp only
    split
    · exact ⟨w, rfl, h⟩
    · split
      · have hE : ∃ w1, (if Gen.Gov.earlyPassRefunds then refundDeposits e w p.id else .ok w) = .ok w1 ∧ Escrow e w1 := by
          split
          · exact refundDeposits_ok e w p.id h
          · exact ⟨w, rfl, h⟩
        rcases hE with ⟨w1, hw1, h1⟩
        rw [hw1]
        exact ⟨_, rfl, finish_escrow e w1 p true t h1⟩
      · refine ⟨_, rfl, h.congr rfl ?_⟩
        show (activateVotingPeriod e _ p).deposits = _
        unfold activateVotingPeriod
        rw [setP_deposits]

theorem dropInactive_ok (e : Env) (w : World) (p : Proposal) (h : Escrow e w) :
    ∃ w', refundDeposits e { w with g := delP w.g p.id } p.id = .ok w' ∧ Escrow e w' :=
  refundDeposits_ok e _ p.id (h.congr rfl rfl)

/-- a fold of total, invariant-preserving steps is total and preserves the invariant -/
theorem foldIds_ok (e : Env) (f : World → Proposal → Except Err World)
    (hf : ∀ w p, Escrow e w → ∃ w', f w p = .ok w' ∧ Escrow e w') :
    ∀ (ids : List Nat) (w : World), Escrow e w → ∃ w', foldIds f ids w = .ok w' ∧ Escrow e w' := by
  intro ids
  induction ids with
  | nil => intro w h; exact ⟨w, by unfold foldIds; rfl, h⟩
  | cons id ids ih =>
    intro w h
    unfold foldIds
    cases hp : findP w.g id with
    | none => exact ih w h
    | some p =>
      dsimp only
      rcases hf w p h with ⟨w1, hw1, h1⟩
      rw [hw1]
      exact ih w1 h1

/-- **governance's `EndBlocker` never halts** under the escrow invariant, and keeps it -/
theorem endBlock_total (e : Env) (w : World) (h : Escrow e w) : ∃ w', endBlock e w = .ok w' ∧ Escrow e w' := by
  unfold endBlock
  dsimp only
  split
  · rename_i x hx
    rcases foldIds_ok e _ (dropInactive_ok e) _ w h with ⟨w1, hw1, _⟩
    rw [hw1] at hx; cases hx
  · rename_i w1 hw1
    have h1 : Escrow e w1 := by
      rcases foldIds_ok e _ (dropInactive_ok e) _ w h with ⟨w1', hw1', h1'⟩
      rw [hw1'] at hw1; injection hw1 with hw1; rw [← hw1]; exact h1'
    split
    · rename_i x hx
      rcases foldIds_ok e _ (processActive_ok e) _ w1 h1 with ⟨w2, hw2, _⟩
      rw [hw2] at hx; cases hx
    · rename_i w2 hw2
      have h2 : Escrow e w2 := by
        rcases foldIds_ok e _ (processActive_ok e) _ w1 h1 with ⟨w2', hw2', h2'⟩
        rw [hw2'] at hw2; injection hw2 with hw2; rw [← hw2]; exact h2'
      exact foldIds_ok e _ (processSecurityVote_ok e) _ w2 h2


/-! ## the messages keep the escrow invariant -/

theorem not_anyNegative_of_nonneg (c : Coins) (h : ∀ d, 0 ≤ Coins.amountOf c d) : Coins.isAnyNegative c = false := by
  unfold Coins.isAnyNegative
  apply List.any_eq_false.mpr
  intro d _
  have := h d
  simp only [decide_eq_true_eq]
  omega

theorem upsertDeposit_valid (pid : Nat) (a : Addr) (amt : Coins) (hamt : Coins.isAnyNegative amt = false) :
    ∀ (ds : List Deposit), (∀ x ∈ ds, Coins.isAnyNegative x.amount = false) →
      ∀ x ∈ upsertDeposit pid a amt ds, Coins.isAnyNegative x.amount = false := by
  intro ds
  induction ds with
  | nil =>
    intro _ x hx
    simp only [upsertDeposit, List.mem_singleton] at hx
    rw [hx]; exact hamt
  | cons y ys ih =>
    intro hv x hx
    unfold upsertDeposit at hx
    split at hx
    · rcases List.mem_cons.mp hx with h | h
      · rw [h]
        apply not_anyNegative_of_nonneg
        intro d
        have h1 := Orc.amountOf_nonneg y.amount (hv y List.mem_cons_self) d
        have h2 := Orc.amountOf_nonneg amt hamt d
        show 0 ≤ Coins.amountOf (Coins.add y.amount amt) d
        rw [Coins.amountOf_add]; omega
      · exact hv x (List.mem_cons_of_mem _ h)
    · rcases List.mem_cons.mp hx with h | h
      · rw [h]; exact hv y List.mem_cons_self
      · exact ih (fun z hz => hv z (List.mem_cons_of_mem _ hz)) x h

theorem depSum_upsert (pid : Nat) (a : Addr) (amt : Coins) (d : Denom) :
    ∀ (ds : List Deposit), depSum (upsertDeposit pid a amt ds) d = depSum ds d + Coins.amountOf amt d := by
  intro ds
  induction ds with
  | nil => simp [upsertDeposit, depSum]
  | cons y ys ih =>
    unfold upsertDeposit
    split
    · rw [depSum_cons, depSum_cons]
      show Coins.amountOf (Coins.add y.amount amt) d + _ = _
      rw [Coins.amountOf_add]; omega
    · rw [depSum_cons, depSum_cons, ih]; omega

/-- `MsgDeposit`: the coins arrive in the module account and are recorded.  Side condition: the depositor is not the
    module account itself (it cannot sign transactions). -/
theorem addDeposit_escrow (e : Env) (w w' : World) (pid : Nat) (a : Addr) (amt : Coins)
    (h : addDeposit e w pid a amt = .ok w') (hne : a ≠ e.modAddr) (hi : Escrow e w) : Escrow e w' := by
  unfold addDeposit at h
  split at h; · cases h
  rename_i p hp
  split at h; · cases h
  split at h; · cases h
  rename_i l1 hsend
  have hl1 := Ledger.send_ok _ _ _ _ _ hsend
  have hamt := Shentu.Shield.PoolLm.send_not_anyNegative hsend
  cases h
  have hdep : ∀ g2 : State, g2.deposits = w.g.deposits →
      Escrow e { w with l := l1, g := { g2 with deposits := upsertDeposit pid a amt g2.deposits } } := by
    intro g2 hg2
    refine ⟨?_, ?_⟩
    · show ∀ x ∈ upsertDeposit pid a amt g2.deposits, _
      rw [hg2]
      exact upsertDeposit_valid pid a amt hamt _ hi.valid
    · intro d
      show depSum (upsertDeposit pid a amt g2.deposits) d ≤ l1.balOf e.modAddr d
      rw [hg2, depSum_upsert, hl1, Ledger.balOf_move]
      have hm : (a == e.modAddr) = false := by simpa using hne
      have := hi.covered d
      simp only [hm, Bool.false_eq_true, if_false, beq_self_eq_true, if_true]
      omega
  dsimp only
  split
  · apply hdep
    unfold activateVotingPeriod
    rw [setP_deposits, setP_deposits]
  · apply hdep
    rw [setP_deposits]

/-- `MsgSubmitProposal` -/
theorem submit_escrow (e : Env) (w w' : World) (proposer : Addr) (p0 : Proposal) (deposit : Coins)
    (h : submit e w proposer p0 deposit = .ok w') (hne : proposer ≠ e.modAddr) (hi : Escrow e w) : Escrow e w' := by
  unfold submit at h
  dsimp only at h
  split at h; · cases h
  split at h; · cases h
  split at h; · cases h
  split at h; · cases h
  split at h
  · cases h
    refine hi.congr rfl ?_
    show (activateVotingPeriod e _ _).deposits = _
    unfold activateVotingPeriod
    rw [setP_deposits]
    show (setP w.g _).deposits = _
    rw [setP_deposits]
  · refine addDeposit_escrow e _ w' _ proposer deposit h hne (hi.congr rfl ?_)
    show (setP w.g _).deposits = _
    rw [setP_deposits]

/-- `MsgVote` -/
theorem vote_escrow (e : Env) (w w' : World) (pid : Nat) (voter : Addr) (option : Nat)
    (h : vote w pid voter option = .ok w') (hi : Escrow e w) : Escrow e w' := by
  unfold vote at h
  ok_cases h
  cases h
  exact hi.congr rfl rfl

end Shentu.Halt.Gv
