import Shentu.Model.GenesisGov
import Shentu.Proofs.C11HLemmas
/-
  C20 for x/gov: helper lemmas.  Part 1: grouping of records by proposal and the overwrite-upsert of the import.
-/
namespace Shentu.C20GGovH
open Shentu Shentu.Gov Shentu.Genesis.Gov
set_option linter.unusedSimpArgs false
set_option linter.unusedVariables false

/-! ## the overwrite-upsert -/

theorem upsert_fresh {α : Type} (same : α → α → Bool) (x : α) :
    ∀ (l : List α), (∀ a ∈ l, same a x = false) → upsert same x l = l ++ [x] := by
  intro l
  induction l with
  | nil => intro _; rfl
  | cons y ys ih =>
    intro h
    have hy : same y x = false := h y (List.mem_cons_self ..)
    simp only [upsert, hy, Bool.false_eq_true, if_false, List.cons_append]
    rw [ih (fun a ha => h a (List.mem_cons_of_mem _ ha))]

theorem foldl_upsert {α : Type} (same : α → α → Bool) :
    ∀ (l acc : List α), l.Pairwise (fun a b => same a b = false) → (∀ a ∈ acc, ∀ b ∈ l, same a b = false) →
      l.foldl (fun acc x => upsert same x acc) acc = acc ++ l := by
  intro l
  induction l with
  | nil => intro acc _ _; simp
  | cons x xs ih =>
    intro acc hp hd
    rw [List.pairwise_cons] at hp
    simp only [List.foldl_cons]
    rw [upsert_fresh same x acc (fun a ha => hd a ha x (List.mem_cons_self ..))]
    rw [ih (acc ++ [x]) hp.2]
    · simp
    · intro a ha b hb
      rcases List.mem_append.mp ha with ha | ha
      · exact hd a ha b (List.mem_cons_of_mem _ hb)
      · have : a = x := by simpa using ha
        subst this; exact hp.1 b hb

theorem foldl_upsert_nil {α : Type} (same : α → α → Bool) (l : List α) (h : l.Pairwise (fun a b => same a b = false)) :
    l.foldl (fun acc x => upsert same x acc) [] = l := by
  have := foldl_upsert same l [] h (fun a ha => absurd ha List.not_mem_nil)
  simpa using this

/-! ## grouping by proposal -/

/-- records grouped by proposal, generically in the record type -/
def group {α : Type} (key : α → Nat) (ps : List Proposal) (xs : List α) : List α :=
  ps.flatMap (fun p => xs.filter (fun x => key x == p.id))

theorem groupDeposits_eq (ps : List Proposal) (ds : List Deposit) : groupDeposits ps ds = group (·.pid) ps ds := rfl
theorem groupVotes_eq (ps : List Proposal) (vs : List Vote) : groupVotes ps vs = group (·.pid) ps vs := rfl

theorem group_cons {α : Type} (key : α → Nat) (p : Proposal) (ps : List Proposal) (xs : List α) :
    group key (p :: ps) xs = xs.filter (fun x => key x == p.id) ++ group key ps xs := by
  simp [group]

theorem mem_group {α : Type} (key : α → Nat) (ps : List Proposal) (xs : List α) (x : α) :
    x ∈ group key ps xs ↔ x ∈ xs ∧ ∃ p ∈ ps, p.id = key x := by
  unfold group
  simp only [List.mem_flatMap, List.mem_filter, beq_iff_eq]
  constructor
  · rintro ⟨p, hp, hx, hk⟩; exact ⟨hx, p, hp, hk.symm⟩
  · rintro ⟨hx, p, hp, hk⟩; exact ⟨p, hp, hx, hk.symm⟩

/-- the records of one proposal inside the grouped list: unchanged if the proposal is listed, none otherwise -/
theorem filter_group {α : Type} (key : α → Nat) (xs : List α) (q : Nat) :
    ∀ (ps : List Proposal), ps.Pairwise (fun a b => sameProposal a b = false) →
      (group key ps xs).filter (fun x => key x == q)
        = if ps.any (fun p => p.id == q) then xs.filter (fun x => key x == q) else [] := by
  intro ps
  induction ps with
  | nil => intro _; simp [group]
  | cons p ps ih =>
    intro hp
    rw [List.pairwise_cons] at hp
    rw [group_cons, List.filter_append, ih hp.2, List.filter_filter]
    by_cases hq : p.id = q
    · have hno : ps.any (fun p' => p'.id == q) = false := by
        rw [List.any_eq_false]
        intro p' hp'
        have := hp.1 p' hp'
        simp only [sameProposal, beq_eq_false_iff_ne] at this
        simp only [beq_iff_eq]
        intro h; exact this (hq.trans h.symm)
      subst hq
      simp only [hno, List.any_cons, beq_self_eq_true, Bool.true_or, if_true, Bool.false_eq_true, if_false,
        List.append_nil]
      congr 1
      funext x
      by_cases hx : key x = p.id <;> simp [hx]
    · have h1 : (p.id == q) = false := by simpa using hq
      have h2 : xs.filter (fun a => (key a == q) && (key a == p.id)) = [] := by
        rw [List.filter_eq_nil_iff]
        intro a _
        simp only [Bool.and_eq_true, beq_iff_eq, not_and]
        intro h3 h4; exact hq (h4.symm.trans h3)
      simp only [h2, List.any_cons, h1, Bool.false_or, List.nil_append]

theorem group_group {α : Type} (key : α → Nat) (ps : List Proposal) (xs : List α)
    (hp : ps.Pairwise (fun a b => sameProposal a b = false)) :
    group key ps (group key ps xs) = group key ps xs := by
  show List.flatMap _ ps = List.flatMap _ ps
  rw [List.flatMap_def, List.flatMap_def]
  congr 1
  apply List.map_congr_left
  intro p hpm
  rw [filter_group key xs p.id ps hp]
  have : ps.any (fun p' => p'.id == p.id) = true := by
    rw [List.any_eq_true]; exact ⟨p, hpm, by simp⟩
  simp [this]

/-- grouped records have pairwise different keys when the records and the proposal ids do -/
theorem group_pairwise {α : Type} (key : α → Nat) (same : α → α → Bool)
    (hsame : ∀ a b, key a ≠ key b → same a b = false)
    (ps : List Proposal) (xs : List α)
    (hp : ps.Pairwise (fun a b => sameProposal a b = false))
    (hx : xs.Pairwise (fun a b => same a b = false)) :
    (group key ps xs).Pairwise (fun a b => same a b = false) := by
  unfold group
  rw [List.pairwise_flatMap]
  refine ⟨fun p _ => hx.filter _, ?_⟩
  refine hp.imp ?_
  intro p1 p2 h12 x hx1 y hy1
  simp only [List.mem_filter, beq_iff_eq] at hx1 hy1
  apply hsame
  rw [hx1.2, hy1.2]
  simpa [sameProposal] using h12

theorem sameDeposit_of_pid (a b : Deposit) (h : a.pid ≠ b.pid) : sameDeposit a b = false := by
  simp [sameDeposit, h]
theorem sameVote_of_pid (a b : Vote) (h : a.pid ≠ b.pid) : sameVote a b = false := by
  simp [sameVote, h]

/-! ## import after export -/

theorem initGenesis_export (g : State) (h : WFG g) : initGenesis (exportGenesis g) = normalise g := by
  obtain ⟨ps, ds, vs, n, pr⟩ := g
  simp only [initGenesis, exportGenesis, normalise, State.mk.injEq, and_true, true_and]
  refine ⟨foldl_upsert_nil _ _ h.ids, foldl_upsert_nil _ _ ?_, foldl_upsert_nil _ _ ?_⟩
  · exact group_pairwise (·.pid) sameDeposit sameDeposit_of_pid ps ds h.ids h.depKeys
  · exact group_pairwise (·.pid) sameVote sameVote_of_pid ps vs h.ids h.voteKeys

theorem normalise_normalise (g : State) (h : g.proposals.Pairwise (fun a b => sameProposal a b = false)) :
    normalise (normalise g) = normalise g := by
  obtain ⟨ps, ds, vs, n, pr⟩ := g
  simp only [normalise, State.mk.injEq, and_true, true_and, groupDeposits_eq, groupVotes_eq]
  exact ⟨group_group _ ps ds h, group_group _ ps vs h⟩

theorem export_normalise (g : State) (h : g.proposals.Pairwise (fun a b => sameProposal a b = false)) :
    exportGenesis (normalise g) = exportGenesis g := by
  obtain ⟨ps, ds, vs, n, pr⟩ := g
  simp only [normalise, exportGenesis, Genesis.mk.injEq, and_true, true_and, groupDeposits_eq, groupVotes_eq]
  exact ⟨group_group _ ps ds h, group_group _ ps vs h⟩

/-! ## well-formedness of the grouped state -/

theorem WFG_normalise (g : State) (h : WFG g) : WFG (normalise g) := by
  refine ⟨?_, ?_, h.ids, ?_, ?_⟩
  · exact group_pairwise (·.pid) sameDeposit sameDeposit_of_pid _ _ h.ids h.depKeys
  · exact group_pairwise (·.pid) sameVote sameVote_of_pid _ _ h.ids h.voteKeys
  · intro d hd
    exact h.depOwned d (((mem_group Deposit.pid g.proposals g.deposits d).mp hd).1)
  · intro v hv
    exact h.voteOwned v (((mem_group Vote.pid g.proposals g.votes v).mp hv).1)

theorem WFH_normalise (g : State) (h : WFH g) : WFH (normalise g) := by
  refine { toWFG := WFG_normalise g h.toWFG, fresh := h.fresh, voteStarted := ?_ }
  intro v hv
  exact h.voteStarted v (((mem_group Vote.pid g.proposals g.votes v).mp hv).1)

/-! ## the equivalence -/

theorem equiv_refl (a : State) : Equiv a a := ⟨rfl, rfl, rfl, fun _ => rfl, fun _ => rfl⟩
theorem equiv_symm {a b : State} (h : Equiv a b) : Equiv b a :=
  ⟨h.1.symm, h.2.1.symm, h.2.2.1.symm, fun p => (h.2.2.2.1 p).symm, fun p => (h.2.2.2.2 p).symm⟩
theorem equiv_trans {a b c : State} (h : Equiv a b) (k : Equiv b c) : Equiv a c :=
  ⟨h.1.trans k.1, h.2.1.trans k.2.1, h.2.2.1.trans k.2.2.1, fun p => (h.2.2.2.1 p).trans (k.2.2.2.1 p),
    fun p => (h.2.2.2.2 p).trans (k.2.2.2.2 p)⟩

theorem equivW_refl (a : World) : EquivW a a := ⟨rfl, rfl, equiv_refl _⟩
theorem equivW_symm {a b : World} (h : EquivW a b) : EquivW b a := ⟨h.1.symm, h.2.1.symm, equiv_symm h.2.2⟩
theorem equivW_trans {a b c : World} (h : EquivW a b) (k : EquivW b c) : EquivW a c :=
  ⟨h.1.trans k.1, h.2.1.trans k.2.1, equiv_trans h.2.2 k.2.2⟩

theorem filter_group_owned {α : Type} (key : α → Nat) (ps : List Proposal) (xs : List α)
    (hp : ps.Pairwise (fun a b => sameProposal a b = false))
    (ho : ∀ x ∈ xs, ∃ p ∈ ps, p.id = key x) (q : Nat) :
    xs.filter (fun x => key x == q) = (group key ps xs).filter (fun x => key x == q) := by
  rw [filter_group key xs q ps hp]
  split
  · rfl
  · rename_i hno
    rw [List.filter_eq_nil_iff]
    intro a ha hk
    obtain ⟨p, hp1, hp2⟩ := ho a ha
    apply hno
    rw [List.any_eq_true]
    exact ⟨p, hp1, by simp only [beq_iff_eq] at hk ⊢; exact hp2.trans hk⟩

theorem equiv_normalise (g : State) (h : WFG g) : Equiv g (normalise g) :=
  ⟨rfl, rfl, rfl, fun q => filter_group_owned Deposit.pid _ _ h.ids h.depOwned q,
    fun q => filter_group_owned Vote.pid _ _ h.ids h.voteOwned q⟩

/-! ## Part 2: every operation respects the equivalence -/

theorem relE_err (k : String) : RelE (err k) (err k) := rfl
theorem relE_error (x : Err) : RelE (.error x) (.error x) := rfl
theorem relE_ok {a b : World} (h : EquivW a b) : RelE (.ok a) (.ok b) := h

theorem relE_cases {x y : Except Err World} (h : RelE x y) :
    (∃ e, x = .error e ∧ y = .error e) ∨ (∃ a b, x = .ok a ∧ y = .ok b ∧ EquivW a b) := by
  cases x with
  | error s => cases y with
    | error t => left; exact ⟨s, rfl, by simp only [RelE] at h; rw [h]⟩
    | ok b => exact absurd h (by simp [RelE])
  | ok a => cases y with
    | error t => exact absurd h (by simp [RelE])
    | ok b => right; exact ⟨a, b, rfl, rfl, h⟩

theorem relE_refl (x : Except Err World) : RelE x x := by
  cases x with
  | error s => rfl
  | ok a => exact equivW_refl a

/-! ### records of one proposal after an update of the list -/

theorem filter_upsertDeposit (pid : Nat) (a : Addr) (amt : Coins) (q : Nat) : ∀ ds : List Deposit,
    (upsertDeposit pid a amt ds).filter (·.pid == q)
      = if pid = q then upsertDeposit pid a amt (ds.filter (·.pid == pid)) else ds.filter (·.pid == q) := by
  intro ds
  induction ds with
  | nil => by_cases h3 : pid = q <;> simp [upsertDeposit, h3]
  | cons d ds ih =>
    by_cases h1 : d.pid = pid <;> by_cases h2 : d.depositor = a <;> by_cases h3 : pid = q <;>
      simp_all [upsertDeposit, List.filter_cons]

theorem filter_setVote (pid : Nat) (a : Addr) (o : Nat) (q : Nat) : ∀ vs : List Vote,
    (setVote pid a o vs).filter (·.pid == q)
      = if pid = q then setVote pid a o (vs.filter (·.pid == pid)) else vs.filter (·.pid == q) := by
  intro vs
  induction vs with
  | nil => by_cases h3 : pid = q <;> simp [setVote, h3]
  | cons d ds ih =>
    by_cases h1 : d.pid = pid <;> by_cases h2 : d.voter = a <;> by_cases h3 : pid = q <;>
      simp_all [setVote, List.filter_cons]

theorem filter_drop {α : Type} (key : α → Nat) (pid q : Nat) (xs : List α) :
    (xs.filter (fun x => !(key x == pid))).filter (fun x => key x == q)
      = if pid = q then [] else xs.filter (fun x => key x == q) := by
  rw [List.filter_filter]
  split
  · rename_i h; subst h
    rw [List.filter_eq_nil_iff]; intro a _; simp
  · rename_i h
    apply List.filter_congr
    intro x _
    by_cases hx : key x = q
    · have : ¬ q = pid := fun h' => h h'.symm
      simp [hx, this]
    · simp [hx]

/-! ### the proposal store -/

theorem findP_equiv {a b : State} (h : Equiv a b) (id : Nat) : findP a id = findP b id := by
  unfold findP; rw [h.1]

theorem setP_equiv {a b : State} (h : Equiv a b) (p : Proposal) : Equiv (setP a p) (setP b p) := by
  unfold setP
  rw [findP_equiv h]
  split
  · exact ⟨by show List.map _ a.proposals = List.map _ b.proposals; rw [h.1], h.2.1, h.2.2.1, h.2.2.2.1, h.2.2.2.2⟩
  · exact ⟨by show a.proposals ++ _ = b.proposals ++ _; rw [h.1], h.2.1, h.2.2.1, h.2.2.2.1, h.2.2.2.2⟩

theorem delP_equiv {a b : State} (h : Equiv a b) (id : Nat) : Equiv (delP a id) (delP b id) := by
  unfold delP
  exact ⟨by show List.filter _ a.proposals = List.filter _ b.proposals; rw [h.1], h.2.1, h.2.2.1, h.2.2.2.1, h.2.2.2.2⟩

theorem activated_equiv (e : Env) {a b : State} (h : Equiv a b) (p : Proposal) : activated e a p = activated e b p := by
  unfold activated; rw [h.2.2.1]

theorem activate_equiv (e : Env) {a b : State} (h : Equiv a b) (p : Proposal) :
    Equiv (activateVotingPeriod e a p) (activateVotingPeriod e b p) := by
  unfold activateVotingPeriod
  rw [activated_equiv e h]
  exact setP_equiv h _

theorem dropVotes_equiv {a b : State} (h : Equiv a b) (pid : Nat) :
    Equiv { a with votes := a.votes.filter (fun v => !(v.pid == pid)) }
          { b with votes := b.votes.filter (fun v => !(v.pid == pid)) } := by
  refine ⟨h.1, h.2.1, h.2.2.1, h.2.2.2.1, ?_⟩
  intro q
  show List.filter _ (List.filter _ a.votes) = List.filter _ (List.filter _ b.votes)
  rw [filter_drop Vote.pid pid q a.votes, filter_drop Vote.pid pid q b.votes, h.2.2.2.2 q]

theorem dropDeposits_equiv {a b : State} (h : Equiv a b) (pid : Nat) :
    Equiv { a with deposits := a.deposits.filter (fun v => !(v.pid == pid)) }
          { b with deposits := b.deposits.filter (fun v => !(v.pid == pid)) } := by
  refine ⟨h.1, h.2.1, h.2.2.1, ?_, h.2.2.2.2⟩
  intro q
  show List.filter _ (List.filter _ a.deposits) = List.filter _ (List.filter _ b.deposits)
  rw [filter_drop Deposit.pid pid q a.deposits, filter_drop Deposit.pid pid q b.deposits, h.2.2.2.1 q]

theorem upsertDeposit_equiv {a b : State} (h : Equiv a b) (pid : Nat) (d : Addr) (amt : Coins) :
    Equiv { a with deposits := upsertDeposit pid d amt a.deposits }
          { b with deposits := upsertDeposit pid d amt b.deposits } := by
  refine ⟨h.1, h.2.1, h.2.2.1, ?_, h.2.2.2.2⟩
  intro q
  show List.filter _ (upsertDeposit pid d amt a.deposits) = List.filter _ (upsertDeposit pid d amt b.deposits)
  rw [filter_upsertDeposit, filter_upsertDeposit, h.2.2.2.1 q, h.2.2.2.1 pid]

theorem setVote_equiv {a b : State} (h : Equiv a b) (pid : Nat) (v : Addr) (o : Nat) :
    Equiv { a with votes := setVote pid v o a.votes } { b with votes := setVote pid v o b.votes } := by
  refine ⟨h.1, h.2.1, h.2.2.1, h.2.2.2.1, ?_⟩
  intro q
  show List.filter _ (setVote pid v o a.votes) = List.filter _ (setVote pid v o b.votes)
  rw [filter_setVote, filter_setVote, h.2.2.2.2 q, h.2.2.2.2 pid]

/-! ### vote, deposit -/

theorem vote_equiv {a b : World} (h : EquivW a b) (pid : Nat) (v : Addr) (o : Nat) :
    RelE (vote a pid v o) (vote b pid v o) := by
  unfold vote
  rw [findP_equiv h.2.2, h.2.1]
  split
  · exact relE_err _
  · cases findP b.g pid with
    | none => exact relE_err _
    | some p =>
      dsimp only
      split
      · exact relE_err _
      · split
        · exact relE_err _
        · split
          · exact relE_err _
          · split
            · exact relE_err _
            · exact relE_ok ⟨h.1, rfl, setVote_equiv h.2.2 pid v o⟩

theorem addDeposit_equiv (e : Env) {a b : World} (h : EquivW a b) (pid : Nat) (dep : Addr) (amt : Coins) :
    RelE (addDeposit e a pid dep amt) (addDeposit e b pid dep amt) := by
  unfold addDeposit
  rw [findP_equiv h.2.2, h.1]
  cases findP b.g pid with
  | none => exact relE_err _
  | some p =>
    dsimp only
    split
    · exact relE_err _
    · cases b.l.send dep e.modAddr amt with
      | error x => exact relE_error x
      | ok l' =>
        dsimp only
        apply relE_ok
        have hg1 := setP_equiv h.2.2 { p with totalDeposit := Coins.add p.totalDeposit amt }
        refine ⟨rfl, h.2.1, ?_⟩
        dsimp only
        rw [hg1.2.2.1]
        split
        · exact upsertDeposit_equiv (activate_equiv e hg1 _) pid dep amt
        · exact upsertDeposit_equiv hg1 pid dep amt

/-! ### refunds, burns, tallies -/

theorem refundDeposits_equiv (e : Env) {a b : World} (h : EquivW a b) (pid : Nat) :
    RelE (refundDeposits e a pid) (refundDeposits e b pid) := by
  unfold refundDeposits
  dsimp only
  rw [h.2.2.2.2.2.1 pid, h.1]
  cases refundDeposits.go e (List.filter (fun x => x.pid == pid) b.g.deposits) b.l with
  | error x => exact relE_error x
  | ok l' => exact relE_ok ⟨rfl, h.2.1, dropDeposits_equiv h.2.2 pid⟩

theorem burnDeposits_equiv (e : Env) {a b : World} (h : EquivW a b) (pid : Nat) :
    RelE (burnDeposits e a pid) (burnDeposits e b pid) := by
  unfold burnDeposits
  dsimp only
  rw [h.2.2.2.2.2.1 pid, h.1]
  split
  · exact relE_refl _
  · exact relE_ok ⟨rfl, h.2.1, dropDeposits_equiv h.2.2 pid⟩

theorem securityTally_equiv {a b : State} (h : Equiv a b) (c : Cert.State) (p : Proposal) :
    securityTally a c p = securityTally b c p := by
  have hf : ∀ l : List Vote, l.filter (fun v => v.pid == p.id && v.option != 0 && Cert.isCertifier c v.voter)
      = (l.filter (fun v => v.pid == p.id)).filter (fun v => v.option != 0 && Cert.isCertifier c v.voter) := by
    intro l
    rw [List.filter_filter]
    apply List.filter_congr
    intro x _
    cases (x.pid == p.id) <;> cases (x.option != 0) <;> cases (Cert.isCertifier c x.voter) <;> rfl
  unfold securityTally
  dsimp only
  rw [hf a.votes, hf b.votes, h.2.2.2.2 p.id, h.2.2.1]

theorem stakeTally_equiv (e : Env) {a b : State} (h : Equiv a b) (p : Proposal) (cd : Int) :
    (stakeTally e a p cd).1 = (stakeTally e b p cd).1 ∧ (stakeTally e a p cd).2.1 = (stakeTally e b p cd).2.1 ∧
    (stakeTally e a p cd).2.2.1 = (stakeTally e b p cd).2.2.1 ∧
    Equiv (stakeTally e a p cd).2.2.2 (stakeTally e b p cd).2.2.2 := by
  unfold stakeTally
  dsimp only
  rw [h.2.2.2.2 p.id, h.2.2.1]
  exact ⟨rfl, rfl, rfl, ⟨h.1, h.2.1, rfl, h.2.2.2.1, (dropVotes_equiv h p.id).2.2.2.2⟩⟩

theorem runHandler_equiv {a b : World} (h : EquivW a b) (p : Proposal) : RelE (runHandler a p) (runHandler b p) := by
  unfold runHandler
  rw [h.2.1]
  split
  · cases Cert.handleUpdate b.c p.cuCertifier p.cuAlias p.cuProposer p.cuAdd with
    | error x => exact relE_error x
    | ok c' => exact relE_ok ⟨h.1, rfl, h.2.2⟩
  · exact relE_ok h

theorem finish_equiv {a b : World} (h : EquivW a b) (p : Proposal) (pass : Bool) (t : Tally) :
    EquivW (finish a p pass t) (finish b p pass t) := by
  unfold finish
  split
  · rcases relE_cases (runHandler_equiv h p) with ⟨x, hx, hy⟩ | ⟨a', b', hx, hy, hab⟩
    · rw [hx, hy]; exact ⟨h.1, h.2.1, setP_equiv h.2.2 _⟩
    · rw [hx, hy]; exact ⟨hab.1, hab.2.1, setP_equiv hab.2.2 _⟩
  · exact ⟨h.1, h.2.1, setP_equiv h.2.2 _⟩

theorem processActive_equiv (e : Env) {a b : World} (h : EquivW a b) (p : Proposal) :
    RelE (processActive e a p) (processActive e b p) := by
  unfold processActive
  split
  · rw [securityTally_equiv h.2.2, h.2.1]
    rcases securityTally b.g b.c p with ⟨pass, ev, t⟩
    dsimp only
    split
    · exact relE_ok ⟨h.1, rfl, activate_equiv e (dropVotes_equiv h.2.2 p.id) p⟩
    · rcases relE_cases (refundDeposits_equiv e h p.id) with ⟨x, hx, hy⟩ | ⟨a', b', hx, hy, hab⟩
      · rw [hx, hy]; exact relE_error x
      · rw [hx, hy]; exact relE_ok (finish_equiv hab p pass t)
  · obtain ⟨h1, h2, h3, h4⟩ := stakeTally_equiv e h.2.2 p 0
    rcases hsa : stakeTally e a.g p 0 with ⟨pass, veto, t, g1⟩
    rcases hsb : stakeTally e b.g p 0 with ⟨pass', veto', t', g1'⟩
    rw [hsa, hsb] at h1 h2 h3 h4
    dsimp only at h1 h2 h3 h4 ⊢
    subst h1 h2 h3
    have hw : EquivW { a with g := g1 } { b with g := g1' } := ⟨h.1, h.2.1, h4⟩
    split
    · rcases relE_cases (burnDeposits_equiv e hw p.id) with ⟨x, hx, hy⟩ | ⟨a', b', hx, hy, hab⟩
      · rw [hx, hy]; exact relE_error x
      · rw [hx, hy]; exact relE_ok (finish_equiv hab p pass t)
    · rcases relE_cases (refundDeposits_equiv e hw p.id) with ⟨x, hx, hy⟩ | ⟨a', b', hx, hy, hab⟩
      · rw [hx, hy]; exact relE_error x
      · rw [hx, hy]; exact relE_ok (finish_equiv hab p pass t)

theorem processSecurityVote_equiv (e : Env) {a b : World} (h : EquivW a b) (p : Proposal) :
    RelE (processSecurityVote e a p) (processSecurityVote e b p) := by
  unfold processSecurityVote
  split
  · exact relE_ok h
  · rw [securityTally_equiv h.2.2, h.2.1]
    rcases securityTally b.g b.c p with ⟨pass, ev, t⟩
    dsimp only
    split
    · exact relE_ok h
    · split
      · generalize Gen.Gov.earlyPassRefunds = er
        cases er with
        | true =>
          simp only [if_true]
          rcases relE_cases (refundDeposits_equiv e h p.id) with ⟨x, hx, hy⟩ | ⟨a', b', hx, hy, hab⟩
          · rw [hx, hy]; exact relE_error x
          · rw [hx, hy]; exact relE_ok (finish_equiv hab p true t)
        | false =>
          simp only [Bool.false_eq_true, if_false]
          exact relE_ok (finish_equiv h p true t)
      · exact relE_ok ⟨h.1, rfl, activate_equiv e (dropVotes_equiv h.2.2 p.id) p⟩

/-! ### the end blocker -/

theorem foldIds_equiv (f : World → Proposal → Except Err World)
    (hf : ∀ a b p, EquivW a b → RelE (f a p) (f b p)) :
    ∀ (ids : List Nat) (a b : World), EquivW a b → RelE (foldIds f ids a) (foldIds f ids b) := by
  intro ids
  induction ids with
  | nil => intro a b h; exact relE_ok h
  | cons id ids ih =>
    intro a b h
    simp only [foldIds]
    rw [findP_equiv h.2.2]
    cases findP b.g id with
    | none => exact ih a b h
    | some p =>
      dsimp only
      rcases relE_cases (hf a b p h) with ⟨x, hx, hy⟩ | ⟨a', b', hx, hy, hab⟩
      · rw [hx, hy]; exact relE_error x
      · rw [hx, hy]; exact ih a' b' hab

theorem dropStep_equiv (e : Env) (a b : World) (p : Proposal) (h : EquivW a b) :
    RelE (refundDeposits e { a with g := delP a.g p.id } p.id) (refundDeposits e { b with g := delP b.g p.id } p.id) := by
  have hw : EquivW { a with g := delP a.g p.id } { b with g := delP b.g p.id } := ⟨h.1, h.2.1, delP_equiv h.2.2 p.id⟩
  exact refundDeposits_equiv e hw p.id

theorem endBlock_equiv (e : Env) {a b : World} (h : EquivW a b) : RelE (endBlock e a) (endBlock e b) := by
  unfold endBlock
  dsimp only
  rw [h.2.2.1]
  rcases relE_cases (foldIds_equiv _ (dropStep_equiv e) _ a b h) with ⟨x, hx, hy⟩ | ⟨a1, b1, hx, hy, h1⟩
  · rw [hx, hy]; exact relE_error x
  · rw [hx, hy]
    dsimp only
    rw [h1.2.2.1]
    rcases relE_cases (foldIds_equiv _ (fun a b p hab => processActive_equiv e hab p) _ a1 b1 h1)
      with ⟨x, hx, hy⟩ | ⟨a2, b2, hx, hy, h2⟩
    · rw [hx, hy]; exact relE_error x
    · rw [hx, hy]
      dsimp only
      rw [h2.2.2.1]
      exact foldIds_equiv _ (fun a b p hab => processSecurityVote_equiv e hab p) _ a2 b2 h2

/-! ### submission -/

theorem bump_equiv {a b : State} (h : Equiv a b) (n : Nat) : Equiv { a with nextId := n } { b with nextId := n } :=
  ⟨h.1, rfl, h.2.2.1, h.2.2.2.1, h.2.2.2.2⟩

theorem submit_equiv (e : Env) {a b : World} (h : EquivW a b) (pr : Addr) (p0 : Proposal) (dep : Coins) :
    RelE (submit e a pr p0 dep) (submit e b pr p0 dep) := by
  unfold submit
  dsimp only
  rw [h.2.1, h.2.2.2.2.1, h.2.2.2.1]
  split
  · exact relE_err _
  · split
    · exact relE_err _
    · split
      · exact relE_err _
      · rcases relE_cases (runHandler_equiv h p0) with ⟨x, hx, hy⟩ | ⟨a', b', hx, hy, hab⟩
        · rw [hx, hy]; exact relE_err _
        · rw [hx, hy]
          dsimp only
          split
          · exact relE_ok ⟨h.1, rfl, activate_equiv e (bump_equiv (setP_equiv h.2.2 _) _) _⟩
          · refine addDeposit_equiv e ?_ _ _ _
            exact ⟨h.1, rfl, bump_equiv (setP_equiv h.2.2 _) _⟩

/-! ### histories -/

open Shentu.C11H (Ctx env Op stepW runW)

theorem stepW_equiv (m : Addr) {a b : World} (h : EquivW a b) (op : Op) : EquivW (stepW m a op) (stepW m b op) := by
  cases op with
  | submit x pr p0 dep =>
    simp only [stepW]
    by_cases hm : (pr == m) = true
    · simp only [hm, if_true]; exact h
    · simp only [hm, if_false, Bool.false_eq_true]
      rcases relE_cases (submit_equiv (env m x) h pr p0 dep) with ⟨x, hx, hy⟩ | ⟨a', b', hx, hy, hab⟩
      · rw [hx, hy]; exact h
      · rw [hx, hy]; exact hab
  | deposit x pid d amt =>
    simp only [stepW]
    by_cases hm : (d == m) = true
    · simp only [hm, if_true]; exact h
    · simp only [hm, if_false, Bool.false_eq_true]
      rcases relE_cases (addDeposit_equiv (env m x) h pid d amt) with ⟨x, hx, hy⟩ | ⟨a', b', hx, hy, hab⟩
      · rw [hx, hy]; exact h
      · rw [hx, hy]; exact hab
  | vote pid v o =>
    simp only [stepW]
    rcases relE_cases (vote_equiv h pid v o) with ⟨x, hx, hy⟩ | ⟨a', b', hx, hy, hab⟩
    · rw [hx, hy]; exact h
    · rw [hx, hy]; exact hab
  | endBlock x =>
    simp only [stepW]
    rcases relE_cases (endBlock_equiv (env m x) h) with ⟨x, hx, hy⟩ | ⟨a', b', hx, hy, hab⟩
    · rw [hx, hy]; exact h
    · rw [hx, hy]; exact hab
  | transfer s d amt =>
    simp only [stepW]
    by_cases hm : (s == m || d == m) = true
    · simp only [hm, if_true]; exact h
    · simp only [hm, if_false, Bool.false_eq_true]
      rw [h.1]
      cases b.l.send s d amt with
      | error x => exact h
      | ok l' => exact ⟨rfl, h.2.1, h.2.2⟩

theorem runW_equiv (m : Addr) (ops : List Op) : ∀ {a b : World}, EquivW a b → EquivW (runW m a ops) (runW m b ops) := by
  induction ops with
  | nil => intro a b h; exact h
  | cons op ops ih => intro a b h; exact ih (stepW_equiv m h op)

/-! ## Part 3: the escrow invariant of C11 on the grouped state -/

section EscrowPart

open Shentu.Halt.Gv (depSum depSum_split)
open Shentu.C11H (EscrowInv Live live_congr)

theorem depSum_append (l1 l2 : List Deposit) (d : Denom) : depSum (l1 ++ l2) d = depSum l1 d + depSum l2 d := by
  simp [depSum, List.map_append, List.sum_append]

theorem depSum_group (ds : List Deposit) (d : Denom) :
    ∀ (ps : List Proposal), ps.Pairwise (fun a b => sameProposal a b = false) →
      depSum (group Deposit.pid ps ds) d = depSum (ds.filter (fun x => ps.any (fun p => p.id == x.pid))) d := by
  intro ps
  induction ps with
  | nil =>
    intro _
    have : ds.filter (fun x => ([] : List Proposal).any (fun p => p.id == x.pid)) = [] := by
      rw [List.filter_eq_nil_iff]; intro a _; simp
    rw [this]; simp [group, depSum]
  | cons p ps ih =>
    intro hp
    rw [List.pairwise_cons] at hp
    rw [group_cons, depSum_append, ih hp.2]
    rw [depSum_split (fun x => x.pid == p.id) (ds.filter (fun x => (p :: ps).any (fun p' => p'.id == x.pid))) d]
    rw [List.filter_filter, List.filter_filter]
    congr 2
    · apply List.filter_congr
      intro x _
      by_cases hx : x.pid = p.id
      · simp [hx]
      · simp [hx]
    · apply List.filter_congr
      intro x _
      by_cases hx : x.pid = p.id
      · have hno : ps.any (fun p' => p'.id == x.pid) = false := by
          rw [List.any_eq_false]
          intro p' hp'
          have := hp.1 p' hp'
          simp only [sameProposal, beq_eq_false_iff_ne] at this
          simp only [beq_iff_eq]
          intro h; exact this (hx.symm.trans h.symm)
        have h1 : (x.pid == p.id) = true := by simpa using hx
        rw [hno]; simp [h1]
      · have h1 : (x.pid == p.id) = false := by simpa using hx
        have h2 : (p.id == x.pid) = false := by simpa using (fun h : p.id = x.pid => hx h.symm)
        simp [h1, h2]

theorem depSum_group_owned (ps : List Proposal) (ds : List Deposit) (d : Denom)
    (hp : ps.Pairwise (fun a b => sameProposal a b = false))
    (ho : ∀ x ∈ ds, ∃ p ∈ ps, p.id = x.pid) : depSum (groupDeposits ps ds) d = depSum ds d := by
  rw [groupDeposits_eq, depSum_group ds d ps hp]
  congr 1
  rw [List.filter_eq_self]
  intro x hx
  obtain ⟨p, hp1, hp2⟩ := ho x hx
  rw [List.any_eq_true]
  exact ⟨p, hp1, by simp [hp2]⟩

theorem escrow_normalise (m : Addr) (w : World) (hw : WFG w.g) (h : EscrowInv m w) :
    EscrowInv m { w with g := normalise w.g } := by
  have hmem : ∀ x ∈ (normalise w.g).deposits, x ∈ w.g.deposits := by
    intro x hx
    exact ((mem_group Deposit.pid w.g.proposals w.g.deposits x).mp hx).1
  refine ⟨?_, ?_, ?_, ?_⟩
  · intro d
    show w.l.balOf m d = depSum (groupDeposits w.g.proposals w.g.deposits) d
    rw [depSum_group_owned _ _ d hw.ids hw.depOwned]
    exact h.held d
  · intro x hx
    exact live_congr (g := w.g) (g' := normalise w.g) rfl (h.live x (hmem x hx))
  · intro x hx; exact h.valid x (hmem x hx)
  · intro x hx; exact h.foreign x (hmem x hx)

end EscrowPart

/-! ## Part 4: the two queues -/


/-! ### the key order -/

theorem keyLE_iff (a b : Int × Nat) : keyLE a b = true ↔ (a.1 < b.1 ∨ (a.1 = b.1 ∧ a.2 ≤ b.2)) := by
  simp [keyLE]

theorem keyLE_total (a b : Int × Nat) : keyLE a b = true ∨ keyLE b a = true := by
  rw [keyLE_iff, keyLE_iff]; omega

theorem keyLE_trans {a b c : Int × Nat} (h1 : keyLE a b = true) (h2 : keyLE b c = true) : keyLE a c = true := by
  rw [keyLE_iff] at *; omega

theorem keyLE_antisymm {a b : Int × Nat} (h1 : keyLE a b = true) (h2 : keyLE b a = true) : a = b := by
  rw [keyLE_iff] at *
  have h3 : a.1 = b.1 := by omega
  have h4 : a.2 = b.2 := by omega
  exact Prod.ext h3 h4

abbrev Sorted (l : List (Int × Nat)) : Prop := l.Pairwise (fun a b => keyLE a b = true)

/-- two sorted lists with the same entries are equal -/
theorem sorted_perm_eq {l₁ l₂ : List (Int × Nat)} (h1 : Sorted l₁) (h2 : Sorted l₂) (h : l₁.Perm l₂) : l₁ = l₂ :=
  List.Perm.eq_of_pairwise (fun _ _ _ _ hab hba => keyLE_antisymm hab hba) h1 h2 h

/-! ### insertion -/

theorem insertQueue_perm (k : Int × Nat) (l : List (Int × Nat)) : (insertQueue k l).Perm (k :: l) := by
  induction l with
  | nil => simp [insertQueue]
  | cons x xs ih =>
    unfold insertQueue
    split
    · exact List.Perm.refl _
    · exact ((List.Perm.cons x ih).trans (List.Perm.swap k x xs))

theorem insertQueue_sorted (k : Int × Nat) (l : List (Int × Nat)) (h : Sorted l) : Sorted (insertQueue k l) := by
  induction l with
  | nil => simp [insertQueue, Sorted]
  | cons x xs ih =>
    have hx := List.pairwise_cons.mp h
    unfold insertQueue
    split
    · rename_i hk
      refine List.pairwise_cons.mpr ⟨?_, h⟩
      intro y hy
      rcases List.mem_cons.mp hy with rfl | hy
      · exact hk
      · exact keyLE_trans hk (hx.1 y hy)
    · rename_i hk
      refine List.pairwise_cons.mpr ⟨?_, ih hx.2⟩
      intro y hy
      have hy' := (insertQueue_perm k xs).mem_iff.mp hy
      rcases List.mem_cons.mp hy' with rfl | hy'
      · rcases keyLE_total y x with h' | h'
        · exact absurd h' hk
        · exact h'
      · exact hx.1 y hy'

/-- inserting a list of keys one after the other, from the left -/
def insAll (acc : List (Int × Nat)) (ks : List (Int × Nat)) : List (Int × Nat) :=
  ks.foldl (fun acc k => insertQueue k acc) acc

theorem insAll_perm (ks : List (Int × Nat)) : ∀ acc, (insAll acc ks).Perm (acc ++ ks) := by
  induction ks with
  | nil => intro acc; simp [insAll]
  | cons k ks ih =>
    intro acc
    have h1 : insAll acc (k :: ks) = insAll (insertQueue k acc) ks := rfl
    rw [h1]
    refine (ih _).trans ?_
    refine ((insertQueue_perm k acc).append_right ks).trans ?_
    exact (List.perm_middle (l₁ := acc) (a := k) (l₂ := ks)).symm

theorem insAll_sorted (ks : List (Int × Nat)) : ∀ acc, Sorted acc → Sorted (insAll acc ks) := by
  induction ks with
  | nil => intro acc h; exact h
  | cons k ks ih =>
    intro acc h
    exact ih _ (insertQueue_sorted k acc h)

/-- inserting from the right -/
theorem foldr_perm (ks : List (Int × Nat)) : (ks.foldr insertQueue []).Perm ks := by
  induction ks with
  | nil => simp
  | cons k ks ih =>
    rw [List.foldr_cons]
    exact (insertQueue_perm k _).trans (List.Perm.cons k ih)

theorem foldr_sorted (ks : List (Int × Nat)) : Sorted (ks.foldr insertQueue []) := by
  induction ks with
  | nil => simp [Sorted]
  | cons k ks ih =>
    rw [List.foldr_cons]
    exact insertQueue_sorted k _ ih

/-! ### the rebuild, component by component -/

theorem foldl_enqueue_inactive (ps : List Proposal) : ∀ q : Queues,
    (ps.foldl enqueue q).inactive
      = insAll q.inactive ((ps.filter (fun p => p.status == 1)).map inactiveKey) := by
  induction ps with
  | nil => intro q; rfl
  | cons p ps ih =>
    intro q
    rw [List.foldl_cons, ih]
    by_cases h1 : (p.status == 1) = true
    · have : enqueue q p = { q with inactive := insertQueue (p.depositEnd, p.id) q.inactive } := by
        unfold enqueue; rw [if_pos h1]
      rw [this, List.filter_cons_of_pos (by simpa using h1)]
      rfl
    · have : (enqueue q p).inactive = q.inactive := by
        unfold enqueue; rw [if_neg h1]; split <;> rfl
      rw [this, List.filter_cons_of_neg (by simpa using h1)]

theorem foldl_enqueue_active (ps : List Proposal) : ∀ q : Queues,
    (ps.foldl enqueue q).active
      = insAll q.active ((ps.filter (fun p => p.status == 2 || p.status == 3)).map activeKey) := by
  induction ps with
  | nil => intro q; rfl
  | cons p ps ih =>
    intro q
    rw [List.foldl_cons, ih]
    by_cases h1 : (p.status == 1) = true
    · have h2 : ¬ ((p.status == 2 || p.status == 3) = true) := by
        have : p.status = 1 := by simpa using h1
        simp [this]
      have : enqueue q p = { q with inactive := insertQueue (p.depositEnd, p.id) q.inactive } := by
        unfold enqueue; rw [if_pos h1]
      have hf : (p :: ps).filter (fun p => p.status == 2 || p.status == 3)
          = ps.filter (fun p => p.status == 2 || p.status == 3) := List.filter_cons_of_neg h2
      rw [this, hf]
    · by_cases h2 : (p.status == 2 || p.status == 3) = true
      · have : enqueue q p = { q with active := insertQueue (p.votingEnd, p.id) q.active } := by
          unfold enqueue; rw [if_neg h1, if_pos h2]
        have hf : (p :: ps).filter (fun p => p.status == 2 || p.status == 3)
            = p :: ps.filter (fun p => p.status == 2 || p.status == 3) := List.filter_cons_of_pos h2
        rw [this, hf]
        rfl
      · have : enqueue q p = q := by
          unfold enqueue; rw [if_neg h1, if_neg h2]
        have hf : (p :: ps).filter (fun p => p.status == 2 || p.status == 3)
            = ps.filter (fun p => p.status == 2 || p.status == 3) := List.filter_cons_of_neg h2
        rw [this, hf]

theorem rebuild_inactive_eq (ps : List Proposal) :
    (rebuildQueues ps).inactive = insAll [] ((ps.filter (fun p => p.status == 1)).map inactiveKey) :=
  foldl_enqueue_inactive ps ⟨[], []⟩

theorem rebuild_active_eq (ps : List Proposal) :
    (rebuildQueues ps).active
      = insAll [] ((ps.filter (fun p => p.status == 2 || p.status == 3)).map activeKey) :=
  foldl_enqueue_active ps ⟨[], []⟩

/-- The rebuilt inactive queue is in key order. -/
theorem rebuild_inactive_sorted (ps : List Proposal) :
    (rebuildQueues ps).inactive.Pairwise (fun a b => keyLE a b = true) := by
  rw [rebuild_inactive_eq]; exact insAll_sorted _ [] List.Pairwise.nil

/-- The rebuilt active queue is in key order. -/
theorem rebuild_active_sorted (ps : List Proposal) :
    (rebuildQueues ps).active.Pairwise (fun a b => keyLE a b = true) := by
  rw [rebuild_active_eq]; exact insAll_sorted _ [] List.Pairwise.nil

/-- The rebuilt inactive queue holds exactly the entries of the proposals in deposit period. -/
theorem rebuild_inactive_perm (ps : List Proposal) :
    (rebuildQueues ps).inactive.Perm ((ps.filter (fun p => p.status == 1)).map inactiveKey) := by
  rw [rebuild_inactive_eq]; simpa using insAll_perm ((ps.filter (fun p => p.status == 1)).map inactiveKey) []

/-- The rebuilt active queue holds exactly the entries of the proposals in a voting period. -/
theorem rebuild_active_perm (ps : List Proposal) :
    (rebuildQueues ps).active.Perm ((ps.filter (fun p => p.status == 2 || p.status == 3)).map activeKey) := by
  rw [rebuild_active_eq]
  simpa using insAll_perm ((ps.filter (fun p => p.status == 2 || p.status == 3)).map activeKey) []

theorem queues_ext {a b : Queues} (h1 : a.inactive = b.inactive) (h2 : a.active = b.active) : a = b := by
  cases a; cases b; simp at h1 h2; simp [h1, h2]

/-- The rebuilt queues do not depend on the order of the proposals in the genesis file. -/
theorem rebuild_perm {ps ps' : List Proposal} (h : ps.Perm ps') : rebuildQueues ps = rebuildQueues ps' := by
  apply queues_ext
  · apply sorted_perm_eq (rebuild_inactive_sorted ps) (rebuild_inactive_sorted ps')
    exact (rebuild_inactive_perm ps).trans
      ((((h.filter _).map inactiveKey)).trans (rebuild_inactive_perm ps').symm)
  · apply sorted_perm_eq (rebuild_active_sorted ps) (rebuild_active_sorted ps')
    exact (rebuild_active_perm ps).trans
      ((((h.filter _).map activeKey)).trans (rebuild_active_perm ps').symm)

/-! ### the model's sort is insertion of keys -/

theorem insByKey_map (k : Proposal → Int) (p : Proposal) (l : List Proposal) :
    (insByKey k p l).map (fun q => (k q, q.id))
      = insertQueue (k p, p.id) (l.map (fun q => (k q, q.id))) := by
  induction l with
  | nil => rfl
  | cons x xs ih =>
    rw [List.map_cons]
    unfold insByKey insertQueue
    have hc : keyLE (k p, p.id) (k x, x.id) = (k p < k x || (k p == k x && p.id ≤ x.id)) := rfl
    rw [hc]
    split
    · rfl
    · rw [List.map_cons, ih]

theorem sortByKey_map (k : Proposal → Int) (l : List Proposal) :
    (sortByKey k l).map (fun q => (k q, q.id)) = (l.map (fun q => (k q, q.id))).foldr insertQueue [] := by
  induction l with
  | nil => rfl
  | cons x xs ih =>
    have : sortByKey k (x :: xs) = insByKey k x (sortByKey k xs) := rfl
    rw [this, insByKey_map, ih]; rfl

theorem sortByKey_map_sorted (k : Proposal → Int) (l : List Proposal) :
    Sorted ((sortByKey k l).map (fun q => (k q, q.id))) := by
  rw [sortByKey_map]; exact foldr_sorted _

theorem sortByKey_map_perm (k : Proposal → Int) (l : List Proposal) :
    ((sortByKey k l).map (fun q => (k q, q.id))).Perm (l.map (fun q => (k q, q.id))) := by
  rw [sortByKey_map]; exact foldr_perm _

/-- a sorted list with the same entries as the keys of `l` is the key list of the model's sort of `l` -/
theorem sortByKey_map_unique (k : Proposal → Int) (l : List Proposal) (q : List (Int × Nat))
    (hs : Sorted q) (hp : q.Perm (l.map (fun x => (k x, x.id)))) :
    (sortByKey k l).map (fun x => (k x, x.id)) = q :=
  sorted_perm_eq (sortByKey_map_sorted k l) hs ((sortByKey_map_perm k l).trans hp.symm)

theorem map_ids (k : Proposal → Int) (l : List Proposal) :
    l.map (·.id) = (l.map (fun x => (k x, x.id))).map (·.2) := by
  simp

/-- The queues `InitGenesis` rebuilds are the queues the end blocker of the model walks. -/
theorem rebuild_eq_queuesOf (g : State) : rebuildQueues g.proposals = queuesOf g := by
  apply queues_ext
  · exact (sortByKey_map_unique (·.depositEnd) _ _ (rebuild_inactive_sorted _) (rebuild_inactive_perm _)).symm
  · exact (sortByKey_map_unique (·.votingEnd) _ _ (rebuild_active_sorted _) (rebuild_active_perm _)).symm

/-- The ids the end blocker takes from the deposit-period proposals are the due entries of the rebuilt inactive
    queue, in the same order. -/
theorem endBlock_inactive_ids (g : State) (t : Int) :
    (sortByKey (·.depositEnd) (g.proposals.filter (fun p => p.status == 1 && p.depositEnd ≤ t))).map (·.id)
      = dueIds (rebuildQueues g.proposals).inactive t := by
  rw [map_ids (·.depositEnd)]
  unfold dueIds
  congr 1
  apply sortByKey_map_unique
  · exact List.Pairwise.filter _ (rebuild_inactive_sorted _)
  · refine ((rebuild_inactive_perm g.proposals).filter _).trans ?_
    rw [List.filter_map, List.filter_filter]
    apply List.Perm.of_eq
    congr 1
    apply List.filter_congr
    intro p _
    exact Bool.and_comm _ _

/-- The ids the end blocker takes from the voting-period proposals are the due entries of the rebuilt active
    queue, in the same order. -/
theorem endBlock_active_ids (g : State) (t : Int) :
    (sortByKey (·.votingEnd) (g.proposals.filter (fun p => (p.status == 2 || p.status == 3) && p.votingEnd ≤ t))).map (·.id)
      = dueIds (rebuildQueues g.proposals).active t := by
  rw [map_ids (·.votingEnd)]
  unfold dueIds
  congr 1
  apply sortByKey_map_unique
  · exact List.Pairwise.filter _ (rebuild_active_sorted _)
  · refine ((rebuild_active_perm g.proposals).filter _).trans ?_
    rw [List.filter_map, List.filter_filter]
    apply List.Perm.of_eq
    congr 1
    apply List.filter_congr
    intro p _
    exact Bool.and_comm _ _

/-- The ids of all voting-period proposals, as the end blocker lists them, are the ids of the rebuilt active queue,
    in the same order. -/
theorem endBlock_all_ids (g : State) :
    (sortByKey (·.votingEnd) (g.proposals.filter (fun p => p.status == 2 || p.status == 3))).map (·.id)
      = (rebuildQueues g.proposals).active.map (·.2) := by
  rw [map_ids (·.votingEnd)]
  congr 1
  exact sortByKey_map_unique (·.votingEnd) _ _ (rebuild_active_sorted _) (rebuild_active_perm _)

/-! ## Part 5: the history invariant -/


/-! ## the proposal store: membership and lookup -/

theorem mem_find {ps : List Proposal} (h : ps.Pairwise (fun a b => sameProposal a b = false)) {p : Proposal}
    (hp : p ∈ ps) : ps.find? (·.id == p.id) = some p := by
  induction ps with
  | nil => cases hp
  | cons x xs ih =>
    rw [List.pairwise_cons] at h
    rcases List.mem_cons.mp hp with rfl | hm
    · exact List.find?_cons_of_pos (by simp)
    · have hx : (x.id == p.id) = false := h.1 p hm
      rw [List.find?_cons_of_neg (by simp [hx])]
      exact ih h.2 hm

theorem mem_findP {g : State} (h : g.proposals.Pairwise (fun a b => sameProposal a b = false)) {p : Proposal}
    (hp : p ∈ g.proposals) : findP g p.id = some p := mem_find h hp

theorem findP_mem {g : State} {id : Nat} {p : Proposal} (h : findP g id = some p) : p ∈ g.proposals ∧ p.id = id :=
  ⟨List.mem_of_find?_eq_some h, C11H.findP_id h⟩

theorem findP_congr {g g' : State} (h : g'.proposals = g.proposals) (id : Nat) : findP g' id = findP g id := by
  unfold findP; rw [h]

/-! ## the invariant through lookups -/

/-- `WFH` with the proposal store read through `findP`, and the counter as a parameter -/
structure W2 (g : State) (n : Nat) : Prop where
  depKeys : g.deposits.Pairwise (fun a b => sameDeposit a b = false)
  voteKeys : g.votes.Pairwise (fun a b => sameVote a b = false)
  ids : g.proposals.Pairwise (fun a b => sameProposal a b = false)
  depO : ∀ d ∈ g.deposits, ∃ p, findP g d.pid = some p
  voteO : ∀ v ∈ g.votes, ∃ p, findP g v.pid = some p ∧ p.status ≠ 1
  fresh : ∀ id p, findP g id = some p → id < n

theorem W2.ofWFH {g : State} (h : WFH g) : W2 g g.nextId := by
  refine ⟨h.depKeys, h.voteKeys, h.ids, ?_, ?_, ?_⟩
  · intro d hd
    obtain ⟨p, hp, hid⟩ := h.depOwned d hd
    exact ⟨p, by rw [← hid]; exact mem_findP h.ids hp⟩
  · intro v hv
    obtain ⟨p, hp, hid⟩ := h.voteOwned v hv
    exact ⟨p, by rw [← hid]; exact mem_findP h.ids hp, h.voteStarted v hv p hp hid⟩
  · intro id p hp
    obtain ⟨hm, hid⟩ := findP_mem hp
    rw [← hid]; exact h.fresh p hm

theorem W2.toWFH {g : State} (h : W2 g g.nextId) : WFH g := by
  refine { depKeys := h.depKeys, voteKeys := h.voteKeys, ids := h.ids, depOwned := ?_, voteOwned := ?_, fresh := ?_, voteStarted := ?_ }
  · intro d hd
    obtain ⟨p, hp⟩ := h.depO d hd
    exact ⟨p, (findP_mem hp).1, (findP_mem hp).2⟩
  · intro v hv
    obtain ⟨p, hp, _⟩ := h.voteO v hv
    exact ⟨p, (findP_mem hp).1, (findP_mem hp).2⟩
  · intro p hp
    exact h.fresh p.id p (mem_findP h.ids hp)
  · intro v hv p hp hid
    obtain ⟨p', hp', hs⟩ := h.voteO v hv
    have := mem_findP h.ids hp
    rw [hid, hp'] at this
    injection this with this
    rw [← this]; exact hs

theorem W2.congr {g g' : State} {n : Nat} (h : W2 g n) (hp : g'.proposals = g.proposals) (hd : g'.deposits = g.deposits)
    (hv : g'.votes = g.votes) : W2 g' n := by
  refine ⟨by rw [hd]; exact h.depKeys, by rw [hv]; exact h.voteKeys, by rw [hp]; exact h.ids, ?_, ?_, ?_⟩
  · intro d hd'; rw [hd] at hd'; rw [findP_congr hp]; exact h.depO d hd'
  · intro v hv'; rw [hv] at hv'; rw [findP_congr hp]; exact h.voteO v hv'
  · intro id p hp'; rw [findP_congr hp] at hp'; exact h.fresh id p hp'

theorem W2.mono {g : State} {n m : Nat} (h : W2 g n) (hnm : n ≤ m) : W2 g m :=
  ⟨h.depKeys, h.voteKeys, h.ids, h.depO, h.voteO, fun id p hp => Nat.lt_of_lt_of_le (h.fresh id p hp) hnm⟩

/-! ## state-level preservation -/

theorem ids_setP {g : State} (q : Proposal) (h : g.proposals.Pairwise (fun a b => sameProposal a b = false)) :
    (setP g q).proposals.Pairwise (fun a b => sameProposal a b = false) := by
  unfold setP
  split
  · show (g.proposals.map _).Pairwise _
    refine List.Pairwise.map _ ?_ h
    intro a b hab
    have ha : ∀ x : Proposal, (if x.id == q.id then q else x).id = x.id := by
      intro x; split
      · rename_i hx; exact (beq_iff_eq.mp hx).symm
      · rfl
    show ((if a.id == q.id then q else a).id == (if b.id == q.id then q else b).id) = false
    rw [ha, ha]; exact hab
  · rename_i hn
    show (g.proposals ++ [q]).Pairwise _
    rw [List.pairwise_append]
    refine ⟨h, List.pairwise_singleton _ _, ?_⟩
    intro a ha b hb
    rw [List.mem_singleton] at hb; subst hb
    have hnone : findP g b.id = none := by
      cases hf : findP g b.id with
      | none => rfl
      | some v => simp [hf] at hn
    have := List.find?_eq_none.mp hnone a ha
    simpa [sameProposal] using this

theorem W2.set {g : State} {n : Nat} {q : Proposal} (h : W2 g n) (hf : q.id < n)
    (hv : ∀ v ∈ g.votes, v.pid = q.id → q.status ≠ 1) : W2 (setP g q) n := by
  refine ⟨by rw [setP_deposits]; exact h.depKeys, by rw [setP_votes]; exact h.voteKeys, ids_setP q h.ids, ?_, ?_, ?_⟩
  · intro d hd
    rw [setP_deposits] at hd
    obtain ⟨p, hp⟩ := h.depO d hd
    rw [findP_setP]
    split
    · exact ⟨q, rfl⟩
    · exact ⟨p, hp⟩
  · intro v hv'
    rw [setP_votes] at hv'
    obtain ⟨p, hp, hs⟩ := h.voteO v hv'
    rw [findP_setP]
    by_cases hc : q.id == v.pid
    · simp only [hc, if_true]
      exact ⟨q, rfl, hv v hv' (beq_iff_eq.mp hc).symm⟩
    · simp only [hc, Bool.false_eq_true, if_false]
      exact ⟨p, hp, hs⟩
  · intro id p hp
    rw [findP_setP] at hp
    split at hp
    · rename_i hc
      rw [← beq_iff_eq.mp hc]; exact hf
    · exact h.fresh id p hp

theorem W2.deposits {g : State} {n : Nat} (h : W2 g n) (ds : List Deposit)
    (hk : ds.Pairwise (fun a b => sameDeposit a b = false)) (ho : ∀ d ∈ ds, ∃ p, findP g d.pid = some p) :
    W2 { g with deposits := ds } n :=
  ⟨hk, h.voteKeys, h.ids, ho, h.voteO, h.fresh⟩

theorem W2.votes {g : State} {n : Nat} (h : W2 g n) (vs : List Vote)
    (hk : vs.Pairwise (fun a b => sameVote a b = false)) (ho : ∀ v ∈ vs, ∃ p, findP g v.pid = some p ∧ p.status ≠ 1) :
    W2 { g with votes := vs } n :=
  ⟨h.depKeys, hk, h.ids, h.depO, ho, h.fresh⟩

theorem W2.filterDeposits {g : State} {n : Nat} (h : W2 g n) (f : Deposit → Bool) :
    W2 { g with deposits := g.deposits.filter f } n :=
  h.deposits _ (h.depKeys.filter f) (fun d hd => h.depO d (List.mem_filter.mp hd).1)

theorem W2.filterVotes {g : State} {n : Nat} (h : W2 g n) (f : Vote → Bool) :
    W2 { g with votes := g.votes.filter f } n :=
  h.votes _ (h.voteKeys.filter f) (fun v hv => h.voteO v (List.mem_filter.mp hv).1)

/-- a proposal in its deposit period is dropped together with its deposit records -/
theorem W2.drop {g : State} {n : Nat} {id : Nat} (h : W2 g n) (hs : ∀ p, findP g id = some p → p.status = 1) :
    W2 { delP g id with deposits := g.deposits.filter (fun d => !(d.pid == id)) } n := by
  refine ⟨h.depKeys.filter _, h.voteKeys, h.ids.filter _, ?_, ?_, ?_⟩
  · intro d hd
    obtain ⟨hd1, hd2⟩ := List.mem_filter.mp hd
    show ∃ p, findP (delP g id) d.pid = some p
    rw [C11H.findP_delP]
    have : (id == d.pid) = false := by
      have : ¬ d.pid = id := by simpa using hd2
      simp; exact fun hh => this hh.symm
    simp only [this, Bool.false_eq_true, if_false]
    exact h.depO d hd1
  · intro v hv
    show ∃ p, findP (delP g id) v.pid = some p ∧ _
    obtain ⟨p, hp, hst⟩ := h.voteO v hv
    rw [C11H.findP_delP]
    by_cases hc : id == v.pid
    · rw [← beq_iff_eq.mp hc] at hp
      exact absurd (hs p hp) hst
    · simp only [hc, Bool.false_eq_true, if_false]
      exact ⟨p, hp, hst⟩
  · intro id' p hp
    have hp' : findP (delP g id) id' = some p := hp
    rw [C11H.findP_delP] at hp'
    split at hp'
    · cases hp'
    · exact h.fresh id' p hp'

/-! ## deposit and vote records -/

theorem mem_upsertDeposit (pid : Nat) (a : Addr) (amt : Coins) : ∀ (ds : List Deposit) (x : Deposit),
    x ∈ upsertDeposit pid a amt ds →
      (∃ y ∈ ds, y.pid = x.pid ∧ y.depositor = x.depositor) ∨ (x.pid = pid ∧ x.depositor = a) := by
  intro ds
  induction ds with
  | nil =>
    intro x hx
    simp only [upsertDeposit, List.mem_singleton] at hx
    right; rw [hx]; exact ⟨rfl, rfl⟩
  | cons d ds ih =>
    intro x hx
    unfold upsertDeposit at hx
    split at hx
    · rcases List.mem_cons.mp hx with h | h
      · left; exact ⟨d, List.mem_cons_self, by rw [h], by rw [h]⟩
      · left; exact ⟨x, List.mem_cons_of_mem _ h, rfl, rfl⟩
    · rcases List.mem_cons.mp hx with h | h
      · left; exact ⟨d, List.mem_cons_self, by rw [h], by rw [h]⟩
      · rcases ih x h with ⟨y, hy, h1, h2⟩ | h'
        · left; exact ⟨y, List.mem_cons_of_mem _ hy, h1, h2⟩
        · right; exact h'

theorem pairwise_upsertDeposit (pid : Nat) (a : Addr) (amt : Coins) : ∀ (ds : List Deposit),
    ds.Pairwise (fun a b => sameDeposit a b = false) →
      (upsertDeposit pid a amt ds).Pairwise (fun a b => sameDeposit a b = false) := by
  intro ds
  induction ds with
  | nil => intro _; simp [upsertDeposit]
  | cons d ds ih =>
    intro h
    rw [List.pairwise_cons] at h
    unfold upsertDeposit
    split
    · rw [List.pairwise_cons]
      exact ⟨fun x hx => h.1 x hx, h.2⟩
    · rename_i hc
      rw [List.pairwise_cons]
      refine ⟨?_, ih h.2⟩
      intro x hx
      rcases mem_upsertDeposit pid a amt ds x hx with ⟨y, hy, h1, h2⟩ | ⟨h1, h2⟩
      · have := h.1 y hy
        unfold sameDeposit at this ⊢
        rw [← h1, ← h2]; exact this
      · unfold sameDeposit
        rw [h1, h2]
        simpa using hc

theorem mem_setVote (pid : Nat) (a : Addr) (o : Nat) : ∀ (vs : List Vote) (x : Vote),
    x ∈ setVote pid a o vs →
      (∃ y ∈ vs, y.pid = x.pid ∧ y.voter = x.voter) ∨ (x.pid = pid ∧ x.voter = a) := by
  intro vs
  induction vs with
  | nil =>
    intro x hx
    simp only [setVote, List.mem_singleton] at hx
    right; rw [hx]; exact ⟨rfl, rfl⟩
  | cons d ds ih =>
    intro x hx
    unfold setVote at hx
    split at hx
    · rcases List.mem_cons.mp hx with h | h
      · left; exact ⟨d, List.mem_cons_self, by rw [h], by rw [h]⟩
      · left; exact ⟨x, List.mem_cons_of_mem _ h, rfl, rfl⟩
    · rcases List.mem_cons.mp hx with h | h
      · left; exact ⟨d, List.mem_cons_self, by rw [h], by rw [h]⟩
      · rcases ih x h with ⟨y, hy, h1, h2⟩ | h'
        · left; exact ⟨y, List.mem_cons_of_mem _ hy, h1, h2⟩
        · right; exact h'

theorem pairwise_setVote (pid : Nat) (a : Addr) (o : Nat) : ∀ (vs : List Vote),
    vs.Pairwise (fun a b => sameVote a b = false) →
      (setVote pid a o vs).Pairwise (fun a b => sameVote a b = false) := by
  intro vs
  induction vs with
  | nil => intro _; simp [setVote]
  | cons d ds ih =>
    intro h
    rw [List.pairwise_cons] at h
    unfold setVote
    split
    · rw [List.pairwise_cons]
      exact ⟨fun x hx => h.1 x hx, h.2⟩
    · rename_i hc
      rw [List.pairwise_cons]
      refine ⟨?_, ih h.2⟩
      intro x hx
      rcases mem_setVote pid a o ds x hx with ⟨y, hy, h1, h2⟩ | ⟨h1, h2⟩
      · have := h.1 y hy
        unfold sameVote at this ⊢
        rw [← h1, ← h2]; exact this
      · unfold sameVote
        rw [h1, h2]
        simpa using hc

theorem activated_status_ne (e : Env) (g : State) (p : Proposal) : (activated e g p).status ≠ 1 := by
  unfold activated; dsimp only; split
  · show (2 : Nat) ≠ 1; decide
  · split
    · show (3 : Nat) ≠ 1; decide
    · show (3 : Nat) ≠ 1; decide

/-! ## the messages -/

theorem addDeposit_W2 {e : Env} {w w' : World} {pid : Nat} {a : Addr} {amt : Coins} {n : Nat} (h : W2 w.g n)
    (hr : addDeposit e w pid a amt = .ok w') : W2 w'.g n ∧ w'.g.nextId = w.g.nextId := by
  unfold addDeposit at hr
  split at hr; · cases hr
  rename_i p hp
  split at hr; · cases hr
  split at hr; · cases hr
  rename_i l1 hsend
  cases hr
  have hid := C11H.findP_id hp
  have hlt : p.id < n := by rw [hid]; exact h.fresh pid p hp
  -- the proposal with the new total
  have h1 : W2 (setP w.g { p with totalDeposit := Coins.add p.totalDeposit amt }) n := by
    refine h.set hlt ?_
    intro v hv hvp
    obtain ⟨p', hp', hs⟩ := h.voteO v hv
    have hvp' : v.pid = pid := by rw [hvp]; exact hid
    rw [hvp', hp] at hp'
    injection hp' with hp'
    rw [hp']; exact hs
  have key : ∀ g2 : State, W2 g2 n → (∃ q, findP g2 pid = some q) → g2.nextId = w.g.nextId →
      W2 { g2 with deposits := upsertDeposit pid a amt g2.deposits } n ∧
        ({ g2 with deposits := upsertDeposit pid a amt g2.deposits } : State).nextId = w.g.nextId := by
    intro g2 h2 hq hn
    refine ⟨h2.deposits _ (pairwise_upsertDeposit pid a amt _ h2.depKeys) ?_, hn⟩
    intro d hd
    rcases mem_upsertDeposit pid a amt _ d hd with ⟨y, hy, h1, _⟩ | ⟨h1, _⟩
    · rw [← h1]; exact h2.depO y hy
    · rw [h1]; exact hq
  have hq1 : ∃ q, findP (setP w.g { p with totalDeposit := Coins.add p.totalDeposit amt }) pid = some q := by
    rw [findP_setP]
    have : (p.id == pid) = true := by simp [hid]
    simp only [this, if_true]
    exact ⟨_, rfl⟩
  dsimp only
  split
  · apply key
    · unfold activateVotingPeriod
      exact h1.set (by rw [C11H.activated_id]; exact hlt) (fun _ _ _ => activated_status_ne _ _ _)
    · unfold activateVotingPeriod
      rw [findP_setP, C11H.activated_id]
      have : (p.id == pid) = true := by simp [hid]
      simp only [this, if_true]
      exact ⟨_, rfl⟩
    · unfold activateVotingPeriod
      rw [setP_nextId, setP_nextId]
  · apply key
    · exact h1
    · exact hq1
    · rw [setP_nextId]

theorem submit_W2 {e : Env} {w w' : World} {pr : Addr} {p0 : Proposal} {dep : Coins} (h : W2 w.g w.g.nextId)
    (hr : submit e w pr p0 dep = .ok w') : W2 w'.g w'.g.nextId := by
  unfold submit at hr
  dsimp only at hr
  split at hr; · cases hr
  split at hr; · cases hr
  split at hr; · cases hr
  split at hr; · cases hr
  -- the state after the new proposal is stored and the counter is bumped
  have hnov : ∀ v ∈ w.g.votes, v.pid ≠ w.g.nextId := by
    intro v hv hc
    obtain ⟨p, hp, _⟩ := h.voteO v hv
    have := h.fresh v.pid p hp
    omega
  have h1 : ∀ q : Proposal, q.id = w.g.nextId →
      W2 ({ (setP w.g q) with nextId := w.g.nextId + 1 } : State) (w.g.nextId + 1) := by
    intro q hq
    have := (h.mono (Nat.le_succ _)).set (q := q) (by rw [hq]; exact Nat.lt_succ_self _)
      (fun v hv hc => absurd (hc.trans hq) (hnov v hv))
    exact this.congr rfl rfl rfl
  split at hr
  · cases hr
    unfold activateVotingPeriod
    show W2 (setP _ _) _
    rw [setP_nextId]
    exact (h1 _ rfl).set (by rw [C11H.activated_id]; exact Nat.lt_succ_self _)
      (fun _ _ _ => activated_status_ne _ _ _)
  · obtain ⟨a1, a2⟩ := addDeposit_W2 (w := { w with g := { (setP w.g _) with nextId := w.g.nextId + 1 } }) (h1 _ rfl) hr
    rw [a2]; exact a1

theorem vote_W2 {w w' : World} {pid : Nat} {voter : Addr} {o : Nat} {n : Nat} (h : W2 w.g n)
    (hr : vote w pid voter o = .ok w') : W2 w'.g n ∧ w'.g.nextId = w.g.nextId := by
  unfold vote at hr
  split at hr; · cases hr
  split at hr; · cases hr
  rename_i p hp
  split at hr; · cases hr
  rename_i hinact
  split at hr; · cases hr
  split at hr; · cases hr
  split at hr; · cases hr
  cases hr
  refine ⟨h.votes _ (pairwise_setVote pid voter o _ h.voteKeys) ?_, rfl⟩
  intro v hv
  rcases mem_setVote pid voter o _ v hv with ⟨y, hy, h1, _⟩ | ⟨h1, _⟩
  · rw [← h1]; exact h.voteO y hy
  · rw [h1]
    refine ⟨p, hp, ?_⟩
    intro hs1
    apply hinact
    rw [hs1]; decide

/-! ## the end blocker -/

/-- the invariant on worlds, with the counter pinned -/
def Inv (w : World) (n : Nat) : Prop := W2 w.g n ∧ w.g.nextId = n

theorem refund_g {e : Env} {w w' : World} {pid : Nat} (h : refundDeposits e w pid = .ok w') :
    w'.g = { w.g with deposits := w.g.deposits.filter (fun d => !(d.pid == pid)) } := by
  unfold refundDeposits at h
  dsimp only at h
  split at h; · cases h
  injection h with h
  rw [← h]

theorem burn_g {e : Env} {w w' : World} {pid : Nat} (h : burnDeposits e w pid = .ok w') :
    w'.g = { w.g with deposits := w.g.deposits.filter (fun d => !(d.pid == pid)) } := by
  unfold burnDeposits at h
  dsimp only at h
  split at h; · cases h
  injection h with h
  rw [← h]

theorem refund_inv {e : Env} {w w' : World} {pid : Nat} {n : Nat} (h : Inv w n)
    (hr : refundDeposits e w pid = .ok w') : Inv w' n := by
  unfold Inv; rw [refund_g hr]; exact ⟨h.1.filterDeposits _, h.2⟩

theorem burn_inv {e : Env} {w w' : World} {pid : Nat} {n : Nat} (h : Inv w n)
    (hr : burnDeposits e w pid = .ok w') : Inv w' n := by
  unfold Inv; rw [burn_g hr]; exact ⟨h.1.filterDeposits _, h.2⟩

theorem set_inv {w : World} {n : Nat} {q : Proposal} (h : Inv w n) (hlt : q.id < n) (hs : q.status ≠ 1) :
    Inv { w with g := setP w.g q } n :=
  ⟨h.1.set hlt (fun _ _ _ => hs), by show (setP w.g q).nextId = n; rw [setP_nextId]; exact h.2⟩

theorem finish_inv {w : World} {n : Nat} {p : Proposal} (pass : Bool) (t : Tally) (h : Inv w n) (hlt : p.id < n) :
    Inv (finish w p pass t) n := by
  unfold finish
  split
  · split
    · rename_i w1 hw1
      have ⟨_, h2⟩ := Shentu.Halt.Gv.runHandler_frame hw1
      have h' : Inv w1 n := by unfold Inv; rw [h2]; exact h
      exact set_inv (q := { p with status := 4, tally := t }) h' hlt (by show (4 : Nat) ≠ 1; decide)
    · exact set_inv (q := { p with status := 6, tally := t }) h hlt (by show (6 : Nat) ≠ 1; decide)
  · exact set_inv (q := { p with status := 5, tally := t }) h hlt (by show (5 : Nat) ≠ 1; decide)

theorem dropVotes_activate_inv {e : Env} {w : World} {n : Nat} {p : Proposal} (h : Inv w n) (hlt : p.id < n) :
    Inv { w with g := activateVotingPeriod e { w.g with votes := w.g.votes.filter (fun v => !(v.pid == p.id)) } p } n := by
  unfold activateVotingPeriod
  refine ⟨(h.1.filterVotes _).set (by rw [C11H.activated_id]; exact hlt) (fun _ _ _ => activated_status_ne _ _ _), ?_⟩
  show (setP _ _).nextId = n
  rw [setP_nextId]; exact h.2

theorem stakeTally_g (e : Env) (g : State) (p : Proposal) (cd : Int) :
    (stakeTally e g p cd).2.2.2 = { g with votes := g.votes.filter (fun v => !(v.pid == p.id)) } := by
  unfold stakeTally
  rfl

theorem processActive_inv {e : Env} {w w' : World} {n : Nat} {p : Proposal} (h : Inv w n) (hlt : p.id < n)
    (hr : processActive e w p = .ok w') : Inv w' n := by
  unfold processActive at hr
  split at hr
  · generalize securityTally w.g w.c p = st at hr
    obtain ⟨pass, endVoting, t⟩ := st
    dsimp only at hr
    split at hr
    · injection hr with hr; subst hr
      exact dropVotes_activate_inv h hlt
    · split at hr; · cases hr
      rename_i w1 hw1
      injection hr with hr; subst hr
      exact finish_inv pass t (refund_inv h hw1) hlt
  · have hg := stakeTally_g e w.g p 0
    generalize stakeTally e w.g p 0 = st at hr hg
    obtain ⟨pass, veto, t, g1⟩ := st
    dsimp only at hr hg
    have h1 : Inv { w with g := g1 } n := by
      unfold Inv; rw [hg]; exact ⟨h.1.filterVotes _, h.2⟩
    split at hr
    · split at hr; · cases hr
      rename_i w2 hw2
      injection hr with hr; subst hr
      exact finish_inv pass t (burn_inv h1 hw2) hlt
    · split at hr; · cases hr
      rename_i w2 hw2
      injection hr with hr; subst hr
      exact finish_inv pass t (refund_inv h1 hw2) hlt

theorem processSecurityVote_inv {e : Env} {w w' : World} {n : Nat} {p : Proposal} (h : Inv w n) (hlt : p.id < n)
    (hr : processSecurityVote e w p = .ok w') : Inv w' n := by
  unfold processSecurityVote at hr
  split at hr
  · injection hr with hr; subst hr; exact h
  · generalize securityTally w.g w.c p = st at hr
    obtain ⟨pass, endVoting, t⟩ := st
    dsimp only at hr
    split at hr
    · injection hr with hr; subst hr; exact h
    · split at hr
      · split at hr; · cases hr
        rename_i w1 hw1
        injection hr with hr; subst hr
        refine finish_inv true t ?_ hlt
        split at hw1
        · exact refund_inv h hw1
        · injection hw1 with hw1; subst hw1; exact h
      · injection hr with hr; subst hr
        exact dropVotes_activate_inv h hlt

/-- a fold over proposal identifiers keeps an invariant that may depend on the identifiers still to come -/
theorem foldIds_inv (I : List Nat → World → Prop) (f : World → Proposal → Except Err World)
    (hskip : ∀ id ids w, I (id :: ids) w → I ids w)
    (hf : ∀ id ids w p w', I (id :: ids) w → findP w.g id = some p → f w p = .ok w' → I ids w') :
    ∀ (ids : List Nat) (w w' : World), I ids w → foldIds f ids w = .ok w' → I [] w' := by
  intro ids
  induction ids with
  | nil =>
    intro w w' hi h
    unfold foldIds at h; injection h with h; subst h; exact hi
  | cons i ids ih =>
    intro w w' hi h
    unfold foldIds at h
    cases hp : findP w.g i with
    | none => rw [hp] at h; exact ih w w' (hskip i ids w hi) h
    | some p =>
      rw [hp] at h
      dsimp only at h
      cases hfp : f w p with
      | error x => rw [hfp] at h; cases h
      | ok w1 =>
        rw [hfp] at h
        exact ih w1 w' (hf i ids w p w1 hi hp hfp) h

theorem mem_insByKey (k : Proposal → Int) (p : Proposal) : ∀ (l : List Proposal) (x : Proposal),
    x ∈ insByKey k p l → x = p ∨ x ∈ l := by
  intro l
  induction l with
  | nil => intro x hx; simp only [insByKey, List.mem_singleton] at hx; exact Or.inl hx
  | cons y ys ih =>
    intro x hx
    unfold insByKey at hx
    split at hx
    · rcases List.mem_cons.mp hx with h | h
      · exact Or.inl h
      · exact Or.inr h
    · rcases List.mem_cons.mp hx with h | h
      · right; rw [h]; exact List.mem_cons_self
      · rcases ih x h with h' | h'
        · exact Or.inl h'
        · exact Or.inr (List.mem_cons_of_mem _ h')

theorem mem_sortByKey (k : Proposal → Int) : ∀ (l : List Proposal) (x : Proposal), x ∈ sortByKey k l → x ∈ l := by
  intro l
  induction l with
  | nil => intro x hx; exact hx
  | cons y ys ih =>
    intro x hx
    have hx' : x ∈ insByKey k y (sortByKey k ys) := hx
    rcases mem_insByKey k y _ x hx' with h | h
    · rw [h]; exact List.mem_cons_self
    · exact List.mem_cons_of_mem _ (ih x h)

/-- the first loop: proposals whose deposit period ended are dropped with their deposit records -/
theorem dropLoop_inv {e : Env} {n : Nat} (ids : List Nat) (w w' : World) (h : Inv w n)
    (hs : ∀ id ∈ ids, ∀ p, findP w.g id = some p → p.status = 1)
    (hr : foldIds (fun w p => refundDeposits e { w with g := delP w.g p.id } p.id) ids w = .ok w') : Inv w' n := by
  have := foldIds_inv (fun ids w => Inv w n ∧ ∀ id ∈ ids, ∀ p, findP w.g id = some p → p.status = 1)
    (fun w p => refundDeposits e { w with g := delP w.g p.id } p.id)
    (fun id ids w hi => ⟨hi.1, fun id' hid' => hi.2 id' (List.mem_cons_of_mem _ hid')⟩)
    (by
      intro id ids w p w1 hi hp hfp
      have hid := C11H.findP_id hp
      have hg := refund_g hfp
      have hg' : w1.g = { delP w.g id with deposits := w.g.deposits.filter (fun d => !(d.pid == id)) } := by
        rw [hg, hid]; rfl
      refine ⟨?_, ?_⟩
      · unfold Inv
        rw [hg']
        exact ⟨hi.1.1.drop (hi.2 id List.mem_cons_self), hi.1.2⟩
      · intro id' hid' q hq
        rw [hg'] at hq
        have hq' : findP (delP w.g id) id' = some q := hq
        rw [C11H.findP_delP] at hq'
        split at hq'
        · cases hq'
        · exact hi.2 id' (List.mem_cons_of_mem _ hid') q hq')
    ids w w' ⟨h, hs⟩ hr
  exact this.1

theorem loop_inv {n : Nat} (f : World → Proposal → Except Err World)
    (hf : ∀ w p w', Inv w n → p.id < n → f w p = .ok w' → Inv w' n)
    (ids : List Nat) (w w' : World) (h : Inv w n) (hr : foldIds f ids w = .ok w') : Inv w' n :=
  foldIds_inv (fun _ w => Inv w n) f (fun _ _ _ hi => hi)
    (fun id ids w p w1 hi hp hfp => hf w p w1 hi (by rw [C11H.findP_id hp]; exact hi.1.fresh id p hp) hfp)
    ids w w' h hr

theorem endBlock_inv {e : Env} {w w' : World} {n : Nat} (h : Inv w n) (hr : endBlock e w = .ok w') : Inv w' n := by
  unfold endBlock at hr
  dsimp only at hr
  split at hr; · cases hr
  rename_i w1 hw1
  split at hr; · cases hr
  rename_i w2 hw2
  have h1 : Inv w1 n := by
    refine dropLoop_inv _ w w1 h ?_ hw1
    intro id hid p hp
    obtain ⟨q, hq, hqid⟩ := List.mem_map.mp hid
    have hq' := mem_sortByKey _ _ q hq
    obtain ⟨hq1, hq2⟩ := List.mem_filter.mp hq'
    have hfq := mem_findP h.1.ids hq1
    rw [hqid, hp] at hfq
    injection hfq with hfq
    rw [hfq]
    simp only [Bool.and_eq_true, beq_iff_eq] at hq2
    exact hq2.1
  have h2 : Inv w2 n := loop_inv _ (fun w p w' hi hlt hh => processActive_inv hi hlt hh) _ w1 w2 h1 hw2
  exact loop_inv _ (fun w p w' hi hlt hh => processSecurityVote_inv hi hlt hh) _ w2 w' h2 hr

/-! ## the goal theorems -/

theorem Inv.ofWFH {w : World} (h : WFH w.g) : Inv w w.g.nextId := ⟨W2.ofWFH h, rfl⟩

theorem Inv.toWFH {w : World} {n : Nat} (h : Inv w n) : WFH w.g := by
  have h1 := h.1
  rw [← h.2] at h1
  exact h1.toWFH

theorem WFH.init {g : State} (hp : g.proposals = []) (hd : g.deposits = []) (hv : g.votes = []) : WFH g := by
  refine { depKeys := ?_, voteKeys := ?_, ids := ?_, depOwned := ?_, voteOwned := ?_, fresh := ?_, voteStarted := ?_ }
  · rw [hd]; exact List.Pairwise.nil
  · rw [hv]; exact List.Pairwise.nil
  · rw [hp]; exact List.Pairwise.nil
  · rw [hd]; intro d h; cases h
  · rw [hv]; intro d h; cases h
  · rw [hp]; intro d h; cases h
  · rw [hv]; intro d h; cases h

theorem WFH.step (m : Addr) (w : World) (op : Op) (h : WFH w.g) : WFH (stepW m w op).g := by
  cases op with
  | submit x pr p0 dep =>
    simp only [stepW]
    split
    · exact h
    · split
      · rename_i w' hw'
        exact (submit_W2 (W2.ofWFH h) hw').toWFH
      · exact h
  | deposit x pid a amt =>
    simp only [stepW]
    split
    · exact h
    · split
      · rename_i w' hw'
        obtain ⟨a1, a2⟩ := addDeposit_W2 (W2.ofWFH h) hw'
        exact Inv.toWFH ⟨a1, a2⟩
      · exact h
  | vote pid v o =>
    simp only [stepW]
    split
    · rename_i w' hw'
      obtain ⟨a1, a2⟩ := vote_W2 (W2.ofWFH h) hw'
      exact Inv.toWFH ⟨a1, a2⟩
    · exact h
  | endBlock x =>
    simp only [stepW]
    split
    · rename_i w' hw'
      exact (endBlock_inv (Inv.ofWFH h) hw').toWFH
    · exact h
  | transfer s d amt =>
    simp only [stepW]
    split
    · exact h
    · split
      · exact h
      · exact h

theorem WFH.run (m : Addr) (w : World) (ops : List Op) (h : WFH w.g) : WFH (runW m w ops).g := by
  induction ops generalizing w with
  | nil => exact h
  | cons op ops ih => exact ih (stepW m w op) (WFH.step m w op h)

end Shentu.C20GGovH
