import Shentu.Proofs.C16mRep
/-
  Helper lemmas for `Shentu/Props/C16m2.lean`: the copy instructions and the jumps of the interpreter model in
  implementation mode, computed from their definitions.
-/
namespace Shentu.C16m2H
open Shentu.EVM Shentu.EVM.MemSpec Shentu.C16mH Shentu.C16mJ
set_option linter.unusedSimpArgs false

/-- a copy instruction in implementation mode whose slice is refused: the three pops (data offset and length through
    `Pop64`), InputOutOfBounds, and a write of the empty string -/
theorem copyToMem_impl_err (q : Quirks) (src : ByteArray) (s : Frame) (memOff off len : Nat) (r : List Nat)
    (hq1 : q.readBeyondErr = true) (hs : s.stack = memOff :: off :: len :: r) (hg : 3 ≤ s.gas)
    (h64 : off < U64) (hl64 : len < U64) (hsub : subslice src off len = .err) :
    (copyToMem q src s).val =
      ((pushErr .inputOutOfBounds >>= fun _ => memWrite q memOff .empty >>= fun _ => pure Ctl.next)
        { s with gas := s.gas - 3, stack := r }).val := by
  unfold copyToMem
  show (M.bind pop _ s).val = _
  rw [bind_val (pop_ok s memOff (off :: len :: r) hs (by omega))]
  simp only [hq1, Bool.true_or, if_true]
  show (M.bind pop64 _ _).val = _
  rw [bind_val (pop64_ok _ off (len :: r) rfl (by simp only []; omega) h64)]
  show (M.bind pop64 _ _).val = _
  rw [bind_val (pop64_ok _ len r rfl (by simp only []; omega) hl64)]
  have hgas : s.gas - 1 - 1 - 1 = s.gas - 3 := by omega
  simp only [hsub, hgas]
  rfl

/-- a copy instruction in implementation mode whose slice is granted: the three pops and the write of the bytes -/
theorem copyToMem_impl_ok (q : Quirks) (src : ByteArray) (s : Frame) (memOff off len : Nat) (r : List Nat) (b : ByteArray)
    (hq1 : q.readBeyondErr = true) (hs : s.stack = memOff :: off :: len :: r) (hg : 3 ≤ s.gas)
    (h64 : off < U64) (hl64 : len < U64) (hsub : subslice src off len = .ok b) :
    (copyToMem q src s).val =
      ((memWrite q memOff b >>= fun _ => pure Ctl.next) { s with gas := s.gas - 3, stack := r }).val := by
  unfold copyToMem
  show (M.bind pop _ s).val = _
  rw [bind_val (pop_ok s memOff (off :: len :: r) hs (by omega))]
  simp only [hq1, Bool.true_or, if_true]
  show (M.bind pop64 _ _).val = _
  rw [bind_val (pop64_ok _ off (len :: r) rfl (by simp only []; omega) h64)]
  show (M.bind pop64 _ _).val = _
  rw [bind_val (pop64_ok _ len r rfl (by simp only []; omega) hl64)]
  have hgas : s.gas - 1 - 1 - 1 = s.gas - 3 := by omega
  simp only [hsub, hgas]
  rfl

/-- `pushErr` on a frame without a pending error -/
theorem pushErr_none (e : Err) (s : Frame) (he : s.err = none) : (pushErr e s).val = (some (), { s with err := some e }) := by
  simp only [pushErr, he]

/-- `pushErr` on a frame with a pending error keeps the first one -/
theorem pushErr_some (e e0 : Err) (s : Frame) (he : s.err = some e0) : (pushErr e s).val = (some (), s) := by
  simp only [pushErr, he]

/-- JUMP with a destination of 2^64 or more, `Pop64` mode: IntegerOverflow, then the jump to 0 is attempted -/
theorem jump_huge_exec (child : ChildFn) (env : Env) (s : Frame) (to : Nat) (r : List Nat) (hs : s.stack = to :: r)
    (hg : 1 ≤ s.gas) (h64 : U64 ≤ to) (hq : env.q.dataOffsetU64 = true) (he : s.err = none) :
    (execRegular child env 0x56 s).val =
      ((jumpTo env 0 >>= fun _ => pure Ctl.jumped)
        { s with gas := s.gas - 1, stack := r, err := some .integerOverflow }).val := by
  unfold execRegular
  simp only []
  show (M.bind pop _ s).val = _
  rw [bind_val (pop_ok s to r hs hg)]
  unfold jumpWord
  have : to ≥ U64 := h64
  simp only [this, if_true, hq, Bool.and_self]
  simp only [bind, M.bind, pushErr, he]
  generalize jumpTo env 0 _ = x
  obtain ⟨⟨o, s1⟩, h⟩ := x
  cases o <;> rfl

/-- JUMPI with a non-zero condition and a destination of 2^64 or more, `Pop64` mode: IntegerOverflow and no jump -/
theorem jumpi_huge_exec (child : ChildFn) (env : Env) (s : Frame) (to c : Nat) (r : List Nat) (hs : s.stack = to :: c :: r)
    (hg : 2 ≤ s.gas) (hc : c ≠ 0) (h64 : U64 ≤ to) (hq : env.q.dataOffsetU64 = true) (he : s.err = none) :
    (execRegular child env 0x57 s).val =
      (some Ctl.jumped, { s with gas := s.gas - 2, stack := r, err := some .integerOverflow }) := by
  unfold execRegular
  simp only []
  show (M.bind pop _ s).val = _
  rw [bind_val (pop_ok s to (c :: r) hs (by omega))]
  show (M.bind pop _ _).val = _
  rw [bind_val (pop_ok _ c r rfl (by simp only []; omega))]
  unfold jumpWord
  have : to ≥ U64 := h64
  have hc' : (c != 0) = true := by simpa using hc
  simp only [this, if_true, hq, hc', Bool.false_and, Bool.false_eq_true, if_false, bind, M.bind, pushErr, he, pure, M.pure,
    Nat.sub_sub]

end Shentu.C16m2H

