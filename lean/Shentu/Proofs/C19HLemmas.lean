import Shentu.Proofs.C19HDefs
import Shentu.Proofs.BankLemmas
import Shentu.Proofs.Tactics
import Shentu.Props.C19
/-
  Helper lemmas for `Shentu/Props/C19H.lean` (C19 over whole histories).
-/
namespace Shentu.C19H
open Shentu Shentu.Vesting

/-! ### Vesting account lists: `find` and `set` -/

theorem find_nil (a : Addr) : find [] a = none := rfl

theorem find_cons (x : MVA) (xs : Accounts) (a : Addr) :
    find (x :: xs) a = if x.addr = a then some x else find xs a := by
  unfold find
  by_cases h : x.addr = a
  · simp [h]
  · have : (x.addr == a) = false := by simpa using h
    simp [this, h]

theorem find_addr : ∀ (vs : Accounts) (a : Addr) (m : MVA), find vs a = some m → m.addr = a := by
  intro vs
  induction vs with
  | nil => intro a m h; simp [find_nil] at h
  | cons x xs ih =>
    intro a m h
    rw [find_cons] at h
    split at h
    · injection h with h; subst h; assumption
    · exact ih a m h

theorem find_mem : ∀ (vs : Accounts) (a : Addr) (m : MVA), find vs a = some m → m ∈ vs := by
  intro vs a m h
  unfold find at h
  exact List.mem_of_find?_eq_some h

theorem find_none_iff (vs : Accounts) (a : Addr) : find vs a = none ↔ a ∉ vs.map (·.addr) := by
  induction vs with
  | nil => simp [find_nil]
  | cons x xs ih =>
    rw [find_cons]
    by_cases h : x.addr = a
    · simp [h]
    · simp only [h, if_false, ih, List.map_cons, List.mem_cons, not_or]
      constructor
      · intro h2; exact ⟨fun e => h e.symm, h2⟩
      · intro h2; exact h2.2

theorem find_of_mem_nodup : ∀ (vs : Accounts), (vs.map (·.addr)).Nodup → ∀ m ∈ vs, find vs m.addr = some m := by
  intro vs
  induction vs with
  | nil => intro _ m hm; cases hm
  | cons x xs ih =>
    intro hnd m hm
    simp only [List.map_cons, List.nodup_cons] at hnd
    rw [find_cons]
    rcases List.mem_cons.mp hm with h | h
    · subst h; simp
    · have hne : x.addr ≠ m.addr := by
        intro e
        exact hnd.1 (e ▸ List.mem_map.mpr ⟨m, h, rfl⟩)
      simp only [hne, if_false]
      exact ih hnd.2 m h

theorem find_map_replace (m' : MVA) (a : Addr) : ∀ (vs : Accounts),
    find (vs.map (fun x => if x.addr == m'.addr then m' else x)) a =
      if m'.addr = a then (if (find vs m'.addr).isSome then some m' else none) else find vs a := by
  intro vs
  induction vs with
  | nil => simp [find_nil]
  | cons x xs ih =>
    rw [List.map_cons, find_cons, find_cons, find_cons, ih]
    by_cases hx : x.addr = m'.addr
    · have hb : (x.addr == m'.addr) = true := by simpa using hx
      simp only [if_true, hx]
      by_cases ha : m'.addr = a
      · simp [ha]
      · simp [ha]
    · have hb : (x.addr == m'.addr) = false := by simpa using hx
      simp only [hb, Bool.false_eq_true, if_false, hx]
      by_cases ha : m'.addr = a
      · have : x.addr ≠ a := by rw [← ha]; exact hx
        simp [ha, this]
      · simp [ha]

theorem find_set (vs : Accounts) (m' : MVA) (a : Addr) :
    find (Vesting.set vs m') a = if m'.addr = a then some m' else find vs a := by
  unfold Vesting.set
  by_cases h : (find vs m'.addr).isSome
  · simp only [h, if_true]
    rw [find_map_replace]
    simp [h]
  · simp only [h, Bool.false_eq_true, if_false]
    have hn : find vs m'.addr = none := by simpa using h
    unfold find at *
    rw [List.find?_append]
    by_cases ha : m'.addr = a
    · subst ha
      simp [hn]
    · have : (m'.addr == a) = false := by simpa using ha
      simp [ha, this]

theorem set_addrs_of_some (vs : Accounts) (m m' : MVA) (h : find vs m'.addr = some m) :
    (Vesting.set vs m').map (·.addr) = vs.map (·.addr) := by
  unfold Vesting.set
  simp only [h, Option.isSome_some, if_true, List.map_map]
  apply List.map_congr_left
  intro x _
  simp only [Function.comp]
  split
  · rename_i hx; exact (beq_iff_eq.mp hx).symm
  · rfl

theorem set_addrs_of_none (vs : Accounts) (m' : MVA) (h : find vs m'.addr = none) :
    (Vesting.set vs m').map (·.addr) = vs.map (·.addr) ++ [m'.addr] := by
  unfold Vesting.set
  simp [h]

theorem set_nodup (vs : Accounts) (m' : MVA) (h : (vs.map (·.addr)).Nodup) : ((Vesting.set vs m').map (·.addr)).Nodup := by
  cases hf : find vs m'.addr with
  | some m => rw [set_addrs_of_some vs m m' hf]; exact h
  | none =>
    rw [set_addrs_of_none vs m' hf]
    have := (find_none_iff vs m'.addr).mp hf
    rw [List.nodup_append]
    refine ⟨h, by simp, ?_⟩
    intro x hx y hy
    simp only [List.mem_singleton] at hy
    subst hy
    intro e; subst e; exact this hx

/-! ### Coins -/

theorem amountOf_of_not_mem_denoms (c : Coins) (d : Denom) (h : d ∉ Coins.denoms c) : Coins.amountOf c d = 0 := by
  unfold Coins.denoms at h
  rw [List.mem_eraseDups] at h
  unfold Coins.amountOf
  have : c.filter (fun e => e.1 == d) = [] := by
    apply List.filter_eq_nil_iff.mpr
    intro e he hed
    exact h (List.mem_map.mpr ⟨e, he, beq_iff_eq.mp hed⟩)
  simp [this]

theorem amountOf_nonneg_of_not_anyNegative (c : Coins) (h : Coins.isAnyNegative c = false) (d : Denom) :
    0 ≤ Coins.amountOf c d := by
  by_cases hm : d ∈ Coins.denoms c
  · unfold Coins.isAnyNegative at h
    have := (List.any_eq_false.mp h) d hm
    simpa using this
  · rw [amountOf_of_not_mem_denoms c d hm]; omega

theorem amountOf_nonneg_of_allPositive (c : Coins) (h : Coins.isAllPositive c = true) (d : Denom) :
    0 ≤ Coins.amountOf c d := by
  by_cases hm : d ∈ Coins.denoms c
  · unfold Coins.isAllPositive at h
    simp only [Bool.and_eq_true] at h
    have := (List.all_eq_true.mp h.2) d hm
    have : Coins.amountOf c d > 0 := by simpa using this
    omega
  · rw [amountOf_of_not_mem_denoms c d hm]; omega

theorem amountOf_single_cons (b d : Denom) (x : Int) : Coins.amountOf [(b, x)] d = if b = d then x else 0 := by
  by_cases h : b = d
  · simp [h]
  · have : (b == d) = false := by simpa using h
    simp [h, this]

/-! ### The ledger -/

def NonNeg (l : Ledger) : Prop := ∀ a d, 0 ≤ l.balOf a d

theorem balOf_credit' (l : Ledger) (a : Addr) (c : Coins) (a' : Addr) (d : Denom) :
    (l.credit a c).balOf a' d = l.balOf a' d + (if a = a' then Coins.amountOf c d else 0) := by
  rw [Ledger.balOf_credit]
  by_cases h : a = a'
  · simp [h]
  · have : (a == a') = false := by simpa using h
    simp [h, this]

theorem balOf_debit' (l : Ledger) (a : Addr) (c : Coins) (a' : Addr) (d : Denom) :
    (l.debit a c).balOf a' d = l.balOf a' d - (if a = a' then Coins.amountOf c d else 0) := by
  rw [Ledger.balOf_debit]
  by_cases h : a = a'
  · simp [h]
  · have : (a == a') = false := by simpa using h
    simp [h, this]

theorem balOf_move' (l : Ledger) (src dst : Addr) (c : Coins) (a' : Addr) (d : Denom) :
    (l.move src dst c).balOf a' d =
      l.balOf a' d - (if src = a' then Coins.amountOf c d else 0) + (if dst = a' then Coins.amountOf c d else 0) := by
  unfold Ledger.move
  rw [balOf_credit', balOf_debit']

/-- moving `x` of one denomination -/
theorem balOf_move1 (l : Ledger) (src dst : Addr) (b : Denom) (x : Int) (a : Addr) (d : Denom) :
    (l.move src dst [(b, x)]).balOf a d =
      l.balOf a d - (if src = a ∧ b = d then x else 0) + (if dst = a ∧ b = d then x else 0) := by
  rw [balOf_move', amountOf_single_cons]
  by_cases h1 : src = a <;> by_cases h2 : dst = a <;> by_cases h3 : b = d <;> simp [h1, h2, h3]

theorem nonneg_move1 (l : Ledger) (src dst : Addr) (b : Denom) (x : Int) (hl : NonNeg l) (hx : 0 ≤ x)
    (hc : x ≤ l.balOf src b) : NonNeg (l.move src dst [(b, x)]) := by
  intro a d
  rw [balOf_move1]
  have := hl a d
  by_cases h1 : src = a <;> by_cases h2 : dst = a <;> by_cases h3 : b = d <;> simp [h1, h2, h3] <;> try omega
  all_goals (subst h1; subst h3; omega)

theorem mono_move1 (l : Ledger) (src dst : Addr) (b : Denom) (x : Int) (hx : 0 ≤ x) (a : Addr) (hne : src ≠ a) (d : Denom) :
    l.balOf a d ≤ (l.move src dst [(b, x)]).balOf a d := by
  rw [balOf_move1]
  by_cases h2 : dst = a <;> by_cases h3 : b = d <;> simp [hne, h2, h3] <;> omega

/-! ### The spendable rule -/

theorem lockedAmt_nonneg (m : MVA) (d : Denom) : 0 ≤ lockedAmt m d := by
  unfold lockedAmt; omega

theorem lockedAmt_ge (m : MVA) (d : Denom) : vestingAmt m d - Coins.amountOf m.dv d ≤ lockedAmt m d := by
  unfold lockedAmt; omega

theorem lockedOf_nonneg (vs : Accounts) (a : Addr) (d : Denom) : 0 ≤ lockedOf vs a d := by
  unfold lockedOf
  split
  · exact lockedAmt_nonneg _ _
  · omega

theorem canSpend_ok (l : Ledger) (vs : Accounts) (a : Addr) (amt : Coins) (h : canSpend l vs a amt = .ok ()) (d : Denom) :
    0 ≤ Coins.amountOf amt d ∧ (Coins.amountOf amt d = 0 ∨ lockedOf vs a d ≤ l.balOf a d - Coins.amountOf amt d) := by
  have h0 := h
  unfold canSpend at h
  split at h; · cases h
  rename_i hneg
  have hneg' : Coins.isAnyNegative amt = false := by simpa using hneg
  refine ⟨amountOf_nonneg_of_not_anyNegative amt hneg' d, ?_⟩
  by_cases hm : d ∈ Coins.denoms amt
  · right
    have := Props.C19.canSpend_leaves_locked l vs a amt h0 d hm
    omega
  · left; exact amountOf_of_not_mem_denoms amt d hm

end Shentu.C19H
