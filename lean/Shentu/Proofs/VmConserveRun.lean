import Shentu.Proofs.VmConserve
/-
  Helper lemmas for `Shentu/Props/C01run.lean`: conservation of the sum of balances over whole executions of the
  interpreter model.

  `Keeps P m`: the computation `m`, started in a frame whose accounts satisfy `P`, ends — whatever its result, the Go
  panic `none` included — in a frame whose accounts satisfy `P`.  It is closed under everything the model is written
  with (`pure`, `>>=`, `if`, `match`, `withRefund`, the `for` loop of LOGn) and holds of every primitive of the monad
  that leaves `Frame.world` alone; the three that write it (`setWorld`, `syncChild`, `applySettled`) keep `P` when the
  accounts they install satisfy `P`.  The tactic `keeps` walks through the definition of a function of `Impl.lean`
  with these rules and leaves the obligations `P w` of the world-writing places to be proved by hand.
-/
namespace Shentu.EVM

/-- `m` keeps the property `P` of the accounts of the frame, whatever its result -/
def Keeps (P : World → Prop) (m : M α) : Prop := ∀ s : Frame, P s.world → P (m s).val.2.world

-- ---------------------------------------------------------------- closure

theorem Keeps_pure {P : World → Prop} (a : α) : Keeps P (pure a : M α) := fun _ h => h

theorem bind_val_none {m : M α} {f : α → M β} {s : Frame} {s1 : Frame}
    (h : (m s).val = (none, s1)) : ((m >>= f) s).val = (none, s1) := by
  show ((M.bind m f) s).val = _
  unfold M.bind
  match hm : m s with
  | ⟨(none, s0), _⟩ =>
    rw [hm] at h
    simp at h
    subst h
    rfl
  | ⟨(some c, s0), _⟩ => rw [hm] at h; simp at h

theorem Keeps_bind {P : World → Prop} {m : M α} {f : α → M β} (hm : Keeps P m) (hf : ∀ a, Keeps P (f a)) :
    Keeps P (m >>= f) := by
  intro s hs
  have h1 := hm s hs
  match hr : (m s).val with
  | (none, s1) =>
    rw [bind_val_none hr]
    rw [hr] at h1
    exact h1
  | (some a, s1) =>
    rw [bind_val_some hr]
    rw [hr] at h1
    exact hf a s1 h1

/-- after `getF` the frame read satisfies `P` -/
theorem Keeps_getF_bind {P : World → Prop} {f : Frame → M β} (h : ∀ s, P s.world → Keeps P (f s)) :
    Keeps P (getF >>= f) := by
  intro s hs
  have h1 : (getF s).val = (some s, s) := rfl
  rw [bind_val_some h1]
  exact h s hs s hs

theorem Keeps_ite {P : World → Prop} {c : Prop} [Decidable c] {m1 m2 : M α}
    (h1 : c → Keeps P m1) (h2 : ¬ c → Keeps P m2) : Keeps P (if c then m1 else m2) := by
  split
  · exact h1 ‹_›
  · exact h2 ‹_›

theorem Keeps_withRefund {P : World → Prop} {body : M (α × Nat)} (h : Keeps P body) : Keeps P (withRefund body) := by
  intro s hs
  have h1 := h s hs
  unfold withRefund
  split
  · rename_i s' hi heq
    rw [heq] at h1
    exact h1
  · rename_i a r s' hi heq
    rw [heq] at h1
    exact h1

-- ---------------------------------------------------------------- the primitives of the monad

section prims
variable {P : World → Prop}

theorem keeps_goPanic : Keeps P (goPanic : M α) := fun _ h => h
theorem keeps_getF : Keeps P getF := fun _ h => h
theorem keeps_pushErr (e : Err) : Keeps P (pushErr e) := by
  intro s hs
  unfold pushErr
  split
  · exact hs
  · exact hs
theorem keeps_useGas (k : Nat) : Keeps P (useGas k) := by
  intro s hs
  unfold useGas
  split
  · exact hs
  · exact keeps_pushErr _ s hs
theorem keeps_setStack (st : List Nat) : Keeps P (setStack st) := fun _ h => h
theorem keeps_setMem (m : ByteArray) : Keeps P (setMem m) := fun _ h => h
theorem keeps_setPc (pc : Nat) : Keeps P (setPc pc) := fun _ h => h
theorem keeps_setRemoved (r : List Nat) : Keeps P (setRemoved r) := fun _ h => h
theorem keeps_setRetBuf (b : ByteArray) : Keeps P (setRetBuf b) := fun _ h => h
theorem keeps_addLogs (ls : List Log) : Keeps P (addLogs ls) := fun _ h => h
theorem keeps_orSeen (a b c : Nat) : Keeps P (orSeen a b c) := fun _ h => h
theorem keeps_takeGas (k : Nat) : Keeps P (takeGas k) := fun _ h => h
theorem keeps_setLastGasCost (k : Nat) : Keeps P (setLastGasCost k) := fun _ h => h
theorem keeps_addRefund (k : Nat) : Keeps P (addRefund k) := fun _ h => h
theorem keeps_addLog (l : Log) : Keeps P (addLog l) := fun _ h => h
theorem keeps_noteAlloc (k : Nat) : Keeps P (noteAlloc k) := fun _ h => h
theorem keeps_noteSeen (k : Nat) : Keeps P (noteSeen k) := fun _ h => h
theorem keeps_noteDev (k : Nat) : Keeps P (noteDev k) := fun _ h => h
theorem keeps_takeMem : Keeps P takeMem := fun _ h => h
theorem keeps_setSeq (k : Nat) : Keeps P (setSeq k) := fun _ h => h
theorem keeps_leaveGas (k : Nat) : Keeps P (leaveGas k) := fun _ h => h

-- the three that write the accounts
theorem keeps_setWorld {w : World} (h : P w) : Keeps P (setWorld w) := fun _ _ => h
theorem keeps_syncChild {w : World} (d : Bool) (r : List Nat) (h : P w) : Keeps P (syncChild w d r) := fun _ _ => h
theorem keeps_applySettled {w : World} (d : Bool) (r : List Nat) (h : P w) : Keeps P (applySettled w d r) := fun _ _ => h

end prims


-- ---------------------------------------------------------------- the tactic

/-- closes a goal `Keeps P m` for a primitive or an already treated function `m`; extended below with `macro_rules` -/
syntax "keeps_leaf" : tactic

macro_rules | `(tactic| keeps_leaf) => `(tactic| with_reducible first
  | exact Keeps_pure _ | exact keeps_goPanic | exact keeps_getF | exact keeps_pushErr _ | exact keeps_useGas _
  | exact keeps_setStack _ | exact keeps_setMem _ | exact keeps_setPc _ | exact keeps_setRemoved _
  | exact keeps_setRetBuf _ | exact keeps_addLogs _ | exact keeps_orSeen _ _ _ | exact keeps_takeGas _
  | exact keeps_setLastGasCost _ | exact keeps_addRefund _ | exact keeps_addLog _ | exact keeps_noteAlloc _
  | exact keeps_noteSeen _ | exact keeps_noteDev _ | exact keeps_takeMem | exact keeps_setSeq _ | exact keeps_leaveGas _)

/-- one structural step on a goal `Keeps P m` -/
macro "keeps_one" : tactic => `(tactic| first
  | keeps_leaf
  | with_reducible refine Keeps_getF_bind (fun _ _ => ?_)
  | with_reducible refine Keeps_bind ?_ (fun _ => ?_)
  | with_reducible refine Keeps_ite (fun _ => ?_) (fun _ => ?_)
  | with_reducible refine Keeps_withRefund ?_
  | with_reducible refine keeps_setWorld ?_
  | with_reducible refine keeps_applySettled _ _ ?_
  | with_reducible refine keeps_syncChild _ _ ?_
  | (with_reducible show Keeps _ _; dsimp only)
  | (with_reducible show Keeps _ _; split))

/-- walk through a computation; what remains are the obligations of the places that write the accounts -/
macro "keeps" : tactic => `(tactic| repeat' keeps_one)

-- ---------------------------------------------------------------- Burrow's Stack and memory

section same
variable {P : World → Prop}

theorem keeps_push (w : Nat) : Keeps P (push w) := by unfold push; keeps
theorem keeps_pop : Keeps P pop := by unfold pop; keeps
macro_rules | `(tactic| keeps_leaf) => `(tactic| with_reducible first | exact keeps_push _ | exact keeps_pop)
theorem keeps_pop64 : Keeps P pop64 := by unfold pop64; keeps
theorem keeps_dup (k : Nat) : Keeps P (dup k) := by unfold dup; keeps
theorem keeps_swap (k : Nat) : Keeps P (swap k) := by unfold swap; keeps
macro_rules | `(tactic| keeps_leaf) => `(tactic| with_reducible first | exact keeps_pop64 | exact keeps_dup _ | exact keeps_swap _)
theorem keeps_peek (k : Nat) : Keeps P (peek k) := by unfold peek; keeps
macro_rules | `(tactic| keeps_leaf) => `(tactic| with_reducible exact keeps_peek _)

theorem keeps_memRead (q : Quirks) (o l : Nat) : Keeps P (memRead q o l) := by unfold memRead; keeps
theorem keeps_memWrite (q : Quirks) (o : Nat) (v : ByteArray) : Keeps P (memWrite q o v) := by unfold memWrite; keeps
theorem keeps_memWriteBig (o l : Nat) : Keeps P (memWriteBig o l) := by unfold memWriteBig; keeps
theorem keeps_memGrow (t : Nat) : Keeps P (memGrow t) := by unfold memGrow; keeps
macro_rules | `(tactic| keeps_leaf) => `(tactic| with_reducible first
  | exact keeps_memRead _ _ _ | exact keeps_memWrite _ _ _ | exact keeps_memWriteBig _ _ | exact keeps_memGrow _)

end same

-- ---------------------------------------------------------------- gas.go, the instructions that leave the accounts alone

section same2
variable {P : World → Prop}

theorem keeps_memGasCost (k : Nat) : Keeps P (memGasCost k) := by unfold memGasCost; keeps
theorem keeps_calcMemSize (r : Shentu.Gen.Gas.MemRule) : Keeps P (calcMemSize r) := by unfold calcMemSize; keeps
macro_rules | `(tactic| keeps_leaf) => `(tactic| with_reducible first | exact keeps_memGasCost _ | exact keeps_calcMemSize _)
theorem keeps_memoryGas (a b : Nat) : Keeps P (memoryGas a b) := by unfold memoryGas; keeps
macro_rules | `(tactic| keeps_leaf) => `(tactic| with_reducible exact keeps_memoryGas _ _)
theorem keeps_dynGas (self : Nat) (d : Shentu.Gen.Gas.Dyn) (mem : Nat) : Keeps P (dynGas self d mem) := by unfold dynGas; keeps
macro_rules | `(tactic| keeps_leaf) => `(tactic| with_reducible exact keeps_dynGas _ _ _)
theorem keeps_dynPart (q : Quirks) (self : Nat) (info : Shentu.Gen.Gas.OpInfo) (d : Shentu.Gen.Gas.Dyn) :
    Keeps P (dynPart q self info d) := by unfold dynPart; keeps
macro_rules | `(tactic| keeps_leaf) => `(tactic| with_reducible exact keeps_dynPart _ _ _ _)
theorem keeps_gasLookUp (q : Quirks) (self : Nat) (info : Shentu.Gen.Gas.OpInfo) : Keeps P (gasLookUp q self info) := by
  unfold gasLookUp; keeps
theorem keeps_expandMemory (k : Nat) : Keeps P (expandMemory k) := by unfold expandMemory; keeps
macro_rules | `(tactic| keeps_leaf) => `(tactic| with_reducible first | exact keeps_gasLookUp _ _ _ | exact keeps_expandMemory _)

theorem keeps_popSigned : Keeps P popSigned := by unfold popSigned; keeps
theorem keeps_pushInt (i : Int) : Keeps P (pushInt i) := by unfold pushInt; keeps
theorem keeps_pushBool (b : Bool) : Keeps P (pushBool b) := by unfold pushBool; keeps
macro_rules | `(tactic| keeps_leaf) => `(tactic| with_reducible first | exact keeps_popSigned | exact keeps_pushInt _ | exact keeps_pushBool _)
theorem keeps_binop (f : Nat → Nat → Nat) : Keeps P (binop f) := by unfold binop; keeps
theorem keeps_jumpTo (env : Env) (to : Nat) : Keeps P (jumpTo env to) := by unfold jumpTo; keeps
macro_rules | `(tactic| keeps_leaf) => `(tactic| with_reducible first | exact keeps_binop _ | exact keeps_jumpTo _ _)
theorem keeps_copyToMem (q : Quirks) (src : ByteArray) : Keeps P (copyToMem q src) := by unfold copyToMem; keeps
theorem keeps_jumpWord (env : Env) (to : Nat) (b : Bool) : Keeps P (jumpWord env to b) := by unfold jumpWord; keeps
theorem keeps_haltBody0 (env : Env) (op : Nat) : Keeps P (haltBody0 env op) := by unfold haltBody0; keeps
theorem keeps_selfGone (env : Env) : Keeps P (selfGone env) := by unfold selfGone; keeps
macro_rules | `(tactic| keeps_leaf) => `(tactic| with_reducible first
  | exact keeps_copyToMem _ _ | exact keeps_jumpWord _ _ _ | exact keeps_haltBody0 _ _ | exact keeps_selfGone _)
theorem keeps_deriveAddr (env : Env) (op : Nat) (input : ByteArray) : Keeps P (deriveAddr env op input) := by
  unfold deriveAddr; keeps
macro_rules | `(tactic| keeps_leaf) => `(tactic| with_reducible exact keeps_deriveAddr _ _ _)
theorem keeps_createNotes (env : Env) (addr : Nat) (input : ByteArray) (r : CallRes) : Keeps P (createNotes env addr input r) := by
  unfold createNotes; keeps
macro_rules | `(tactic| keeps_leaf) => `(tactic| with_reducible exact keeps_createNotes _ _ _ _)
theorem keeps_execQuery (env : Env) (op : Nat) : Keeps P (execQuery env op) := by unfold execQuery; keeps
theorem keeps_chargeOrStop (c : Nat) : Keeps P (chargeOrStop c) := by
  intro s hs
  unfold chargeOrStop
  split
  · exact hs
  · exact hs
theorem keeps_finish (c : Ctl) : Keeps P (finish c) := by unfold finish; keeps
macro_rules | `(tactic| keeps_leaf) => `(tactic| with_reducible first
  | exact keeps_execQuery _ _ | exact keeps_chargeOrStop _ | exact keeps_finish _)

end same2
-- ---------------------------------------------------------------- `for` loops

section same3
variable {P : World → Prop}

theorem Keeps_forIn_list {β γ : Type} (l : List γ) (init : β) (f : γ → β → M (ForInStep β))
    (h : ∀ x b, Keeps P (f x b)) : Keeps P (forIn l init f) := by
  induction l generalizing init with
  | nil => rw [List.forIn_nil]; exact Keeps_pure _
  | cons x xs ih =>
    rw [List.forIn_cons]
    refine Keeps_bind (h x init) (fun r => ?_)
    split
    · exact Keeps_pure _
    · exact ih _

theorem Keeps_forIn_range {β : Type} (r : Std.Legacy.Range) (init : β) (f : Nat → β → M (ForInStep β))
    (h : ∀ x b, Keeps P (f x b)) : Keeps P (forIn r init f) := by
  rw [Std.Legacy.Range.forIn_eq_forIn_range']
  exact Keeps_forIn_list _ _ _ h

end same3
-- ---------------------------------------------------------------- the places that write the accounts

/-- what a callee frame is trusted with (the `ChildOK` of `Props/C01run.lean`) -/
def ChildKeeps (n : Nat) (child : ChildFn) : Prop :=
  ∀ (env : Env) (g : Nat) (w : World) (rm : List Nat), env.q.selfDestructSelfKeeps = true → SafeW n w →
    (child env g w rm).status = 0 → (child env g w rm).err = none → SafeW n (child env g w rm).world

theorem keeps_selfdestruct {n : Nat} (hn : n < U64) (env : Env) (hq : env.q.selfDestructSelfKeeps = true) :
    Keeps (SafeW n) (selfdestruct env) := by
  intro s hs
  exact ends_selfdestruct env hq hs s rfl (.inl hn)

theorem settle_world' (readOnly : Bool) (w : World) (dirty : Bool) (removed : List Nat) (r : CallRes) :
    (settle readOnly w dirty removed r).world = w ∨
    ((settle readOnly w dirty removed r).world = r.world ∧ r.err = none) := by
  unfold settle
  split
  · exact .inl rfl
  · rename_i he
    split
    · exact .inl rfl
    · split
      · exact .inr ⟨rfl, he⟩
      · exact .inl rfl

theorem safe_settle {n : Nat} {child : ChildFn} (hc : ChildKeeps n child) (ro : Bool) (w : World) (d : Bool) (rm : List Nat)
    (cenv : Env) (g : Nat) (w0 : World) (rm0 : List Nat) (hq : cenv.q.selfDestructSelfKeeps = true)
    (hw : SafeW n w) (hw0 : SafeW n w0) (hst : ¬ ((child cenv g w0 rm0).status != 0) = true) :
    SafeW n (settle ro w d rm (child cenv g w0 rm0)).world := by
  rcases settle_world' ro w d rm (child cenv g w0 rm0) with h | ⟨h, he⟩
  · rw [h]; exact hw
  · rw [h]
    exact hc cenv g w0 rm0 hq hw0 (by simpa using hst) he

theorem safe_create {n : Nat} {w : World} {a : Nat} (hw : SafeW n w) (h : w.get a = none) : SafeW n (w.put { addr := a }) := by
  obtain ⟨hk, ht⟩ := hw
  have := create_total_keyed hk h
  refine ⟨this.2, ?_⟩
  rw [this.1]; exact ht

theorem keeps_callFromSite {n : Nat} {child : ChildFn} (hc : ChildKeeps n child) (env : Env)
    (hq : env.q.selfDestructSelfKeeps = true) (op gasLimit target value : Nat) (input : ByteArray) :
    Keeps (SafeW n) (callFromSite child env op gasLimit target value input) := by
  unfold callFromSite
  keeps
  all_goals first
    | (refine safe_settle hc _ _ _ _ _ _ _ _ hq ?_ ?_ ?_ <;> first | assumption | (apply safe_create <;> assumption))
    | (apply safe_create <;> assumption)

macro_rules | `(tactic| keeps_leaf) => `(tactic| with_reducible refine Keeps_forIn_range _ _ _ (fun _ _ => ?_))

theorem safe_sstore {n : Nat} {w : World} (a k v : Nat) (hw : SafeW n w) : SafeW n (w.sstore a k v) := by
  obtain ⟨hk, ht⟩ := hw
  have := sstore_total_keyed a k v hk
  refine ⟨this.2, ?_⟩
  rw [this.1]; exact ht

/-- storing code (and the forebear) in an account changes no balance -/
theorem safe_put_code {n : Nat} {w : World} {acc : Account} {a : Nat} (hw : SafeW n w) (h : w.get a = some acc) (c : ByteArray)
    (f : Option Nat) : SafeW n (w.put { acc with code := c, forebear := f }) := by
  obtain ⟨hk, ht⟩ := hw
  refine ⟨keyed_put _ hk, ?_⟩
  have h1 := total_put (w := w) { acc with code := c, forebear := f } hk
  have h2 : balOf w ({ acc with code := c, forebear := f } : Account).addr = acc.balance := by
    show balOf w acc.addr = acc.balance
    rw [get_addr h]
    exact balOf_of_get_some h
  rw [h2] at h1
  show total (w.put { acc with code := c, forebear := f }) = n
  have : ({ acc with code := c, forebear := f } : Account).balance = acc.balance := rfl
  omega

theorem safe_initChildCode {n : Nat} {w : World} (hw : SafeW n w) (creator addr : Nat) (c : ByteArray) :
    SafeW n (initChildCode creator addr c w) := by
  unfold initChildCode
  split
  · exact hw
  · rename_i acc hacc
    exact safe_put_code hw hacc c _

/-- the commit rule of CREATE: the creator continues with its own accounts, or with the constructor's accounts (possibly
    with the new account's code stored) when the constructor reported no error -/
theorem safe_settleCreate {n : Nat} (q : Quirks) (ro : Bool) (creator addr : Nat) (w : World) (d : Bool) (rm : List Nat) (r : CallRes)
    (hw : SafeW n w) (hr : r.err = none → SafeW n r.world) :
    SafeW n (settleCreate q ro creator addr w d rm r).world := by
  unfold settleCreate
  split
  · exact hw
  · rename_i he
    have hr' := hr he
    split
    · exact hw
    · dsimp only
      split
      · exact hw
      · dsimp only
        split
        · exact hr'
        · exact safe_initChildCode hr' _ _ _

section run
variable {n : Nat} {child : ChildFn}

macro_rules | `(tactic| keeps_leaf) => `(tactic| (with_reducible apply keeps_callFromSite) <;> assumption)

theorem keeps_callRest (hc : ChildKeeps n child) (env : Env) (hq : env.q.selfDestructSelfKeeps = true) (op g : Nat) :
    Keeps (SafeW n) (callRest child env op g) := by
  unfold callRest
  keeps

macro_rules | `(tactic| keeps_leaf) => `(tactic| (with_reducible apply keeps_callRest) <;> assumption)

/-- the accounts the constructor's frame starts with: the creator's, plus the new (empty) account unless the address is taken -/
theorem safe_childWorld {w : World} {a : Nat} (hw : SafeW n w) : SafeW n (createWorld w a) := by
  unfold createWorld
  split
  · exact hw
  · rename_i h
    apply safe_create hw
    cases hg : w.get a with
    | none => rfl
    | some x => simp [hg] at h

theorem keeps_createAfter (env : Env) (addr : Nat) (input : ByteArray) (r : CallRes) (hr : r.err = none → SafeW n r.world) :
    Keeps (SafeW n) (createAfter env addr input r) := by
  unfold createAfter
  keeps
  all_goals exact safe_settleCreate _ _ _ _ _ _ _ _ (by assumption) hr

theorem keeps_createRun (hc : ChildKeeps n child) (env : Env) (hq : env.q.selfDestructSelfKeeps = true) (v addr : Nat)
    (input : ByteArray) : Keeps (SafeW n) (createRun child env v addr input) := by
  unfold createRun
  keeps
  all_goals
    refine keeps_createAfter _ _ _ _ (fun he => ?_)
    refine hc _ _ _ _ (by rw [createEnv_q]; exact hq) (safe_childWorld (by assumption)) ?_ he
    simp_all

macro_rules | `(tactic| keeps_leaf) => `(tactic| (with_reducible apply keeps_createRun) <;> assumption)

theorem keeps_createRest (hc : ChildKeeps n child) (env : Env) (hq : env.q.selfDestructSelfKeeps = true) (op v : Nat) :
    Keeps (SafeW n) (createRest child env op v) := by
  unfold createRest
  keeps

macro_rules | `(tactic| keeps_leaf) => `(tactic| (with_reducible apply keeps_createRest) <;> assumption)

theorem keeps_freeRest (hc : ChildKeeps n child) (env : Env) (hq : env.q.selfDestructSelfKeeps = true) (op a : Nat) :
    Keeps (SafeW n) (freeRest child env op a) := by
  unfold freeRest
  keeps
  apply safe_sstore; assumption

macro_rules | `(tactic| keeps_leaf) => `(tactic| (with_reducible apply keeps_freeRest) <;> assumption)

theorem keeps_execFree (hc : ChildKeeps n child) (env : Env) (hq : env.q.selfDestructSelfKeeps = true) (op : Nat) :
    Keeps (SafeW n) (execFree child env op) := by
  unfold execFree
  keeps

theorem keeps_haltBody (hn : n < U64) (env : Env) (hq : env.q.selfDestructSelfKeeps = true) (op : Nat) :
    Keeps (SafeW n) (haltBody env op) := by
  unfold haltBody
  refine Keeps_ite (fun _ => keeps_selfdestruct hn env hq) (fun _ => ?_)
  keeps

theorem keeps_execHalt (hn : n < U64) (env : Env) (hq : env.q.selfDestructSelfKeeps = true) (op : Nat) :
    Keeps (SafeW n) (execHalt env op) := by
  unfold execHalt
  exact Keeps_bind (keeps_haltBody hn env hq op) (fun _ => Keeps_pure _)

theorem keeps_execRegular (hc : ChildKeeps n child) (env : Env) (hq : env.q.selfDestructSelfKeeps = true) (op : Nat) :
    Keeps (SafeW n) (execRegular child env op) := by
  unfold execRegular
  keeps

theorem keeps_exec (hn : n < U64) (hc : ChildKeeps n child) (env : Env) (hq : env.q.selfDestructSelfKeeps = true) (op : Nat) :
    Keeps (SafeW n) (exec child env op) := by
  unfold exec
  refine Keeps_ite (fun _ => keeps_execHalt hn env hq op) (fun _ => ?_)
  exact Keeps_ite (fun _ => keeps_execFree hc env hq op) (fun _ => keeps_execRegular hc env hq op)

end run
-- ---------------------------------------------------------------- the loop, the frame, the nesting

section run2
variable {n : Nat} {child : ChildFn}

theorem keeps_stepBody (hn : n < U64) (hc : ChildKeeps n child) (env : Env) (hq : env.q.selfDestructSelfKeeps = true) (op : Nat) :
    Keeps (SafeW n) (stepBody child env op) := by
  unfold stepBody
  have := keeps_exec hn hc env hq op
  keeps
  assumption

theorem keeps_step (hn : n < U64) (hc : ChildKeeps n child) (env : Env) (hq : env.q.selfDestructSelfKeeps = true) :
    Keeps (SafeW n) (step child env) := by
  intro s hs
  unfold step
  split
  · exact hs
  · split
    · exact hs
    · split
      · exact Keeps_bind (keeps_noteDev 4) (fun _ => Keeps_pure _) s hs
      · exact keeps_stepBody hn hc env hq _ s hs

theorem run_safe (hn : n < U64) (hc : ChildKeeps n child) (env : Env) (hq : env.q.selfDestructSelfKeeps = true) (fuel : Nat) :
    ∀ s : Frame, SafeW n s.world → SafeW n (run child env fuel s).2.world := by
  induction fuel with
  | zero => intro s hs; exact hs
  | succ fuel ih =>
    intro s hs
    have h1 := keeps_step hn hc env hq s hs
    unfold run
    split
    · rename_i s' hi heq
      rw [heq] at h1; exact h1
    · rename_i s' hi heq
      rw [heq] at h1; exact ih s' h1
    · rename_i r e s' hi heq
      rw [heq] at h1; exact h1
    · rename_i s' hi heq
      rw [heq] at h1; exact h1

theorem safe_openFrame (env : Env) {w : World} (hw : SafeW n w) : SafeW n (openFrame env w).1 := by
  obtain ⟨hk, ht⟩ := hw
  unfold openFrame
  split
  · split
    · rename_i w' h
      have := transfer_total_keyed hk h
      refine ⟨this.2, ?_⟩
      rw [this.1]; exact ht
    · exact ⟨hk, ht⟩
  · exact ⟨hk, ht⟩

theorem frameRun_safe (hn : n < U64) (hc : ChildKeeps n child) (env : Env) (hq : env.q.selfDestructSelfKeeps = true)
    (s : Frame) (hs : SafeW n s.world) : SafeW n (frameRun child env s).2.world := by
  unfold frameRun
  split
  · exact hs
  · exact run_safe hn hc env hq _ s hs

theorem packRes_world (terr : Option Err) (o : Outcome) (s : Frame) (h : (packRes terr o s).status = 0) :
    (packRes terr o s).world = s.world := by
  unfold packRes at h ⊢
  split
  · rfl
  · simp at h
  · simp at h
  · simp at h

theorem runFrame_childKeeps (hn : n < U64) (hc : ChildKeeps n child) : ChildKeeps n (runFrame child) := by
  intro env g w rm hq hw hst _
  unfold runFrame at hst ⊢
  dsimp only at hst ⊢
  rw [packRes_world _ _ _ hst]
  exact frameRun_safe hn hc env hq _ (safe_openFrame env hw)

theorem runDepth_childKeeps (hn : n < U64) : ∀ d : Nat, ChildKeeps n (runDepth d) := by
  intro d
  induction d with
  | zero =>
    intro env g w rm _ _ hst _
    unfold runDepth at hst
    simp at hst
  | succ d ih =>
    have := runFrame_childKeeps hn ih
    intro env g w rm hq hw hst he
    exact this env g w rm hq hw hst he

theorem execTop_safe (env : Env) (hq : env.q.selfDestructSelfKeeps = true) (gas : Nat) (pre : World) (depth : Nat)
    (hn : n < U64) (hw : SafeW n pre) : SafeW n (execTop env gas pre depth).world := by
  unfold execTop
  dsimp only
  split
  · rename_i h
    simp only [Bool.and_eq_true, beq_iff_eq, Option.isNone_iff_eq_none] at h
    exact runFrame_childKeeps hn (runDepth_childKeeps hn depth) env gas pre [] hq hw h.1 h.2
  · exact hw

end run2
end Shentu.EVM
