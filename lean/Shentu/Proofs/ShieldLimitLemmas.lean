import Shentu.Model.Shield
import Shentu.Proofs.BankLemmas
import Shentu.Proofs.Tactics
/-
  Helper lemmas for C06 (purchase limits, deposits, staking hooks of x/shield):
  coins/Dec facts, "upsert" store lemmas for pools and providers, and a decomposition of
  `purchaseCore` into its guard, its payment step and its bookkeeping step.
-/
namespace Shentu.Shield.Limit
open Shentu

/-! ## coins and decimals -/

theorem isZero_nil : Coins.isZero [] = true := rfl

theorem isZero_single (d : Denom) (x : Int) : Coins.isZero [(d, x)] = (x == 0) := by
  simp only [Coins.isZero, Coins.canon, Coins.denoms, Coins.sortDenoms, List.map, List.eraseDups_cons,
    List.filter_nil, List.eraseDups_nil, List.foldr, Coins.insertSorted, List.filterMap_cons, List.filterMap_nil,
    Coins.amountOf_cons, Coins.amountOf_nil, beq_self_eq_true, if_true, Int.add_zero]
  by_cases h : x = 0 <;> simp [h]

theorem amountOf_single' (d : Denom) (x : Int) : Coins.amountOf [(d, x)] d = x := by simp

theorem isAllPositive_not_isZero (c : Coins) (h : Coins.isAllPositive c = true) : Coins.isZero c = false := by
  simp only [Coins.isAllPositive, Bool.and_eq_true, Bool.not_eq_true'] at h
  exact h.1

theorem chopRoundNonneg_mul_prec (a : Int) : Dec.chopRoundNonneg (a * Dec.prec) = a := by
  have hp : Dec.prec ≠ 0 := by decide
  simp [Dec.chopRoundNonneg, Int.mul_tmod_left, Int.mul_tdiv_cancel _ hp]

theorem chopRound_mul_prec (a : Int) : Dec.chopRound (a * Dec.prec) = a := by
  unfold Dec.chopRound
  split
  · rw [← Int.neg_mul, chopRoundNonneg_mul_prec]; omega
  · exact chopRoundNonneg_mul_prec a

/-- multiplying an integral `Dec` is exact: no rounding happens -/
theorem Dec_mul_ofInt (a : Int) (r : Dec) : Dec.mul (Dec.ofInt a) r = ⟨a * r.raw⟩ := by
  simp only [Dec.mul, Dec.ofInt]
  congr 1
  rw [Int.mul_right_comm, chopRound_mul_prec]

theorem trunc_mul_ofInt (a : Int) (r : Dec) : Dec.truncateInt (Dec.mul (Dec.ofInt a) r) = Int.tdiv (a * r.raw) Dec.prec := by
  rw [Dec_mul_ofInt]; rfl
theorem trunc_mulInt (a : Int) (r : Dec) : Dec.truncateInt (Dec.mulInt r a) = Int.tdiv (r.raw * a) Dec.prec := rfl

/-! ## store lemmas -/

theorem find_map_upd {α κ : Type} [BEq κ] [LawfulBEq κ] [DecidableEq κ] (key : α → κ) (l : List α) (p : α) (k : κ) :
    (l.map (fun x => if key x == key p then p else x)).find? (fun x => key x == k) =
      if k = key p then (l.find? (fun x => key x == k)).map (fun _ => p) else l.find? (fun x => key x == k) := by
  induction l with
  | nil => simp
  | cons x xs ih =>
    by_cases hx : key x = key p
    · have h1 : (key x == key p) = true := by simpa using hx
      by_cases hid : k = key p
      · have h2 : (key p == k) = true := by simpa using hid.symm
        have h3 : (key x == k) = true := by simp [hx, hid]
        simp only [List.map_cons, List.find?_cons, h1, h2, h3, if_true, if_pos hid, Option.map_some]
      · have h2 : (key p == k) = false := by simpa using fun h => hid h.symm
        have h3 : (key x == k) = false := by simp [hx]; exact fun h => hid h.symm
        simp only [List.map_cons, List.find?_cons, h1, h2, h3, if_true, ih, if_neg hid]
    · have h1 : (key x == key p) = false := by simpa using hx
      by_cases hid : k = key p
      · have h3 : (key x == k) = false := by simp [hid, hx]
        simp only [List.map_cons, List.find?_cons, h1, h3, ih, Bool.false_eq_true, if_false]
      · simp only [List.map_cons, List.find?_cons, h1, ih, Bool.false_eq_true, if_false, if_neg hid]

theorem findPool_setPool (s : State) (p : Pool) (id : Nat) :
    findPool (setPool s p) id = if id = p.id then (findPool s id).map (fun _ => p) else findPool s id := by
  simp only [findPool, setPool]; exact find_map_upd (·.id) s.pools p id

theorem findPool_id (s : State) (id : Nat) (p : Pool) (h : findPool s id = some p) : p.id = id := by
  have := List.find?_some h; simpa using this

theorem findProvider_setProvider (s : State) (p : Provider) (a : Addr) :
    findProvider (setProvider s p) a = if a = p.addr then (findProvider s a).map (fun _ => p) else findProvider s a := by
  simp only [findProvider, setProvider]; exact find_map_upd (·.addr) s.providers p a

theorem findProvider_addr (s : State) (a : Addr) (p : Provider) (h : findProvider s a = some p) : p.addr = a := by
  have := List.find?_some h; simpa using this

/-! ## `purchaseCore` in three steps -/

/-- the state after a purchase paid with fees (before the shield is booked) -/
def feeState (e : Env) (s : State) (fees : Coins) : State :=
  { s with serviceFees := Dec.add s.serviceFees (Dec.ofInt (Coins.amountOf fees e.bond)),
           remaining := Dec.add s.remaining (Dec.ofInt (Coins.amountOf fees e.bond)) }

/-- the state after a purchase backed by a staked deposit (before the shield is booked) -/
def stakeState (e : Env) (s : State) (pid poolID : Nat) (purchaser : Addr) (staking : Coins) : State :=
  let amt := Coins.amountOf staking e.bond
  let k : Stake := match findStake s poolID purchaser with
    | some k => { k with amount := k.amount + amt }
    | none => { pool := poolID, purchaser := purchaser, amount := amt, requested := 0 }
  let s1 := setStake { s with stakingPool := s.stakingPool + amt } k
  { s1 with origStakings := (s1.origStakings.filter (·.1 != pid)) ++ [(pid, amt)] }

/-- the payment part of `purchaseCore` (`s` is the state with the purchase counter already advanced, `pid` the new id) -/
def payStep (e : Env) (l : Ledger) (s : State) (pid poolID : Nat) (purchaser : Addr) (fees staking : Coins) :
    Except Err (Ledger × State) :=
  if !Coins.isZero fees then
    match l.send purchaser e.modAddr fees with
    | .error x => .error x
    | .ok l' => .ok (l', feeState e s fees)
  else
    match l.send purchaser e.modAddr [(e.bond, Coins.amountOf staking e.bond)] with
    | .error x => .error x
    | .ok l' => .ok (l', stakeState e s pid poolID purchaser staking)

/-- the bookkeeping part of `purchaseCore` after the payment -/
def finishStep (e : Env) (s s1 : State) (pool : Pool) (pid poolID : Nat) (shieldAmt : Int) (purchaser : Addr) (fees : Coins) : State :=
  let s2 := setPool { s1 with totalShield := s1.totalShield + shieldAmt } { pool with shield := pool.shield + shieldAmt }
  let endT := e.t + s.params.protection
  let entry : Purchase := { id := pid, endTime := endT, delTime := endT, shield := shieldAmt,
                            fees := if Coins.isZero fees then Dec.zero else Dec.ofInt (Coins.amountOf fees e.bond) }
  let lst : PList := match findList s2 poolID purchaser with
    | some x => { x with entries := x.entries ++ [entry] }
    | none => { pool := poolID, purchaser := purchaser, entries := [entry] }
  let s3 := setList s2 lst
  if s3.lastUpdate == zeroTime then { s3 with lastUpdate := e.t } else s3

theorem purchaseCore_eq (e : Env) (l : Ledger) (s : State) (poolID : Nat) (shield : Coins) (purchaser : Addr) (fees staking : Coins) :
    purchaseCore e l s poolID shield purchaser fees staking =
    match findPool s poolID with
    | none => err "shield:no-pool"
    | some pool =>
      if !pool.active then err "shield:pool-inactive"
      else if Coins.isZero shield then err "shield:no-shield"
      else if Coins.isZero fees && Coins.isZero staking then err "shield:no-shield"
      else if s.totalShield + Coins.amountOf shield e.bond > s.totalCollateral - s.totalWithdrawing - s.totalClaimed then
        err "shield:not-enough-collateral"
      else if Coins.amountOf shield e.bond + pool.shield >
          min pool.limit (Dec.truncateInt (Dec.mul (Dec.ofInt (s.totalCollateral - s.totalWithdrawing - s.totalClaimed)) s.params.poolLimit)) then
        err "shield:pool-limit"
      else
        match payStep e l { s with nextPurchase := s.nextPurchase + 1 } s.nextPurchase poolID purchaser fees staking with
        | .error x => .error x
        | .ok (l', s1) => .ok (l', finishStep e s s1 pool s.nextPurchase poolID (Coins.amountOf shield e.bond) purchaser fees) := by
  rfl

/-- the fields C06 talks about; `setList`/`setStake` and the fee bookkeeping do not touch them -/
structure SameCore (s s' : State) : Prop where
  pools : s'.pools = s.pools
  providers : s'.providers = s.providers
  withdraws : s'.withdraws = s.withdraws
  totalCollateral : s'.totalCollateral = s.totalCollateral
  totalWithdrawing : s'.totalWithdrawing = s.totalWithdrawing
  totalShield : s'.totalShield = s.totalShield
  totalClaimed : s'.totalClaimed = s.totalClaimed
  params : s'.params = s.params
  admin : s'.admin = s.admin

theorem SameCore.refl (s : State) : SameCore s s := ⟨rfl, rfl, rfl, rfl, rfl, rfl, rfl, rfl, rfl⟩
theorem SameCore.trans {a b c : State} (h1 : SameCore a b) (h2 : SameCore b c) : SameCore a c :=
  ⟨h2.pools.trans h1.pools, h2.providers.trans h1.providers, h2.withdraws.trans h1.withdraws,
   h2.totalCollateral.trans h1.totalCollateral, h2.totalWithdrawing.trans h1.totalWithdrawing,
   h2.totalShield.trans h1.totalShield, h2.totalClaimed.trans h1.totalClaimed, h2.params.trans h1.params,
   h2.admin.trans h1.admin⟩

theorem setList_same (s : State) (l : PList) : SameCore s (setList s l) := by
  unfold setList; split <;> exact ⟨rfl, rfl, rfl, rfl, rfl, rfl, rfl, rfl, rfl⟩
theorem setStake_same (s : State) (k : Stake) : SameCore s (setStake s k) := by
  unfold setStake; split <;> exact ⟨rfl, rfl, rfl, rfl, rfl, rfl, rfl, rfl, rfl⟩

theorem stakeState_same (e : Env) (s : State) (pid poolID : Nat) (purchaser : Addr) (staking : Coins) :
    SameCore s (stakeState e s pid poolID purchaser staking) := by
  unfold stakeState
  dsimp only
  generalize (match findStake s poolID purchaser with
    | some k => _
    | none => _ : Stake) = k
  have := setStake_same { s with stakingPool := s.stakingPool + Coins.amountOf staking e.bond } k
  exact ⟨this.pools, this.providers, this.withdraws, this.totalCollateral, this.totalWithdrawing, this.totalShield,
    this.totalClaimed, this.params, this.admin⟩

theorem payStep_ok (e : Env) (l l' : Ledger) (s s1 : State) (pid poolID : Nat) (purchaser : Addr) (fees staking : Coins)
    (h : payStep e l s pid poolID purchaser fees staking = .ok (l', s1)) :
    (if Coins.isZero fees = false then l.send purchaser e.modAddr fees
      else l.send purchaser e.modAddr [(e.bond, Coins.amountOf staking e.bond)]) = .ok l' ∧ SameCore s s1 := by
  unfold payStep at h
  split at h
  · rename_i hz
    have hz' : Coins.isZero fees = false := by simpa using hz
    rw [if_pos hz']
    split at h
    · cases h
    · rename_i l2 hs
      injection h with h; injection h with h1 h2
      subst h1 h2
      exact ⟨hs, ⟨rfl, rfl, rfl, rfl, rfl, rfl, rfl, rfl, rfl⟩⟩
  · rename_i hz
    have hz' : ¬ Coins.isZero fees = false := by simpa using hz
    rw [if_neg hz']
    split at h
    · cases h
    · rename_i l2 hs
      injection h with h; injection h with h1 h2
      subst h1 h2
      exact ⟨hs, stakeState_same e s pid poolID purchaser staking⟩

theorem payStep_accept (e : Env) (l l' : Ledger) (s : State) (pid poolID : Nat) (purchaser : Addr) (fees staking : Coins)
    (h : (if Coins.isZero fees = false then l.send purchaser e.modAddr fees
      else l.send purchaser e.modAddr [(e.bond, Coins.amountOf staking e.bond)]) = .ok l') :
    ∃ s1, payStep e l s pid poolID purchaser fees staking = .ok (l', s1) := by
  unfold payStep
  by_cases hz : Coins.isZero fees = false
  · rw [if_pos hz] at h
    simp only [hz, Bool.not_false, if_true, h]
    exact ⟨_, rfl⟩
  · rw [if_neg hz] at h
    have hz' : Coins.isZero fees = true := by simpa using hz
    simp only [hz', Bool.not_true, Bool.false_eq_true, if_false, h]
    exact ⟨_, rfl⟩

/-- what booking a purchase of `amt` in `pool` does to the fields C06 talks about -/
structure Booked (s1 s' : State) (pool : Pool) (amt : Int) : Prop where
  pools : s'.pools = s1.pools.map (fun x => if x.id == pool.id then { pool with shield := pool.shield + amt } else x)
  totalShield : s'.totalShield = s1.totalShield + amt
  providers : s'.providers = s1.providers
  withdraws : s'.withdraws = s1.withdraws
  totalCollateral : s'.totalCollateral = s1.totalCollateral
  totalWithdrawing : s'.totalWithdrawing = s1.totalWithdrawing
  totalClaimed : s'.totalClaimed = s1.totalClaimed
  params : s'.params = s1.params
  admin : s'.admin = s1.admin

theorem Booked.of_same_left {s0 s1 s' : State} {pool : Pool} {amt : Int} (h0 : SameCore s0 s1) (h : Booked s1 s' pool amt) :
    Booked s0 s' pool amt :=
  ⟨by rw [h.pools, h0.pools], by rw [h.totalShield, h0.totalShield], h.providers.trans h0.providers,
   h.withdraws.trans h0.withdraws, h.totalCollateral.trans h0.totalCollateral, h.totalWithdrawing.trans h0.totalWithdrawing,
   h.totalClaimed.trans h0.totalClaimed, h.params.trans h0.params, h.admin.trans h0.admin⟩

theorem Booked.of_same_right {s1 s2 s' : State} {pool : Pool} {amt : Int} (h : Booked s1 s2 pool amt) (h2 : SameCore s2 s') :
    Booked s1 s' pool amt :=
  ⟨h2.pools.trans h.pools, h2.totalShield.trans h.totalShield, h2.providers.trans h.providers,
   h2.withdraws.trans h.withdraws, h2.totalCollateral.trans h.totalCollateral, h2.totalWithdrawing.trans h.totalWithdrawing,
   h2.totalClaimed.trans h.totalClaimed, h2.params.trans h.params, h2.admin.trans h.admin⟩

theorem lastUpdate_same (s : State) (t : Int) : SameCore s (if s.lastUpdate == zeroTime then { s with lastUpdate := t } else s) := by
  split <;> exact ⟨rfl, rfl, rfl, rfl, rfl, rfl, rfl, rfl, rfl⟩

theorem finishStep_booked (e : Env) (s s1 : State) (pool : Pool) (pid poolID : Nat) (amt : Int) (purchaser : Addr) (fees : Coins) :
    Booked s1 (finishStep e s s1 pool pid poolID amt purchaser fees) pool amt := by
  unfold finishStep
  dsimp only
  generalize hs2 : setPool { s1 with totalShield := s1.totalShield + amt } { pool with shield := pool.shield + amt } = s2
  have h2 : Booked s1 s2 pool amt := by
    subst hs2; exact ⟨rfl, rfl, rfl, rfl, rfl, rfl, rfl, rfl, rfl⟩
  generalize (match findList s2 poolID purchaser with
    | some x => _
    | none => _ : PList) = lst
  exact (h2.of_same_right (setList_same s2 lst)).of_same_right (lastUpdate_same _ _)

/-- a successful `purchaseCore` passed every guard, its payment went through, and the shield was booked -/
theorem purchaseCore_ok (e : Env) (l l' : Ledger) (s s' : State) (poolID : Nat) (shield : Coins) (purchaser : Addr)
    (fees staking : Coins)
    (h : purchaseCore e l s poolID shield purchaser fees staking = .ok (l', s')) :
    ∃ pool, findPool s poolID = some pool ∧ pool.active = true ∧ Coins.isZero shield = false ∧
      (Coins.isZero fees && Coins.isZero staking) = false ∧
      s.totalShield + Coins.amountOf shield e.bond ≤ s.totalCollateral - s.totalWithdrawing - s.totalClaimed ∧
      Coins.amountOf shield e.bond + pool.shield ≤
        min pool.limit (Dec.truncateInt (Dec.mul (Dec.ofInt (s.totalCollateral - s.totalWithdrawing - s.totalClaimed)) s.params.poolLimit)) ∧
      (if Coins.isZero fees = false then l.send purchaser e.modAddr fees
        else l.send purchaser e.modAddr [(e.bond, Coins.amountOf staking e.bond)]) = .ok l' ∧
      Booked s s' pool (Coins.amountOf shield e.bond) := by
  rw [purchaseCore_eq] at h
  split at h
  · cases h
  rename_i pool hp
  split at h; · cases h
  rename_i h1
  split at h; · cases h
  rename_i h2
  split at h; · cases h
  rename_i h3
  split at h; · cases h
  rename_i h4
  split at h; · cases h
  rename_i h5
  split at h
  · cases h
  rename_i l2 s1 hpay
  injection h with h; injection h with ha hb
  subst ha hb
  have ⟨hsend, hsame⟩ := payStep_ok _ _ _ _ _ _ _ _ _ _ hpay
  have hsame' : SameCore s s1 :=
    ⟨hsame.pools, hsame.providers, hsame.withdraws, hsame.totalCollateral, hsame.totalWithdrawing, hsame.totalShield,
     hsame.totalClaimed, hsame.params, hsame.admin⟩
  refine ⟨pool, hp, by simpa using h1, by simpa using h2, by simpa using h3, by omega, by omega, hsend, ?_⟩
  exact (finishStep_booked _ _ _ _ _ _ _ _ _).of_same_left hsame'

/-- conversely: when every guard holds and the payment goes through, `purchaseCore` succeeds -/
theorem purchaseCore_accept (e : Env) (l l' : Ledger) (s : State) (poolID : Nat) (shield : Coins) (purchaser : Addr)
    (fees staking : Coins) (pool : Pool)
    (hp : findPool s poolID = some pool) (ha : pool.active = true) (hz : Coins.isZero shield = false)
    (hfs : (Coins.isZero fees && Coins.isZero staking) = false)
    (h1 : s.totalShield + Coins.amountOf shield e.bond ≤ s.totalCollateral - s.totalWithdrawing - s.totalClaimed)
    (h2 : Coins.amountOf shield e.bond + pool.shield ≤
        min pool.limit (Dec.truncateInt (Dec.mul (Dec.ofInt (s.totalCollateral - s.totalWithdrawing - s.totalClaimed)) s.params.poolLimit)))
    (hpay : (if Coins.isZero fees = false then l.send purchaser e.modAddr fees
        else l.send purchaser e.modAddr [(e.bond, Coins.amountOf staking e.bond)]) = .ok l') :
    ∃ s', purchaseCore e l s poolID shield purchaser fees staking = .ok (l', s') := by
  rw [purchaseCore_eq]
  obtain ⟨s1, hs1⟩ := payStep_accept e l l' { s with nextPurchase := s.nextPurchase + 1 } s.nextPurchase poolID purchaser fees staking hpay
  have g1 : ¬ (s.totalShield + Coins.amountOf shield e.bond > s.totalCollateral - s.totalWithdrawing - s.totalClaimed) := by omega
  have g2 : ¬ (Coins.amountOf shield e.bond + pool.shield >
        min pool.limit (Dec.truncateInt (Dec.mul (Dec.ofInt (s.totalCollateral - s.totalWithdrawing - s.totalClaimed)) s.params.poolLimit))) := by omega
  simp only [hp, ha, hz, hfs, Bool.not_true, Bool.false_eq_true, if_false, if_neg g1, if_neg g2, hs1]
  exact ⟨_, rfl⟩

theorem Booked.findPool_self {s s' : State} {pool : Pool} {amt : Int} (h : Booked s s' pool amt) {poolID : Nat}
    (hp : findPool s poolID = some pool) :
    findPool s' poolID = some { pool with shield := pool.shield + amt } := by
  have hid := findPool_id s poolID pool hp
  have := find_map_upd (·.id) s.pools { pool with shield := pool.shield + amt } poolID
  simp only [findPool] at hp ⊢
  rw [h.pools]
  dsimp only at this
  rw [this, if_pos hid.symm, hp]; rfl

theorem Booked.findPool_other {s s' : State} {pool : Pool} {amt : Int} (h : Booked s s' pool amt) {id : Nat}
    (hne : id ≠ pool.id) : findPool s' id = findPool s id := by
  have := find_map_upd (·.id) s.pools { pool with shield := pool.shield + amt } id
  simp only [findPool]
  rw [h.pools]
  dsimp only at this
  rw [this, if_neg hne]

/-! ## the user operations -/

theorem purchase_paid_eq (e : Env) (l : Ledger) (s : State) (poolID : Nat) (shield : Coins) (purchaser : Addr) :
    purchase e l s poolID shield purchaser false =
      if poolID == 0 || !Coins.isAllPositive shield then err "basic:shield:invalid-purchase"
      else if !Coins.isZero shield && s.params.minPurchase > Coins.amountOf shield e.bond && Coins.amountOf shield e.bond != 0 then
        err "shield:purchase-too-small"
      else purchaseCore e l s poolID shield purchaser
        [(e.bond, Dec.truncateInt (Dec.mul (Dec.ofInt (Coins.amountOf shield e.bond)) s.params.feesRate))] [] := by
  rfl

theorem purchase_staked_eq (e : Env) (l : Ledger) (s : State) (poolID : Nat) (shield : Coins) (purchaser : Addr) :
    purchase e l s poolID shield purchaser true =
      if !Coins.isZero shield && s.params.minPurchase > Coins.amountOf shield e.bond && Coins.amountOf shield e.bond != 0 then
        err "shield:purchase-too-small"
      else purchaseCore e l s poolID shield purchaser []
        [(e.bond, Dec.truncateInt (Dec.mulInt s.params.stakingRate (Coins.amountOf shield e.bond)))] := by
  rfl

theorem trunc_mul_ofInt_zero (r : Dec) : Dec.truncateInt (Dec.mul (Dec.ofInt 0) r) = 0 := by
  rw [trunc_mul_ofInt]; simp
theorem trunc_mulInt_zero (r : Dec) : Dec.truncateInt (Dec.mulInt r 0) = 0 := by
  rw [trunc_mulInt]; simp

/-! ## the admin operations -/

/-- the state in which `createPool` makes its purchase -/
def withNewPool (s : State) (sponsor : String) (sponsorAddr : Addr) (limit : Int) : State :=
  { s with pools := s.pools ++ [{ id := s.nextPool, shield := 0, limit := limit, active := true, sponsor := sponsor, sponsorAddr := sponsorAddr }],
           nextPool := s.nextPool + 1 }

theorem createPool_eq (e : Env) (l : Ledger) (s : State) (creator : Addr) (shield fees : Coins) (sponsor : String)
    (sponsorAddr : Addr) (limit : Int) :
    createPool e l s creator shield fees sponsor sponsorAddr limit =
      if sponsor.trimAscii.toString == "" || !Coins.isAllPositive shield then err "basic:shield:invalid-pool"
      else if creator != s.admin then err "shield:not-admin"
      else purchaseCore e l (withNewPool s sponsor sponsorAddr limit) s.nextPool shield creator fees [] := rfl

theorem findPool_withNewPool (s : State) (sponsor : String) (sponsorAddr : Addr) (limit : Int)
    (hfresh : findPool s s.nextPool = none) :
    findPool (withNewPool s sponsor sponsorAddr limit) s.nextPool =
      some { id := s.nextPool, shield := 0, limit := limit, active := true, sponsor := sponsor, sponsorAddr := sponsorAddr } := by
  simp only [findPool, withNewPool] at hfresh ⊢
  rw [List.find?_append, hfresh]
  simp

/-- the pool as `updatePool` rewrites it before a purchase -/
def relimit (pool : Pool) (limit : Int) : Pool := if limit != 0 then { pool with limit := limit } else pool

theorem relimit_id (pool : Pool) (limit : Int) : (relimit pool limit).id = pool.id := by unfold relimit; split <;> rfl
theorem relimit_shield (pool : Pool) (limit : Int) : (relimit pool limit).shield = pool.shield := by unfold relimit; split <;> rfl
theorem relimit_active (pool : Pool) (limit : Int) : (relimit pool limit).active = pool.active := by unfold relimit; split <;> rfl
theorem relimit_limit (pool : Pool) (limit : Int) : (relimit pool limit).limit = if limit = 0 then pool.limit else limit := by
  unfold relimit; by_cases h : limit = 0 <;> simp [h]

theorem updatePool_eq (e : Env) (l : Ledger) (s : State) (updater : Addr) (poolID : Nat) (shield fees : Coins) (limit : Int) :
    updatePool e l s updater poolID shield fees limit =
      if poolID == 0 || Coins.isAnyNegative shield then err "basic:shield:invalid-pool"
      else if updater != s.admin then err "shield:not-admin"
      else match findPool s poolID with
      | none => err "shield:no-pool"
      | some pool =>
        if !Coins.isZero shield then purchaseCore e l (setPool s (relimit pool limit)) poolID shield updater fees []
        else if !Coins.isZero fees then
          match l.send updater e.modAddr fees with
          | .error x => .error x
          | .ok l' => .ok (l', feeState e (setPool s (relimit pool limit)) fees)
        else .ok (l, setPool s (relimit pool limit)) := rfl

theorem findPool_setPool_self (s : State) (p pool : Pool) (h : findPool s p.id = some pool) :
    findPool (setPool s p) p.id = some p := by
  rw [findPool_setPool, if_pos rfl, h]; rfl

/-- replacing a pool by one with the same shield leaves every pool's shield as it was -/
theorem findPool_setPool_shield (s : State) (p pool : Pool) (h : findPool s p.id = some pool) (hs : p.shield = pool.shield)
    (id : Nat) : (findPool (setPool s p) id).map (·.shield) = (findPool s id).map (·.shield) := by
  rw [findPool_setPool]
  split
  · rename_i hid; subst hid; rw [h]; simp [hs]
  · rfl

/-! ## deposits -/

theorem find_insertProvider_ne (p : Provider) (l : List Provider) (a : Addr) (h : a ≠ p.addr) :
    (insertProvider p l).find? (·.addr == a) = l.find? (·.addr == a) := by
  have hp : (p.addr == a) = false := by simpa using fun h' => h h'.symm
  induction l with
  | nil => simp only [insertProvider, List.find?_cons, hp, List.find?_nil]
  | cons x xs ih =>
    unfold insertProvider
    split
    · simp only [List.find?_cons, hp]
    · simp only [List.find?_cons, ih]

theorem find_insertProvider_self (p : Provider) (l : List Provider) (h : l.find? (·.addr == p.addr) = none) :
    (insertProvider p l).find? (·.addr == p.addr) = some p := by
  induction l with
  | nil => simp [insertProvider]
  | cons x xs ih =>
    rw [List.find?_cons] at h
    split at h
    · cases h
    · rename_i hx
      unfold insertProvider
      split
      · simp
      · rw [List.find?_cons, hx]; exact ih h

/-- a provider record for a first deposit -/
def newProvider (e : Env) (a : Addr) : Provider :=
  { addr := a, collateral := 0, withdrawing := 0, bonded := (e.bondedAfter a).getD 0, rewards := Dec.zero }

theorem deposit_existing (e : Env) (s : State) (a : Addr) (coins : Coins) (p : Provider) (h : findProvider s a = some p) :
    deposit e s a coins =
      if !Coins.isAllPositive coins then err "basic:shield:invalid-coins"
      else if (Coins.denoms coins).any (· != e.bond) then err "shield:bad-denom"
      else if p.bonded < p.collateral + Coins.amountOf coins e.bond - p.withdrawing then err "shield:insufficient-staking"
      else .ok { setProvider s { p with collateral := p.collateral + Coins.amountOf coins e.bond } with
                 totalCollateral := s.totalCollateral + Coins.amountOf coins e.bond } := by
  simp only [deposit, h]
  rfl

theorem deposit_new (e : Env) (s : State) (a : Addr) (coins : Coins) (h : findProvider s a = none) :
    deposit e s a coins =
      if !Coins.isAllPositive coins then err "basic:shield:invalid-coins"
      else if (Coins.denoms coins).any (· != e.bond) then err "shield:bad-denom"
      else if (newProvider e a).bonded < (newProvider e a).collateral + Coins.amountOf coins e.bond - (newProvider e a).withdrawing then err "shield:insufficient-staking"
      else .ok { setProvider { s with providers := insertProvider (newProvider e a) s.providers }
                   { newProvider e a with collateral := (newProvider e a).collateral + Coins.amountOf coins e.bond } with
                 totalCollateral := s.totalCollateral + Coins.amountOf coins e.bond } := by
  simp only [deposit, h]
  rfl

theorem isAllPositive_amount_pos (c : Coins) (d : Denom) (hpos : Coins.isAllPositive c = true)
    (hden : (Coins.denoms c).any (· != d) = false) : 0 < Coins.amountOf c d := by
  simp only [Coins.isAllPositive, Bool.and_eq_true, Bool.not_eq_true', List.all_eq_true, decide_eq_true_eq] at hpos
  obtain ⟨hne, hall⟩ := hpos
  cases hd : Coins.denoms c with
  | nil =>
    simp only [Coins.canon, hd, Coins.sortDenoms, List.foldr, List.filterMap_nil, List.isEmpty_nil] at hne
    cases hne
  | cons x xs =>
    have hx : x ∈ Coins.denoms c := by rw [hd]; exact List.mem_cons_self
    have hxd : x = d := by
      rw [List.any_eq_false] at hden
      have := hden x hx
      simpa using this
    have := hall x hx
    rw [hxd] at this
    exact this

/-! ## staking hooks -/

/-- the new entry goes into the queue without disturbing the others: after every entry due no later, before the first due later -/
theorem insertWithdraw_split (w : Withdraw) (q : List Withdraw) :
    ∃ pre post, q = pre ++ post ∧ insertWithdraw w q = pre ++ w :: post ∧
      (∀ x ∈ pre, x.time ≤ w.time) ∧ (∀ x, post.head? = some x → w.time < x.time) := by
  induction q with
  | nil => exact ⟨[], [], rfl, rfl, by simp, by simp⟩
  | cons x xs ih =>
    unfold insertWithdraw
    split
    · rename_i hlt
      refine ⟨[], x :: xs, rfl, rfl, by simp, ?_⟩
      intro y hy; simp only [List.head?_cons, Option.some.injEq] at hy; subst hy; exact hlt
    · rename_i hge
      obtain ⟨pre, post, h1, h2, h3, h4⟩ := ih
      refine ⟨x :: pre, post, by rw [h1]; rfl, by rw [h2]; rfl, ?_, h4⟩
      intro y hy
      rcases List.mem_cons.mp hy with h | h
      · subst h; omega
      · exact h3 y h

/-- the state after the staking hook had to force a withdrawal of the shortfall -/
def forcedState (e : Env) (s : State) (a : Addr) (p : Provider) (staked : Int) : State :=
  { setProvider
      { setProvider s { p with bonded := staked } with
        withdraws := insertWithdraw { addr := a, amount := p.collateral - p.withdrawing - staked, time := e.t + s.params.withdrawPeriod } s.withdraws }
      { p with bonded := staked, withdrawing := p.withdrawing + (p.collateral - p.withdrawing - staked) } with
    totalWithdrawing := s.totalWithdrawing + (p.collateral - p.withdrawing - staked) }

theorem stakingHook_none (e : Env) (s : State) (a : Addr) (staked : Int) (hp : findProvider s a = none) :
    stakingHook e s a staked = .ok s := by
  simp only [stakingHook, hp]

theorem stakingHook_some (e : Env) (s : State) (a : Addr) (staked : Int) (p : Provider) (hp : findProvider s a = some p) :
    stakingHook e s a staked =
      if p.collateral - p.withdrawing - staked > 0 then
        (if staked < 0 then panicE "shield:forced-withdraw" else .ok (forcedState e s a p staked))
      else .ok (setProvider s { p with bonded := staked }) := by
  have hpa := findProvider_addr s a p hp
  simp only [stakingHook, hp]
  split
  · rename_i hw
    have hfind : findProvider (setProvider s { p with bonded := staked }) a = some { p with bonded := staked } := by
      rw [findProvider_setProvider, if_pos hpa.symm, hp]; rfl
    have hw0 : (p.collateral - p.withdrawing - staked == 0) = false := by
      rw [beq_eq_false_iff_ne]; omega
    unfold withdrawCollateral
    simp only [hw0, Bool.false_eq_true, if_false, hfind]
    by_cases hs : staked < 0
    · have : p.collateral - p.withdrawing - staked > p.collateral - p.withdrawing := by omega
      simp only [this, if_true, hs]
      rfl
    · have : ¬ p.collateral - p.withdrawing - staked > p.collateral - p.withdrawing := by omega
      simp only [this, if_false, hs]
      rfl
  · rfl

theorem findProvider_forcedState (e : Env) (s : State) (a : Addr) (p : Provider) (staked : Int)
    (hp : findProvider s a = some p) (b : Addr) :
    findProvider (forcedState e s a p staked) b =
      if b = a then some { p with bonded := staked, withdrawing := p.withdrawing + (p.collateral - p.withdrawing - staked) }
      else findProvider s b := by
  have hpa := findProvider_addr s a p hp
  have h1 : ∀ q : Provider, findProvider (forcedState e s a p staked) b =
      findProvider (setProvider (setProvider s { p with bonded := staked })
        { p with bonded := staked, withdrawing := p.withdrawing + (p.collateral - p.withdrawing - staked) }) b := fun _ => rfl
  rw [h1 p, findProvider_setProvider, findProvider_setProvider]
  by_cases hb : b = a
  · subst hb
    rw [if_pos hpa.symm, if_pos hpa.symm, if_pos rfl, hp]; rfl
  · rw [if_neg (by rw [hpa]; exact hb), if_neg (by rw [hpa]; exact hb), if_neg hb]

/-! ## payments and withdrawals -/

theorem denoms_single (d : Denom) (x : Int) : Coins.denoms [(d, x)] = [d] := by
  simp [Coins.denoms, List.eraseDups_cons]

/-- sending a single amount succeeds exactly when it is non-negative and covered by the sender's balance -/
theorem send_single_ok_iff (l : Ledger) (src dst : Addr) (d : Denom) (x : Int) :
    (∃ l', l.send src dst [(d, x)] = .ok l') ↔ 0 ≤ x ∧ x ≤ l.balOf src d := by
  unfold Ledger.send
  simp only [Coins.isAnyNegative, Coins.covers, denoms_single, List.any_cons, List.any_nil, Bool.or_false,
    List.all_cons, List.all_nil, Bool.and_true, amountOf_single', Ledger.balOf]
  constructor
  · rintro ⟨l', h⟩
    split at h; · cases h
    rename_i g1
    split at h; · cases h
    rename_i g2
    bool_norm at g1 g2
    constructor <;> omega
  · rintro ⟨h1, h2⟩
    have g1 : ¬ x < 0 := by omega
    have g2 : Coins.amountOf (l.bal src) d ≥ x := h2
    simp only [g1, g2, decide_false, decide_true, Bool.false_eq_true, if_false, Bool.not_true]
    exact ⟨_, rfl⟩

theorem withdrawCollateral_ok (e : Env) (s s' : State) (a : Addr) (amt : Int) (h : withdrawCollateral e s a amt = .ok s') :
    (amt = 0 ∧ s' = s) ∨
    (amt ≠ 0 ∧ ∃ p, findProvider s a = some p ∧ amt ≤ p.collateral - p.withdrawing ∧
      findProvider s' a = some { p with withdrawing := p.withdrawing + amt } ∧
      (∀ b, b ≠ a → findProvider s' b = findProvider s b) ∧ s'.pools = s.pools ∧
      s'.totalCollateral = s.totalCollateral ∧ s'.totalShield = s.totalShield ∧ s'.totalClaimed = s.totalClaimed ∧
      s'.totalWithdrawing = s.totalWithdrawing + amt) := by
  unfold withdrawCollateral at h
  split at h
  · rename_i h0
    injection h with h
    left; exact ⟨by simpa using h0, h.symm⟩
  rename_i h0
  split at h; · cases h
  rename_i p hp
  split at h; · cases h
  rename_i hle
  injection h with h; subst h
  have hpa := findProvider_addr s a p hp
  right
  refine ⟨by simpa using h0, p, hp, by omega, ?_, ?_, rfl, rfl, rfl, rfl, rfl⟩
  · show findProvider (setProvider _ _) a = _
    rw [findProvider_setProvider, if_pos hpa.symm]
    show Option.map _ (findProvider s a) = _
    rw [hp]; rfl
  · intro b hb
    show findProvider (setProvider _ _) b = _
    rw [findProvider_setProvider, if_neg (by show ¬ b = p.addr; rw [hpa]; exact hb)]
    rfl

end Shentu.Shield.Limit
