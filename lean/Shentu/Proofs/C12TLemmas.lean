import Shentu.Model.Gov
import Shentu.Props.C10
/-
  Helper definitions and lemmas for `Shentu/Props/C12T.lean`: a closed form of the accumulation performed by the stake
  round of governance (`Gov.stakeTally`): which shares are counted, for which option, through whom.
-/
namespace Shentu.C12TH
open Shentu Shentu.Gov
set_option linter.unusedSimpArgs false
set_option linter.unusedVariables false

/-- a delegation as governance sees it: delegator, validator, shares -/
abbrev Del := Addr × Addr × Dec

/-- the voting power the chain attributes to `s` shares of a validator with `vs` shares and `vt` bonded tokens -/
def pw (s vs : Dec) (vt : Int) : Dec := Dec.mulInt (Dec.quo s vs) vt

/-! ## sums -/

def sumOn {α} (l : List α) (f : α → Int) : Int := (l.map f).sum

@[simp] theorem sumOn_nil {α} (f : α → Int) : sumOn ([] : List α) f = 0 := rfl
@[simp] theorem sumOn_cons {α} (x : α) (l : List α) (f : α → Int) : sumOn (x :: l) f = f x + sumOn l f := by
  simp [sumOn]
theorem sumOn_append {α} (l₁ l₂ : List α) (f : α → Int) : sumOn (l₁ ++ l₂) f = sumOn l₁ f + sumOn l₂ f := by
  induction l₁ with
  | nil => simp
  | cons x xs ih => simp [ih]; omega
theorem sumOn_map {α β} (g : α → β) (l : List α) (f : β → Int) : sumOn (l.map g) f = sumOn l (fun x => f (g x)) := by
  induction l with
  | nil => rfl
  | cons x xs ih => simp [ih]
theorem sumOn_filter {α} (p : α → Bool) (l : List α) (f : α → Int) :
    sumOn (l.filter p) f = sumOn l (fun x => if p x then f x else 0) := by
  induction l with
  | nil => rfl
  | cons x xs ih => by_cases hp : p x <;> simp [List.filter_cons, hp, ih]
theorem sumOn_congr {α} (l : List α) (f g : α → Int) (h : ∀ x ∈ l, f x = g x) : sumOn l f = sumOn l g := by
  induction l with
  | nil => rfl
  | cons x xs ih =>
    simp only [sumOn_cons]
    rw [h x List.mem_cons_self, ih (fun y hy => h y (List.mem_cons_of_mem _ hy))]
theorem sumOn_add {α} (l : List α) (f g : α → Int) : sumOn l (fun x => f x + g x) = sumOn l f + sumOn l g := by
  induction l with
  | nil => rfl
  | cons x xs ih => simp [ih]; omega
theorem sumOn_zero {α} (l : List α) (f : α → Int) (h : ∀ x ∈ l, f x = 0) : sumOn l f = 0 := by
  induction l with
  | nil => rfl
  | cons x xs ih =>
    simp only [sumOn_cons]
    rw [h x List.mem_cons_self, ih (fun y hy => h y (List.mem_cons_of_mem _ hy))]; rfl
theorem sumOn_nonneg {α} (l : List α) (f : α → Int) (h : ∀ x ∈ l, 0 ≤ f x) : 0 ≤ sumOn l f := by
  induction l with
  | nil => simp
  | cons x xs ih =>
    have := h x List.mem_cons_self
    have := ih (fun y hy => h y (List.mem_cons_of_mem _ hy))
    simp only [sumOn_cons]; omega
theorem sumOn_le {α} (l : List α) (f g : α → Int) (h : ∀ x ∈ l, f x ≤ g x) : sumOn l f ≤ sumOn l g := by
  induction l with
  | nil => simp
  | cons x xs ih =>
    have := h x List.mem_cons_self
    have := ih (fun y hy => h y (List.mem_cons_of_mem _ hy))
    simp only [sumOn_cons]; omega
theorem sumOn_perm {α} {l₁ l₂ : List α} (p : l₁.Perm l₂) (f : α → Int) : sumOn l₁ f = sumOn l₂ f := by
  induction p with
  | nil => rfl
  | cons x _ ih => simp [ih]
  | swap x y l => simp; omega
  | trans _ _ ih1 ih2 => exact ih1.trans ih2
theorem sumOn_flatMap {α β} (l : List α) (g : α → List β) (f : β → Int) :
    sumOn (l.flatMap g) f = sumOn l (fun x => sumOn (g x) f) := by
  induction l with
  | nil => rfl
  | cons x xs ih => simp [List.flatMap_cons, sumOn_append, ih]
theorem sumOn_filter_le {α} (p : α → Bool) (l : List α) (f : α → Int) (h : ∀ x ∈ l, 0 ≤ f x) :
    sumOn (l.filter p) f ≤ sumOn l f := by
  rw [sumOn_filter]
  apply sumOn_le
  intro x hx
  have := h x hx
  split <;> omega
/-- a sum splits along a Boolean test -/
theorem sumOn_split {α} (p : α → Bool) (l : List α) (f : α → Int) :
    sumOn l f = sumOn (l.filter p) f + sumOn (l.filter (fun x => !p x)) f := by
  rw [sumOn_filter, sumOn_filter, ← sumOn_add]
  apply sumOn_congr
  intro x _
  by_cases hp : p x <;> simp [hp]
theorem sumOn_mul_left {α} (c : Int) (l : List α) (f : α → Int) : sumOn l (fun x => c * f x) = c * sumOn l f := by
  induction l with
  | nil => simp
  | cons x xs ih => simp only [sumOn_cons, ih, Int.mul_add]
theorem sumOn_const {α} (c : Int) (l : List α) : sumOn l (fun _ => c) = c * l.length := by
  induction l with
  | nil => simp
  | cons x xs ih => simp only [sumOn_cons, ih, List.length_cons, Int.natCast_add, Int.mul_add]; simp; omega

/-! ## `Results` as a sum of contributions -/

/-- add a list of (option, power) contributions, in order -/
def addList (r : Results) (l : List (Nat × Dec)) : Results := l.foldl (fun r x => r.addTo x.1 x.2) r

@[simp] theorem addList_nil (r : Results) : addList r [] = r := rfl
@[simp] theorem addList_cons (r : Results) (x : Nat × Dec) (l : List (Nat × Dec)) :
    addList r (x :: l) = addList (r.addTo x.1 x.2) l := rfl
theorem addList_append (r : Results) (l₁ l₂ : List (Nat × Dec)) : addList r (l₁ ++ l₂) = addList (addList r l₁) l₂ := by
  simp [addList, List.foldl_append]
theorem addList_perm (r : Results) {l₁ l₂ : List (Nat × Dec)} (p : l₁.Perm l₂) : addList r l₁ = addList r l₂ :=
  Props.C10.foldl_perm _ (fun b x y => Props.C10.addTo_comm b x.1 y.1 x.2 y.2) p r

/-- the accumulated power of one option (0 for a number that is not an option) -/
def get (r : Results) (o : Nat) : Dec :=
  match o with
  | 1 => r.yes | 2 => r.abstain | 3 => r.no | 4 => r.veto | _ => Dec.zero

theorem addTo_total (r : Results) (o : Nat) (p : Dec) : (r.addTo o p).total.raw = r.total.raw + p.raw := by
  unfold Results.addTo
  rcases o with _ | _ | _ | _ | _ | o <;> simp [Dec.add]

theorem addTo_get (r : Results) (o o' : Nat) (p : Dec) (ho : o = 1 ∨ o = 2 ∨ o = 3 ∨ o = 4) :
    (get (r.addTo o' p) o).raw = (get r o).raw + (if o' == o then p.raw else 0) := by
  unfold Results.addTo get
  rcases ho with h | h | h | h <;> subst h <;> rcases o' with _ | _ | _ | _ | _ | o' <;> simp [Dec.add]

theorem addList_total (r : Results) (l : List (Nat × Dec)) :
    (addList r l).total.raw = r.total.raw + sumOn l (fun x => x.2.raw) := by
  induction l generalizing r with
  | nil => simp
  | cons x xs ih => simp only [addList_cons, ih, addTo_total, sumOn_cons]; omega

theorem addList_get (r : Results) (l : List (Nat × Dec)) (o : Nat) (ho : o = 1 ∨ o = 2 ∨ o = 3 ∨ o = 4) :
    (get (addList r l) o).raw = (get r o).raw + sumOn (l.filter (fun x => x.1 == o)) (fun x => x.2.raw) := by
  induction l generalizing r with
  | nil => simp
  | cons x xs ih =>
    simp only [addList_cons, ih, addTo_get _ _ _ _ ho, List.filter_cons]
    by_cases hx : (x.1 == o) = true <;> simp [hx] <;> omega

/-! ## the steps of the tally, named -/

/-- one delegation of a voting delegator (the body of the loop in `delegatorVoting`) -/
def dedStep (o : Nat) (acc : List ValInfo × Results) (d : Del) : List ValInfo × Results :=
  match acc.1.find? (·.addr == d.2.1) with
  | none => acc
  | some vi =>
    let power := Dec.mulInt (Dec.quo d.2.2 vi.shares) vi.tokens
    (acc.1.map (fun x => if x.addr == vi.addr then { x with deductions := Dec.add x.deductions d.2.2 } else x),
     acc.2.addTo o power)

theorem delegatorVoting_eq (e : Env) (v : Vote) (vals : List ValInfo) (r : Results) :
    delegatorVoting e v vals r = (e.stake.dels.filter (·.1 == v.voter)).foldl (dedStep v.option) (vals, r) := rfl

/-- one vote (the body of the vote loop in `stakeTally`) -/
def voteStep (e : Env) (acc : List ValInfo × Results) (v : Vote) : List ValInfo × Results :=
  if acc.1.any (·.addr == v.voter) then
    (acc.1.map (fun x => if x.addr == v.voter then { x with vote := v.option } else x), acc.2)
  else delegatorVoting e v acc.1 acc.2

/-- the validator table the tally starts from -/
def vals0 (e : Env) : List ValInfo :=
  e.stake.vals.map (fun v => { addr := v.1, tokens := v.2.1, shares := v.2.2, deductions := Dec.zero, vote := 0 })

/-- the state after the vote loop over `votes` (in the given order) -/
def voteLoop (e : Env) (votes : List Vote) : List ValInfo × Results :=
  votes.foldl (voteStep e) (vals0 e, ({} : Results))

/-- the accumulated `Results` of the stake round over `votes` (in the given order) -/
def stakeResults (e : Env) (votes : List Vote) : Results :=
  (voteLoop e votes).1.foldl Props.C10.valStep (voteLoop e votes).2

/-- the tally parameters and decision applied to the accumulated results -/
def decide (e : Env) (g : State) (p : Proposal) (cd : Int) (r : Results) : Bool × Bool :=
  let tp := if Gen.Gov.certStakeTallyKinds.contains p.kind then g.params.certStake else g.params.default
  if p.kind == "claim" then claimPassVeto cd r tp else stakePassVeto e.stake.totalBonded r tp

/-- `stakeTally` is: sort the proposal's votes, run the two loops, decide, delete the votes -/
theorem stakeTally_eq (e : Env) (g : State) (p : Proposal) (cd : Int) :
    stakeTally e g p cd =
      let r := stakeResults e (sortVotes (g.votes.filter (·.pid == p.id)))
      ((decide e g p cd r).1, (decide e g p cd r).2, r.tally,
        { g with votes := g.votes.filter (fun v => !(v.pid == p.id)) }) := rfl

/-! ## static lookup of a validator's shares and tokens -/

def lookOf (vals : List ValInfo) (a : Addr) : Option (Dec × Int) :=
  (vals.find? (·.addr == a)).map (fun vi => (vi.shares, vi.tokens))

theorem lookOf_map (vals : List ValInfo) (f : ValInfo → ValInfo)
    (hf : ∀ x, (f x).addr = x.addr ∧ (f x).shares = x.shares ∧ (f x).tokens = x.tokens) (a : Addr) :
    lookOf (vals.map f) a = lookOf vals a := by
  unfold lookOf
  induction vals with
  | nil => rfl
  | cons x xs ih =>
    simp only [List.map_cons, List.find?_cons, (hf x).1]
    cases hx : (x.addr == a) with
    | true => simp only [if_true, Option.map_some, (hf x).2.1, (hf x).2.2]
    | false => simpa only [Bool.false_eq_true, if_false] using ih

theorem any_map_addr (vals : List ValInfo) (f : ValInfo → ValInfo) (hf : ∀ x, (f x).addr = x.addr) (a : Addr) :
    (vals.map f).any (·.addr == a) = vals.any (·.addr == a) := by
  induction vals with
  | nil => rfl
  | cons x xs ih => simp only [List.map_cons, List.any_cons, hf x, ih]

/-! ## closed form of `delegatorVoting` -/

/-- the deductions a list of delegations adds to a validator record -/
def addDed (ds : List Del) (x : ValInfo) : ValInfo :=
  { x with deductions := ⟨x.deductions.raw + sumOn (ds.filter (·.2.1 == x.addr)) (·.2.2.raw)⟩ }

/-- the contributions of a list of delegations voting `o` -/
def delContrib (look : Addr → Option (Dec × Int)) (o : Nat) (ds : List Del) : List (Nat × Dec) :=
  ds.filterMap (fun d => (look d.2.1).map (fun st => (o, pw d.2.2 st.1 st.2)))

theorem addDed_frame (ds : List Del) (x : ValInfo) :
    (addDed ds x).addr = x.addr ∧ (addDed ds x).shares = x.shares ∧ (addDed ds x).tokens = x.tokens := ⟨rfl, rfl, rfl⟩

theorem dedStep_none (o : Nat) (vals : List ValInfo) (r : Results) (d : Del)
    (h : vals.find? (·.addr == d.2.1) = none) : dedStep o (vals, r) d = (vals, r) := by
  simp only [dedStep, h]

theorem dedStep_some (o : Nat) (vals : List ValInfo) (r : Results) (d : Del) (vi : ValInfo)
    (h : vals.find? (·.addr == d.2.1) = some vi) :
    dedStep o (vals, r) d =
      (vals.map (fun x => if x.addr == vi.addr then { x with deductions := Dec.add x.deductions d.2.2 } else x),
       r.addTo o (Dec.mulInt (Dec.quo d.2.2 vi.shares) vi.tokens)) := by
  simp only [dedStep, h]

theorem dedFold (o : Nat) : ∀ (ds : List Del) (vals : List ValInfo) (r : Results),
    ds.foldl (dedStep o) (vals, r) = (vals.map (addDed ds), addList r (delContrib (lookOf vals) o ds)) := by
  intro ds
  induction ds with
  | nil =>
    intro vals r
    simp only [List.foldl_nil, delContrib, List.filterMap_nil, addList_nil]
    congr 1
    conv => lhs; rw [← List.map_id vals]
    apply List.map_congr_left
    intro x _
    simp [addDed]
  | cons d ds ih =>
    intro vals r
    simp only [List.foldl_cons]
    cases hf : vals.find? (·.addr == d.2.1) with
    | none =>
      rw [dedStep_none o vals r d hf, ih]
      have hl : lookOf vals d.2.1 = none := by simp [lookOf, hf]
      congr 1
      · apply List.map_congr_left
        intro x hx
        have hne : (d.2.1 == x.addr) = false := by
          have := List.find?_eq_none.mp hf x hx
          cases hh : (d.2.1 == x.addr) with
          | false => rfl
          | true => have h2 := beq_iff_eq.mp hh; simp [h2] at this
        simp [addDed, List.filter_cons, hne]
      · simp [delContrib, List.filterMap_cons, hl]
    | some vi =>
      have hva : vi.addr = d.2.1 := by
        have := List.find?_some hf
        exact beq_iff_eq.mp this
      rw [dedStep_some o vals r d vi hf, ih]
      have hl : lookOf vals d.2.1 = some (vi.shares, vi.tokens) := by simp [lookOf, hf]
      have hlk : lookOf (vals.map (fun x => if x.addr == vi.addr then { x with deductions := Dec.add x.deductions d.2.2 } else x))
          = lookOf vals := by
        funext a
        apply lookOf_map
        intro x; split <;> exact ⟨rfl, rfl, rfl⟩
      rw [hlk]
      congr 1
      · rw [List.map_map]
        apply List.map_congr_left
        intro x _
        simp only [Function.comp]
        by_cases hx : x.addr = d.2.1
        · have h1 : (x.addr == vi.addr) = true := by rw [hva]; exact beq_iff_eq.mpr hx
          have h2 : (d.2.1 == x.addr) = true := beq_iff_eq.mpr hx.symm
          simp only [h1, if_true, addDed, List.filter_cons, h2, sumOn_cons, Dec.add]
          congr 2
          omega
        · have h1 : (x.addr == vi.addr) = false := by
            rw [hva]; cases hh : (x.addr == d.2.1) with
            | false => rfl
            | true => exact absurd (beq_iff_eq.mp hh) hx
          have h2 : (d.2.1 == x.addr) = false := by
            cases hh : (d.2.1 == x.addr) with
            | false => rfl
            | true => exact absurd (beq_iff_eq.mp hh).symm hx
          simp [h1, addDed, List.filter_cons, h2]
      · simp only [delContrib, List.filterMap_cons, hl, Option.map_some, addList_cons, pw]

end Shentu.C12TH
