import Shentu.Proofs.OracleLemmas
import Shentu.Proofs.BankLemmas
import Shentu.Proofs.ShieldPoolOps
/-
  C08, oracle part: `beginBlock` (payment of mature withdrawals) and `endBlock` (aggregation and bounty distribution
  of the tasks that close) do not panic.
-/
namespace Shentu.Halt.Orc
open Shentu Shentu.Oracle
set_option linter.unusedSimpArgs false
set_option linter.unusedVariables false

/-! ## the bank: when a transfer succeeds -/

theorem amountOf_nonneg (c : Coins) (h : Coins.isAnyNegative c = false) (d : Denom) : 0 ≤ Coins.amountOf c d :=
  Shentu.Shield.PoolLm.amountOf_nonneg_of_not_anyNegative c h d

/-- `SendCoins` succeeds for a valid amount that the sender's balance covers -/
theorem send_total (l : Ledger) (src dst : Addr) (c : Coins) (h1 : Coins.isAnyNegative c = false)
    (h2 : ∀ d, Coins.amountOf c d ≤ l.balOf src d) : l.send src dst c = .ok (l.move src dst c) := by
  unfold Ledger.send
  rw [h1]
  have : Coins.covers (l.bal src) c = true := by
    unfold Coins.covers
    apply List.all_eq_true.mpr
    intro d _
    have := h2 d
    unfold Ledger.balOf at this
    simpa using this
  simp [this]

/-! ## `beginBlock` -/

/-- what a list of withdrawals pays out in one denomination -/
def wdSum (ws : List Withdraw) (d : Denom) : Int := (ws.map (fun w => Coins.amountOf w.amt d)).sum

/-- the funding invariant of the withdrawal queue: every pending withdrawal is a valid amount and the module account
    covers all of them together -/
structure Funded (e : Env) (l : Ledger) (s : State) : Prop where
  valid : ∀ w ∈ s.wds, Coins.isAnyNegative w.amt = false
  covered : ∀ d, wdSum s.wds d ≤ l.balOf e.modAddr d

theorem wdSum_nonneg (ws : List Withdraw) (hv : ∀ w ∈ ws, Coins.isAnyNegative w.amt = false) (d : Denom) : 0 ≤ wdSum ws d := by
  induction ws with
  | nil => simp [wdSum]
  | cons w ws ih =>
    have h1 := amountOf_nonneg w.amt (hv w List.mem_cons_self) d
    have h2 := ih (fun x hx => hv x (List.mem_cons_of_mem _ hx))
    simp only [wdSum, List.map_cons, List.sum_cons] at h2 ⊢
    omega

theorem wdSum_split (p : Withdraw → Bool) (ws : List Withdraw) (d : Denom) :
    wdSum ws d = wdSum (ws.filter p) d + wdSum (ws.filter (fun w => !(p w))) d := by
  induction ws with
  | nil => simp [wdSum]
  | cons w ws ih =>
    simp only [wdSum, List.filter_cons] at ih ⊢
    by_cases hp : p w <;> simp [hp, ih] <;> omega

/-- paying a list of valid withdrawals that the module account covers never fails, and takes at most their sum -/
theorem payWithdraws_total (e : Env) : ∀ (ws : List Withdraw) (l : Ledger),
    (∀ w ∈ ws, Coins.isAnyNegative w.amt = false) → (∀ d, wdSum ws d ≤ l.balOf e.modAddr d) →
    ∃ l', payWithdraws e ws l = .ok l' ∧ ∀ d, l.balOf e.modAddr d - wdSum ws d ≤ l'.balOf e.modAddr d := by
  intro ws
  induction ws with
  | nil => intro l _ _; exact ⟨l, by unfold payWithdraws; rfl, fun d => by simp [wdSum]⟩
  | cons w ws ih =>
    intro l hv hc
    have hw := hv w List.mem_cons_self
    have hvs : ∀ x ∈ ws, Coins.isAnyNegative x.amt = false := fun x hx => hv x (List.mem_cons_of_mem _ hx)
    have hcons : ∀ d, wdSum (w :: ws) d = Coins.amountOf w.amt d + wdSum ws d := by
      intro d; simp [wdSum]
    have hsend := send_total l e.modAddr w.addr w.amt hw (by
      intro d
      have := hc d
      have := wdSum_nonneg ws hvs d
      rw [hcons] at *
      omega)
    unfold payWithdraws
    rw [hsend]
    dsimp only
    have hbal : ∀ d, l.balOf e.modAddr d - Coins.amountOf w.amt d ≤ (l.move e.modAddr w.addr w.amt).balOf e.modAddr d := by
      intro d
      rw [Ledger.balOf_move]
      have := amountOf_nonneg w.amt hw d
      simp only [beq_self_eq_true, if_true]
      split <;> omega
    rcases ih (l.move e.modAddr w.addr w.amt) hvs (by
      intro d
      have := hc d
      have := hbal d
      rw [hcons] at *
      omega) with ⟨l', hl', hb'⟩
    refine ⟨l', hl', ?_⟩
    intro d
    have := hb' d
    have := hbal d
    rw [hcons]
    omega

/-- **`BeginBlocker` never halts** on a funded withdrawal queue, and leaves it funded -/
theorem beginBlock_total (e : Env) (l : Ledger) (s : State) (hf : Funded e l s) :
    ∃ l' s', beginBlock e l s = .ok (l', s') ∧ Funded e l' s' := by
  have hv : ∀ w ∈ s.wds.filter (mature e.h), Coins.isAnyNegative w.amt = false :=
    fun w hw => hf.valid w (List.mem_filter.mp hw).1
  have hv2 : ∀ w ∈ s.wds.filter (fun w => !(mature e.h w)), Coins.isAnyNegative w.amt = false :=
    fun w hw => hf.valid w (List.mem_filter.mp hw).1
  have hsplit := wdSum_split (mature e.h) s.wds
  rcases payWithdraws_total e (s.wds.filter (mature e.h)) l hv (by
    intro d
    have := hf.covered d
    have := wdSum_nonneg _ hv2 d
    have := hsplit d
    omega) with ⟨l', hl', hb'⟩
  unfold beginBlock
  rw [hl']
  refine ⟨l', _, rfl, hv2, ?_⟩
  intro d
  have := hf.covered d
  have := hb' d
  have := hsplit d
  show wdSum (s.wds.filter (fun w => !(mature e.h w))) d ≤ _
  omega

/-! ## `endBlock`: the invariant -/

/-- every operator's collateral in the bond denomination is not negative -/
def CollNonneg (bond : Denom) (s : State) : Prop := ∀ a o, findOp s a = some o → 0 ≤ Coins.amountOf o.coll bond

/-- every stored task has a valid bounty and scores within [0, 100] -/
def TasksOk (s : State) : Prop :=
  ∀ t ∈ s.tasks, Coins.isAnyNegative t.bounty = false ∧ ∀ r ∈ t.responses, 0 ≤ r.score ∧ r.score ≤ 100

/-- what makes aggregation and bounty distribution total: positive epsilons (no division by zero), non-negative
    collateral, valid bounties, scores in range -/
structure EndInv (bond : Denom) (s : State) : Prop where
  eps1 : 0 < s.params.eps1
  eps2 : 0 < s.params.eps2
  coll : CollNonneg bond s
  tasks : TasksOk s

theorem CollNonneg.same {bond : Denom} {s s' : State} (h : CollNonneg bond s) (hs : SameColl s s') : CollNonneg bond s' := by
  intro a o' ho'
  have := hs.2 a
  have ho'' : s'.ops.find? (fun x => x.addr == a) = some o' := ho'
  rw [ho''] at this
  cases hf : s.ops.find? (fun x => x.addr == a) with
  | none => rw [hf] at this; cases this
  | some o =>
    rw [hf] at this
    simp only [Option.map_some, Option.some.injEq] at this
    rw [this]
    exact h a o hf

theorem mem_setTask {s : State} {t x : Task} (h : x ∈ (setTask s t).tasks) : x = t ∨ x ∈ s.tasks := by
  unfold setTask at h
  split at h
  · rcases List.mem_map.mp h with ⟨y, hy, he⟩
    split at he
    · exact Or.inl he.symm
    · exact Or.inr (he ▸ hy)
  · rcases List.mem_append.mp h with h1 | h1
    · exact Or.inr h1
    · exact Or.inl (by simpa using h1)

theorem TasksOk.setTask {s : State} (h : TasksOk s) (t : Task) (hb : Coins.isAnyNegative t.bounty = false)
    (hr : ∀ r ∈ t.responses, 0 ≤ r.score ∧ r.score ≤ 100) : TasksOk (setTask s t) := by
  intro x hx
  rcases mem_setTask hx with h1 | h1
  · subst h1; exact ⟨hb, hr⟩
  · exact h x h1

theorem findTask_mem {s : State} {k : String} {t : Task} (h : findTask s k = some t) : t ∈ s.tasks :=
  List.mem_of_find?_eq_some h

/-! ## aggregation -/

theorem aggFold_ok (bond : Denom) (s : State) : ∀ (rs : List Response) (a : Agg), ∃ a', aggFold bond s rs a = .ok a' := by
  intro rs
  induction rs with
  | nil => intro a; exact ⟨a, by unfold aggFold; rfl⟩
  | cons r rest ih =>
    intro a
    unfold aggFold collateralAmount
    cases hf : findOp s r.op with
    | none => exact ih _
    | some o => exact ih _

theorem aggFold_scores (bond : Denom) (s : State) (P : Int → Prop) :
    ∀ (rs : List Response) (a a' : Agg), aggFold bond s rs a = .ok a' → (∀ r ∈ a.rs, P r.score) → (∀ r ∈ rs, P r.score) →
      ∀ r ∈ a'.rs, P r.score := by
  intro rs
  induction rs with
  | nil => intro a a' h ha _; unfold aggFold at h; cases h; exact ha
  | cons r rest ih =>
    intro a a' h ha hrs
    unfold aggFold collateralAmount at h
    have hr := hrs r List.mem_cons_self
    have hrest : ∀ x ∈ rest, P x.score := fun x hx => hrs x (List.mem_cons_of_mem _ hx)
    cases hf : findOp s r.op with
    | none =>
      rw [hf] at h
      refine ih _ _ h ?_ hrest
      intro x hx
      rcases List.mem_append.mp hx with h1 | h1
      · exact ha x h1
      · have : x = r := by simpa using h1
        rw [this]; exact hr
    | some o =>
      rw [hf] at h
      refine ih _ _ h ?_ hrest
      intro x hx
      rcases List.mem_append.mp hx with h1 | h1
      · exact ha x h1
      · have : x = { r with weight := Gen.Oracle.collWeight (Coins.amountOf o.coll bond) } := by simpa using h1
        rw [this]; exact hr

/-- the only errors of `Aggregate` are ordinary ones -/
theorem aggregate_not_panic (bond : Denom) (s : State) (key : String) (x : Err) (h : aggregate bond s key = .error x) :
    x.isPanic = false := by
  unfold aggregate at h
  split at h
  · cases h; simp [Err.isPanic]
  · split at h
    · cases h; simp [Err.isPanic]
    · rename_i t _ _
      rcases aggFold_ok bond s t.responses { result := Gen.Oracle.aggInit s.params.aggRes, total := 0, minC := 0, rs := [] } with ⟨a, ha⟩
      rw [ha] at h
      dsimp only at h
      split at h
      · split at h <;> cases h
      · cases h

theorem aggregate_inv (bond : Denom) (s s' : State) (key : String) (h : aggregate bond s key = .ok s') (hi : EndInv bond s) :
    EndInv bond s' := by
  have hsame := sameColl_aggregate bond s s' key h
  unfold aggregate at h
  split at h; · cases h
  rename_i t hft
  split at h; · cases h
  split at h; · cases h
  rename_i a ha
  have ht := hi.tasks t (findTask_mem hft)
  have hsc := aggFold_scores bond s (fun sc => 0 ≤ sc ∧ sc ≤ 100) _ _ _ ha (fun r hr => by cases hr) ht.2
  have key : ∀ t' : Task, t'.bounty = t.bounty → (∀ r ∈ t'.responses, 0 ≤ r.score ∧ r.score ≤ 100) → EndInv bond (setTask s t') := by
    intro t' hb hr
    exact ⟨by rw [setTask_params]; exact hi.eps1, by rw [setTask_params]; exact hi.eps2,
      hi.coll.same (sameColl_setTask s t'), hi.tasks.setTask t' (by rw [hb]; exact ht.1) hr⟩
  split at h
  · split at h
    · cases h
      refine key _ ?_ ?_
      · rfl
      · intro r hr
        rcases List.mem_map.mp hr with ⟨r0, hr0, he⟩
        split at he
        · rw [← he]; exact hsc r0 hr0
        · rw [← he]; exact hsc r0 hr0
    · cases h
      refine key _ ?_ ?_
      · rfl
      · exact hsc
  · cases h
    refine key _ ?_ ?_
    · rfl
    · exact hsc

/-! ## bounty distribution -/

theorem amplifier_nonneg : 0 ≤ Gen.Oracle.amplifier := by decide

theorem respWeight_ok (bond : Denom) (s : State) (b : Nat) (r : Response) (h1 : 0 < s.params.eps1) (h2 : 0 < s.params.eps2)
    (hc : CollNonneg bond s) (hs : 0 ≤ r.score ∧ r.score ≤ 100) :
    ∃ x, respWeight bond s b r = .ok x ∧ ∀ w, x = some w → 0 ≤ w := by
  unfold respWeight collateralAmount
  cases hf : findOp s r.op with
  | none => exact ⟨none, rfl, fun w hw => by cases hw⟩
  | some o =>
    have hc0 : 0 ≤ Gen.Oracle.collWeight (Coins.amountOf o.coll bond) := hc r.op o hf
    dsimp only
    split
    · refine ⟨_, rfl, fun w hw => ?_⟩
      injection hw with hw; rw [← hw]; exact hc0
    · have hne : ¬ (r.score + s.params.eps1 == 0) = true := by
        intro hh; have := beq_iff_eq.mp hh; omega
      rw [if_neg hne]
      refine ⟨_, rfl, fun w hw => ?_⟩
      injection hw with hw; rw [← hw]
      unfold Gen.Oracle.tvWeightLow
      exact Int.tdiv_nonneg (Int.mul_nonneg amplifier_nonneg hc0) (by omega)
    · have hne : ¬ (100 - r.score + s.params.eps2 == 0) = true := by
        intro hh; have := beq_iff_eq.mp hh; omega
      rw [if_neg hne]
      refine ⟨_, rfl, fun w hw => ?_⟩
      injection hw with hw; rw [← hw]
      unfold Gen.Oracle.tvWeightHigh Gen.Oracle.maxScore
      exact Int.tdiv_nonneg (Int.mul_nonneg amplifier_nonneg hc0) (by omega)

theorem totalValid_ok (bond : Denom) (s : State) (b : Nat) (h1 : 0 < s.params.eps1) (h2 : 0 < s.params.eps2)
    (hc : CollNonneg bond s) :
    ∀ (rs : List Response) (acc : Int), (∀ r ∈ rs, 0 ≤ r.score ∧ r.score ≤ 100) →
      ∃ tv, totalValid bond s b rs acc = .ok tv ∧ acc ≤ tv := by
  intro rs
  induction rs with
  | nil => intro acc _; exact ⟨acc, by unfold totalValid; rfl, Int.le_refl _⟩
  | cons r rest ih =>
    intro acc hrs
    have hrest : ∀ x ∈ rest, 0 ≤ x.score ∧ x.score ≤ 100 := fun x hx => hrs x (List.mem_cons_of_mem _ hx)
    unfold totalValid
    split
    · rcases respWeight_ok bond s b r h1 h2 hc (hrs r List.mem_cons_self) with ⟨x, hx, hnn⟩
      rw [hx]
      cases x with
      | none => exact ih acc hrest
      | some w =>
        dsimp only
        have := hnn w rfl
        rcases ih (acc + w) hrest with ⟨tv, htv, hle⟩
        exact ⟨tv, htv, by omega⟩
    · exact ih acc hrest

theorem payAmount_ok (bond : Denom) (s : State) (b : Nat) (amount tv : Int) (r : Response)
    (h1 : 0 < s.params.eps1) (h2 : 0 < s.params.eps2) (hc : CollNonneg bond s) (hs : 0 ≤ r.score ∧ r.score ≤ 100)
    (ha : 0 ≤ amount) (htv : 0 ≤ tv) :
    ∃ x, payAmount bond s b amount tv r = .ok x ∧ ∀ w, x = some w → 0 ≤ w := by
  unfold payAmount collateralAmount
  cases hf : findOp s r.op with
  | none => exact ⟨none, rfl, fun w hw => by cases hw⟩
  | some o =>
    have hc0 : 0 ≤ Gen.Oracle.collWeight (Coins.amountOf o.coll bond) := hc r.op o hf
    dsimp only
    split
    · refine ⟨_, rfl, fun w hw => ?_⟩
      injection hw with hw; rw [← hw]
      unfold Gen.Oracle.dbAmountMin
      exact Int.tdiv_nonneg (Int.mul_nonneg ha hc0) htv
    · have hne : ¬ (r.score + s.params.eps1 == 0) = true := by
        intro hh; have := beq_iff_eq.mp hh; omega
      rw [if_neg hne]
      refine ⟨_, rfl, fun w hw => ?_⟩
      injection hw with hw; rw [← hw]
      unfold Gen.Oracle.dbAmountLow
      exact Int.tdiv_nonneg (Int.mul_nonneg ha (Int.tdiv_nonneg (Int.mul_nonneg amplifier_nonneg hc0) (by omega))) htv
    · have hne : ¬ (100 - r.score + s.params.eps2 == 0) = true := by
        intro hh; have := beq_iff_eq.mp hh; omega
      rw [if_neg hne]
      refine ⟨_, rfl, fun w hw => ?_⟩
      injection hw with hw; rw [← hw]
      unfold Gen.Oracle.dbAmountHigh Gen.Oracle.maxScore
      exact Int.tdiv_nonneg (Int.mul_nonneg ha (Int.tdiv_nonneg (Int.mul_nonneg amplifier_nonneg hc0) (by omega))) htv

/-- the part of the oracle state that paying rewards leaves alone -/
structure PayFrame (s s' : State) : Prop where
  same : SameColl s s'
  tasks : s'.tasks = s.tasks
  params : s'.params = s.params

theorem PayFrame.refl (s : State) : PayFrame s s := ⟨SameColl.refl s, rfl, rfl⟩
theorem PayFrame.trans {a b c : State} (h1 : PayFrame a b) (h2 : PayFrame b c) : PayFrame a c :=
  ⟨h1.same.trans h2.same, h2.tasks.trans h1.tasks, h2.params.trans h1.params⟩

/-- one bounty coin is handed out without panic; only rewards change -/
theorem payCoin_ok (bond : Denom) (b : Nat) (dn : Denom) (amount tv : Int) (ha : 0 ≤ amount) (htv : 0 ≤ tv) :
    ∀ (rs : List Response) (s : State) (done : List Response),
      0 < s.params.eps1 → 0 < s.params.eps2 → CollNonneg bond s →
      (∀ r ∈ rs, 0 ≤ r.score ∧ r.score ≤ 100) → (∀ r ∈ done, 0 ≤ r.score ∧ r.score ≤ 100) →
      ∃ s' out, payCoin bond b dn amount tv s rs done = .ok (s', out) ∧ PayFrame s s' ∧
        ∀ r ∈ out, 0 ≤ r.score ∧ r.score ≤ 100 := by
  intro rs
  induction rs with
  | nil => intro s done _ _ _ _ hd; exact ⟨s, done, by unfold payCoin; rfl, PayFrame.refl s, hd⟩
  | cons r rest ih =>
    intro s done h1 h2 hc hrs hd
    have hr := hrs r List.mem_cons_self
    have hrest : ∀ x ∈ rest, 0 ≤ x.score ∧ x.score ≤ 100 := fun x hx => hrs x (List.mem_cons_of_mem _ hx)
    have hd1 : ∀ x ∈ done ++ [r], 0 ≤ x.score ∧ x.score ≤ 100 := by
      intro x hx
      rcases List.mem_append.mp hx with h | h
      · exact hd x h
      · have : x = r := by simpa using h
        rw [this]; exact hr
    unfold payCoin
    split
    · rcases payAmount_ok bond s b amount tv r h1 h2 hc hr ha htv with ⟨x, hx, hnn⟩
      rw [hx]
      cases x with
      | none => exact ih s _ h1 h2 hc hrest hd1
      | some amt =>
        dsimp only
        have hamt := hnn amt rfl
        have hlt : ¬ amt < 0 := by omega
        rw [if_neg hlt]
        cases hf : findOp s r.op with
        | none => exact ih s _ h1 h2 hc hrest hd1
        | some o =>
          dsimp only
          have hfr : PayFrame s (setOp s { o with rew := Coins.add o.rew (if amt == 0 then [] else [(dn, amt)]) }) :=
            ⟨sameColl_setOp_rew s o _ r.op hf, setOp_tasks _ _, setOp_params _ _⟩
          have hd2 : ∀ x ∈ done ++ [{ r with reward := (if amt == 0 then [] else [(dn, amt)]) }], 0 ≤ x.score ∧ x.score ≤ 100 := by
            intro x hx
            rcases List.mem_append.mp hx with h | h
            · exact hd x h
            · have : x = { r with reward := (if amt == 0 then [] else [(dn, amt)]) } := by simpa using h
              rw [this]; exact hr
          rcases ih _ _ (by rw [hfr.params]; exact h1) (by rw [hfr.params]; exact h2) (hc.same hfr.same) hrest hd2 with
            ⟨s', out, hs', hf', hout⟩
          exact ⟨s', out, hs', hfr.trans hf', hout⟩
    · exact ih s _ h1 h2 hc hrest hd1

theorem payAll_ok (bond : Denom) (b : Nat) (tv : Int) (htv : 0 ≤ tv) :
    ∀ (cs : List (Denom × Int)) (s : State) (rs : List Response), (∀ c ∈ cs, 0 ≤ c.2) →
      0 < s.params.eps1 → 0 < s.params.eps2 → CollNonneg bond s → (∀ r ∈ rs, 0 ≤ r.score ∧ r.score ≤ 100) →
      ∃ s' out, payAll bond b tv cs s rs = .ok (s', out) ∧ PayFrame s s' ∧ ∀ r ∈ out, 0 ≤ r.score ∧ r.score ≤ 100 := by
  intro cs
  induction cs with
  | nil => intro s rs _ _ _ _ hrs; exact ⟨s, rs, by unfold payAll; rfl, PayFrame.refl s, hrs⟩
  | cons c cs ih =>
    intro s rs hcs h1 h2 hc hrs
    rcases payCoin_ok bond b c.1 c.2 tv (hcs c List.mem_cons_self) htv rs s [] h1 h2 hc hrs (fun r hr => by cases hr) with
      ⟨s1, rs1, hs1, hf1, hout1⟩
    unfold payAll
    rw [hs1]
    dsimp only
    rcases ih s1 rs1 (fun x hx => hcs x (List.mem_cons_of_mem _ hx)) (by rw [hf1.params]; exact h1)
      (by rw [hf1.params]; exact h2) (hc.same hf1.same) hout1 with ⟨s', out, hs', hf', hout⟩
    exact ⟨s', out, hs', hf1.trans hf', hout⟩

theorem canon_nonneg (c : Coins) (h : Coins.isAnyNegative c = false) : ∀ x ∈ Coins.canon c, 0 ≤ x.2 := by
  intro x hx
  unfold Coins.canon at hx
  rcases List.mem_filterMap.mp hx with ⟨d, _, hd⟩
  dsimp only at hd
  split at hd
  · cases hd
  · injection hd with hd
    rw [← hd]
    exact amountOf_nonneg c h d

/-- `DistributeBounty` succeeds or fails with an ordinary error; it never panics -/
theorem distributeBounty_ok (bond : Denom) (s : State) (t : Task) (hi : EndInv bond s) (ht : t ∈ s.tasks) :
    (∃ s', distributeBounty bond s t = .ok s' ∧ EndInv bond s') ∨
    (∃ x, distributeBounty bond s t = .error x ∧ x.isPanic = false) := by
  have htk := hi.tasks t ht
  rcases totalValid_ok bond s (branch s t) hi.eps1 hi.eps2 hi.coll t.responses 0 htk.2 with ⟨tv, htv, hle⟩
  unfold distributeBounty
  rw [htv]
  dsimp only
  by_cases hno : Gen.Oracle.dbNoValid tv = true
  · rw [if_pos hno]
    exact Or.inr ⟨_, rfl, by simp [Err.isPanic]⟩
  · rw [if_neg hno]
    rcases payAll_ok bond (branchDB s t) tv hle (Coins.canon t.bounty) s t.responses (canon_nonneg _ htk.1) hi.eps1 hi.eps2
      hi.coll htk.2 with ⟨s1, rs, hs1, hf1, hout⟩
    rw [hs1]
    dsimp only
    refine Or.inl ⟨_, rfl, ?_⟩
    have ht1 : TasksOk s1 := by unfold TasksOk; rw [hf1.tasks]; exact hi.tasks
    exact ⟨by rw [setTask_params, hf1.params]; exact hi.eps1, by rw [setTask_params, hf1.params]; exact hi.eps2,
      (hi.coll.same hf1.same).same (sameColl_setTask _ _), ht1.setTask _ htk.1 hout⟩

/-! ## the end-blocker -/

theorem endOne_ok (bond : Denom) (s : State) (id : String × String) (hi : EndInv bond s) :
    ∃ s', endOne bond s id = .ok s' ∧ EndInv bond s' := by
  unfold endOne
  dsimp only
  cases hagg : aggregate bond s (id.1 ++ id.2) with
  | error x =>
    dsimp only
    rw [aggregate_not_panic bond s _ x hagg]
    exact ⟨s, rfl, hi⟩
  | ok s1 =>
    dsimp only
    have hi1 := aggregate_inv bond s s1 _ hagg hi
    cases hft : findTask s1 (id.1 ++ id.2) with
    | none => exact ⟨s1, rfl, hi1⟩
    | some t =>
      dsimp only
      rcases distributeBounty_ok bond s1 t hi1 (findTask_mem hft) with ⟨s2, hs2, hi2⟩ | ⟨x, hx, hp⟩
      · rw [hs2]; exact ⟨s2, rfl, hi2⟩
      · rw [hx]
        dsimp only
        rw [hp]
        exact ⟨s1, rfl, hi1⟩

theorem endFold_ok (bond : Denom) : ∀ (ids : List (String × String)) (s : State), EndInv bond s →
    ∃ s', endFold bond ids s = .ok s' ∧ EndInv bond s' := by
  intro ids
  induction ids with
  | nil => intro s hi; exact ⟨s, by unfold endFold; rfl, hi⟩
  | cons id ids ih =>
    intro s hi
    rcases endOne_ok bond s id hi with ⟨s1, hs1, hi1⟩
    unfold endFold
    rw [hs1]
    exact ih s1 hi1

/-- **`EndBlocker` never halts** under the invariant, and keeps it -/
theorem endBlock_total (e : Env) (s : State) (hi : EndInv e.bond s) :
    ∃ s', endBlock e s = .ok s' ∧ EndInv e.bond s' := by
  rcases endFold_ok e.bond (closingAt s e.h) s hi with ⟨s1, hs1, hi1⟩
  unfold endBlock
  rw [hs1]
  exact ⟨_, rfl, hi1.eps1, hi1.eps2, hi1.coll.same (sameColl_delClosing _ _), hi1.tasks⟩

end Shentu.Halt.Orc
