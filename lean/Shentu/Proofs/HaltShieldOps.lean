import Shentu.Proofs.HaltShieldExpire
/-
  C08, shield part: every operation of the model preserves the fee books (`FeeBooks`).
-/
namespace Shentu.Halt
open Shentu Shentu.Shield Shentu.Shield.PoolLm
set_option linter.unusedSimpArgs false
set_option linter.unusedVariables false

/-! ## operations that only touch the provider store, the queue or the collateral totals -/

theorem mem_insertProvider (p : Provider) : ∀ (l : List Provider) (x : Provider), x ∈ insertProvider p l → x = p ∨ x ∈ l := by
  intro l
  induction l with
  | nil => intro x hx; simp only [insertProvider, List.mem_singleton] at hx; exact Or.inl hx
  | cons y ys ih =>
    intro x hx
    unfold insertProvider at hx
    split at hx
    · rcases List.mem_cons.mp hx with h | h
      · exact Or.inl h
      · exact Or.inr h
    · rcases List.mem_cons.mp hx with h | h
      · exact Or.inr (h ▸ List.mem_cons_self)
      · rcases ih x h with h' | h'
        · exact Or.inl h'
        · exact Or.inr (List.mem_cons_of_mem _ h')

/-- a frame between two states that are definitionally equal on the framed fields -/
macro "fee_rfl" : tactic => `(tactic| exact ⟨rfl, rfl, rfl, rfl, rfl, rfl, rfl⟩)

/-- a step whose only effect on the framed fields is one `setProvider` that keeps (or resets) the rewards -/
theorem frameP_of_setProvider {s s' : State} {a : Addr} {p p' : Provider} (hf : findProvider s a = some p)
    (h1 : s'.lists = s.lists) (h2 : s'.origStakings = s.origStakings) (h3 : s'.nextPurchase = s.nextPurchase)
    (h4 : s'.serviceFees = s.serviceFees) (h5 : s'.remaining = s.remaining) (h6 : s'.blockFees = s.blockFees)
    (hp : s'.providers = s.providers.map (fun x => if x.addr == p'.addr then p' else x))
    (hr : p'.rewards = p.rewards ∨ p'.rewards = Dec.zero) : FeeFrameP s s' := by
  refine ⟨h1, h2, h3, h4, h5, h6, ?_⟩
  intro x hx
  rw [hp] at hx
  rcases mem_map_replace (fun z : Provider => z.addr == p'.addr) p' s.providers x hx with h | ⟨h, _⟩
  · subst h
    rcases hr with hr | hr
    · exact Or.inr ⟨p, List.mem_of_find?_eq_some hf, hr⟩
    · exact Or.inl hr
  · exact Or.inr ⟨x, h, rfl⟩

/-- fees `f ≥ 0` are added to both pots -/
theorem feeBooks_addFees {s s' : State} (hb : FeeBooks s) (f : Dec) (hf : 0 ≤ f.raw)
    (hl : s'.lists = s.lists) (ho : s'.origStakings = s.origStakings) (hq : s'.nextPurchase = s.nextPurchase)
    (hs : s'.serviceFees = Dec.add s.serviceFees f) (hr : s'.remaining = Dec.add s.remaining f)
    (hbf : s'.blockFees = s.blockFees) (hp : s'.providers = s.providers) : FeeBooks s' := by
  refine ⟨hb.noFeeStake.congr hl ho, hb.origLt.congr ho hq, ?_, ?_, by rw [hbf]; exact hb.money.blockFees⟩
  · have := hb.fees
    unfold FeesInv at this ⊢
    rw [feeSum_congr hl, hs, add_raw]; omega
  · rw [hr, add_raw]
    have := hb.money.remaining
    omega

theorem withdrawCollateral_frameP {e : Env} {s s' : State} {a : Addr} {amt : Int}
    (h : withdrawCollateral e s a amt = .ok s') : FeeFrameP s s' := by
  unfold withdrawCollateral at h
  split at h
  · cases h; exact FeeFrameP.refl _
  · cases hf : findProvider s a with
    | none => rw [hf] at h; cases h
    | some p =>
      rw [hf] at h
      dsimp only at h
      split at h
      · cases h
      · cases h
        refine (setProvider_frameP s a p { p with withdrawing := p.withdrawing + amt } hf (Or.inl rfl)).trans (FeeFrame.toP ?_)
        fee_rfl

theorem stakingHook_frameP {e : Env} {s s' : State} {a : Addr} {b : Int}
    (h : stakingHook e s a b = .ok s') : FeeFrameP s s' := by
  unfold stakingHook at h
  cases hf : findProvider s a with
  | none => rw [hf] at h; cases h; exact FeeFrameP.refl _
  | some p =>
    rw [hf] at h
    dsimp only at h
    have h1 := setProvider_frameP s a p { p with bonded := b } hf (Or.inl rfl)
    split at h
    · split at h
      · rename_i s2 hw
        cases h
        exact h1.trans (withdrawCollateral_frameP hw)
      · cases h
    · cases h; exact h1

theorem stakingChanged_frameP {e : Env} {s s' : State} {a : Addr}
    (h : stakingChanged e s a = .ok s') : FeeFrameP s s' := by
  unfold stakingChanged at h
  split at h
  · cases h; exact FeeFrameP.refl _
  · exact stakingHook_frameP h

theorem withdraw_frameP {e : Env} {s s' : State} {a : Addr} {c : Coins}
    (h : withdraw e s a c = .ok s') : FeeFrameP s s' := by
  unfold withdraw at h
  split at h; · cases h
  split at h; · cases h
  exact withdrawCollateral_frameP h

theorem deposit_frameP {e : Env} {s s' : State} {a : Addr} {c : Coins}
    (h : deposit e s a c = .ok s') : FeeFrameP s s' := by
  unfold deposit at h
  split at h; · cases h
  split at h; · cases h
  cases hf : findProvider s a with
  | some p =>
    rw [hf] at h
    dsimp only at h
    split at h; · cases h
    cases h
    refine (setProvider_frameP s a p { p with collateral := p.collateral + Coins.amountOf c e.bond } hf (Or.inl rfl)).trans
      (FeeFrame.toP ?_)
    fee_rfl
  | none =>
    rw [hf] at h
    dsimp only at h
    split at h; · cases h
    cases h
    refine ⟨rfl, rfl, rfl, rfl, rfl, rfl, ?_⟩
    intro x hx
    rcases mem_map_replace (fun z : Provider => z.addr == a) _ _ x hx with h1 | ⟨h1, _⟩
    · exact Or.inl (by rw [h1])
    · rcases mem_insertProvider _ _ x h1 with h2 | h2
      · exact Or.inl (by rw [h2])
      · exact Or.inr ⟨x, h2, rfl⟩

theorem delayWithdraws_frameF {s s' : State} {a : Addr} {amt u : Int} (h : delayWithdraws s a amt u = .ok s') :
    FeeFrame s s' := by
  rcases delayWithdraws_eq h with ⟨q, rfl⟩; fee_rfl

theorem updateProviderForPayout_frameP {s s' : State} {a : Addr} {pur pay : Int}
    (h : updateProviderForPayout s a pur pay = .ok s') : FeeFrameP s s' := by
  unfold updateProviderForPayout at h
  cases hf : findProvider s a with
  | none => rw [hf] at h; cases h
  | some p =>
    rw [hf] at h
    dsimp only at h
    split at h
    · cases h
    · cases h
      exact frameP_of_setProvider hf rfl rfl rfl rfl rfl rfl rfl (Or.inl rfl)

theorem reimburseLoop_frameP {e : Env} {r1 r2 : Dec} :
    ∀ (ps : List Provider) (tp to_ : Int) (l : Ledger) (s : State) (left : Int) (l' : Ledger) (s' : State),
      reimburseLoop e r1 r2 ps tp to_ l s = .ok (left, l', s') → FeeFrameP s s' := by
  intro ps
  induction ps with
  | nil => intro tp to_ l s left l' s' h; unfold reimburseLoop at h; cases h; exact FeeFrameP.refl _
  | cons p ps ih =>
    intro tp to_ l s left l' s' h
    unfold reimburseLoop at h
    ok_cases h
    all_goals first
      | (cases h; exact FeeFrameP.refl _)
      | exact (updateProviderForPayout_frameP (by assumption)).trans
          ((stakingChanged_frameP (by assumption)).trans (ih _ _ _ _ _ _ _ h))

theorem createReimbursement_frameP {e : Env} {l l' : Ledger} {s s' : State} {pid : Nat} {amount : Int} {b : Addr}
    (h : createReimbursement e l s pid amount b = .ok (l', s')) : FeeFrameP s s' := by
  unfold createReimbursement at h
  ok_cases h
  rename_i left l1 s1 hloop _
  have f := reimburseLoop_frameP _ _ _ _ _ _ _ _ hloop
  cases h
  refine f.trans (FeeFrame.toP ?_)
  fee_rfl

theorem completeLoop_frameP :
    ∀ (ws : List Withdraw) (s s' : State), completeLoop ws s = .ok s' → FeeFrameP s s' := by
  intro ws
  induction ws with
  | nil => intro s s' h; unfold completeLoop at h; cases h; exact FeeFrameP.refl _
  | cons w ws ih =>
    intro s s' h
    unfold completeLoop at h
    cases hf : findProvider s w.addr with
    | none => rw [hf] at h; cases h
    | some p =>
      rw [hf] at h
      dsimp only at h
      refine FeeFrameP.trans ?_ (ih _ _ h)
      exact frameP_of_setProvider hf rfl rfl rfl rfl rfl rfl rfl (Or.inl rfl)

theorem completeWithdrawals_frameP {e : Env} {s s' : State} (h : completeWithdrawals e s = .ok s') : FeeFrameP s s' := by
  unfold completeWithdrawals at h
  refine FeeFrameP.trans (FeeFrame.toP ?_) (completeLoop_frameP _ _ _ h)
  fee_rfl

/-! ## operations that touch pools, stakes, reimbursements or the claim lock only -/

theorem pausePool_frameF {s s' : State} {u : Addr} {poolID : Nat} {active : Bool}
    (h : pausePool s u poolID active = .ok s') : FeeFrame s s' := by
  unfold pausePool at h
  ok_cases h
  cases h; fee_rfl

theorem updateSponsor_frameF {s s' : State} {u : Addr} {poolID : Nat} {sp : String} {spa : Addr}
    (h : updateSponsor s u poolID sp spa = .ok s') : FeeFrame s s' := by
  unfold updateSponsor at h
  ok_cases h
  cases h; fee_rfl

theorem unstake_frameF {e : Env} {s s' : State} {poolID : Nat} {purchaser : Addr} {c : Coins}
    (h : unstake e s poolID purchaser c = .ok s') : FeeFrame s s' := by
  unfold unstake at h
  ok_cases h
  cases h
  exact ⟨setStake_lists _ _, setStake_origStakings _ _, setStake_nextPurchase _ _, setStake_serviceFees _ _,
    setStake_remaining _ _, setStake_blockFees _ _, setStake_providers _ _⟩

theorem withdrawReimbursement_frameF {e : Env} {l l' : Ledger} {s s' : State} {pid : Nat} {a : Addr}
    (h : withdrawReimbursement e l s pid a = .ok (l', s')) : FeeFrame s s' := by
  unfold withdrawReimbursement at h
  ok_cases h
  cases h; fee_rfl

theorem claimEnd_frameF (s : State) (loss : Int) : FeeFrame s (claimEnd s loss) := by fee_rfl
theorem closePools_frameF (s : State) : FeeFrame s (closePools s) := by fee_rfl

/-! ## rewards and block rewards -/

/-- `MsgWithdrawRewards`: the fractional change goes back to `remaining`; it is not negative, because the whole part is
    paid out by a bank transfer, which refuses negative amounts -/
theorem withdrawRewards_feeBooks {e : Env} {l l' : Ledger} {s s' : State} {a : Addr}
    (h : withdrawRewards e l s a = .ok (l', s')) (hb : FeeBooks s) : FeeBooks s' := by
  unfold withdrawRewards at h
  cases hf : findProvider s a with
  | none => rw [hf] at h; cases h
  | some p =>
    rw [hf] at h
    dsimp only at h
    split at h
    · cases h; exact hb
    · rename_i hw
      split at h
      · cases h
      · rename_i l1 hsend
        cases h
        have hnn : 0 ≤ Coins.amountOf [(e.bond, Dec.truncateInt p.rewards)] e.bond :=
          amountOf_nonneg_of_not_anyNegative _ (send_not_anyNegative hsend) _
        have hw0 : Dec.truncateInt p.rewards ≠ 0 := by simpa using hw
        have hpos : 0 < Dec.truncateInt p.rewards := by
          simp only [Coins.amountOf_cons, beq_self_eq_true, if_true, Coins.amountOf_nil] at hnn
          omega
        have hp := nonneg_of_truncate_pos p.rewards hpos
        refine ⟨hb.noFeeStake.congr rfl rfl, hb.origLt.congr rfl rfl, hb.fees.congr rfl rfl, ?_, hb.money.blockFees⟩
        show 0 ≤ (Dec.add s.remaining (Dec.sub p.rewards (Dec.ofInt (Dec.truncateInt p.rewards)))).raw
        rw [add_raw]
        have := change_nonneg p.rewards hp
        have := hb.money.remaining
        omega

/-- `MsgWithdrawRewards` resets the rewards of one provider -/
theorem withdrawRewards_rewards {e : Env} {l l' : Ledger} {s s' : State} {a : Addr}
    (h : withdrawRewards e l s a = .ok (l', s')) (hr : RewardsNonneg s) : RewardsNonneg s' := by
  unfold withdrawRewards at h
  cases hf : findProvider s a with
  | none => rw [hf] at h; cases h
  | some p =>
    rw [hf] at h
    dsimp only at h
    split at h
    · cases h; exact hr
    · split at h
      · cases h
      · cases h
        intro x hx
        rcases mem_map_replace (fun z : Provider => z.addr == p.addr) _ _ x hx with h1 | ⟨h1, _⟩
        · rw [h1]; exact Int.le_refl 0
        · exact hr x h1

/-- `FundShieldBlockRewards` with a non-negative amount -/
theorem fundBlockRewards_feeBooks (e : Env) (l : Ledger) (s : State) (a : Addr) (amt : Int) (hamt : 0 ≤ amt)
    (hb : FeeBooks s) : FeeBooks (fundBlockRewards e l s a amt).2 := by
  refine ⟨hb.noFeeStake.congr rfl rfl, hb.origLt.congr rfl rfl, hb.fees.congr rfl rfl, hb.money.remaining, ?_⟩
  show 0 ≤ (Dec.add s.blockFees (Dec.ofInt amt)).raw
  rw [add_raw]
  have := ofInt_nonneg amt hamt
  have := hb.money.blockFees
  omega

/-! ## the claim lock and its release: one entry is rewritten, its fees and id are kept -/

theorem feeBooks_shift {s s' : State} (hinv : ShieldInv s) (hb : FeeBooks s) {lst : PList} {pid : Nat} {a : Addr}
    {p : Purchase → Bool} {f : Purchase → Purchase} {x : Purchase}
    (hfl : findList s pid a = some lst) (hx : lst.entries.find? p = some x)
    (hfees : (f x).fees = x.fees) (hid : (f x).id = x.id)
    (hl : s'.lists = (setList s { lst with entries := replaceFirst p f lst.entries }).lists)
    (ho : s'.origStakings = s.origStakings) (hq : s'.nextPurchase = s.nextPurchase)
    (hs : s'.serviceFees = s.serviceFees) (hr : s'.remaining = s.remaining) (hbf : s'.blockFees = s.blockFees)
    (hp : s'.providers = s.providers) : FeeBooks s' := by
  have hkey := findList_key hfl
  have hmem := findList_mem hfl
  have hfl' : findList s (PList.mk lst.pool lst.purchaser (replaceFirst p f lst.entries)).pool
      (PList.mk lst.pool lst.purchaser (replaceFirst p f lst.entries)).purchaser = some lst := by
    show findList s lst.pool lst.purchaser = some lst
    rw [hkey.1, hkey.2]; exact hfl
  have hl2 := hl.trans (setList_lists_some s _ lst hfl')
  refine ⟨?_, hb.origLt.congr ho hq, ?_, hb.money.congr hr hbf⟩
  · exact hb.noFeeStake.of_from (FeeIdsFrom.replace (lst := lst) hmem hl2 (from_replaceFirst p f lst.entries x hx hfees hid)) ho
  · unfold FeesInv
    rw [hs, feeSum_replace hinv hfl' hl2, feeOf_replaceFirst p f lst x hx hfees]
    have := hb.fees
    unfold FeesInv at this
    omega

/-- `SecureCollaterals` -/
theorem secureCollaterals_feeBooks {e : Env} {s s' : State} {poolID : Nat} {purchaser : Addr} {purchaseID : Nat} {loss dur : Int}
    (h : secureCollaterals e s poolID purchaser purchaseID loss dur = .ok s') (hinv : ShieldInv s) (hb : FeeBooks s) :
    FeeBooks s' := by
  rcases secureCollaterals_ok h with ⟨pool, lst, pu, q, hfp, _, _, hfl, htgt, hle, rfl⟩
  exact feeBooks_shift hinv hb (f := fun _ => lockedEntry e pu loss dur) hfl (lockTarget_find htgt) rfl rfl rfl rfl rfl rfl rfl rfl rfl

/-- `RestoreShield` -/
theorem restoreShield_feeBooks {s : State} {poolID : Nat} {purchaser : Addr} {id : Nat} {loss : Int}
    (hinv : ShieldInv s) (hb : FeeBooks s) : FeeBooks (restoreShield s poolID purchaser id loss) := by
  cases hfp : findPool s poolID with
  | none => rw [restoreShield_none (Or.inl hfp)]; exact hb
  | some pool =>
    cases hfl : findList s poolID purchaser with
    | none => rw [restoreShield_none (Or.inr (Or.inl hfl))]; exact hb
    | some lst =>
      cases hen : lst.entries.find? (·.id == id) with
      | none => rw [restoreShield_none (Or.inr (Or.inr ⟨lst, hfl, hen⟩))]; exact hb
      | some en =>
        rw [restoreShield_some hfp hfl hen]
        exact feeBooks_shift hinv hb (f := fun x => { x with shield := x.shield + loss }) hfl hen rfl rfl rfl rfl rfl rfl rfl rfl rfl

/-! ## purchases -/

/-- the payment step: which pots and records it touches -/
theorem pcPaid_fees {e : Env} {l l' : Ledger} {s s1 : State} {poolID : Nat} {purchaser : Addr} {fees staking : Coins}
    (h : pcPaid e l s poolID purchaser fees staking = .ok (l', s1)) :
    s1.lists = s.lists ∧ s1.nextPurchase = s.nextPurchase + 1 ∧ s1.blockFees = s.blockFees ∧ s1.providers = s.providers ∧
    ((Coins.isZero fees = false ∧ 0 ≤ Coins.amountOf fees e.bond ∧ s1.origStakings = s.origStakings ∧
        s1.serviceFees = Dec.add s.serviceFees (Dec.ofInt (Coins.amountOf fees e.bond)) ∧
        s1.remaining = Dec.add s.remaining (Dec.ofInt (Coins.amountOf fees e.bond))) ∨
     (Coins.isZero fees = true ∧
        s1.origStakings = (s.origStakings.filter (·.1 != s.nextPurchase)) ++ [(s.nextPurchase, Coins.amountOf staking e.bond)] ∧
        s1.serviceFees = s.serviceFees ∧ s1.remaining = s.remaining)) := by
  unfold pcPaid at h
  dsimp only at h
  split at h
  · rename_i hz
    split at h; · cases h
    rename_i l1 hsend
    cases h
    refine ⟨rfl, rfl, rfl, rfl, Or.inl ⟨by simpa using hz, ?_, rfl, rfl, rfl⟩⟩
    exact amountOf_nonneg_of_not_anyNegative _ (send_not_anyNegative hsend) _
  · rename_i hz
    split at h; · cases h
    cases h
    refine ⟨setStake_lists _ _, setStake_nextPurchase _ _, setStake_blockFees _ _, setStake_providers _ _,
      Or.inr ⟨by simpa using hz, ?_, setStake_serviceFees _ _, setStake_remaining _ _⟩⟩
    show (setStake _ _).origStakings.filter _ ++ _ = _
    rw [setStake_origStakings]

/-- the bookkeeping step leaves the fee pots, the staking records and the providers alone -/
theorem pcFinish_fees (e : Env) (s1 : State) (pool : Pool) (poolID : Nat) (purchaser : Addr) (entry : Purchase) :
    (pcFinish e s1 pool poolID purchaser entry).origStakings = s1.origStakings ∧
    (pcFinish e s1 pool poolID purchaser entry).serviceFees = s1.serviceFees ∧
    (pcFinish e s1 pool poolID purchaser entry).remaining = s1.remaining ∧
    (pcFinish e s1 pool poolID purchaser entry).blockFees = s1.blockFees ∧
    (pcFinish e s1 pool poolID purchaser entry).providers = s1.providers := by
  unfold pcFinish
  dsimp only
  split
  · exact ⟨setList_origStakings _ _, setList_serviceFees _ _, setList_remaining _ _, setList_blockFees _ _, setList_providers _ _⟩
  · exact ⟨setList_origStakings _ _, setList_serviceFees _ _, setList_remaining _ _, setList_blockFees _ _, setList_providers _ _⟩

/-- an entry of the lists after a purchase is the new entry or an old one -/
theorem mem_listWith_lists {s : State} {pid : Nat} {a : Addr} {entry : Purchase} {l' : PList}
    (hl' : l' ∈ (setList s (listWith s pid a entry)).lists) :
    ∀ en' ∈ l'.entries, en' = entry ∨ ∃ l ∈ s.lists, en' ∈ l.entries := by
  intro en' hen'
  unfold listWith at hl'
  cases hfl : findList s pid a with
  | some x =>
    rw [hfl] at hl'
    simp only at hl'
    have hkey := findList_key hfl
    have hfl' : findList s x.pool x.purchaser = some x := by rw [hkey.1, hkey.2]; exact hfl
    rw [setList_lists_some s { x with entries := x.entries ++ [entry] } x hfl'] at hl'
    rcases mem_map_replace _ _ s.lists l' hl' with h | ⟨h, _⟩
    · subst h
      rcases List.mem_append.mp hen' with h1 | h1
      · exact Or.inr ⟨x, findList_mem hfl, h1⟩
      · exact Or.inl (by simpa using h1)
    · exact Or.inr ⟨l', h, hen'⟩
  | none =>
    rw [hfl] at hl'
    simp only at hl'
    have hfl' : findList s (PList.mk pid a [entry]).pool (PList.mk pid a [entry]).purchaser = none := hfl
    rw [setList_lists_none s { pool := pid, purchaser := a, entries := [entry] } hfl'] at hl'
    rcases List.mem_append.mp hl' with h | h
    · exact Or.inr ⟨l', h, hen'⟩
    · have : l' = { pool := pid, purchaser := a, entries := [entry] } := by simpa using h
      subst this
      exact Or.inl (by simpa using hen')

/-- the new entry's fees join the fee sum -/
theorem feeSum_listWith {s s' : State} (hinv : ShieldInv s) {pid : Nat} {a : Addr} {entry : Purchase}
    (hl : s'.lists = (setList s (listWith s pid a entry)).lists) : feeSum s' = feeSum s + entry.fees.raw := by
  unfold listWith at hl
  cases hfl : findList s pid a with
  | some x =>
    rw [hfl] at hl
    simp only at hl
    have hkey := findList_key hfl
    have hfl' : findList s (PList.mk x.pool x.purchaser (x.entries ++ [entry])).pool
        (PList.mk x.pool x.purchaser (x.entries ++ [entry])).purchaser = some x := by
      show findList s x.pool x.purchaser = some x
      rw [hkey.1, hkey.2]; exact hfl
    rw [setList_lists_some s { x with entries := x.entries ++ [entry] } x hfl'] at hl
    rw [feeSum_replace hinv hfl' hl]
    have : feeOf { x with entries := x.entries ++ [entry] } = feeOf x + entry.fees.raw := by
      unfold feeOf
      show sumI _ (x.entries ++ [entry]) = _
      rw [sumI_append, sumI_cons, sumI_nil]; omega
    omega
  | none =>
    rw [hfl] at hl
    simp only at hl
    have hfl' : findList s (PList.mk pid a [entry]).pool (PList.mk pid a [entry]).purchaser = none := hfl
    rw [setList_lists_none s { pool := pid, purchaser := a, entries := [entry] } hfl'] at hl
    rw [feeSum_append hl]
    have : feeOf { pool := pid, purchaser := a, entries := [entry] } = entry.fees.raw := by
      unfold feeOf
      show sumI _ [entry] = _
      rw [sumI_cons, sumI_nil]; omega
    omega

/-- `purchaseShield`: the new purchase gets either fees (added to both pots and to the entry) or a staking record under
    its fresh id, never both -/
theorem purchaseCore_feeBooks {e : Env} {l l' : Ledger} {s s' : State} {poolID : Nat} {shield : Coins} {purchaser : Addr}
    {fees staking : Coins} (h : purchaseCore e l s poolID shield purchaser fees staking = .ok (l', s'))
    (hinv : ShieldInv s) (hb : FeeBooks s) : FeeBooks s' := by
  rcases purchaseCore_ok h with ⟨pool, s1, hfp, _, _, hpaid, rfl⟩
  have ⟨p1, p2, p3, p4, hcase⟩ := pcPaid_fees hpaid
  have ⟨f1, f2, f3, f4, f5⟩ := pcFinish_fees e s1 pool poolID purchaser (pcEntry e s shield fees)
  have ⟨_, g2, _, _, g5, _⟩ := pcFinish_fields e s1 pool poolID purchaser (pcEntry e s shield fees)
  have hlists : (pcFinish e s1 pool poolID purchaser (pcEntry e s shield fees)).lists =
      (setList s (listWith s poolID purchaser (pcEntry e s shield fees))).lists := by
    rw [g2, listWith_congr p1, setList_lists_congr p1]
  have hsum := feeSum_listWith hinv hlists
  have hfeesB := hb.fees
  unfold FeesInv at hfeesB
  have hentry : (pcEntry e s shield fees).fees = if Coins.isZero fees then Dec.zero else Dec.ofInt (Coins.amountOf fees e.bond) := rfl
  have hentryId : (pcEntry e s shield fees).id = s.nextPurchase := rfl
  rcases hcase with ⟨hz, hamt, ho, hsf, hrem⟩ | ⟨hz, ho, hsf, hrem⟩
  · -- paid with fees
    rw [hz] at hentry
    simp only [Bool.false_eq_true, if_false] at hentry
    refine ⟨?_, ?_, ?_, ?_, ?_⟩
    · intro l0 hl0 en' hen' hpos
      rw [f1, ho]
      rw [hlists] at hl0
      rcases mem_listWith_lists hl0 en' hen' with h1 | ⟨l1, hl1, hen1⟩
      · rw [h1, hentryId]
        intro hany
        rcases List.any_eq_true.mp hany with ⟨o, ho', hc⟩
        simp only [Bool.and_eq_true, beq_iff_eq] at hc
        have := hb.origLt o ho'
        omega
      · exact hb.noFeeStake l1 hl1 en' hen1 hpos
    · intro o ho'
      rw [f1, ho] at ho'
      rw [g5, p2]
      have := hb.origLt o ho'
      omega
    · unfold FeesInv
      rw [hsum, f2, hsf, add_raw, hentry]; omega
    · rw [f3, hrem, add_raw]
      have := ofInt_nonneg _ hamt
      have := hb.money.remaining
      omega
    · rw [f4, p3]; exact hb.money.blockFees
  · -- paid with a stake
    rw [hz] at hentry
    simp only [if_true] at hentry
    refine ⟨?_, ?_, ?_, ?_, ?_⟩
    · intro l0 hl0 en' hen' hpos
      rw [f1, ho]
      rw [hlists] at hl0
      rcases mem_listWith_lists hl0 en' hen' with h1 | ⟨l1, hl1, hen1⟩
      · rw [h1, hentry] at hpos
        exact absurd hpos (by decide)
      · intro hany
        rw [List.any_append] at hany
        rcases Bool.or_eq_true_iff.mp hany with hany | hany
        · apply hb.noFeeStake l1 hl1 en' hen1 hpos
          rcases List.any_eq_true.mp hany with ⟨o, ho', hc⟩
          exact List.any_eq_true.mpr ⟨o, (List.mem_filter.mp ho').1, hc⟩
        · simp only [List.any_cons, List.any_nil, Bool.or_false, Bool.and_eq_true, beq_iff_eq] at hany
          have := hinv.purchaseIdLt l1 hl1 en' hen1
          omega
    · intro o ho'
      rw [f1, ho] at ho'
      rw [g5, p2]
      rcases List.mem_append.mp ho' with h1 | h1
      · have := hb.origLt o (List.mem_filter.mp h1).1
        omega
      · have : o = (s.nextPurchase, Coins.amountOf staking e.bond) := by simpa using h1
        rw [this]
        show s.nextPurchase < s.nextPurchase + 1
        omega
    · unfold FeesInv
      rw [hsum, f2, hsf, hentry]
      show feeSum s + 0 ≤ _
      omega
    · rw [f3, hrem]; exact hb.money.remaining
    · rw [f4, p3]; exact hb.money.blockFees

/-- `MsgPurchaseShield` / `MsgStakeForShield` -/
theorem purchase_feeBooks {e : Env} {l l' : Ledger} {s s' : State} {poolID : Nat} {shield : Coins} {purchaser : Addr}
    {staking : Bool} (h : purchase e l s poolID shield purchaser staking = .ok (l', s'))
    (hinv : ShieldInv s) (hb : FeeBooks s) : FeeBooks s' := by
  unfold purchase at h
  ok_cases h
  · exact purchaseCore_feeBooks h hinv hb
  · exact purchaseCore_feeBooks h hinv hb

/-- `MsgCreatePool` -/
theorem createPool_feeBooks {e : Env} {l l' : Ledger} {s s' : State} {creator : Addr} {shield fees : Coins} {sponsor : String}
    {sponsorAddr : Addr} {limit : Int} (h : createPool e l s creator shield fees sponsor sponsorAddr limit = .ok (l', s'))
    (hinv : ShieldInv s) (hb : FeeBooks s) : FeeBooks s' := by
  unfold createPool at h
  dsimp only at h
  split at h; · cases h
  split at h; · cases h
  refine purchaseCore_feeBooks h ?_ (hb.frame ?_)
  · exact hinv.newPool (np := { id := s.nextPool, shield := 0, limit := limit, active := true, sponsor := sponsor, sponsorAddr := sponsorAddr })
      rfl rfl rfl rfl rfl rfl rfl
  · fee_rfl

/-- `MsgUpdatePool`: the fee-only path adds to both pots without creating an entry (so the service-fee total can
    exceed the sum of the entries' fees) -/
theorem updatePool_feeBooks {e : Env} {l l' : Ledger} {s s' : State} {updater : Addr} {poolID : Nat} {shield fees : Coins}
    {limit : Int} (h : updatePool e l s updater poolID shield fees limit = .ok (l', s'))
    (hinv : ShieldInv s) (hb : FeeBooks s) : FeeBooks s' := by
  unfold updatePool at h
  dsimp only at h
  split at h; · cases h
  split at h; · cases h
  split at h; · cases h
  rename_i pool hfp
  have h1 : ShieldInv (setPool s (if limit != 0 then { pool with limit := limit } else pool)) := by
    refine hinv.setPool_meta hfp ?_ ?_
    · split <;> rfl
    · split <;> rfl
  have hb1 : FeeBooks (setPool s (if limit != 0 then { pool with limit := limit } else pool)) := hb.frame (by fee_rfl)
  split at h
  · exact purchaseCore_feeBooks h h1 hb1
  · split at h
    · split at h; · cases h
      rename_i l1 hsend
      cases h
      have hamt : 0 ≤ Coins.amountOf fees e.bond := amountOf_nonneg_of_not_anyNegative _ (send_not_anyNegative hsend) _
      exact feeBooks_addFees hb1 _ (ofInt_nonneg _ hamt) rfl rfl rfl rfl rfl rfl rfl
    · cases h; exact hb1


/-! ## the composite steps -/

/-- the end of a claim proposal, whatever the outcome -/
theorem claimEnds_feeBooks {e : Env} {l l' : Ledger} {s s' : State} {pid poolID : Nat} {restoreTo beneficiary : Addr}
    {purchaseID : Nat} {loss : Int} {o : ClaimOutcome}
    (h : claimEnds e l s pid poolID restoreTo beneficiary purchaseID loss o = .ok (l', s'))
    (hinv : ShieldInv s) (hb : FeeBooks s) : FeeBooks s' := by
  unfold claimEnds at h
  cases o with
  | vetoed => cases h; exact hb.frame (claimEnd_frameF s loss)
  | rejected => cases h; exact (restoreShield_feeBooks hinv hb).frame (claimEnd_frameF _ loss)
  | paid => exact hb.frameP (createReimbursement_frameP h)
  | failed => cases h; exact hb

/-- the module's end-blocker -/
theorem endBlock_feeBooks {e : Env} {s s' : State} (h : endBlock e s = .ok s')
    (hp : ShieldInv s) (hb : FeeBooks s) : FeeBooks s' := by
  unfold endBlock at h
  split at h; · cases h
  rename_i s1 h1
  split at h; · cases h
  rename_i s2 h2
  cases h
  exact ((expireAndDistribute_feeBooks h1 hp hb).frameP (completeWithdrawals_frameP h2)).frame (closePools_frameF s2)

/-! ## rewards stay non-negative (a clause of C03's `BooksInv`; not needed for C08) -/

theorem purchaseCore_providers {e : Env} {l l' : Ledger} {s s' : State} {poolID : Nat} {shield : Coins} {purchaser : Addr}
    {fees staking : Coins} (h : purchaseCore e l s poolID shield purchaser fees staking = .ok (l', s')) :
    s'.providers = s.providers := by
  rcases purchaseCore_ok h with ⟨pool, s1, _, _, _, hpaid, rfl⟩
  have ⟨_, _, _, p4, _⟩ := pcPaid_fees hpaid
  have ⟨_, _, _, _, f5⟩ := pcFinish_fees e s1 pool poolID purchaser (pcEntry e s shield fees)
  exact f5.trans p4

theorem purchase_providers {e : Env} {l l' : Ledger} {s s' : State} {poolID : Nat} {shield : Coins} {purchaser : Addr}
    {staking : Bool} (h : purchase e l s poolID shield purchaser staking = .ok (l', s')) : s'.providers = s.providers := by
  unfold purchase at h
  ok_cases h
  · exact purchaseCore_providers h
  · exact purchaseCore_providers h

theorem createPool_providers {e : Env} {l l' : Ledger} {s s' : State} {creator : Addr} {shield fees : Coins} {sponsor : String}
    {sponsorAddr : Addr} {limit : Int} (h : createPool e l s creator shield fees sponsor sponsorAddr limit = .ok (l', s')) :
    s'.providers = s.providers := by
  unfold createPool at h
  ok_cases h
  exact (purchaseCore_providers h).trans rfl

theorem updatePool_providers {e : Env} {l l' : Ledger} {s s' : State} {updater : Addr} {poolID : Nat} {shield fees : Coins}
    {limit : Int} (h : updatePool e l s updater poolID shield fees limit = .ok (l', s')) : s'.providers = s.providers := by
  unfold updatePool at h
  dsimp only at h
  split at h; · cases h
  split at h; · cases h
  split at h; · cases h
  split at h
  · exact (purchaseCore_providers h).trans rfl
  · split at h
    · split at h; · cases h
      cases h; rfl
    · cases h; rfl

theorem secureCollaterals_providers {e : Env} {s s' : State} {poolID : Nat} {purchaser : Addr} {purchaseID : Nat} {loss dur : Int}
    (h : secureCollaterals e s poolID purchaser purchaseID loss dur = .ok s') : s'.providers = s.providers := by
  rcases secureCollaterals_ok h with ⟨_, _, _, _, _, _, _, _, _, _, rfl⟩
  rfl

theorem restoreShield_providers (s : State) (poolID : Nat) (purchaser : Addr) (id : Nat) (loss : Int) :
    (restoreShield s poolID purchaser id loss).providers = s.providers := by
  cases hfp : findPool s poolID with
  | none => rw [restoreShield_none (Or.inl hfp)]
  | some pool =>
    cases hfl : findList s poolID purchaser with
    | none => rw [restoreShield_none (Or.inr (Or.inl hfl))]
    | some lst =>
      cases hen : lst.entries.find? (·.id == id) with
      | none => rw [restoreShield_none (Or.inr (Or.inr ⟨lst, hfl, hen⟩))]
      | some en => rw [restoreShield_some hfp hfl hen]

theorem RewardsNonneg.congr {s s' : State} (h : RewardsNonneg s) (hp : s'.providers = s.providers) : RewardsNonneg s' := by
  unfold RewardsNonneg; rw [hp]; exact h

theorem claimEnds_rewards {e : Env} {l l' : Ledger} {s s' : State} {pid poolID : Nat} {restoreTo beneficiary : Addr}
    {purchaseID : Nat} {loss : Int} {o : ClaimOutcome}
    (h : claimEnds e l s pid poolID restoreTo beneficiary purchaseID loss o = .ok (l', s')) (hr : RewardsNonneg s) :
    RewardsNonneg s' := by
  unfold claimEnds at h
  cases o with
  | vetoed => cases h; exact hr.congr rfl
  | rejected => cases h; exact hr.congr (restoreShield_providers s poolID restoreTo purchaseID loss)
  | paid => exact hr.frameP (createReimbursement_frameP h)
  | failed => cases h; exact hr

theorem endBlock_rewards {e : Env} {s s' : State} (h : endBlock e s = .ok s')
    (hp : ShieldInv s) (hb : FeeBooks s) (hr : RewardsNonneg s) (hc : ∀ p ∈ s.providers, 0 ≤ p.collateral)
    (hper : 0 < s.params.protection) (ht : s.lastUpdate ≤ e.t) : RewardsNonneg s' := by
  unfold endBlock at h
  split at h; · cases h
  rename_i s1 h1
  split at h; · cases h
  rename_i s2 h2
  cases h
  exact ((expireAndDistribute_rewards h1 hp hb hr hc hper ht).frameP (completeWithdrawals_frameP h2)).frame (closePools_frameF s2)

end Shentu.Halt
