import Shentu.Model.Genesis
import Shentu.Proofs.OracleOrder
/-
  Helper lemmas for `Shentu/Props/C20G.lean`, the oracle part: the relation `Shift` between a chain and the chain started from its
  export (every height-indexed deadline one block later) and the proof that every operation of the model respects it.
-/
namespace Shentu.C20GH
open Shentu Shentu.Oracle Shentu.Genesis.Oracle

/-- the environment of the imported chain: the same block, one height later -/
def up (e : Env) : Env := { e with h := e.h + 1 }

/-- the same withdrawal, due one block later -/
def shiftWd (w : Withdraw) : Withdraw := { w with due := w.due + 1 }

/-- the same task closing one block later.  `waiting` is written at creation and by the export and read by nothing else;
    `begin` is the height at which the task was created (an imported task keeps it, a task created on the imported chain
    has the later height); neither is read by any operation. -/
def TaskR (t t' : Task) : Prop :=
  ∃ w g, (g = t.begin ∨ g = t.begin + 1) ∧ t' = { t with closing := t.closing + 1, waiting := w, begin := g }

def TasksR : List Task → List Task → Prop
  | [], [] => True
  | a :: as, b :: bs => TaskR a b ∧ TasksR as bs
  | _, _ => False

@[simp] theorem TasksR_nil_nil : TasksR [] [] = True := by simp [TasksR]
@[simp] theorem TasksR_cons_cons (a b : Task) (as bs : List Task) : TasksR (a :: as) (b :: bs) = (TaskR a b ∧ TasksR as bs) := by
  simp [TasksR]
@[simp] theorem TasksR_nil_cons (b : Task) (bs : List Task) : TasksR [] (b :: bs) = False := by simp [TasksR]
@[simp] theorem TasksR_cons_nil (a : Task) (as : List Task) : TasksR (a :: as) [] = False := by simp [TasksR]

/-- **the relation between the exporting chain and the imported chain**, valid for blocks at heights `≥ c` of the former:
    the same operators (collateral, rewards), the same total, the same parameters; the same pending withdrawals, each due
    one block later; the same tasks, each closing one block later; the closing index of block `k + 1` of the imported chain
    lists the same tasks in the same order as the index of block `k` of the exporting chain. -/
structure Shift (c : Int) (a b : State) : Prop where
  ops : b.ops = a.ops
  total : b.total = a.total
  params : b.params = a.params
  wds : b.wds = a.wds.map shiftWd
  tasks : TasksR a.tasks b.tasks
  index : ∀ k, c ≤ k → closingAt b (k + 1) = closingAt a k

/-! ### tasks -/

theorem TaskR.key {t t' : Task} (h : TaskR t t') : t'.key = t.key := by
  obtain ⟨w, g, _, rfl⟩ := h; rfl
theorem TaskR.contract {t t' : Task} (h : TaskR t t') : t'.contract = t.contract := by
  obtain ⟨w, g, _, rfl⟩ := h; rfl
theorem TaskR.function {t t' : Task} (h : TaskR t t') : t'.function = t.function := by
  obtain ⟨w, g, _, rfl⟩ := h; rfl
theorem TaskR.closing {t t' : Task} (h : TaskR t t') : t'.closing = t.closing + 1 := by
  obtain ⟨w, g, _, rfl⟩ := h; rfl
theorem TaskR.responses {t t' : Task} (h : TaskR t t') : t'.responses = t.responses := by
  obtain ⟨w, g, _, rfl⟩ := h; rfl
theorem TaskR.status {t t' : Task} (h : TaskR t t') : t'.status = t.status := by
  obtain ⟨w, g, _, rfl⟩ := h; rfl
theorem TaskR.expiration {t t' : Task} (h : TaskR t t') : t'.expiration = t.expiration := by
  obtain ⟨w, g, _, rfl⟩ := h; rfl
theorem TaskR.creator {t t' : Task} (h : TaskR t t') : t'.creator = t.creator := by
  obtain ⟨w, g, _, rfl⟩ := h; rfl

/-- updating the fields that the end-blocker and `respond` write keeps the relation -/
theorem TaskR.upd {t t' : Task} (h : TaskR t t') (rs : List Response) (res : Int) (st : Nat) :
    TaskR { t with responses := rs, result := res, status := st } { t' with responses := rs, result := res, status := st } := by
  obtain ⟨w, g, hg, rfl⟩ := h; exact ⟨w, g, hg, rfl⟩

theorem TaskR.updR {t t' : Task} (h : TaskR t t') (rs : List Response) :
    TaskR { t with responses := rs } { t' with responses := rs } := by
  obtain ⟨w, g, hg, rfl⟩ := h; exact ⟨w, g, hg, rfl⟩

theorem TasksR.find (k : String) : ∀ {l l' : List Task}, TasksR l l' →
    match l.find? (fun t => t.key == k), l'.find? (fun t => t.key == k) with
    | none, none => True
    | some t, some t' => TaskR t t'
    | _, _ => False
  | [], [], _ => by simp
  | [], _ :: _, h => by simp at h
  | _ :: _, [], h => by simp at h
  | a :: as, b :: bs, h => by
    simp only [TasksR_cons_cons] at h
    have hk := h.1.key
    simp only [List.find?_cons, hk]
    by_cases hc : (a.key == k) = true
    · simp only [hc]; exact h.1
    · have hc' : (a.key == k) = false := by simpa using hc
      simp only [hc']; exact TasksR.find k h.2

theorem TasksR.map (g g' : Task → Task) (hg : ∀ x x', TaskR x x' → TaskR (g x) (g' x')) :
    ∀ {l l' : List Task}, TasksR l l' → TasksR (l.map g) (l'.map g')
  | [], [], _ => by simp
  | [], _ :: _, h => by simp at h
  | _ :: _, [], h => by simp at h
  | a :: as, b :: bs, h => by
    simp only [TasksR_cons_cons] at h
    simp only [List.map_cons, TasksR_cons_cons]
    exact ⟨hg a b h.1, TasksR.map g g' hg h.2⟩

theorem TasksR.append : ∀ {l l' m m' : List Task}, TasksR l l' → TasksR m m' → TasksR (l ++ m) (l' ++ m')
  | [], [], _, _, _, h2 => by simpa using h2
  | [], _ :: _, _, _, h, _ => by simp at h
  | _ :: _, [], _, _, h, _ => by simp at h
  | a :: as, b :: bs, _, _, h, h2 => by
    simp only [TasksR_cons_cons] at h
    simp only [List.cons_append, TasksR_cons_cons]
    exact ⟨h.1, TasksR.append h.2 h2⟩

theorem TasksR.filter (p : Task → Bool) (hp : ∀ x x', TaskR x x' → p x = p x') :
    ∀ {l l' : List Task}, TasksR l l' → TasksR (l.filter p) (l'.filter p)
  | [], [], _ => by simp
  | [], _ :: _, h => by simp at h
  | _ :: _, [], h => by simp at h
  | a :: as, b :: bs, h => by
    simp only [TasksR_cons_cons] at h
    simp only [List.filter_cons, ← hp a b h.1]
    by_cases hc : p a = true
    · simp only [hc, if_true, TasksR_cons_cons]; exact ⟨h.1, TasksR.filter p hp h.2⟩
    · have hc' : p a = false := by simpa using hc
      simp only [hc', Bool.false_eq_true, if_false]; exact TasksR.filter p hp h.2

/-! ### the closing index -/

theorem closingAt_congr {s s' : State} (h : s'.closing = s.closing) (k : Int) : closingAt s' k = closingAt s k := by
  simp [closingAt, h]

theorem find_map_add (l : List (Int × List (String × String))) (k k' : Int) (id : String × String) :
    ((l.map (fun e => if e.1 == k then (e.1, e.2 ++ [id]) else e)).find? (·.1 == k')) =
      (l.find? (·.1 == k')).map (fun e => if e.1 == k then (e.1, e.2 ++ [id]) else e) := by
  induction l with
  | nil => rfl
  | cons x xs ih =>
    simp only [List.map_cons, List.find?_cons]
    have h1 : ((if (x.1 == k) = true then (x.1, x.2 ++ [id]) else x).1 == k') = (x.1 == k') := by
      split <;> rfl
    rw [h1]
    cases hx : (x.1 == k') with
    | true => simp
    | false => simpa using ih

theorem closingAt_addClosing (s : State) (k k' : Int) (id : String × String) :
    closingAt (addClosing s k id) k' = if k' = k then closingAt s k ++ [id] else closingAt s k' := by
  unfold addClosing
  cases hf : s.closing.find? (·.1 == k) with
  | some e0 =>
    simp only [Option.isSome_some, if_true, closingAt]
    rw [find_map_add]
    by_cases hk : k' = k
    · subst hk
      simp only [hf, Option.map_some, if_true]
      have : (e0.1 == k') = true := by simpa using List.find?_some hf
      simp [this]
    · simp only [hk, if_false]
      cases hf' : s.closing.find? (·.1 == k') with
      | none => simp
      | some e1 =>
        have h1 : (e1.1 == k') = true := by simpa using List.find?_some hf'
        have h2 : ¬ e1.1 = k := by
          have : e1.1 = k' := by simpa using h1
          rw [this]; exact hk
        simp [h2]
  | none =>
    simp only [Option.isSome_none, Bool.false_eq_true, if_false, closingAt, List.find?_append]
    by_cases hk : k' = k
    · subst hk; simp [hf]
    · simp only [hk, if_false]
      cases hf' : s.closing.find? (·.1 == k') with
      | some e1 => simp
      | none =>
        have : (k == k') = false := by simp; exact fun h => hk h.symm
        simp [this]

theorem find_filter_ne (l : List (Int × List (String × String))) (k k' : Int) :
    (l.filter (fun e => !(e.1 == k))).find? (·.1 == k') = if k' = k then none else l.find? (·.1 == k') := by
  induction l with
  | nil => simp
  | cons x xs ih =>
    by_cases hx : x.1 = k
    · have : (!(x.1 == k)) = false := by simp [hx]
      simp only [List.filter_cons, this, Bool.false_eq_true, if_false, ih, List.find?_cons]
      by_cases hk : k' = k
      · simp [hk]
      · have : (x.1 == k') = false := by simp [hx]; exact fun h => hk h.symm
        simp [hk, this]
    · have : (!(x.1 == k)) = true := by simp [hx]
      simp only [List.filter_cons, this, if_true, List.find?_cons, ih]
      by_cases hk : k' = k
      · subst hk
        have : (x.1 == k') = false := by simp [hx]
        simp [this]
      · simp [hk]

theorem closingAt_delClosing (s : State) (k k' : Int) :
    closingAt (delClosing s k) k' = if k' = k then [] else closingAt s k' := by
  unfold delClosing closingAt
  simp only [find_filter_ne]
  by_cases hk : k' = k <;> simp [hk]

/-! ### results of two runs -/

/-- both fail with the same error, or both succeed with the same ledger and related states -/
def ResR (c : Int) : Except Err (Ledger × State) → Except Err (Ledger × State) → Prop
  | .ok p, .ok q => q.1 = p.1 ∧ Shift c p.2 q.2
  | .error x, .error y => y = x
  | _, _ => False

def ResS (c : Int) : Except Err State → Except Err State → Prop
  | .ok p, .ok q => Shift c p q
  | .error x, .error y => y = x
  | _, _ => False

@[simp] theorem ResR_ok (c : Int) (p q : Ledger × State) : ResR c (.ok p) (.ok q) = (q.1 = p.1 ∧ Shift c p.2 q.2) := rfl
@[simp] theorem ResR_error (c : Int) (x y : Err) : ResR c (.error x) (.error y) = (y = x) := rfl
@[simp] theorem ResR_err (c : Int) (x y : String) : ResR c (err x) (err y) = ((⟨y⟩ : Err) = ⟨x⟩) := rfl
@[simp] theorem ResR_panic (c : Int) (x y : String) : ResR c (panicE x) (panicE y) = ((⟨"panic:" ++ y⟩ : Err) = ⟨"panic:" ++ x⟩) := rfl
@[simp] theorem ResS_ok (c : Int) (p q : State) : ResS c (.ok p) (.ok q) = Shift c p q := rfl
@[simp] theorem ResS_error (c : Int) (x y : Err) : ResS c (.error x) (.error y) = (y = x) := rfl
@[simp] theorem ResS_err (c : Int) (x y : String) : ResS c (err x) (err y) = ((⟨y⟩ : Err) = ⟨x⟩) := rfl

theorem ResS.map {c : Int} {x y : Except Err State} (h : ResS c x y) (l : Ledger) :
    ResR c (x.map (fun s' => (l, s'))) (y.map (fun s' => (l, s'))) := by
  cases x <;> cases y <;> first | exact h | exact ⟨rfl, h⟩

/-! ### the state updates respect the relation -/

@[simp] theorem setTask_closing (s : State) (t : Task) : (setTask s t).closing = s.closing := by unfold setTask; split <;> rfl
@[simp] theorem delTask_closing (s : State) (k : String) : (delTask s k).closing = s.closing := rfl
@[simp] theorem delTask_params (s : State) (k : String) : (delTask s k).params = s.params := rfl
@[simp] theorem delOp_closing (s : State) (a : Addr) : (delOp s a).closing = s.closing := rfl
@[simp] theorem addClosing_tasks (s : State) (h : Int) (id : String × String) : (addClosing s h id).tasks = s.tasks := by
  unfold addClosing; split <;> rfl
@[simp] theorem addClosing_params (s : State) (h : Int) (id : String × String) : (addClosing s h id).params = s.params := by
  unfold addClosing; split <;> rfl
@[simp] theorem delClosing_tasks (s : State) (h : Int) : (delClosing s h).tasks = s.tasks := rfl
@[simp] theorem delClosing_params (s : State) (h : Int) : (delClosing s h).params = s.params := rfl

variable {c : Int} {a b : State}

theorem view_of_shift (h : Shift c a b) : View a b :=
  ⟨h.params.symm, fun x => by simp [collOf, findOp, h.ops]⟩

theorem findOp_shift (h : Shift c a b) (x : Addr) : findOp b x = findOp a x := by simp [findOp, h.ops]
theorem isOp_shift (h : Shift c a b) (x : Addr) : isOp b x = isOp a x := by simp [isOp, findOp_shift h]

/-- a change of the operators and the total only -/
theorem shift_frame {a' b' : State} (h : Shift c a b) (ho : b'.ops = a'.ops) (ht : b'.total = a'.total)
    (ha : a'.wds = a.wds ∧ a'.tasks = a.tasks ∧ a'.closing = a.closing ∧ a'.params = a.params)
    (hb : b'.wds = b.wds ∧ b'.tasks = b.tasks ∧ b'.closing = b.closing ∧ b'.params = b.params) : Shift c a' b' := by
  refine ⟨ho, ht, ?_, ?_, ?_, ?_⟩
  · rw [ha.2.2.2, hb.2.2.2]; exact h.params
  · rw [ha.1, hb.1]; exact h.wds
  · rw [ha.2.1, hb.2.1]; exact h.tasks
  · intro k hk; rw [closingAt_congr ha.2.2.1, closingAt_congr hb.2.2.1]; exact h.index k hk

theorem shift_setOp (h : Shift c a b) (o : Operator) : Shift c (setOp a o) (setOp b o) := by
  apply shift_frame h
  · unfold setOp; rw [isOp_shift h, h.ops]; split <;> rfl
  · simp [h.total]
  · simp
  · simp

theorem shift_delOp (h : Shift c a b) (x : Addr) : Shift c (delOp a x) (delOp b x) := by
  apply shift_frame h
  · simp [delOp, h.ops]
  · simp [h.total]
  · simp
  · simp

theorem shift_total (h : Shift c a b) (t : Coins) : Shift c { a with total := t } { b with total := t } :=
  shift_frame h h.ops rfl ⟨rfl, rfl, rfl, rfl⟩ ⟨rfl, rfl, rfl, rfl⟩

theorem shift_withCredits (h : Shift c a b) (incs : List (Addr × Coins)) : Shift c (withCredits incs a) (withCredits incs b) := by
  apply shift_frame h
  · simp [withCredits, h.ops]
  · exact h.total
  · exact ⟨rfl, rfl, rfl, rfl⟩
  · exact ⟨rfl, rfl, rfl, rfl⟩

theorem findTask_shift (h : Shift c a b) (k : String) :
    match findTask a k, findTask b k with
    | none, none => True
    | some t, some t' => TaskR t t'
    | _, _ => False := TasksR.find k h.tasks

theorem shift_setTask (h : Shift c a b) {t t' : Task} (ht : TaskR t t') : Shift c (setTask a t) (setTask b t') := by
  have hf := findTask_shift h t.key
  have hk := ht.key
  refine ⟨by simp [h.ops], by simp [h.total], by simp [h.params], by simp [h.wds], ?_, ?_⟩
  · unfold setTask
    rw [hk]
    cases hfa : findTask a t.key <;> cases hfb : findTask b t.key <;> rw [hfa, hfb] at hf
    · simp only [Option.isSome_none, Bool.false_eq_true, if_false]
      exact TasksR.append h.tasks (by simp [ht])
    · exact hf.elim
    · exact hf.elim
    · simp only [Option.isSome_some, if_true]
      apply TasksR.map _ _ _ h.tasks
      intro x x' hx
      rw [hx.key]
      split
      · exact ht
      · exact hx
  · intro k hk'
    rw [closingAt_congr (setTask_closing b t'), closingAt_congr (setTask_closing a t)]
    exact h.index k hk'

theorem shift_delTask (h : Shift c a b) (k : String) : Shift c (delTask a k) (delTask b k) := by
  refine ⟨h.ops, h.total, h.params, h.wds, ?_, fun k' hk' => h.index k' hk'⟩
  exact TasksR.filter _ (fun x x' hx => by rw [hx.key]) h.tasks

theorem shift_addClosing (h : Shift c a b) (k : Int) (id : String × String) :
    Shift c (addClosing a k id) (addClosing b (k + 1) id) := by
  refine ⟨by simp [h.ops], by simp [h.total], by simp [h.params], by simp [h.wds], by simpa using h.tasks, ?_⟩
  intro k' hk'
  rw [closingAt_addClosing, closingAt_addClosing]
  by_cases hkk : k' = k
  · subst hkk; simp [h.index k' hk']
  · have : ¬ k' + 1 = k + 1 := by omega
    simp [hkk, this, h.index k' hk']

theorem shift_delClosing (h : Shift c a b) (k : Int) : Shift c (delClosing a k) (delClosing b (k + 1)) := by
  refine ⟨h.ops, h.total, h.params, h.wds, h.tasks, ?_⟩
  intro k' hk'
  rw [closingAt_delClosing, closingAt_delClosing]
  by_cases hkk : k' = k
  · subst hkk; simp
  · have : ¬ k' + 1 = k + 1 := by omega
    simp [hkk, this, h.index k' hk']

/-! ### withdrawals -/

theorem upsertWd_shift (x : Addr) (d : Int) (amt : Coins) (l : List Withdraw) :
    upsertWd x (d + 1) amt (l.map shiftWd) = (upsertWd x d amt l).map shiftWd := by
  induction l with
  | nil => rfl
  | cons w ws ih =>
    simp only [List.map_cons, upsertWd]
    have : ((shiftWd w).due == d + 1 && (shiftWd w).addr == x) = (w.due == d && w.addr == x) := by
      have hb : (w.due + 1 == d + 1) = (w.due == d) := by
        by_cases hd : w.due = d
        · subst hd; simp
        · have h2 : ¬ w.due + 1 = d + 1 := by omega
          rw [beq_eq_false_iff_ne.mpr hd, beq_eq_false_iff_ne.mpr h2]
      show ((w.due + 1 == d + 1) && (w.addr == x)) = _
      rw [hb]
    rw [this]
    split
    · rfl
    · rw [ih]; rfl

theorem shift_createWithdraw (h : Shift c a b) (e : Env) (x : Addr) (amt : Coins) :
    Shift c (createWithdraw e a x amt) (createWithdraw (up e) b x amt) := by
  refine ⟨h.ops, h.total, h.params, ?_, h.tasks, fun k hk => h.index k hk⟩
  show upsertWd x (Gen.Oracle.dueBlock (e.h + 1) b.params.lock) amt b.wds = _
  rw [h.wds, h.params]
  have : Gen.Oracle.dueBlock (e.h + 1) a.params.lock = Gen.Oracle.dueBlock e.h a.params.lock + 1 := by
    simp only [Gen.Oracle.dueBlock]; omega
  rw [this, upsertWd_shift]; rfl

theorem mature_shift (h : Int) (w : Withdraw) : mature (h + 1) (shiftWd w) = mature h w := by
  simp only [mature, Gen.Oracle.matureSkip, shiftWd]
  by_cases hd : w.due > h
  · have : w.due + 1 > h + 1 := by omega
    simp [hd, this]
  · have : ¬ w.due + 1 > h + 1 := by omega
    simp [hd, this]

theorem payWithdraws_shift (e : Env) : ∀ (ws : List Withdraw) (l : Ledger),
    payWithdraws (up e) (ws.map shiftWd) l = payWithdraws e ws l := by
  intro ws
  induction ws with
  | nil => intro l; rfl
  | cons w ws ih =>
    intro l
    simp only [List.map_cons, payWithdraws]
    show (match l.send e.modAddr w.addr w.amt with
      | .error _ => panicE "oracle:FinalizeMatureWithdraws-send"
      | .ok l' => payWithdraws (up e) (ws.map shiftWd) l') = _
    cases l.send e.modAddr w.addr w.amt with
    | error x => rfl
    | ok l' => exact ih l'

theorem filter_map_shift (p q : Withdraw → Bool) (hpq : ∀ w, p (shiftWd w) = q w) (l : List Withdraw) :
    (l.map shiftWd).filter p = (l.filter q).map shiftWd := by
  induction l with
  | nil => rfl
  | cons w ws ih =>
    simp only [List.map_cons, List.filter_cons, hpq, ih]
    split <;> rfl

theorem beginBlock_shift (h : Shift c a b) (e : Env) (l : Ledger) :
    ResR c (beginBlock e l a) (beginBlock (up e) l b) := by
  unfold beginBlock
  rw [h.wds]
  have h1 : (a.wds.map shiftWd).filter (mature (up e).h) = (a.wds.filter (mature e.h)).map shiftWd :=
    filter_map_shift _ _ (fun w => mature_shift e.h w) _
  have h2 : (a.wds.map shiftWd).filter (fun w => !(mature (up e).h w)) = (a.wds.filter (fun w => !(mature e.h w))).map shiftWd :=
    filter_map_shift _ _ (fun w => by show (!(mature (e.h + 1) (shiftWd w))) = _; rw [mature_shift]) _
  rw [h1, h2, payWithdraws_shift]
  cases payWithdraws e (a.wds.filter (mature e.h)) l with
  | error x => rfl
  | ok l' =>
    refine ⟨rfl, h.ops, h.total, h.params, rfl, h.tasks, fun k hk => h.index k hk⟩

/-! ### operator messages -/

theorem belowMin_shift (h : Shift c a b) (e : Env) (cs : Coins) : belowMin (up e) b cs = belowMin e a cs := by
  simp [belowMin, h.params, up]

theorem createOperator_shift (h : Shift c a b) (e : Env) (l : Ledger) (x : Addr) (coll : Coins) (p : Addr) :
    ResR c (createOperator e l a x coll p) (createOperator (up e) l b x coll p) := by
  unfold createOperator
  rw [isOp_shift h, belowMin_shift h]
  show ResR c _ (if _ then _ else if _ then _ else if _ then _ else
    match l.send x e.modAddr coll with
    | .error y => .error y
    | .ok l' => .ok (l', { (setOp b { addr := x, proposer := p, coll := coll, rew := [] }) with
        total := Coins.add (setOp b { addr := x, proposer := p, coll := coll, rew := [] }).total coll }))
  split
  · simp
  split
  · simp
  split
  · simp
  cases l.send x e.modAddr coll with
  | error y => simp
  | ok l' =>
    simp only [ResR_ok, true_and]
    have h1 := shift_setOp h { addr := x, proposer := p, coll := coll, rew := [] }
    rw [h1.total]
    exact shift_total h1 _

theorem removeOperator_shift (h : Shift c a b) (e : Env) (l : Ledger) (x : Addr) :
    ResR c (removeOperator e l a x) (removeOperator (up e) l b x) := by
  unfold removeOperator
  rw [findOp_shift h, h.total]
  cases findOp a x with
  | none => simp
  | some o =>
    dsimp only
    split
    · simp
    show ResR c _ (match l.send e.modAddr x o.rew with
      | .error y => .error y
      | .ok l' => .ok (l', delOp (createWithdraw (up e) { b with total := Coins.sub a.total o.coll } x o.coll) x))
    cases l.send e.modAddr x o.rew with
    | error y => simp
    | ok l' =>
      simp only [ResR_ok, true_and]
      exact shift_delOp (shift_createWithdraw (shift_total h _) e x o.coll) x

theorem addCollateral_shift (h : Shift c a b) (e : Env) (l : Ledger) (x : Addr) (inc : Coins) :
    ResR c (addCollateral e l a x inc) (addCollateral (up e) l b x inc) := by
  unfold addCollateral
  rw [findOp_shift h]
  split
  · simp
  cases findOp a x with
  | none => simp
  | some o =>
    dsimp only
    show ResR c _ (match l.send x e.modAddr inc with
      | .error y => .error y
      | .ok l' => .ok (l', { (setOp b { o with coll := Coins.add o.coll inc }) with
          total := Coins.add (setOp b { o with coll := Coins.add o.coll inc }).total inc }))
    cases l.send x e.modAddr inc with
    | error y => simp
    | ok l' =>
      simp only [ResR_ok, true_and]
      have h1 := shift_setOp h { o with coll := Coins.add o.coll inc }
      rw [h1.total]
      exact shift_total h1 _

theorem reduceCollateral_shift (h : Shift c a b) (e : Env) (l : Ledger) (x : Addr) (dec : Coins) :
    ResR c (reduceCollateral e l a x dec) (reduceCollateral (up e) l b x dec) := by
  unfold reduceCollateral
  rw [findOp_shift h]
  split
  · simp
  cases findOp a x with
  | none => simp
  | some o =>
    dsimp only
    rw [belowMin_shift h, h.total]
    split
    · simp
    split
    · simp
    split
    · simp
    simp only [ResR_ok, true_and]
    have h1 := shift_setOp h { o with coll := Coins.sub o.coll dec }
    rw [h1.total]
    exact shift_createWithdraw (shift_total h1 _) e x dec

theorem withdrawReward_shift (h : Shift c a b) (e : Env) (l : Ledger) (x : Addr) :
    ResR c (withdrawReward e l a x) (withdrawReward (up e) l b x) := by
  unfold withdrawReward
  rw [findOp_shift h]
  cases findOp a x with
  | none => simp
  | some o =>
    dsimp only
    show ResR c _ (match l.send e.modAddr x o.rew with
      | .error y => .error y
      | .ok l' => .ok (l', setOp b { o with rew := [] }))
    cases l.send e.modAddr x o.rew with
    | error y => simp
    | ok l' => simp only [ResR_ok, true_and]; exact shift_setOp h _

/-! ### task messages -/

theorem ctNotClosed_shift (cl h : Int) : Gen.Oracle.ctNotClosed (cl + 1) (h + 1) = Gen.Oracle.ctNotClosed cl h := by
  simp only [Gen.Oracle.ctNotClosed]
  by_cases hc : cl ≥ h
  · have : cl + 1 ≥ h + 1 := by omega
    simp [hc, this]
  · have : ¬ cl + 1 ≥ h + 1 := by omega
    simp [hc, this]

theorem createTask_tail {a0 b0 : State} (h0 : Shift c a0 b0) (e : Env) (l : Ledger) (t : Task) (cr : Addr) (bounty : Coins)
    (w : Int) (id : String × String) :
    ResR c
      (match l.send cr e.modAddr bounty with
        | .error x => .error x
        | .ok l' => .ok (l', addClosing (setTask a0 { t with begin := e.h, closing := Gen.Oracle.ctClosingBlock e.h w })
            (Gen.Oracle.ctClosingBlock e.h w) id))
      (match l.send cr (up e).modAddr bounty with
        | .error x => .error x
        | .ok l' => .ok (l', addClosing (setTask b0 { t with begin := (up e).h, closing := Gen.Oracle.ctClosingBlock (up e).h w })
            (Gen.Oracle.ctClosingBlock (up e).h w) id)) := by
  show ResR c _ (match l.send cr e.modAddr bounty with
        | .error x => .error x
        | .ok l' => .ok (l', _))
  cases l.send cr e.modAddr bounty with
  | error y => simp
  | ok l' =>
    simp only [ResR_ok, true_and]
    have hcl : Gen.Oracle.ctClosingBlock (up e).h w = Gen.Oracle.ctClosingBlock e.h w + 1 := by
      simp only [Gen.Oracle.ctClosingBlock, up]; omega
    rw [hcl]
    apply shift_addClosing
    apply shift_setTask h0
    exact ⟨t.waiting, (up e).h, Or.inr rfl, rfl⟩

theorem createTask_shift (h : Shift c a b) (e : Env) (l : Ledger) (ct fn : String) (bounty : Coins) (cr : Addr) (wait validNs : Int) :
    ResR c (createTask e l a ct fn bounty cr wait validNs) (createTask (up e) l b ct fn bounty cr wait validNs) := by
  unfold createTask
  rw [h.params]
  have hf := findTask_shift h (ct ++ fn)
  dsimp only
  generalize (if Gen.Oracle.waitIsDefault wait = true then a.params.window else wait) = W
  have tail : ∀ {a0 b0 : State}, Shift c a0 b0 → _ := fun {a0 b0} h0 => createTask_tail h0 e l
    { contract := ct, function := fn, begin := 0, bounty := bounty,
      expiration := (if Gen.Oracle.validIsDefault validNs then e.t + a.params.expDur else e.t + validNs),
      creator := cr, responses := [], result := 0, closing := 0, waiting := W, status := 1 } cr bounty W (ct, fn)
  by_cases hw : Gen.Oracle.ctBadWait W = true
  · rw [if_pos hw, if_pos hw]; exact rfl
  · rw [if_neg hw, if_neg hw]
    cases hfa : findTask a (ct ++ fn) <;> cases hfb : findTask b (ct ++ fn) <;> rw [hfa, hfb] at hf
    · exact tail h
    · exact hf.elim
    · exact hf.elim
    · rename_i t t'
      dsimp only
      have : Gen.Oracle.ctNotClosed t'.closing (up e).h = Gen.Oracle.ctNotClosed t.closing e.h := by
        rw [hf.closing]; exact ctNotClosed_shift _ _
      rw [this]
      by_cases hn : Gen.Oracle.ctNotClosed t.closing e.h = true
      · rw [if_pos hn, if_pos hn]; exact rfl
      · rw [if_neg hn, if_neg hn]
        exact tail (shift_delTask h _)

theorem respond_shift (h : Shift c a b) (e : Env) (ct fn : String) (score : Int) (op : Addr) :
    ResS c (respond e a ct fn score op) (respond (up e) b ct fn score op) := by
  unfold respond
  rw [isOp_shift h]
  have hf := findTask_shift h (ct ++ fn)
  split
  · simp
  cases hfa : findTask a (ct ++ fn) <;> cases hfb : findTask b (ct ++ fn) <;> rw [hfa, hfb] at hf
  · simp
  · exact hf.elim
  · exact hf.elim
  · rename_i t t'
    dsimp only
    have : Gen.Oracle.respClosed (up e).h t'.closing = Gen.Oracle.respClosed e.h t.closing := by
      rw [hf.closing]
      simp only [Gen.Oracle.respClosed, up]
      by_cases hc : e.h > t.closing
      · have : e.h + 1 > t.closing + 1 := by omega
        simp [hc, this]
      · have : ¬ e.h + 1 > t.closing + 1 := by omega
        simp [hc, this]
    rw [this, hf.responses]
    split
    · simp
    split
    · simp
    split
    · simp
    simp only [ResS_ok]
    exact shift_setTask h (hf.updR _)

theorem deleteTask_shift (h : Shift c a b) (e : Env) (ct fn : String) (force : Bool) (deleter : Addr) :
    ResS c (deleteTask e a ct fn force deleter) (deleteTask (up e) b ct fn force deleter) := by
  unfold deleteTask
  have hf := findTask_shift h (ct ++ fn)
  cases hfa : findTask a (ct ++ fn) <;> cases hfb : findTask b (ct ++ fn) <;> rw [hfa, hfb] at hf
  · simp
  · exact hf.elim
  · exact hf.elim
  · rename_i t t'
    dsimp only
    have : Gen.Oracle.rmNotFinished (up e).h t'.closing = Gen.Oracle.rmNotFinished e.h t.closing := by
      rw [hf.closing]
      simp only [Gen.Oracle.rmNotFinished, up]
      by_cases hc : e.h ≤ t.closing
      · have : e.h + 1 ≤ t.closing + 1 := by omega
        simp [hc, this]
      · have : ¬ e.h + 1 ≤ t.closing + 1 := by omega
        simp [hc, this]
    rw [this, hf.expiration, hf.creator]
    show ResS c _ (if Gen.Oracle.rmNotExpired force t.expiration e.t then _ else _)
    split
    · simp
    split
    · simp
    split
    · simp
    simp only [ResS_ok]
    exact shift_delTask h _

/-! ### the end-blocker -/

theorem aggregateE_shift (h : Shift c a b) (bond : Denom) (key : String) :
    match aggregateE bond a key, aggregateE bond b key with
    | .ok t, .ok t' => TaskR t t'
    | .error x, .error y => y = x
    | _, _ => False := by
  have hv := view_of_shift h
  have hf := findTask_shift h key
  unfold aggregateE
  cases hfa : findTask a key <;> cases hfb : findTask b key <;> rw [hfa, hfb] at hf
  · exact rfl
  · exact hf.elim
  · exact hf.elim
  · rename_i t t'
    dsimp only
    rw [hf.status, hf.responses, ← hv.aggFold, h.params]
    by_cases hp : Gen.Oracle.aggPending t.status = true
    · rw [if_pos hp, if_pos hp]; exact rfl
    rw [if_neg hp, if_neg hp]
    cases aggFold bond a t.responses { result := Gen.Oracle.aggInit a.params.aggRes, total := 0, minC := 0, rs := [] } with
    | error x => exact rfl
    | ok ag =>
      dsimp only
      by_cases h1 : Gen.Oracle.aggHasCollateral ag.total = true
      · rw [if_pos h1, if_pos h1]
        by_cases h2 : Gen.Oracle.aggMinRegime ag.minC ag.total = true
        · rw [if_pos h2, if_pos h2]; exact hf.upd _ _ _
        · rw [if_neg h2, if_neg h2]; exact hf.upd _ _ _
      · rw [if_neg h1, if_neg h1]; exact hf.upd _ _ _

theorem distributeBountyE_retag (bond : Denom) (s : State) {t t' : Task} (ht : TaskR t t') :
    match distributeBountyE bond s t, distributeBountyE bond s t' with
    | .ok p, .ok q => q.1 = p.1 ∧ TaskR p.2 q.2
    | .error x, .error y => y = x
    | _, _ => False := by
  obtain ⟨w, g, hg, rfl⟩ := ht
  unfold distributeBountyE
  simp only [branch, branchDB]
  cases totalValid bond s
      (if Gen.Oracle.tvBranchMin t.result = true then 0 else if Gen.Oracle.tvBranchLow t.result s.params.threshold = true then 1 else 2)
      t.responses 0 with
  | error x => exact rfl
  | ok tv =>
    dsimp only
    by_cases hn : Gen.Oracle.dbNoValid tv = true
    · rw [if_pos hn, if_pos hn]; exact rfl
    · rw [if_neg hn, if_neg hn]
      cases payAllE bond
          (if Gen.Oracle.dbBranchMin t.result = true then 0 else if Gen.Oracle.dbBranchLow t.result s.params.threshold = true then 1 else 2)
          tv s (Coins.canon t.bounty) t.responses with
      | error x => exact rfl
      | ok p => exact ⟨rfl, w, g, hg, rfl⟩

theorem endOne_shift (h : Shift c a b) (bond : Denom) (id : String × String) :
    ResS c (endOne bond a id) (endOne bond b id) := by
  have hv := view_of_shift h
  unfold endOne
  dsimp only
  rw [aggregate_eq bond a, aggregate_eq bond b]
  have hagg := aggregateE_shift h bond (id.1 ++ id.2)
  cases ha : aggregateE bond a (id.1 ++ id.2) <;> cases hb : aggregateE bond b (id.1 ++ id.2) <;> rw [ha, hb] at hagg
  · rename_i x y
    have hxy : y = x := hagg
    subst hxy
    dsimp only
    by_cases hpn : y.isPanic = true
    · rw [if_pos hpn, if_pos hpn]; exact rfl
    · rw [if_neg hpn, if_neg hpn]; exact h
  · exact hagg.elim
  · exact hagg.elim
  · rename_i t1 t1'
    have hT : TaskR t1 t1' := hagg
    dsimp only
    have hk1 := (aggregateE_ok ha).1
    have hk1' := (aggregateE_ok hb).1
    have hfa := findTask_setTask_self a t1
    rw [hk1] at hfa
    have hfb := findTask_setTask_self b t1'
    rw [hk1'] at hfb
    rw [hfa, hfb]
    dsimp only
    rw [distributeBounty_eq bond a (setTask a t1) t1 (view_setTask a t1),
        distributeBounty_eq bond a (setTask b t1') t1' (hv.trans (view_setTask b t1'))]
    have h1 : Shift c (setTask a t1) (setTask b t1') := shift_setTask h hT
    have hdb := distributeBountyE_retag bond a hT
    cases hda : distributeBountyE bond a t1 <;> cases hdb' : distributeBountyE bond a t1' <;> rw [hda, hdb'] at hdb
    · rename_i x y
      have hxy : y = x := hdb
      subst hxy
      dsimp only
      by_cases hpn : y.isPanic = true
      · rw [if_pos hpn, if_pos hpn]; exact rfl
      · rw [if_neg hpn, if_neg hpn]; exact h1
    · exact hdb.elim
    · exact hdb.elim
    · rename_i p q
      obtain ⟨incs, t2⟩ := p
      obtain ⟨incs', t2'⟩ := q
      have h2 : incs' = incs ∧ TaskR t2 t2' := hdb
      obtain ⟨rfl, hT2⟩ := h2
      dsimp only
      exact shift_setTask (shift_withCredits h1 _) hT2

theorem endFold_shift (bond : Denom) : ∀ (ids : List (String × String)) {a b : State}, Shift c a b →
    ResS c (endFold bond ids a) (endFold bond ids b) := by
  intro ids
  induction ids with
  | nil => intro a b h; exact h
  | cons id ids ih =>
    intro a b h
    unfold endFold
    have h1 := endOne_shift h bond id
    cases ha : endOne bond a id <;> cases hb : endOne bond b id <;> rw [ha, hb] at h1
    · exact h1
    · exact h1.elim
    · exact h1.elim
    · exact ih h1

theorem endBlock_shift (h : Shift c a b) (e : Env) (hc : c ≤ e.h) : ResS c (endBlock e a) (endBlock (up e) b) := by
  unfold endBlock
  show ResS c _ (match endFold e.bond (closingAt b (e.h + 1)) b with
    | .error x => .error x
    | .ok s' => .ok (delClosing s' (e.h + 1)))
  rw [h.index e.h hc]
  have h1 := endFold_shift (c := c) e.bond (closingAt a e.h) h
  cases ha : endFold e.bond (closingAt a e.h) a <;> cases hb : endFold e.bond (closingAt a e.h) b <;> rw [ha, hb] at h1
  · exact h1
  · exact h1.elim
  · exact h1.elim
  · exact shift_delClosing h1 _

/-! ### every operation, and histories -/

theorem stepE_shift (h : Shift c a b) (e : Env) (hc : c ≤ e.h) (l : Ledger) (op : Op) :
    ResR c (stepE e l a op) (stepE (up e) l b op) := by
  cases op with
  | createOperator x cs p => exact createOperator_shift h e l x cs p
  | removeOperator x => exact removeOperator_shift h e l x
  | addCollateral x cs => exact addCollateral_shift h e l x cs
  | reduceCollateral x cs => exact reduceCollateral_shift h e l x cs
  | withdrawReward x => exact withdrawReward_shift h e l x
  | createTask ct fn bo cr w v => exact createTask_shift h e l ct fn bo cr w v
  | respond ct fn sc o => exact (respond_shift h e ct fn sc o).map l
  | deleteTask ct fn fo d => exact (deleteTask_shift h e ct fn fo d).map l
  | beginBlock => exact beginBlock_shift h e l
  | endBlock => exact (endBlock_shift h e hc).map l

/-- a history: every operation with the environment of its block -/
def run (ls : Ledger × State) (ops : List (Env × Op)) : Ledger × State := ops.foldl (fun ls eo => step eo.1 ls eo.2) ls
/-- the same history on the imported chain: every block one height later -/
def runUp (ls : Ledger × State) (ops : List (Env × Op)) : Ledger × State := ops.foldl (fun ls eo => step (up eo.1) ls eo.2) ls

/-- what an operation answered: `none` for success, the error otherwise -/
def outcome (e : Env) (ls : Ledger × State) (op : Op) : Option Err :=
  match stepE e ls.1 ls.2 op with
  | .ok _ => none
  | .error x => some x

def outcomes : Ledger × State → List (Env × Op) → List (Option Err)
  | _, [] => []
  | ls, eo :: rest => outcome eo.1 ls eo.2 :: outcomes (step eo.1 ls eo.2) rest
def outcomesUp : Ledger × State → List (Env × Op) → List (Option Err)
  | _, [] => []
  | ls, eo :: rest => outcome (up eo.1) ls eo.2 :: outcomesUp (step (up eo.1) ls eo.2) rest

theorem step_shift (h : Shift c a b) (e : Env) (hc : c ≤ e.h) (l : Ledger) (op : Op) :
    (step (up e) (l, b) op).1 = (step e (l, a) op).1 ∧ Shift c (step e (l, a) op).2 (step (up e) (l, b) op).2 ∧
      outcome (up e) (l, b) op = outcome e (l, a) op := by
  have h1 := stepE_shift h e hc l op
  unfold step outcome
  dsimp only
  cases ha : stepE e l a op <;> cases hb : stepE (up e) l b op <;> rw [ha, hb] at h1
  · have : _ = _ := h1
    exact ⟨rfl, h, by rw [this]⟩
  · exact h1.elim
  · exact h1.elim
  · exact ⟨h1.1, h1.2, rfl⟩

theorem run_shift : ∀ (ops : List (Env × Op)) {a b : State} (l : Ledger), Shift c a b → (∀ eo ∈ ops, c ≤ eo.1.h) →
    (runUp (l, b) ops).1 = (run (l, a) ops).1 ∧ Shift c (run (l, a) ops).2 (runUp (l, b) ops).2 ∧
      outcomesUp (l, b) ops = outcomes (l, a) ops := by
  intro ops
  induction ops with
  | nil => intro a b l h _; exact ⟨rfl, h, rfl⟩
  | cons eo rest ih =>
    intro a b l h hc
    obtain ⟨h1, h2, h3⟩ := step_shift h eo.1 (hc eo List.mem_cons_self) l eo.2
    have hrest := fun x hx => hc x (List.mem_cons_of_mem _ hx)
    show (runUp (step (up eo.1) (l, b) eo.2) rest).1 = (run (step eo.1 (l, a) eo.2) rest).1 ∧
      Shift c (run (step eo.1 (l, a) eo.2) rest).2 (runUp (step (up eo.1) (l, b) eo.2) rest).2 ∧
      outcome (up eo.1) (l, b) eo.2 :: outcomesUp (step (up eo.1) (l, b) eo.2) rest =
        outcome eo.1 (l, a) eo.2 :: outcomes (step eo.1 (l, a) eo.2) rest
    have e1 : step (up eo.1) (l, b) eo.2 = ((step eo.1 (l, a) eo.2).1, (step (up eo.1) (l, b) eo.2).2) := by
      rw [← h1]
    have e2 : step eo.1 (l, a) eo.2 = ((step eo.1 (l, a) eo.2).1, (step eo.1 (l, a) eo.2).2) := rfl
    rw [e1, e2, h3]
    obtain ⟨i1, i2, i3⟩ := ih (step eo.1 (l, a) eo.2).1 h2 hrest
    exact ⟨i1, i2, by rw [i3]⟩

/-! ### the import produces a shifted state -/

/-- the identifiers of a list of tasks, in order -/
def ids (ts : List Task) : List (String × String) := ts.map (fun t => (t.contract, t.function))
/-- the tasks closing at block `k`, in the order of the task list -/
def idsAt (k : Int) (ts : List Task) : List (String × String) := ids (ts.filter (fun t => t.closing == k))

/-- what the export at height `h` relies on: task keys are distinct (they are keys of a store), and the closing index of
    every later block lists exactly the tasks that close then, in the order of the task list -/
structure Exportable (h : Int) (s : State) : Prop where
  keys : (s.tasks.map Task.key).Nodup
  index : ∀ k, h < k → closingAt s k = idsAt k s.tasks

/-- an exported and re-imported task: closing one block later, `waiting` as the export wrote it -/
def impT (h : Int) (t : Task) : Task := { t with closing := t.closing + 1, waiting := t.closing - h }

theorem impT_rel (h : Int) (t : Task) : TaskR t (impT h t) := ⟨t.closing - h, t.begin, Or.inl rfl, rfl⟩

theorem tasksR_impT (h : Int) : ∀ l : List Task, TasksR l (l.map (impT h))
  | [] => by simp
  | t :: ts => by simp only [List.map_cons, TasksR_cons_cons]; exact ⟨impT_rel h t, tasksR_impT h ts⟩

theorem import_one (h : Int) (st : State) (t : Task) (hf : findTask st t.key = none) :
    (updateAndSetTask (h + 1) st (exportTask h t)).ops = st.ops ∧
    (updateAndSetTask (h + 1) st (exportTask h t)).wds = st.wds ∧
    (updateAndSetTask (h + 1) st (exportTask h t)).total = st.total ∧
    (updateAndSetTask (h + 1) st (exportTask h t)).params = st.params ∧
    (updateAndSetTask (h + 1) st (exportTask h t)).tasks = st.tasks ++ [impT h t] ∧
    ∀ k, closingAt (updateAndSetTask (h + 1) st (exportTask h t)) k =
      closingAt st k ++ (if h < t.closing ∧ t.closing + 1 = k then [(t.contract, t.function)] else []) := by
  have e1 : h + 1 + (t.closing - h) = t.closing + 1 := by omega
  have hset : setTask st { exportTask h t with closing := h + 1 + (exportTask h t).waiting } =
      { st with tasks := st.tasks ++ [impT h t] } := by
    unfold setTask
    have hk : ({ exportTask h t with closing := h + 1 + (exportTask h t).waiting } : Task).key = t.key := rfl
    rw [hk, hf]
    simp only [Option.isSome_none, Bool.false_eq_true, if_false]
    show { st with tasks := st.tasks ++ [{ t with waiting := t.closing - h, closing := h + 1 + (t.closing - h) }] } = _
    rw [e1]; rfl
  unfold updateAndSetTask
  dsimp only
  rw [hset]
  by_cases hw : (exportTask h t).waiting > 0
  · rw [if_pos hw]
    have hw' : h < t.closing := by
      have : t.closing - h > 0 := hw
      omega
    refine ⟨by simp, by simp, by simp, by simp, by simp, ?_⟩
    intro k
    rw [closingAt_addClosing]
    have e2 : h + 1 + (exportTask h t).waiting = t.closing + 1 := e1
    rw [e2]
    by_cases hk : k = t.closing + 1
    · subst hk
      simp only [if_true, hw', and_self]
      rfl
    · have : ¬ (h < t.closing ∧ t.closing + 1 = k) := fun hh => hk hh.2.symm
      simp only [hk, if_false, this, List.append_nil]
      rfl
  · rw [if_neg hw]
    have hw' : ¬ h < t.closing := by
      have : ¬ t.closing - h > 0 := hw
      omega
    refine ⟨rfl, rfl, rfl, rfl, rfl, ?_⟩
    intro k
    have : ¬ (h < t.closing ∧ t.closing + 1 = k) := fun hh => hw' hh.1
    simp only [this, if_false, List.append_nil]
    rfl

theorem findTask_append_none (st : State) (u : Task) (k : String) (h1 : findTask st k = none) (h2 : u.key ≠ k) :
    findTask { st with tasks := st.tasks ++ [u] } k = none := by
  unfold findTask at *
  rw [List.find?_append, h1]
  simp [h2]

theorem ids_filter_cons (p : Task → Bool) (t : Task) (rest : List Task) :
    ids ((t :: rest).filter p) = (if p t = true then [(t.contract, t.function)] else []) ++ ids (rest.filter p) := by
  simp only [List.filter_cons]
  split <;> simp [ids]

theorem fold_import (h : Int) : ∀ (rest : List Task) (st : State),
    (∀ t ∈ rest, findTask st t.key = none) → (rest.map Task.key).Nodup →
    ((rest.map (exportTask h)).foldl (updateAndSetTask (h + 1)) st).ops = st.ops ∧
    ((rest.map (exportTask h)).foldl (updateAndSetTask (h + 1)) st).wds = st.wds ∧
    ((rest.map (exportTask h)).foldl (updateAndSetTask (h + 1)) st).total = st.total ∧
    ((rest.map (exportTask h)).foldl (updateAndSetTask (h + 1)) st).params = st.params ∧
    ((rest.map (exportTask h)).foldl (updateAndSetTask (h + 1)) st).tasks = st.tasks ++ rest.map (impT h) ∧
    ∀ k, closingAt ((rest.map (exportTask h)).foldl (updateAndSetTask (h + 1)) st) k =
      closingAt st k ++ ids (rest.filter (fun t => decide (h < t.closing) && (t.closing + 1 == k))) := by
  intro rest
  induction rest with
  | nil => intro st _ _; simp [ids]
  | cons t rest ih =>
    intro st hfree hnd
    simp only [List.map_cons, List.nodup_cons] at hnd
    obtain ⟨o1, o2, o3, o4, o5, o6⟩ := import_one h st t (hfree t List.mem_cons_self)
    have hfree' : ∀ u ∈ rest, findTask (updateAndSetTask (h + 1) st (exportTask h t)) u.key = none := by
      intro u hu
      have h1 := hfree u (List.mem_cons_of_mem _ hu)
      have h2 : (impT h t).key ≠ u.key := by
        intro heq
        apply hnd.1
        have : t.key = u.key := heq
        rw [this]
        exact List.mem_map.mpr ⟨u, hu, rfl⟩
      have := findTask_append_none st (impT h t) u.key h1 h2
      unfold findTask at this ⊢
      rw [o5]; exact this
    obtain ⟨i1, i2, i3, i4, i5, i6⟩ := ih (updateAndSetTask (h + 1) st (exportTask h t)) hfree' hnd.2
    simp only [List.map_cons, List.foldl_cons]
    refine ⟨i1.trans o1, i2.trans o2, i3.trans o3, i4.trans o4, ?_, ?_⟩
    · rw [i5, o5]; simp
    · intro k
      rw [i6, o6, ids_filter_cons, List.append_assoc]
      congr 2
      have : ((decide (h < t.closing) && (t.closing + 1 == k)) = true) ↔ (h < t.closing ∧ t.closing + 1 = k) := by simp
      simp only [this]

theorem wd_roundtrip (h : Int) (l : List Withdraw) : (l.map (exportWd h)).map (importWd (h + 1)) = l.map shiftWd := by
  rw [List.map_map]
  apply List.map_congr_left
  intro w _
  show ({ w with due := w.due - h + (h + 1) } : Withdraw) = { w with due := w.due + 1 }
  have : w.due - h + (h + 1) = w.due + 1 := by omega
  rw [this]

/-- the fields of the imported state -/
theorem import_fields (h : Int) (s : State) (hk : (s.tasks.map Task.key).Nodup) :
    (initGenesis (h + 1) (exportGenesis h s)).ops = s.ops ∧
    (initGenesis (h + 1) (exportGenesis h s)).wds = s.wds.map shiftWd ∧
    (initGenesis (h + 1) (exportGenesis h s)).total = s.total ∧
    (initGenesis (h + 1) (exportGenesis h s)).params = s.params ∧
    (initGenesis (h + 1) (exportGenesis h s)).tasks = s.tasks.map (impT h) ∧
    ∀ k, closingAt (initGenesis (h + 1) (exportGenesis h s)) k =
      ids (s.tasks.filter (fun t => decide (h < t.closing) && (t.closing + 1 == k))) := by
  unfold initGenesis exportGenesis emptyState
  dsimp only
  obtain ⟨i1, i2, i3, i4, i5, i6⟩ := fold_import h s.tasks
    { ops := s.ops, wds := (s.wds.map (exportWd h)).map (importWd (h + 1)), total := s.total, tasks := [], closing := [],
      params := s.params } (fun _ _ => rfl) hk
  refine ⟨i1, ?_, i3, i4, ?_, ?_⟩
  · rw [← wd_roundtrip h]; exact i2
  · simpa using i5
  · intro k; rw [i6]; simp [closingAt]

theorem import_shift (h : Int) (s : State) (hx : Exportable h s) :
    Shift (h + 1) s (initGenesis (h + 1) (exportGenesis h s)) := by
  obtain ⟨i1, i2, i3, i4, i5, i6⟩ := import_fields h s hx.keys
  refine ⟨i1, i3, i4, i2, ?_, ?_⟩
  · rw [i5]; exact tasksR_impT h s.tasks
  · intro k hk
    rw [i6, hx.index k (by omega)]
    unfold idsAt
    congr 1
    apply List.filter_congr
    intro t _
    by_cases ht : t.closing = k
    · have h1 : h < t.closing := by omega
      have h2 : t.closing + 1 = k + 1 := by omega
      rw [decide_eq_true h1, beq_iff_eq.mpr h2, beq_iff_eq.mpr ht]; rfl
    · have h2 : ¬ t.closing + 1 = k + 1 := by omega
      rw [beq_eq_false_iff_ne.mpr h2, beq_eq_false_iff_ne.mpr ht, Bool.and_false]

end Shentu.C20GH
