import Shentu.Proofs.C11HLemmas
/-
  C11 at the level of histories, part 2: what settling one proposal (refund or burn of all its records) does to the
  ledger, to the records and to the payment log; the two shapes of a sub-step of the end blocker (`Kept`, `Settled`).
-/
namespace Shentu.C11H
open Shentu Shentu.Gov
open Shentu.Halt.Gv (depSum depSum_cons depSum_split depSum_upsert foldl_add_amount)
open Shentu.Props.C11 (recOf recAll)
set_option linter.unusedSimpArgs false
set_option linter.unusedVariables false

/-! ## sums over logs -/

@[simp] theorem paidTot_nil (pid : Nat) (a : Addr) (d : Denom) : paidTot [] pid a d = 0 := rfl
@[simp] theorem refundedTo_nil (a : Addr) (d : Denom) : refundedTo [] a d = 0 := rfl
@[simp] theorem burnedSum_nil (d : Denom) : burnedSum [] d = 0 := rfl
@[simp] theorem depTot_nil (pid : Nat) (a : Addr) (d : Denom) : depTot [] pid a d = 0 := rfl

@[simp] theorem paidTot_append (L L' : List Pay) (pid : Nat) (a : Addr) (d : Denom) :
    paidTot (L ++ L') pid a d = paidTot L pid a d + paidTot L' pid a d := by
  simp [paidTot, List.filter_append, List.map_append, List.sum_append]
@[simp] theorem refundedTo_append (L L' : List Pay) (a : Addr) (d : Denom) :
    refundedTo (L ++ L') a d = refundedTo L a d + refundedTo L' a d := by
  simp [refundedTo, List.filter_append, List.map_append, List.sum_append]
@[simp] theorem burnedSum_append (L L' : List Pay) (d : Denom) :
    burnedSum (L ++ L') d = burnedSum L d + burnedSum L' d := by
  simp [burnedSum, List.filter_append, List.map_append, List.sum_append]
@[simp] theorem depTot_append (L L' : List DepEv) (pid : Nat) (a : Addr) (d : Denom) :
    depTot (L ++ L') pid a d = depTot L pid a d + depTot L' pid a d := by
  simp [depTot, List.filter_append, List.map_append, List.sum_append]

theorem depTot_single (pid : Nat) (a : Addr) (amt : Coins) (pid' : Nat) (a' : Addr) (d : Denom) :
    depTot [{ pid := pid, depositor := a, amount := amt }] pid' a' d =
      if pid == pid' && a == a' then Coins.amountOf amt d else 0 := by
  simp only [depTot, List.filter_cons, List.filter_nil]
  by_cases h : (pid == pid' && a == a') <;> simp [h]

theorem recOf_cons (x : Deposit) (xs : List Deposit) (pid : Nat) (a : Addr) (d : Denom) :
    recOf (x :: xs) pid a d =
      (if x.pid == pid && x.depositor == a then Coins.amountOf x.amount d else 0) + recOf xs pid a d := by
  simp only [recOf, List.filter_cons]
  split <;> simp

theorem paidTot_cons (x : Pay) (xs : List Pay) (pid : Nat) (a : Addr) (d : Denom) :
    paidTot (x :: xs) pid a d =
      (if x.pid == pid && x.to == a then Coins.amountOf x.amount d else 0) + paidTot xs pid a d := by
  simp only [paidTot, List.filter_cons]
  split <;> simp

theorem payOf_cons (b : Bool) (x : Deposit) (xs : List Deposit) (pid : Nat) :
    payOf b (x :: xs) pid =
      if x.pid == pid then { pid := pid, to := x.depositor, amount := x.amount, burned := b } :: payOf b xs pid
      else payOf b xs pid := by
  simp only [payOf, List.filter_cons]
  split <;> simp

/-- settling a proposal removes its records; what the removed records held is what the log says was paid -/
theorem recOf_split (b : Bool) (ds : List Deposit) (pid pid' : Nat) (a : Addr) (d : Denom) :
    recOf ds pid' a d = recOf (ds.filter (fun x => !(x.pid == pid))) pid' a d + paidTot (payOf b ds pid) pid' a d := by
  induction ds with
  | nil => simp [recOf, payOf, paidTot]
  | cons x xs ih =>
    rw [recOf_cons, payOf_cons, List.filter_cons, ih]
    by_cases h1 : x.pid == pid
    · have e1 := beq_iff_eq.mp h1
      simp only [h1, Bool.not_true, Bool.false_eq_true, if_false, if_true, paidTot_cons]
      rw [e1]; omega
    · have h1' : (x.pid == pid) = false := by simpa using h1
      simp only [h1', Bool.not_false, if_true, Bool.false_eq_true, if_false, recOf_cons]
      omega

theorem refundedTo_payOf_false (ds : List Deposit) (pid : Nat) (a : Addr) (d : Denom) :
    refundedTo (payOf false ds pid) a d =
      (((ds.filter (·.pid == pid)).filter (·.depositor == a)).map (fun x => Coins.amountOf x.amount d)).sum := by
  unfold payOf refundedTo
  induction ds.filter (·.pid == pid) with
  | nil => rfl
  | cons x xs ih =>
    simp only [List.map_cons, List.filter_cons, Bool.not_false, Bool.true_and] at ih ⊢
    by_cases h : x.depositor == a <;> simp [h, ih]

theorem refundedTo_payOf_true (ds : List Deposit) (pid : Nat) (a : Addr) (d : Denom) :
    refundedTo (payOf true ds pid) a d = 0 := by
  unfold payOf refundedTo
  induction ds.filter (·.pid == pid) with
  | nil => rfl
  | cons x xs ih => simpa [List.filter_cons] using ih

theorem burnedSum_payOf_false (ds : List Deposit) (pid : Nat) (d : Denom) : burnedSum (payOf false ds pid) d = 0 := by
  unfold payOf burnedSum
  induction ds.filter (·.pid == pid) with
  | nil => rfl
  | cons x xs ih => simpa [List.filter_cons] using ih

theorem burnedSum_payOf_true (ds : List Deposit) (pid : Nat) (d : Denom) :
    burnedSum (payOf true ds pid) d = depSum (ds.filter (·.pid == pid)) d := by
  unfold payOf burnedSum depSum
  induction ds.filter (·.pid == pid) with
  | nil => rfl
  | cons x xs ih => simp [List.filter_cons, ih]

theorem depSum_recAll (ds : List Deposit) (pid : Nat) (d : Denom) :
    depSum (ds.filter (·.pid == pid)) d = recAll ds pid d := rfl

/-! ## the refund loop and the module account -/

theorem refund_go_mod (e : Env) : ∀ (ds : List Deposit) (l l' : Ledger), refundDeposits.go e ds l = .ok l' →
    (∀ x ∈ ds, x.depositor ≠ e.modAddr) → ∀ d, l'.balOf e.modAddr d = l.balOf e.modAddr d - depSum ds d := by
  intro ds
  induction ds with
  | nil => intro l l' h _ d; simp only [refundDeposits.go] at h; injection h with h; subst h; simp [depSum]
  | cons x xs ih =>
    intro l l' h hf d
    unfold refundDeposits.go at h
    split at h
    · cases h
    · rename_i l1 hs
      rw [ih l1 l' h (fun y hy => hf y (List.mem_cons_of_mem _ hy)) d, Ledger.send_ok _ _ _ _ _ hs, Ledger.balOf_move,
        depSum_cons]
      have hm : (x.depositor == e.modAddr) = false := by simpa using hf x List.mem_cons_self
      simp only [hm, beq_self_eq_true, if_true, Bool.false_eq_true, if_false]
      omega

/-! ## how a sub-step of the end blocker moves coins, in terms of its log -/

/-- the ledger and the records move as the log says -/
structure Moves (m : Addr) (w : World) (L : List Pay) (w' : World) : Prop where
  /-- every account other than the module account receives exactly the refunds logged for it -/
  paid : ∀ a d, a ≠ m → w'.l.balOf a d = w.l.balOf a d + refundedTo L a d
  /-- the supply drops by exactly the logged burns -/
  supply : ∀ d, Coins.amountOf w'.l.supply d = Coins.amountOf w.l.supply d - burnedSum L d
  /-- what leaves the records of (proposal, depositor) is what the log says was refunded to, or burned for, them -/
  recs : ∀ pid a d, recOf w.g.deposits pid a d = recOf w'.g.deposits pid a d + paidTot L pid a d

theorem Moves.refl (m : Addr) (w : World) : Moves m w [] w :=
  ⟨fun _ _ _ => by simp, fun _ => by simp, fun _ _ _ => by simp⟩

theorem Moves.trans {m : Addr} {w w1 w2 : World} {L1 L2 : List Pay} (h1 : Moves m w L1 w1) (h2 : Moves m w1 L2 w2) :
    Moves m w (L1 ++ L2) w2 := by
  refine ⟨?_, ?_, ?_⟩
  · intro a d ha; rw [h2.paid a d ha, h1.paid a d ha, refundedTo_append]; omega
  · intro d; rw [h2.supply d, h1.supply d, burnedSum_append]; omega
  · intro pid a d; rw [h1.recs pid a d, h2.recs pid a d, paidTot_append]; omega

/-- a sub-step that pays nothing: ledger and records untouched, no live proposal ends -/
structure Kept (w w' : World) : Prop where
  l : w'.l = w.l
  deps : w'.g.deposits = w.g.deposits
  live : ∀ id, Live w.g id → Live w'.g id

theorem Kept.refl (w : World) : Kept w w := ⟨rfl, rfl, fun _ h => h⟩

theorem Kept.escrow {m : Addr} {w w' : World} (k : Kept w w') (h : EscrowInv m w) : EscrowInv m w' := by
  refine ⟨?_, ?_, ?_, ?_⟩
  · intro d; rw [k.l, k.deps]; exact h.held d
  · rw [k.deps]; intro x hx; exact k.live _ (h.live x hx)
  · rw [k.deps]; exact h.valid
  · rw [k.deps]; exact h.foreign

theorem Kept.moves (m : Addr) {w w' : World} (k : Kept w w') : Moves m w [] w' :=
  ⟨fun _ _ _ => by rw [k.l]; simp, fun _ => by rw [k.l]; simp, fun _ _ _ => by rw [k.deps]; simp⟩

/-- the total the veto branch burns -/
def burnTotal (ds : List Deposit) (pid : Nat) : Coins :=
  (ds.filter (·.pid == pid)).foldl (fun acc d => Coins.add acc d.amount) ([] : Coins)

theorem burnTotal_amount (ds : List Deposit) (pid : Nat) (d : Denom) :
    Coins.amountOf (burnTotal ds pid) d = depSum (ds.filter (·.pid == pid)) d := by
  unfold burnTotal; rw [foldl_add_amount]; simp

/-- a sub-step that settles proposal `pid`: all its records are deleted, and their amounts are refunded one by one to
    the depositors (`burned = false`) or burned in one go (`burned = true`); afterwards the proposal is gone or decided -/
structure Settled (e : Env) (w w' : World) (pid : Nat) (burned : Bool) : Prop where
  deps : w'.g.deposits = w.g.deposits.filter (fun d => !(d.pid == pid))
  others : ∀ id, id ≠ pid → findP w'.g id = findP w.g id
  refund : burned = false → refundDeposits.go e (w.g.deposits.filter (·.pid == pid)) w.l = .ok w'.l
  burn : burned = true → w'.l = w.l.burn e.modAddr (burnTotal w.g.deposits pid)
  ended : ¬ Live w'.g pid

theorem Settled.escrow {e : Env} {w w' : World} {pid : Nat} {b : Bool} (s : Settled e w w' pid b)
    (h : EscrowInv e.modAddr w) : EscrowInv e.modAddr w' := by
  have hsplit := depSum_split (·.pid == pid) w.g.deposits
  refine ⟨?_, ?_, ?_, ?_⟩
  · intro d
    rw [s.deps]
    cases b with
    | false =>
      have := refund_go_mod e _ _ _ (s.refund rfl) (fun x hx => h.foreign x (List.mem_filter.mp hx).1) d
      rw [this, h.held d, hsplit d]; omega
    | true =>
      rw [s.burn rfl]
      show (w.l.debit e.modAddr _).balOf e.modAddr d = _
      rw [Ledger.balOf_debit, burnTotal_amount, h.held d, hsplit d]
      simp only [beq_self_eq_true, if_true]; omega
  · rw [s.deps]
    intro x hx
    have hx' := List.mem_filter.mp hx
    have hne : x.pid ≠ pid := by simpa using hx'.2
    obtain ⟨p, hp, hs⟩ := h.live x hx'.1
    exact ⟨p, by rw [s.others _ hne]; exact hp, hs⟩
  · rw [s.deps]; intro x hx; exact h.valid x (List.mem_filter.mp hx).1
  · rw [s.deps]; intro x hx; exact h.foreign x (List.mem_filter.mp hx).1

theorem Settled.moves {e : Env} {w w' : World} {pid : Nat} {b : Bool} (s : Settled e w w' pid b) :
    Moves e.modAddr w (payOf b w.g.deposits pid) w' := by
  refine ⟨?_, ?_, ?_⟩
  · intro a d ha
    cases b with
    | false =>
      rw [Shentu.Props.C11.refund_go_bal e _ _ _ (s.refund rfl) a d ha, refundedTo_payOf_false]
    | true =>
      rw [s.burn rfl, refundedTo_payOf_true]
      show (w.l.debit e.modAddr _).balOf a d = _
      rw [Ledger.balOf_debit]
      have hm : (e.modAddr == a) = false := by simpa using Ne.symm ha
      simp [hm]
  · intro d
    cases b with
    | false =>
      rw [(Shentu.Props.C11.refund_go_supply e _ _ _ (s.refund rfl)).1, burnedSum_payOf_false]; omega
    | true =>
      rw [s.burn rfl, burnedSum_payOf_true]
      show Coins.amountOf (Coins.sub w.l.supply _) d = _
      rw [Coins.amountOf_sub, burnTotal_amount]
  · intro pid' a d
    rw [s.deps]; exact recOf_split b _ pid pid' a d

end Shentu.C11H
