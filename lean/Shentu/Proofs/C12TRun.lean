import Shentu.Proofs.C12TOps
/-
  Histories of submit / deposit / vote / end-block steps of the governance model (for `Shentu/Props/C12T.lean`).
-/
namespace Shentu.C12TH
open Shentu Shentu.Gov Shentu.Props.C12
set_option linter.unusedSimpArgs false
set_option linter.unusedVariables false

/-- the operations of the governance model; every operation comes with the environment (time, staking view) it runs in -/
inductive Op where
  | submit (e : Env) (proposer : Addr) (p0 : Proposal) (deposit : Coins)
  | deposit (e : Env) (pid : Nat) (depositor : Addr) (amt : Coins)
  | vote (pid : Nat) (voter : Addr) (option : Nat)
  | endBlock (e : Env)

/-- dispatch to the model's functions -/
def step (w : World) : Op → Except Err World
  | .submit e a p0 d => submit e w a p0 d
  | .deposit e pid a amt => addDeposit e w pid a amt
  | .vote pid a o => vote w pid a o
  | .endBlock e => endBlock e w

/-- a failing message is reverted (a failing end-blocker halts the chain): the state stays -/
def apply (w : World) (op : Op) : World :=
  match step w op with
  | .ok w' => w'
  | .error _ => w

def run (w : World) (ops : List Op) : World := ops.foldl apply w

theorem vote_adv (w w' : World) (pid : Nat) (a : Addr) (o : Nat) (h : vote w pid a o = .ok w') : WAdv w w' := by
  unfold vote at h
  split at h; · cases h
  split at h; · cases h
  split at h; · cases h
  split at h; · cases h
  split at h; · cases h
  split at h; · cases h
  cases h
  exact (WUpd.of_eq (w := w) (w' := { w with g := { w.g with votes := setVote pid a o w.g.votes } }) rfl rfl rfl 0).adv

theorem upd_with_deposits (g g2 : State) (ds : List Deposit) (id0 : Nat) (u : Upd g g2 id0) :
    Upd g { g2 with deposits := ds } id0 :=
  u.trans (Upd.of_eq (g := g2) (g' := { g2 with deposits := ds }) rfl rfl id0)

theorem addDeposit_upd (e : Env) (w w' : World) (pid : Nat) (a : Addr) (amt : Coins)
    (h : addDeposit e w pid a amt = .ok w') : WUpd w w' pid := by
  unfold addDeposit at h
  split at h
  · cases h
  · rename_i p hp
    have hid := (findP_some hp).1
    subst hid
    split at h
    · cases h
    · rename_i href
      have hst : p.status = 1 := by
        unfold Gen.Gov.depositRefused at href
        simp at href
        omega
      split at h
      · cases h
      · rename_i l' _
        dsimp only at h
        cases h
        -- the record with the deposit added
        have u1 : Upd w.g (setP w.g { p with totalDeposit := Coins.add p.totalDeposit amt }) p.id :=
          upd_setP w.g p { p with totalDeposit := Coins.add p.totalDeposit amt } hp
            (Nat.le_refl _) (fun h4 => by rw [hst] at h4; simp [rank] at h4)
        have hf1 : findP (setP w.g { p with totalDeposit := Coins.add p.totalDeposit amt })
            ({ p with totalDeposit := Coins.add p.totalDeposit amt } : Proposal).id =
            some { p with totalDeposit := Coins.add p.totalDeposit amt } := by
          rw [findP_setP]; simp
        constructor
        · refine upd_with_deposits _ _ _ _ ?_
          split
          · exact u1.trans (upd_activate e _ _ hf1 (Or.inl hst))
          · exact u1
        · exact Or.inl rfl

theorem find_append_new (l : List Proposal) (p : Proposal) (id : Nat) (h : ∀ x ∈ l, x.id ≠ p.id) :
    (l ++ [p]).find? (·.id == id) = if p.id == id then (match l.find? (·.id == id) with | some x => some x | none => some p)
      else l.find? (·.id == id) := by
  rw [List.find?_append]
  cases hf : l.find? (·.id == id) with
  | some x => by_cases hp : (p.id == id) = true <;> simp [hp]
  | none => by_cases hp : (p.id == id) = true <;> simp [hp]

/-- storing a new proposal under the next id -/
theorem submit_store (g : State) (wf : GovWF g) (p : Proposal) (hp : p.id = g.nextId) :
    GovWF { (setP g p) with nextId := g.nextId + 1 } ∧ Fwd g { (setP g p) with nextId := g.nextId + 1 } ∧
    findP { (setP g p) with nextId := g.nextId + 1 } p.id = some p := by
  have hnew : findP g p.id = none := by
    cases hf : findP g p.id with
    | none => rfl
    | some q =>
      have ⟨h1, h2⟩ := findP_some hf
      have := wf.2 q h2
      omega
  have hset : (setP g p).proposals = g.proposals ++ [p] := by
    unfold setP
    rw [hnew]; rfl
  have hfind : ∀ id, findP { (setP g p) with nextId := g.nextId + 1 } id = findP (setP g p) id := fun _ => rfl
  refine ⟨?_, ?_, ?_⟩
  · constructor
    · show ((setP g p).proposals.map (·.id)).Nodup
      rw [hset, List.map_append, List.nodup_append]
      refine ⟨wf.1, by simp, ?_⟩
      intro a ha b hb
      obtain ⟨x, hx, hxa⟩ := List.mem_map.mp ha
      simp only [List.map_cons, List.map_nil, List.mem_singleton] at hb
      have := wf.2 x hx
      omega
    · intro x hx
      show x.id < g.nextId + 1
      have hx' : x ∈ (setP g p).proposals := hx
      rw [hset] at hx'
      rcases List.mem_append.mp hx' with h | h
      · have := wf.2 x h; omega
      · simp only [List.mem_singleton] at h; rw [h, hp]; omega
  · intro id q hq
    rw [hfind, findP_setP]
    have ⟨h1, h2⟩ := findP_some hq
    have := wf.2 q h2
    have hne : (p.id == id) = false := by
      have : p.id ≠ id := by omega
      simpa using this
    rw [hne]; simp only [Bool.false_eq_true, if_false]
    rw [hq]; exact ⟨Nat.le_refl _, fun _ => rfl⟩
  · rw [hfind, findP_setP]; simp

theorem submit_adv (e : Env) (w w' : World) (a : Addr) (p0 : Proposal) (d : Coins) (wf : GovWF w.g)
    (h : submit e w a p0 d = .ok w') : WAdv w w' := by
  unfold submit at h
  extract_lets council p src g1 at h
  split at h; · cases h
  split at h; · cases h
  split at h; · cases h
  split at h
  · cases h
  · have hpid : p.id = w.g.nextId := rfl
    have hpst : p.status = 1 := rfl
    have ⟨s1, s2, s3⟩ := submit_store w.g wf p hpid
    have a0 : WAdv w { w with g := g1 } := ⟨fun _ => s1, s2, Or.inl rfl, Nat.le_succ _⟩
    split at h
    · cases h
      have u : WUpd { w with g := g1 } { w with g := activateVotingPeriod e g1 p } p.id :=
        ⟨upd_activate e _ p s3 (Or.inl hpst), Or.inl rfl⟩
      exact a0.trans u.adv
    · exact a0.trans (addDeposit_upd e _ w' p.id a d h).adv

theorem step_adv (w w' : World) (op : Op) (wf : GovWF w.g) (h : step w op = .ok w') : WAdv w w' := by
  cases op with
  | submit e a p0 d => exact submit_adv e w w' a p0 d wf h
  | deposit e pid a amt => exact (addDeposit_upd e w w' pid a amt h).adv
  | vote pid a o => exact vote_adv w w' pid a o h
  | endBlock e => exact endBlock_adv e w w' wf h

theorem apply_adv (w : World) (op : Op) (wf : GovWF w.g) : WAdv w (apply w op) := by
  unfold apply
  cases h : step w op with
  | ok w' => exact step_adv w w' op wf h
  | error x => exact WAdv.refl w

theorem run_adv (ops : List Op) : ∀ (w : World), GovWF w.g → WAdv w (run w ops) := by
  induction ops with
  | nil => intro w _; exact WAdv.refl w
  | cons op ops ih =>
    intro w wf
    have a1 := apply_adv w op wf
    exact a1.trans (ih (apply w op) (a1.wf wf))

theorem run_append (w : World) (ops₁ ops₂ : List Op) : run w (ops₁ ++ ops₂) = run (run w ops₁) ops₂ := by
  simp [run, List.foldl_append]

end Shentu.C12TH
