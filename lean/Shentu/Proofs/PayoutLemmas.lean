import Shentu.Model.Payout
import Mathlib.Tactic.Ring
import Mathlib.Tactic.Linarith
import Mathlib.Tactic.NormNum
import Mathlib.Data.List.Forall2
/-
  Helper lemmas for `Shentu/Props/C04b.lean` (the arithmetic of a claim payout out of a provider's stake).
-/
namespace Shentu.Payout
open Shentu

/-! ## sums -/

theorem foldl_add (l : List Int) (a : Int) : l.foldl (· + ·) a = a + l.foldl (· + ·) 0 := by
  induction l generalizing a with
  | nil => simp
  | cons x xs ih =>
    simp only [List.foldl_cons]
    rw [ih (a + x), ih (0 + x)]; omega

@[simp] theorem sum_nil : sum [] = 0 := rfl

theorem sum_cons (x : Int) (xs : List Int) : sum (x :: xs) = x + sum xs := by
  unfold sum
  rw [List.foldl_cons, foldl_add]; omega

theorem sum_nonneg (l : List Int) (h : ∀ d ∈ l, 0 ≤ d) : 0 ≤ sum l := by
  induction l with
  | nil => simp
  | cons x xs ih =>
    rw [sum_cons]
    have h1 := h x (by simp)
    have h2 := ih (fun d hd => h d (by simp [hd]))
    omega

theorem bondedOf_eq (ds : List Del) : bondedOf ds = sum (ds.map Del.amount) := rfl

/-! ## rounding -/

/-- half-even rounding of a non-negative value moves it by at most half a unit -/
theorem chopRound_bounds (z : Int) (hz : 0 ≤ z) :
    2 * z - Dec.prec ≤ 2 * (Dec.chopRound z * Dec.prec) ∧ 2 * (Dec.chopRound z * Dec.prec) ≤ 2 * z + Dec.prec := by
  unfold Dec.chopRound Dec.chopRoundNonneg
  rw [if_neg (by omega)]
  simp only [Int.tdiv_eq_ediv_of_nonneg hz, Int.tmod_eq_emod_of_nonneg hz, Dec.prec, Dec.half, beq_iff_eq]
  split_ifs <;> omega

/-- … and when it moves it down by exactly half a unit, the result is even -/
theorem chopRound_half_even (z : Int) (hz : 0 ≤ z)
    (h : 2 * (Dec.chopRound z * Dec.prec) = 2 * z - Dec.prec) : Dec.chopRound z % 2 = 0 := by
  revert h
  unfold Dec.chopRound Dec.chopRoundNonneg
  rw [if_neg (by omega)]
  have hq : 0 ≤ z / 1000000000000000000 := by omega
  simp only [Int.tdiv_eq_ediv_of_nonneg hz, Int.tmod_eq_emod_of_nonneg hz, Dec.prec, Dec.half, beq_iff_eq,
    Int.tmod_eq_emod_of_nonneg hq]
  split_ifs <;> omega

theorem chopRoundUp_bounds (z : Int) (hz : 0 ≤ z) :
    z ≤ Dec.chopRoundUp z * Dec.prec ∧ Dec.chopRoundUp z * Dec.prec < z + Dec.prec := by
  unfold Dec.chopRoundUp Dec.chopRoundUpNonneg
  rw [if_neg (by omega)]
  simp only [Int.tdiv_eq_ediv_of_nonneg hz, Int.tmod_eq_emod_of_nonneg hz, Dec.prec, beq_iff_eq]
  split_ifs <;> omega

/-! ## shares rounded up, and the tokens the validator issues for them -/

/-- the tokens a validator with `K` tokens and `S` (raw) shares issues for `x` (raw) shares -/
def tk (K S x : Int) : Int := Int.tdiv (Dec.chopRound (Int.tdiv (x * K * Dec.prec * Dec.prec) S)) Dec.prec

theorem amount_eq (d : Del) : d.amount = tk d.vtokens d.vshares.raw d.shares.raw := rfl

theorem issued_eq (d : Del) (sh : Dec) :
    issued d sh = if d.vshares.raw - sh.raw == 0 then d.vtokens else tk d.vtokens d.vshares.raw sh.raw := rfl

theorem prec_pos : (0 : Int) < Dec.prec := by decide

theorem tk_upper (K S x a : Int) (hK : 0 < K) (hKS : K * Dec.prec ≤ 2 * S) (hx : 0 ≤ x)
    (h : x * Dec.prec * K < S * a * Dec.prec + Dec.prec * K) : tk K S x ≤ a := by
  have hP := prec_pos
  have hS : 0 < S := by nlinarith
  have hn : 0 ≤ x * K * Dec.prec * Dec.prec := by have := hP.le; have := hK.le; positivity
  unfold tk
  rw [Int.tdiv_eq_ediv_of_nonneg hn]
  have hz0 : 0 ≤ x * K * Dec.prec * Dec.prec / S := Int.ediv_nonneg hn hS.le
  have hz : x * K * Dec.prec * Dec.prec / S < (a * Dec.prec + 2) * Dec.prec := by
    rw [Int.ediv_lt_iff_lt_mul hS]
    nlinarith [mul_lt_mul_of_pos_right h hP, mul_le_mul_of_nonneg_right hKS hP.le]
  obtain ⟨hc1, hc2⟩ := chopRound_bounds _ hz0
  generalize Dec.chopRound _ = c at *
  generalize x * K * Dec.prec * Dec.prec / S = z at *
  simp only [Dec.prec] at hc1 hc2 hz ⊢
  have hc0 : 0 ≤ c := by omega
  rw [Int.tdiv_eq_ediv_of_nonneg hc0]
  omega

theorem tk_lower (K S x a : Int) (hK : 0 < K) (hKS : K * Dec.prec ≤ 2 * S) (hx : 0 ≤ x)
    (h : S * a * Dec.prec < x * Dec.prec * K + K) : a ≤ tk K S x := by
  have hP := prec_pos
  have hS : 0 < S := by nlinarith
  have hn : 0 ≤ x * K * Dec.prec * Dec.prec := by have := hP.le; have := hK.le; positivity
  unfold tk
  rw [Int.tdiv_eq_ediv_of_nonneg hn]
  have hz0 : 0 ≤ x * K * Dec.prec * Dec.prec / S := Int.ediv_nonneg hn hS.le
  have hz : a * Dec.prec * Dec.prec - 2 ≤ x * K * Dec.prec * Dec.prec / S := by
    rw [Int.le_ediv_iff_mul_le hS]
    have h' : S * a * Dec.prec + 1 ≤ x * Dec.prec * K + K := h
    nlinarith [mul_le_mul_of_nonneg_right h' hP.le, mul_le_mul_of_nonneg_right hKS hP.le]
  obtain ⟨hc1, hc2⟩ := chopRound_bounds _ hz0
  generalize Dec.chopRound _ = c at *
  generalize x * K * Dec.prec * Dec.prec / S = z at *
  simp only [Dec.prec] at hc1 hc2 hz ⊢
  have hc0 : 0 ≤ c := by omega
  rw [Int.tdiv_eq_ediv_of_nonneg hc0]
  omega

/-- `shares_exact` with the well-formedness of the delegation spelled out -/
theorem shares_core (d : Del) (hK : 0 < d.vtokens) (hKS : d.vtokens * Dec.prec ≤ 2 * d.vshares.raw)
    (hs0 : 0 ≤ d.shares.raw) (hsS : d.shares.raw ≤ d.vshares.raw) (a : Int) (ha : 0 ≤ a) (had : a ≤ d.amount) :
    issued d (ubdShares d a) = a := by
  have hP := prec_pos
  obtain ⟨s, K, S⟩ := d
  obtain ⟨s⟩ := s
  obtain ⟨S⟩ := S
  simp only at hK hKS hs0 hsS
  rw [amount_eq] at had
  simp only at had
  have hS : 0 < S := by nlinarith
  -- the shares asked for
  have hn : 0 ≤ S * a * Dec.prec * Dec.prec := by have := hP.le; have := hS.le; positivity
  have hKP : 0 < K * Dec.prec := Int.mul_pos hK hP
  have hw0 : 0 ≤ S * a * Dec.prec * Dec.prec / (K * Dec.prec) := Int.ediv_nonneg hn hKP.le
  have hw1 := Int.ediv_mul_le (S * a * Dec.prec * Dec.prec) (Int.ne_of_gt hKP)
  have hw2 := Int.lt_ediv_add_one_mul_self (S * a * Dec.prec * Dec.prec) hKP
  obtain ⟨hx1, hx2⟩ := chopRoundUp_bounds _ hw0
  have hub : ubdShares ⟨⟨s⟩, K, ⟨S⟩⟩ a =
      if Dec.chopRoundUp (S * a * Dec.prec * Dec.prec / (K * Dec.prec)) > s then ⟨s⟩
      else ⟨Dec.chopRoundUp (S * a * Dec.prec * Dec.prec / (K * Dec.prec))⟩ := by
    unfold ubdShares Dec.quoRoundUp Dec.mulInt Dec.ofInt
    simp only [Int.tdiv_eq_ediv_of_nonneg hn]
  rw [hub, issued_eq]
  generalize Dec.chopRoundUp _ = x0 at *
  generalize S * a * Dec.prec * Dec.prec / (K * Dec.prec) = w at *
  -- w·K ≤ S·a·P < (w+1)·K
  have hwK1 : w * K ≤ S * a * Dec.prec := by
    have : w * K * Dec.prec ≤ S * a * Dec.prec * Dec.prec := by nlinarith
    exact le_of_mul_le_mul_right this hP
  have hwK2 : S * a * Dec.prec < (w + 1) * K := by
    have : S * a * Dec.prec * Dec.prec < (w + 1) * K * Dec.prec := by nlinarith
    exact lt_of_mul_lt_mul_right this hP.le
  have hx0 : 0 ≤ x0 := by
    simp only [Dec.prec] at hx1 hx2; omega
  have hlow0 : S * a * Dec.prec < x0 * Dec.prec * K + K := by nlinarith
  have hup0 : x0 * Dec.prec * K < S * a * Dec.prec + Dec.prec * K := by nlinarith
  -- the whole validator
  have hKtk : K ≤ tk K S S := tk_lower K S S K hK hKS hS.le (by nlinarith)
  have htkK : tk K S s ≤ K := tk_upper K S s K hK hKS hs0 (by nlinarith)
  by_cases hcap : x0 > s
  · rw [if_pos hcap]
    simp only
    have hup : tk K S s ≤ a := tk_upper K S s a hK hKS hs0 (by nlinarith)
    split
    · rename_i h0
      have : s = S := by simp at h0; omega
      subst this
      omega
    · omega
  · rw [if_neg hcap]
    simp only
    have hup : tk K S x0 ≤ a := tk_upper K S x0 a hK hKS hx0 hup0
    have hlow : a ≤ tk K S x0 := tk_lower K S x0 a hK hKS hx0 hlow0
    split
    · rename_i h0
      have : x0 = S := by simp at h0; omega
      subst this
      have : s = x0 := by omega
      subst this
      omega
    · omega

/-! ## the split and the walk over the unbonding entries -/

theorem split_core (bonded purchased payout : Int) (hq : 0 ≤ payout) :
    (split bonded purchased payout).1 = min payout (max (bonded - purchased) 0) ∧
    (split bonded purchased payout).2 = max (purchased - bonded) 0 := by
  unfold split
  split_ifs <;> simp only <;> omega

theorem ubdLoop_core (bs : List Int) (hb : ∀ b ∈ bs, 0 ≤ b) (u q : Int) (hu : 0 ≤ u) (hq : 0 ≤ q) :
    sum (ubdLoop bs u q).1 + (ubdLoop bs u q).2 = q ∧
    (ubdLoop bs u q).2 = max (q - max (sum bs - u) 0) 0 ∧
    List.Forall₂ (fun t b => 0 ≤ t ∧ t ≤ b) (ubdLoop bs u q).1 (bs.take (ubdLoop bs u q).1.length) := by
  induction bs generalizing u q with
  | nil =>
    simp only [ubdLoop, sum_nil, List.length_nil, List.take_nil]
    exact ⟨by omega, by omega, List.Forall₂.nil⟩
  | cons b bs ih =>
    have hb0 : 0 ≤ b := hb b (by simp)
    have hbs : ∀ x ∈ bs, 0 ≤ x := fun x hx => hb x (by simp [hx])
    have hsum := sum_nonneg bs hbs
    unfold ubdLoop
    by_cases hq0 : q ≤ 0
    · rw [if_pos hq0]
      simp only [sum_nil, List.length_nil, List.take_zero]
      exact ⟨by omega, by omega, List.Forall₂.nil⟩
    · rw [if_neg hq0]
      simp only [beq_iff_eq]
      by_cases hrem : max (b - u) 0 = 0
      · rw [if_pos hrem]
        obtain ⟨h1, h2, h3⟩ := ih hbs (max (u - b) 0) q (by omega) hq
        simp only [sum_cons, List.length_cons, List.take_succ_cons]
        refine ⟨by omega, ?_, List.Forall₂.cons ⟨by omega, hb0⟩ h3⟩
        rw [h2]; omega
      · rw [if_neg hrem]
        obtain ⟨h1, h2, h3⟩ := ih hbs (max (u - b) 0) (q - min q (max (b - u) 0)) (by omega) (by omega)
        simp only [sum_cons, List.length_cons, List.take_succ_cons]
        refine ⟨by omega, ?_, List.Forall₂.cons ⟨by omega, by omega⟩ h3⟩
        rw [h2]; omega

/-! ## the pro-rata loop -/

/-- the ratio `p / T` of `PayFromDelegation`: at most one, and `T` times it falls short of `p` by at most one unit
    (half a unit from the rounding to 18 digits times `T < 2`, where the half-even rule decides the boundary) -/
theorem ratio_facts (p T : Int) (hp : 0 < p) (hpT : p ≤ T) (hbig : T < 2 * Dec.prec) :
    0 ≤ (Dec.quo (Dec.ofInt p) (Dec.ofInt T)).raw ∧ (Dec.quo (Dec.ofInt p) (Dec.ofInt T)).raw ≤ Dec.prec ∧
    p * Dec.prec - (Dec.quo (Dec.ofInt p) (Dec.ofInt T)).raw * T ≤ Dec.prec := by
  have hP := prec_pos
  have hT : 0 < T := by omega
  have hn : 0 ≤ p * Dec.prec * Dec.prec * Dec.prec := by have := hP.le; have := hp.le; positivity
  have hTP : 0 < T * Dec.prec := Int.mul_pos hT hP
  have hq : (Dec.quo (Dec.ofInt p) (Dec.ofInt T)).raw =
      Dec.chopRound (p * Dec.prec * Dec.prec * Dec.prec / (T * Dec.prec)) := by
    unfold Dec.quo Dec.ofInt
    simp only [Int.tdiv_eq_ediv_of_nonneg hn]
  rw [hq]
  have hz0 : 0 ≤ p * Dec.prec * Dec.prec * Dec.prec / (T * Dec.prec) := Int.ediv_nonneg hn hTP.le
  have hz1 := Int.ediv_mul_le (p * Dec.prec * Dec.prec * Dec.prec) (Int.ne_of_gt hTP)
  have hz2 := Int.lt_ediv_add_one_mul_self (p * Dec.prec * Dec.prec * Dec.prec) hTP
  obtain ⟨hc1, hc2⟩ := chopRound_bounds _ hz0
  have hev := chopRound_half_even _ hz0
  generalize Dec.chopRound _ = c at *
  generalize p * Dec.prec * Dec.prec * Dec.prec / (T * Dec.prec) = z at *
  have hz1' : z * T ≤ p * Dec.prec * Dec.prec := by
    have : z * T * Dec.prec ≤ p * Dec.prec * Dec.prec * Dec.prec := by nlinarith
    exact le_of_mul_le_mul_right this hP
  have hz2' : p * Dec.prec * Dec.prec < z * T + T := by
    have : p * Dec.prec * Dec.prec * Dec.prec < (z * T + T) * Dec.prec := by nlinarith
    exact lt_of_mul_lt_mul_right this hP.le
  have hzPP : z ≤ Dec.prec * Dec.prec := by
    have : z * T ≤ Dec.prec * Dec.prec * T := by nlinarith
    exact le_of_mul_le_mul_right this hT
  have hmul : (2 * z - Dec.prec) * T ≤ 2 * (c * Dec.prec) * T := mul_le_mul_of_nonneg_right hc1 hT.le
  have hmul' : 2 * (z * T) - Dec.prec * T ≤ 2 * Dec.prec * (c * T) := by nlinarith
  clear hz1 hz2 hmul hn hTP hq
  simp only [Dec.prec] at *
  refine ⟨by omega, by omega, ?_⟩
  by_cases hT2 : T ≤ 2 * 1000000000000000000 - 2
  · generalize z * T = X at *
    generalize c * T = Y at *
    omega
  · have hTe : T = 2 * 1000000000000000000 - 1 := by omega
    subst hTe
    by_contra hcon
    have h1 : 2 * (c * 1000000000000000000) = 2 * z - 1000000000000000000 := by omega
    have h2 := hev h1
    omega

/-- the loop, under the invariant that what remains is covered by the ratio's share of the delegations not yet visited
    up to less than one unit (or up to exactly one unit while only empty delegations have been visited) -/
theorem amounts_core (R : Int) (hR0 : 0 ≤ R) (hRP : R ≤ Dec.prec) :
    ∀ (l : List Int) (rem : Int), (∀ d ∈ l, 0 ≤ d) → 0 ≤ rem → l ≠ [] →
      (rem * Dec.prec ≤ R * sum l + (Dec.prec - 1) ∨
        (rem * Dec.prec ≤ R * sum l + Dec.prec ∧ rem ≤ sum l ∧ R < Dec.prec)) →
      sum (amounts ⟨R⟩ l rem) = rem ∧
      List.Forall₂ (fun a d => 0 ≤ a ∧ a ≤ d) (amounts ⟨R⟩ l rem) (l.take (amounts ⟨R⟩ l rem).length) := by
  intro l
  induction l with
  | nil => intro rem _ _ h; exact absurd rfl h
  | cons d tl ih =>
    intro rem hl hrem _ hinv
    have hd : 0 ≤ d := hl d (by simp)
    have htl : ∀ x ∈ tl, 0 ≤ x := fun x hx => hl x (by simp [hx])
    have hRd : R * d ≤ Dec.prec * d := mul_le_mul_of_nonneg_right hRP hd
    have hRd0 : 0 ≤ R * d := Int.mul_nonneg hR0 hd
    cases tl with
    | nil =>
      rw [sum_cons, sum_nil, Int.add_zero] at hinv
      unfold amounts
      by_cases h0 : rem ≤ 0
      · rw [if_pos h0]
        simp only [sum_nil, List.length_nil, List.take_zero]
        exact ⟨by omega, List.Forall₂.nil⟩
      · rw [if_neg h0]
        simp only [sum_cons, sum_nil, List.length_cons, List.length_nil, List.take_succ_cons, List.take_zero]
        refine ⟨by omega, List.Forall₂.cons ⟨by omega, ?_⟩ List.Forall₂.nil⟩
        simp only [Dec.prec] at hinv hRd
        omega
    | cons d2 ds =>
      have hS := sum_nonneg (d2 :: ds) htl
      have hRS : 0 ≤ R * sum (d2 :: ds) := Int.mul_nonneg hR0 hS
      rw [sum_cons d, Int.mul_add] at hinv
      rw [amounts]
      by_cases h0 : rem ≤ 0
      · rw [if_pos h0]
        simp only [sum_nil, List.length_nil, List.take_zero]
        exact ⟨by omega, List.Forall₂.nil⟩
      · rw [if_neg h0]
        have hstrict : d = 0 ∨ Dec.prec ≤ R ∨ R * d + 1 ≤ Dec.prec * d := by
          by_cases h1 : d = 0
          · exact Or.inl h1
          · by_cases h2 : Dec.prec ≤ R
            · exact Or.inr (Or.inl h2)
            · have hdpos : 0 < d := by omega
              have : R * d < Dec.prec * d := mul_lt_mul_of_pos_right (by omega) hdpos
              exact Or.inr (Or.inr (by omega))
        have hf : Dec.truncateInt (Dec.mulInt ⟨R⟩ d) = R * d / Dec.prec := by
          unfold Dec.truncateInt Dec.mulInt
          simp only [Int.tdiv_eq_ediv_of_nonneg hRd0]
        simp only [hf]
        generalize hu : (if (min (R * d / Dec.prec) rem < rem && min (R * d / Dec.prec) rem < d) = true
          then min (R * d / Dec.prec) rem + 1 else min (R * d / Dec.prec) rem) = u
        simp only [Bool.and_eq_true, decide_eq_true_eq] at hu
        generalize hRSe : R * sum (d2 :: ds) = RS at hinv hRS
        generalize hRde : R * d = Rd at hinv hRd hRd0 hstrict hu
        simp only [Dec.prec] at hinv hRd hstrict hu hRP
        have hu0 : 0 ≤ u := by split_ifs at hu <;> omega
        have hud : u ≤ d := by split_ifs at hu <;> omega
        have hur : u ≤ rem := by split_ifs at hu <;> omega
        have hnext : (rem - u) * Dec.prec ≤ RS + (Dec.prec - 1) ∨
            ((rem - u) * Dec.prec ≤ RS + Dec.prec ∧ rem - u ≤ sum (d2 :: ds) ∧ R < Dec.prec) := by
          simp only [Dec.prec]
          split_ifs at hu <;> omega
        rw [← hRSe] at hnext
        obtain ⟨ih1, ih2⟩ := ih (rem - u) htl (by omega) (by simp) hnext
        simp only [sum_cons, List.length_cons, List.take_succ_cons]
        refine ⟨by omega, List.Forall₂.cons ⟨hu0, hud⟩ ?_⟩
        simpa only [List.length_cons, List.take_succ_cons] using ih2

theorem amounts_exact_core (p : Int) (ds : List Int) (hd : ∀ d ∈ ds, 0 ≤ d) (hp : 0 < p) (hpT : p ≤ sum ds)
    (hbig : sum ds < 2 * Dec.prec) :
    sum (amounts (Dec.quo (Dec.ofInt p) (Dec.ofInt (sum ds))) ds p) = p ∧
    List.Forall₂ (fun a d => 0 ≤ a ∧ a ≤ d) (amounts (Dec.quo (Dec.ofInt p) (Dec.ofInt (sum ds))) ds p)
      (ds.take (amounts (Dec.quo (Dec.ofInt p) (Dec.ofInt (sum ds))) ds p).length) := by
  obtain ⟨hR0, hRP, he⟩ := ratio_facts p (sum ds) hp hpT hbig
  have hne : ds ≠ [] := by
    intro h; subst h; simp only [sum_nil] at hpT; omega
  have heta : Dec.quo (Dec.ofInt p) (Dec.ofInt (sum ds)) = ⟨(Dec.quo (Dec.ofInt p) (Dec.ofInt (sum ds))).raw⟩ := rfl
  rw [heta]
  generalize (Dec.quo (Dec.ofInt p) (Dec.ofInt (sum ds))).raw = R at *
  apply amounts_core R hR0 hRP ds p hd hp.le hne
  rcases Int.lt_or_le R Dec.prec with hlt | hge
  · by_cases h1 : p * Dec.prec - R * sum ds ≤ Dec.prec - 1
    · left; omega
    · right; exact ⟨by omega, hpT, hlt⟩
  · have : R = Dec.prec := by omega
    subst this
    left
    have := prec_pos
    nlinarith

/-! ## the payout -/

theorem amount_nonneg (d : Del) (hK : 0 < d.vtokens) (hKS : d.vtokens * Dec.prec ≤ 2 * d.vshares.raw)
    (hs0 : 0 ≤ d.shares.raw) : 0 ≤ d.amount := by
  rw [amount_eq]
  apply tk_lower _ _ _ _ hK hKS hs0
  have := prec_pos
  have : 0 ≤ d.shares.raw * Dec.prec * d.vtokens := by have := hK.le; positivity
  omega

/-- each amount of the loop, turned into shares and back into tokens by the validator, arrives unchanged -/
theorem zip_issued (ds : List Del)
    (hwf : ∀ d ∈ ds, 0 < d.vtokens ∧ d.vtokens * Dec.prec ≤ 2 * d.vshares.raw ∧ 0 ≤ d.shares.raw ∧
      d.shares.raw ≤ d.vshares.raw) :
    ∀ amts : List Int, List.Forall₂ (fun a d => 0 ≤ a ∧ a ≤ d) amts ((ds.map Del.amount).take amts.length) →
      List.zipWith (fun d a => issued d (ubdShares d a)) ds amts = amts ∧
      List.Forall₂ (fun a d => 0 ≤ a ∧ a ≤ Del.amount d) amts (ds.take amts.length) := by
  induction ds with
  | nil =>
    intro amts h
    cases amts with
    | nil => exact ⟨rfl, List.Forall₂.nil⟩
    | cons a as => simp at h
  | cons d ds ih =>
    intro amts h
    cases amts with
    | nil => exact ⟨by simp, by simp⟩
    | cons a as =>
      simp only [List.map_cons, List.length_cons, List.take_succ_cons, List.forall₂_cons] at h
      obtain ⟨⟨ha0, had⟩, hrest⟩ := h
      obtain ⟨hK, hKS, hs0, hsS⟩ := hwf d (by simp)
      obtain ⟨ih1, ih2⟩ := ih (fun x hx => hwf x (by simp [hx])) as hrest
      simp only [List.zipWith_cons_cons, List.length_cons, List.take_succ_cons, List.forall₂_cons]
      refine ⟨?_, ⟨ha0, had⟩, ih2⟩
      rw [shares_core d hK hKS hs0 hsS a ha0 had, ih1]

theorem amounts_nonneg (ds : List Del)
    (hwf : ∀ d ∈ ds, 0 < d.vtokens ∧ d.vtokens * Dec.prec ≤ 2 * d.vshares.raw ∧ 0 ≤ d.shares.raw ∧
      d.shares.raw ≤ d.vshares.raw) : ∀ x ∈ ds.map Del.amount, 0 ≤ x := by
  intro x hx
  obtain ⟨d, hd, rfl⟩ := List.mem_map.mp hx
  obtain ⟨hK, hKS, hs0, _⟩ := hwf d hd
  exact amount_nonneg d hK hKS hs0

theorem payFromDelegation_core (ds : List Del)
    (hwf : ∀ d ∈ ds, 0 < d.vtokens ∧ d.vtokens * Dec.prec ≤ 2 * d.vshares.raw ∧ 0 ≤ d.shares.raw ∧
      d.shares.raw ≤ d.vshares.raw)
    (hbig : bondedOf ds < 2 * Dec.prec) (fd : Int) (hfd : 0 < fd) (hfdB : fd ≤ bondedOf ds) :
    sum (payFromDelegation (bondedOf ds) ds fd) = fd ∧
    List.Forall₂ (fun a d => 0 ≤ a ∧ a ≤ Del.amount d) (payFromDelegation (bondedOf ds) ds fd)
      (ds.take (payFromDelegation (bondedOf ds) ds fd).length) := by
  have hnn := amounts_nonneg ds hwf
  rw [bondedOf_eq] at hbig hfdB
  obtain ⟨h1, h2⟩ := amounts_exact_core fd (ds.map Del.amount) hnn hfd hfdB hbig
  obtain ⟨h3, h4⟩ := zip_issued ds hwf _ h2
  unfold payFromDelegation
  simp only [bondedOf_eq]
  rw [h3]
  exact ⟨h1, h4⟩

/-- `makePayout_exact` with the well-formedness of the delegations spelled out -/
theorem makePayout_core (ds : List Del) (ubds : List Int) (purchased payout : Int)
    (hwf : ∀ d ∈ ds, 0 < d.vtokens ∧ d.vtokens * Dec.prec ≤ 2 * d.vshares.raw ∧ 0 ≤ d.shares.raw ∧
      d.shares.raw ≤ d.vshares.raw)
    (hu : ∀ b ∈ ubds, 0 ≤ b) (hp : 0 ≤ purchased) (hq : 0 < payout)
    (hback : purchased + payout ≤ bondedOf ds + sum ubds) (hbig : bondedOf ds < 2 * Dec.prec) :
    ∃ pd pu, makePayout (bondedOf ds) purchased payout ds ubds = .ok (pd, pu) ∧ sum pd + sum pu = payout ∧
      List.Forall₂ (fun a d => 0 ≤ a ∧ a ≤ Del.amount d) pd (ds.take pd.length) ∧
      List.Forall₂ (fun t b => 0 ≤ t ∧ t ≤ b) pu (ubds.take pu.length) := by
  obtain ⟨hs1, hs2⟩ := split_core (bondedOf ds) purchased payout hq.le
  have hdel : ∀ fd : Int, 0 ≤ fd → fd ≤ bondedOf ds →
      sum (if fd > 0 then payFromDelegation (bondedOf ds) ds fd else []) = fd ∧
      List.Forall₂ (fun a d => 0 ≤ a ∧ a ≤ Del.amount d)
        (if fd > 0 then payFromDelegation (bondedOf ds) ds fd else [])
        (ds.take (if fd > 0 then payFromDelegation (bondedOf ds) ds fd else []).length) := by
    intro fd h0 hB
    by_cases hpos : fd > 0
    · simp only [if_pos hpos]
      exact payFromDelegation_core ds hwf hbig fd hpos hB
    · simp only [if_neg hpos, sum_nil, List.length_nil, List.take_zero]
      exact ⟨by omega, List.Forall₂.nil⟩
  have hB0 : 0 ≤ bondedOf ds := sum_nonneg _ (amounts_nonneg ds hwf)
  unfold makePayout
  simp only [hs1, hs2]
  generalize hfd : min payout (max (bondedOf ds - purchased) 0) = fd
  obtain ⟨hd1, hd2⟩ := hdel fd (by omega) (by omega)
  generalize (if fd > 0 then payFromDelegation (bondedOf ds) ds fd else []) = pd at hd1 hd2 ⊢
  by_cases hfrom : payout - fd = 0
  · simp only [hfrom, beq_self_eq_true, if_true]
    exact ⟨pd, [], rfl, by simp only [sum_nil]; omega, hd2, List.Forall₂.nil⟩
  · have hsum := sum_nonneg ubds hu
    obtain ⟨h1, h2, h3⟩ := ubdLoop_core ubds hu (max (purchased - bondedOf ds) 0) (payout - fd) (by omega) (by omega)
    have hr0 : (ubdLoop ubds (max (purchased - bondedOf ds) 0) (payout - fd)).2 = 0 := by rw [h2]; omega
    simp only [beq_iff_eq, hfrom, if_false, hr0, bne_self_eq_false, Bool.false_eq_true]
    exact ⟨pd, _, rfl, by omega, hd2, h3⟩

theorem makePayout_uncovered_core (ds : List Del) (ubds : List Int) (purchased payout : Int)
    (hu : ∀ b ∈ ubds, 0 ≤ b) (hq : 0 < payout)
    (hback : bondedOf ds + sum ubds < purchased + payout) :
    ∃ msg, makePayout (bondedOf ds) purchased payout ds ubds = .error msg := by
  obtain ⟨hs1, hs2⟩ := split_core (bondedOf ds) purchased payout hq.le
  have hsum := sum_nonneg ubds hu
  unfold makePayout
  simp only [hs1, hs2]
  generalize hfd : min payout (max (bondedOf ds - purchased) 0) = fd
  have hfrom : ¬ payout - fd = 0 := by omega
  obtain ⟨h1, h2, h3⟩ := ubdLoop_core ubds hu (max (purchased - bondedOf ds) 0) (payout - fd) (by omega) (by omega)
  have hr0 : ¬ (ubdLoop ubds (max (purchased - bondedOf ds) 0) (payout - fd)).2 = 0 := by rw [h2]; omega
  simp only [beq_iff_eq, hfrom, if_false, bne_iff_ne, ne_eq, hr0, not_false_eq_true, if_true]
  exact ⟨_, rfl⟩

end Shentu.Payout
