import Shentu.Proofs.ShieldFundOps
/-
  C02 helper lemmas, part 3: the operations that move coins in or out of the module account
  (purchases, pool creation/update, reward and reimbursement withdrawals, block rewards).
-/
namespace Shentu.Shield.Fund
open Shentu

/-! ## the ledger seen from the module account -/

theorem move_in (l : Ledger) (src mod : Addr) (c : Coins) (d : Denom) (hne : src ≠ mod) :
    (l.move src mod c).balOf mod d = l.balOf mod d + Coins.amountOf c d := by
  have h1 : (src == mod) = false := by simpa using hne
  simp [h1]

theorem move_out (l : Ledger) (dst mod : Addr) (c : Coins) (d : Denom) (hne : dst ≠ mod) :
    (l.move mod dst c).balOf mod d = l.balOf mod d - Coins.amountOf c d := by
  have h1 : (dst == mod) = false := by simpa using hne
  simp [h1]

theorem move_out_dst (l : Ledger) (dst mod : Addr) (c : Coins) (d : Denom) (hne : dst ≠ mod) :
    (l.move mod dst c).balOf dst d = l.balOf dst d + Coins.amountOf c d := by
  have h1 : (mod == dst) = false := by
    cases h : mod == dst with
    | false => rfl
    | true => exact absurd (beq_iff_eq.mp h).symm hne
  simp [h1]

theorem amountOf_one (d : Denom) (x : Int) : Coins.amountOf [(d, x)] d = x := by simp

/-! ## purchases -/

/-- the payment step of `purchaseShield`: the `paid` block of `purchaseCore`, verbatim
    (`s` is the state with the purchase counter already advanced, `pid` the new purchase id) -/
def purchasePaid (e : Env) (l : Ledger) (s : State) (poolID : Nat) (purchaser : Addr) (fees staking : Coins) (pid : Nat) :
    Except Err (Ledger × State) :=
  if !Coins.isZero fees then
    match l.send purchaser e.modAddr fees with
    | .error x => .error x
    | .ok l' =>
      let f := Dec.ofInt (Coins.amountOf fees e.bond)
      .ok (l', { s with serviceFees := Dec.add s.serviceFees f, remaining := Dec.add s.remaining f })
  else
    let amt := Coins.amountOf staking e.bond
    match l.send purchaser e.modAddr [(e.bond, amt)] with
    | .error x => .error x
    | .ok l' =>
      let k : Stake := match findStake s poolID purchaser with
        | some k => { k with amount := k.amount + amt }
        | none => { pool := poolID, purchaser := purchaser, amount := amt, requested := 0 }
      let s1 := setStake { s with stakingPool := s.stakingPool + amt } k
      .ok (l', { s1 with origStakings := (s1.origStakings.filter (·.1 != pid)) ++ [(pid, amt)] })

/-- what a purchase pays: `f` coins of fees credited to the fee pots, or `k` coins staked -/
structure PaidSpec (e : Env) (l l' : Ledger) (s s' : State) (f k : Int) : Prop where
  one : f = 0 ∨ k = 0
  remaining : s'.remaining = Dec.add s.remaining (Dec.ofInt f)
  serviceFees : s'.serviceFees = Dec.add s.serviceFees (Dec.ofInt f)
  stakeKeys : (s'.stakes.map stakeKey).Nodup
  stakes : sumStakes s' = sumStakes s + k
  providers : s'.providers = s.providers
  reimbs : s'.reimbs = s.reimbs
  blockFees : s'.blockFees = s.blockFees
  bal : l'.balOf e.modAddr e.bond = l.balOf e.modAddr e.bond + f + k

theorem dec_add_zero (d : Dec) : Dec.add d (Dec.ofInt 0) = d := by
  cases d; simp [Dec.add, Dec.ofInt]

theorem purchasePaid_spec (e : Env) (l l' : Ledger) (s s1 : State) (poolID : Nat) (purchaser : Addr) (fees staking : Coins)
    (pid : Nat) (h : purchasePaid e l s poolID purchaser fees staking pid = .ok (l', s1))
    (hne : purchaser ≠ e.modAddr) (hn : (s.stakes.map stakeKey).Nodup) :
    ∃ f k : Int, PaidSpec e l l' s s1 f k := by
  unfold purchasePaid at h
  split at h
  · -- fees
    split at h
    · cases h
    · rename_i l2 hs
      injection h with h; injection h with h1 h2; subst h1 h2
      refine ⟨Coins.amountOf fees e.bond, 0, Or.inr rfl, rfl, rfl, hn, by simp [sumStakes], rfl, rfl, rfl, ?_⟩
      rw [Ledger.send_ok _ _ _ _ _ hs, move_in _ _ _ _ _ hne]; omega
  · -- staking
    dsimp only at h
    split at h
    · cases h
    · rename_i l2 hs
      injection h with h; injection h with h1 h2; subst h1 h2
      refine ⟨0, Coins.amountOf staking e.bond, Or.inl rfl, ?_, ?_, ?_, ?_, ?_, ?_, ?_, ?_⟩
      · simp [dec_add_zero]
      · simp [dec_add_zero]
      · -- keys
        cases hf : findStake s poolID purchaser with
        | some k0 =>
          obtain ⟨hk1, hk2⟩ := findStake_key s poolID purchaser k0 hf
          obtain ⟨l1, l2', h1, h2⟩ := setStake_split { s with stakingPool := s.stakingPool + Coins.amountOf staking e.bond }
            poolID purchaser k0 { k0 with amount := k0.amount + Coins.amountOf staking e.bond } hn hf hk1 hk2
          dsimp only
          rw [h2]
          have h1' : s.stakes = l1 ++ k0 :: l2' := h1
          rw [h1'] at hn
          simpa [stakeKey] using hn
        | none =>
          have hnew := setStake_new { s with stakingPool := s.stakingPool + Coins.amountOf staking e.bond }
            { pool := poolID, purchaser := purchaser, amount := Coins.amountOf staking e.bond, requested := 0 } hf
          dsimp only
          rw [hnew]
          simp only [List.map_append, List.map_cons, List.map_nil]
          have hall := find_none_all _ _ hf
          apply nodup_insert_middle _ [] _ (by simpa using hn)
          intro hc
          simp only [List.append_nil] at hc
          obtain ⟨x, hx, hxa⟩ := List.mem_map.mp hc
          have := hall x hx
          simp only [stakeKey, Prod.mk.injEq] at hxa
          simp [hxa.1, hxa.2] at this
      · -- sum
        cases hf : findStake s poolID purchaser with
        | some k0 =>
          obtain ⟨hk1, hk2⟩ := findStake_key s poolID purchaser k0 hf
          obtain ⟨l1, l2', h1, h2⟩ := setStake_split { s with stakingPool := s.stakingPool + Coins.amountOf staking e.bond }
            poolID purchaser k0 { k0 with amount := k0.amount + Coins.amountOf staking e.bond } hn hf hk1 hk2
          simp only [sumStakes]
          rw [h2]
          have h1' : s.stakes = l1 ++ k0 :: l2' := h1
          rw [h1']
          simp; omega
        | none =>
          have hnew := setStake_new { s with stakingPool := s.stakingPool + Coins.amountOf staking e.bond }
            { pool := poolID, purchaser := purchaser, amount := Coins.amountOf staking e.bond, requested := 0 } hf
          simp only [sumStakes]
          rw [hnew]
          simp
      · simp
      · simp
      · simp
      · rw [Ledger.send_ok _ _ _ _ _ hs, move_in _ _ _ _ _ hne, amountOf_one]; omega

theorem PaidSpec.frame {e : Env} {l l' : Ledger} {s s1 s' : State} {f k : Int}
    (h : PaidSpec e l l' s s1 f k) (hf : Frame s1 s') (hs : s'.serviceFees = s1.serviceFees) : PaidSpec e l l' s s' f k where
  one := h.one
  remaining := by rw [hf.remaining, h.remaining]
  serviceFees := by rw [hs, h.serviceFees]
  stakeKeys := by rw [hf.stakes]; exact h.stakeKeys
  stakes := by simp only [sumStakes, hf.stakes]; exact h.stakes
  providers := by rw [hf.providers, h.providers]
  reimbs := by rw [hf.reimbs, h.reimbs]
  blockFees := by rw [hf.blockFees, h.blockFees]
  bal := h.bal

theorem PaidSpec.pre {e : Env} {l l' : Ledger} {s0 s s' : State} {f k : Int}
    (h : PaidSpec e l l' s s' f k) (hf : Frame s0 s) (hs : s.serviceFees = s0.serviceFees) : PaidSpec e l l' s0 s' f k where
  one := h.one
  remaining := by rw [h.remaining, hf.remaining]
  serviceFees := by rw [h.serviceFees, hs]
  stakeKeys := h.stakeKeys
  stakes := by rw [h.stakes]; simp only [sumStakes, hf.stakes]
  providers := by rw [h.providers, hf.providers]
  reimbs := by rw [h.reimbs, hf.reimbs]
  blockFees := by rw [h.blockFees, hf.blockFees]
  bal := h.bal

theorem purchaseCore_spec (e : Env) (l l' : Ledger) (s s' : State) (poolID : Nat) (shield : Coins) (purchaser : Addr)
    (fees staking : Coins) (h : purchaseCore e l s poolID shield purchaser fees staking = .ok (l', s'))
    (hne : purchaser ≠ e.modAddr) (hn : (s.stakes.map stakeKey).Nodup) :
    ∃ f k : Int, PaidSpec e l l' s s' f k := by
  unfold purchaseCore at h
  ok_cases h
  all_goals
    obtain ⟨f, k, hp⟩ := purchasePaid_spec e l _ { s with nextPurchase := s.nextPurchase + 1 } _ poolID purchaser fees staking
      s.nextPurchase (by assumption) hne hn
    refine ⟨f, k, ?_⟩
    injection h with h; injection h with h1 h2; subst h1 h2
    have hp0 : PaidSpec e l _ s _ f k := hp.pre (s0 := s) ⟨rfl, rfl, rfl, rfl, rfl⟩ rfl
    apply hp0.frame
    · exact ⟨by simp, by simp, by simp, by simp, by simp⟩
    · simp

theorem purchase_spec (e : Env) (l l' : Ledger) (s s' : State) (poolID : Nat) (shield : Coins) (purchaser : Addr)
    (staking : Bool) (h : purchase e l s poolID shield purchaser staking = .ok (l', s'))
    (hne : purchaser ≠ e.modAddr) (hn : (s.stakes.map stakeKey).Nodup) :
    ∃ f k : Int, PaidSpec e l l' s s' f k := by
  unfold purchase at h
  ok_cases h
  all_goals exact purchaseCore_spec _ _ _ _ _ _ _ _ _ _ h hne hn

theorem createPool_spec (e : Env) (l l' : Ledger) (s s' : State) (creator : Addr) (shield fees : Coins) (sponsor : String)
    (sponsorAddr : Addr) (limit : Int)
    (h : createPool e l s creator shield fees sponsor sponsorAddr limit = .ok (l', s'))
    (hne : creator ≠ e.modAddr) (hn : (s.stakes.map stakeKey).Nodup) :
    ∃ f k : Int, PaidSpec e l l' s s' f k := by
  unfold createPool at h
  ok_cases h
  obtain ⟨f, k, hp⟩ := purchaseCore_spec _ _ _ _ _ _ _ _ _ _ h hne hn
  exact ⟨f, k, hp.pre (s0 := s) ⟨rfl, rfl, rfl, rfl, rfl⟩ rfl⟩

theorem updatePool_spec (e : Env) (l l' : Ledger) (s s' : State) (updater : Addr) (poolID : Nat) (shield fees : Coins)
    (limit : Int) (h : updatePool e l s updater poolID shield fees limit = .ok (l', s'))
    (hne : updater ≠ e.modAddr) (hn : (s.stakes.map stakeKey).Nodup) :
    ∃ f k : Int, PaidSpec e l l' s s' f k := by
  unfold updatePool at h
  ok_cases h
  all_goals first
    | (have hx := purchaseCore_spec _ _ _ _ _ _ _ _ _ _ h hne hn
       obtain ⟨f, k, hp⟩ := hx
       exact ⟨f, k, hp.pre (s0 := s) ⟨rfl, rfl, rfl, rfl, rfl⟩ rfl⟩)
    | (have hs := Ledger.send_ok l _ updater e.modAddr fees (by assumption)
       injection h with h; injection h with h1 h2; subst h1 h2
       refine ⟨Coins.amountOf fees e.bond, 0, Or.inr rfl, rfl, rfl, hn, by simp [sumStakes], rfl, rfl, rfl, ?_⟩
       rw [hs, move_in _ _ _ _ _ hne]; omega)
    | (injection h with h; injection h with h1 h2; subst h1 h2
       exact ⟨0, 0, Or.inr rfl, by simp [dec_add_zero], by simp [dec_add_zero], hn, by simp [sumStakes], rfl, rfl, rfl, by omega⟩)

theorem PaidSpec.keyed {e : Env} {l l' : Ledger} {s s' : State} {f k : Int}
    (h : PaidSpec e l l' s s' f k) (hk : Keyed s) : Keyed s' :=
  ⟨by rw [h.providers]; exact hk.prov, h.stakeKeys, by rw [h.reimbs]; exact hk.reimb⟩

theorem PaidSpec.owed {e : Env} {l l' : Ledger} {s s' : State} {f k : Int}
    (h : PaidSpec e l l' s s' f k) : owedRaw s' = owedRaw s + (f + k) * Dec.prec := by
  simp only [owedRaw, sumRewards, sumReimbs, h.remaining, h.providers, h.reimbs, h.blockFees, h.stakes, Dec.add, Dec.ofInt,
    Dec.prec]
  omega

theorem PaidSpec.fund {e : Env} {l l' : Ledger} {s s' : State} {f k : Int}
    (h : PaidSpec e l l' s s' f k) (hf : FundInv (l.balOf e.modAddr e.bond) s) :
    FundInv (l'.balOf e.modAddr e.bond) s' := by
  unfold FundInv at *
  rw [h.owed, h.bal, h.blockFees]
  refine ⟨?_, hf.2⟩
  have := hf.1
  simp only [Dec.prec] at *
  omega

/-! ## withdrawals of rewards and reimbursements, block rewards -/

theorem withdrawRewards_spec (e : Env) (l l' : Ledger) (s s' : State) (a : Addr)
    (h : withdrawRewards e l s a = .ok (l', s')) (hne : a ≠ e.modAddr) (hk : Keyed s) :
    Keyed s' ∧ s'.blockFees = s.blockFees ∧
      ∃ whole : Int, owedRaw s' = owedRaw s - whole * Dec.prec ∧
        l'.balOf e.modAddr e.bond = l.balOf e.modAddr e.bond - whole := by
  unfold withdrawRewards at h
  ok_cases h
  · injection h with h; injection h with h1 h2; subst h1 h2
    exact ⟨hk, rfl, 0, by omega, by omega⟩
  · rename_i p hp _ _ l2 hs
    injection h with h; injection h with h1 h2; subst h1 h2
    refine ⟨⟨?_, hk.stake, hk.reimb⟩, rfl, Dec.truncateInt p.rewards, ?_, ?_⟩
    · show ((setProvider s _).providers.map (·.addr)).Nodup
      rw [setProvider_addrs]; exact hk.prov
    · have hsum := setProvider_sum (fun p => p.rewards.raw) s a p { p with rewards := Dec.zero } hk.prov hp rfl
      simp only [owedRaw, sumRewards, sumStakes, sumReimbs] at hsum ⊢
      simp only [setProvider_remaining, setProvider_blockFees, setProvider_stakes, setProvider_reimbs]
      rw [hsum]
      simp only [Dec.add, Dec.sub, Dec.ofInt, Dec.zero, Dec.prec]
      omega
    · rw [Ledger.send_ok _ _ _ _ _ hs, move_out _ _ _ _ _ hne, amountOf_one]

theorem withdrawReimbursement_spec (e : Env) (l l' : Ledger) (s s' : State) (pid : Nat) (a : Addr)
    (h : withdrawReimbursement e l s pid a = .ok (l', s')) (hne : a ≠ e.modAddr) (hk : Keyed s) :
    Keyed s' ∧ s'.blockFees = s.blockFees ∧
      ∃ amt : Int, owedRaw s' = owedRaw s - amt * Dec.prec ∧
        l'.balOf e.modAddr e.bond = l.balOf e.modAddr e.bond - amt := by
  unfold withdrawReimbursement at h
  ok_cases h
  rename_i r hr _ _ _ l2 hs
  injection h with h; injection h with h1 h2; subst h1 h2
  obtain ⟨l1, l2', h1, hrp, h3, h4⟩ :=
    find_split (fun r : Reimb => r.pid) pid (fun r => r.pid == pid) (fun x => by simp) s.reimbs r hk.reimb hr
  have hq : (r.pid == pid) = true := by simp [hrp]
  have hfil : s.reimbs.filter (fun x => x.pid != pid) = l1 ++ l2' := by
    rw [h1]
    exact filter_not_split (fun r : Reimb => r.pid == pid) _ (fun x => rfl) r l1 l2' h3 h4 hq
  refine ⟨⟨hk.prov, hk.stake, ?_⟩, rfl, r.amount, ?_, ?_⟩
  · show ((s.reimbs.filter (fun x => x.pid != pid)).map (·.pid)).Nodup
    rw [hfil]
    have := hk.reimb
    rw [h1] at this
    simp only [List.map_append, List.map_cons] at this ⊢
    have hperm := (List.perm_middle (a := r.pid) (l₁ := l1.map (·.pid)) (l₂ := l2'.map (·.pid))).nodup_iff.mp this
    exact (List.nodup_cons.mp hperm).2
  · simp only [owedRaw, sumRewards, sumStakes, sumReimbs]
    rw [hfil, h1]
    simp only [sumI_append, sumI_cons, Dec.prec]
    omega
  · rw [Ledger.send_ok _ _ _ _ _ hs, move_out _ _ _ _ _ hne, amountOf_one]

theorem fundBlockRewards_fund (e : Env) (l : Ledger) (s : State) (sender : Addr) (amount : Int)
    (hne : sender ≠ e.modAddr) (hf : FundInv (l.balOf e.modAddr e.bond) s) :
    FundInv ((fundBlockRewards e l s sender amount).1.balOf e.modAddr e.bond) (fundBlockRewards e l s sender amount).2 := by
  unfold FundInv at *
  simp only [fundBlockRewards, owedRaw, sumRewards, sumStakes, sumReimbs, Dec.add, Dec.ofInt] at *
  rw [move_in _ _ _ _ _ hne, amountOf_one]
  obtain ⟨h1, h2⟩ := hf
  simp only [Dec.prec] at *
  constructor <;> omega

theorem fundBlockRewards_keyed (e : Env) (l : Ledger) (s : State) (sender : Addr) (amount : Int) (hk : Keyed s) :
    Keyed (fundBlockRewards e l s sender amount).2 := ⟨hk.prov, hk.stake, hk.reimb⟩

/-- a step that pays `amt` out of the module account and owes `amt` less keeps the books balanced -/
theorem fund_pay (b b' : Int) (s s' : State) (amt : Int) (hf : FundInv b s) (hb : s'.blockFees = s.blockFees)
    (ho : owedRaw s' = owedRaw s - amt * Dec.prec) (hl : b' = b - amt) : FundInv b' s' := by
  unfold FundInv at *
  rw [ho, hl, hb]
  refine ⟨?_, hf.2⟩
  have := hf.1
  simp only [Dec.prec] at *
  omega

end Shentu.Shield.Fund
