import Shentu.Proofs.C19HLemmas
/-
  Helper lemmas for `Shentu/Props/C19H.lean`: what an execution of the contract library can do to the balance of an
  address that holds no code.  Nothing: it can only receive.
-/
namespace Shentu.C19H
open Shentu Shentu.Vesting

theorem cfind_cons (x : Cvm.Contract) (xs : List Cvm.Contract) (a : Addr) :
    Cvm.find { contracts := x :: xs } a = if x.addr = a then some x else Cvm.find { contracts := xs } a := by
  unfold Cvm.find
  by_cases h : x.addr = a
  · simp [h]
  · have : (x.addr == a) = false := by simpa using h
    simp [this, h]

theorem cfind_none_iff (s : Cvm.State) (a : Addr) : Cvm.find s a = none ↔ ∀ c ∈ s.contracts, c.addr ≠ a := by
  unfold Cvm.find
  rw [List.find?_eq_none]
  constructor
  · intro h c hc e; exact h c hc (by simpa using e)
  · intro h c hc; simpa using h c hc

theorem cfind_remove_none (s : Cvm.State) (x a : Addr) (h : Cvm.find s a = none) : Cvm.find (Cvm.remove s x) a = none := by
  rw [cfind_none_iff] at *
  intro c hc
  unfold Cvm.remove at hc
  exact h c (List.mem_filter.mp hc).1

theorem cfind_setStorage_none (s : Cvm.State) (x : Addr) (sl v : String) (z : Bool) (a : Addr) (h : Cvm.find s a = none) :
    Cvm.find (Cvm.setStorage s x sl v z) a = none := by
  rw [cfind_none_iff] at *
  intro c hc
  unfold Cvm.setStorage at hc
  simp only [List.mem_map] at hc
  obtain ⟨c0, hc0, e⟩ := hc
  have := h c0 hc0
  split at e
  · subst e; exact this
  · subst e; exact this

theorem kindAt_of_none (s : Cvm.State) (a : Addr) (h : Cvm.find s a = none) : Cvm.kindAt s a = "none" := by
  unfold Cvm.kindAt; rw [h]; rfl

/-- the conclusion of the frame lemma -/
def FrameOK (l l' : Ledger) (s s' : Cvm.State) : Prop :=
  NonNeg l' ∧ (∀ a, Cvm.find s a = none → ∀ d, l.balOf a d ≤ l'.balOf a d) ∧ (∀ a, Cvm.find s a = none → Cvm.find s' a = none)

theorem FrameOK.refl (l : Ledger) (s : Cvm.State) (h : NonNeg l) : FrameOK l l s s :=
  ⟨h, fun _ _ _ => Int.le_refl _, fun _ h => h⟩

theorem frame_suicide (bond : Denom) (l : Ledger) (s : Cvm.State) (callee dst : Addr) (hl : NonNeg l)
    (hc : Cvm.find s callee ≠ none) :
    FrameOK l (l.move callee dst [(bond, l.balOf callee bond)]) s (Cvm.remove s callee) := by
  refine ⟨nonneg_move1 l _ _ _ _ hl (hl _ _) (Int.le_refl _), ?_, ?_⟩
  · intro a ha d
    have hne : callee ≠ a := by intro e; subst e; exact hc ha
    exact mono_move1 l _ _ _ _ (hl _ _) a hne d
  · intro a ha; exact cfind_remove_none s callee a ha

/-- **Frame lemma for the contract library.**  Started on a ledger without negative balances, with the value already with the
    callee, an execution that succeeds leaves no negative balance, takes nothing from an address that holds no code, and gives
    code to no address. -/
theorem runKind_frame (bond : Denom) : ∀ (depth : Nat) (kind : String) (l l' : Ledger) (s s' : Cvm.State) (caller callee : Addr)
    (v : Int) (d0 : String) (z : Bool) (t : Addr),
    NonNeg l → 0 ≤ v → v ≤ l.balOf callee bond → (Cvm.find s callee = none → kind = "none") →
    Cvm.runKind bond kind l s caller callee v d0 z t depth = .ok (l', s') → FrameOK l l' s s' := by
  intro depth
  induction depth with
  | zero =>
    intro kind l l' s s' caller callee v d0 z t hl hv hc hk h
    unfold Cvm.runKind at h
    split at h
    all_goals first
      | (cases h; done)
      | (injection h with h; injection h with h1 h2; subst h1; subst h2; exact FrameOK.refl _ _ hl)
      | skip
    · -- store
      injection h with h; injection h with h1 h2; subst h1; subst h2
      exact ⟨hl, fun _ _ _ => Int.le_refl _, fun a ha => cfind_setStorage_none _ _ _ _ _ a ha⟩
    · -- suicide
      injection h with h; injection h with h1 h2; subst h1; subst h2
      exact frame_suicide bond l s callee caller hl (fun e => by have := hk e; simp at this)
    · -- suicideTo
      split at h
      · injection h with h; injection h with h1 h2; subst h1; subst h2; exact FrameOK.refl _ _ hl
      · injection h with h; injection h with h1 h2; subst h1; subst h2
        exact frame_suicide bond l s callee t hl (fun e => by have := hk e; simp at this)
  | succ n ih =>
    intro kind l l' s s' caller callee v d0 z t hl hv hc hk h
    unfold Cvm.runKind at h
    split at h
    all_goals first
      | (cases h; done)
      | (injection h with h; injection h with h1 h2; subst h1; subst h2; exact FrameOK.refl _ _ hl)
      | skip
    · -- store
      injection h with h; injection h with h1 h2; subst h1; subst h2
      exact ⟨hl, fun _ _ _ => Int.le_refl _, fun a ha => cfind_setStorage_none _ _ _ _ _ a ha⟩
    · -- suicide
      injection h with h; injection h with h1 h2; subst h1; subst h2
      exact frame_suicide bond l s callee caller hl (fun e => by have := hk e; simp at this)
    · -- suicideTo
      split at h
      · injection h with h; injection h with h1 h2; subst h1; subst h2; exact FrameOK.refl _ _ hl
      · injection h with h; injection h with h1 h2; subst h1; subst h2
        exact frame_suicide bond l s callee t hl (fun e => by have := hk e; simp at this)
    · -- forward
      have hcode : Cvm.find s callee ≠ none := fun e => by have := hk e; simp at this
      simp only at h
      split at h
      · rename_i r hr
        injection h with h; subst h
        have hl1 : NonNeg (l.move callee t [(bond, v)]) := nonneg_move1 l _ _ _ _ hl hv hc
        have hv1 : v ≤ (l.move callee t [(bond, v)]).balOf t bond := by
          rw [balOf_move1]
          have := hl t bond
          by_cases e : callee = t
          · subst e; simp; omega
          · simp [e]; omega
        have := ih _ _ _ _ _ _ _ _ _ _ _ hl1 hv hv1 (kindAt_of_none s t) hr
        refine ⟨this.1, ?_, this.2.2⟩
        intro a ha d
        have hne : callee ≠ a := by intro e; subst e; exact hcode ha
        exact Int.le_trans (mono_move1 l _ _ _ _ hv a hne d) (this.2.1 a ha d)
      · split at h
        · injection h with h; injection h with h1 h2; subst h1; subst h2; exact FrameOK.refl _ _ hl
        · cases h
    · -- innerCall
      simp only at h
      split at h
      · cases h
      · rename_i l2 s2 hr
        injection h with h; injection h with h1 h2; subst h1; subst h2
        have hin : FrameOK l l2 s s2 := by
          split at hr
          · rename_i r hr2
            injection hr with hr; subst hr
            exact ih _ _ _ _ _ _ _ _ _ _ _ hl (Int.le_refl 0) (hl _ _) (kindAt_of_none s t) hr2
          · split at hr
            · injection hr with hr; injection hr with h1 h2; subst h1; subst h2; exact FrameOK.refl _ _ hl
            · cases hr
        exact ⟨hin.1, hin.2.1, fun a ha => cfind_setStorage_none _ _ _ _ _ a (hin.2.2 a ha)⟩

end Shentu.C19H
