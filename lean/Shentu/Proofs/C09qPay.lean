import Shentu.Proofs.C09qStore
/-
  C09q, the payout out of unbonding entries: `payFromUnbondings` (one snapshot element), the walk `payWalk` over the snapshot
  `sortedUnbondings`, `payFromAllUnbondings`.
-/
namespace Shentu.UbdQueue.Pay
open Shentu.UbdQueue Shentu.UbdQueue.Store

/-! ### payEntry -/

theorem entry_eq {e e0 : Entry} (h1 : e.bal = e0.bal) (h2 : e.t = e0.t) : e = e0 := by
  cases e; cases e0; simp_all

/-- what the loop over the stored entries does: the first stored copy of the snapshot entry goes or shrinks -/
theorem payEntry_spec (es : List Entry) (e0 : Entry) (x : Int) (es' : List Entry) (r : Bool)
    (h : payEntry es e0 x = some (es', r)) :
    ∃ l1 l2, es = l1 ++ e0 :: l2 ∧
      ((r = true ∧ e0.bal = x ∧ es' = l1 ++ l2) ∨
       (r = false ∧ e0.bal ≠ x ∧ es' = l1 ++ ⟨e0.t, e0.bal - x⟩ :: l2)) := by
  induction es generalizing es' r with
  | nil => simp [payEntry] at h
  | cons e es ih =>
    unfold payEntry at h
    split at h
    · rename_i hm
      simp only [Bool.and_eq_true, beq_iff_eq] at hm
      have : e = e0 := entry_eq hm.1 hm.2
      subst this
      split at h
      · rename_i hb
        simp only [beq_iff_eq] at hb
        simp only [Option.some.injEq, Prod.mk.injEq] at h
        exact ⟨[], es, rfl, Or.inl ⟨h.2.symm, hb, by simp [h.1]⟩⟩
      · rename_i hb
        simp only [beq_iff_eq] at hb
        simp only [Option.some.injEq, Prod.mk.injEq] at h
        exact ⟨[], es, rfl, Or.inr ⟨h.2.symm, hb, by simp [← h.1]⟩⟩
    · cases hp : payEntry es e0 x with
      | none => simp [hp] at h
      | some pr =>
        obtain ⟨es1, r1⟩ := pr
        simp only [hp, Option.some.injEq, Prod.mk.injEq] at h
        obtain ⟨l1, l2, h1, h2⟩ := ih es1 r1 hp
        refine ⟨e :: l1, l2, by simp [h1], ?_⟩
        obtain ⟨ha, hb⟩ := h
        subst ha; subst hb
        rcases h2 with ⟨a, b, c⟩ | ⟨a, b, c⟩
        · exact Or.inl ⟨a, b, by simp [c]⟩
        · exact Or.inr ⟨a, b, by simp [c]⟩

theorem payEntry_none (es : List Entry) (e0 : Entry) (x : Int) (h : payEntry es e0 x = none) : e0 ∉ es := by
  induction es with
  | nil => simp
  | cons e es ih =>
    unfold payEntry at h
    split at h
    · split at h <;> simp at h
    · rename_i hm
      cases hp : payEntry es e0 x with
      | none =>
        intro hmem
        rcases List.mem_cons.mp hmem with e1 | e1
        · subst e1; simp at hm
        · exact ih hp e1
      | some pr => simp [hp] at h

theorem balSum_append (a b : List Entry) : balSum (a ++ b) = balSum a + balSum b := by
  simp [balSum, List.sum_append]

theorem balSum_cons (e : Entry) (a : List Entry) : balSum (e :: a) = e.bal + balSum a := by
  simp [balSum]

theorem payEntry_balSum {es : List Entry} {e0 : Entry} {x : Int} {es' : List Entry} {r : Bool}
    (h : payEntry es e0 x = some (es', r)) : balSum es' = balSum es - x := by
  obtain ⟨l1, l2, h1, h2⟩ := payEntry_spec es e0 x es' r h
  rcases h2 with ⟨_, b, c⟩ | ⟨_, _, c⟩
  · subst h1; subst c; simp only [balSum_append, balSum_cons]; omega
  · subst h1; subst c; simp only [balSum_append, balSum_cons]; omega

/-! ### outstanding after a write -/

theorem outstanding_cons (x : Ubd) (xs : List Ubd) (d : String) :
    outstanding (x :: xs) d = (if x.del = d then balSum x.entries else 0) + outstanding xs d := by
  unfold outstanding
  by_cases h : x.del = d
  · simp [h]
  · simp [h]

theorem removeUbd_of_none (us : List Ubd) (d v : String) (h : ∀ y ∈ us, ¬ (y.del = d ∧ y.val = v)) :
    removeUbd us d v = us := by
  unfold removeUbd
  apply List.filter_eq_self.mpr
  intro y hy
  have := h y hy
  cases hh : y.is d v
  · rfl
  · exact absurd ((is_iff y d v).mp hh) this

theorem outstanding_removeUbd (us : List Ubd) (d v d' : String)
    (h : us.Pairwise (fun x y => ¬ (x.del = y.del ∧ x.val = y.val))) :
    outstanding (removeUbd us d v) d' = outstanding us d' - (if d' = d then balSum (getEntries us d v) else 0) := by
  induction us with
  | nil => simp [removeUbd, outstanding, balSum]
  | cons x xs ih =>
    rw [List.pairwise_cons] at h
    by_cases hx : x.del = d ∧ x.val = v
    · have hi : x.is d v = true := (is_iff x d v).mpr hx
      have hno : ∀ y ∈ xs, ¬ (y.del = d ∧ y.val = v) := by
        intro y hy e
        exact h.1 y hy ⟨hx.1.trans e.1.symm, hx.2.trans e.2.symm⟩
      have : removeUbd (x :: xs) d v = xs := by
        have := removeUbd_of_none xs d v hno
        unfold removeUbd at this ⊢
        rw [List.filter_cons_of_neg (by simp [hi]), this]
      rw [this, outstanding_cons, getEntries_cons, if_pos hx]
      by_cases hd : d' = d
      · subst hd; simp [hx.1]; omega
      · have : ¬ x.del = d' := fun e => hd (e.symm.trans hx.1)
        simp [hd, this]
    · have hi : ¬ x.is d v = true := fun e => hx ((is_iff x d v).mp e)
      have : removeUbd (x :: xs) d v = x :: removeUbd xs d v := by
        unfold removeUbd
        rw [List.filter_cons_of_pos (by simp [hi])]
      rw [this, outstanding_cons, outstanding_cons, ih h.2, getEntries_cons, if_neg hx]
      omega

theorem outstanding_insertUbd (us : List Ubd) (u : Ubd) (d' : String) :
    outstanding (insertUbd u us) d' = (if u.del = d' then balSum u.entries else 0) + outstanding us d' := by
  induction us with
  | nil => simp [insertUbd, outstanding_cons]
  | cons x xs ih =>
    unfold insertUbd
    split
    · rw [outstanding_cons, ih, outstanding_cons]; omega
    · rw [outstanding_cons]

theorem outstanding_setEntries (us : List Ubd) (d v d' : String) (es : List Entry)
    (h : us.Pairwise (fun x y => ¬ (x.del = y.del ∧ x.val = y.val))) :
    outstanding (setEntries us d v es) d' =
      if d' = d then outstanding us d - balSum (getEntries us d v) + balSum es else outstanding us d' := by
  unfold setEntries
  split
  · rename_i he
    have : es = [] := by simpa using he
    subst this
    rw [outstanding_removeUbd _ _ _ _ h]
    by_cases hd : d' = d
    · subst hd; simp [balSum]
    · simp [hd]
  · unfold setUbd
    rw [outstanding_insertUbd, outstanding_removeUbd _ _ _ _ h]
    by_cases hd : d' = d
    · subst hd; simp; omega
    · have : ¬ d = d' := fun e => hd e.symm
      simp [hd, this]

/-! ### one call: shape of the result -/

/-- the result of one call, when the snapshot entry is stored -/
theorem payOne_shape {s s' : State} {d v : String} {e0 : Entry} {x : Int}
    (hm : e0 ∈ getEntries s.ubds d v) (ok : payFromUnbondings s d v e0 x = .ok s') :
    ∃ es' r, payEntry (getEntries s.ubds d v) e0 x = some (es', r) ∧
      s' = { ubds := setEntries s.ubds d v es', queue := if r then unqueueFirst s.queue (d, v) e0.t else s.queue } := by
  unfold payFromUnbondings at ok
  simp only at ok
  split at ok
  · simp at ok
  · cases hp : payEntry (getEntries s.ubds d v) e0 x with
    | none => exact absurd hm (payEntry_none _ _ _ hp)
    | some pr =>
      obtain ⟨es', r⟩ := pr
      simp only [hp, Except.ok.injEq] at ok
      exact ⟨es', r, rfl, ok.symm⟩

/-- the result of one call in general: nothing, or as above -/
theorem payOne_shape' {s s' : State} {d v : String} {e0 : Entry} {x : Int}
    (ok : payFromUnbondings s d v e0 x = .ok s') :
    s' = s ∨ ∃ es' r, payEntry (getEntries s.ubds d v) e0 x = some (es', r) ∧
      s' = { ubds := setEntries s.ubds d v es', queue := if r then unqueueFirst s.queue (d, v) e0.t else s.queue } := by
  unfold payFromUnbondings at ok
  simp only at ok
  split at ok
  · simp at ok
  · cases hp : payEntry (getEntries s.ubds d v) e0 x with
    | none => simp only [hp, Except.ok.injEq] at ok; exact Or.inl ok.symm
    | some pr =>
      obtain ⟨es', r⟩ := pr
      simp only [hp, Except.ok.injEq] at ok
      exact Or.inr ⟨es', r, rfl, ok.symm⟩

theorem times_unqueueFirst {q : List Slice} (h : q.Pairwise (fun x y => x.1 < y.1)) (p : Pair) (t : Int) :
    (unqueueFirst q p t).Pairwise (fun x y => x.1 < y.1) := by
  unfold unqueueFirst; dsimp only
  split
  · split
    · exact times_setSlice h _ _
    · exact h
  · exact times_removeSlice h _

theorem payOne_wf (s s' : State) (d v : String) (e0 : Entry) (x : Int) (h : WF s)
    (ok : payFromUnbondings s d v e0 x = .ok s') : WF s' := by
  rcases payOne_shape' ok with e | ⟨es', r, _, e⟩
  · subst e; exact h
  · subst e
    refine ⟨?_, keys_setEntries h.keys _ _ _⟩
    dsimp only
    split
    · exact times_unqueueFirst h.times _ _
    · exact h.times

/-- **one call books exactly the payout** -/
theorem payOne_exact (s s' : State) (d v : String) (e0 : Entry) (x : Int) (h : WF s) (hm : e0 ∈ getEntries s.ubds d v)
    (ok : payFromUnbondings s d v e0 x = .ok s') : outstanding s'.ubds d = outstanding s.ubds d - x := by
  obtain ⟨es', r, hp, e⟩ := payOne_shape hm ok
  subst e
  dsimp only
  rw [outstanding_setEntries _ _ _ _ _ h.keys, if_pos rfl, payEntry_balSum hp]
  omega

example : WF (run {} [.undelegate "a" "v" 10 5, .undelegate "a" "v" 20 7]) ∧
    (⟨20, 7⟩ : Entry) ∈ getEntries (run {} [.undelegate "a" "v" 10 5, .undelegate "a" "v" 20 7]).ubds "a" "v" :=
  ⟨⟨by decide, by decide⟩, by decide⟩

/-! ### one call: the queue -/

theorem eraseP_beq (l : List Pair) (p : Pair) : l.eraseP (· == p) = l.erase p := by
  induction l with
  | nil => rfl
  | cons a l ih =>
    by_cases h : a = p
    · subst h; simp
    · have h' : (a == p) = false := by simpa using h
      rw [List.eraseP_cons, List.erase_cons, h', ih]; simp

theorem getSlice_unqueueFirst (q : List Slice) (p : Pair) (t t' : Int) :
    getSlice (unqueueFirst q p t) t' =
      if t' = t then (if (getSlice q t).length > 1 then (getSlice q t).erase p else []) else getSlice q t' := by
  unfold unqueueFirst; dsimp only
  split
  · rename_i hl
    split
    · rw [getSlice_setSlice, eraseP_beq]
    · rename_i hany
      have : p ∉ getSlice q t := by
        intro hm; apply hany; simp only [List.any_eq_true, beq_iff_eq]; exact ⟨p, hm, rfl⟩
      rw [List.erase_of_not_mem this]
      by_cases h : t' = t
      · subst h; simp
      · simp [h]
  · rw [getSlice_removeSlice]

theorem countP_t_append (l1 l2 : List Entry) (t : Int) :
    (l1 ++ l2).countP (fun e => e.t == t) = l1.countP (fun e => e.t == t) + l2.countP (fun e => e.t == t) :=
  List.countP_append

theorem length_le_one_of_mem {l : List Pair} {p : Pair} (hm : p ∈ l) (hl : ¬ l.length > 1) : l = [p] := by
  match l, hm, hl with
  | [a], hm, _ => simp at hm; rw [hm]
  | _ :: _ :: _, _, hl => simp at hl

/-- **one call keeps the queue invariant** -/
theorem payOne_inv (s s' : State) (d v : String) (e0 : Entry) (x : Int) (h : Inv s) (hm : e0 ∈ getEntries s.ubds d v)
    (ok : payFromUnbondings s d v e0 x = .ok s') : Inv s' := by
  refine { toWF := payOne_wf s s' d v e0 x h.toWF ok, counts := ?_ }
  obtain ⟨es', r, hp, e⟩ := payOne_shape hm ok
  subst e
  obtain ⟨l1, l2, h1, h2⟩ := payEntry_spec _ _ _ _ _ hp
  intro d' v' t'
  have hc := h.counts d' v' t'
  have hcd := h.counts d v e0.t
  unfold queuedAt entriesAt at hc hcd ⊢
  dsimp only
  rw [getEntries_setEntries]
  rcases h2 with ⟨a, _, c⟩ | ⟨a, _, c⟩
  · subst a
    rw [if_pos rfl, getSlice_unqueueFirst]
    rw [h1] at hcd
    simp only [List.countP_append, List.countP_cons, beq_self_eq_true, if_true] at hcd
    by_cases ht : t' = e0.t
    · subst ht
      rw [if_pos rfl]
      have hmem : (d, v) ∈ getSlice s.queue e0.t := by
        apply List.count_pos_iff.mp; omega
      by_cases hdv : d' = d ∧ v' = v
      · obtain ⟨hd1, hd2⟩ := hdv
        subst hd1; subst hd2
        simp only [and_self, if_true]
        rw [c, List.countP_append]
        split
        · rw [List.count_erase_self]; omega
        · rename_i hl
          have := length_le_one_of_mem hmem hl
          rw [this] at hcd
          simp at hcd ⊢
          omega
      · rw [if_neg hdv]
        have hne : ¬ (d', v') = (d, v) := by
          intro e; apply hdv; simpa using e
        split
        · rw [List.count_erase_of_ne hne]; exact hc
        · rename_i hl
          have := length_le_one_of_mem hmem hl
          rw [this] at hc
          rw [← hc]
          simp [List.count_cons]
          intro e1 e2; exact hdv ⟨e1.symm, e2.symm⟩
    · rw [if_neg ht]
      by_cases hdv : d' = d ∧ v' = v
      · obtain ⟨hd1, hd2⟩ := hdv
        subst hd1; subst hd2
        simp only [and_self, if_true]
        rw [c, hc, h1]
        have : (e0.t == t') = false := by
          simp; intro e; exact ht e.symm
        simp [List.countP_append, this]
      · rw [if_neg hdv]; exact hc
  · subst a
    simp only [Bool.false_eq_true, if_false]
    by_cases hdv : d' = d ∧ v' = v
    · obtain ⟨hd1, hd2⟩ := hdv
      subst hd1; subst hd2
      simp only [and_self, if_true]
      rw [c, hc, h1]
      simp [List.countP_append, List.countP_cons]
    · rw [if_neg hdv]; exact hc

/-- for the examples: the empty state and an undelegation keep the invariant -/
theorem inv_empty : Inv {} :=
  { times := List.Pairwise.nil, keys := List.Pairwise.nil, counts := by intro d v t; simp [queuedAt, entriesAt] }

theorem inv_undelegate (s : State) (d v : String) (t bal : Int) (h : Inv s) : Inv (undelegate s d v t bal) := by
  refine { times := times_insertUBDQueue h.times _ _, keys := keys_setUbd h.keys _ _ _, counts := ?_ }
  intro d' v' t'
  have hc := h.counts d' v' t'
  have hcd := h.counts d v t
  unfold queuedAt entriesAt at hc hcd ⊢
  unfold undelegate
  dsimp only
  rw [getEntries_setUbd, getSlice_insertUBDQueue]
  by_cases hdv : d' = d ∧ v' = v
  · obtain ⟨hd1, hd2⟩ := hdv
    subst hd1; subst hd2
    simp only [and_self, if_true]
    by_cases ht : t' = t
    · subst ht; simp [List.count_append, List.countP_append, hc]
    · have : (t == t') = false := by simp; intro e; exact ht e.symm
      simp [ht, List.countP_append, hc, this]
  · rw [if_neg hdv]
    by_cases ht : t' = t
    · subst ht
      have hne : ¬ (d, v) = (d', v') := by intro e; apply hdv; simp at e; exact ⟨e.1.symm, e.2.symm⟩
      simp [List.count_append, hc, hne]
    · simp [ht, hc]

example : Inv (run {} [.undelegate "a" "v" 10 5, .undelegate "a" "v" 20 7]) ∧
    (⟨20, 7⟩ : Entry) ∈ getEntries (run {} [.undelegate "a" "v" 10 5, .undelegate "a" "v" 20 7]).ubds "a" "v" :=
  ⟨inv_undelegate _ _ _ _ _ (inv_undelegate _ _ _ _ _ inv_empty), by decide⟩

/-! ### the snapshot -/

theorem insertDesc_perm (x : String × String × Entry) (l : List (String × String × Entry)) :
    (insertDesc x l).Perm (x :: l) := by
  induction l with
  | nil => exact List.Perm.refl _
  | cons y ys ih =>
    unfold insertDesc; split
    · exact (List.Perm.cons y ih).trans (List.Perm.swap x y ys)
    · exact List.Perm.refl _

theorem sort_perm (l : List (String × String × Entry)) : (l.foldr insertDesc []).Perm l := by
  induction l with
  | nil => exact List.Perm.refl _
  | cons x xs ih => simp only [List.foldr_cons]; exact (insertDesc_perm x _).trans (List.Perm.cons x ih)

/-- the snapshot before sorting -/
def flat (us : List Ubd) (d : String) : List (String × String × Entry) :=
  (us.filter (·.del == d)).flatMap (fun u => u.entries.map (fun e => (u.del, u.val, e)))

theorem sorted_perm (us : List Ubd) (d : String) : (sortedUnbondings us d).Perm (flat us d) := sort_perm _

theorem flat_cons (x : Ubd) (xs : List Ubd) (d : String) :
    flat (x :: xs) d = (if x.del = d then x.entries.map (fun e => (x.del, x.val, e)) else []) ++ flat xs d := by
  unfold flat
  by_cases h : x.del = d
  · simp [h]
  · simp [h]

theorem count_map_entry (l : List Entry) (a b d v : String) (e : Entry) :
    (l.map (fun e => (a, b, e))).count (d, v, e) = if a = d ∧ b = v then l.count e else 0 := by
  induction l with
  | nil => simp
  | cons y ys ih =>
    rw [List.map_cons, List.count_cons, ih, List.count_cons]
    by_cases h : a = d ∧ b = v
    · obtain ⟨h1, h2⟩ := h; subst h1; subst h2; simp
    · have : ((a, b, y) == (d, v, e)) = false := by
        simp only [beq_eq_false_iff_ne, ne_eq, Prod.mk.injEq, not_and]
        intro e1 e2; exact absurd ⟨e1, e2⟩ h
      simp only [if_neg h, this]
      simp

theorem flat_mem {us : List Ubd} {d : String} {p : String × String × Entry} (h : p ∈ flat us d) :
    p.1 = d ∧ ∃ y ∈ us, y.del = p.1 ∧ y.val = p.2.1 := by
  unfold flat at h
  simp only [List.mem_flatMap, List.mem_filter, List.mem_map, beq_iff_eq] at h
  obtain ⟨y, ⟨hy, hd⟩, e, _, he⟩ := h
  subst he
  exact ⟨hd, y, hy, rfl, rfl⟩

theorem flat_count_zero (us : List Ubd) (d d' v : String) (e : Entry) (h : ∀ y ∈ us, ¬ (y.del = d' ∧ y.val = v)) :
    (flat us d).count (d', v, e) = 0 := by
  apply List.count_eq_zero.mpr
  intro hm
  obtain ⟨_, y, hy, h1, h2⟩ := flat_mem hm
  exact h y hy ⟨h1, h2⟩

theorem flat_count_le (us : List Ubd) (d d' v : String) (e : Entry)
    (h : us.Pairwise (fun x y => ¬ (x.del = y.del ∧ x.val = y.val))) :
    (flat us d).count (d', v, e) ≤ (getEntries us d' v).count e := by
  induction us with
  | nil => simp [flat]
  | cons x xs ih =>
    rw [List.pairwise_cons] at h
    rw [flat_cons, List.count_append, getEntries_cons]
    by_cases hx : x.del = d' ∧ x.val = v
    · have hno : ∀ y ∈ xs, ¬ (y.del = d' ∧ y.val = v) := by
        intro y hy e
        exact h.1 y hy ⟨hx.1.trans e.1.symm, hx.2.trans e.2.symm⟩
      rw [if_pos hx, flat_count_zero xs d d' v e hno]
      split
      · rw [count_map_entry, if_pos hx]; omega
      · simp
    · rw [if_neg hx]
      have := ih h.2
      split
      · rw [count_map_entry, if_neg hx]; omega
      · simpa using this

/-- the snapshot elements not yet visited are still stored, as a sub-multiset -/
def Cov (xs : List (String × String × Entry)) (us : List Ubd) : Prop :=
  ∀ d v e, xs.count (d, v, e) ≤ (getEntries us d v).count e

theorem cov_sorted (us : List Ubd) (d : String) (h : us.Pairwise (fun x y => ¬ (x.del = y.del ∧ x.val = y.val))) :
    Cov (sortedUnbondings us d) us := by
  intro d' v e
  rw [(sorted_perm us d).count_eq]
  exact flat_count_le us d d' v e h

theorem alld_sorted (us : List Ubd) (d : String) : ∀ p ∈ sortedUnbondings us d, p.1 = d := by
  intro p hp
  exact (flat_mem ((sorted_perm us d).mem_iff.mp hp)).1

theorem cov_head {d v : String} {e : Entry} {xs : List (String × String × Entry)} {us : List Ubd}
    (h : Cov ((d, v, e) :: xs) us) : e ∈ getEntries us d v := by
  have := h d v e
  rw [List.count_cons_self] at this
  apply List.count_pos_iff.mp; omega

theorem cov_tail {p : String × String × Entry} {xs : List (String × String × Entry)} {us : List Ubd}
    (h : Cov (p :: xs) us) : Cov xs us := by
  intro d v e
  have := h d v e
  rw [List.count_cons] at this
  omega

theorem cov_payOne {s s1 : State} {d v : String} {e : Entry} {x : Int} {xs : List (String × String × Entry)}
    (h : Cov ((d, v, e) :: xs) s.ubds) (ok : payFromUnbondings s d v e x = .ok s1) : Cov xs s1.ubds := by
  rcases payOne_shape' ok with e1 | ⟨es', r, hp, e1⟩
  · subst e1; exact cov_tail h
  · subst e1
    obtain ⟨l1, l2, h1, h2⟩ := payEntry_spec _ _ _ _ _ hp
    intro d' v' e'
    have hc := h d' v' e'
    dsimp only
    rw [getEntries_setEntries]
    by_cases hdv : d' = d ∧ v' = v
    · obtain ⟨hd1, hd2⟩ := hdv
      subst hd1; subst hd2
      rw [if_pos ⟨rfl, rfl⟩]
      rw [h1, List.count_cons] at hc
      simp only [List.count_append, List.count_cons] at hc
      have hb : ((d', v', e) == (d', v', e')) = (e == e') := by
        cases hh : e == e'
        · simp at hh ⊢; exact hh
        · simp at hh ⊢; exact hh
      rw [hb] at hc
      rcases h2 with ⟨_, _, c⟩ | ⟨_, _, c⟩
      · subst c; simp only [List.count_append]; omega
      · subst c; simp only [List.count_append, List.count_cons]; omega
    · rw [if_neg hdv]
      rw [List.count_cons] at hc
      omega

/-! ### the walk as a chain of single calls -/

/-- `Reach d nn s rem s'`: `s'` comes from `s` by single calls for stored entries of `d`, each with a positive amount (at most the
    entry's balance when `nn` holds), the amounts adding up to `rem` -/
inductive Reach (d : String) (nn : Prop) : State → Int → State → Prop
  | refl (s : State) : Reach d nn s 0 s
  | step (s s1 s' : State) (v : String) (e : Entry) (t r rem : Int) (hr : rem = t + r)
      (hm : e ∈ getEntries s.ubds d v) (ht : 0 < t) (hle : nn → t ≤ e.bal)
      (ok : payFromUnbondings s d v e t = .ok s1) (rest : Reach d nn s1 r s') : Reach d nn s rem s'

theorem walk_reach (d : String) (nn : Prop) (xs : List (String × String × Entry)) :
    ∀ (u rem : Int) (s s' : State), (nn → 0 ≤ u) → Cov xs s.ubds → (∀ p ∈ xs, p.1 = d) →
      payWalk xs u rem s = .ok s' → Reach d nn s rem s' := by
  induction xs with
  | nil =>
    intro u rem s s' _ _ _ ok
    unfold payWalk at ok
    split at ok
    · simp at ok
    · rename_i h0
      simp only [bne_iff_ne, ne_eq, Decidable.not_not] at h0
      simp only [Except.ok.injEq] at ok
      subst h0; subst ok; exact Reach.refl s
  | cons p xs ih =>
    obtain ⟨d0, v, e⟩ := p
    intro u rem s s' hnn hcov hall ok
    have hd0 : d0 = d := hall (d0, v, e) (by simp)
    subst hd0
    have hall' : ∀ p ∈ xs, p.1 = d0 := fun p hp => hall p (by simp [hp])
    unfold payWalk at ok
    split at ok
    · split at ok
      · simp at ok
      · rename_i h0
        simp only [bne_iff_ne, ne_eq, Decidable.not_not] at h0
        simp only [Except.ok.injEq] at ok
        subst h0; subst ok; exact Reach.refl s
    · rename_i hrem
      dsimp only at ok
      split at ok
      · exact ih _ _ _ _ (fun _ => by omega) (cov_tail hcov) hall' ok
      · rename_i hz
        simp only [beq_iff_eq] at hz
        cases hp : payFromUnbondings s d0 v e (min rem (max (e.bal - u) 0)) with
        | error err => simp [hp] at ok
        | ok s1 =>
          simp only [hp] at ok
          have hrest := ih _ _ _ _ (fun _ => by omega) (cov_payOne hcov hp) hall' ok
          exact Reach.step s s1 s' v e _ _ rem (by omega) (cov_head hcov) (by omega)
            (fun h => by have := hnn h; omega) hp hrest

theorem pay_reach (s s' : State) (d : String) (u x : Int) (h : WF s) (ok : payFromAllUnbondings s d u x = .ok s') :
    Reach d (0 ≤ u) s x s' := by
  unfold payFromAllUnbondings at ok
  split at ok
  · rename_i h0
    simp only [beq_iff_eq] at h0
    simp only [Except.ok.injEq] at ok
    subst h0; subst ok; exact Reach.refl s
  · exact walk_reach d (0 ≤ u) _ u x s s' id (cov_sorted _ _ h.keys) (alld_sorted _ _) ok

/-! ### the whole walk -/

theorem reach_wf {d : String} {nn : Prop} {s s' : State} {r : Int} (hr : Reach d nn s r s') (h : WF s) : WF s' := by
  induction hr with
  | refl s => exact h
  | step s s1 s' v e t r rem hr hm ht hle ok rest ih => exact ih (payOne_wf _ _ _ _ _ _ h ok)

theorem reach_exact {d : String} {nn : Prop} {s s' : State} {r : Int} (hr : Reach d nn s r s') (h : WF s) :
    outstanding s'.ubds d = outstanding s.ubds d - r := by
  induction hr with
  | refl s => simp
  | step s s1 s' v e t r rem hr hm ht hle ok rest ih =>
    rw [ih (payOne_wf _ _ _ _ _ _ h ok), payOne_exact _ _ _ _ _ _ h hm ok]; omega

theorem reach_inv {d : String} {nn : Prop} {s s' : State} {r : Int} (hr : Reach d nn s r s') (h : Inv s) : Inv s' := by
  induction hr with
  | refl s => exact h
  | step s s1 s' v e t r rem hr hm ht hle ok rest ih => exact ih (payOne_inv _ _ _ _ _ _ h hm ok)

/-- **the walk books exactly the payout** (when it does not panic) -/
theorem pay_exact (s s' : State) (d : String) (u x : Int) (h : WF s) (ok : payFromAllUnbondings s d u x = .ok s') :
    outstanding s'.ubds d = outstanding s.ubds d - x :=
  reach_exact (pay_reach s s' d u x h ok) h

/-- **the walk keeps the queue invariant** -/
theorem pay_inv (s s' : State) (d : String) (u x : Int) (h : Inv s) (ok : payFromAllUnbondings s d u x = .ok s') : Inv s' :=
  reach_inv (pay_reach s s' d u x h.toWF ok) h

/-- a state for the examples: two entries of one pair at the same time, a second validator, a bystander in the same slice -/
def exState : State :=
  run {} [.undelegate "a" "v" 10 5, .undelegate "a" "v" 20 7, .undelegate "a" "w" 20 3, .undelegate "b" "v" 20 4,
    .undelegate "a" "v" 20 7]

theorem exState_inv : Inv exState :=
  inv_undelegate _ _ _ _ _ (inv_undelegate _ _ _ _ _ (inv_undelegate _ _ _ _ _ (inv_undelegate _ _ _ _ _
    (inv_undelegate _ _ _ _ _ inv_empty))))

/-- the hypotheses of `pay_exact` / `pay_inv` hold of a non-trivial state: the call succeeds (9 out of 22, the first 8 of the
    purchase not charged to unbondings), the state is `Inv` -/
example : Inv exState ∧ (payFromAllUnbondings exState "a" 8 9).toOption.isSome = true := ⟨exState_inv, by decide⟩

/-! ### frame: other delegators -/

theorem walk_frame_entries (d : String) (xs : List (String × String × Entry)) :
    ∀ (u rem : Int) (s s' : State), (∀ p ∈ xs, p.1 = d) → payWalk xs u rem s = .ok s' →
      ∀ (d' v' : String), d' ≠ d → getEntries s'.ubds d' v' = getEntries s.ubds d' v' := by
  induction xs with
  | nil =>
    intro u rem s s' _ ok d' v' _
    unfold payWalk at ok
    split at ok
    · simp at ok
    · simp only [Except.ok.injEq] at ok; subst ok; rfl
  | cons p xs ih =>
    obtain ⟨d0, v, e⟩ := p
    intro u rem s s' hall ok d' v' hd
    have hd0 : d0 = d := hall (d0, v, e) (by simp)
    subst hd0
    have hall' : ∀ p ∈ xs, p.1 = d0 := fun p hp => hall p (by simp [hp])
    unfold payWalk at ok
    split at ok
    · split at ok
      · simp at ok
      · simp only [Except.ok.injEq] at ok; subst ok; rfl
    · dsimp only at ok
      split at ok
      · exact ih _ _ _ _ hall' ok d' v' hd
      · cases hp : payFromUnbondings s d0 v e (min rem (max (e.bal - u) 0)) with
        | error err => simp [hp] at ok
        | ok s1 =>
          simp only [hp] at ok
          rw [ih _ _ _ _ hall' ok d' v' hd]
          rcases payOne_shape' hp with e1 | ⟨es', r, _, e1⟩
          · subst e1; rfl
          · subst e1
            dsimp only
            rw [getEntries_setEntries, if_neg (fun h => hd h.1)]

/-- **nothing is taken from other delegators** -/
theorem pay_frame_entries (s s' : State) (d : String) (u x : Int) (ok : payFromAllUnbondings s d u x = .ok s') (d' v : String)
    (hd : d' ≠ d) : getEntries s'.ubds d' v = getEntries s.ubds d' v := by
  unfold payFromAllUnbondings at ok
  split at ok
  · simp only [Except.ok.injEq] at ok; subst ok; rfl
  · exact walk_frame_entries d _ u x s s' (alld_sorted _ _) ok d' v hd

example : (payFromAllUnbondings exState "a" 8 9).toOption.isSome = true := by decide

/-- without a matching entry nothing is booked although the coins leave the pool: the pair ("a","v") has an entry (10, 5), the
    snapshot element says (10, 6); the call succeeds and the state is unchanged -/
example : payFromUnbondings (run {} [.undelegate "a" "v" 10 5]) "a" "v" ⟨10, 6⟩ 2 = .ok (run {} [.undelegate "a" "v" 10 5]) ∧
    getEntries (run {} [.undelegate "a" "v" 10 5]).ubds "a" "v" = [⟨10, 5⟩] := ⟨by rfl, by decide⟩

/-- the wholesale removal of a one-pair slice goes wrong without Q1: the entry of "p" at time 100 is not queued, the slice of 100
    holds one pair of the bystander "b"; paying 5 from "p" removes the bystander's pair -/
example :
    let s : State := { ubds := [⟨"b", "w", [⟨100, 9⟩]⟩, ⟨"p", "v", [⟨100, 5⟩]⟩], queue := [(100, [("b", "w")])] }
    getSlice s.queue 100 = [("b", "w")] ∧
      (match payFromAllUnbondings s "p" 0 5 with
        | .ok s' => decide (getSlice s'.queue 100 = []) && decide (getEntries s'.ubds "b" "w" = [⟨100, 9⟩])
        | .error _ => false) = true := by decide

/-! ### frame: other delegators' queue pairs -/

theorem filter_erase_of_false (l : List Pair) (p : Pair) (f : Pair → Bool) (hf : f p = false) :
    (l.erase p).filter f = l.filter f := by
  induction l with
  | nil => rfl
  | cons a l ih =>
    by_cases h : a = p
    · subst h; simp [hf]
    · have h' : (a == p) = false := by simpa using h
      rw [List.erase_cons, h']
      simp only [Bool.false_eq_true, if_false, List.filter_cons, ih]

theorem payOne_frame_queue (s s' : State) (d v : String) (e0 : Entry) (x : Int) (h : Inv s)
    (hm : e0 ∈ getEntries s.ubds d v) (ok : payFromUnbondings s d v e0 x = .ok s') (d' : String) (hd : d' ≠ d) (t : Int) :
    (getSlice s'.queue t).filter (fun pr => pr.1 == d') = (getSlice s.queue t).filter (fun pr => pr.1 == d') := by
  obtain ⟨es', r, hp, e⟩ := payOne_shape hm ok
  subst e
  dsimp only
  cases r with
  | false => rfl
  | true =>
    simp only [if_true]
    rw [getSlice_unqueueFirst]
    by_cases ht : t = e0.t
    · subst ht
      rw [if_pos rfl]
      have hcd := h.counts d v e0.t
      unfold queuedAt entriesAt at hcd
      have hpos : 0 < (getEntries s.ubds d v).countP (fun e => e.t == e0.t) :=
        List.countP_pos_iff.mpr ⟨e0, hm, by simp⟩
      have hmem : (d, v) ∈ getSlice s.queue e0.t := by
        apply List.count_pos_iff.mp; omega
      have hf : (fun pr : Pair => pr.1 == d') (d, v) = false := by
        simp; exact fun e => hd e.symm
      split
      · exact filter_erase_of_false _ _ _ hf
      · rename_i hl
        rw [length_le_one_of_mem hmem hl]
        simp [List.filter_cons]
        exact fun e => hd e.symm
    · rw [if_neg ht]

theorem reach_frame_queue {d : String} {nn : Prop} {s s' : State} {r : Int} (hr : Reach d nn s r s') (h : Inv s)
    (d' : String) (hd : d' ≠ d) (t : Int) :
    (getSlice s'.queue t).filter (fun pr => pr.1 == d') = (getSlice s.queue t).filter (fun pr => pr.1 == d') := by
  induction hr with
  | refl s => rfl
  | step s s1 s' v e t1 r rem hr hm ht hle ok rest ih =>
    rw [ih (payOne_inv _ _ _ _ _ _ h hm ok), payOne_frame_queue _ _ _ _ _ _ h hm ok d' hd t]

/-- **under the invariant no other delegator's queue pair is touched** -/
theorem pay_frame_queue (s s' : State) (d : String) (u x : Int) (h : Inv s) (ok : payFromAllUnbondings s d u x = .ok s')
    (d' : String) (hd : d' ≠ d) (t : Int) :
    (getSlice s'.queue t).filter (fun pr => pr.1 == d') = (getSlice s.queue t).filter (fun pr => pr.1 == d') :=
  reach_frame_queue (pay_reach s s' d u x h.toWF ok) h d' hd t

example : Inv exState ∧ (payFromAllUnbondings exState "a" 8 9).toOption.isSome = true ∧ "b" ≠ "a" :=
  ⟨exState_inv, by decide, by decide⟩

/-! ### times and balances -/

theorem payOne_times (s s' : State) (d v : String) (e0 : Entry) (x : Int) (hx : 0 ≤ x)
    (ok : payFromUnbondings s d v e0 x = .ok s') (d' v' : String) (e' : Entry) (he : e' ∈ getEntries s'.ubds d' v') :
    ∃ e ∈ getEntries s.ubds d' v', e.t = e'.t ∧ e'.bal ≤ e.bal := by
  rcases payOne_shape' ok with e1 | ⟨es', r, hp, e1⟩
  · subst e1; exact ⟨e', he, rfl, Int.le_refl _⟩
  · subst e1
    dsimp only at he
    rw [getEntries_setEntries] at he
    by_cases hdv : d' = d ∧ v' = v
    · obtain ⟨hd1, hd2⟩ := hdv
      subst hd1; subst hd2
      rw [if_pos ⟨rfl, rfl⟩] at he
      obtain ⟨l1, l2, h1, h2⟩ := payEntry_spec _ _ _ _ _ hp
      rw [h1]
      rcases h2 with ⟨_, _, c⟩ | ⟨_, _, c⟩
      · subst c
        refine ⟨e', ?_, rfl, Int.le_refl _⟩
        rcases List.mem_append.mp he with m | m
        · simp [m]
        · simp [m]
      · subst c
        rcases List.mem_append.mp he with m | m
        · exact ⟨e', by simp [m], rfl, Int.le_refl _⟩
        · rcases List.mem_cons.mp m with m | m
          · subst m
            exact ⟨e0, by simp, rfl, by simp only; omega⟩
          · exact ⟨e', by simp [m], rfl, Int.le_refl _⟩
    · rw [if_neg hdv] at he
      exact ⟨e', he, rfl, Int.le_refl _⟩

theorem reach_times {d : String} {nn : Prop} {s s' : State} {r : Int} (hr : Reach d nn s r s') (v : String) (e' : Entry)
    (he : e' ∈ getEntries s'.ubds d v) : ∃ e ∈ getEntries s.ubds d v, e.t = e'.t ∧ e'.bal ≤ e.bal := by
  induction hr with
  | refl s => exact ⟨e', he, rfl, Int.le_refl _⟩
  | step s s1 s' v1 e t r rem hr hm ht hle ok rest ih =>
    obtain ⟨e1, hm1, ht1, hb1⟩ := ih he
    obtain ⟨e2, hm2, ht2, hb2⟩ := payOne_times _ _ _ _ _ _ (by omega) ok d v e1 hm1
    exact ⟨e2, hm2, ht2.trans ht1, by omega⟩

/-- no completion time changes and balances only shrink: every entry afterwards comes from an entry before with the same time -/
theorem pay_times (s s' : State) (d : String) (u x : Int) (h : WF s) (ok : payFromAllUnbondings s d u x = .ok s') (v : String)
    (e' : Entry) (he : e' ∈ getEntries s'.ubds d v) : ∃ e ∈ getEntries s.ubds d v, e.t = e'.t ∧ e'.bal ≤ e.bal :=
  reach_times (pay_reach s s' d u x h ok) v e' he

/-! ### no empty entry is left behind -/

theorem payOne_pos (s s' : State) (d v : String) (e0 : Entry) (x : Int)
    (hpos : ∀ v, ∀ e ∈ getEntries s.ubds d v, 0 < e.bal) (hx : x ≤ e0.bal)
    (ok : payFromUnbondings s d v e0 x = .ok s') : ∀ v', ∀ e ∈ getEntries s'.ubds d v', 0 < e.bal := by
  intro v' e' he
  rcases payOne_shape' ok with e1 | ⟨es', r, hp, e1⟩
  · subst e1; exact hpos v' e' he
  · subst e1
    dsimp only at he
    rw [getEntries_setEntries] at he
    by_cases hdv : v' = v
    · subst hdv
      rw [if_pos ⟨rfl, rfl⟩] at he
      obtain ⟨l1, l2, h1, h2⟩ := payEntry_spec _ _ _ _ _ hp
      have hp' := hpos v'
      rw [h1] at hp'
      rcases h2 with ⟨_, _, c⟩ | ⟨_, hne, c⟩
      · subst c
        rcases List.mem_append.mp he with m | m
        · exact hp' e' (by simp [m])
        · exact hp' e' (by simp [m])
      · subst c
        rcases List.mem_append.mp he with m | m
        · exact hp' e' (by simp [m])
        · rcases List.mem_cons.mp m with m | m
          · subst m; simp only; omega
          · exact hp' e' (by simp [m])
    · rw [if_neg (fun h => hdv h.2)] at he
      exact hpos v' e' he

theorem reach_pos {d : String} {s s' : State} {r : Int} (hr : Reach d True s r s')
    (hpos : ∀ v, ∀ e ∈ getEntries s.ubds d v, 0 < e.bal) : ∀ v, ∀ e ∈ getEntries s'.ubds d v, 0 < e.bal := by
  induction hr with
  | refl s => exact hpos
  | step s s1 s' v1 e t r rem hr hm ht hle ok rest ih =>
    exact ih (payOne_pos _ _ _ _ _ _ hpos (hle trivial) ok)

theorem reach_mono {d : String} {nn nn' : Prop} (hi : nn' → nn) {s s' : State} {r : Int} (hr : Reach d nn s r s') :
    Reach d nn' s r s' := by
  induction hr with
  | refl s => exact Reach.refl s
  | step s s1 s' v1 e t r rem hr hm ht hle ok rest ih =>
    exact Reach.step s s1 s' v1 e t r rem hr hm ht (fun h => hle (hi h)) ok ih

/-- exactly the used-up entries are removed: with positive balances before and 0 ≤ u, all balances are positive afterwards -/
theorem pay_no_empty_entry (s s' : State) (d : String) (u x : Int) (h : WF s) (hu : 0 ≤ u)
    (hpos : ∀ v, ∀ e ∈ getEntries s.ubds d v, 0 < e.bal) (ok : payFromAllUnbondings s d u x = .ok s') (v : String) :
    ∀ e ∈ getEntries s'.ubds d v, 0 < e.bal :=
  reach_pos (reach_mono (fun _ => hu) (pay_reach s s' d u x h ok)) hpos v

/-! ### the hypotheses of the last two theorems on a concrete state -/

theorem getEntries_mem {us : List Ubd} {d v : String} {e : Entry} (h : e ∈ getEntries us d v) :
    ∃ u ∈ us, e ∈ u.entries := by
  induction us with
  | nil => simp at h
  | cons x xs ih =>
    rw [getEntries_cons] at h
    split at h
    · exact ⟨x, by simp, h⟩
    · obtain ⟨u, hu, he⟩ := ih h
      exact ⟨u, by simp [hu], he⟩

/-- `pay_times`: a well-formed state, a successful call, an entry afterwards (the shrunk one) -/
example : WF exState ∧ (payFromAllUnbondings exState "a" 8 9).toOption.isSome = true ∧
    (match payFromAllUnbondings exState "a" 8 9 with
      | .ok s' => decide ((⟨20, 1⟩ : Entry) ∈ getEntries s'.ubds "a" "v")
      | .error _ => false) = true := ⟨exState_inv.toWF, by decide, by decide⟩

/-- `pay_no_empty_entry`: a well-formed state with positive balances, 0 ≤ 8, a successful call -/
example : WF exState ∧ (0 : Int) ≤ 8 ∧ (∀ v, ∀ e ∈ getEntries exState.ubds "a" v, 0 < e.bal) ∧
    (payFromAllUnbondings exState "a" 8 9).toOption.isSome = true := by
  refine ⟨exState_inv.toWF, by decide, ?_, by decide⟩
  intro v e he
  obtain ⟨u, hu, hm⟩ := getEntries_mem he
  have hall : ∀ u ∈ exState.ubds, ∀ e ∈ u.entries, 0 < e.bal := by decide
  exact hall u hu e hm

/-- `0 ≤ u` is needed in `pay_no_empty_entry`: with a negative `uncovered` an entry is overdrawn (balance -3 afterwards) -/
example : (match payFromAllUnbondings exState "a" (-3) 22 with
      | .ok s' => decide ((⟨20, -3⟩ : Entry) ∈ getEntries s'.ubds "a" "v")
      | .error _ => false) = true := by decide

end Shentu.UbdQueue.Pay
