import Shentu.Proofs.C16m2Exec
/-
  Helper lemmas for part 4 of `Shentu/Props/C16m2.lean`: the memory size that the cost lookup (`gasLookUp` → `dynPart` →
  `calcMemSize`) hands to `expandMemory`, in terms of the stack operands it peeks at.
-/
namespace Shentu.C16m2H
open Shentu.EVM Shentu.EVM.MemSpec Shentu.C16mH
open Shentu.Gen.Gas (OpInfo Dyn MemRule)
set_option linter.unusedSimpArgs false

theorem pure_val {α : Type} (a : α) (s : Frame) : ((pure a : M α) s).val = (some a, s) := rfl

/-- a successful `m >>= f` went through a successful `m` -/
theorem bind_some {α β : Type} {m : M α} {f : α → M β} {s : Frame} {b : β} {s' : Frame}
    (h : ((m >>= f) s).val = (some b, s')) :
    ∃ a s1, (m s).val = (some a, s1) ∧ (f a s1).val = (some b, s') := by
  show ∃ a s1, (m s).val = (some a, s1) ∧ (f a s1).val = (some b, s')
  have h' : ((M.bind m f) s).val = (some b, s') := h
  unfold M.bind at h'
  match hm : m s with
  | ⟨(none, s1), h1⟩ => rw [hm] at h'; simp at h'
  | ⟨(some a, s1), h1⟩ =>
    rw [hm] at h'
    refine ⟨a, s1, rfl, ?_⟩
    simpa using h'

/-- no computation of the model clears the error sink -/
theorem err_sticky {α : Type} {m : M α} {s s' : Frame} {o : Option α} (h : (m s).val = (o, s')) (he : s'.err = none) :
    s.err = none := by
  have hi : Inv s (m s).val.2 := (m s).property
  rw [h] at hi
  cases hs : s.err with
  | none => rfl
  | some e =>
    have := hi.2 (by rw [hs]; rfl)
    rw [he] at this
    cases this

/-- `peek n` (vm/utils.go `GetWord256`: Dup then Pop) on a stack that is deep enough, with the gas for its three stack
    operations: the n-th word, and only the gas changes -/
theorem peek_ok (n : Nat) (s : Frame) (hn : n < s.stack.length) (hg : 3 ≤ s.gas) :
    (peek n s).val = (some (s.stack.getD n 0), { s with gas := s.gas - 3 }) := by
  unfold peek
  show (M.bind (dup _) _ s).val = _
  rw [bind_val (dup_ok s (n + 1) (by omega) (by omega))]
  rw [pop_ok _ (s.stack.getD n 0) s.stack rfl (by simp only []; omega)]
  simp only [Nat.add_sub_cancel, Nat.sub_sub]

/-- the word-aligned size of an access, as the cost lookup rounds it -/
theorem memNeed_def (o len : Nat) : memNeed o len = toWordSize (memSize64 o len).1 * 32 := rfl

/-- for a constant length below 2^64 the two size functions of gas.go agree -/
theorem memSize64U_eq (o n : Nat) (hn : n < U64) : memSize64U o n = memSize64 o n := by
  unfold memSize64
  rw [if_neg (by omega)]

theorem toWordSize_mono {a b : Nat} (h : a ≤ b) : toWordSize a ≤ toWordSize b := by
  have hU := U64_val
  unfold toWordSize
  split <;> split <;> omega

theorem toWordSize_max (a b : Nat) : toWordSize (max a b) * 32 = max (toWordSize a * 32) (toWordSize b * 32) := by
  rcases Nat.le_total a b with h | h
  · have := toWordSize_mono h
    rw [Nat.max_eq_right h]; omega
  · have := toWordSize_mono h
    rw [Nat.max_eq_left h]; omega

/-- **The memory component of the cost lookup.**  When the table names a memory rule and the sizes it computes from the stack
    are `(m, of)`, a lookup that ends without a pending error reports exactly `m` rounded up to words, and neither `m` nor the
    rounding overflowed — unless the lookup answered with the cost that no gas covers (specification mode only). -/
theorem dynPart_mem (q : Quirks) (self : Nat) (info : OpInfo) (d : Dyn) (s : Frame) (hm : info.mem ≠ .none)
    (m : Nat) (of : Bool) (s1 : Frame) (hcalc : (calcMemSize info.mem s).val = (some (m, of), s1))
    (cost mem : Nat) (s' : Frame) (h : (dynPart q self info d s).val = (some (cost, mem), s')) (he : s'.err = none) :
    (of = false ∧ toWordSize m * 32 < U64 ∧ mem = toWordSize m * 32) ∨
    (q.hugeOffsetNotOog = false ∧ cost = hugeCost ∧ mem = 0) := by
  -- the tail of `dynPart` after the memory size has been fixed
  have tail : ∀ (mem0 : Nat) (s2 : Frame),
      ((dynGas self d mem0 >>= fun g =>
          match g with
          | none => if q.hugeOffsetNotOog = true then pushErr Err.generic >>= fun _ => pure (g.getD 0, mem0)
                    else pure (hugeCost, 0)
          | some _ => pure (g.getD 0, mem0)) s2).val = (some (cost, mem), s') →
      mem = mem0 ∨ (q.hugeOffsetNotOog = false ∧ cost = hugeCost ∧ mem = 0) := by
    intro mem0 s2 ht
    obtain ⟨g, s3, _, ht⟩ := bind_some ht
    cases g with
    | some c =>
      simp only [] at ht
      rw [pure_val] at ht
      simp only [Prod.mk.injEq, Option.some.injEq] at ht
      exact Or.inl ht.1.2.symm
    | none =>
      simp only [] at ht
      by_cases hq : q.hugeOffsetNotOog = true
      · rw [if_pos hq] at ht
        obtain ⟨_, s4, _, ht⟩ := bind_some ht
        rw [pure_val] at ht
        simp only [Prod.mk.injEq, Option.some.injEq] at ht
        exact Or.inl ht.1.2.symm
      · rw [if_neg hq, pure_val] at ht
        simp only [Prod.mk.injEq, Option.some.injEq] at ht
        exact Or.inr ⟨by simpa using hq, ht.1.1.symm, ht.1.2.symm⟩
  unfold dynPart at h
  generalize info.mem = rule at h hcalc hm
  cases rule
  case none => exact absurd rfl hm
  all_goals (
    simp only [] at h
    obtain ⟨x, s1', hx, h⟩ := bind_some h
    rw [hcalc] at hx
    simp only [Prod.mk.injEq, Option.some.injEq] at hx
    obtain ⟨hx1, hx2⟩ := hx
    subst hx1; subst hx2
    simp only [] at h
    split at h
    · -- specification mode: the cost no gas covers
      rename_i hc
      obtain ⟨_, s2, _, h⟩ := bind_some h
      rw [if_pos trivial, pure_val] at h
      simp only [Prod.mk.injEq, Option.some.injEq] at h
      have hq : q.hugeOffsetNotOog = false := by
        cases hh : q.hugeOffsetNotOog
        · rfl
        · rw [hh] at hc; simp at hc
      exact Or.inr ⟨hq, h.1.1.symm, h.1.2.symm⟩
    · cases hof : of with
      | true =>
        -- IntegerOverflow is pushed: the lookup cannot end without a pending error
        exfalso
        simp only [hof, if_true] at h
        obtain ⟨_, s2, hp, h⟩ := bind_some h
        have h2 : s2.err = none := by
          split at h
          · obtain ⟨_, s3, hp3, h⟩ := bind_some h
            exact err_sticky hp3 (err_sticky h he)
          · exact err_sticky h he
        unfold pushErr at hp
        split at hp
        · rename_i e hse
          simp only [Prod.mk.injEq, Option.some.injEq] at hp
          rw [← hp.2, hse] at h2; cases h2
        · simp only [Prod.mk.injEq, Option.some.injEq] at hp
          rw [← hp.2] at h2; cases h2
      | false =>
        simp only [hof, Bool.false_eq_true, if_false] at h
        by_cases hw : toWordSize m * 32 ≥ U64
        · exfalso
          rw [if_pos hw] at h
          obtain ⟨_, s2, hp, h⟩ := bind_some h
          have h2 : s2.err = none := err_sticky h he
          unfold pushErr at hp
          split at hp
          · rename_i e hse
            simp only [Prod.mk.injEq, Option.some.injEq] at hp
            rw [← hp.2, hse] at h2; cases h2
          · simp only [Prod.mk.injEq, Option.some.injEq] at hp
            rw [← hp.2] at h2; cases h2
        · rw [if_neg hw] at h
          try simp only [Bool.false_eq_true, if_false] at h
          have hlt : toWordSize m * 32 < U64 := by omega
          rw [Nat.mod_eq_of_lt hlt] at h
          rcases tail _ _ h with h3 | h3
          · exact Or.inl ⟨rfl, hlt, h3⟩
          · exact Or.inr h3
  )

/-- the same for the whole lookup: the second component of `gasLookUp` is what `expandMemory` is then called with -/
theorem lookup_mem (q : Quirks) (self : Nat) (info : OpInfo) (s : Frame) (hd : info.dyn ≠ .none) (hm : info.mem ≠ .none)
    (m : Nat) (of : Bool) (s1 : Frame) (hcalc : (calcMemSize info.mem s).val = (some (m, of), s1))
    (cost mem : Nat) (s' : Frame) (h : (gasLookUp q self info s).val = (some (cost, mem), s')) (he : s'.err = none) :
    (of = false ∧ toWordSize m * 32 < U64 ∧ mem = toWordSize m * 32) ∨
    (q.hugeOffsetNotOog = false ∧ hugeCost ≤ cost ∧ mem = 0) := by
  unfold gasLookUp at h
  rw [if_neg hd] at h
  obtain ⟨gm, s2, h1, h2⟩ := bind_some h
  rw [pure_val] at h2
  simp only [Prod.mk.injEq, Option.some.injEq] at h2
  obtain ⟨⟨hc, hmem⟩, hs⟩ := h2
  subst hs
  obtain ⟨c0, m0⟩ := gm
  simp only [] at hc hmem
  subst hmem
  rcases dynPart_mem q self info info.dyn s hm m of s1 hcalc c0 m0 s2 h1 he with h3 | ⟨h3, h4, h5⟩
  · exact Or.inl h3
  · exact Or.inr ⟨h3, by omega, h5⟩

/-- `calcMemSize64WithUint` on the word at stack position `a` and a constant length -/
theorem calc_memUint64 (a n : Nat) (s : Frame) (ha : a < s.stack.length) (hg : 3 ≤ s.gas) :
    (calcMemSize (.memUint64 a n) s).val = (some (memSize64U (s.stack.getD a 0) n), { s with gas := s.gas - 3 }) := by
  unfold calcMemSize
  show (M.bind (peek a) _ s).val = _
  rw [bind_val (peek_ok a s ha hg)]
  rfl

/-- `calcMemSize64` on the words at stack positions `a` (offset) and `b` (length) -/
theorem calc_mem64 (a b : Nat) (s : Frame) (ha : a < s.stack.length) (hb : b < s.stack.length) (hg : 6 ≤ s.gas) :
    (calcMemSize (.mem64 a b) s).val =
      (some (memSize64 (s.stack.getD a 0) (s.stack.getD b 0)), { s with gas := s.gas - 6 }) := by
  unfold calcMemSize
  show (M.bind (peek a) _ s).val = _
  rw [bind_val (peek_ok a s ha (by omega))]
  show (M.bind (peek b) _ _).val = _
  rw [bind_val (peek_ok b { s with gas := s.gas - 3 } hb (by simp only []; omega))]
  simp only [Nat.sub_sub]
  rfl

/-- the larger of two windows (the call family: input window and output window): whenever no overflow is reported, neither
    window overflowed and the size is the larger of the two -/
theorem calc_mem64Comp (a b c d : Nat) (s : Frame) (ha : a < s.stack.length) (hb : b < s.stack.length)
    (hc : c < s.stack.length) (hd : d < s.stack.length) (hg : 12 ≤ s.gas) :
    ∃ m of s1, (calcMemSize (.mem64Comp a b c d) s).val = (some (m, of), s1) ∧
      (of = false → (memSize64 (s.stack.getD a 0) (s.stack.getD b 0)).2 = false ∧
        (memSize64 (s.stack.getD c 0) (s.stack.getD d 0)).2 = false ∧
        m = max (memSize64 (s.stack.getD a 0) (s.stack.getD b 0)).1 (memSize64 (s.stack.getD c 0) (s.stack.getD d 0)).1) := by
  unfold calcMemSize
  simp only []
  show ∃ m of s1, (M.bind (peek a) _ s).val = _ ∧ _
  rw [bind_val (peek_ok a s ha (by omega))]
  show ∃ m of s1, (M.bind (peek b) _ _).val = _ ∧ _
  rw [bind_val (peek_ok b { s with gas := s.gas - 3 } hb (by simp only []; omega))]
  simp only []
  by_cases hx : (memSize64 (s.stack.getD a 0) (s.stack.getD b 0)).2 = true
  · rw [if_pos hx]
    exact ⟨0, true, _, rfl, fun h => by cases h⟩
  · rw [if_neg hx]
    show ∃ m of s1, (M.bind (peek c) _ _).val = _ ∧ _
    rw [bind_val (peek_ok c { s with gas := s.gas - 3 - 3 } hc (by simp only []; omega))]
    show ∃ m of s1, (M.bind (peek d) _ _).val = _ ∧ _
    rw [bind_val (peek_ok d { s with gas := s.gas - 3 - 3 - 3 } hd (by simp only []; omega))]
    simp only []
    by_cases hy : (memSize64 (s.stack.getD c 0) (s.stack.getD d 0)).2 = true
    · rw [if_pos hy]
      exact ⟨0, true, _, rfl, fun h => by cases h⟩
    · rw [if_neg hy]
      exact ⟨_, false, _, rfl, fun _ => ⟨by simpa using hx, by simpa using hy, rfl⟩⟩

theorem infoArr_size : infoArr.size = 256 := by simp [infoArr]

theorem opInfo_eq_infoOf (op : Nat) (h : op < 256) : opInfo op = infoOf op := by
  unfold opInfo
  have hs : op < infoArr.size := by rw [infoArr_size]; exact h
  simp [Array.getD, infoArr]
  intro h'
  omega

/-- the lookup either reports `need`, or (specification mode only) answers with the cost that no gas covers -/
def Charged (q : Quirks) (cost mem need : Nat) : Prop :=
  mem = need ∨ (q.hugeOffsetNotOog = false ∧ hugeCost ≤ cost ∧ mem = 0)

/-- a table row with the rule `calcMemSize64WithUint(stack[a], n)` -/
theorem charged_memUint64 (q : Quirks) (self : Nat) (info : OpInfo) (s : Frame) (a n : Nat) (hm : info.mem = .memUint64 a n)
    (hd : info.dyn ≠ .none) (hn : n < U64) (ha : a < s.stack.length) (hg : 3 ≤ s.gas)
    (cost mem : Nat) (s' : Frame) (h : (gasLookUp q self info s).val = (some (cost, mem), s')) (he : s'.err = none) :
    Charged q cost mem (memNeed (s.stack.getD a 0) n) := by
  have hcalc := calc_memUint64 a n s ha hg
  rw [← hm] at hcalc
  rcases lookup_mem q self info s hd (by rw [hm]; exact fun e => by cases e) (memSize64U (s.stack.getD a 0) n).1
    (memSize64U (s.stack.getD a 0) n).2 _ hcalc cost mem s' h he with h3 | h3
  · left
    rw [h3.2.2, memSize64U_eq _ _ hn]
    rfl
  · exact Or.inr h3

/-- a table row with the rule `calcMemSize64(stack[a], stack[b])` -/
theorem charged_mem64 (q : Quirks) (self : Nat) (info : OpInfo) (s : Frame) (a b : Nat) (hm : info.mem = .mem64 a b)
    (hd : info.dyn ≠ .none) (ha : a < s.stack.length) (hb : b < s.stack.length) (hg : 6 ≤ s.gas)
    (cost mem : Nat) (s' : Frame) (h : (gasLookUp q self info s).val = (some (cost, mem), s')) (he : s'.err = none) :
    Charged q cost mem (memNeed (s.stack.getD a 0) (s.stack.getD b 0)) := by
  have hcalc := calc_mem64 a b s ha hb hg
  rw [← hm] at hcalc
  rcases lookup_mem q self info s hd (by rw [hm]; exact fun e => by cases e) (memSize64 (s.stack.getD a 0) (s.stack.getD b 0)).1
    (memSize64 (s.stack.getD a 0) (s.stack.getD b 0)).2 _ hcalc cost mem s' h he with h3 | h3
  · left
    rw [h3.2.2]
    rfl
  · exact Or.inr h3

/-- a table row with the rule "the larger of `calcMemSize64(stack[a], stack[b])` and `calcMemSize64(stack[c], stack[d])`" -/
theorem charged_mem64Comp (q : Quirks) (self : Nat) (info : OpInfo) (s : Frame) (a b c d : Nat)
    (hm : info.mem = .mem64Comp a b c d) (hd : info.dyn ≠ .none) (ha : a < s.stack.length) (hb : b < s.stack.length)
    (hc : c < s.stack.length) (hdd : d < s.stack.length) (hg : 12 ≤ s.gas)
    (cost mem : Nat) (s' : Frame) (h : (gasLookUp q self info s).val = (some (cost, mem), s')) (he : s'.err = none) :
    Charged q cost mem (max (memNeed (s.stack.getD a 0) (s.stack.getD b 0)) (memNeed (s.stack.getD c 0) (s.stack.getD d 0))) := by
  obtain ⟨m, of, s1, hcalc, hof⟩ := calc_mem64Comp a b c d s ha hb hc hdd hg
  rw [← hm] at hcalc
  rcases lookup_mem q self info s hd (by rw [hm]; exact fun e => by cases e) _ _ _ hcalc cost mem s' h he with h3 | h3
  · left
    obtain ⟨_, _, hmx⟩ := hof h3.1
    rw [h3.2.2, hmx, toWordSize_max]
    rfl
  · exact Or.inr h3

end Shentu.C16m2H
