import Shentu.Proofs.C09qStore
/-
  `delayUnbonding` (x/shield/keeper/withdraw.go DelayUnbonding) against the queue invariant of C09qDefs.

  Proved as stated: delay_inv, delay_frame_entries, delay_error, delay_entries (with a local `List.Forall₂`, core Lean has
  none), delay_frame_queue, delay_noop, delay_latest_first.
  False as first stated, with kernel-checked counterexamples: delay_covered_fails, delay_panics_fails,
  delay_ok_of_covered_fails.  The cause is the same in all three: when one pair of the provider has two entries completing
  exactly at the delayed time, `retime` picks the first of them for both candidates, so one balance is counted twice and the
  other never.  With the extra hypothesis `hone : ∀ v, entriesAt s p v D ≤ 1` (no pair has two entries completing exactly at
  the delayed time beforehand) all three hold: delay_covered_partial, delay_panics_partial, delay_ok_of_covered_partial.

  The loop invariant is `Inv` together with `Cands` (every remaining candidate still has its entry; below the delayed time
  the remaining candidates are exactly the entries; latest first).
-/
namespace Shentu.UbdQueue.Delay
open Shentu.UbdQueue Shentu.UbdQueue.Store

/-! ### lists -/

/-- elementwise relation of two lists of the same length (core Lean has no `List.Forall₂`; this is the usual definition,
    local to this namespace) -/
inductive List.Forall₂ (R : α → β → Prop) : List α → List β → Prop
  | nil : List.Forall₂ R [] []
  | cons {a b l₁ l₂} : R a b → List.Forall₂ R l₁ l₂ → List.Forall₂ R (a :: l₁) (b :: l₂)

theorem forall2_mid {R : α → β → Prop} {l1 : List α} {l1' : List β} (h1 : List.Forall₂ R l1 l1') {a : α} {b : β} (hab : R a b)
    {l2 : List α} {l2' : List β} (h2 : List.Forall₂ R l2 l2') : List.Forall₂ R (l1 ++ a :: l2) (l1' ++ b :: l2') := by
  induction h1 with
  | nil => exact List.Forall₂.cons hab h2
  | cons h _ ih => exact List.Forall₂.cons h ih

theorem forall2_refl {R : α → α → Prop} (hr : ∀ a, R a a) (l : List α) : List.Forall₂ R l l := by
  induction l with
  | nil => exact List.Forall₂.nil
  | cons a l ih => exact List.Forall₂.cons (hr a) ih

theorem forall2_trans {R : α → α → Prop} (ht : ∀ a b c, R a b → R b c → R a c) {l1 l2 : List α}
    (h12 : List.Forall₂ R l1 l2) : ∀ {l3 : List α}, List.Forall₂ R l2 l3 → List.Forall₂ R l1 l3 := by
  induction h12 with
  | nil => intro l3 h; cases h; exact List.Forall₂.nil
  | cons h _ ih =>
    intro l3 h23
    cases h23 with
    | cons h' t' => exact List.Forall₂.cons (ht _ _ _ h h') (ih t')

/-- a relation that holds elementwise can be carried along a permutation of the left list -/
theorem forall2_perm {R : α → β → Prop} {b c : List α} (hp : b.Perm c) :
    ∀ d, List.Forall₂ R c d → ∃ d', d'.Perm d ∧ List.Forall₂ R b d' := by
  induction hp with
  | nil => intro d h; exact ⟨d, List.Perm.refl _, h⟩
  | cons x _ ih =>
    intro d h
    cases h with
    | cons hx ht =>
      obtain ⟨d', hp', hf'⟩ := ih _ ht
      exact ⟨_ :: d', List.Perm.cons _ hp', List.Forall₂.cons hx hf'⟩
  | swap x y l =>
    intro d h
    cases h with
    | cons hx ht =>
      cases ht with
      | cons hy ht' =>
        exact ⟨_, List.Perm.swap _ _ _, List.Forall₂.cons hy (List.Forall₂.cons hx ht')⟩
  | trans _ _ ih1 ih2 =>
    intro d h
    obtain ⟨d1, hp1, hf1⟩ := ih2 d h
    obtain ⟨d2, hp2, hf2⟩ := ih1 d1 hf1
    exact ⟨d2, hp2.trans hp1, hf2⟩

theorem eraseLastP_spec {f : α → Bool} {l : List α} (h : ∃ x ∈ l, f x = true) :
    ∃ l1 a l2, f a = true ∧ l = l1 ++ a :: l2 ∧ eraseLastP f l = l1 ++ l2 := by
  obtain ⟨x, hx, hfx⟩ := h
  have hx' : x ∈ l.reverse := by simpa using hx
  obtain ⟨a, m1, m2, _, ha, hl, he⟩ := List.exists_of_eraseP hx' hfx
  refine ⟨m2.reverse, a, m1.reverse, ha, ?_, ?_⟩
  · have := congrArg List.reverse hl
    simpa using this
  · unfold eraseLastP; rw [he]; simp

/-! ### bubble, retime -/

theorem bubble_perm (x : Entry) (es : List Entry) : (bubble x es).Perm (x :: es) := by
  induction es with
  | nil => simp [bubble]
  | cons e es ih =>
    unfold bubble; split
    · exact (List.Perm.cons e ih).trans (List.Perm.swap x e es)
    · exact List.Perm.refl _

theorem retime_some {es : List Entry} {T D : Int} : ∀ {es' : List Entry} {b : Int}, retime es T D = some (es', b) →
    ∃ l1 e l2, es = l1 ++ e :: l2 ∧ e.t = T ∧ e.bal = b ∧ es'.Perm (l1 ++ ⟨D, b⟩ :: l2) := by
  induction es with
  | nil => intro es' b h; simp [retime] at h
  | cons e es ih =>
    intro es' b h
    unfold retime at h
    split at h
    · rename_i he
      simp only [Option.some.injEq, Prod.mk.injEq] at h
      obtain ⟨h1, h2⟩ := h
      refine ⟨[], e, es, rfl, by simpa using he, h2, ?_⟩
      rw [← h1, ← h2]; exact bubble_perm _ _
    · cases hr : retime es T D with
      | none => simp [hr] at h
      | some r =>
        obtain ⟨es1, b1⟩ := r
        simp only [hr, Option.some.injEq, Prod.mk.injEq] at h
        obtain ⟨h1, h2⟩ := h
        obtain ⟨l1, e0, l2, hes, ht, hb, hp⟩ := ih hr
        refine ⟨e :: l1, e0, l2, by simp [hes], ht, by omega, ?_⟩
        rw [← h1, ← h2]; exact List.Perm.cons e hp

theorem retime_none {es : List Entry} {T D : Int} (h : retime es T D = none) : es.countP (fun e => e.t == T) = 0 := by
  induction es with
  | nil => rfl
  | cons e es ih =>
    unfold retime at h
    split at h
    · simp at h
    · rename_i he
      cases hr : retime es T D with
      | none => simp [he, ih hr]
      | some r => simp [hr] at h

/-! ### the queue side of one step -/

theorem unqueueLast_spec {q : List Slice} {pr : Pair} {T : Int} (hm : pr ∈ getSlice q T) :
    ∃ l1 l2, getSlice q T = l1 ++ pr :: l2 ∧
      ∀ t', getSlice (unqueueLast q pr T) t' = if t' = T then l1 ++ l2 else getSlice q t' := by
  unfold unqueueLast
  by_cases hlen : (getSlice q T).length > 1
  · have hany : (getSlice q T).any (· == pr) = true := by
      simp only [List.any_eq_true]; exact ⟨pr, hm, by simp⟩
    obtain ⟨l1, a, l2, ha, hl, he⟩ := eraseLastP_spec (f := (· == pr)) ⟨pr, hm, by simp⟩
    have : a = pr := by simpa using ha
    subst this
    refine ⟨l1, l2, hl, ?_⟩
    intro t'
    simp only [hlen, hany, if_true]
    rw [getSlice_setSlice, he]
  · have : getSlice q T = [pr] := by
      match hs : getSlice q T with
      | [] => rw [hs] at hm; simp at hm
      | [x] => rw [hs] at hm; simp at hm; rw [hm]
      | _ :: _ :: _ => rw [hs] at hlen; simp only [List.length_cons] at hlen; omega
    refine ⟨[], [], by simpa using this, ?_⟩
    intro t'
    simp only [hlen, if_false]
    rw [getSlice_removeSlice]; simp

theorem times_unqueueLast {q : List Slice} (h : q.Pairwise (fun x y => x.1 < y.1)) (pr : Pair) (T : Int) :
    (unqueueLast q pr T).Pairwise (fun x y => x.1 < y.1) := by
  unfold unqueueLast; dsimp only
  split
  · split
    · exact times_setSlice h _ _
    · exact h
  · exact times_removeSlice h _

theorem step_queue_count {q : List Slice} {pr : Pair} {T D : Int} (hm : pr ∈ getSlice q T) (x : Pair) (t' : Int) :
    (getSlice (insertUBDQueue (unqueueLast q pr T) pr D) t').count x + (if t' = T ∧ x = pr then 1 else 0)
      = (getSlice q t').count x + (if t' = D ∧ x = pr then 1 else 0) := by
  obtain ⟨l1, l2, hl, hs⟩ := unqueueLast_spec hm
  rw [getSlice_insertUBDQueue, hs, hs]
  by_cases hx : x = pr
  · subst hx
    by_cases h1 : t' = D <;> by_cases h2 : t' = T
    · subst h1; subst h2; simp [hl, List.count_append]
    · subst h1; simp [h2, List.count_append]
    · subst h2; simp [h1, hl, List.count_append]; omega
    · simp [h1, h2]
  · have hx' : ¬ pr = x := fun e => hx e.symm
    by_cases h1 : t' = D <;> by_cases h2 : t' = T
    · subst h1; subst h2; simp [hl, hx, hx', List.count_append]
    · subst h1; simp [h2, hx, hx', List.count_append]
    · subst h2; simp [h1, hl, hx, hx', List.count_append]
    · simp [h1, h2]

theorem step_queue_filter {q : List Slice} {pr : Pair} {T D : Int} (hm : pr ∈ getSlice q T) (d : String) (hd : d ≠ pr.1)
    (t' : Int) :
    (getSlice (insertUBDQueue (unqueueLast q pr T) pr D) t').filter (fun x => x.1 == d)
      = (getSlice q t').filter (fun x => x.1 == d) := by
  obtain ⟨l1, l2, hl, hs⟩ := unqueueLast_spec hm
  have hpr : (pr.1 == d) = false := by simpa using fun e => hd e.symm
  rw [getSlice_insertUBDQueue, hs, hs]
  by_cases h1 : t' = D <;> by_cases h2 : t' = T
  · subst h1; subst h2; simp [hl, hpr]
  · subst h1; simp [hpr, h2]
  · subst h2; simp [h1, hl, hpr]
  · simp [h1, h2]

/-! ### the candidates -/

theorem getSlice_eq_nil_of_lt {q : List Slice} {T : Int} (h : ∀ x ∈ q, T < x.1) : getSlice q T = [] := by
  induction q with
  | nil => rfl
  | cons x xs ih =>
    rw [getSlice_cons]
    have := h x (by simp)
    rw [if_neg (by omega)]
    exact ih (fun y hy => h y (by simp [hy]))

theorem count_cand_map (l : List Pair) (p v : String) (t T : Int) :
    ((l.filter (fun pr => pr.1 == p)).map (fun pr => (pr.2, t))).count (v, T) = if t = T then l.count (p, v) else 0 := by
  induction l with
  | nil => simp
  | cons x xs ih =>
    obtain ⟨x1, x2⟩ := x
    by_cases hx : x1 = p
    · rw [List.filter_cons_of_pos (by simpa using hx), List.map_cons, List.count_cons, List.count_cons, ih]
      by_cases ht : t = T <;> simp [ht, hx]
    · rw [List.filter_cons_of_neg (by simpa using hx), ih, List.count_cons]
      by_cases ht : t = T <;> simp [ht, hx]

theorem maturing_cons (x : Slice) (xs : List Slice) (p : String) (D : Int) :
    maturingByTime (x :: xs) p D =
      if x.1 ≤ D then (x.2.filter (fun pr => pr.1 == p)).map (fun pr => (pr.2, x.1)) ++ maturingByTime xs p D
      else maturingByTime xs p D := by
  unfold maturingByTime
  by_cases h : x.1 ≤ D <;> simp [h]

theorem count_maturing {q : List Slice} (h : q.Pairwise (fun x y => x.1 < y.1)) (p v : String) (T D : Int) :
    (maturingByTime q p D).count (v, T) = if T ≤ D then (getSlice q T).count (p, v) else 0 := by
  induction q with
  | nil => simp [maturingByTime]
  | cons x xs ih =>
    rw [List.pairwise_cons] at h
    have ih' := ih h.2
    rw [maturing_cons, getSlice_cons]
    by_cases hxD : x.1 ≤ D
    · rw [if_pos hxD, List.count_append, count_cand_map, ih']
      by_cases hxT : x.1 = T
      · have : getSlice xs T = [] := getSlice_eq_nil_of_lt (fun y hy => by have := h.1 y hy; omega)
        have hTD : T ≤ D := by omega
        simp [hxT, this, hTD]
      · simp [hxT]
    · rw [if_neg hxD, ih']
      by_cases hxT : x.1 = T
      · have hTD : ¬ T ≤ D := by omega
        simp [hTD]
      · simp [hxT]

theorem mem_maturing {q : List Slice} {p : String} {D : Int} {c : String × Int} (h : c ∈ maturingByTime q p D) :
    c.2 ≤ D ∧ ∃ sl ∈ q, sl.1 = c.2 := by
  unfold maturingByTime at h
  simp only [List.mem_flatMap, List.mem_filter, List.mem_map, decide_eq_true_eq] at h
  obtain ⟨sl, ⟨hsl, hle⟩, pr, _, rfl⟩ := h
  exact ⟨hle, sl, hsl, rfl⟩

theorem pairwise_const_map (l : List Pair) (t : Int) :
    (l.map (fun pr => (pr.2, t))).Pairwise (fun c c' : String × Int => c.2 ≤ c'.2) := by
  induction l with
  | nil => simp
  | cons a l ih =>
    simp [List.pairwise_cons, ih]
    intros; omega

theorem sorted_maturing {q : List Slice} (h : q.Pairwise (fun x y => x.1 < y.1)) (p : String) (D : Int) :
    (maturingByTime q p D).Pairwise (fun c c' => c.2 ≤ c'.2) := by
  induction q with
  | nil => simp [maturingByTime]
  | cons x xs ih =>
    rw [List.pairwise_cons] at h
    rw [maturing_cons]
    split
    · rw [List.pairwise_append]
      refine ⟨?_, ih h.2, ?_⟩
      · exact pairwise_const_map _ _
      · intro a ha b hb
        simp only [List.mem_map] at ha
        obtain ⟨pr, _, rfl⟩ := ha
        obtain ⟨_, sl, hsl, he⟩ := mem_maturing hb
        have := h.1 sl hsl
        simp only; omega
    · exact ih h.2

/-! ### one step -/

theorem countP_retime {es es' : List Entry} {T D b : Int} (h : retime es T D = some (es', b)) (t' : Int) :
    es'.countP (fun e => e.t == t') + (if t' = T then 1 else 0)
      = es.countP (fun e => e.t == t') + (if t' = D then 1 else 0) := by
  obtain ⟨l1, e, l2, hes, ht, hb, hp⟩ := retime_some h
  rw [hp.countP_eq, hes]
  simp only [List.countP_append, List.countP_cons, beq_iff_eq]
  subst ht
  repeat' split
  all_goals omega

/-- the state after one round of the loop for the candidate (v, T) when the entries become es' -/
def stepState (s : State) (p v : String) (T D : Int) (es' : List Entry) : State :=
  { ubds := setUbd s.ubds p v es', queue := insertUBDQueue (unqueueLast s.queue (p, v) T) (p, v) D }

theorem delayStep_ok {s : State} {p v : String} {T D : Int} {es' : List Entry} {b : Int}
    (h : retime (getEntries s.ubds p v) T D = some (es', b)) :
    delayStep s p D (v, T) = .ok (stepState s p v T D es', b) := by
  unfold delayStep
  have hne : (getEntries s.ubds p v).isEmpty = false := by
    cases hg : getEntries s.ubds p v with
    | nil => rw [hg] at h; simp [retime] at h
    | cons _ _ => rfl
  simp only [hne, h]; rfl

theorem delayStep_of_ok {s s1 : State} {p : String} {D : Int} {c : String × Int} {b : Int}
    (h : delayStep s p D c = .ok (s1, b)) :
    ∃ es', retime (getEntries s.ubds p c.1) c.2 D = some (es', b) ∧ s1 = stepState s p c.1 c.2 D es' := by
  unfold delayStep at h
  simp only at h
  split at h
  · cases h
  · split at h
    · cases h
    · rename_i es' a hr
      simp only [Except.ok.injEq, Prod.mk.injEq] at h
      exact ⟨es', by rw [hr, h.2], h.1.symm⟩

theorem step_entriesAt {s : State} {p v : String} {T D : Int} {es' : List Entry} {b : Int}
    (h : retime (getEntries s.ubds p v) T D = some (es', b)) (d' v' : String) (t' : Int) :
    entriesAt (stepState s p v T D es') d' v' t' + (if d' = p ∧ v' = v ∧ t' = T then 1 else 0)
      = entriesAt s d' v' t' + (if d' = p ∧ v' = v ∧ t' = D then 1 else 0) := by
  unfold entriesAt stepState
  simp only [getEntries_setUbd]
  by_cases hk : d' = p ∧ v' = v
  · obtain ⟨h1, h2⟩ := hk
    subst h1; subst h2
    have := countP_retime h t'
    simpa using this
  · have h1 : ¬ (d' = p ∧ v' = v ∧ t' = T) := fun e => hk ⟨e.1, e.2.1⟩
    have h2 : ¬ (d' = p ∧ v' = v ∧ t' = D) := fun e => hk ⟨e.1, e.2.1⟩
    simp only [hk, h1, h2, if_false]

theorem mem_of_entriesAt {s : State} (hi : Inv s) {p v : String} {T : Int} (hq : 1 ≤ entriesAt s p v T) :
    (p, v) ∈ getSlice s.queue T := by
  have := hi.counts p v T
  unfold queuedAt at this
  exact List.count_pos_iff.mp (by omega)

theorem step_inv {s : State} {p v : String} {T D : Int} {es' : List Entry} {b : Int} (hi : Inv s)
    (hq : 1 ≤ entriesAt s p v T) (h : retime (getEntries s.ubds p v) T D = some (es', b)) :
    Inv (stepState s p v T D es') := by
  refine { times := ?_, keys := ?_, counts := ?_ }
  · exact times_insertUBDQueue (times_unqueueLast hi.times _ _) _ _
  · exact keys_setUbd hi.keys _ _ _
  · intro d' v' t'
    have h1 := step_entriesAt h d' v' t'
    have h2 := step_queue_count (D := D) (mem_of_entriesAt hi hq) (d', v') t'
    have h3 := hi.counts d' v' t'
    unfold queuedAt at h3 ⊢
    have e1 : (t' = T ∧ (d', v') = (p, v)) ↔ (d' = p ∧ v' = v ∧ t' = T) := by
      simp only [Prod.mk.injEq]; constructor <;> (intro e; simp [e])
    have e2 : (t' = D ∧ (d', v') = (p, v)) ↔ (d' = p ∧ v' = v ∧ t' = D) := by
      simp only [Prod.mk.injEq]; constructor <;> (intro e; simp [e])
    simp only [e1, e2] at h2
    show List.count (d', v') (getSlice (insertUBDQueue (unqueueLast s.queue (p, v) T) (p, v) D) t') = _
    omega

/-! ### the loop invariant on the remaining candidates -/

/-- every remaining candidate still has its entry; below `D` the candidates are exactly the entries; latest first -/
structure Cands (s : State) (p : String) (D : Int) (cs : List (String × Int)) : Prop where
  le : ∀ v T, cs.count (v, T) ≤ entriesAt s p v T
  eq : ∀ v T, T < D → cs.count (v, T) = entriesAt s p v T
  sorted : cs.Pairwise (fun c c' => c'.2 ≤ c.2)
  bound : ∀ c ∈ cs, c.2 ≤ D

theorem cands_init {s : State} (hi : Inv s) (p : String) (D : Int) :
    Cands s p D (maturingByTime s.queue p D).reverse ∧
      ∀ v, (maturingByTime s.queue p D).reverse.count (v, D) = entriesAt s p v D := by
  have hc : ∀ v T, (maturingByTime s.queue p D).reverse.count (v, T) = if T ≤ D then entriesAt s p v T else 0 := by
    intro v T
    rw [List.count_reverse, count_maturing hi.times, ← hi.counts p v T]; rfl
  refine ⟨{ le := ?_, eq := ?_, sorted := ?_, bound := ?_ }, ?_⟩
  · intro v T; rw [hc]; split <;> omega
  · intro v T hT; rw [hc, if_pos (by omega)]
  · rw [List.pairwise_reverse]; exact sorted_maturing hi.times p D
  · intro c hc'; exact (mem_maturing (List.mem_reverse.mp hc')).1
  · intro v; rw [hc, if_pos (Int.le_refl _)]

theorem cands_head {s : State} {p : String} {D : Int} {v : String} {T : Int} {cs : List (String × Int)}
    (hc : Cands s p D ((v, T) :: cs)) : 1 ≤ entriesAt s p v T ∧ T ≤ D := by
  refine ⟨?_, hc.bound (v, T) (by simp)⟩
  have := hc.le v T
  simp only [List.count_cons_self] at this
  omega

theorem cands_step {s : State} {p v : String} {T D : Int} {cs : List (String × Int)} {es' : List Entry} {b : Int}
    (hc : Cands s p D ((v, T) :: cs)) (h : retime (getEntries s.ubds p v) T D = some (es', b)) :
    Cands (stepState s p v T D es') p D cs := by
  have hcount : ∀ v' T', ((v, T) :: cs).count (v', T') = cs.count (v', T') + (if p = p ∧ v' = v ∧ T' = T then 1 else 0) := by
    intro v' T'
    rw [List.count_cons]
    by_cases e : v' = v ∧ T' = T
    · obtain ⟨e1, e2⟩ := e; subst e1; subst e2; simp
    · have : ¬ ((v, T) = (v', T')) := by
        intro e'; simp only [Prod.mk.injEq] at e'; exact e ⟨e'.1.symm, e'.2.symm⟩
      have e3 : ¬ (p = p ∧ v' = v ∧ T' = T) := fun x => e x.2
      simp [this]
      exact fun a b => e ⟨a, b⟩
  refine { le := ?_, eq := ?_, sorted := (List.pairwise_cons.mp hc.sorted).2, bound := fun c hcm => hc.bound c (by simp [hcm]) }
  · intro v' T'
    have h1 := step_entriesAt h p v' T'
    have h2 := hc.le v' T'
    rw [hcount] at h2
    generalize (if p = p ∧ v' = v ∧ T' = T then 1 else 0 : Nat) = k at h1 h2
    omega
  · intro v' T' hT'
    have h1 := step_entriesAt h p v' T'
    have h2 := hc.eq v' T' hT'
    rw [hcount] at h2
    have : ¬ (p = p ∧ v' = v ∧ T' = D) := fun e => by omega
    rw [if_neg this] at h1
    generalize (if p = p ∧ v' = v ∧ T' = T then 1 else 0 : Nat) = k at h1 h2
    omega

/-- what one round of the loop does when the invariants hold -/
theorem loop_cases {s : State} {p : String} {D : Int} {c : String × Int} {cs : List (String × Int)} (hi : Inv s)
    (hc : Cands s p D (c :: cs)) (rem : Int) :
    (rem ≤ 0 ∧ delayLoop p D (c :: cs) rem s = .ok s) ∨
    (0 < rem ∧ 1 ≤ entriesAt s p c.1 c.2 ∧ c.2 ≤ D ∧ ∃ es' b, retime (getEntries s.ubds p c.1) c.2 D = some (es', b) ∧
      Inv (stepState s p c.1 c.2 D es') ∧ Cands (stepState s p c.1 c.2 D es') p D cs ∧
      delayLoop p D (c :: cs) rem s = delayLoop p D cs (rem - b) (stepState s p c.1 c.2 D es')) := by
  obtain ⟨v, T⟩ := c
  by_cases hr : rem ≤ 0
  · left; exact ⟨hr, by unfold delayLoop; simp [hr]⟩
  · right
    obtain ⟨hq, hT⟩ := cands_head hc
    cases hret : retime (getEntries s.ubds p v) T D with
    | none =>
      have := retime_none hret
      unfold entriesAt at hq
      omega
    | some r =>
      obtain ⟨es', b⟩ := r
      refine ⟨by omega, hq, hT, es', b, rfl, step_inv hi hq hret, cands_step hc hret, ?_⟩
      rw [delayLoop.eq_2]
      simp only [hr, if_false, delayStep_ok hret]

/-! ### the loop -/

theorem loop_rel {p : String} {D : Int} (R : State → State → Prop) (hrefl : ∀ s, R s s)
    (htrans : ∀ a b c, R a b → R b c → R a c)
    (hstep : ∀ s v T es' b, Inv s → 1 ≤ entriesAt s p v T → T ≤ D → retime (getEntries s.ubds p v) T D = some (es', b) →
       R s (stepState s p v T D es')) :
    ∀ cs rem s s', Inv s → Cands s p D cs → delayLoop p D cs rem s = .ok s' → Inv s' ∧ R s s' := by
  intro cs
  induction cs with
  | nil =>
    intro rem s s' hi _ h
    unfold delayLoop at h
    split at h
    · cases h
    · cases h; exact ⟨hi, hrefl _⟩
  | cons c cs ih =>
    intro rem s s' hi hc h
    rcases loop_cases hi hc rem with ⟨_, h0⟩ | ⟨_, hq, hT, es', b, hret, hi1, hc1, hloop⟩
    · rw [h0] at h; cases h; exact ⟨hi, hrefl _⟩
    · rw [hloop] at h
      obtain ⟨hi', hr⟩ := ih _ _ _ hi1 hc1 h
      exact ⟨hi', htrans _ _ _ (hstep s c.1 c.2 es' b hi hq hT hret) hr⟩

theorem loop_error {p : String} {D : Int} : ∀ cs rem s msg, Inv s → Cands s p D cs →
    delayLoop p D cs rem s = .error msg → msg = "failed to delay enough unbondings" := by
  intro cs
  induction cs with
  | nil =>
    intro rem s msg _ _ h
    unfold delayLoop at h
    split at h
    · cases h; rfl
    · cases h
  | cons c cs ih =>
    intro rem s msg hi hc h
    rcases loop_cases hi hc rem with ⟨_, h0⟩ | ⟨_, _, _, es', b, _, hi1, hc1, hloop⟩
    · rw [h0] at h; cases h
    · rw [hloop] at h
      exact ih _ _ _ hi1 hc1 h

/-- 1. the queue invariant survives a delay -/
theorem delay_inv (s s' : State) (p : String) (a D : Int) (h : Inv s) (ok : delayUnbonding s p a D = .ok s') : Inv s' :=
  (loop_rel (p := p) (D := D) (fun _ _ => True) (fun _ => trivial) (fun _ _ _ _ _ => trivial)
    (fun _ _ _ _ _ _ _ _ _ => trivial) _ _ _ _ h (cands_init h p D).1 ok).1

theorem loop_frame_entries {p : String} {D : Int} (d v : String) (hd : d ≠ p) : ∀ cs rem s s',
    delayLoop p D cs rem s = .ok s' → getEntries s'.ubds d v = getEntries s.ubds d v := by
  intro cs
  induction cs with
  | nil =>
    intro rem s s' h
    unfold delayLoop at h
    split at h
    · cases h
    · cases h; rfl
  | cons c cs ih =>
    intro rem s s' h
    rw [delayLoop.eq_2] at h
    split at h
    · cases h; rfl
    · split at h
      · cases h
      · rename_i s1 b hstep
        obtain ⟨es', _, hs1⟩ := delayStep_of_ok hstep
        rw [ih _ _ _ h, hs1]
        unfold stepState
        simp only [getEntries_setUbd]
        rw [if_neg (fun e => hd e.1)]

/-- 2. the other delegators' entries are not touched (no invariant needed) -/
theorem delay_frame_entries (s s' : State) (p : String) (a D : Int) (ok : delayUnbonding s p a D = .ok s') (d v : String)
    (hd : d ≠ p) : getEntries s'.ubds d v = getEntries s.ubds d v :=
  loop_frame_entries d v hd _ _ _ _ ok

/-- 3. under the invariant the only panic is the one at the end of the loop -/
theorem delay_error (s : State) (p : String) (a D : Int) (msg : String) (h : Inv s)
    (herr : delayUnbonding s p a D = .error msg) : msg = "failed to delay enough unbondings" :=
  loop_error _ _ _ _ h (cands_init h p D).1 herr

theorem delayed_refl (D : Int) (e : Entry) : Delayed D e e := ⟨rfl, Or.inl rfl⟩

theorem delayed_trans (D : Int) (a b c : Entry) (h1 : Delayed D a b) (h2 : Delayed D b c) : Delayed D a c := by
  unfold Delayed at *
  refine ⟨by omega, ?_⟩
  omega

/-- 4. every old entry of the provider corresponds to a new one with the same balance whose time is the same or went from
    ≤ D to exactly D; nothing lost, nothing created -/
theorem delay_entries (s s' : State) (p : String) (a D : Int) (h : Inv s) (ok : delayUnbonding s p a D = .ok s') (v : String) :
    ∃ es, List.Perm es (getEntries s'.ubds p v) ∧ List.Forall₂ (Delayed D) (getEntries s.ubds p v) es := by
  refine (loop_rel (p := p) (D := D)
    (fun s s' => ∀ v, ∃ es, List.Perm es (getEntries s'.ubds p v) ∧ List.Forall₂ (Delayed D) (getEntries s.ubds p v) es)
    ?_ ?_ ?_ _ _ _ _ h (cands_init h p D).1 ok).2 v
  · intro s v
    exact ⟨_, List.Perm.refl _, forall2_refl (delayed_refl D) _⟩
  · intro x y z hxy hyz v
    obtain ⟨es1, hp1, hf1⟩ := hxy v
    obtain ⟨es2, hp2, hf2⟩ := hyz v
    obtain ⟨d', hp3, hf3⟩ := forall2_perm hp1 es2 hf2
    exact ⟨d', hp3.trans hp2, forall2_trans (delayed_trans D) hf1 hf3⟩
  · intro s w T es' b _ _ hT hret v
    unfold stepState
    simp only [getEntries_setUbd]
    by_cases hv : v = w
    · subst hv
      obtain ⟨l1, e, l2, hes, ht, hb, hp⟩ := retime_some hret
      refine ⟨l1 ++ ⟨D, b⟩ :: l2, by simpa using hp.symm, ?_⟩
      rw [hes]
      refine forall2_mid (forall2_refl (delayed_refl D) _) ?_ (forall2_refl (delayed_refl D) _)
      exact ⟨hb.symm, Or.inr ⟨by omega, rfl⟩⟩
    · simp only [hv, and_false, if_false]
      exact ⟨_, List.Perm.refl _, forall2_refl (delayed_refl D) _⟩

/-- 5. the other delegators' pairs stay in the queue, in the same order -/
theorem delay_frame_queue (s s' : State) (p : String) (a D : Int) (h : Inv s) (ok : delayUnbonding s p a D = .ok s')
    (d : String) (hd : d ≠ p) (t : Int) :
    (getSlice s'.queue t).filter (fun pr => pr.1 == d) = (getSlice s.queue t).filter (fun pr => pr.1 == d) := by
  refine (loop_rel (p := p) (D := D)
    (fun s s' => ∀ t, (getSlice s'.queue t).filter (fun pr => pr.1 == d) = (getSlice s.queue t).filter (fun pr => pr.1 == d))
    ?_ ?_ ?_ _ _ _ _ h (cands_init h p D).1 ok).2 t
  · intro s t; rfl
  · intro x y z hxy hyz t; rw [hyz, hxy]
  · intro s w T es' b hi hq _ _ t
    exact step_queue_filter (mem_of_entriesAt hi hq) d hd t

/-- 8. nothing to delay: nothing happens -/
theorem delay_noop (s : State) (p : String) (a D : Int) (ha : a ≤ 0) : delayUnbonding s p a D = .ok s := by
  unfold delayUnbonding
  cases (maturingByTime s.queue p D).reverse with
  | nil =>
    unfold delayLoop
    have : ¬ a > 0 := by omega
    simp [this]
  | cons c cs =>
    unfold delayLoop
    simp [ha]

/-! ### concrete states -/

theorem inv_empty : Inv ({} : State) :=
  { times := List.Pairwise.nil, keys := List.Pairwise.nil, counts := fun _ _ _ => rfl }

theorem undelegate_inv (s : State) (d v : String) (t bal : Int) (h : Inv s) : Inv (undelegate s d v t bal) := by
  refine { times := times_insertUBDQueue h.times _ _, keys := keys_setUbd h.keys _ _ _, counts := ?_ }
  intro d' v' t'
  have h3 := h.counts d' v' t'
  unfold queuedAt entriesAt at h3 ⊢
  unfold undelegate
  simp only [getSlice_insertUBDQueue, getEntries_setUbd]
  by_cases h1 : t' = t <;> by_cases h2 : d' = d ∧ v' = v
  · obtain ⟨h2a, h2b⟩ := h2
    subst h1; subst h2a; subst h2b
    simp [List.count_append, List.countP_append, h3]
  · have : ¬ ((d, v) = (d', v')) := by
      intro e; simp only [Prod.mk.injEq] at e; exact h2 ⟨e.1.symm, e.2.symm⟩
    subst h1
    simp [List.count_append, h2, this, h3]
  · have : ¬ t = t' := fun e => h1 e.symm
    obtain ⟨h2a, h2b⟩ := h2
    subst h2a; subst h2b
    simp [List.countP_append, h1, this, h3]
  · simp [h1, h2, h3]

def onlyUndelegates : List Op → Bool
  | [] => true
  | .undelegate _ _ _ _ :: ops => onlyUndelegates ops
  | _ :: _ => false

theorem inv_run_undelegates : ∀ (ops : List Op) (s : State), Inv s → onlyUndelegates ops = true → Inv (run s ops) := by
  intro ops
  induction ops with
  | nil => intro s h _; exact h
  | cons op ops ih =>
    intro s h ho
    cases op with
    | undelegate d v t bal => exact ih _ (undelegate_inv s d v t bal h) ho
    | delay _ _ _ => cases ho
    | pay _ _ _ => cases ho
    | endBlock _ => cases ho

/-- one pair of the provider "p" with two entries completing at 100 (balances 5 and 1) and one completing at 50 (balance 4) -/
def s0 : State :=
  run {} [.undelegate "p" "v1" 50 4, .undelegate "p" "v1" 100 5, .undelegate "p" "v1" 100 1, .undelegate "b" "v1" 100 7]

theorem inv_s0 : Inv s0 := inv_run_undelegates _ _ inv_empty rfl

theorem nonneg_s0 : NonNeg s0.ubds "p" := by unfold NonNeg; decide

/-- two entries of one pair completing at 4, balances 50 and 100 -/
def s1 : State := run {} [.undelegate "p" "v1" 4 50, .undelegate "p" "v1" 4 100]

theorem inv_s1 : Inv s1 := inv_run_undelegates _ _ inv_empty rfl

theorem nonneg_s1 : NonNeg s1.ubds "p" := by unfold NonNeg; decide

/-- the hypotheses of items 1, 3, 4, 5 hold of a non-trivial state: `s0` satisfies the invariant and the delay goes through -/
example : Inv s0 ∧ ∃ s', delayUnbonding s0 "p" 10 100 = .ok s' := ⟨inv_s0, _, rfl⟩
example : Inv s0 ∧ ∃ msg, delayUnbonding s0 "p" 15 100 = .error msg := ⟨inv_s0, _, rfl⟩

/-- 6. FALSE as first stated: in `s0` the pair ("p", "v1") has two entries completing exactly at the delayed time 100; `retime`
    picks the same first one (balance 5) for both candidates, so 10 is "delayed" while only 6 completes at 100 afterwards and the
    entry completing at 50 is not postponed. -/
theorem delay_covered_fails : ¬ (∀ (s s' : State) (p : String) (a D : Int), Inv s → NonNeg s.ubds p → 0 < a →
    delayUnbonding s p a D = .ok s' → a ≤ atTime s'.ubds p D) := by
  intro H
  have ⟨s', hs', hat⟩ : ∃ s', delayUnbonding s0 "p" 10 100 = .ok s' ∧ atTime s'.ubds "p" 100 = 6 := ⟨_, rfl, by decide⟩
  have := H s0 s' "p" 10 100 inv_s0 nonneg_s0 (by decide) hs'
  omega

/-- 7. FALSE as first stated: in `s0` only 10 completes by 100, yet a delay of 11 goes through (5 is counted twice) -/
theorem delay_panics_fails : ¬ (∀ (s : State) (p : String) (a D : Int), Inv s → NonNeg s.ubds p → byTime s.ubds p D < a →
    ∃ msg, delayUnbonding s p a D = .error msg) := by
  intro H
  have hb : byTime s0.ubds "p" 100 = 10 := by decide
  obtain ⟨msg, hm⟩ := H s0 "p" 11 100 inv_s0 nonneg_s0 (by rw [hb]; decide)
  have ⟨s', hs'⟩ : ∃ s', delayUnbonding s0 "p" 11 100 = .ok s' := ⟨_, rfl⟩
  rw [hs'] at hm
  cases hm

/-- 7. FALSE as first stated, the other way round: the double counting also counts too little. In `s1` 150 completes by 4, but a
    delay of 150 panics: the first entry (50) is counted twice, the second (100) never. -/
theorem delay_ok_of_covered_fails : ¬ (∀ (s : State) (p : String) (a D : Int), Inv s → NonNeg s.ubds p →
    a ≤ byTime s.ubds p D → ∃ s', delayUnbonding s p a D = .ok s') := by
  intro H
  have hb : byTime s1.ubds "p" 4 = 150 := by decide
  obtain ⟨s', hs'⟩ := H s1 "p" 150 4 inv_s1 nonneg_s1 (by rw [hb]; decide)
  have he : delayUnbonding s1 "p" 150 4 = .error "failed to delay enough unbondings" := rfl
  rw [he] at hs'
  cases hs'

/-! ### sums over the provider's records -/

def sumOver (us : List Ubd) (d : String) (g : String → List Entry → Int) : Int :=
  ((us.filter (·.del == d)).map (fun u => g u.val u.entries)).sum

theorem atTime_eq (us : List Ubd) (d : String) (t : Int) :
    atTime us d t = sumOver us d (fun _ es => balSum (es.filter (fun e => e.t == t))) := rfl

theorem byTime_eq (us : List Ubd) (d : String) (t : Int) :
    byTime us d t = sumOver us d (fun _ es => balSum (es.filter (fun e => decide (e.t ≤ t)))) := rfl

theorem sumOver_cons (x : Ubd) (xs : List Ubd) (d : String) (g : String → List Entry → Int) :
    sumOver (x :: xs) d g = (if x.del = d then g x.val x.entries else 0) + sumOver xs d g := by
  unfold sumOver
  by_cases h : x.del = d
  · rw [List.filter_cons_of_pos (by simpa using h)]; simp [h]
  · rw [List.filter_cons_of_neg (by simpa using h)]; simp [h]

theorem sumOver_le {us : List Ubd} {d : String} {g g' : String → List Entry → Int}
    (h : ∀ u ∈ us, u.del = d → g u.val u.entries ≤ g' u.val u.entries) : sumOver us d g ≤ sumOver us d g' := by
  induction us with
  | nil => simp [sumOver]
  | cons x xs ih =>
    rw [sumOver_cons, sumOver_cons]
    have h1 := ih (fun u hu => h u (by simp [hu]))
    have hx := h x (by simp)
    split
    · rename_i e; have := hx e; omega
    · omega

theorem sumOver_congr {us : List Ubd} {d : String} {g g' : String → List Entry → Int}
    (h : ∀ u ∈ us, u.del = d → g u.val u.entries = g' u.val u.entries) : sumOver us d g = sumOver us d g' := by
  apply Int.le_antisymm
  · exact sumOver_le (fun u hu hd => by rw [h u hu hd]; exact Int.le_refl _)
  · exact sumOver_le (fun u hu hd => by rw [h u hu hd]; exact Int.le_refl _)

theorem sumOver_zero {us : List Ubd} {d : String} {g : String → List Entry → Int}
    (h : ∀ u ∈ us, u.del = d → g u.val u.entries = 0) : sumOver us d g = 0 := by
  induction us with
  | nil => simp [sumOver]
  | cons x xs ih =>
    rw [sumOver_cons, ih (fun u hu => h u (by simp [hu]))]
    have hx := h x (by simp)
    split
    · rename_i e; have := hx e; omega
    · omega

theorem sumOver_nonneg {us : List Ubd} {d : String} {g : String → List Entry → Int}
    (h : ∀ u ∈ us, u.del = d → 0 ≤ g u.val u.entries) : 0 ≤ sumOver us d g := by
  induction us with
  | nil => simp [sumOver]
  | cons x xs ih =>
    rw [sumOver_cons]
    have h1 := ih (fun u hu => h u (by simp [hu]))
    have hx := h x (by simp)
    split
    · rename_i e; have := hx e; omega
    · omega

theorem sumOver_insertUbd (u : Ubd) (us : List Ubd) (d : String) (g : String → List Entry → Int) :
    sumOver (insertUbd u us) d g = sumOver us d g + (if u.del = d then g u.val u.entries else 0) := by
  induction us with
  | nil =>
    unfold insertUbd
    rw [sumOver_cons]
    simp [sumOver]
  | cons x xs ih =>
    unfold insertUbd; split
    · rw [sumOver_cons, sumOver_cons, ih]; omega
    · rw [sumOver_cons, sumOver_cons]; omega

theorem getEntries_eq_nil {us : List Ubd} {d v : String} (h : ∀ y ∈ us, ¬ (y.del = d ∧ y.val = v)) :
    getEntries us d v = [] := by
  induction us with
  | nil => rfl
  | cons x xs ih =>
    rw [getEntries_cons, if_neg (h x (by simp))]
    exact ih (fun y hy => h y (by simp [hy]))

theorem sumOver_removeUbd {us : List Ubd} (hk : us.Pairwise (fun x y => ¬ (x.del = y.del ∧ x.val = y.val))) (d v : String)
    (g : String → List Entry → Int) (hg : g v [] = 0) :
    sumOver (removeUbd us d v) d g = sumOver us d g - g v (getEntries us d v) := by
  induction us with
  | nil => simp [removeUbd, sumOver, hg]
  | cons x xs ih =>
    rw [List.pairwise_cons] at hk
    have ih' := ih hk.2
    rw [getEntries_cons, sumOver_cons]
    by_cases hx : x.del = d ∧ x.val = v
    · have hi : x.is d v = true := (is_iff x d v).mpr hx
      have hrem : removeUbd (x :: xs) d v = removeUbd xs d v := by
        unfold removeUbd; rw [List.filter_cons_of_neg (by simp [hi])]
      have hnil : getEntries xs d v = [] :=
        getEntries_eq_nil (fun y hy e => hk.1 y hy ⟨by rw [hx.1, e.1], by rw [hx.2, e.2]⟩)
      rw [hrem, ih', hnil, hg, if_pos hx, if_pos hx.1, hx.2]; omega
    · have hi : ¬ x.is d v = true := fun e => hx ((is_iff x d v).mp e)
      have hrem : removeUbd (x :: xs) d v = x :: removeUbd xs d v := by
        unfold removeUbd; rw [List.filter_cons_of_pos (by simp [hi])]
      rw [hrem, sumOver_cons, ih', if_neg hx]; omega

theorem sumOver_setUbd {us : List Ubd} (hk : us.Pairwise (fun x y => ¬ (x.del = y.del ∧ x.val = y.val))) (d v : String)
    (es' : List Entry) (g g' : String → List Entry → Int) (hg : g v [] = 0)
    (hgg : ∀ v' es, v' ≠ v → g' v' es = g v' es) :
    sumOver (setUbd us d v es') d g' = sumOver us d g - g v (getEntries us d v) + g' v es' := by
  unfold setUbd
  rw [sumOver_insertUbd]
  simp only [if_true]
  rw [sumOver_congr (g := g') (g' := g), sumOver_removeUbd hk d v g hg]
  intro u hu hd
  have := (mem_removeUbd.mp hu).2
  exact hgg _ _ (fun e => this ⟨hd, e⟩)

theorem balSum_cons (e : Entry) (es : List Entry) : balSum (e :: es) = e.bal + balSum es := by simp [balSum]

theorem balSum_append (l1 l2 : List Entry) : balSum (l1 ++ l2) = balSum l1 + balSum l2 := by
  induction l1 with
  | nil => simp [balSum]
  | cons a l ih => rw [List.cons_append, balSum_cons, balSum_cons, ih]; omega

theorem balSum_perm {l1 l2 : List Entry} (h : l1.Perm l2) : balSum l1 = balSum l2 := by
  induction h with
  | nil => rfl
  | cons x _ ih => rw [balSum_cons, balSum_cons, ih]
  | swap x y l => simp only [balSum_cons]; omega
  | trans _ _ ih1 ih2 => rw [ih1, ih2]

theorem balSum_nonneg {l : List Entry} (h : ∀ e ∈ l, 0 ≤ e.bal) : 0 ≤ balSum l := by
  induction l with
  | nil => simp [balSum]
  | cons a l ih =>
    rw [balSum_cons]
    have := h a (by simp)
    have := ih (fun e he => h e (by simp [he]))
    omega

theorem fsum_retime (Q : Int → Bool) {es es' : List Entry} {T D b : Int} (h : retime es T D = some (es', b)) :
    balSum (es'.filter (fun e => Q e.t)) + (if Q T then b else 0)
      = balSum (es.filter (fun e => Q e.t)) + (if Q D then b else 0) := by
  obtain ⟨l1, e, l2, hes, ht, hb, hp⟩ := retime_some h
  rw [balSum_perm (hp.filter _), hes]
  simp only [List.filter_append, List.filter_cons, balSum_append]
  subst ht; subst hb
  cases Q e.t <;> cases Q D <;> simp [balSum_cons] <;> omega

theorem mem_of_getEntries {us : List Ubd} {d v : String} {e : Entry} (h : e ∈ getEntries us d v) :
    ∃ u ∈ us, u.del = d ∧ e ∈ u.entries := by
  induction us with
  | nil => simp at h
  | cons x xs ih =>
    rw [getEntries_cons] at h
    split at h
    · rename_i hx; exact ⟨x, by simp, hx.1, h⟩
    · obtain ⟨u, hu, r⟩ := ih h; exact ⟨u, by simp [hu], r⟩

theorem getEntries_of_mem {us : List Ubd} (hk : us.Pairwise (fun x y => ¬ (x.del = y.del ∧ x.val = y.val))) {u : Ubd}
    (hu : u ∈ us) : getEntries us u.del u.val = u.entries := by
  induction us with
  | nil => simp at hu
  | cons x xs ih =>
    rw [List.pairwise_cons] at hk
    rw [getEntries_cons]
    rcases List.mem_cons.mp hu with e | e
    · subst e; simp
    · have : ¬ (x.del = u.del ∧ x.val = u.val) := hk.1 u e
      rw [if_neg this]; exact ih hk.2 e

theorem step_nonneg {s : State} {p v : String} {T D : Int} {es' : List Entry} {b : Int} (hn : NonNeg s.ubds p)
    (h : retime (getEntries s.ubds p v) T D = some (es', b)) : NonNeg (stepState s p v T D es').ubds p := by
  intro u hu hd e he
  unfold stepState setUbd at hu
  simp only at hu
  rcases mem_insertUbd.mp hu with e1 | e1
  · subst e1
    simp only at he
    obtain ⟨l1, e0, l2, hes, ht, hb, hp⟩ := retime_some h
    have hmem := hp.mem_iff.mp he
    have hall : ∀ x ∈ getEntries s.ubds p v, 0 ≤ x.bal := by
      intro x hx; obtain ⟨u', hu', hd', hx'⟩ := mem_of_getEntries hx; exact hn u' hu' hd' x hx'
    rw [hes] at hall
    simp only [List.mem_append, List.mem_cons] at hmem
    rcases hmem with m | m | m
    · exact hall e (by simp [m])
    · have := hall e0 (by simp); rw [m]; simp only; omega
    · exact hall e (by simp [m])
  · exact hn u (mem_removeUbd.mp e1).1 hd e he

/-! ### what one round counts -/

/-- the extra hypothesis of the partial theorems, along the loop: a pair that is still a candidate for `D` has one entry there -/
def Hone (s : State) (p : String) (D : Int) (cs : List (String × Int)) : Prop :=
  ∀ v, (v, D) ∈ cs → entriesAt s p v D ≤ 1

theorem not_mem_later {s : State} {p : String} {D : Int} {v : String} {T : Int} {cs : List (String × Int)}
    (hc : Cands s p D ((v, T) :: cs)) (hT : T ≠ D) (v' : String) : (v', D) ∉ (v, T) :: cs := by
  intro hm
  rcases List.mem_cons.mp hm with e | e
  · simp only [Prod.mk.injEq] at e; exact hT e.2.symm
  · have h1 := (List.pairwise_cons.mp hc.sorted).1 _ e
    have h2 := hc.bound (v, T) (by simp)
    simp only at h1 h2; omega

theorem not_mem_same {s : State} {p : String} {D : Int} {v : String} {cs : List (String × Int)}
    (hc : Cands s p D ((v, D) :: cs)) (ho : Hone s p D ((v, D) :: cs)) : (v, D) ∉ cs := by
  intro hm
  have h1 := hc.le v D
  have h2 := ho v (by simp)
  rw [List.count_cons_self] at h1
  have := List.count_pos_iff.mpr hm
  omega

theorem fD_single {es es' : List Entry} {D b : Int} (h : retime es D D = some (es', b))
    (h1 : es.countP (fun e => e.t == D) ≤ 1) : balSum (es.filter (fun e => e.t == D)) = b := by
  obtain ⟨l1, e, l2, hes, ht, hb, _⟩ := retime_some h
  rw [hes] at h1 ⊢
  simp only [List.countP_append, List.countP_cons, ht, beq_self_eq_true, if_true] at h1
  have e1 : l1.filter (fun e => e.t == D) = [] := List.filter_eq_nil_iff.mpr (List.countP_eq_zero.mp (by omega))
  have e2 : l2.filter (fun e => e.t == D) = [] := List.filter_eq_nil_iff.mpr (List.countP_eq_zero.mp (by omega))
  simp [List.filter_append, ht, e1, e2, balSum, hb]

theorem hone_step {s : State} {p v : String} {T D : Int} {cs : List (String × Int)} {es' : List Entry} {b : Int}
    (hc : Cands s p D ((v, T) :: cs)) (ho : Hone s p D ((v, T) :: cs))
    (h : retime (getEntries s.ubds p v) T D = some (es', b)) : Hone (stepState s p v T D es') p D cs := by
  intro v' hv'
  have h0 := ho v' (List.mem_cons_of_mem _ hv')
  have h1 := step_entriesAt h p v' D
  by_cases hv : v' = v
  · subst hv
    by_cases hT : T = D
    · subst hT; exact absurd hv' (not_mem_same hc ho)
    · exact absurd (List.mem_cons_of_mem _ hv') (not_mem_later hc hT v')
  · rw [if_neg (fun e => hv e.2.1), if_neg (fun e => hv e.2.1)] at h1; omega

/-- what completes at `D` and is not waiting to be "delayed" to `D` once more -/
def gA (cs : List (String × Int)) (D : Int) : String → List Entry → Int :=
  fun v es => if (v, D) ∈ cs then 0 else balSum (es.filter (fun e => e.t == D))

/-- what the remaining rounds of the loop will count -/
def gW (cs : List (String × Int)) (D : Int) : String → List Entry → Int :=
  fun v es => balSum (es.filter (fun e => decide (e.t < D))) +
    (if (v, D) ∈ cs then balSum (es.filter (fun e => e.t == D)) else 0)

theorem mem_cons_ne {v v' : String} {T D : Int} {cs : List (String × Int)} (hv : v' ≠ v) :
    ((v', D) ∈ (v, T) :: cs) ↔ (v', D) ∈ cs := by
  simp [List.mem_cons, hv]

theorem step_A {s : State} {p v : String} {T D : Int} {cs : List (String × Int)} {es' : List Entry} {b : Int}
    (hi : Inv s) (hc : Cands s p D ((v, T) :: cs)) (ho : Hone s p D ((v, T) :: cs))
    (h : retime (getEntries s.ubds p v) T D = some (es', b)) :
    sumOver (stepState s p v T D es').ubds p (gA cs D) = sumOver s.ubds p (gA ((v, T) :: cs) D) + b := by
  unfold stepState
  simp only
  rw [sumOver_setUbd hi.keys p v es' (gA ((v, T) :: cs) D) (gA cs D) (by simp [gA, balSum])
    (fun v' es hv => by unfold gA; simp only [mem_cons_ne hv])]
  have hf := fsum_retime (fun t => t == D) h
  simp only [beq_self_eq_true, if_true] at hf
  by_cases hT : T = D
  · subst hT
    have hm := not_mem_same hc ho
    have hb : balSum ((getEntries s.ubds p v).filter (fun e => e.t == T)) = b := fD_single h (ho v (by simp))
    simp only [beq_self_eq_true, if_true] at hf
    unfold gA
    simp only [hm, if_false, List.mem_cons_self, if_true]
    omega
  · have hm1 := not_mem_later hc hT v
    have hm2 : (v, D) ∉ cs := fun e => hm1 (List.mem_cons_of_mem _ e)
    have : (T == D) = false := by simpa using hT
    simp only [this] at hf
    unfold gA
    simp only [hm1, hm2, if_false]
    simp at hf
    omega

theorem step_W {s : State} {p v : String} {T D : Int} {cs : List (String × Int)} {es' : List Entry} {b : Int}
    (hi : Inv s) (hc : Cands s p D ((v, T) :: cs)) (ho : Hone s p D ((v, T) :: cs))
    (h : retime (getEntries s.ubds p v) T D = some (es', b)) :
    sumOver (stepState s p v T D es').ubds p (gW cs D) = sumOver s.ubds p (gW ((v, T) :: cs) D) - b := by
  unfold stepState
  simp only
  rw [sumOver_setUbd hi.keys p v es' (gW ((v, T) :: cs) D) (gW cs D) (by simp [gW, balSum])
    (fun v' es hv => by unfold gW; simp only [mem_cons_ne hv])]
  have hf := fsum_retime (fun t => decide (t < D)) h
  have hDD : ¬ D < D := by omega
  simp only [hDD, decide_false] at hf
  by_cases hT : T = D
  · subst hT
    have hm := not_mem_same hc ho
    have hb : balSum ((getEntries s.ubds p v).filter (fun e => e.t == T)) = b := fD_single h (ho v (by simp))
    unfold gW
    simp only [hm, if_false, List.mem_cons_self, if_true]
    simp at hf
    omega
  · have hm1 := not_mem_later hc hT v
    have hm2 : (v, D) ∉ cs := fun e => hm1 (List.mem_cons_of_mem _ e)
    have hlt : T < D := by have := (cands_head hc).2; omega
    simp only [hlt, decide_true, if_true] at hf
    unfold gW
    simp only [hm1, hm2, if_false]
    simp at hf
    omega

/-! ### items 6 and 7 with the extra hypothesis -/

theorem gA_le {us : List Ubd} {p : String} {cs : List (String × Int)} {D : Int} (hn : NonNeg us p) :
    sumOver us p (gA cs D) ≤ atTime us p D := by
  rw [atTime_eq]
  apply sumOver_le
  intro u hu hd
  unfold gA
  split
  · exact balSum_nonneg (fun e he => hn u hu hd e (List.mem_filter.mp he).1)
  · exact Int.le_refl _

theorem gA_nonneg {us : List Ubd} {p : String} {cs : List (String × Int)} {D : Int} (hn : NonNeg us p) :
    0 ≤ sumOver us p (gA cs D) := by
  apply sumOver_nonneg
  intro u hu hd
  unfold gA
  split
  · exact Int.le_refl _
  · exact balSum_nonneg (fun e he => hn u hu hd e (List.mem_filter.mp he).1)

theorem loop_covered {p : String} {D a : Int} : ∀ cs rem s s', Inv s → Cands s p D cs → Hone s p D cs → NonNeg s.ubds p →
    a ≤ rem + sumOver s.ubds p (gA cs D) → delayLoop p D cs rem s = .ok s' → a ≤ atTime s'.ubds p D := by
  intro cs
  induction cs with
  | nil =>
    intro rem s s' _ _ _ hn ha h
    unfold delayLoop at h
    split at h
    · cases h
    · cases h
      have := gA_le (cs := []) (D := D) hn
      omega
  | cons c cs ih =>
    intro rem s s' hi hc ho hn ha h
    rcases loop_cases hi hc rem with ⟨hr, h0⟩ | ⟨_, _, _, es', b, hret, hi1, hc1, hloop⟩
    · rw [h0] at h; cases h
      have := gA_le (cs := c :: cs) (D := D) hn
      omega
    · rw [hloop] at h
      obtain ⟨v, T⟩ := c
      refine ih _ _ _ hi1 hc1 (hone_step hc ho hret) (step_nonneg hn hret) ?_ h
      rw [step_A hi hc ho hret]; omega

/-- 6, the true part. Added to the first statement: `hone`, no pair of the provider has two entries completing exactly at `D`
    beforehand. Then what was asked for does complete at `D` afterwards. -/
theorem delay_covered_partial (s s' : State) (p : String) (a D : Int) (h : Inv s) (hn : NonNeg s.ubds p)
    (hone : ∀ v, entriesAt s p v D ≤ 1) (ha : 0 < a) (ok : delayUnbonding s p a D = .ok s') : a ≤ atTime s'.ubds p D := by
  have _ := ha
  have := gA_nonneg (cs := (maturingByTime s.queue p D).reverse) (D := D) hn
  exact loop_covered _ _ _ _ h (cands_init h p D).1 (fun v _ => hone v) hn (by omega) ok

theorem W_nil {s : State} {p : String} {D : Int} (hi : Inv s) (hc : Cands s p D []) : sumOver s.ubds p (gW [] D) = 0 := by
  apply sumOver_zero
  intro u hu hd
  unfold gW
  have : u.entries.filter (fun e => decide (e.t < D)) = [] := by
    rw [List.filter_eq_nil_iff]
    intro e he hlt
    have hlt' : e.t < D := by simpa using hlt
    have h1 := hc.eq u.val e.t hlt'
    unfold entriesAt at h1
    rw [← hd, getEntries_of_mem hi.keys hu] at h1
    have : 0 < u.entries.countP (fun x => x.t == e.t) := List.countP_pos_iff.mpr ⟨e, he, by simp⟩
    simp at h1; omega
  rw [this]; simp [balSum]

theorem W_nonneg {us : List Ubd} {p : String} {cs : List (String × Int)} {D : Int} (hn : NonNeg us p) :
    0 ≤ sumOver us p (gW cs D) := by
  apply sumOver_nonneg
  intro u hu hd
  unfold gW
  have h1 := balSum_nonneg (l := u.entries.filter (fun e => decide (e.t < D)))
    (fun e he => hn u hu hd e (List.mem_filter.mp he).1)
  have h2 := balSum_nonneg (l := u.entries.filter (fun e => e.t == D))
    (fun e he => hn u hu hd e (List.mem_filter.mp he).1)
  split <;> omega

theorem loop_ok {p : String} {D : Int} : ∀ cs rem s, Inv s → Cands s p D cs → Hone s p D cs →
    rem ≤ sumOver s.ubds p (gW cs D) → ∃ s', delayLoop p D cs rem s = .ok s' := by
  intro cs
  induction cs with
  | nil =>
    intro rem s hi hc _ hr
    rw [W_nil hi hc] at hr
    refine ⟨s, ?_⟩
    unfold delayLoop
    have : ¬ rem > 0 := by omega
    simp [this]
  | cons c cs ih =>
    intro rem s hi hc ho hr
    rcases loop_cases hi hc rem with ⟨_, h0⟩ | ⟨_, _, _, es', b, hret, hi1, hc1, hloop⟩
    · exact ⟨s, h0⟩
    · rw [hloop]
      obtain ⟨v, T⟩ := c
      apply ih _ _ hi1 hc1 (hone_step hc ho hret)
      rw [step_W hi hc ho hret]; omega

theorem loop_err {p : String} {D : Int} : ∀ cs rem s, Inv s → Cands s p D cs → Hone s p D cs → NonNeg s.ubds p →
    sumOver s.ubds p (gW cs D) < rem → delayLoop p D cs rem s = .error "failed to delay enough unbondings" := by
  intro cs
  induction cs with
  | nil =>
    intro rem s hi hc _ _ hr
    rw [W_nil hi hc] at hr
    unfold delayLoop
    have : rem > 0 := by omega
    simp [this]
  | cons c cs ih =>
    intro rem s hi hc ho hn hr
    rcases loop_cases hi hc rem with ⟨hr0, _⟩ | ⟨_, _, _, es', b, hret, hi1, hc1, hloop⟩
    · have := W_nonneg (cs := c :: cs) (D := D) hn
      omega
    · rw [hloop]
      obtain ⟨v, T⟩ := c
      apply ih _ _ hi1 hc1 (hone_step hc ho hret) (step_nonneg hn hret)
      rw [step_W hi hc ho hret]; omega

theorem balSum_split (D : Int) (es : List Entry) :
    balSum (es.filter (fun e => decide (e.t ≤ D)))
      = balSum (es.filter (fun e => decide (e.t < D))) + balSum (es.filter (fun e => e.t == D)) := by
  induction es with
  | nil => simp [balSum]
  | cons e es ih =>
    simp only [List.filter_cons]
    by_cases h1 : e.t < D
    · have h2 : e.t ≤ D := by omega
      have h3 : ¬ e.t = D := by omega
      simp [h1, h2, h3, balSum_cons, ih]; omega
    · by_cases h3 : e.t = D
      · have h2 : e.t ≤ D := by omega
        simp [h3, balSum_cons, ih]; omega
      · have h2 : ¬ e.t ≤ D := by omega
        simp [h1, h2, h3, ih]

theorem W_init {s : State} {p : String} {D : Int} (hi : Inv s) :
    sumOver s.ubds p (gW (maturingByTime s.queue p D).reverse D) = byTime s.ubds p D := by
  rw [byTime_eq]
  apply sumOver_congr
  intro u hu hd
  unfold gW
  rw [balSum_split]
  split
  · rfl
  · rename_i hm
    have hcnt := (cands_init hi p D).2 u.val
    rw [List.count_eq_zero.mpr hm] at hcnt
    unfold entriesAt at hcnt
    rw [← hd, getEntries_of_mem hi.keys hu] at hcnt
    have : u.entries.filter (fun e => e.t == D) = [] := List.filter_eq_nil_iff.mpr (List.countP_eq_zero.mp hcnt.symm)
    rw [this]; simp [balSum]

/-- 7, the true part. Added: `hone`. Then a delay of more than what completes by `D` panics (with the loop's own message). -/
theorem delay_panics_partial (s : State) (p : String) (a D : Int) (h : Inv s) (hn : NonNeg s.ubds p)
    (hone : ∀ v, entriesAt s p v D ≤ 1) (hc : byTime s.ubds p D < a) :
    delayUnbonding s p a D = .error "failed to delay enough unbondings" :=
  loop_err _ _ _ h (cands_init h p D).1 (fun v _ => hone v) hn (by rw [W_init h]; exact hc)

/-- 7, the true part of the converse. Added: `hone` (without it: `delay_ok_of_covered_fails`). A delay of at most what
    completes by `D` goes through. -/
theorem delay_ok_of_covered_partial (s : State) (p : String) (a D : Int) (h : Inv s) (hn : NonNeg s.ubds p)
    (hone : ∀ v, entriesAt s p v D ≤ 1) (hc : a ≤ byTime s.ubds p D) : ∃ s', delayUnbonding s p a D = .ok s' := by
  have _ := hn
  exact loop_ok _ _ _ h (cands_init h p D).1 (fun v _ => hone v) (by rw [W_init h]; exact hc)

/-- two pairs of the provider, one entry each at 100, one earlier entry -/
def s2 : State :=
  run {} [.undelegate "p" "v1" 50 4, .undelegate "p" "v1" 100 5, .undelegate "p" "v2" 100 1, .undelegate "b" "v1" 100 7]

theorem inv_s2 : Inv s2 := inv_run_undelegates _ _ inv_empty rfl

theorem nonneg_s2 : NonNeg s2.ubds "p" := by unfold NonNeg; decide

theorem hone_s2 : ∀ v, entriesAt s2 "p" v 100 ≤ 1 := by
  intro v
  have hu : s2.ubds = [⟨"b", "v1", [⟨100, 7⟩]⟩, ⟨"p", "v1", [⟨50, 4⟩, ⟨100, 5⟩]⟩, ⟨"p", "v2", [⟨100, 1⟩]⟩] := by decide
  unfold entriesAt
  rw [hu]
  simp only [getEntries_cons, getEntries_nil]
  (repeat' split) <;> decide

/-- the hypotheses of the three partial theorems hold of `s2` (delay to 100): 7 is covered and goes through, 11 is not -/
example : Inv s2 ∧ NonNeg s2.ubds "p" ∧ (∀ v, entriesAt s2 "p" v 100 ≤ 1) ∧ (0 : Int) < 7 ∧
    (∃ s', delayUnbonding s2 "p" 7 100 = .ok s') ∧ 7 ≤ byTime s2.ubds "p" 100 ∧ byTime s2.ubds "p" 100 < 11 :=
  ⟨inv_s2, nonneg_s2, hone_s2, by decide, ⟨_, rfl⟩, by decide, by decide⟩

/-! ### 9: latest first -/

theorem loop_mono {p : String} {D : Int} (cs : List (String × Int)) (rem : Int) (s s' : State) (hi : Inv s)
    (hc : Cands s p D cs) (h : delayLoop p D cs rem s = .ok s') :
    ∀ v T, T < D → entriesAt s' p v T ≤ entriesAt s p v T := by
  refine (loop_rel (p := p) (D := D) (fun s s' => ∀ v T, T < D → entriesAt s' p v T ≤ entriesAt s p v T)
    ?_ ?_ ?_ _ _ _ _ hi hc h).2
  · intro s v T _; exact Nat.le_refl _
  · intro x y z hxy hyz v T hT; exact Nat.le_trans (hyz v T hT) (hxy v T hT)
  · intro s w Tc es' b _ _ _ hret v T hT
    have h1 := step_entriesAt hret p v T
    have : ¬ (p = p ∧ v = w ∧ T = D) := fun e => by omega
    rw [if_neg this] at h1
    omega

theorem loop_latest {p : String} {D : Int} : ∀ cs rem s s', Inv s → Cands s p D cs → delayLoop p D cs rem s = .ok s' →
    ∀ v T, T < D → 0 < entriesAt s' p v T → ∀ v' T', T' < T → entriesAt s' p v' T' = entriesAt s p v' T' := by
  intro cs
  induction cs with
  | nil =>
    intro rem s s' _ _ h
    unfold delayLoop at h
    split at h
    · cases h
    · cases h; intros; rfl
  | cons c cs ih =>
    intro rem s s' hi hc h v T hT hleft v' T' hT'
    rcases loop_cases hi hc rem with ⟨_, h0⟩ | ⟨_, _, _, es', b, hret, hi1, hc1, hloop⟩
    · rw [h0] at h; cases h; rfl
    · rw [hloop] at h
      obtain ⟨vc, Tc⟩ := c
      rw [ih _ _ _ hi1 hc1 h v T hT hleft v' T' hT']
      have h1 := step_entriesAt hret p v' T'
      have h2 : ¬ (p = p ∧ v' = vc ∧ T' = D) := fun e => by omega
      rw [if_neg h2] at h1
      by_cases hk : p = p ∧ v' = vc ∧ T' = Tc
      · exfalso
        have hz : cs.count (v, T) = 0 := by
          apply List.count_eq_zero.mpr
          intro hm
          have := (List.pairwise_cons.mp hc.sorted).1 _ hm
          simp only at this
          omega
        have h3 := hc1.eq v T hT
        have h4 := loop_mono cs _ _ _ hi1 hc1 h v T hT
        omega
      · rw [if_neg hk] at h1
        omega

/-- 9. latest first: if an entry of the provider still completes at T < D afterwards, nothing was moved out of any earlier
    time -/
theorem delay_latest_first (s s' : State) (p : String) (a D : Int) (h : Inv s) (ok : delayUnbonding s p a D = .ok s')
    (v : String) (T : Int) (hT : T < D) (hleft : 0 < entriesAt s' p v T) (v' : String) (T' : Int) (hT' : T' < T) :
    entriesAt s' p v' T' = entriesAt s p v' T' :=
  loop_latest _ _ _ _ h (cands_init h p D).1 ok v T hT hleft v' T' hT'

/-- the hypotheses of 9 hold of `s0` with the delay of 10 to 100: the entry completing at 50 is left -/
example : ∃ s', delayUnbonding s0 "p" 10 100 = .ok s' ∧ 0 < entriesAt s' "p" "v1" 50 := ⟨_, rfl, by decide⟩

end Shentu.UbdQueue.Delay
