import Shentu.Proofs.C15HRun
/-
  Helper lemmas for `Shentu/Props/C14F.lean`, part 1: the four sums the oracle module account has to cover (collateral,
  pending withdrawals, accumulated rewards, bounties of pending tasks), and what every store update of the oracle model
  does to them.
-/
namespace Shentu.C14FH
open Shentu Shentu.Oracle Shentu.Halt.Orc Shentu.C15HH
set_option linter.unusedSimpArgs false
set_option linter.unusedVariables false

/-! ### the sums -/

/-- what a task still holds in the module account: its bounty while it is pending, nothing afterwards -/
def holds (t : Task) (d : Denom) : Int := if t.status = 1 then Coins.amountOf t.bounty d else 0

/-- the bounties of the pending tasks, in one denomination -/
def bountySum (ts : List Task) (d : Denom) : Int := (ts.map (fun t => holds t d)).sum

/-- everything the oracle module owes, in one denomination: the operators' collateral, the pending withdrawals, the
    operators' accumulated rewards, and the bounties of the pending tasks -/
def owed (s : State) (d : Denom) : Int :=
  collSum s.ops d + wdSum s.wds d + rewSum s.ops d + bountySum s.tasks d

/-- the module account covers what the module owes, in every denomination -/
def Funded (m : Addr) (l : Ledger) (s : State) : Prop := ∀ d, owed s d ≤ l.balOf m d

/-- the recorded total collateral is the sum of the operators' collateral, in every denomination -/
def TotalIsSum (s : State) : Prop := ∀ d, Coins.amountOf s.total d = collSum s.ops d

/-- well-formedness: the end-blocker's invariant (positive epsilons, non-negative collateral in the bond denomination, valid
    bounties, scores in range), distinct operator addresses, distinct task keys -/
structure WF (bond : Denom) (s : State) : Prop where
  endInv : EndInv bond s
  opsNodup : (s.ops.map (·.addr)).Nodup
  keysNodup : (s.tasks.map Task.key).Nodup

/-- what one step does: the debt grows by no more than the module account, and total collateral moves with the sum -/
structure Delta (m : Addr) (l l' : Ledger) (s s' : State) : Prop where
  owed : ∀ d, owed s' d - owed s d ≤ l'.balOf m d - l.balOf m d
  total : ∀ d, Coins.amountOf s'.total d - Coins.amountOf s.total d = collSum s'.ops d - collSum s.ops d

theorem Delta.funded {m : Addr} {l l' : Ledger} {s s' : State} (h : Delta m l l' s s') (hf : Funded m l s) : Funded m l' s' := by
  intro d; have := h.owed d; have := hf d; omega

theorem Delta.totalIsSum {m : Addr} {l l' : Ledger} {s s' : State} (h : Delta m l l' s s') (hf : TotalIsSum s) :
    TotalIsSum s' := by
  intro d; have := h.total d; have := hf d; omega

/-! ### replacing and removing the record under a key, in a list with distinct keys -/

theorem map_replace_fix {α : Type} (κ : α → String) (k : String) (n : α) : ∀ (l : List α), (∀ y ∈ l, ¬ κ y = k) →
    l.map (fun x => if κ x == k then n else x) = l
  | [], _ => rfl
  | y :: ys, h => by
    have hy : ¬ κ y = k := h y List.mem_cons_self
    have ih := map_replace_fix κ k n ys (fun z hz => h z (List.mem_cons_of_mem _ hz))
    simp only [List.map_cons, beq_iff_eq, hy, if_false]
    simp only [beq_iff_eq] at ih
    rw [ih]

theorem filter_remove_fix {α : Type} (κ : α → String) (k : String) : ∀ (l : List α), (∀ y ∈ l, ¬ κ y = k) →
    l.filter (fun x => !(κ x == k)) = l
  | [], _ => rfl
  | y :: ys, h => by
    have hy : ¬ κ y = k := h y List.mem_cons_self
    have ih := filter_remove_fix κ k ys (fun z hz => h z (List.mem_cons_of_mem _ hz))
    have hb : (κ y == k) = false := by simpa using hy
    simp only [List.filter_cons, hb, Bool.not_false, if_true]
    rw [ih]

theorem sum_replace {α : Type} (κ : α → String) (g : α → Int) (k : String) (n : α) : ∀ (l : List α) (o : α),
    (l.map κ).Nodup → l.find? (fun x => κ x == k) = some o →
    ((l.map (fun x => if κ x == k then n else x)).map g).sum = (l.map g).sum - g o + g n
  | [], _, _, h => by cases h
  | x :: xs, o, hn, h => by
    have hnx := List.nodup_cons.mp (by simpa using hn : (κ x :: xs.map κ).Nodup)
    by_cases hx : κ x == k
    · have hxk : κ x = k := by simpa using hx
      have ho : x = o := by simpa [List.find?_cons, hx] using h
      subst ho
      have hfix := map_replace_fix κ k n xs (by
        intro y hy hyk
        apply hnx.1
        rw [hxk, ← hyk]; exact List.mem_map_of_mem hy)
      simp only [List.map_cons, hx, if_true, List.sum_cons]
      rw [hfix]
      omega
    · have hx' : (κ x == k) = false := by simpa using hx
      have h' : xs.find? (fun x => κ x == k) = some o := by simpa [List.find?_cons, hx'] using h
      have ih := sum_replace κ g k n xs o hnx.2 h'
      simp only [List.map_cons, hx', Bool.false_eq_true, if_false, List.sum_cons]
      rw [ih]
      omega

theorem sum_remove {α : Type} (κ : α → String) (g : α → Int) (k : String) : ∀ (l : List α) (o : α),
    (l.map κ).Nodup → l.find? (fun x => κ x == k) = some o →
    ((l.filter (fun x => !(κ x == k))).map g).sum = (l.map g).sum - g o
  | [], _, _, h => by cases h
  | x :: xs, o, hn, h => by
    have hnx := List.nodup_cons.mp (by simpa using hn : (κ x :: xs.map κ).Nodup)
    by_cases hx : κ x == k
    · have hxk : κ x = k := by simpa using hx
      have ho : x = o := by simpa [List.find?_cons, hx] using h
      subst ho
      have hfix := filter_remove_fix κ k xs (by
        intro y hy hyk
        apply hnx.1
        rw [hxk, ← hyk]; exact List.mem_map_of_mem hy)
      simp only [List.filter_cons, hx, Bool.not_true, Bool.false_eq_true, if_false, List.map_cons, List.sum_cons]
      rw [hfix]
      omega
    · have hx' : (κ x == k) = false := by simpa using hx
      have h' : xs.find? (fun x => κ x == k) = some o := by simpa [List.find?_cons, hx'] using h
      have ih := sum_remove κ g k xs o hnx.2 h'
      simp only [List.filter_cons, hx', Bool.not_false, if_true, List.map_cons, List.sum_cons]
      rw [ih]
      omega

theorem sum_filter_none {α : Type} (κ : α → String) (k : String) (l : List α)
    (h : l.find? (fun x => κ x == k) = none) : l.filter (fun x => !(κ x == k)) = l := by
  apply filter_remove_fix
  intro y hy hyk
  have := List.find?_eq_none.1 h y hy
  simp [hyk] at this

/-! ### operators -/

theorem setOp_ops_found {s : State} {a : Addr} {o n : Operator} (h : findOp s a = some o) (hn : n.addr = a) :
    (setOp s n).ops = s.ops.map (fun x => if x.addr == a then n else x) := by
  unfold setOp
  have : isOp s a = true := by simp [isOp, h]
  rw [hn]
  simp only [this, if_true]

theorem setOp_ops_new {s : State} {n : Operator} (h : isOp s n.addr = false) : (setOp s n).ops = s.ops ++ [n] := by
  unfold setOp
  simp only [h, Bool.false_eq_true, if_false]

/-- the sums after the operator found at `a` is overwritten -/
theorem setOp_sums {s : State} {a : Addr} {o n : Operator} (hn : (s.ops.map (·.addr)).Nodup) (h : findOp s a = some o)
    (hna : n.addr = a) (d : Denom) :
    collSum (setOp s n).ops d = collSum s.ops d - Coins.amountOf o.coll d + Coins.amountOf n.coll d ∧
    rewSum (setOp s n).ops d = rewSum s.ops d - Coins.amountOf o.rew d + Coins.amountOf n.rew d := by
  rw [setOp_ops_found h hna]
  exact ⟨sum_replace (fun x : Operator => x.addr) (fun x => Coins.amountOf x.coll d) a n s.ops o hn h,
    sum_replace (fun x : Operator => x.addr) (fun x => Coins.amountOf x.rew d) a n s.ops o hn h⟩

/-- the sums after a new operator is stored -/
theorem setOp_sums_new {s : State} {n : Operator} (h : isOp s n.addr = false) (d : Denom) :
    collSum (setOp s n).ops d = collSum s.ops d + Coins.amountOf n.coll d ∧
    rewSum (setOp s n).ops d = rewSum s.ops d + Coins.amountOf n.rew d := by
  rw [setOp_ops_new h]
  simp [collSum, rewSum]

/-- the sums after the operator found at `a` is removed -/
theorem delOp_sums {s : State} {a : Addr} {o : Operator} (hn : (s.ops.map (·.addr)).Nodup) (h : findOp s a = some o)
    (d : Denom) :
    collSum (delOp s a).ops d = collSum s.ops d - Coins.amountOf o.coll d ∧
    rewSum (delOp s a).ops d = rewSum s.ops d - Coins.amountOf o.rew d :=
  ⟨sum_remove (fun x : Operator => x.addr) (fun x => Coins.amountOf x.coll d) a s.ops o hn h,
   sum_remove (fun x : Operator => x.addr) (fun x => Coins.amountOf x.rew d) a s.ops o hn h⟩

theorem collSum_of_map {l l' : List Operator} (h : l'.map (·.coll) = l.map (·.coll)) (d : Denom) :
    collSum l' d = collSum l d := by
  have e : ∀ x : List Operator, collSum x d = ((x.map (·.coll)).map (fun c => Coins.amountOf c d)).sum := by
    intro x; rw [List.map_map]; rfl
  rw [e, e, h]

/-! ### withdrawals -/

theorem wdSum_upsert (a : Addr) (due : Int) (amt : Coins) (d : Denom) : ∀ (l : List Withdraw),
    wdSum (upsertWd a due amt l) d = wdSum l d + Coins.amountOf amt d
  | [] => by simp [upsertWd, wdSum]
  | w :: ws => by
    unfold upsertWd
    split
    · simp only [wdSum, List.map_cons, List.sum_cons, Coins.amountOf_add]; omega
    · have ih := wdSum_upsert a due amt d ws
      simp only [wdSum, List.map_cons, List.sum_cons] at ih ⊢
      omega

/-- paying a list of withdrawals takes at most their sum out of the module account (a withdrawal addressed to the module
    account itself takes nothing) -/
theorem payWithdraws_bal (e : Env) : ∀ (ws : List Withdraw) (l l' : Ledger), payWithdraws e ws l = .ok l' →
    ∀ d, l.balOf e.modAddr d - wdSum ws d ≤ l'.balOf e.modAddr d
  | [], l, l', h, d => by unfold payWithdraws at h; cases h; simp [wdSum]
  | w :: ws, l, l', h, d => by
    unfold payWithdraws at h
    split at h
    · cases h
    · rename_i l1 hs
      have ih := payWithdraws_bal e ws l1 l' h d
      have hnn := amountOf_nonneg w.amt (Shentu.Shield.PoolLm.send_not_anyNegative hs) d
      rw [Ledger.send_ok _ _ _ _ _ hs, Ledger.balOf_move] at ih
      simp only [beq_self_eq_true, if_true] at ih
      simp only [wdSum, List.map_cons, List.sum_cons] at ih ⊢
      split at ih <;> omega

/-! ### tasks -/

theorem holds_nonneg {t : Task} (h : Coins.isAnyNegative t.bounty = false) (d : Denom) : 0 ≤ holds t d := by
  unfold holds
  split
  · exact amountOf_nonneg _ h d
  · exact Int.le_refl _

theorem bountySum_filter_le (p : Task → Bool) (d : Denom) : ∀ (ts : List Task),
    (∀ t ∈ ts, Coins.isAnyNegative t.bounty = false) → bountySum (ts.filter p) d ≤ bountySum ts d
  | [], _ => by simp [bountySum]
  | t :: ts, h => by
    have ih := bountySum_filter_le p d ts (fun x hx => h x (List.mem_cons_of_mem _ hx))
    have h0 := holds_nonneg (h t List.mem_cons_self) d
    simp only [bountySum, List.filter_cons] at ih ⊢
    split
    · simp only [List.map_cons, List.sum_cons]; omega
    · simp only [List.map_cons, List.sum_cons]; omega

theorem setTask_tasks_found {s : State} {k : String} {t0 n : Task} (h : findTask s k = some t0) (hn : n.key = k) :
    (setTask s n).tasks = s.tasks.map (fun x => if x.key == k then n else x) := by
  unfold setTask
  rw [hn, h]
  simp only [Option.isSome_some, if_true]

theorem setTask_tasks_new {s : State} {n : Task} (h : findTask s n.key = none) : (setTask s n).tasks = s.tasks ++ [n] := by
  unfold setTask
  rw [h]; rfl

/-- the bounties held after the task found under `k` is overwritten -/
theorem setTask_bountySum {s : State} {k : String} {t0 n : Task} (hn : (s.tasks.map Task.key).Nodup)
    (h : findTask s k = some t0) (hnk : n.key = k) (d : Denom) :
    bountySum (setTask s n).tasks d = bountySum s.tasks d - holds t0 d + holds n d := by
  rw [setTask_tasks_found h hnk]
  exact sum_replace Task.key (fun x => holds x d) k n s.tasks t0 hn h

theorem setTask_bountySum_new {s : State} {n : Task} (h : findTask s n.key = none) (d : Denom) :
    bountySum (setTask s n).tasks d = bountySum s.tasks d + holds n d := by
  rw [setTask_tasks_new h]
  simp [bountySum]

/-- the bounties held after the task found under `k` is removed -/
theorem delTask_bountySum {s : State} {k : String} {t0 : Task} (hn : (s.tasks.map Task.key).Nodup)
    (h : findTask s k = some t0) (d : Denom) :
    bountySum (delTask s k).tasks d = bountySum s.tasks d - holds t0 d :=
  sum_remove Task.key (fun x => holds x d) k s.tasks t0 hn h

/-- the bounties held after the tasks under `k` went through `f` in the end-blocker -/
theorem app_bountySum {s : State} {k : String} {t0 n : Task} (incs : List (Addr × Coins))
    (hn : (s.tasks.map Task.key).Nodup) (h : findTask s k = some t0) (d : Denom) :
    bountySum (app k (fun _ => n) incs s).tasks d = bountySum s.tasks d - holds t0 d + holds n d :=
  sum_replace Task.key (fun x => holds x d) k n s.tasks t0 hn h

/-! ### task keys stay distinct -/

theorem keys_setTask_found {s : State} {k : String} {t0 n : Task} (h : findTask s k = some t0) (hnk : n.key = k) :
    (setTask s n).tasks.map Task.key = s.tasks.map Task.key := by
  rw [setTask_tasks_found h hnk, List.map_map]
  apply List.map_congr_left
  intro x _
  simp only [Function.comp]
  split
  · rename_i hx; rw [hnk]; exact (by simpa using hx : x.key = k).symm
  · rfl

theorem keys_setTask_new {s : State} {n : Task} (h : findTask s n.key = none) (hn : (s.tasks.map Task.key).Nodup) :
    ((setTask s n).tasks.map Task.key).Nodup := by
  rw [setTask_tasks_new h, List.map_append, List.nodup_append]
  refine ⟨hn, by simp, ?_⟩
  intro a ha b hb
  simp only [List.map_cons, List.map_nil, List.mem_singleton] at hb
  subst hb
  obtain ⟨x, hx, hxa⟩ := List.mem_map.1 ha
  unfold findTask at h
  have := List.find?_eq_none.1 h x hx
  intro heq
  apply this
  simp [hxa, heq]

theorem keys_delTask {s : State} (k : String) (hn : (s.tasks.map Task.key).Nodup) :
    ((delTask s k).tasks.map Task.key).Nodup :=
  hn.sublist (List.Sublist.map _ List.filter_sublist)

end Shentu.C14FH

