import Shentu.Proofs.ShieldCollPayout
import Shentu.Proofs.ShieldFundPayout
/-
  C08, shield part: when does the payout of an approved claim (`CreateReimbursement`, run by governance's end-blocker)
  complete?  The state-machine panics ("provider-not-found", "payout-from-withdrawals", "forced-withdraw") are excluded by
  the collateral books (`CollInv`) once the schedule the loop computes is arithmetically feasible: every provider's share
  of covered shield plus its payment fits into its collateral, and the payments add up to the loss.
-/
namespace Shentu.Halt
open Shentu Shentu.Shield Shentu.Shield.Coll
set_option linter.unusedSimpArgs false
set_option linter.unusedVariables false

/-! ## the walk over one provider's queued withdrawals -/

/-- what the walk can take out of the entries `ws` when the first `u` coins of them are not available -/
def avail : List Withdraw → Int → Int
  | [], _ => 0
  | w :: ws, u => max (w.amount - u) 0 + avail ws (max (u - w.amount) 0)

theorem avail_nonneg : ∀ (ws : List Withdraw) (u : Int), 0 ≤ avail ws u := by
  intro ws
  induction ws with
  | nil => intro u; exact Int.le_refl 0
  | cons w ws ih => intro u; unfold avail; have := ih (max (u - w.amount) 0); omega

theorem avail_ge : ∀ (ws : List Withdraw) (u : Int), 0 ≤ u → (∀ w ∈ ws, 0 ≤ w.amount) →
    sumI (·.amount) ws - u ≤ avail ws u := by
  intro ws
  induction ws with
  | nil => intro u hu _; simp only [sumI_nil, avail]; omega
  | cons w ws ih =>
    intro u hu hws
    unfold avail
    have := ih (max (u - w.amount) 0) (by omega) (fun x hx => hws x (List.mem_cons_of_mem _ hx))
    have := hws w List.mem_cons_self
    rw [sumI_cons]
    omega

/-- the walk does not panic when what is asked from the withdrawals is available there -/
theorem payoutWithdrawLoop_total :
    ∀ (ws : List Withdraw) (u fw : Int) (q : List Withdraw), 0 ≤ fw → fw ≤ avail ws u →
      ∃ q', payoutWithdrawLoop ws u fw q = .ok q' := by
  intro ws
  induction ws with
  | nil =>
    intro u fw q h0 h1
    unfold avail at h1
    have : fw = 0 := by omega
    subst this
    exact ⟨q, by unfold payoutWithdrawLoop; rfl⟩
  | cons w ws ih =>
    intro u fw q h0 h1
    unfold avail at h1
    unfold payoutWithdrawLoop
    by_cases hle : fw ≤ 0
    · have : fw = 0 := by omega
      subst this
      exact ⟨q, by simp⟩
    · rw [if_neg hle]
      dsimp only
      by_cases hrem : (max (w.amount - u) 0 == 0) = true
      · rw [if_pos hrem]
        have : max (w.amount - u) 0 = 0 := by simpa using hrem
        exact ih _ _ _ h0 (by omega)
      · rw [if_neg hrem]
        have := avail_nonneg ws (max (u - w.amount) 0)
        exact ih _ _ _ (by omega) (by omega)

/-! ## one provider -/

/-- taking `payout` from a provider whose collateral covers it together with its share `purchased` of the covered
    shield cannot panic -/
theorem updateProviderForPayout_total {s : State} {a : Addr} {p : Provider} {purchased payout : Int}
    (hr : CollRest s) (hf : findProvider s a = some p) (hpur : 0 ≤ purchased) (hpay : 0 ≤ payout)
    (hfit : purchased + payout ≤ p.collateral) : ∃ s', updateProviderForPayout s a purchased payout = .ok s' := by
  have hnn := hr.provNonneg p (findProvider_some hf).1
  have hwd : p.withdrawing = sumI (·.amount) (s.withdraws.filter (·.addr == a)).reverse := by
    rw [sumI_reverse]; exact hr.wdg_eq hf
  have hpos : ∀ w ∈ (s.withdraws.filter (·.addr == a)).reverse, 0 ≤ w.amount := by
    intro w hw
    have := hr.wdrPos w (List.mem_filter.mp (List.mem_reverse.mp hw)).1
    omega
  have key : ∀ u fw : Int, 0 ≤ u → 0 ≤ fw → fw ≤ p.withdrawing - u →
      ∃ q', payoutWithdrawLoop (s.withdraws.filter (·.addr == a)).reverse u fw s.withdraws = .ok q' := by
    intro u fw hu hfw hle
    apply payoutWithdrawLoop_total _ _ _ _ hfw
    have := avail_ge _ u hu hpos
    omega
  unfold updateProviderForPayout
  rw [hf]
  dsimp only
  by_cases h1 : p.collateral - p.withdrawing ≥ purchased + payout
  · rw [if_pos h1]
    dsimp only
    rcases key 0 (payout - payout) (by omega) (by omega) (by omega) with ⟨q', hq'⟩
    rw [hq']; exact ⟨_, rfl⟩
  · rw [if_neg h1]
    by_cases h2 : p.collateral - p.withdrawing ≥ purchased
    · rw [if_pos h2]
      dsimp only
      rcases key 0 (payout - (p.collateral - p.withdrawing - purchased)) (by omega) (by omega) (by omega) with ⟨q', hq'⟩
      rw [hq']; exact ⟨_, rfl⟩
    · rw [if_neg h2]
      dsimp only
      rcases key (purchased - (p.collateral - p.withdrawing)) (payout - 0) (by omega) (by omega) (by omega) with ⟨q', hq'⟩
      rw [hq']; exact ⟨_, rfl⟩

/-- the staking hooks cannot panic for a provider when the recomputed stake is not negative -/
theorem stakingChanged_total {e : Env} {s : State} {a : Addr} {p : Provider} (hf : findProvider s a = some p)
    (hb : ∀ x, e.bondedAfter a = some x → 0 ≤ x) : ∃ s', stakingChanged e s a = .ok s' := by
  unfold stakingChanged
  cases hba : e.bondedAfter a with
  | none => exact ⟨s, rfl⟩
  | some b =>
    dsimp only
    have hb0 := hb b hba
    unfold stakingHook
    rw [hf]
    dsimp only
    by_cases hw : p.collateral - p.withdrawing - b > 0
    · rw [if_pos hw]
      have hok := (withdrawCollateral_ok_iff e (rebonded s p b) a (p.collateral - p.withdrawing - b) (by omega)).mpr
        ⟨{ p with bonded := b }, findProvider_rebonded hf b, by show _ ≤ p.collateral - p.withdrawing; omega⟩
      rcases hok with ⟨s2, hs2⟩
      unfold rebonded at hs2
      rw [hs2]
      exact ⟨s2, rfl⟩
    · rw [if_neg hw]
      exact ⟨_, rfl⟩

/-! ## provider addresses are stable while a payout is spread -/

theorem isSome_find_iff (l : List Provider) (a : Addr) : (l.find? (·.addr == a)).isSome = true ↔ a ∈ l.map (·.addr) := by
  rw [List.find?_isSome]
  constructor
  · rintro ⟨x, hx, he⟩; exact List.mem_map.mpr ⟨x, hx, by simpa using he⟩
  · intro h
    rcases List.mem_map.mp h with ⟨x, hx, he⟩
    exact ⟨x, hx, by simpa using he⟩

theorem exists_provider_of_addrs {s s' : State} (h : s'.providers.map (·.addr) = s.providers.map (·.addr)) {a : Addr}
    (hs : ∃ p, findProvider s a = some p) : ∃ p', findProvider s' a = some p' := by
  rcases hs with ⟨p, hp⟩
  have h1 : (s.providers.find? (·.addr == a)).isSome = true := by
    have : s.providers.find? (·.addr == a) = some p := hp
    rw [this]; rfl
  have h2 : (s'.providers.find? (·.addr == a)).isSome = true := by
    rw [isSome_find_iff, h, ← isSome_find_iff]; exact h1
  cases hf : s'.providers.find? (·.addr == a) with
  | none => rw [hf] at h2; cases h2
  | some p' => exact ⟨p', hf⟩

theorem updateProviderForPayout_addrs {s s' : State} {a : Addr} {pur pay : Int}
    (h : updateProviderForPayout s a pur pay = .ok s') : s'.providers.map (·.addr) = s.providers.map (·.addr) := by
  obtain ⟨p, q, _, _, hs'⟩ := updateProviderForPayout_spec s s' a pur pay h
  subst hs'
  exact updP_addrs _ _

theorem stakingChanged_addrs {e : Env} {s s' : State} {a : Addr}
    (h : stakingChanged e s a = .ok s') : s'.providers.map (·.addr) = s.providers.map (·.addr) := by
  unfold stakingChanged at h
  split at h
  · cases h; rfl
  · rcases stakingHook_spec e s s' a _ h with ⟨_, h1⟩ | ⟨p, hf, ⟨_, h1⟩ | ⟨_, _, h1⟩⟩
    · rw [h1]
    · subst h1; exact updP_addrs _ _
    · subst h1
      show (updP _ (updP _ s.providers)).map _ = _
      rw [updP_addrs, updP_addrs]

/-! ## the schedule -/

/-- The schedule `reimburseLoop` computes (it only depends on the snapshot of the providers, the two ratios and the
    two running totals) is feasible: every provider's share of the covered shield plus its payment fits into its
    collateral, and when the providers are exhausted nothing is left to pay. -/
def feasible (pr yr : Dec) : List Provider → Int → Int → Bool
  | [], _, ty => decide (ty ≤ 0)
  | p :: ps, tp, ty =>
    decide (ty ≤ 0) ||
      (decide (Fund.payoutPur pr yr p tp ty + Fund.payoutPay pr yr p tp ty ≤ p.collateral) &&
        feasible pr yr ps (tp - Fund.payoutPur pr yr p tp ty) (ty - Fund.payoutPay pr yr p tp ty))

/-- a feasible schedule is carried out without panic and pays in full -/
theorem reimburseLoop_total (e : Env) (pr yr : Dec) (hpr : 0 ≤ pr.raw) (hyr : 0 ≤ yr.raw)
    (hb : ∀ a x, e.bondedAfter a = some x → 0 ≤ x) :
    ∀ (ps : List Provider) (tp ty : Int) (l : Ledger) (s : State),
      CollRest s → 0 ≤ tp → (ps.map (·.addr)).Nodup →
      (∀ q ∈ ps, 0 ≤ q.collateral ∧ collOf s q.addr = q.collateral ∧ ∃ p', findProvider s q.addr = some p') →
      feasible pr yr ps tp ty = true →
      ∃ left l' s', reimburseLoop e pr yr ps tp ty l s = .ok (left, l', s') ∧ left ≤ 0 := by
  intro ps
  induction ps with
  | nil =>
    intro tp ty l s _ _ _ _ hfe
    unfold feasible at hfe
    exact ⟨ty, l, s, by unfold reimburseLoop; rfl, by simpa using hfe⟩
  | cons p ps ih =>
    intro tp ty l s hr htp hnd hps hfe
    rw [Fund.reimburseLoop_cons]
    by_cases hty : ty ≤ 0
    · rw [if_pos hty]; exact ⟨ty, l, s, rfl, hty⟩
    · rw [if_neg hty]
      unfold feasible at hfe
      simp only [Bool.or_eq_true, Bool.and_eq_true, decide_eq_true_eq] at hfe
      rcases hfe with hfe | ⟨hfit, hfe⟩
      · exact absurd hfe hty
      · obtain ⟨hpc, hcoll, p0, hp0⟩ := hps p List.mem_cons_self
        have hp0c : p0.collateral = p.collateral := by rw [← hcoll, collOf_found hp0]
        have hpurB := Fund.payoutPur_bounds pr yr p tp ty hpc hpr htp
        have hpayN := Fund.payoutPay_nonneg pr yr p tp ty hpc hyr (by omega)
        rcases updateProviderForPayout_total hr hp0 hpurB.1 hpayN (by rw [hp0c]; exact hfit) with ⟨s1, hs1⟩
        rw [hs1]
        dsimp only
        have hL1 := updateProviderForPayout_payoutLike _ _ _ _ _ hr hpurB.1 hs1
        have hA1 := updateProviderForPayout_addrs hs1
        rcases exists_provider_of_addrs hA1 ⟨p0, hp0⟩ with ⟨p1, hp1⟩
        rcases stakingChanged_total (e := e) hp1 (hb p.addr) with ⟨s2, hs2⟩
        rw [hs2]
        dsimp only
        have hL2 := stakingChanged_reqLike _ _ _ _ hs2
        have hA2 := stakingChanged_addrs hs2
        have hnd' := List.nodup_cons.mp hnd
        apply ih _ _ _ _ (hL2.rest hL1.rest) (by omega) hnd'.2 ?_ hfe
        intro q hq
        obtain ⟨hqc, hqcoll, hqex⟩ := hps q (List.mem_cons_of_mem _ hq)
        have hne : q.addr ≠ p.addr := by
          intro he
          apply hnd'.1
          show p.addr ∈ ps.map (·.addr)
          rw [← he]; exact List.mem_map.mpr ⟨q, hq, rfl⟩
        refine ⟨hqc, ?_, exists_provider_of_addrs hA2 (exists_provider_of_addrs hA1 hqex)⟩
        rw [hL2.collOf, hL1.collOf, if_neg hne]; exact hqcoll

/-- **the payout of an approved claim does not panic** when the collateral books are consistent, there is collateral,
    the staking view reports no negative stake, and the schedule is feasible -/
theorem createReimbursement_total (e : Env) (l : Ledger) (s : State) (pid : Nat) (amount : Int) (b : Addr)
    (hi : CollInv s) (hT : s.totalCollateral ≠ 0) (hsh : 0 ≤ s.totalShield) (hamt : 0 ≤ amount)
    (hb : ∀ a x, e.bondedAfter a = some x → 0 ≤ x)
    (hfe : feasible (Dec.quo (Dec.ofInt s.totalShield) (Dec.ofInt s.totalCollateral))
      (Dec.quo (Dec.ofInt amount) (Dec.ofInt s.totalCollateral)) s.providers s.totalShield amount = true) :
    ∃ l' s', createReimbursement e l s pid amount b = .ok (l', s') := by
  have htc : 0 ≤ s.totalCollateral := by
    rw [hi.coll]; exact sumI_nonneg _ _ (fun p hp => (hi.provNonneg p hp).1)
  have hpr : 0 ≤ (Dec.quo (Dec.ofInt s.totalShield) (Dec.ofInt s.totalCollateral)).raw :=
    Dec.quo_nonneg _ _ (Dec.ofInt_nonneg _ hsh) (Dec.ofInt_nonneg _ htc)
  have hyr : 0 ≤ (Dec.quo (Dec.ofInt amount) (Dec.ofInt s.totalCollateral)).raw :=
    Dec.quo_nonneg _ _ (Dec.ofInt_nonneg _ hamt) (Dec.ofInt_nonneg _ htc)
  have hps : ∀ q ∈ s.providers, 0 ≤ q.collateral ∧ collOf s q.addr = q.collateral ∧ ∃ p', findProvider s q.addr = some p' := by
    intro q hq
    have hfq := findProvider_of_mem hi.nodup hq
    exact ⟨(hi.provNonneg q hq).1, collOf_found hfq, q, hfq⟩
  rcases reimburseLoop_total e _ _ hpr hyr hb s.providers s.totalShield amount l s hi.rest hsh hi.nodup hps hfe with
    ⟨left, l1, s1, hloop, hleft⟩
  unfold createReimbursement
  have h0 : (s.totalCollateral == 0) = false := by simpa using hT
  rw [h0]
  simp only [Bool.false_eq_true, if_false]
  rw [hloop]
  dsimp only
  have : ¬ left > 0 := by omega
  rw [if_neg this]
  exact ⟨_, _, rfl⟩

end Shentu.Halt
