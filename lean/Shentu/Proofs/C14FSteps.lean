import Shentu.Proofs.C14FSums
/-
  Helper lemmas for `Shentu/Props/C14F.lean`, part 2: every oracle operation raises what the module owes by no more than it
  raises the module account's balance, and keeps the recorded total collateral equal to the sum over the operators.
-/
namespace Shentu.C14FH
open Shentu Shentu.Oracle Shentu.Halt.Orc Shentu.C15HH
set_option linter.unusedSimpArgs false
set_option linter.unusedVariables false

/-- who pays into the module account in an operation -/
def OpPayer : Op → Option Addr
  | .createOperator a _ _ => some a
  | .addCollateral a _ => some a
  | .createTask _ _ _ cr _ _ => some cr
  | _ => none

/-! ### the bank -/

theorem bal_in {l l' : Ledger} {a m : Addr} {c : Coins} (h : l.send a m c = .ok l') (ha : a ≠ m) (d : Denom) :
    l'.balOf m d = l.balOf m d + Coins.amountOf c d := by
  rw [Ledger.send_ok _ _ _ _ _ h, Ledger.balOf_move]
  have : (a == m) = false := by simpa using ha
  simp [this]

theorem bal_out {l l' : Ledger} {a m : Addr} {c : Coins} (h : l.send m a c = .ok l') (d : Denom) :
    l.balOf m d - Coins.amountOf c d ≤ l'.balOf m d ∧ 0 ≤ Coins.amountOf c d := by
  have hnn := amountOf_nonneg c (Shentu.Shield.PoolLm.send_not_anyNegative h) d
  rw [Ledger.send_ok _ _ _ _ _ h, Ledger.balOf_move]
  simp only [beq_self_eq_true, if_true]
  refine ⟨?_, hnn⟩
  split <;> omega

/-! ### the operator messages -/

theorem createOperator_delta {m : Addr} {e : Env} {l l' : Ledger} {s s' : State} {a : Addr} {c : Coins} {p : Addr}
    (hm : e.modAddr = m) (ha : a ≠ m) (h : createOperator e l s a c p = .ok (l', s')) : Delta m l l' s s' := by
  unfold createOperator at h
  split at h; · cases h
  split at h; · cases h
  rename_i hno
  split at h; · cases h
  dsimp only at h
  split at h; · cases h
  rename_i l1 hs
  cases h
  rw [hm] at hs
  have hnew : isOp s ({ addr := a, proposer := p, coll := c, rew := [] } : Operator).addr = false := by simpa using hno
  refine ⟨fun d => ?_, fun d => ?_⟩
  · have h1 := setOp_sums_new hnew d
    have hb := bal_in hs ha d
    simp only [owed, setOp_wds, setOp_tasks]
    dsimp only at h1
    simp only [Coins.amountOf_nil] at h1
    omega
  · have h1 := setOp_sums_new hnew d
    dsimp only at h1
    simp only [Coins.amountOf_add, setOp_total]
    omega

theorem addCollateral_delta {m : Addr} {e : Env} {l l' : Ledger} {s s' : State} {a : Addr} {c : Coins}
    (hm : e.modAddr = m) (ha : a ≠ m) (hn : (s.ops.map (·.addr)).Nodup) (h : addCollateral e l s a c = .ok (l', s')) :
    Delta m l l' s s' := by
  unfold addCollateral at h
  split at h; · cases h
  split at h; · cases h
  rename_i o ho
  dsimp only at h
  split at h; · cases h
  rename_i l1 hs
  cases h
  rw [hm] at hs
  have hoa := findOp_addr s a o ho
  have h1 := fun d => setOp_sums (n := { o with coll := Coins.add o.coll c }) hn ho hoa d
  refine ⟨fun d => ?_, fun d => ?_⟩
  · have hb := bal_in hs ha d
    have := h1 d
    simp only [owed, setOp_wds, setOp_tasks]
    simp only [Coins.amountOf_add] at this
    omega
  · have := h1 d
    simp only [Coins.amountOf_add, setOp_total] at this ⊢
    omega

theorem reduceCollateral_delta {m : Addr} {e : Env} {l l' : Ledger} {s s' : State} {a : Addr} {c : Coins}
    (hn : (s.ops.map (·.addr)).Nodup) (h : reduceCollateral e l s a c = .ok (l', s')) : Delta m l l' s s' := by
  unfold reduceCollateral at h
  split at h; · cases h
  split at h; · cases h
  rename_i o ho
  split at h; · cases h
  dsimp only at h
  split at h; · cases h
  split at h; · cases h
  cases h
  have hoa := findOp_addr s a o ho
  have h1 := fun d => setOp_sums (n := { o with coll := Coins.sub o.coll c }) hn ho hoa d
  refine ⟨fun d => ?_, fun d => ?_⟩
  · have := h1 d
    simp only [owed, createWithdraw, wdSum_upsert, setOp_wds, setOp_tasks]
    simp only [Coins.amountOf_sub] at this
    omega
  · have := h1 d
    simp only [createWithdraw, Coins.amountOf_sub, setOp_total] at this ⊢
    omega

theorem removeOperator_delta {m : Addr} {e : Env} {l l' : Ledger} {s s' : State} {a : Addr}
    (hm : e.modAddr = m) (hn : (s.ops.map (·.addr)).Nodup) (h : removeOperator e l s a = .ok (l', s')) :
    Delta m l l' s s' := by
  unfold removeOperator at h
  split at h; · cases h
  rename_i o ho
  split at h; · cases h
  dsimp only at h
  split at h; · cases h
  rename_i l1 hs
  cases h
  rw [hm] at hs
  have h1 := fun d => delOp_sums hn ho d
  refine ⟨fun d => ?_, fun d => ?_⟩
  · have := h1 d
    have hb := bal_out hs d
    simp only [owed, createWithdraw, delOp, wdSum_upsert] at this ⊢
    omega
  · have := h1 d
    simp only [createWithdraw, delOp, Coins.amountOf_sub] at this ⊢
    omega

theorem withdrawReward_delta {m : Addr} {e : Env} {l l' : Ledger} {s s' : State} {a : Addr}
    (hm : e.modAddr = m) (hn : (s.ops.map (·.addr)).Nodup) (h : withdrawReward e l s a = .ok (l', s')) :
    Delta m l l' s s' := by
  unfold withdrawReward at h
  split at h; · cases h
  rename_i o ho
  split at h; · cases h
  rename_i l1 hs
  cases h
  rw [hm] at hs
  have hoa := findOp_addr s a o ho
  have h1 := fun d => setOp_sums (n := { o with rew := [] }) hn ho hoa d
  refine ⟨fun d => ?_, fun d => ?_⟩
  · have := h1 d
    have hb := bal_out hs d
    simp only [owed, setOp_wds, setOp_tasks]
    dsimp only at this
    simp only [Coins.amountOf_nil] at this
    omega
  · have := h1 d
    dsimp only at this
    simp only [setOp_total]
    omega

/-! ### the task messages -/

/-- what the task stored under a key still holds -/
def heldUnder (s : State) (k : String) (d : Denom) : Int :=
  match findTask s k with
  | some old => holds old d
  | none => 0

theorem heldUnder_nonneg {bond : Denom} {s : State} (hw : WF bond s) (k : String) (d : Denom) : 0 ≤ heldUnder s k d := by
  unfold heldUnder
  cases hf : findTask s k with
  | none => exact Int.le_refl _
  | some old => exact holds_nonneg (findTask_tasksOk hw.endInv.tasks hf).1 d

/-- `createTask`, exactly: the bounty arrives in the module account; the debt grows by the bounty and shrinks by what the
    replaced task (if any) still held -/
theorem createTask_exact {m : Addr} {bond : Denom} {e : Env} {l l' : Ledger} {s s' : State} {ct fn : String} {b : Coins}
    {cr : Addr} {w v : Int} (hm : e.modAddr = m) (hcr : cr ≠ m) (hw : WF bond s)
    (h : createTask e l s ct fn b cr w v = .ok (l', s')) :
    (∀ d, l'.balOf m d = l.balOf m d + Coins.amountOf b d) ∧
    (∀ d, owed s' d = owed s d + Coins.amountOf b d - heldUnder s (ct ++ fn) d) ∧
    (∀ d, collSum s'.ops d = collSum s.ops d) ∧ s'.total = s.total ∧ (s'.tasks.map Task.key).Nodup := by
  unfold createTask at h
  dsimp only at h
  generalize (if Gen.Oracle.waitIsDefault w = true then s.params.window else w) = window at h
  generalize (if Gen.Oracle.validIsDefault v = true then e.t + s.params.expDur else e.t + v) = expi at h
  split at h; · cases h
  rename_i s0 hpre
  split at h; · cases h
  rename_i l1 hs
  cases h
  rw [hm] at hs
  have h0 : s0.ops = s.ops ∧ s0.wds = s.wds ∧ s0.total = s.total ∧
      (∀ d, bountySum s0.tasks d = bountySum s.tasks d - heldUnder s (ct ++ fn) d) ∧
      (s0.tasks.map Task.key).Nodup ∧ findTask s0 (ct ++ fn) = none := by
    split at hpre; · cases hpre
    split at hpre
    · rename_i old hold
      split at hpre; · cases hpre
      cases hpre
      refine ⟨rfl, rfl, rfl, fun d => ?_, keys_delTask _ hw.keysNodup, Shentu.C20GOrcInv.findTask_delTask s _⟩
      rw [delTask_bountySum hw.keysNodup hold d]
      simp [heldUnder, hold]
    · rename_i hnone
      cases hpre
      exact ⟨rfl, rfl, rfl, fun d => by simp [heldUnder, hnone], hw.keysNodup, hnone⟩
  obtain ⟨e1, e2, e3, e4, e5, e6⟩ := h0
  have hnew := fun d => setTask_bountySum_new (s := s0)
    (n := { contract := ct, function := fn, begin := e.h, bounty := b, expiration := expi, creator := cr, responses := [],
            result := 0, closing := Gen.Oracle.ctClosingBlock e.h window, waiting := window, status := 1 }) e6 d
  refine ⟨fun d => bal_in hs hcr d, fun d => ?_, fun d => ?_, ?_, ?_⟩
  · have hn1 := hnew d
    have := e4 d
    simp only [owed, addClosing_ops, addClosing_wds, addClosing_tasks, setTask_ops, setTask_wds, e1, e2]
    simp only [holds, if_true] at hn1
    omega
  · simp only [addClosing_ops, setTask_ops, e1]
  · simp only [addClosing_total, setTask_total, e3]
  · rw [addClosing_tasks]
    exact keys_setTask_new e6 e5

theorem createTask_facts {m : Addr} {bond : Denom} {e : Env} {l l' : Ledger} {s s' : State} {ct fn : String} {b : Coins}
    {cr : Addr} {w v : Int} (hm : e.modAddr = m) (hcr : cr ≠ m) (hw : WF bond s)
    (h : createTask e l s ct fn b cr w v = .ok (l', s')) :
    Delta m l l' s s' ∧ (s'.tasks.map Task.key).Nodup := by
  obtain ⟨a1, a2, a3, a4, a5⟩ := createTask_exact hm hcr hw h
  refine ⟨⟨fun d => ?_, fun d => ?_⟩, a5⟩
  · have := a1 d; have := a2 d; have := heldUnder_nonneg hw (ct ++ fn) d
    omega
  · rw [a4, a3 d]; omega

theorem respond_facts {m : Addr} {bond : Denom} {e : Env} {l : Ledger} {s s' : State} {ct fn : String} {sc : Int} {o : Addr}
    (hw : WF bond s) (h : respond e s ct fn sc o = .ok s') : Delta m l l s s' ∧ (s'.tasks.map Task.key).Nodup := by
  obtain ⟨t, ht, rfl⟩ := Shentu.Props.C15.respond_appends e s s' ct fn sc o h
  have hk : ({ t with responses := t.responses ++ [{ op := o, score := sc, weight := 0, reward := [] }] } : Task).key = ct ++ fn :=
    (findTask_key ht : t.key = ct ++ fn)
  refine ⟨⟨fun d => ?_, fun d => ?_⟩, ?_⟩
  · have := setTask_bountySum hw.keysNodup ht hk d
    simp only [owed, setTask_ops, setTask_wds]
    simp only [holds] at this
    omega
  · simp only [setTask_ops, setTask_total]; omega
  · rw [keys_setTask_found ht hk]; exact hw.keysNodup

theorem deleteTask_facts {m : Addr} {bond : Denom} {e : Env} {l : Ledger} {s s' : State} {ct fn : String} {fo : Bool} {dl : Addr}
    (hw : WF bond s) (h : deleteTask e s ct fn fo dl = .ok s') : Delta m l l s s' ∧ (s'.tasks.map Task.key).Nodup := by
  unfold deleteTask at h
  split at h; · cases h
  rename_i t ht
  split at h; · cases h
  split at h; · cases h
  split at h; · cases h
  cases h
  refine ⟨⟨fun d => ?_, fun d => ?_⟩, keys_delTask _ hw.keysNodup⟩
  · have := bountySum_filter_le (fun x => !(x.key == ct ++ fn)) d s.tasks (fun t ht => (hw.endInv.tasks t ht).1)
    simp only [owed, delTask] at this ⊢
    omega
  · simp only [delTask]; omega

/-- `deleteTask`, exactly: only the creator, only after the closing block; what the task still held leaves the debt (and,
    the ledger being untouched, stays in the module account) -/
theorem deleteTask_exact {bond : Denom} {e : Env} {s s' : State} {ct fn : String} {fo : Bool} {dl : Addr}
    (hw : WF bond s) (h : deleteTask e s ct fn fo dl = .ok s') :
    ∃ t, findTask s (ct ++ fn) = some t ∧ t.creator = dl ∧ t.closing < e.h ∧ ∀ d, owed s' d = owed s d - holds t d := by
  obtain ⟨t, ht, _, hfin, hcr⟩ := (Shentu.Props.C15.delete_iff e s ct fn fo dl).mp ⟨s', h⟩
  unfold deleteTask at h
  rw [ht] at h; dsimp only at h
  split at h; · cases h
  split at h; · cases h
  split at h; · cases h
  cases h
  refine ⟨t, ht, hcr, hfin, fun d => ?_⟩
  have := delTask_bountySum hw.keysNodup ht d
  simp only [owed, delTask_ops, delTask_wds]
  omega

/-! ### the begin-blocker -/

theorem beginBlock_delta {m : Addr} {e : Env} {l l' : Ledger} {s s' : State} (hm : e.modAddr = m)
    (h : beginBlock e l s = .ok (l', s')) : Delta m l l' s s' := by
  unfold beginBlock at h
  split at h; · cases h
  rename_i l1 hp
  cases h
  refine ⟨fun d => ?_, fun d => ?_⟩
  · have h1 := payWithdraws_bal e _ _ _ hp d
    have h2 := wdSum_split (mature e.h) s.wds d
    rw [hm] at h1
    simp only [owed]
    omega
  · simp

/-! ### the end-blocker -/

/-- what the end-blocker does to the debt: it never grows; collateral and the recorded total are untouched -/
structure EndStep (s s' : State) : Prop where
  owed : ∀ d, owed s' d ≤ owed s d
  coll : ∀ d, collSum s'.ops d = collSum s.ops d
  total : s'.total = s.total

theorem EndStep.refl (s : State) : EndStep s s := ⟨fun _ => Int.le_refl _, fun _ => rfl, rfl⟩

theorem EndStep.trans {a b c : State} (h1 : EndStep a b) (h2 : EndStep b c) : EndStep a c :=
  ⟨fun d => Int.le_trans (h2.owed d) (h1.owed d), fun d => (h2.coll d).trans (h1.coll d), h2.total.trans h1.total⟩

theorem holds_pending {t : Task} (h : t.status = 1) (d : Denom) : holds t d = Coins.amountOf t.bounty d := by
  simp [holds, h]

theorem holds_finished {t : Task} (h : t.status ≠ 1) (d : Denom) : holds t d = 0 := by
  simp [holds, h]

/-- one closing task: the bounty it held is released, and at most that much is credited as rewards -/
theorem endOne_step {bond : Denom} {s s' : State} {id : String × String} (hw : WF bond s) (h : endOne bond s id = .ok s') :
    EndStep s s' ∧ WF bond s' := by
  have hwf : WF bond s' := by
    refine ⟨?_, by rw [endOne_ops h]; exact hw.opsNodup, ?_⟩
    · rcases endOne_ok bond s id hw.endInv with ⟨s2, hs2, hi2⟩
      rw [h] at hs2; cases hs2; exact hi2
    · have := (Shentu.C20GOrcInv.endOne_keep hw.keysNodup h).1
      rw [Shentu.C20GOrcInv.keys_of_sig, this, ← Shentu.C20GOrcInv.keys_of_sig]; exact hw.keysNodup
  refine ⟨?_, hwf⟩
  rw [endOne_eq bond id (Agree.refl _ s)] at h
  cases he : endOneE bond s (id.1 ++ id.2) with
  | error x => rw [he] at h; cases h
  | ok pr =>
    obtain ⟨f, incs⟩ := pr
    rw [he] at h; dsimp only at h
    cases h
    rcases endOneE_cases he with ⟨hf, hin⟩ | ⟨t, t1, hfs, hst, hagg, hfin1, hc⟩
    · subst hf hin; rw [app_id]; exact EndStep.refl s
    · have htk := findTask_tasksOk hw.endInv.tasks hfs
      have hb0 : ∀ d, 0 ≤ Coins.amountOf t.bounty d := fun d => amountOf_nonneg _ htk.1 d
      rcases hc with ⟨hf, hin⟩ | ⟨t2, hd, hf, hfin2⟩
      · subst hf hin
        refine ⟨fun d => ?_, fun d => rfl, rfl⟩
        have h1 := app_bountySum (n := t1) [] hw.keysNodup hfs d
        rw [holds_pending hst, holds_finished hfin1.not_pending] at h1
        have := hb0 d
        have e1 : (app (id.1 ++ id.2) (fun _ => t1) [] s).ops = s.ops := rfl
        have e2 : (app (id.1 ++ id.2) (fun _ => t1) [] s).wds = s.wds := rfl
        simp only [owed, e1, e2]
        omega
      · subst hf
        have hbd := distributeBountyE_bound (EndInv.wok hw.endInv) (by rw [hfin1.bounty]; exact htk.1)
          (scores_of_rsig hfin1.resp htk.2) hd
        have hcs := credits_sums incs hw.opsNodup hbd.1
        have e1 : (app (id.1 ++ id.2) (fun _ => t2) incs s).ops = credits incs s.ops := rfl
        have e2 : (app (id.1 ++ id.2) (fun _ => t2) incs s).wds = s.wds := rfl
        have hcoll : ∀ d, collSum (credits incs s.ops) d = collSum s.ops d := fun d => collSum_of_map hcs.2.1 d
        refine ⟨fun d => ?_, fun d => by rw [e1]; exact hcoll d, rfl⟩
        have h1 := app_bountySum (n := t2) incs hw.keysNodup hfs d
        rw [holds_pending hst, holds_finished hfin2.not_pending] at h1
        have h2 := (hcs.2.2 d).2
        have h3 := hbd.2 d
        rw [hfin1.bounty] at h3
        have := hcoll d
        simp only [owed, e1, e2]
        omega

/-- one closing task, from below: the debt falls by at most what the task held -/
theorem endOne_released {bond : Denom} {s s' : State} {id : String × String} (hw : WF bond s)
    (h : endOne bond s id = .ok s') (d : Denom) : owed s d - heldUnder s (id.1 ++ id.2) d ≤ owed s' d := by
  have h0 := heldUnder_nonneg hw (id.1 ++ id.2) d
  rw [endOne_eq bond id (Agree.refl _ s)] at h
  cases he : endOneE bond s (id.1 ++ id.2) with
  | error x => rw [he] at h; cases h
  | ok pr =>
    obtain ⟨f, incs⟩ := pr
    rw [he] at h; dsimp only at h
    cases h
    rcases endOneE_cases he with ⟨hf, hin⟩ | ⟨t, t1, hfs, hst, hagg, hfin1, hc⟩
    · subst hf hin; rw [app_id]; omega
    · have htk := findTask_tasksOk hw.endInv.tasks hfs
      have hhu : heldUnder s (id.1 ++ id.2) d = holds t d := by simp [heldUnder, hfs]
      rcases hc with ⟨hf, hin⟩ | ⟨t2, hd, hf, hfin2⟩
      · subst hf hin
        have h1 := app_bountySum (n := t1) [] hw.keysNodup hfs d
        rw [holds_finished hfin1.not_pending] at h1
        have e1 : (app (id.1 ++ id.2) (fun _ => t1) [] s).ops = s.ops := rfl
        have e2 : (app (id.1 ++ id.2) (fun _ => t1) [] s).wds = s.wds := rfl
        simp only [owed, e1, e2]
        omega
      · subst hf
        have hbd := distributeBountyE_bound (EndInv.wok hw.endInv) (by rw [hfin1.bounty]; exact htk.1)
          (scores_of_rsig hfin1.resp htk.2) hd
        have hcs := credits_sums incs hw.opsNodup hbd.1
        have e1 : (app (id.1 ++ id.2) (fun _ => t2) incs s).ops = credits incs s.ops := rfl
        have e2 : (app (id.1 ++ id.2) (fun _ => t2) incs s).wds = s.wds := rfl
        have hcoll := collSum_of_map hcs.2.1 d
        have h1 := app_bountySum (n := t2) incs hw.keysNodup hfs d
        rw [holds_finished hfin2.not_pending] at h1
        have h2 := (hcs.2.2 d).1
        simp only [owed, e1, e2]
        omega

theorem endFold_step {bond : Denom} : ∀ (ids : List (String × String)) {s s' : State}, WF bond s →
    endFold bond ids s = .ok s' → EndStep s s'
  | [], s, s', _, h => by unfold endFold at h; cases h; exact EndStep.refl s
  | id :: ids, s, s', hw, h => by
    unfold endFold at h
    cases h1 : endOne bond s id with
    | error x => rw [h1] at h; cases h
    | ok s1 =>
      rw [h1] at h; dsimp only at h
      obtain ⟨a, hw1⟩ := endOne_step hw h1
      exact a.trans (endFold_step ids hw1 h)

theorem endBlock_step {e : Env} {s s' : State} (hw : WF e.bond s) (h : endBlock e s = .ok s') : EndStep s s' := by
  unfold endBlock at h
  cases hf : endFold e.bond (closingAt s e.h) s with
  | error x => rw [hf] at h; cases h
  | ok s1 =>
    rw [hf] at h; dsimp only at h
    cases h
    have := endFold_step _ hw hf
    exact ⟨this.owed, this.coll, this.total⟩

theorem endBlock_keys {e : Env} {s s' : State} (hn : (s.tasks.map Task.key).Nodup) (h : endBlock e s = .ok s') :
    (s'.tasks.map Task.key).Nodup := by
  unfold endBlock at h
  cases hf : endFold e.bond (closingAt s e.h) s with
  | error x => rw [hf] at h; cases h
  | ok s1 =>
    rw [hf] at h; dsimp only at h
    cases h
    have := (Shentu.C20GOrcInv.endFold_keep _ hn hf).1
    show (s1.tasks.map Task.key).Nodup
    rw [Shentu.C20GOrcInv.keys_of_sig, this, ← Shentu.C20GOrcInv.keys_of_sig]; exact hn

/-! ### every operation -/

/-- **one accepted operation**: the debt grows by no more than the module account, the recorded total moves with the sum
    of the operators' collateral, and the state stays well-formed -/
theorem stepE_facts {m : Addr} {bond : Denom} {e : Env} {l l' : Ledger} {s s' : State} {op : Op} (hm : e.modAddr = m)
    (hb : e.bond = bond) (hp : OpPayer op ≠ some m) (hw : WF bond s) (h : stepE e l s op = .ok (l', s')) :
    Delta m l l' s s' ∧ WF bond s' := by
  have hi' : EndInv bond s' := by
    have := stepE_endInv e l l' s s' op h (by rw [hb]; exact hw.endInv)
    rw [hb] at this; exact this
  have hn' := stepE_opsNodup h hw.opsNodup
  have frame : s'.tasks = s.tasks → (s'.tasks.map Task.key).Nodup := fun ht => by rw [ht]; exact hw.keysNodup
  cases op with
  | createOperator a co p =>
    have ha : a ≠ m := fun h' => hp (by simp [OpPayer, h'])
    exact ⟨createOperator_delta hm ha h, hi', hn', frame (Shentu.C20GOrcInv.frame_createOperator h).1⟩
  | removeOperator a =>
    exact ⟨removeOperator_delta hm hw.opsNodup h, hi', hn', frame (Shentu.C20GOrcInv.frame_removeOperator h).1⟩
  | addCollateral a co =>
    have ha : a ≠ m := fun h' => hp (by simp [OpPayer, h'])
    exact ⟨addCollateral_delta hm ha hw.opsNodup h, hi', hn', frame (Shentu.C20GOrcInv.frame_addCollateral h).1⟩
  | reduceCollateral a co =>
    exact ⟨reduceCollateral_delta hw.opsNodup h, hi', hn', frame (Shentu.C20GOrcInv.frame_reduceCollateral h).1⟩
  | withdrawReward a =>
    exact ⟨withdrawReward_delta hm hw.opsNodup h, hi', hn', frame (Shentu.C20GOrcInv.frame_withdrawReward h).1⟩
  | createTask ct fn b cr w v =>
    have hcr : cr ≠ m := fun h' => hp (by simp [OpPayer, h'])
    obtain ⟨a1, a2⟩ := createTask_facts hm hcr hw h
    exact ⟨a1, hi', hn', a2⟩
  | respond ct fn sc o =>
    simp only [stepE] at h
    cases hr : respond e s ct fn sc o with
    | error x => rw [hr] at h; cases h
    | ok s1 =>
      rw [hr] at h; injection h with h; injection h with h1 h2; subst h1 h2
      obtain ⟨a1, a2⟩ := respond_facts (m := m) (l := l) hw hr
      exact ⟨a1, hi', hn', a2⟩
  | deleteTask ct fn fo dl =>
    simp only [stepE] at h
    cases hr : deleteTask e s ct fn fo dl with
    | error x => rw [hr] at h; cases h
    | ok s1 =>
      rw [hr] at h; injection h with h; injection h with h1 h2; subst h1 h2
      obtain ⟨a1, a2⟩ := deleteTask_facts (m := m) (l := l) hw hr
      exact ⟨a1, hi', hn', a2⟩
  | beginBlock =>
    exact ⟨beginBlock_delta hm h, hi', hn', frame (Shentu.C20GOrcInv.frame_beginBlock h).1⟩
  | endBlock =>
    simp only [stepE] at h
    cases hr : endBlock e s with
    | error x => rw [hr] at h; cases h
    | ok s1 =>
      rw [hr] at h; injection h with h; injection h with h1 h2; subst h1 h2
      have hs := endBlock_step (by rw [hb]; exact hw) hr
      refine ⟨⟨fun d => ?_, fun d => ?_⟩, hi', hn', endBlock_keys hw.keysNodup hr⟩
      · have := hs.owed d; omega
      · rw [hs.total, hs.coll d]; omega

/-! ### histories -/

/-- a history: any list of operations, each in its own environment; a refused operation changes nothing -/
def run (ls : Ledger × State) (ops : List (Env × Op)) : Ledger × State :=
  ops.foldl (fun ls eo => step eo.1 ls eo.2) ls

/-- the hypotheses on a history: one module address, one bond denomination, and the module account never signs a message
    that pays into the module account -/
def Hyp (m : Addr) (bond : Denom) (ops : List (Env × Op)) : Prop :=
  ∀ eo ∈ ops, eo.1.modAddr = m ∧ eo.1.bond = bond ∧ OpPayer eo.2 ≠ some m

instance (m : Addr) (bond : Denom) (ops : List (Env × Op)) : Decidable (Hyp m bond ops) := by
  unfold Hyp; infer_instance

/-- the three facts carried along a history -/
structure Good (m : Addr) (bond : Denom) (ls : Ledger × State) : Prop where
  wf : WF bond ls.2
  funded : Funded m ls.1 ls.2
  total : TotalIsSum ls.2

theorem good_step {m : Addr} {bond : Denom} {ls : Ledger × State} {eo : Env × Op} (hm : eo.1.modAddr = m)
    (hb : eo.1.bond = bond) (hp : OpPayer eo.2 ≠ some m) (hg : Good m bond ls) : Good m bond (step eo.1 ls eo.2) := by
  unfold step
  cases h : stepE eo.1 ls.1 ls.2 eo.2 with
  | error x => exact hg
  | ok r =>
    obtain ⟨l', s'⟩ := r
    obtain ⟨a1, a2⟩ := stepE_facts hm hb hp hg.wf h
    exact ⟨a2, a1.funded hg.funded, a1.totalIsSum hg.total⟩

theorem good_run {m : Addr} {bond : Denom} : ∀ (ops : List (Env × Op)) {ls : Ledger × State}, Hyp m bond ops →
    Good m bond ls → Good m bond (run ls ops)
  | [], _, _, hg => hg
  | eo :: rest, ls, hh, hg => by
    have h1 := hh eo List.mem_cons_self
    exact good_run rest (fun x hx => hh x (List.mem_cons_of_mem _ hx)) (good_step h1.1 h1.2.1 h1.2.2 hg)

/-- the empty oracle state -/
def emptyS (p : Params) : State := { ops := [], wds := [], total := [], tasks := [], closing := [], params := p }

theorem wf_empty (bond : Denom) (p : Params) (h1 : 0 < p.eps1) (h2 : 0 < p.eps2) : WF bond (emptyS p) := by
  refine ⟨⟨h1, h2, ?_, ?_⟩, by simp [emptyS], by simp [emptyS]⟩
  · intro a o hf; simp [emptyS, findOp] at hf
  · intro t ht; simp [emptyS] at ht

theorem owed_empty (p : Params) (d : Denom) : owed (emptyS p) d = 0 := by
  simp [owed, emptyS, collSum, rewSum, wdSum, bountySum]

/-- the ghost run of `C15HRun` carries the same ledger and state as `run` -/
theorem runStep_ls (r : C15HH.Run) (eo : Env × Op) :
    ((runStep r eo).l, (runStep r eo).s) = step eo.1 (r.l, r.s) eo.2 := by
  unfold runStep step
  cases h : stepE eo.1 r.l r.s eo.2 with
  | error x => rfl
  | ok p => obtain ⟨l', s'⟩ := p; rfl

theorem foldl_runStep_ls : ∀ (ops : List (Env × Op)) (r : C15HH.Run),
    ((ops.foldl runStep r).l, (ops.foldl runStep r).s) = run (r.l, r.s) ops
  | [], _ => rfl
  | eo :: rest, r => by
    rw [List.foldl_cons, foldl_runStep_ls rest (runStep r eo), runStep_ls]; rfl

end Shentu.C14FH
