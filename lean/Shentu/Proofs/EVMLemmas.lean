import Shentu.Arith.BigOps
/-
  Facts about the library model `Shentu/Arith/BigOps.lean` (math/big, Burrow binary/stack) in terms of `BitVec 256`.
  Nothing here mentions the generated definitions.
-/
namespace Shentu.Arith

theorem two256 : (2 : Int) ^ 256 = 115792089237316195423570985008687907853269984665640564039457584007913129639936 := by decide

/-- pushing a natural number that fits a word -/
theorem u256_natCast (n : Nat) : u256 (n : Int) = n % 2 ^ 256 := by
  unfold u256; omega

theorem u256_of_lt (n : Nat) (h : n < 2 ^ 256) : u256 (n : Int) = n := by
  unfold u256; omega

/-- a word is the `U256` of its signed value -/
theorem toNat_eq_u256_toInt (x : BitVec 256) : x.toNat = u256 x.toInt := by
  have := x.isLt
  unfold u256; rw [BitVec.toInt_eq_toNat_cond]; split <;> omega

theorem toNat_ofInt_eq_u256 (i : Int) : (BitVec.ofInt 256 i).toNat = u256 i := by
  rw [BitVec.toNat_ofInt]; unfold u256; congr

/-- `S256(PopBigInt())` is the two's complement value of the word -/
theorem bigOfWordSigned_toNat (x : BitVec 256) : bigOfWordSigned x.toNat = x.toInt := by
  have := x.isLt
  unfold bigOfWordSigned s256 bigBit bigOfWord
  rw [BitVec.toInt_eq_toNat_cond]
  simp only [decide_eq_false_iff_not]
  split <;> split <;> omega

theorem bigSign_eq_zero (x : Int) : bigSign x = 0 ↔ x = 0 := by
  unfold bigSign; exact Int.sign_eq_zero_iff_zero

theorem bigSign_neg (x : Int) : bigSign x < 0 ↔ x < 0 := by
  unfold bigSign; exact Int.sign_neg_iff

theorem bigCmp_lt (x y : Int) : bigCmp x y < 0 ↔ x < y := by
  unfold bigCmp; repeat' split
  all_goals omega
theorem bigCmp_gt (x y : Int) : bigCmp x y > 0 ↔ x > y := by
  unfold bigCmp; repeat' split
  all_goals omega
theorem bigCmp_ge (x y : Int) : bigCmp x y ≥ 0 ↔ x ≥ y := by
  unfold bigCmp; repeat' split
  all_goals omega

theorem toInt_eq_zero (x : BitVec 256) : x.toInt = 0 ↔ x = 0 := by
  constructor
  · intro h; apply BitVec.eq_of_toInt_eq; simpa using h
  · intro h; subst h; rfl

theorem toNat_eq_zero (x : BitVec 256) : x.toNat = 0 ↔ x = 0 := by
  constructor
  · intro h; apply BitVec.eq_of_toNat_eq; simpa using h
  · intro h; subst h; rfl

theorem bigUint64_small (n : Nat) (h : n < 2 ^ 64) : bigUint64 (n : Int) = n := by unfold bigUint64; omega

theorem bigExp_natCast (a b : Nat) : bigExp (a : Int) (b : Int) = ((a ^ b : Nat) : Int) := by
  unfold bigExp
  by_cases h : b = 0
  · subst h; rfl
  · rw [if_neg (by omega), Int.toNat_natCast, Int.natCast_pow]

/-- modular exponentiation of two unsigned words with the modulus `1 << 256` -/
theorem bigExpMod_natCast (a b : Nat) :
    bigExpMod (a : Int) (b : Int) (bigLsh (1 : Int) 256) = some (((a ^ b % 2 ^ 256 : Nat) : Int)) := by
  have hm : bigLsh (1 : Int) 256 = ((2 ^ 256 : Nat) : Int) := by decide
  have hne : ¬ (((2 ^ 256 : Nat) : Int) = 0) := by decide
  have hy : ¬ ((b : Int) < 0) := by omega
  simp only [bigExpMod, hm, hne, hy, if_false, Int.natAbs_natCast, Int.toNat_natCast, ← Int.natCast_pow, ← Int.natCast_emod]

theorem bigIsUint64_natCast (n : Nat) : bigIsUint64 (n : Int) = true ↔ n < 2 ^ 64 := by
  unfold bigIsUint64; simp only [decide_eq_true_eq]; omega

/-- Burrow's `SignExtend(x, n)` (for a non-negative `x`) is the balanced remainder modulo `2^n` -/
theorem signExtend_eq_bmod (x n : Nat) (hn : 0 < n) : signExtend (x : Int) n = Int.bmod x (2 ^ n) := by
  obtain ⟨k, rfl⟩ : ∃ k, n = k + 1 := ⟨n - 1, by omega⟩
  have hp : 0 < 2 ^ k := Nat.pow_pos (by decide)
  have hr := Nat.mod_lt x hp
  have hq := Nat.mod_lt (x / 2 ^ k) (by decide : 0 < 2)
  have hm : x % (2 ^ k * 2) = x % 2 ^ k + 2 ^ k * (x / 2 ^ k % 2) := Nat.mod_mul
  have e0 : (2 : Int) ^ k = ((2 ^ k : Nat) : Int) := by simp
  have e1 : (x : Int) / ((2 ^ k : Nat) : Int) % 2 = ((x / 2 ^ k % 2 : Nat) : Int) := by
    rw [Int.natCast_emod, Int.natCast_ediv]; rfl
  have e2 : (x : Int) % ((2 ^ k : Nat) : Int) = ((x % 2 ^ k : Nat) : Int) := by rw [Int.natCast_emod]
  have e3 : (x : Int) % ((2 ^ k * 2 : Nat) : Int) = ((x % 2 ^ k + 2 ^ k * (x / 2 ^ k % 2) : Nat) : Int) := by
    rw [← hm, Int.natCast_emod]
  unfold signExtend bigBit Int.bmod
  simp only [Nat.add_sub_cancel, decide_eq_true_eq, Nat.pow_succ, e0, e1, e2, e3]
  generalize 2 ^ k = p at *
  generalize x % p = r at *
  generalize x / p % 2 = q at *
  have : q = 0 ∨ q = 1 := by omega
  rcases this with rfl | rfl
  · simp; omega
  · simp; omega

/-! ### byte-wise loops -/

/-- a byte-wise loop with a bit-wise operator is the operator on the whole words (truncated to `n` bytes) -/
theorem bytewise2_bitwise (f : Nat → Nat → Nat)
    (hmod : ∀ a b, f a b % 256 = f (a % 256) (b % 256))
    (hdiv : ∀ a b, f a b / 256 = f (a / 256) (b / 256)) :
    ∀ n x y, bytewise2 f n x y = f x y % 256 ^ n := by
  intro n
  induction n with
  | zero => intro x y; simp [bytewise2, Nat.mod_one]
  | succ n ih =>
    intro x y
    rw [bytewise2, ih, ← hdiv, ← hmod, Nat.mod_mod, show 256 ^ (n + 1) = 256 * 256 ^ n by rw [Nat.pow_succ, Nat.mul_comm],
      Nat.mod_mul]

theorem bytewise1_not : ∀ n x, bytewise1 (fun b => byteNot b) n x = 256 ^ n - 1 - x % 256 ^ n := by
  intro n
  induction n with
  | zero => intro x; simp [bytewise1]
  | succ n ih =>
    intro x
    have hp : 0 < 256 ^ n := Nat.pow_pos (by decide)
    have h1 := Nat.mod_lt (x / 256) hp
    rw [bytewise1, ih, show 256 ^ (n + 1) = 256 * 256 ^ n by rw [Nat.pow_succ, Nat.mul_comm], Nat.mod_mul]
    unfold byteNot
    generalize 256 ^ n = p at *
    generalize x / 256 % p = q at *
    omega

theorem and256 (a b : Nat) : (a &&& b) % 256 = (a % 256) &&& (b % 256) := Nat.and_mod_two_pow (n := 8)
theorem or256 (a b : Nat) : (a ||| b) % 256 = (a % 256) ||| (b % 256) := Nat.or_mod_two_pow (n := 8)
theorem xor256 (a b : Nat) : (a ^^^ b) % 256 = (a % 256) ^^^ (b % 256) := Nat.xor_mod_two_pow (n := 8)
theorem andDiv256 (a b : Nat) : (a &&& b) / 256 = (a / 256) &&& (b / 256) := by
  have := @Nat.shiftRight_and_distrib 8 a b
  simpa [Nat.shiftRight_eq_div_pow] using this
theorem orDiv256 (a b : Nat) : (a ||| b) / 256 = (a / 256) ||| (b / 256) := by
  have := @Nat.shiftRight_or_distrib 8 a b
  simpa [Nat.shiftRight_eq_div_pow] using this
theorem xorDiv256 (a b : Nat) : (a ^^^ b) / 256 = (a / 256) ^^^ (b / 256) := by
  have := @Nat.shiftRight_xor_distrib 8 a b
  simpa [Nat.shiftRight_eq_div_pow] using this

theorem pow256_32 : 256 ^ 32 = 2 ^ 256 := by decide

end Shentu.Arith
