import Shentu.Proofs.C09qBlock
import Shentu.Proofs.C09qDelay
import Shentu.Proofs.C09qPay
/-
  Helper definitions and lemmas for `Shentu/Props/C09q2.lean`: a ghost log of the three flows of the unbonding queue
  (entries created by undelegations, amounts taken by payouts, entries paid back by end-blocks), the number of stored
  entries, and what every single operation does to the total balance and to the number of entries.
-/
namespace Shentu.C09q2H
open Shentu.UbdQueue Shentu.UbdQueue.Store

/-! ### the number of stored entries -/

/-- how many unbonding entries are stored, all pairs together -/
def numEntries (us : List Ubd) : Nat := (us.map (fun u => u.entries.length)).sum

theorem num_cons (x : Ubd) (xs : List Ubd) : numEntries (x :: xs) = x.entries.length + numEntries xs := by
  simp [numEntries]

theorem num_removeUbd {us : List Ubd} (h : us.Pairwise (fun x y => ¬ (x.del = y.del ∧ x.val = y.val))) (d v : String) :
    numEntries (removeUbd us d v) + (getEntries us d v).length = numEntries us := by
  induction us with
  | nil => simp [removeUbd, numEntries, getEntries]
  | cons x xs ih =>
    rw [List.pairwise_cons] at h
    have ih' := ih h.2
    unfold removeUbd at ih' ⊢
    by_cases hx : x.del = d ∧ x.val = v
    · have hi : x.is d v = true := (is_iff x d v).mpr hx
      have habs : getEntries xs d v = [] :=
        Block.getEntries_absent (fun y hy e => h.1 y hy ⟨hx.1.trans e.1.symm, hx.2.trans e.2.symm⟩)
      rw [habs] at ih'
      rw [List.filter_cons_of_neg (by simp [hi]), getEntries_cons, if_pos hx, num_cons]
      simp only [List.length_nil, Nat.add_zero] at ih'
      omega
    · have hi : ¬ x.is d v = true := fun e => hx ((is_iff x d v).mp e)
      rw [List.filter_cons_of_pos (by simp [hi]), num_cons, num_cons, getEntries_cons, if_neg hx]
      omega

theorem num_insertUbd (u : Ubd) (us : List Ubd) : numEntries (insertUbd u us) = numEntries us + u.entries.length := by
  induction us with
  | nil => simp [insertUbd, numEntries]
  | cons x xs ih =>
    unfold insertUbd; split
    · rw [num_cons, num_cons, ih]; omega
    · simp only [num_cons]; omega

theorem num_setUbd {us : List Ubd} (h : us.Pairwise (fun x y => ¬ (x.del = y.del ∧ x.val = y.val))) (d v : String)
    (es : List Entry) : numEntries (setUbd us d v es) + (getEntries us d v).length = numEntries us + es.length := by
  unfold setUbd
  rw [num_insertUbd]
  have := num_removeUbd h d v
  simp only []
  omega

theorem num_setEntries {us : List Ubd} (h : us.Pairwise (fun x y => ¬ (x.del = y.del ∧ x.val = y.val))) (d v : String)
    (es : List Entry) : numEntries (setEntries us d v es) + (getEntries us d v).length = numEntries us + es.length := by
  unfold setEntries; split
  · rename_i he
    have : es = [] := by simpa using he
    subst this
    have := num_removeUbd h d v
    simp only [List.length_nil]; omega
  · exact num_setUbd h d v es

/-! ### undelegate -/

theorem undelegate_num (s : State) (d v : String) (t bal : Int) (h : WF s) :
    numEntries (undelegate s d v t bal).ubds = numEntries s.ubds + 1 := by
  show numEntries (setUbd s.ubds d v (getEntries s.ubds d v ++ [⟨t, bal⟩])) = _
  have := num_setUbd h.keys d v (getEntries s.ubds d v ++ [⟨t, bal⟩])
  simp only [List.length_append, List.length_cons, List.length_nil] at this
  omega

/-! ### the end-blocker -/

theorem length_filter_split (es : List Entry) (p : Entry → Bool) :
    (es.filter p).length + (es.filter (fun e => !p e)).length = es.length := by
  induction es with
  | nil => rfl
  | cons e es ih =>
    cases hp : p e
    · rw [List.filter_cons_of_neg (by simp [hp]), List.filter_cons_of_pos (by simp [hp])]
      simp only [List.length_cons]; omega
    · rw [List.filter_cons_of_pos (by simp [hp]), List.filter_cons_of_neg (by simp [hp])]
      simp only [List.length_cons]; omega

theorem completeAll_num (now : Int) (ps : List Pair) (us : List Ubd) (log : List Paid)
    (h : us.Pairwise (fun x y => ¬ (x.del = y.del ∧ x.val = y.val))) :
    numEntries (completeAll now ps us log).1 + (completeAll now ps us log).2.length = numEntries us + log.length := by
  induction ps generalizing us log with
  | nil => rfl
  | cons p ps ih =>
    obtain ⟨d0, v0⟩ := p
    unfold completeAll
    cases hc : completeUnbonding us now d0 v0 with
    | none => exact ih us log h
    | some r =>
      obtain ⟨us', m⟩ := r
      unfold completeUnbonding at hc
      simp only [] at hc
      split at hc
      · cases hc
      · simp only [Option.some.injEq, Prod.mk.injEq] at hc
        obtain ⟨rfl, rfl⟩ := hc
        simp only []
        rw [ih _ _ (keys_setEntries h _ _ _)]
        have h1 := num_setEntries h d0 v0 ((getEntries us d0 v0).filter (fun e => !e.isMature now))
        have h2 := length_filter_split (getEntries us d0 v0) (fun e => e.isMature now)
        simp only [List.length_append, List.length_map]
        omega

theorem endBlock_num (s : State) (now : Int) (h : WF s) :
    numEntries (endBlock s now).1.ubds + (endBlock s now).2.length = numEntries s.ubds := by
  have := completeAll_num now (dequeueAllMature s.queue now).1 s.ubds [] h.keys
  have hz : ([] : List Paid).length = 0 := rfl
  rw [hz, Nat.add_zero] at this
  exact this

/-! ### the delay: no balance and no entry count changes -/

theorem retime_sums {es es' : List Entry} {T D b : Int} (h : retime es T D = some (es', b)) :
    balSum es' = balSum es ∧ es'.length = es.length := by
  obtain ⟨l1, e, l2, hes, _, hb, hp⟩ := Delay.retime_some h
  subst hes
  refine ⟨?_, ?_⟩
  · rw [Delay.balSum_perm hp]
    simp only [Delay.balSum_append, Delay.balSum_cons]
    omega
  · rw [hp.length_eq]; simp

theorem delay_sums (s s' : State) (p : String) (a D : Int) (h : Inv s) (ok : delayUnbonding s p a D = .ok s') :
    total s'.ubds = total s.ubds ∧ numEntries s'.ubds = numEntries s.ubds := by
  refine (Delay.loop_rel (p := p) (D := D)
    (fun s s' => total s'.ubds = total s.ubds ∧ numEntries s'.ubds = numEntries s.ubds)
    (fun _ => ⟨rfl, rfl⟩) (fun a b c h1 h2 => ⟨h2.1.trans h1.1, h2.2.trans h1.2⟩) ?_ _ _ _ _ h (Delay.cands_init h p D).1 ok).2
  intro s v T es' b hi _ _ hret
  obtain ⟨h1, h2⟩ := retime_sums hret
  refine ⟨?_, ?_⟩
  · show total (setUbd s.ubds p v es') = _
    rw [Block.total_setUbd hi.keys, h1]; omega
  · show numEntries (setUbd s.ubds p v es') = _
    have := num_setUbd hi.keys p v es'
    omega

/-! ### the payout: the total shrinks by exactly the payout, no entry is added -/

theorem payEntry_length {es : List Entry} {e0 : Entry} {x : Int} {es' : List Entry} {r : Bool}
    (h : payEntry es e0 x = some (es', r)) : es'.length + (if r then 1 else 0) = es.length := by
  obtain ⟨l1, l2, h1, h2⟩ := Pay.payEntry_spec es e0 x es' r h
  rcases h2 with ⟨a, _, c⟩ | ⟨a, _, c⟩
  · subst h1; subst c; subst a
    simp only [List.length_append, List.length_cons, if_true]; omega
  · subst h1; subst c; subst a
    simp only [List.length_append, List.length_cons, Bool.false_eq_true, if_false]; omega

theorem payOne_sums (s s' : State) (d v : String) (e0 : Entry) (x : Int) (h : WF s) (hm : e0 ∈ getEntries s.ubds d v)
    (ok : payFromUnbondings s d v e0 x = .ok s') :
    total s'.ubds = total s.ubds - x ∧ numEntries s'.ubds ≤ numEntries s.ubds := by
  obtain ⟨es', r, hp, e⟩ := Pay.payOne_shape hm ok
  subst e
  dsimp only
  refine ⟨?_, ?_⟩
  · rw [Block.total_setEntries h.keys, Pay.payEntry_balSum hp]; omega
  · have h1 := num_setEntries h.keys d v es'
    have h2 := payEntry_length hp
    omega

theorem reach_sums {d : String} {nn : Prop} {s s' : State} {r : Int} (hr : Pay.Reach d nn s r s') (h : WF s) :
    total s'.ubds = total s.ubds - r ∧ numEntries s'.ubds ≤ numEntries s.ubds := by
  induction hr with
  | refl s => simp
  | step s s1 s' v e t r rem hr hm ht hle ok rest ih =>
    obtain ⟨h1, h2⟩ := payOne_sums _ _ _ _ _ _ h hm ok
    obtain ⟨h3, h4⟩ := ih (Pay.payOne_wf _ _ _ _ _ _ h ok)
    exact ⟨by omega, by omega⟩

theorem pay_sums (s s' : State) (d : String) (u x : Int) (h : WF s) (ok : payFromAllUnbondings s d u x = .ok s') :
    total s'.ubds = total s.ubds - x ∧ numEntries s'.ubds ≤ numEntries s.ubds :=
  reach_sums (Pay.pay_reach s s' d u x h ok) h

/-! ### the ghost log -/

/-- The three flows of a history, kept beside the state and never read by it. -/
structure Ghost where
  /-- every entry an undelegation created: delegator, validator, completion time and balance as created -/
  made : List Paid := []
  /-- every successful payout: the delegator and the amount taken from its unbonding entries -/
  outs : List (String × Int) := []
  /-- every entry an end-block paid back, with the balance it then had -/
  back : List Paid := []
  /-- how many entries the payouts used up altogether -/
  consumed : Nat := 0
  deriving DecidableEq, Repr

/-- the sum of the amounts of the successful payouts -/
def outSum (l : List (String × Int)) : Int := (l.map (·.2)).sum

theorem outSum_append_one (l : List (String × Int)) (d : String) (x : Int) : outSum (l ++ [(d, x)]) = outSum l + x := by
  simp [outSum]

theorem paidSum_append (a b : List Paid) : paidSum (a ++ b) = paidSum a + paidSum b := by
  simp [paidSum]

theorem paidSum_one (d v : String) (e : Entry) : paidSum [(d, v, e)] = e.bal := by
  simp [paidSum]

/-- one operation on the state, and its entry in the ghost log; a panicking call changes neither -/
def gstep (sg : State × Ghost) : Op → State × Ghost
  | .undelegate d v t bal => (undelegate sg.1 d v t bal, { sg.2 with made := sg.2.made ++ [(d, v, ⟨t, bal⟩)] })
  | .delay p a dl => (step sg.1 (.delay p a dl), sg.2)
  | .pay d u x =>
    match payFromAllUnbondings sg.1 d u x with
    | .ok s' => (s', { sg.2 with outs := sg.2.outs ++ [(d, x)],
                                 consumed := sg.2.consumed + (numEntries sg.1.ubds - numEntries s'.ubds) })
    | .error _ => sg
  | .endBlock now => ((endBlock sg.1 now).1, { sg.2 with back := sg.2.back ++ (endBlock sg.1 now).2 })

def grun (sg : State × Ghost) (ops : List Op) : State × Ghost := ops.foldl gstep sg

/-- the ghost log does not influence the state -/
theorem gstep_state (sg : State × Ghost) (op : Op) : (gstep sg op).1 = step sg.1 op := by
  cases op with
  | undelegate d v t bal => rfl
  | delay p a dl => rfl
  | pay d u x =>
    simp only [gstep, step]
    cases payFromAllUnbondings sg.1 d u x <;> rfl
  | endBlock now => rfl

theorem grun_state (sg : State × Ghost) (ops : List Op) : (grun sg ops).1 = run sg.1 ops := by
  induction ops generalizing sg with
  | nil => rfl
  | cons op ops ih =>
    show (grun (gstep sg op) ops).1 = run (step sg.1 op) ops
    rw [ih, gstep_state]

/-- the book-keeping invariant of a state with its ghost log -/
structure Ledger (sg : State × Ghost) : Prop where
  inv : Inv sg.1
  coins : total sg.1.ubds = paidSum sg.2.made - outSum sg.2.outs - paidSum sg.2.back
  entries : numEntries sg.1.ubds + sg.2.back.length + sg.2.consumed = sg.2.made.length

theorem ledger_empty : Ledger (({} : State), ({} : Ghost)) :=
  ⟨Block.inv_empty, rfl, rfl⟩

theorem ledger_step (sg : State × Ghost) (op : Op) (h : Ledger sg) : Ledger (gstep sg op) := by
  obtain ⟨s, g⟩ := sg
  obtain ⟨hi, hc, he⟩ := h
  simp only [] at hi hc he
  cases op with
  | undelegate d v t bal =>
    refine ⟨Block.undelegate_inv _ d v t bal hi, ?_, ?_⟩
    · show total (undelegate s d v t bal).ubds = paidSum (g.made ++ [(d, v, ⟨t, bal⟩)]) - outSum g.outs - paidSum g.back
      rw [Block.undelegate_total _ _ _ _ _ hi.toWF, paidSum_append, paidSum_one, hc]
      simp only []; omega
    · show numEntries (undelegate s d v t bal).ubds + g.back.length + g.consumed = (g.made ++ [((d, v, ⟨t, bal⟩) : Paid)]).length
      rw [undelegate_num _ _ _ _ _ hi.toWF, List.length_append]
      simp only [List.length_cons, List.length_nil]; omega
  | delay p a dl =>
    show Ledger (step s (.delay p a dl), g)
    cases hd : delayUnbonding s p a dl with
    | error e =>
      have : step s (.delay p a dl) = s := by simp only [step, hd]
      rw [this]; exact ⟨hi, hc, he⟩
    | ok s' =>
      have : step s (.delay p a dl) = s' := by simp only [step, hd]
      rw [this]
      obtain ⟨h1, h2⟩ := delay_sums _ _ _ _ _ hi hd
      refine ⟨Delay.delay_inv _ _ _ _ _ hi hd, ?_, ?_⟩
      · show total s'.ubds = paidSum g.made - outSum g.outs - paidSum g.back
        omega
      · show numEntries s'.ubds + g.back.length + g.consumed = g.made.length
        omega
  | pay d u x =>
    simp only [gstep]
    cases hd : payFromAllUnbondings s d u x with
    | error e => exact ⟨hi, hc, he⟩
    | ok s' =>
      obtain ⟨h1, h2⟩ := pay_sums _ _ _ _ _ hi.toWF hd
      refine ⟨Pay.pay_inv _ _ _ _ _ hi hd, ?_, ?_⟩
      · show total s'.ubds = paidSum g.made - outSum (g.outs ++ [(d, x)]) - paidSum g.back
        rw [outSum_append_one]; omega
      · show numEntries s'.ubds + g.back.length + (g.consumed + (numEntries s.ubds - numEntries s'.ubds)) = g.made.length
        omega
  | endBlock now =>
    have h1 := Block.endBlock_conservation _ now hi
    have h2 := endBlock_num _ now hi.toWF
    refine ⟨Block.endBlock_inv _ now hi, ?_, ?_⟩
    · show total (endBlock s now).1.ubds = paidSum g.made - outSum g.outs - paidSum (g.back ++ (endBlock s now).2)
      rw [paidSum_append]; omega
    · show numEntries (endBlock s now).1.ubds + (g.back ++ (endBlock s now).2).length + g.consumed = g.made.length
      rw [List.length_append]; omega

theorem ledger_run (sg : State × Ghost) (ops : List Op) (h : Ledger sg) : Ledger (grun sg ops) := by
  induction ops generalizing sg with
  | nil => exact h
  | cons op ops ih => exact ih (gstep sg op) (ledger_step sg op h)

end Shentu.C09q2H

