import Shentu.Model.Shield
import Shentu.Proofs.BankLemmas
import Shentu.Proofs.Tactics
import Shentu.Proofs.ShieldFundFrame
/-
  Helper lemmas for C02 (the shield module account holds exactly what it owes).

  * generic facts about keyed lists (`find?` / map-replace / filter under unique keys) and `sumI`
  * `Keyed`: the store keys of providers, stakes and reimbursements are unique (what a KV store gives for free)
  * `Same s s'`: the step touches nothing the module owes
  * frame lemmas for the store updates and `Same` for every operation that leaves the owed amounts alone
-/
namespace Shentu.Shield.Fund
open Shentu

/-! ## sums -/

@[simp] theorem sumI_nil {α} (f : α → Int) : sumI f [] = 0 := rfl
@[simp] theorem sumI_cons {α} (f : α → Int) (x : α) (l : List α) : sumI f (x :: l) = f x + sumI f l := by
  simp [sumI]
@[simp] theorem sumI_append {α} (f : α → Int) (a b : List α) : sumI f (a ++ b) = sumI f a + sumI f b := by
  induction a with
  | nil => simp
  | cons x xs ih => simp [ih, Int.add_assoc]

theorem sumI_nonneg {α} (f : α → Int) (l : List α) (h : ∀ x ∈ l, 0 ≤ f x) : 0 ≤ sumI f l := by
  induction l with
  | nil => simp
  | cons x xs ih =>
    simp only [sumI_cons]
    have := h x List.mem_cons_self
    have := ih (fun y hy => h y (List.mem_cons_of_mem _ hy))
    omega

theorem sumI_mem_le {α} (f : α → Int) (l : List α) (h : ∀ x ∈ l, 0 ≤ f x) (p : α) (hp : p ∈ l) : f p ≤ sumI f l := by
  induction l with
  | nil => cases hp
  | cons x xs ih =>
    simp only [sumI_cons]
    have hx := h x List.mem_cons_self
    have hxs := sumI_nonneg f xs (fun y hy => h y (List.mem_cons_of_mem _ hy))
    rcases List.mem_cons.mp hp with h1 | h1
    · subst h1; omega
    · have := ih (fun y hy => h y (List.mem_cons_of_mem _ hy)) h1
      omega

/-! ## keyed lists -/

/-- under unique keys the first hit of a key lookup is the only one -/
theorem find_split {α κ} (key : α → κ) (k : κ) (q : α → Bool) (hq : ∀ x, q x = true ↔ key x = k)
    (l : List α) (p : α) (hn : (l.map key).Nodup) (hf : l.find? q = some p) :
    ∃ l1 l2, l = l1 ++ p :: l2 ∧ key p = k ∧ (∀ x ∈ l1, q x = false) ∧ (∀ x ∈ l2, q x = false) := by
  induction l with
  | nil => simp at hf
  | cons x xs ih =>
    simp only [List.map_cons, List.nodup_cons] at hn
    simp only [List.find?_cons] at hf
    cases hx : q x with
    | true =>
      simp only [hx] at hf
      injection hf with hf
      subst hf
      refine ⟨[], xs, rfl, (hq x).mp hx, by simp, ?_⟩
      intro y hy
      cases hy' : q y with
      | false => rfl
      | true =>
        exfalso
        apply hn.1
        have : key y = key x := by rw [(hq y).mp hy', (hq x).mp hx]
        rw [← this]
        exact List.mem_map_of_mem hy
    | false =>
      simp only [hx] at hf
      obtain ⟨l1, l2, h1, h2, h3, h4⟩ := ih hn.2 hf
      refine ⟨x :: l1, l2, by rw [h1]; rfl, h2, ?_, h4⟩
      intro y hy
      rcases List.mem_cons.mp hy with h | h
      · subst h; exact hx
      · exact h3 y h

theorem find_none_all {α} (q : α → Bool) (l : List α) (hf : l.find? q = none) : ∀ x ∈ l, q x = false := by
  intro x hx
  have := List.find?_eq_none.mp hf x hx
  simpa using this

theorem map_replace_none {α} (q : α → Bool) (p' : α) (l : List α) (h : ∀ x ∈ l, q x = false) :
    l.map (fun x => if q x then p' else x) = l := by
  induction l with
  | nil => rfl
  | cons x xs ih =>
    simp only [List.map_cons, h x List.mem_cons_self, Bool.false_eq_true, if_false]
    rw [ih (fun y hy => h y (List.mem_cons_of_mem _ hy))]

theorem map_replace_split {α} (q : α → Bool) (p p' : α) (l1 l2 : List α)
    (h1 : ∀ x ∈ l1, q x = false) (h2 : ∀ x ∈ l2, q x = false) (hp : q p = true) :
    (l1 ++ p :: l2).map (fun x => if q x then p' else x) = l1 ++ p' :: l2 := by
  simp only [List.map_append, List.map_cons, hp, if_true, map_replace_none q p' l1 h1, map_replace_none q p' l2 h2]

theorem filter_none {α} (q r : α → Bool) (hr : ∀ x, r x = !q x) (l : List α) (h : ∀ x ∈ l, q x = false) :
    l.filter r = l := by
  apply List.filter_eq_self.mpr
  intro x hx
  rw [hr, h x hx]; rfl

theorem filter_not_split {α} (q r : α → Bool) (hr : ∀ x, r x = !q x) (p : α) (l1 l2 : List α)
    (h1 : ∀ x ∈ l1, q x = false) (h2 : ∀ x ∈ l2, q x = false) (hp : q p = true) :
    (l1 ++ p :: l2).filter r = l1 ++ l2 := by
  simp only [List.filter_append, List.filter_cons, hr p, hp, Bool.not_true, Bool.false_eq_true, if_false,
    filter_none q r hr l1 h1, filter_none q r hr l2 h2]

/-! ## unique store keys -/

def stakeKey (k : Stake) : Nat × Addr := (k.pool, k.purchaser)

/-- the keys of the provider, stake and reimbursement stores are unique (a KV store cannot hold two values under one key) -/
structure Keyed (s : State) : Prop where
  prov : (s.providers.map (·.addr)).Nodup
  stake : (s.stakes.map stakeKey).Nodup
  reimb : (s.reimbs.map (·.pid)).Nodup

/-- nothing the module owes is touched (the provider and stake stores may be rearranged, their sums are not) -/
structure Same (s s' : State) : Prop where
  reimbs : s'.reimbs = s.reimbs
  remaining : s'.remaining = s.remaining
  blockFees : s'.blockFees = s.blockFees
  prov : (s.providers.map (·.addr)).Nodup → (s'.providers.map (·.addr)).Nodup ∧ sumRewards s' = sumRewards s
  stakes : (s.stakes.map stakeKey).Nodup → (s'.stakes.map stakeKey).Nodup ∧ sumStakes s' = sumStakes s

/-- the step does not touch the provider, stake or reimbursement stores nor the fee pots -/
structure Frame (s s' : State) : Prop where
  providers : s'.providers = s.providers
  stakes : s'.stakes = s.stakes
  reimbs : s'.reimbs = s.reimbs
  remaining : s'.remaining = s.remaining
  blockFees : s'.blockFees = s.blockFees

theorem Frame.refl (s : State) : Frame s s := ⟨rfl, rfl, rfl, rfl, rfl⟩
theorem Frame.trans {a b c : State} (h1 : Frame a b) (h2 : Frame b c) : Frame a c :=
  ⟨h2.providers.trans h1.providers, h2.stakes.trans h1.stakes, h2.reimbs.trans h1.reimbs,
   h2.remaining.trans h1.remaining, h2.blockFees.trans h1.blockFees⟩

theorem Frame.same {s s' : State} (h : Frame s s') : Same s s' where
  reimbs := h.reimbs
  remaining := h.remaining
  blockFees := h.blockFees
  prov := fun hn => ⟨by rw [h.providers]; exact hn, by simp only [sumRewards, h.providers]⟩
  stakes := fun hn => ⟨by rw [h.stakes]; exact hn, by simp only [sumStakes, h.stakes]⟩

theorem Same.refl (s : State) : Same s s := (Frame.refl s).same
theorem Same.trans {a b c : State} (h1 : Same a b) (h2 : Same b c) : Same a c where
  reimbs := h2.reimbs.trans h1.reimbs
  remaining := h2.remaining.trans h1.remaining
  blockFees := h2.blockFees.trans h1.blockFees
  prov := fun hn => by
    obtain ⟨n1, e1⟩ := h1.prov hn
    obtain ⟨n2, e2⟩ := h2.prov n1
    exact ⟨n2, e2.trans e1⟩
  stakes := fun hn => by
    obtain ⟨n1, e1⟩ := h1.stakes hn
    obtain ⟨n2, e2⟩ := h2.stakes n1
    exact ⟨n2, e2.trans e1⟩

theorem Same.keyed {s s' : State} (h : Same s s') (hk : Keyed s) : Keyed s' :=
  ⟨(h.prov hk.prov).1, (h.stakes hk.stake).1, by rw [h.reimbs]; exact hk.reimb⟩

theorem Same.owed {s s' : State} (h : Same s s') (hk : Keyed s) : owedRaw s' = owedRaw s := by
  simp only [owedRaw, h.remaining, h.blockFees, (h.prov hk.prov).2, (h.stakes hk.stake).2, sumReimbs, h.reimbs]

theorem Same.fund {s s' : State} (h : Same s s') (hk : Keyed s) (b : Int) (hf : FundInv b s) : FundInv b s' := by
  unfold FundInv at *
  rw [h.owed hk, h.blockFees]; exact hf

/-! ## the provider store -/

theorem findProvider_addr (s : State) (a : Addr) (p : Provider) (h : findProvider s a = some p) : p.addr = a := by
  have := List.find?_some h
  simpa using this

theorem findProvider_mem (s : State) (a : Addr) (p : Provider) (h : findProvider s a = some p) : p ∈ s.providers :=
  List.mem_of_find?_eq_some h

theorem setProvider_addrs (s : State) (p' : Provider) :
    (setProvider s p').providers.map (·.addr) = s.providers.map (·.addr) := by
  simp only [setProvider, List.map_map]
  apply List.map_congr_left
  intro x _
  simp only [Function.comp]
  split
  · rename_i h; exact (beq_iff_eq.mp h).symm
  · rfl

/-- replacing a provider's record: the list splits around the one record with that address -/
theorem setProvider_split (s : State) (a : Addr) (p p' : Provider) (hn : (s.providers.map (·.addr)).Nodup)
    (hf : findProvider s a = some p) (ha : p'.addr = p.addr) :
    ∃ l1 l2, s.providers = l1 ++ p :: l2 ∧ (setProvider s p').providers = l1 ++ p' :: l2 := by
  have hpa := findProvider_addr s a p hf
  obtain ⟨l1, l2, h1, _, h3, h4⟩ :=
    find_split (fun x : Provider => x.addr) a (fun x => x.addr == a) (fun x => by simp) s.providers p hn hf
  refine ⟨l1, l2, h1, ?_⟩
  have hpa' : p'.addr = a := ha.trans hpa
  simp only [setProvider, h1]
  rw [hpa']
  exact map_replace_split (fun x => x.addr == a) p p' l1 l2 h3 h4 (by simp [hpa])

theorem setProvider_sum (f : Provider → Int) (s : State) (a : Addr) (p p' : Provider)
    (hn : (s.providers.map (·.addr)).Nodup) (hf : findProvider s a = some p) (ha : p'.addr = p.addr) :
    sumI f (setProvider s p').providers = sumI f s.providers - f p + f p' := by
  obtain ⟨l1, l2, h1, h2⟩ := setProvider_split s a p p' hn hf ha
  rw [h1, h2]; simp only [sumI_append, sumI_cons]; omega

/-- a provider update that keeps the address and the rewards touches nothing owed -/
theorem setProvider_same (s : State) (a : Addr) (p p' : Provider) (hf : findProvider s a = some p)
    (ha : p'.addr = p.addr) (hr : p'.rewards = p.rewards) : Same s (setProvider s p') where
  reimbs := rfl
  remaining := rfl
  blockFees := rfl
  prov := fun hn => by
    refine ⟨by rw [setProvider_addrs]; exact hn, ?_⟩
    simp only [sumRewards]
    rw [setProvider_sum _ s a p p' hn hf ha, hr]; omega
  stakes := fun hn => ⟨hn, rfl⟩

theorem insertProvider_split (p : Provider) (l : List Provider) :
    ∃ l1 l2, l = l1 ++ l2 ∧ insertProvider p l = l1 ++ p :: l2 := by
  induction l with
  | nil => exact ⟨[], [], rfl, rfl⟩
  | cons x xs ih =>
    unfold insertProvider
    split
    · exact ⟨[], x :: xs, rfl, rfl⟩
    · obtain ⟨l1, l2, h1, h2⟩ := ih
      exact ⟨x :: l1, l2, by rw [h1]; rfl, by rw [h2]; rfl⟩

end Shentu.Shield.Fund
