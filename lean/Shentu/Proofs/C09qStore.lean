import Shentu.Proofs.C09qDefs
/-
  The two stores of Model/UbdQueue.lean as maps: what a lookup returns after a write, and that writes keep the keys unique
  (slices strictly ordered by time, one record per delegator/validator pair).
-/
namespace Shentu.UbdQueue.Store
open Shentu.UbdQueue

/-! ### queue slices -/

@[simp] theorem getSlice_nil (t : Int) : getSlice [] t = [] := rfl

theorem getSlice_cons (x : Slice) (xs : List Slice) (t : Int) :
    getSlice (x :: xs) t = if x.1 = t then x.2 else getSlice xs t := by
  by_cases h : x.1 = t
  · simp [getSlice, List.find?, h]
  · have : (x.1 == t) = false := by simpa using h
    simp only [getSlice, List.find?, this, h, if_false]

theorem getSlice_removeSlice (q : List Slice) (t t' : Int) :
    getSlice (removeSlice q t) t' = if t' = t then [] else getSlice q t' := by
  induction q with
  | nil => simp [removeSlice]
  | cons x xs ih =>
    unfold removeSlice at ih ⊢
    by_cases hx : x.1 = t
    · have : (!(x.1 == t)) = false := by simp [hx]
      rw [List.filter_cons_of_neg (by simp [hx]), ih, getSlice_cons]
      by_cases h : t' = t
      · simp [h]
      · have : ¬ x.1 = t' := by omega
        simp [h, this]
    · rw [List.filter_cons_of_pos (by simp [hx]), getSlice_cons, getSlice_cons, ih]
      by_cases h : t' = t
      · subst h
        simp [hx]
      · simp [h]

theorem getSlice_insertSlice (q : List Slice) (sl : Slice) (t' : Int) (hq : ∀ x ∈ q, x.1 ≠ sl.1) :
    getSlice (insertSlice sl q) t' = if t' = sl.1 then sl.2 else getSlice q t' := by
  induction q with
  | nil =>
    simp only [insertSlice, getSlice_cons, getSlice_nil]
    by_cases h : t' = sl.1
    · simp [h]
    · have : ¬ sl.1 = t' := fun e => h e.symm
      simp [h, this]
  | cons x xs ih =>
    have hx : x.1 ≠ sl.1 := hq x (by simp)
    have ih' := ih (fun y hy => hq y (by simp [hy]))
    unfold insertSlice
    split
    · rw [getSlice_cons, getSlice_cons, ih']
      by_cases hxt : x.1 = t'
      · have : t' ≠ sl.1 := by omega
        simp [hxt, this]
      · simp [hxt]
    · rw [getSlice_cons, getSlice_cons]
      by_cases h : t' = sl.1
      · simp [h]
      · have : ¬ sl.1 = t' := fun e => h e.symm
        simp [h, this]

theorem getSlice_setSlice (q : List Slice) (t t' : Int) (ps : List Pair) :
    getSlice (setSlice q t ps) t' = if t' = t then ps else getSlice q t' := by
  unfold setSlice
  rw [getSlice_insertSlice]
  · by_cases h : t' = t <;> simp [h, getSlice_removeSlice]
  · intro x hx; simp [removeSlice] at hx; exact hx.2

theorem getSlice_insertUBDQueue (q : List Slice) (p : Pair) (t t' : Int) :
    getSlice (insertUBDQueue q p t) t' = if t' = t then getSlice q t ++ [p] else getSlice q t' := by
  unfold insertUBDQueue
  by_cases he : (getSlice q t).isEmpty
  · have : getSlice q t = [] := by simpa using he
    simp [getSlice_setSlice, this]
  · simp [he, getSlice_setSlice]

theorem times_removeSlice {q : List Slice} (h : q.Pairwise (fun x y => x.1 < y.1)) (t : Int) :
    (removeSlice q t).Pairwise (fun x y => x.1 < y.1) := h.filter _

theorem mem_insertSlice {q : List Slice} {sl y : Slice} : y ∈ insertSlice sl q ↔ y = sl ∨ y ∈ q := by
  induction q with
  | nil => simp [insertSlice]
  | cons x xs ih =>
    unfold insertSlice; split
    · simp [ih]; constructor <;> (intro h; rcases h with h | h | h <;> simp [h])
    · simp

theorem times_insertSlice {q : List Slice} (h : q.Pairwise (fun x y => x.1 < y.1)) (sl : Slice)
    (hq : ∀ x ∈ q, x.1 ≠ sl.1) : (insertSlice sl q).Pairwise (fun x y => x.1 < y.1) := by
  induction q with
  | nil => simp [insertSlice]
  | cons x xs ih =>
    have hx : x.1 ≠ sl.1 := hq x (by simp)
    rw [List.pairwise_cons] at h
    unfold insertSlice; split
    · rename_i hlt
      rw [List.pairwise_cons]
      refine ⟨?_, ih h.2 (fun y hy => hq y (by simp [hy]))⟩
      intro y hy
      rcases mem_insertSlice.mp hy with e | e
      · subst e; exact hlt
      · exact h.1 y e
    · rename_i hge
      rw [List.pairwise_cons]
      refine ⟨?_, List.pairwise_cons.mpr h⟩
      intro y hy
      rcases List.mem_cons.mp hy with e | e
      · subst e; omega
      · have := h.1 y e; omega

theorem times_setSlice {q : List Slice} (h : q.Pairwise (fun x y => x.1 < y.1)) (t : Int) (ps : List Pair) :
    (setSlice q t ps).Pairwise (fun x y => x.1 < y.1) := by
  unfold setSlice
  apply times_insertSlice (times_removeSlice h t)
  intro x hx; simp [removeSlice] at hx; exact hx.2

theorem times_insertUBDQueue {q : List Slice} (h : q.Pairwise (fun x y => x.1 < y.1)) (p : Pair) (t : Int) :
    (insertUBDQueue q p t).Pairwise (fun x y => x.1 < y.1) := by
  unfold insertUBDQueue; dsimp only; split <;> exact times_setSlice h _ _

/-! ### unbonding delegations -/

@[simp] theorem getEntries_nil (d v : String) : getEntries [] d v = [] := rfl

theorem is_iff (u : Ubd) (d v : String) : u.is d v = true ↔ (u.del = d ∧ u.val = v) := by
  simp [Ubd.is]

theorem getEntries_cons (x : Ubd) (xs : List Ubd) (d v : String) :
    getEntries (x :: xs) d v = if x.del = d ∧ x.val = v then x.entries else getEntries xs d v := by
  by_cases h : x.del = d ∧ x.val = v
  · have : x.is d v = true := (is_iff x d v).mpr h
    simp [getEntries, List.find?, this, h]
  · have : x.is d v = false := by
      cases hh : x.is d v
      · rfl
      · exact absurd ((is_iff x d v).mp hh) h
    simp only [getEntries, List.find?, this, h, if_false]

theorem getEntries_removeUbd (us : List Ubd) (d v d' v' : String) :
    getEntries (removeUbd us d v) d' v' = if d' = d ∧ v' = v then [] else getEntries us d' v' := by
  induction us with
  | nil => simp [removeUbd]
  | cons x xs ih =>
    unfold removeUbd at ih ⊢
    by_cases hx : x.del = d ∧ x.val = v
    · have hi : x.is d v = true := (is_iff x d v).mpr hx
      rw [List.filter_cons_of_neg (by simp [hi]), ih, getEntries_cons]
      by_cases h : d' = d ∧ v' = v
      · simp [h]
      · have : ¬ (x.del = d' ∧ x.val = v') := by
          intro e; apply h; rw [← e.1, ← e.2]; exact hx
        simp [h, this]
    · have hi : ¬ x.is d v = true := fun e => hx ((is_iff x d v).mp e)
      rw [List.filter_cons_of_pos (by simp [hi]), getEntries_cons, getEntries_cons, ih]
      by_cases h : d' = d ∧ v' = v
      · obtain ⟨h1, h2⟩ := h
        subst h1; subst h2
        simp [hx]
      · simp [h]

theorem getEntries_insertUbd (us : List Ubd) (u : Ubd) (d' v' : String)
    (hq : ∀ x ∈ us, ¬ (x.del = u.del ∧ x.val = u.val)) :
    getEntries (insertUbd u us) d' v' = if d' = u.del ∧ v' = u.val then u.entries else getEntries us d' v' := by
  induction us with
  | nil =>
    simp only [insertUbd, getEntries_cons, getEntries_nil]
    by_cases h : d' = u.del ∧ v' = u.val
    · simp [h]
    · have : ¬ (u.del = d' ∧ u.val = v') := fun e => h ⟨e.1.symm, e.2.symm⟩
      simp [h, this]
  | cons x xs ih =>
    have hx := hq x (by simp)
    have ih' := ih (fun y hy => hq y (by simp [hy]))
    unfold insertUbd
    split
    · rw [getEntries_cons, getEntries_cons, ih']
      by_cases hxt : x.del = d' ∧ x.val = v'
      · have : ¬ (d' = u.del ∧ v' = u.val) := by
          intro e; apply hx; rw [hxt.1, hxt.2]; exact e
        simp [hxt, this]
      · simp [hxt]
    · rw [getEntries_cons, getEntries_cons]
      by_cases h : d' = u.del ∧ v' = u.val
      · simp [h]
      · have : ¬ (u.del = d' ∧ u.val = v') := fun e => h ⟨e.1.symm, e.2.symm⟩
        simp [h, this]

theorem mem_removeUbd {us : List Ubd} {d v : String} {x : Ubd} :
    x ∈ removeUbd us d v ↔ x ∈ us ∧ ¬ (x.del = d ∧ x.val = v) := by
  simp only [removeUbd, List.mem_filter, Bool.not_eq_eq_eq_not, Bool.not_true]
  constructor
  · intro ⟨h1, h2⟩; exact ⟨h1, fun e => by rw [(is_iff x d v).mpr e] at h2; exact absurd h2 (by simp)⟩
  · intro ⟨h1, h2⟩
    refine ⟨h1, ?_⟩
    cases hh : x.is d v
    · rfl
    · exact absurd ((is_iff x d v).mp hh) h2

theorem getEntries_setUbd (us : List Ubd) (d v d' v' : String) (es : List Entry) :
    getEntries (setUbd us d v es) d' v' = if d' = d ∧ v' = v then es else getEntries us d' v' := by
  unfold setUbd
  rw [getEntries_insertUbd]
  · by_cases h : d' = d ∧ v' = v <;> simp [h, getEntries_removeUbd]
  · intro x hx; exact (mem_removeUbd.mp hx).2

theorem getEntries_setEntries (us : List Ubd) (d v d' v' : String) (es : List Entry) :
    getEntries (setEntries us d v es) d' v' = if d' = d ∧ v' = v then es else getEntries us d' v' := by
  unfold setEntries
  by_cases he : es.isEmpty
  · have : es = [] := by simpa using he
    simp [getEntries_removeUbd, this]
  · simp [he, getEntries_setUbd]

theorem keys_removeUbd {us : List Ubd} (h : us.Pairwise (fun x y => ¬ (x.del = y.del ∧ x.val = y.val))) (d v : String) :
    (removeUbd us d v).Pairwise (fun x y => ¬ (x.del = y.del ∧ x.val = y.val)) := h.filter _

theorem mem_insertUbd {us : List Ubd} {u y : Ubd} : y ∈ insertUbd u us ↔ y = u ∨ y ∈ us := by
  induction us with
  | nil => simp [insertUbd]
  | cons x xs ih =>
    unfold insertUbd; split
    · simp [ih]; constructor <;> (intro h; rcases h with h | h | h <;> simp [h])
    · simp

theorem keys_insertUbd {us : List Ubd} (h : us.Pairwise (fun x y => ¬ (x.del = y.del ∧ x.val = y.val))) (u : Ubd)
    (hq : ∀ x ∈ us, ¬ (x.del = u.del ∧ x.val = u.val)) :
    (insertUbd u us).Pairwise (fun x y => ¬ (x.del = y.del ∧ x.val = y.val)) := by
  induction us with
  | nil => simp [insertUbd]
  | cons x xs ih =>
    have hx := hq x (by simp)
    rw [List.pairwise_cons] at h
    unfold insertUbd; split
    · rw [List.pairwise_cons]
      refine ⟨?_, ih h.2 (fun y hy => hq y (by simp [hy]))⟩
      intro y hy
      rcases mem_insertUbd.mp hy with e | e
      · subst e; exact hx
      · exact h.1 y e
    · rw [List.pairwise_cons]
      refine ⟨?_, List.pairwise_cons.mpr h⟩
      intro y hy e
      exact hq y hy ⟨e.1.symm, e.2.symm⟩

theorem keys_setUbd {us : List Ubd} (h : us.Pairwise (fun x y => ¬ (x.del = y.del ∧ x.val = y.val))) (d v : String)
    (es : List Entry) : (setUbd us d v es).Pairwise (fun x y => ¬ (x.del = y.del ∧ x.val = y.val)) := by
  unfold setUbd
  apply keys_insertUbd (keys_removeUbd h d v)
  intro x hx; exact (mem_removeUbd.mp hx).2

theorem keys_setEntries {us : List Ubd} (h : us.Pairwise (fun x y => ¬ (x.del = y.del ∧ x.val = y.val))) (d v : String)
    (es : List Entry) : (setEntries us d v es).Pairwise (fun x y => ¬ (x.del = y.del ∧ x.val = y.val)) := by
  unfold setEntries; split
  · exact keys_removeUbd h d v
  · exact keys_setUbd h d v es

end Shentu.UbdQueue.Store
