import Shentu.Props.C03a
import Shentu.Props.C20
/-
  C20 (x/shield, over histories): the withdraw queue of the shield model stays ordered by completion time.

  `Props/C20.lean` shows that an import rebuilds the exported withdraw queue entry for entry when the queue is
  `sortedByTime`.  This file shows that the hypothesis holds on every reachable state: every successful operation
  of the model (`Props.C03a.Op`, all 25 of them) keeps the queue sorted, hence so does every history.
  No hypothesis on amounts or on the other books is needed.
-/
set_option linter.unusedVariables false
namespace Shentu.C20GShieldH
open Shentu Shentu.Shield Shentu.Props.C20 Shentu.Props.C03a

/-! ## list lemmas -/

theorem sorted_iff_pairwise (l : List Withdraw) :
    sortedByTime l ↔ List.Pairwise (fun a b => a.time ≤ b.time) l := by
  induction l with
  | nil => simp [sortedByTime]
  | cons x xs ih => simp only [sortedByTime, List.pairwise_cons, ih]

/-- sortedness only depends on the list of completion times -/
theorem sorted_iff_times (l : List Withdraw) :
    sortedByTime l ↔ List.Pairwise (fun a b : Int => a ≤ b) (l.map (·.time)) := by
  rw [sorted_iff_pairwise, List.pairwise_map]

theorem sorted_of_times_eq {l l' : List Withdraw} (h : l'.map (·.time) = l.map (·.time)) (hs : sortedByTime l) :
    sortedByTime l' := by
  rw [sorted_iff_times] at *; rw [h]; exact hs

theorem sorted_sublist {l l' : List Withdraw} (h : l'.Sublist l) (hs : sortedByTime l) : sortedByTime l' := by
  rw [sorted_iff_pairwise] at *; exact hs.sublist h

theorem filter_sorted (p : Withdraw → Bool) (l : List Withdraw) (hs : sortedByTime l) : sortedByTime (l.filter p) :=
  sorted_sublist List.filter_sublist hs

theorem removeLast_sublist {α} (p : α → Bool) (l : List α) : (removeLast p l).Sublist l := by
  induction l with
  | nil => exact List.Sublist.refl _
  | cons x xs ih =>
    unfold removeLast
    split
    · exact ih.cons_cons x
    · split
      · exact List.sublist_cons_self x xs
      · exact List.Sublist.refl _

theorem removeFirst_sublist {α} (p : α → Bool) (l : List α) : (removeFirst p l).Sublist l := by
  induction l with
  | nil => exact List.Sublist.refl _
  | cons x xs ih =>
    unfold removeFirst
    split
    · exact List.sublist_cons_self x xs
    · exact ih.cons_cons x

theorem removeLast_sorted (p : Withdraw → Bool) (l : List Withdraw) (hs : sortedByTime l) :
    sortedByTime (removeLast p l) := sorted_sublist (removeLast_sublist p l) hs

theorem removeFirst_sorted (p : Withdraw → Bool) (l : List Withdraw) (hs : sortedByTime l) :
    sortedByTime (removeFirst p l) := sorted_sublist (removeFirst_sublist p l) hs

theorem replaceFirst_times (p : Withdraw → Bool) (f : Withdraw → Withdraw) (hf : ∀ x, (f x).time = x.time)
    (l : List Withdraw) : (replaceFirst p f l).map (·.time) = l.map (·.time) := by
  induction l with
  | nil => rfl
  | cons x xs ih =>
    unfold replaceFirst
    split
    · simp only [List.map_cons, hf]
    · simp only [List.map_cons, ih]

theorem replaceFirst_sorted (p : Withdraw → Bool) (f : Withdraw → Withdraw) (hf : ∀ x, (f x).time = x.time)
    (l : List Withdraw) (hs : sortedByTime l) : sortedByTime (replaceFirst p f l) :=
  sorted_of_times_eq (replaceFirst_times p f hf l) hs

/-! ## requests -/

theorem withdrawCollateral_sorted (e : Env) (s s' : State) (a : Addr) (amount : Int) (hs : sortedByTime s.withdraws)
    (h : withdrawCollateral e s a amount = .ok s') : sortedByTime s'.withdraws := by
  unfold withdrawCollateral at h
  split at h
  · cases h; exact hs
  · split at h
    · cases h
    · split at h
      · cases h
      · cases h
        exact insertWithdraw_sorted _ _ hs

theorem stakingHook_sorted (e : Env) (s s' : State) (a : Addr) (staked : Int) (hs : sortedByTime s.withdraws)
    (h : stakingHook e s a staked = .ok s') : sortedByTime s'.withdraws := by
  unfold stakingHook at h
  split at h
  · cases h; exact hs
  · dsimp only at h
    split at h
    · split at h
      · rename_i s2 h2
        cases h
        refine withdrawCollateral_sorted e _ _ a _ ?_ h2
        exact hs
      · cases h
    · cases h; exact hs

theorem stakingChanged_sorted (e : Env) (s s' : State) (a : Addr) (hs : sortedByTime s.withdraws)
    (h : stakingChanged e s a = .ok s') : sortedByTime s'.withdraws := by
  unfold stakingChanged at h
  split at h
  · cases h; exact hs
  · exact stakingHook_sorted e s s' a _ hs h

theorem withdraw_sorted (e : Env) (s s' : State) (a : Addr) (coins : Coins) (hs : sortedByTime s.withdraws)
    (h : withdraw e s a coins = .ok s') : sortedByTime s'.withdraws := by
  unfold withdraw at h
  split at h
  · cases h
  · split at h
    · cases h
    · exact withdrawCollateral_sorted e s s' a _ hs h

theorem deposit_queue (e : Env) (s s' : State) (a : Addr) (coins : Coins)
    (h : deposit e s a coins = .ok s') : s'.withdraws = s.withdraws := by
  unfold deposit at h
  split at h
  · cases h
  · split at h
    · cases h
    · dsimp only at h
      split at h
      · split at h
        · cases h
        · cases h; rfl
      · split at h
        · cases h
        · cases h; rfl

theorem withdrawRewards_queue (e : Env) (l l' : Ledger) (s s' : State) (a : Addr)
    (h : withdrawRewards e l s a = .ok (l', s')) : s'.withdraws = s.withdraws := by
  unfold withdrawRewards at h
  split at h
  · cases h
  · dsimp only at h
    split at h
    · cases h; rfl
    · split at h
      · cases h
      · cases h; rfl

/-! ## claim submission -/

theorem delayLoop_sorted (a : Addr) (t : Int) (ws : List Withdraw) (rem : Int) (q q' : List Withdraw)
    (hs : sortedByTime q) (h : delayLoop a t ws rem q = .ok q') : sortedByTime q' := by
  induction ws generalizing rem q with
  | nil =>
    unfold delayLoop at h
    split at h
    · cases h
    · cases h; exact hs
  | cons w ws ih =>
    unfold delayLoop at h
    split at h
    · cases h; exact hs
    · exact ih _ _ (insertWithdraw_sorted _ _ (removeLast_sorted _ _ hs)) h

theorem delayWithdraws_sorted (s s' : State) (a : Addr) (amount t : Int) (hs : sortedByTime s.withdraws)
    (h : delayWithdraws s a amount t = .ok s') : sortedByTime s'.withdraws := by
  unfold delayWithdraws at h
  dsimp only at h
  split at h
  · cases h
  · rename_i q hq
    cases h
    exact delayLoop_sorted a t _ _ _ _ hs hq

theorem secureFromProvider_sorted (e : Env) (s s' : State) (p : Provider) (amount duration : Int)
    (hs : sortedByTime s.withdraws) (h : secureFromProvider e s p amount duration = .ok s') :
    sortedByTime s'.withdraws := by
  unfold secureFromProvider at h
  split at h
  · cases h; exact hs
  · dsimp only at h
    split at h
    · exact delayWithdraws_sorted s s' _ _ _ hs h
    · cases h; exact hs

theorem secureLoop_sorted (e : Env) (ratio : Dec) (duration : Int) (ps : List Provider) (rem : Int) (s s' : State)
    (hs : sortedByTime s.withdraws) (h : secureLoop e ratio duration ps rem s = .ok s') :
    sortedByTime s'.withdraws := by
  induction ps generalizing rem s with
  | nil => unfold secureLoop at h; cases h; exact hs
  | cons p ps ih =>
    unfold secureLoop at h
    dsimp only at h
    split at h
    · cases h
    · rename_i s1 h1
      exact ih _ _ (secureFromProvider_sorted e s s1 p _ duration hs h1) h

theorem secureCollaterals_sorted (e : Env) (s s' : State) (poolID : Nat) (purchaser : Addr) (purchaseID : Nat)
    (loss duration : Int) (hs : sortedByTime s.withdraws)
    (h : secureCollaterals e s poolID purchaser purchaseID loss duration = .ok s') : sortedByTime s'.withdraws := by
  unfold secureCollaterals at h
  split at h
  · cases h
  · split at h
    · cases h
    · dsimp only at h
      split at h
      · cases h
      · split at h
        · cases h
        · split at h
          · cases h
          · split at h
            · cases h
            · split at h
              · cases h
              · split at h
                · cases h
                · rename_i s1 h1
                  cases h
                  have := secureLoop_sorted e _ duration _ _ s s1 hs h1
                  simpa [Coll.setPool_withdraws, Coll.setList_withdraws] using this

/-! ## payouts -/

theorem payoutWithdrawLoop_sorted (ws : List Withdraw) (u fw : Int) (q q' : List Withdraw)
    (hs : sortedByTime q) (h : payoutWithdrawLoop ws u fw q = .ok q') : sortedByTime q' := by
  induction ws generalizing u fw q with
  | nil =>
    unfold payoutWithdrawLoop at h
    split at h
    · cases h
    · cases h; exact hs
  | cons w ws ih =>
    unfold payoutWithdrawLoop at h
    split at h
    · split at h
      · cases h
      · cases h; exact hs
    · dsimp only at h
      split at h
      · exact ih _ _ _ hs h
      · refine ih _ _ _ ?_ h
        split
        · exact removeFirst_sorted _ _ hs
        · refine replaceFirst_sorted _ _ ?_ _ hs
          intro x; rfl

theorem updateProviderForPayout_sorted (s s' : State) (a : Addr) (purchased payout : Int)
    (hs : sortedByTime s.withdraws) (h : updateProviderForPayout s a purchased payout = .ok s') :
    sortedByTime s'.withdraws := by
  obtain ⟨p, q, _, hq, hs'⟩ := Coll.updateProviderForPayout_spec s s' a purchased payout h
  subst hs'
  exact payoutWithdrawLoop_sorted _ _ _ _ _ hs hq

theorem reimburseLoop_sorted (e : Env) (pr payr : Dec) (ps : List Provider) (tp tpay : Int) (l : Ledger) (s : State)
    (left : Int) (l' : Ledger) (s' : State) (hs : sortedByTime s.withdraws)
    (h : reimburseLoop e pr payr ps tp tpay l s = .ok (left, l', s')) : sortedByTime s'.withdraws := by
  induction ps generalizing tp tpay l s with
  | nil => unfold reimburseLoop at h; cases h; exact hs
  | cons p ps ih =>
    unfold reimburseLoop at h
    split at h
    · cases h; exact hs
    · dsimp only at h
      split at h
      · cases h
      · rename_i s1 h1
        split at h
        · cases h
        · rename_i s2 h2
          exact ih _ _ _ _ (stakingChanged_sorted e s1 s2 _ (updateProviderForPayout_sorted s s1 _ _ _ hs h1) h2) h

theorem createReimbursement_sorted (e : Env) (l l' : Ledger) (s s' : State) (pid : Nat) (amount : Int)
    (beneficiary : Addr) (hs : sortedByTime s.withdraws)
    (h : createReimbursement e l s pid amount beneficiary = .ok (l', s')) : sortedByTime s'.withdraws := by
  unfold createReimbursement at h
  split at h
  · cases h
  · dsimp only at h
    split at h
    · cases h
    · rename_i left l1 s1 h1
      split at h
      · cases h
      · cases h
        show sortedByTime s1.withdraws
        exact reimburseLoop_sorted e _ _ _ _ _ l s _ _ _ hs h1

theorem restoreShield_queue (s : State) (poolID : Nat) (purchaser : Addr) (id : Nat) (loss : Int) :
    (restoreShield s poolID purchaser id loss).withdraws = s.withdraws :=
  (Coll.restoreShield_frame s poolID purchaser id loss).same.queue

theorem claimEnds_sorted (e : Env) (l l' : Ledger) (s s' : State) (pid poolID : Nat) (restoreTo beneficiary : Addr)
    (purchaseID : Nat) (loss : Int) (o : ClaimOutcome) (hs : sortedByTime s.withdraws)
    (h : claimEnds e l s pid poolID restoreTo beneficiary purchaseID loss o = .ok (l', s')) :
    sortedByTime s'.withdraws := by
  cases o <;> simp only [claimEnds] at h
  · exact createReimbursement_sorted e l l' s s' pid loss beneficiary hs h
  · cases h; exact hs
  · cases h
    show sortedByTime (restoreShield s poolID restoreTo purchaseID loss).withdraws
    rw [restoreShield_queue]; exact hs
  · cases h; exact hs

/-! ## the end-blocker -/

theorem completeLoop_queue (ws : List Withdraw) (s s' : State) (h : completeLoop ws s = .ok s') :
    s'.withdraws = s.withdraws := by
  induction ws generalizing s with
  | nil => unfold completeLoop at h; cases h; rfl
  | cons w ws ih =>
    unfold completeLoop at h
    split at h
    · cases h
    · rw [ih _ h]; rfl

theorem completeWithdrawals_sorted (e : Env) (s s' : State) (hs : sortedByTime s.withdraws)
    (h : completeWithdrawals e s = .ok s') : sortedByTime s'.withdraws := by
  unfold completeWithdrawals at h
  rw [completeLoop_queue _ _ _ h]
  exact filter_sorted _ _ hs

theorem expireAndDistribute_queue (e : Env) (s s' : State) (h : expireAndDistribute e s = .ok s') :
    s'.withdraws = s.withdraws := (Coll.expireAndDistribute_frame e s s' h).same.queue

theorem endBlock_sorted (e : Env) (s s' : State) (hs : sortedByTime s.withdraws)
    (h : endBlock e s = .ok s') : sortedByTime s'.withdraws := by
  unfold endBlock at h
  split at h
  · cases h
  · rename_i s1 h1
    split at h
    · cases h
    · rename_i s2 h2
      cases h
      have h3 : sortedByTime s1.withdraws := by rw [expireAndDistribute_queue e s s1 h1]; exact hs
      exact completeWithdrawals_sorted e s1 s2 h3 h2

/-! ## histories -/

/-- every successful operation of the shield model keeps the withdraw queue ordered by completion time -/
theorem apply_sorted (op : Op) (w w' : World) (hs : sortedByTime w.2.withdraws) (h : op.apply w = .ok w') :
    sortedByTime w'.2.withdraws := by
  obtain ⟨l, s⟩ := w
  obtain ⟨l', s'⟩ := w'
  have keep : ∀ {t : State}, t.withdraws = s.withdraws → sortedByTime t.withdraws := fun ht => by rw [ht]; exact hs
  cases op <;> simp only [Op.apply] at h
  case deposit e a c => obtain ⟨x, hx, he⟩ := map_ok h; cases he; exact keep (deposit_queue e s _ a c hx)
  case withdraw e a c => obtain ⟨x, hx, he⟩ := map_ok h; cases he; exact withdraw_sorted e s _ a c hs hx
  case stakingChanged e a => obtain ⟨x, hx, he⟩ := map_ok h; cases he; exact stakingChanged_sorted e s _ a hs hx
  case purchase e poolID shield purchaser staking => exact keep (Coll.purchase_frame e l l' s s' _ _ _ _ h).same.queue
  case createPool e creator shield fees sponsor sponsorAddr limit =>
    exact keep (Coll.createPool_frame e l l' s s' _ _ _ _ _ _ h).same.queue
  case updatePool e updater poolID shield fees limit =>
    exact keep (Coll.updatePool_frame e l l' s s' _ _ _ _ _ h).same.queue
  case pausePool updater poolID active =>
    obtain ⟨x, hx, he⟩ := map_ok h; cases he; exact keep (Coll.pausePool_frame s _ _ _ _ hx).same.queue
  case updateSponsor updater poolID sponsor sponsorAddr =>
    obtain ⟨x, hx, he⟩ := map_ok h; cases he; exact keep (Coll.updateSponsor_frame s _ _ _ _ _ hx).same.queue
  case unstake e poolID purchaser coins =>
    obtain ⟨x, hx, he⟩ := map_ok h; cases he; exact keep (Coll.unstake_frame e s _ _ _ _ hx).same.queue
  case withdrawRewards e a => exact keep (withdrawRewards_queue e l l' s s' a h)
  case withdrawReimbursement e pid a => exact keep (Coll.withdrawReimbursement_frame e l l' s s' pid a h).same.queue
  case secureCollaterals e poolID purchaser purchaseID loss duration =>
    obtain ⟨x, hx, he⟩ := map_ok h; cases he; exact secureCollaterals_sorted e s _ _ _ _ _ _ hs hx
  case claimEnds e pid poolID restoreTo beneficiary purchaseID loss o =>
    exact claimEnds_sorted e l l' s s' _ _ _ _ _ _ _ hs h
  case endBlock e => obtain ⟨x, hx, he⟩ := map_ok h; cases he; exact endBlock_sorted e s _ hs hx
  case fundBlockRewards e sender amount => injection h with h; cases h; exact hs
  case withdrawCollateral e a amount =>
    obtain ⟨x, hx, he⟩ := map_ok h; cases he; exact withdrawCollateral_sorted e s _ a amount hs hx
  case stakingHook e a staked => obtain ⟨x, hx, he⟩ := map_ok h; cases he; exact stakingHook_sorted e s _ a staked hs hx
  case delayWithdraws a amount t =>
    obtain ⟨x, hx, he⟩ := map_ok h; cases he; exact delayWithdraws_sorted s _ a amount t hs hx
  case secureFromProvider e p amount duration =>
    obtain ⟨x, hx, he⟩ := map_ok h; cases he; exact secureFromProvider_sorted e s _ p amount duration hs hx
  case createReimbursement e pid amount beneficiary =>
    exact createReimbursement_sorted e l l' s s' pid amount beneficiary hs h
  case completeWithdrawals e => obtain ⟨x, hx, he⟩ := map_ok h; cases he; exact completeWithdrawals_sorted e s _ hs hx
  case expireAndDistribute e => obtain ⟨x, hx, he⟩ := map_ok h; cases he; exact keep (expireAndDistribute_queue e s _ hx)
  case closePools => injection h with h; cases h; exact hs
  case claimEnd loss => injection h with h; cases h; exact hs
  case restoreShield poolID purchaser id loss =>
    injection h with h; cases h; exact keep (restoreShield_queue s _ _ _ _)

/-- a step of a history (a failing operation leaves the state as it was) keeps the queue sorted -/
theorem step_sorted (op : Op) (w : World) (hs : sortedByTime w.2.withdraws) : sortedByTime (step op w).2.withdraws := by
  unfold step
  split
  · rename_i w' h; exact apply_sorted op w w' hs h
  · exact hs

/-- after any history of operations, successful or failing, in any interleaving, the queue is still sorted -/
theorem run_sorted (ops : List Op) (w : World) (hs : sortedByTime w.2.withdraws) :
    sortedByTime (run ops w).2.withdraws := by
  induction ops generalizing w with
  | nil => exact hs
  | cons op ops ih => exact ih (step op w) (step_sorted op w hs)

/-! ## fee distribution, once started, stays started (`lastUpdate ≠ zeroTime`) -/

@[simp] theorem setPool_lu (s : State) (p : Pool) : (setPool s p).lastUpdate = s.lastUpdate := rfl
@[simp] theorem setProvider_lu (s : State) (p : Provider) : (setProvider s p).lastUpdate = s.lastUpdate := rfl
@[simp] theorem setList_lu (s : State) (l : PList) : (setList s l).lastUpdate = s.lastUpdate := by
  unfold setList; split <;> rfl
@[simp] theorem setStake_lu (s : State) (k : Stake) : (setStake s k).lastUpdate = s.lastUpdate := by
  unfold setStake; split <;> rfl

theorem withdrawCollateral_lu (e : Env) (s s' : State) (a : Addr) (amount : Int)
    (h : withdrawCollateral e s a amount = .ok s') : s'.lastUpdate = s.lastUpdate := by
  unfold withdrawCollateral at h
  ok_cases h
  all_goals (cases h; rfl)

theorem stakingHook_lu (e : Env) (s s' : State) (a : Addr) (staked : Int)
    (h : stakingHook e s a staked = .ok s') : s'.lastUpdate = s.lastUpdate := by
  unfold stakingHook at h
  split at h
  · cases h; rfl
  · dsimp only at h
    split at h
    · split at h
      · rename_i s2 h2
        cases h
        have := withdrawCollateral_lu e _ _ a _ h2
        exact this
      · cases h
    · cases h; rfl

theorem stakingChanged_lu (e : Env) (s s' : State) (a : Addr)
    (h : stakingChanged e s a = .ok s') : s'.lastUpdate = s.lastUpdate := by
  unfold stakingChanged at h
  split at h
  · cases h; rfl
  · exact stakingHook_lu e s s' a _ h

theorem withdraw_lu (e : Env) (s s' : State) (a : Addr) (coins : Coins)
    (h : withdraw e s a coins = .ok s') : s'.lastUpdate = s.lastUpdate := by
  unfold withdraw at h
  split at h
  · cases h
  · split at h
    · cases h
    · exact withdrawCollateral_lu e s s' a _ h

theorem deposit_lu (e : Env) (s s' : State) (a : Addr) (coins : Coins)
    (h : deposit e s a coins = .ok s') : s'.lastUpdate = s.lastUpdate := by
  unfold deposit at h
  ok_cases h
  all_goals (cases h; rfl)

theorem withdrawRewards_lu (e : Env) (l l' : Ledger) (s s' : State) (a : Addr)
    (h : withdrawRewards e l s a = .ok (l', s')) : s'.lastUpdate = s.lastUpdate := by
  unfold withdrawRewards at h
  ok_cases h
  all_goals (cases h; rfl)

theorem delayWithdraws_lu (s s' : State) (a : Addr) (amount t : Int)
    (h : delayWithdraws s a amount t = .ok s') : s'.lastUpdate = s.lastUpdate := by
  unfold delayWithdraws at h
  ok_cases h
  cases h; rfl

theorem secureFromProvider_lu (e : Env) (s s' : State) (p : Provider) (amount duration : Int)
    (h : secureFromProvider e s p amount duration = .ok s') : s'.lastUpdate = s.lastUpdate := by
  unfold secureFromProvider at h
  split at h
  · cases h; rfl
  · dsimp only at h
    split at h
    · exact delayWithdraws_lu s s' _ _ _ h
    · cases h; rfl

theorem secureLoop_lu (e : Env) (ratio : Dec) (duration : Int) (ps : List Provider) (rem : Int) (s s' : State)
    (h : secureLoop e ratio duration ps rem s = .ok s') : s'.lastUpdate = s.lastUpdate := by
  induction ps generalizing rem s with
  | nil => unfold secureLoop at h; cases h; rfl
  | cons p ps ih =>
    unfold secureLoop at h
    dsimp only at h
    split at h
    · cases h
    · rename_i s1 h1
      rw [ih _ _ h, secureFromProvider_lu e s s1 p _ duration h1]

theorem secureCollaterals_lu (e : Env) (s s' : State) (poolID : Nat) (purchaser : Addr) (purchaseID : Nat)
    (loss duration : Int) (h : secureCollaterals e s poolID purchaser purchaseID loss duration = .ok s') :
    s'.lastUpdate = s.lastUpdate := by
  unfold secureCollaterals at h
  split at h
  · cases h
  · split at h
    · cases h
    · dsimp only at h
      split at h
      · cases h
      · split at h
        · cases h
        · split at h
          · cases h
          · split at h
            · cases h
            · split at h
              · cases h
              · split at h
                · cases h
                · rename_i s1 h1
                  cases h
                  have := secureLoop_lu e _ duration _ _ s s1 h1
                  simpa using this

theorem updateProviderForPayout_lu (s s' : State) (a : Addr) (purchased payout : Int)
    (h : updateProviderForPayout s a purchased payout = .ok s') : s'.lastUpdate = s.lastUpdate := by
  obtain ⟨p, q, _, _, hs'⟩ := Coll.updateProviderForPayout_spec s s' a purchased payout h
  subst hs'
  rfl

theorem reimburseLoop_lu (e : Env) (pr payr : Dec) (ps : List Provider) (tp tpay : Int) (l : Ledger) (s : State)
    (left : Int) (l' : Ledger) (s' : State)
    (h : reimburseLoop e pr payr ps tp tpay l s = .ok (left, l', s')) : s'.lastUpdate = s.lastUpdate := by
  induction ps generalizing tp tpay l s with
  | nil => unfold reimburseLoop at h; cases h; rfl
  | cons p ps ih =>
    unfold reimburseLoop at h
    split at h
    · cases h; rfl
    · dsimp only at h
      split at h
      · cases h
      · rename_i s1 h1
        split at h
        · cases h
        · rename_i s2 h2
          rw [ih _ _ _ _ h, stakingChanged_lu e s1 s2 _ h2, updateProviderForPayout_lu s s1 _ _ _ h1]

theorem createReimbursement_lu (e : Env) (l l' : Ledger) (s s' : State) (pid : Nat) (amount : Int)
    (beneficiary : Addr) (h : createReimbursement e l s pid amount beneficiary = .ok (l', s')) :
    s'.lastUpdate = s.lastUpdate := by
  unfold createReimbursement at h
  split at h
  · cases h
  · dsimp only at h
    split at h
    · cases h
    · rename_i left l1 s1 h1
      split at h
      · cases h
      · cases h
        show s1.lastUpdate = s.lastUpdate
        exact reimburseLoop_lu e _ _ _ _ _ l s _ _ _ h1

theorem restoreShield_lu (s : State) (poolID : Nat) (purchaser : Addr) (id : Nat) (loss : Int) :
    (restoreShield s poolID purchaser id loss).lastUpdate = s.lastUpdate := by
  unfold restoreShield
  split
  · rfl
  · split
    · rfl
    · split
      · rfl
      · simp

theorem claimEnds_lu (e : Env) (l l' : Ledger) (s s' : State) (pid poolID : Nat) (restoreTo beneficiary : Addr)
    (purchaseID : Nat) (loss : Int) (o : ClaimOutcome)
    (h : claimEnds e l s pid poolID restoreTo beneficiary purchaseID loss o = .ok (l', s')) :
    s'.lastUpdate = s.lastUpdate := by
  cases o <;> simp only [claimEnds] at h
  · exact createReimbursement_lu e l l' s s' pid loss beneficiary h
  · cases h; rfl
  · cases h
    show (restoreShield s poolID restoreTo purchaseID loss).lastUpdate = s.lastUpdate
    exact restoreShield_lu _ _ _ _ _
  · cases h; rfl

theorem completeLoop_lu (ws : List Withdraw) (s s' : State) (h : completeLoop ws s = .ok s') :
    s'.lastUpdate = s.lastUpdate := by
  induction ws generalizing s with
  | nil => unfold completeLoop at h; cases h; rfl
  | cons w ws ih =>
    unfold completeLoop at h
    split at h
    · cases h
    · rw [ih _ h]; rfl

theorem completeWithdrawals_lu (e : Env) (s s' : State) (h : completeWithdrawals e s = .ok s') :
    s'.lastUpdate = s.lastUpdate := by
  unfold completeWithdrawals at h
  rw [completeLoop_lu _ _ _ h]

/-- `purchaseShield` starts the fee clock at the block time when it was not running, and leaves it alone otherwise -/
theorem purchaseCore_lu (e : Env) (l l' : Ledger) (s s' : State) (poolID : Nat) (shield : Coins) (purchaser : Addr)
    (fees staking : Coins) (h : purchaseCore e l s poolID shield purchaser fees staking = .ok (l', s')) :
    s'.lastUpdate = if s.lastUpdate == zeroTime then e.t else s.lastUpdate := by
  unfold purchaseCore at h
  dsimp only at h
  coll_split_ok h
  coll_split_ok h
  coll_split_ok h
  coll_split_ok h
  coll_split_ok h
  coll_split_ok h
  coll_split_ok h
  rename_i l1 s1 hp
  have hf : s1.lastUpdate = s.lastUpdate := by
    split at hp
    · split at hp
      · cases hp
      · injection hp with hp; injection hp with _ hp; subst hp; rfl
    · split at hp
      · cases hp
      · injection hp with hp; injection hp with _ hp; subst hp; simp
  injection h with h; injection h with _ h; subst h
  have key : ∀ x : State, x.lastUpdate = s.lastUpdate →
      (if x.lastUpdate == zeroTime then { x with lastUpdate := e.t } else x).lastUpdate =
        if s.lastUpdate == zeroTime then e.t else s.lastUpdate := by
    intro x hx
    rw [hx]
    split
    · rfl
    · exact hx
  apply key
  simp [hf]

theorem purchase_lu (e : Env) (l l' : Ledger) (s s' : State) (poolID : Nat) (shield : Coins) (purchaser : Addr)
    (staking : Bool) (h : purchase e l s poolID shield purchaser staking = .ok (l', s')) :
    s'.lastUpdate = if s.lastUpdate == zeroTime then e.t else s.lastUpdate := by
  unfold purchase at h
  dsimp only at h
  coll_split_ok h
  coll_split_ok h
  coll_split_ok h
  · exact purchaseCore_lu _ _ _ _ _ _ _ _ _ _ h
  · exact purchaseCore_lu _ _ _ _ _ _ _ _ _ _ h

theorem createPool_lu (e : Env) (l l' : Ledger) (s s' : State) (creator : Addr) (shield fees : Coins) (sponsor : String)
    (sponsorAddr : Addr) (limit : Int) (h : createPool e l s creator shield fees sponsor sponsorAddr limit = .ok (l', s')) :
    s'.lastUpdate = if s.lastUpdate == zeroTime then e.t else s.lastUpdate := by
  unfold createPool at h
  dsimp only at h
  coll_split_ok h
  coll_split_ok h
  have := purchaseCore_lu _ _ _ _ _ _ _ _ _ _ h
  exact this

theorem updatePool_lu (e : Env) (l l' : Ledger) (s s' : State) (updater : Addr) (poolID : Nat) (shield fees : Coins)
    (limit : Int) (h : updatePool e l s updater poolID shield fees limit = .ok (l', s')) :
    s'.lastUpdate = s.lastUpdate ∨ s'.lastUpdate = if s.lastUpdate == zeroTime then e.t else s.lastUpdate := by
  unfold updatePool at h
  dsimp only at h
  coll_split_ok h
  coll_split_ok h
  coll_split_ok h
  coll_split_ok h
  · have := purchaseCore_lu _ _ _ _ _ _ _ _ _ _ h
    exact Or.inr this
  · coll_split_ok h
    · coll_split_ok h
      injection h with h; injection h with _ h; subst h
      exact Or.inl rfl
    · injection h with h; injection h with _ h; subst h
      exact Or.inl rfl

theorem pausePool_lu (s s' : State) (updater : Addr) (poolID : Nat) (active : Bool)
    (h : pausePool s updater poolID active = .ok s') : s'.lastUpdate = s.lastUpdate := by
  unfold pausePool at h
  ok_cases h
  injection h with h; subst h; rfl

theorem updateSponsor_lu (s s' : State) (updater : Addr) (poolID : Nat) (sponsor : String) (sponsorAddr : Addr)
    (h : updateSponsor s updater poolID sponsor sponsorAddr = .ok s') : s'.lastUpdate = s.lastUpdate := by
  unfold updateSponsor at h
  ok_cases h
  injection h with h; subst h; rfl

theorem unstake_lu (e : Env) (s s' : State) (poolID : Nat) (purchaser : Addr) (coins : Coins)
    (h : unstake e s poolID purchaser coins = .ok s') : s'.lastUpdate = s.lastUpdate := by
  unfold unstake at h
  ok_cases h
  injection h with h; subst h; simp

theorem withdrawReimbursement_lu (e : Env) (l l' : Ledger) (s s' : State) (pid : Nat) (a : Addr)
    (h : withdrawReimbursement e l s pid a = .ok (l', s')) : s'.lastUpdate = s.lastUpdate := by
  unfold withdrawReimbursement at h
  ok_cases h
  injection h with h; injection h with _ h; subst h; rfl

/-- `RemoveExpiredPurchasesAndDistributeFees` leaves a stopped clock stopped and moves a running clock to the block time -/
theorem expireAndDistribute_lu (e : Env) (s s' : State) (h : expireAndDistribute e s = .ok s') :
    s'.lastUpdate = if s.lastUpdate == zeroTime then zeroTime else e.t := by
  unfold expireAndDistribute at h
  split at h
  · rename_i hz
    cases h
    rw [if_pos hz]; simpa using hz
  · rename_i hz
    rw [if_neg hz]
    ok_cases h
    all_goals (injection h with h; rw [← h])

theorem endBlock_lu (e : Env) (s s' : State) (h : endBlock e s = .ok s') :
    s'.lastUpdate = if s.lastUpdate == zeroTime then zeroTime else e.t := by
  unfold endBlock at h
  split at h
  · cases h
  · rename_i s1 h1
    split at h
    · cases h
    · rename_i s2 h2
      cases h
      show s2.lastUpdate = _
      rw [completeWithdrawals_lu e s1 s2 h2, expireAndDistribute_lu e s s1 h1]

/-- the only operations that write the block time into `lastUpdate` while the clock runs are the end-blocker and its
    first half; their block time must not be Go's zero time -/
def Op.timeOk : Op → Prop
  | .endBlock e => e.t ≠ zeroTime
  | .expireAndDistribute e => e.t ≠ zeroTime
  | _ => True

/-- once fee distribution has started (`lastUpdate ≠ zeroTime`), every successful operation keeps it started -/
theorem apply_started (op : Op) (w w' : World) (hl : w.2.lastUpdate ≠ zeroTime) (ht : Op.timeOk op)
    (h : op.apply w = .ok w') : w'.2.lastUpdate ≠ zeroTime := by
  obtain ⟨l, s⟩ := w
  obtain ⟨l', s'⟩ := w'
  have hz : (s.lastUpdate == zeroTime) = false := by simpa using hl
  have keep : ∀ {t : State}, t.lastUpdate = s.lastUpdate → t.lastUpdate ≠ zeroTime := fun h0 => by rw [h0]; exact hl
  have keep2 : ∀ {t : State} {x : Int}, (t.lastUpdate = if s.lastUpdate == zeroTime then x else s.lastUpdate) →
      t.lastUpdate ≠ zeroTime := fun h0 => by rw [h0, hz]; exact hl
  have moved : ∀ {t : State} {x : Int}, x ≠ zeroTime → (t.lastUpdate = if s.lastUpdate == zeroTime then zeroTime else x) →
      t.lastUpdate ≠ zeroTime := fun hx h0 => by rw [h0, hz]; exact hx
  cases op <;> simp only [Op.apply] at h
  case deposit e a c => obtain ⟨x, hx, he⟩ := map_ok h; cases he; exact keep (deposit_lu e s _ a c hx)
  case withdraw e a c => obtain ⟨x, hx, he⟩ := map_ok h; cases he; exact keep (withdraw_lu e s _ a c hx)
  case stakingChanged e a => obtain ⟨x, hx, he⟩ := map_ok h; cases he; exact keep (stakingChanged_lu e s _ a hx)
  case purchase e poolID shield purchaser staking => exact keep2 (purchase_lu e l l' s s' _ _ _ _ h)
  case createPool e creator shield fees sponsor sponsorAddr limit => exact keep2 (createPool_lu e l l' s s' _ _ _ _ _ _ h)
  case updatePool e updater poolID shield fees limit =>
    rcases updatePool_lu e l l' s s' _ _ _ _ _ h with h1 | h1
    · exact keep h1
    · exact keep2 h1
  case pausePool updater poolID active => obtain ⟨x, hx, he⟩ := map_ok h; cases he; exact keep (pausePool_lu s _ _ _ _ hx)
  case updateSponsor updater poolID sponsor sponsorAddr =>
    obtain ⟨x, hx, he⟩ := map_ok h; cases he; exact keep (updateSponsor_lu s _ _ _ _ _ hx)
  case unstake e poolID purchaser coins => obtain ⟨x, hx, he⟩ := map_ok h; cases he; exact keep (unstake_lu e s _ _ _ _ hx)
  case withdrawRewards e a => exact keep (withdrawRewards_lu e l l' s s' a h)
  case withdrawReimbursement e pid a => exact keep (withdrawReimbursement_lu e l l' s s' pid a h)
  case secureCollaterals e poolID purchaser purchaseID loss duration =>
    obtain ⟨x, hx, he⟩ := map_ok h; cases he; exact keep (secureCollaterals_lu e s _ _ _ _ _ _ hx)
  case claimEnds e pid poolID restoreTo beneficiary purchaseID loss o => exact keep (claimEnds_lu e l l' s s' _ _ _ _ _ _ _ h)
  case endBlock e => obtain ⟨x, hx, he⟩ := map_ok h; cases he; exact moved ht (endBlock_lu e s _ hx)
  case fundBlockRewards e sender amount => injection h with h; cases h; exact hl
  case withdrawCollateral e a amount => obtain ⟨x, hx, he⟩ := map_ok h; cases he; exact keep (withdrawCollateral_lu e s _ a amount hx)
  case stakingHook e a staked => obtain ⟨x, hx, he⟩ := map_ok h; cases he; exact keep (stakingHook_lu e s _ a staked hx)
  case delayWithdraws a amount t => obtain ⟨x, hx, he⟩ := map_ok h; cases he; exact keep (delayWithdraws_lu s _ a amount t hx)
  case secureFromProvider e p amount duration =>
    obtain ⟨x, hx, he⟩ := map_ok h; cases he; exact keep (secureFromProvider_lu e s _ p amount duration hx)
  case createReimbursement e pid amount beneficiary => exact keep (createReimbursement_lu e l l' s s' pid amount beneficiary h)
  case completeWithdrawals e => obtain ⟨x, hx, he⟩ := map_ok h; cases he; exact keep (completeWithdrawals_lu e s _ hx)
  case expireAndDistribute e => obtain ⟨x, hx, he⟩ := map_ok h; cases he; exact moved ht (expireAndDistribute_lu e s _ hx)
  case closePools => injection h with h; cases h; exact hl
  case claimEnd loss => injection h with h; cases h; exact hl
  case restoreShield poolID purchaser id loss => injection h with h; cases h; exact keep (restoreShield_lu s _ _ _ _)

theorem step_started (op : Op) (w : World) (hl : w.2.lastUpdate ≠ zeroTime) (ht : Op.timeOk op) :
    (step op w).2.lastUpdate ≠ zeroTime := by
  unfold step
  split
  · rename_i w' h; exact apply_started op w w' hl ht h
  · exact hl

/-- over histories whose end-blocker times are not the zero time: a started fee clock stays started -/
theorem run_started (ops : List Op) (w : World) (hl : w.2.lastUpdate ≠ zeroTime) (ht : ∀ op ∈ ops, Op.timeOk op) :
    (run ops w).2.lastUpdate ≠ zeroTime := by
  induction ops generalizing w with
  | nil => exact hl
  | cons op ops ih =>
    exact ih (step op w) (step_started op w hl (ht op List.mem_cons_self)) (fun o ho => ht o (List.mem_cons_of_mem _ ho))

/-- hence the block fees are zero after every successful end-blocker of such a history (they need not be exported) -/
theorem run_endBlock_blockFees_zero (ops : List Op) (w : World) (hl : w.2.lastUpdate ≠ zeroTime)
    (ht : ∀ op ∈ ops, Op.timeOk op) (e : Env) (s' : State) (h : endBlock e (run ops w).2 = .ok s') :
    s'.blockFees = Dec.zero :=
  block_fees_zero_after_endBlock e _ s' (run_started ops w hl ht) h

/-! ## non-vacuity -/

example : sortedByTime (Ex.l0, Ex.s0).2.withdraws := by simp [Ex.s0, sortedByTime]
example : sortedByTime (run Ex.hist (Ex.l0, Ex.s0)).2.withdraws := run_sorted _ _ (by simp [Ex.s0, sortedByTime])
example : ∀ op ∈ Ex.hist, Op.timeOk op := by
  intro op hop
  simp only [Ex.hist, List.mem_cons, List.not_mem_nil, or_false] at hop
  rcases hop with h | h | h | h | h | h <;> subst h <;> simp only [Op.timeOk] <;> decide

end Shentu.C20GShieldH
