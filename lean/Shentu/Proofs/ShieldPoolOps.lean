import Shentu.Proofs.ShieldPoolFrame
import Shentu.Proofs.BankLemmas
/-
  Characterisations of the operations that change pools, purchases and stakes:
  `purchaseCore`, `secureCollaterals`, `restoreShield`, and the abstract transitions
  (`ShieldInv.addEntry`, `ShieldInv.shiftEntry`) they are instances of.
-/
namespace Shentu.Shield.PoolLm
set_option linter.unusedSimpArgs false

/-! ## coins -/

theorem amountOf_eq_zero_of_not_mem (c : Coins) (d : Denom) (h : d ∉ Coins.denoms c) : Coins.amountOf c d = 0 := by
  unfold Coins.denoms at h
  rw [List.mem_eraseDups] at h
  unfold Coins.amountOf
  have : c.filter (fun e => e.1 == d) = [] := by
    apply List.filter_eq_nil_iff.mpr
    intro e he hed
    exact h (List.mem_map.mpr ⟨e, he, beq_iff_eq.mp hed⟩)
  simp [this]

theorem amountOf_nonneg_of_not_anyNegative (c : Coins) (h : Coins.isAnyNegative c = false) (d : Denom) :
    0 ≤ Coins.amountOf c d := by
  by_cases hm : d ∈ Coins.denoms c
  · unfold Coins.isAnyNegative at h
    have := List.any_eq_false.mp h d hm
    simpa using this
  · rw [amountOf_eq_zero_of_not_mem c d hm]; omega

theorem amountOf_nonneg_of_allPositive (c : Coins) (h : Coins.isAllPositive c = true) (d : Denom) :
    0 ≤ Coins.amountOf c d := by
  by_cases hm : d ∈ Coins.denoms c
  · unfold Coins.isAllPositive at h
    simp only [Bool.and_eq_true] at h
    have := List.all_eq_true.mp h.2 d hm
    have : Coins.amountOf c d > 0 := by simpa using this
    omega
  · rw [amountOf_eq_zero_of_not_mem c d hm]; omega

theorem send_not_anyNegative {l l' : Ledger} {a b : Addr} {c : Coins} (h : l.send a b c = .ok l') :
    Coins.isAnyNegative c = false := by
  unfold Ledger.send at h
  split at h
  · cases h
  · rename_i hn; simpa using hn

theorem ofInt_raw_nonneg (i : Int) (h : 0 ≤ i) : 0 ≤ (Dec.ofInt i).raw := by
  show 0 ≤ i * Dec.prec
  exact Int.mul_nonneg h (by decide)

/-! ## state extensionality and list-store congruence -/

theorem State.ext' (a b : State) (h1 : a.admin = b.admin) (h2 : a.pools = b.pools) (h3 : a.lists = b.lists)
    (h4 : a.providers = b.providers) (h5 : a.withdraws = b.withdraws) (h6 : a.stakes = b.stakes)
    (h7 : a.origStakings = b.origStakings) (h8 : a.reimbs = b.reimbs) (h9 : a.totalCollateral = b.totalCollateral)
    (h10 : a.totalWithdrawing = b.totalWithdrawing) (h11 : a.totalShield = b.totalShield)
    (h12 : a.totalClaimed = b.totalClaimed) (h13 : a.serviceFees = b.serviceFees) (h14 : a.remaining = b.remaining)
    (h15 : a.blockFees = b.blockFees) (h16 : a.stakingPool = b.stakingPool) (h17 : a.lastUpdate = b.lastUpdate)
    (h18 : a.nextPool = b.nextPool) (h19 : a.nextPurchase = b.nextPurchase) (h20 : a.params = b.params) : a = b := by
  cases a; cases b
  simp only at h1 h2 h3 h4 h5 h6 h7 h8 h9 h10 h11 h12 h13 h14 h15 h16 h17 h18 h19 h20
  subst h1 h2 h3 h4 h5 h6 h7 h8 h9 h10 h11 h12 h13 h14 h15 h16 h17 h18 h19 h20
  rfl

theorem findList_congr {s s' : State} (h : s'.lists = s.lists) (pid : Nat) (a : Addr) : findList s' pid a = findList s pid a := by
  unfold findList; rw [h]

theorem findPool_congr {s s' : State} (h : s'.pools = s.pools) (pid : Nat) : findPool s' pid = findPool s pid := by
  unfold findPool; rw [h]

theorem setList_lists_congr {s s' : State} (h : s'.lists = s.lists) (l : PList) : (setList s' l).lists = (setList s l).lists := by
  unfold setList
  rw [findList_congr h]
  split
  · show s'.lists.map _ = s.lists.map _; rw [h]
  · show s'.lists ++ _ = s.lists ++ _; rw [h]

/-! ## a new purchase -/

/-- the list record `purchaseShield` writes: the new entry at the end of the holder's list for the pool -/
def listWith (s : State) (poolID : Nat) (purchaser : Addr) (entry : Purchase) : PList :=
  match findList s poolID purchaser with
  | some x => { x with entries := x.entries ++ [entry] }
  | none => { pool := poolID, purchaser := purchaser, entries := [entry] }

/-- a new entry with the next purchase id is appended to the (existing or new) list of (pool, purchaser);
    pool and total grow by its shield -/
theorem ShieldInv.addEntry {s s' : State} (h : ShieldInv s) {pool : Pool} {poolID : Nat} {purchaser : Addr} {entry : Purchase}
    (hf : findPool s poolID = some pool)
    (hid : entry.id = s.nextPurchase) (hnn : 0 ≤ entry.shield ∧ 0 ≤ entry.fees.raw)
    (hpools : s'.pools = s.pools.map (fun x => if x.id == pool.id then { pool with shield := pool.shield + entry.shield } else x))
    (hlists : s'.lists = (setList s (listWith s poolID purchaser entry)).lists)
    (hT : s'.totalShield = s.totalShield + entry.shield) (hN : s'.nextPool = s.nextPool)
    (hQ : s'.nextPurchase = s.nextPurchase + 1) : ShieldInv s' := by
  have hP : PoolsStep s s' poolID entry.shield :=
    PoolsStep.replace (pool' := { pool with shield := pool.shield + entry.shield }) h hf (findPool_id hf : pool.id = poolID) rfl hpools
  refine h.step hP ?_ hT hN
  unfold listWith at hlists
  cases hfl : findList s poolID purchaser with
  | some x =>
    rw [hfl] at hlists
    have hkey := findList_key hfl
    have hx := findList_mem hfl
    have hfl' : findList s x.pool x.purchaser = some x := by rw [hkey.1, hkey.2]; exact hfl
    simp only at hlists
    rw [setList_lists_some s { x with entries := x.entries ++ [entry] } x hfl'] at hlists
    have := ListsStep.replace (lst' := { x with entries := x.entries ++ [entry] }) (d := entry.shield) h hfl' hlists
      (by simp only [sumI_append, sumI_cons, sumI_nil]; omega)
      (by
        intro e he
        rcases List.mem_append.mp he with h1 | h1
        · exact h.entryNonneg x hx e h1
        · have : e = entry := by simpa using h1
          subst this; exact hnn)
      (by
        simp only [List.map_append, List.map_cons, List.map_nil]
        apply List.nodup_append.mpr
        refine ⟨h.entryIds x hx, List.pairwise_singleton _ _, ?_⟩
        intro a ha b hb
        have : b = entry.id := by simpa using hb
        subst this
        rcases List.mem_map.mp ha with ⟨e0, he0, rfl⟩
        have := h.purchaseIdLt x hx e0 he0
        omega)
      (by
        intro e he
        rcases List.mem_append.mp he with h1 | h1
        · exact Or.inl (List.mem_map.mpr ⟨e, h1, rfl⟩)
        · have : e = entry := by simpa using h1
          subst this; right; omega)
      (by
        intro e he
        rcases List.mem_append.mp he with h1 | h1
        · have := h.purchaseIdLt x hx e h1; omega
        · have : e = entry := by simpa using h1
          subst this; omega)
      (by omega)
    rw [← hkey.1]; exact this
  | none =>
    rw [hfl] at hlists
    simp only at hlists
    have hfl' : findList s (PList.mk poolID purchaser [entry]).pool (PList.mk poolID purchaser [entry]).purchaser = none := hfl
    rw [setList_lists_none s { pool := poolID, purchaser := purchaser, entries := [entry] } hfl'] at hlists
    have := ListsStep.append (lst' := { pool := poolID, purchaser := purchaser, entries := [entry] }) h hfl'
      ⟨pool, findPool_mem hf, findPool_id hf⟩ hlists
      (by intro e he; have : e = entry := by simpa using he
          subst this; exact hnn)
      (by simp)
      (by intro e he; have : e = entry := by simpa using he
          subst this; omega)
      (by intro e he; have : e = entry := by simpa using he
          subst this; omega)
      (by omega)
    simpa using this

/-! ## moving shield in or out of one purchase (claim lock / restore) -/

/-- the first entry with id `id` of the list of (pool, purchaser) is rewritten by `f`, which moves its shield by `d`
    and keeps its id and fees; pool and total move by `d` as well -/
theorem ShieldInv.shiftEntry {s s' : State} (h : ShieldInv s) {pool : Pool} {lst : PList} {poolID : Nat} {purchaser : Addr}
    {id : Nat} {en : Purchase} {f : Purchase → Purchase} {d : Int}
    (hfp : findPool s poolID = some pool) (hfl : findList s poolID purchaser = some lst)
    (hen : lst.entries.find? (·.id == id) = some en)
    (hfid : ∀ a : Purchase, a.id = id → (f a).id = a.id)
    (hsh : (f en).shield = en.shield + d) (hnn : 0 ≤ (f en).shield) (hfees : (f en).fees = en.fees)
    (hpools : s'.pools = s.pools.map (fun x => if x.id == pool.id then { pool with shield := pool.shield + d } else x))
    (hlists : s'.lists = (setList s { lst with entries := replaceFirst (·.id == id) f lst.entries }).lists)
    (hT : s'.totalShield = s.totalShield + d) (hN : s'.nextPool = s.nextPool)
    (hQ : s'.nextPurchase = s.nextPurchase) : ShieldInv s' := by
  have hP : PoolsStep s s' poolID d :=
    PoolsStep.replace (pool' := { pool with shield := pool.shield + d }) h hfp (findPool_id hfp : pool.id = poolID) rfl hpools
  refine h.step hP ?_ hT hN
  have hkey := findList_key hfl
  have hx := findList_mem hfl
  have hfl' : findList s lst.pool lst.purchaser = some lst := by rw [hkey.1, hkey.2]; exact hfl
  rw [setList_lists_some s { lst with entries := replaceFirst (·.id == id) f lst.entries } lst hfl'] at hlists
  have hidmap : (replaceFirst (·.id == id) f lst.entries).map (·.id) = lst.entries.map (·.id) :=
    replaceFirst_map_of_eq _ f (·.id) (fun a ha => hfid a (beq_iff_eq.mp ha)) lst.entries
  have henm := List.mem_of_find?_eq_some hen
  have := ListsStep.replace (lst' := { lst with entries := replaceFirst (·.id == id) f lst.entries }) (d := d) h hfl' hlists
    (by
      show sumI (·.shield) (replaceFirst (·.id == id) f lst.entries) = _
      rw [sumI_replaceFirst (·.shield) _ f lst.entries en hen, hsh]; omega)
    (by
      intro e he
      rcases mem_replaceFirst _ f lst.entries e he with h1 | ⟨x, hx1, hx2⟩
      · exact h.entryNonneg lst hx e h1
      · have : x = en := by rw [hen] at hx1; injection hx1 with hx1; exact hx1.symm
        subst this; subst hx2
        exact ⟨hnn, by rw [hfees]; exact (h.entryNonneg lst hx x henm).2⟩)
    (by show ((replaceFirst (·.id == id) f lst.entries).map (·.id)).Nodup
        rw [hidmap]; exact h.entryIds lst hx)
    (by
      intro e he
      left
      have : e.id ∈ (replaceFirst (·.id == id) f lst.entries).map (·.id) := List.mem_map.mpr ⟨e, he, rfl⟩
      rw [hidmap] at this; exact this)
    (by
      intro e he
      have : e.id ∈ (replaceFirst (·.id == id) f lst.entries).map (·.id) := List.mem_map.mpr ⟨e, he, rfl⟩
      rw [hidmap] at this
      rcases List.mem_map.mp this with ⟨e0, he0, hid0⟩
      have := h.purchaseIdLt lst hx e0 he0
      omega)
    (by omega)
  rw [← hkey.1]; exact this

/-! ## `purchaseCore` in three pieces: the guards, the payment, the bookkeeping -/

/-- the payment step of `purchaseShield`: fees to the module account, or a stake -/
def pcPaid (e : Env) (l : Ledger) (s : State) (poolID : Nat) (purchaser : Addr) (fees staking : Coins) : Except Err (Ledger × State) :=
  let pid := s.nextPurchase
  let s := { s with nextPurchase := pid + 1 }
  if !Coins.isZero fees then
    match l.send purchaser e.modAddr fees with
    | .error x => .error x
    | .ok l' =>
      let f := Dec.ofInt (Coins.amountOf fees e.bond)
      .ok (l', { s with serviceFees := Dec.add s.serviceFees f, remaining := Dec.add s.remaining f })
  else
    let amt := Coins.amountOf staking e.bond
    match l.send purchaser e.modAddr [(e.bond, amt)] with
    | .error x => .error x
    | .ok l' =>
      let k : Stake := match findStake s poolID purchaser with
        | some k => { k with amount := k.amount + amt }
        | none => { pool := poolID, purchaser := purchaser, amount := amt, requested := 0 }
      let s1 := setStake { s with stakingPool := s.stakingPool + amt } k
      .ok (l', { s1 with origStakings := (s1.origStakings.filter (·.1 != pid)) ++ [(pid, amt)] })

/-- the purchase record `purchaseShield` creates -/
def pcEntry (e : Env) (s : State) (shield fees : Coins) : Purchase :=
  { id := s.nextPurchase, endTime := e.t + s.params.protection, delTime := e.t + s.params.protection,
    shield := Coins.amountOf shield e.bond,
    fees := if Coins.isZero fees then Dec.zero else Dec.ofInt (Coins.amountOf fees e.bond) }

/-- the bookkeeping step of `purchaseShield` -/
def pcFinish (e : Env) (s1 : State) (pool : Pool) (poolID : Nat) (purchaser : Addr) (entry : Purchase) : State :=
  let s2 := setPool { s1 with totalShield := s1.totalShield + entry.shield } { pool with shield := pool.shield + entry.shield }
  let s3 := setList s2 (listWith s2 poolID purchaser entry)
  if s3.lastUpdate == zeroTime then { s3 with lastUpdate := e.t } else s3

theorem purchaseCore_ok {e : Env} {l l' : Ledger} {s s' : State} {poolID : Nat} {shield : Coins} {purchaser : Addr} {fees staking : Coins}
    (h : purchaseCore e l s poolID shield purchaser fees staking = .ok (l', s')) :
    ∃ pool s1, findPool s poolID = some pool ∧ pool.active = true ∧ Coins.isZero shield = false ∧
      pcPaid e l s poolID purchaser fees staking = .ok (l', s1) ∧
      s' = pcFinish e s1 pool poolID purchaser (pcEntry e s shield fees) := by
  unfold purchaseCore at h
  dsimp only at h
  split at h; · cases h
  rename_i pool hpool
  split at h; · cases h
  rename_i hact
  split at h; · cases h
  rename_i hzero
  split at h; · cases h
  split at h; · cases h
  split at h; · cases h
  split at h; · cases h
  rename_i l1 s1 hpaid
  cases h
  exact ⟨pool, s1, hpool, by simpa using hact, by simpa using hzero, hpaid, rfl⟩

theorem findStake_congr {s s' : State} (h : s'.stakes = s.stakes) (pid : Nat) (a : Addr) : findStake s' pid a = findStake s pid a := by
  unfold findStake; rw [h]

theorem setStake_stakes_congr {s s' : State} (h : s'.stakes = s.stakes) (k : Stake) : (setStake s' k).stakes = (setStake s k).stakes := by
  unfold setStake
  rw [findStake_congr h]
  split
  · show s'.stakes.map _ = s.stakes.map _; rw [h]
  · show s'.stakes ++ _ = s.stakes ++ _; rw [h]

theorem listWith_congr {s s' : State} (h : s'.lists = s.lists) (pid : Nat) (a : Addr) (en : Purchase) :
    listWith s' pid a en = listWith s pid a en := by
  unfold listWith; rw [findList_congr h]

/-- what the payment step leaves alone, and what it does to the stakes -/
theorem pcPaid_ok {e : Env} {l l' : Ledger} {s s1 : State} {poolID : Nat} {purchaser : Addr} {fees staking : Coins}
    (h : pcPaid e l s poolID purchaser fees staking = .ok (l', s1)) :
    s1.pools = s.pools ∧ s1.lists = s.lists ∧ s1.totalShield = s.totalShield ∧ s1.nextPool = s.nextPool ∧
    s1.nextPurchase = s.nextPurchase + 1 ∧ s1.totalClaimed = s.totalClaimed ∧ s1.params = s.params ∧
    (StakeInv s → StakeInv s1) ∧ (Coins.isZero fees = false → 0 ≤ Coins.amountOf fees e.bond) := by
  unfold pcPaid at h
  dsimp only at h
  split at h
  · -- fees
    split at h; · cases h
    rename_i l1 hsend
    cases h
    refine ⟨rfl, rfl, rfl, rfl, rfl, rfl, rfl, fun hk => hk.congr rfl rfl, fun _ => ?_⟩
    exact amountOf_nonneg_of_not_anyNegative _ (send_not_anyNegative hsend) _
  · -- stake
    rename_i hz
    split at h; · cases h
    rename_i l1 hsend
    cases h
    have hamt : 0 ≤ Coins.amountOf staking e.bond := by
      have := amountOf_nonneg_of_not_anyNegative _ (send_not_anyNegative hsend) e.bond
      simpa using this
    refine ⟨setStake_pools _ _, setStake_lists _ _, setStake_totalShield _ _, setStake_nextPool _ _,
      setStake_nextPurchase _ _, setStake_totalClaimed _ _, setStake_params _ _, ?_, ?_⟩
    · intro hk
      cases hfs : findStake s poolID purchaser with
      | some k0 =>
        have hfs' : findStake { s with nextPurchase := s.nextPurchase + 1 } poolID purchaser = some k0 := hfs
        rw [hfs']
        have hkey := findStake_key hfs
        apply StakeInv.upsert (s := s) (k := { k0 with amount := k0.amount + Coins.amountOf staking e.bond })
          (d := Coins.amountOf staking e.bond) hk
        · show k0.amount + _ = (match findStake s k0.pool k0.purchaser with | some k0 => k0.amount | none => 0) + _
          rw [hkey.1, hkey.2, hfs]
        · show 0 ≤ k0.amount + _
          have := hk.stakeNonneg k0 (findStake_mem hfs); omega
        · show (setStake _ _).stakes = _
          apply setStake_stakes_congr; rfl
        · exact setStake_stakingPool _ _
      | none =>
        have hfs' : findStake { s with nextPurchase := s.nextPurchase + 1 } poolID purchaser = none := hfs
        rw [hfs']
        apply StakeInv.upsert (s := s) (k := { pool := poolID, purchaser := purchaser, amount := Coins.amountOf staking e.bond, requested := 0 })
          (d := Coins.amountOf staking e.bond) hk
        · show Coins.amountOf staking e.bond = (match findStake s poolID purchaser with | some k0 => k0.amount | none => 0) + _
          rw [hfs]; simp
        · exact hamt
        · show (setStake _ _).stakes = _
          apply setStake_stakes_congr; rfl
        · exact setStake_stakingPool _ _
    · intro hc
      have : Coins.isZero fees = true := by simpa using hz
      rw [this] at hc; cases hc

/-- the fields of the state after the bookkeeping step -/
theorem pcFinish_fields (e : Env) (s1 : State) (pool : Pool) (poolID : Nat) (purchaser : Addr) (entry : Purchase) :
    let s' := pcFinish e s1 pool poolID purchaser entry
    s'.pools = s1.pools.map (fun x => if x.id == pool.id then { pool with shield := pool.shield + entry.shield } else x) ∧
    s'.lists = (setList s1 (listWith s1 poolID purchaser entry)).lists ∧
    s'.totalShield = s1.totalShield + entry.shield ∧ s'.nextPool = s1.nextPool ∧ s'.nextPurchase = s1.nextPurchase ∧
    s'.stakes = s1.stakes ∧ s'.stakingPool = s1.stakingPool ∧ s'.totalClaimed = s1.totalClaimed ∧ s'.params = s1.params := by
  intro s'
  have hl : ∀ X : State, X.lists = s1.lists →
      (setList X (listWith X poolID purchaser entry)).lists = (setList s1 (listWith s1 poolID purchaser entry)).lists := by
    intro X hX; rw [listWith_congr hX, setList_lists_congr hX]
  show
    (pcFinish e s1 pool poolID purchaser entry).pools = _ ∧ (pcFinish e s1 pool poolID purchaser entry).lists = _ ∧
    (pcFinish e s1 pool poolID purchaser entry).totalShield = _ ∧ (pcFinish e s1 pool poolID purchaser entry).nextPool = _ ∧
    (pcFinish e s1 pool poolID purchaser entry).nextPurchase = _ ∧ (pcFinish e s1 pool poolID purchaser entry).stakes = _ ∧
    (pcFinish e s1 pool poolID purchaser entry).stakingPool = _ ∧ (pcFinish e s1 pool poolID purchaser entry).totalClaimed = _ ∧
    (pcFinish e s1 pool poolID purchaser entry).params = _
  unfold pcFinish
  dsimp only
  split
  · refine ⟨setList_pools _ _, hl _ rfl, setList_totalShield _ _, setList_nextPool _ _, setList_nextPurchase _ _,
      setList_stakes _ _, setList_stakingPool _ _, setList_totalClaimed _ _, setList_params _ _⟩
  · refine ⟨setList_pools _ _, hl _ rfl, setList_totalShield _ _, setList_nextPool _ _, setList_nextPurchase _ _,
      setList_stakes _ _, setList_stakingPool _ _, setList_totalClaimed _ _, setList_params _ _⟩

/-! ## `secureCollaterals` -/

/-- the purchase a claim is locked against: the entry with the id, or the first entry of the list when there is none -/
def lockTarget (lst : PList) (purchaseID : Nat) : Option Purchase :=
  (lst.entries.find? (·.id == purchaseID)).orElse (fun _ => lst.entries.head?)

/-- the purchase record after the lock: `loss` less shield, deletion not before the end of the vote -/
def lockedEntry (e : Env) (pu : Purchase) (loss dur : Int) : Purchase :=
  { pu with shield := pu.shield - loss, delTime := if pu.delTime < e.t + dur then e.t + dur else pu.delTime }

theorem lockTarget_of_find {lst : PList} {id : Nat} {en : Purchase} (h : lst.entries.find? (·.id == id) = some en) :
    lockTarget lst id = some en := by
  unfold lockTarget; rw [h]; rfl

/-- the target is the first entry of the list carrying the target's own id -/
theorem lockTarget_find {lst : PList} {id : Nat} {pu : Purchase} (h : lockTarget lst id = some pu) :
    lst.entries.find? (·.id == pu.id) = some pu := by
  unfold lockTarget at h
  cases hf : lst.entries.find? (·.id == id) with
  | some en =>
    rw [hf] at h
    have : en = pu := by simpa using h
    subst this
    have hid : en.id = id := by have := List.find?_some hf; simpa using this
    rw [hid]; exact hf
  | none =>
    rw [hf] at h
    have hh : lst.entries.head? = some pu := by simpa using h
    cases hl : lst.entries with
    | nil => rw [hl] at hh; cases hh
    | cons a as =>
      rw [hl] at hh
      have : a = pu := by simpa using hh
      subst this
      simp [List.find?_cons]

theorem secureCollaterals_ok {e : Env} {s s' : State} {poolID : Nat} {purchaser : Addr} {purchaseID : Nat} {loss dur : Int}
    (h : secureCollaterals e s poolID purchaser purchaseID loss dur = .ok s') :
    ∃ pool lst pu q, findPool s poolID = some pool ∧ loss ≤ pool.shield ∧ s.totalClaimed + loss ≤ s.totalCollateral ∧
      findList s poolID purchaser = some lst ∧ lockTarget lst purchaseID = some pu ∧ loss ≤ pu.shield ∧
      s' = { s with
             withdraws := q,
             lists := (setList s { lst with entries := replaceFirst (·.id == pu.id) (fun _ => lockedEntry e pu loss dur) lst.entries }).lists,
             pools := s.pools.map (fun x => if x.id == pool.id then { pool with shield := pool.shield - loss } else x),
             totalShield := s.totalShield - loss, totalClaimed := s.totalClaimed + loss } := by
  unfold secureCollaterals at h
  dsimp only at h
  split at h; · cases h
  rename_i pool hpool
  split at h; · cases h
  rename_i hls
  split at h; · cases h
  rename_i hcl
  split at h; · cases h
  rename_i lst hlst
  split at h; · cases h
  rename_i pu hpu
  split at h; · cases h
  rename_i hlp
  split at h; · cases h
  split at h; · cases h
  rename_i s1 hloop
  rcases secureLoop_eq _ _ _ _ hloop with ⟨q, hq⟩
  subst hq
  cases h
  refine ⟨pool, lst, pu, q, hpool, by omega, by omega, hlst, hpu, by omega, ?_⟩
  apply State.ext' <;> simp only [setPool_admin, setPool_lists, setPool_providers, setPool_withdraws, setPool_stakes,
    setPool_origStakings, setPool_reimbs, setPool_totalCollateral, setPool_totalWithdrawing, setPool_serviceFees,
    setPool_remaining, setPool_blockFees, setPool_stakingPool, setPool_lastUpdate, setPool_nextPool, setPool_nextPurchase,
    setPool_params, setPool_totalShield, setPool_totalClaimed,
    setList_admin, setList_providers, setList_withdraws, setList_stakes,
    setList_origStakings, setList_reimbs, setList_totalCollateral, setList_totalWithdrawing, setList_serviceFees,
    setList_remaining, setList_blockFees, setList_stakingPool, setList_lastUpdate, setList_nextPool, setList_nextPurchase,
    setList_params, setList_totalShield, setList_totalClaimed, setList_pools, setPool_pools]
  · apply setList_lists_congr; rfl

/-! ## `restoreShield` -/

/-- pool, list and entry are all still there: the loss goes back to the same purchase, its pool and the total -/
theorem restoreShield_some {s : State} {poolID : Nat} {purchaser : Addr} {id : Nat} {loss : Int} {pool : Pool} {lst : PList} {en : Purchase}
    (hfp : findPool s poolID = some pool) (hfl : findList s poolID purchaser = some lst)
    (hen : lst.entries.find? (·.id == id) = some en) :
    restoreShield s poolID purchaser id loss =
      { s with
        totalShield := s.totalShield + loss,
        pools := s.pools.map (fun x => if x.id == pool.id then { pool with shield := pool.shield + loss } else x),
        lists := (setList s { lst with entries := replaceFirst (·.id == id) (fun x => { x with shield := x.shield + loss }) lst.entries }).lists } := by
  unfold restoreShield
  rw [hfp]; dsimp only
  rw [hfl]; dsimp only
  have hany : lst.entries.any (·.id == id) = true := any_of_find? _ _ _ hen
  rw [hany]
  simp only [Bool.not_true, Bool.false_eq_true, if_false]
  apply State.ext' <;> simp only [setPool_admin, setPool_lists, setPool_providers, setPool_withdraws, setPool_stakes,
    setPool_origStakings, setPool_reimbs, setPool_totalCollateral, setPool_totalWithdrawing, setPool_serviceFees,
    setPool_remaining, setPool_blockFees, setPool_stakingPool, setPool_lastUpdate, setPool_nextPool, setPool_nextPurchase,
    setPool_params, setPool_totalShield, setPool_totalClaimed,
    setList_admin, setList_providers, setList_withdraws, setList_stakes,
    setList_origStakings, setList_reimbs, setList_totalCollateral, setList_totalWithdrawing, setList_serviceFees,
    setList_remaining, setList_blockFees, setList_stakingPool, setList_lastUpdate, setList_nextPool, setList_nextPurchase,
    setList_params, setList_totalShield, setList_totalClaimed, setList_pools, setPool_pools]
  · apply setList_lists_congr; rfl

/-- the pool, the list or the entry is gone: nothing is restored -/
theorem restoreShield_none {s : State} {poolID : Nat} {purchaser : Addr} {id : Nat} {loss : Int}
    (h : findPool s poolID = none ∨ findList s poolID purchaser = none ∨
      ∃ lst, findList s poolID purchaser = some lst ∧ lst.entries.find? (·.id == id) = none) :
    restoreShield s poolID purchaser id loss = s := by
  unfold restoreShield
  split
  · rfl
  · split
    · rfl
    · rename_i lst hfl
      split
      · rfl
      · rename_i hany
        rcases h with h | h | ⟨lst', hfl', hnone⟩
        · rename_i hfp _; rw [h] at hfp; cases hfp
        · rw [h] at hfl; cases hfl
        · rw [hfl'] at hfl; injection hfl with hfl; subst hfl
          have hany' : lst'.entries.any (·.id == id) = true := by simpa using hany
          rcases find?_of_any _ _ hany' with ⟨x, hx⟩
          rw [hnone] at hx; cases hx

end Shentu.Shield.PoolLm
