/-
  Hand-written, core-only model of the *library* primitives that `vm/contract.go` uses in its
  arithmetic cases: Go's `math/big`, Burrow's `binary` package (`U256`, `S256`, `SignExtend`,
  `Word256`) and Burrow's `evm.Stack` (`Pop`, `PopBigInt`, `PopBigIntSigned`, `Pop64`, `Push`,
  `PushBigInt`, `Push64`).  The translator (`translator/evm.go`) emits `Shentu/Gen/EVM.lean`
  as terms over these functions; nothing here depends on the shape of `contract.go`.

  Representation:  a `Word256` (32 bytes, big-endian) is the `Nat` it encodes (`< 2^256`);
  a `*big.Int` is an `Int`;  `uint64`/`uint`/`byte` values are `Nat`s.
  A Go run-time panic or an error pushed into the stack's error sink is `none`.
-/
namespace Shentu.Arith

/-! ### Burrow `evm.Stack` / `binary` -/

/-- `stack.PopBigInt()`: `new(big.Int).SetBytes(d[:])`, the unsigned big-endian value of the word -/
def bigOfWord (w : Nat) : Int := (w : Int)

/-- `x.Bit(i)` of `math/big` (two's complement for negative `x`), as a Boolean -/
def bigBit (x : Int) (i : Nat) : Bool := decide ((x / 2 ^ i) % 2 = 1)

/-- `binary.S256` = `FromTwosComplement(x, 256)`: `if x.Bit(255) == 0 { x } else { x - 1<<256 }` -/
def s256 (x : Int) : Int := if bigBit x 255 = false then x else x - 2 ^ 256

/-- `stack.PopBigIntSigned()` = `S256(st.PopBigInt())` -/
def bigOfWordSigned (w : Nat) : Int := s256 (bigOfWord w)

/-- `binary.U256` = `new(big.Int).And(x, 1<<256 - 1)`; `And` treats a negative `x` as an infinite
    two's complement bit string, so this is the Euclidean remainder -/
def u256 (x : Int) : Nat := (x % 2 ^ 256).toNat

/-- `stack.PushBigInt(x)`: pushes `LeftPadWord256(U256(x).Bytes())` -/
def pushBigInt (x : Int) : Nat := u256 x

/-- `stack.Pop64()`: `IntegerOverflow` error when one of the 24 high bytes is non-zero -/
def pop64 (w : Nat) : Option Nat := if w < 2 ^ 64 then some w else none

/-- `stack.Push64(i)` = `Push(Uint64ToWord256(i))`: big-endian in the 8 low bytes -/
def push64 (i : Nat) : Nat := i % 2 ^ 64

/-- `word[i]`: byte `i` of the big-endian 32-byte array; Go panics (index out of range) when `i ≥ 32` -/
def wordByte (w : Nat) (i : Nat) : Option Nat := if i < 32 then some (w / 256 ^ (31 - i) % 256) else none

/-- `bytes.Equal(x[:], y[:])` on two words -/
def wordEq (x y : Nat) : Bool := x == y

/-- `x.IsZero()` on a word -/
def wordIsZero (x : Nat) : Bool := x == 0

/-- `for i := 0; i < n; i++ { z[i] = f(x[i], y[i]) }` on the byte arrays of two words (bytes are independent, the
    recursion runs from the least significant byte) -/
def bytewise2 (f : Nat → Nat → Nat) : Nat → Nat → Nat → Nat
  | 0, _, _ => 0
  | n + 1, x, y => f (x % 256) (y % 256) % 256 + 256 * bytewise2 f n (x / 256) (y / 256)

/-- `for i := 0; i < n; i++ { z[i] = f(x[i]) }` -/
def bytewise1 (f : Nat → Nat) : Nat → Nat → Nat
  | 0, _ => 0
  | n + 1, x => f (x % 256) % 256 + 256 * bytewise1 f n (x / 256)

/-- Go's `^b` on a `byte` -/
def byteNot (b : Nat) : Nat := 255 - b % 256

/-- `uint64` wrap-around of an arithmetic result -/
def u64 (n : Nat) : Nat := n % 2 ^ 64

/-! ### `math/big` -/

/-- `x.Sign()` -/
def bigSign (x : Int) : Int := x.sign

/-- `x.Cmp(y)` -/
def bigCmp (x y : Int) : Int := if x < y then -1 else if x = y then 0 else 1

/-- `x.Uint64()`: the low 64 bits of `|x|` -/
def bigUint64 (x : Int) : Nat := x.natAbs % 2 ^ 64

/-- `z.Div(x, y)`: Euclidean division, panics on a zero divisor -/
def bigDiv (x y : Int) : Option Int := if y = 0 then none else some (x / y)
/-- `z.Mod(x, y)`: Euclidean modulus, panics on a zero divisor -/
def bigMod (x y : Int) : Option Int := if y = 0 then none else some (x % y)
/-- `z.Quo(x, y)`: truncated division, panics on a zero divisor -/
def bigQuo (x y : Int) : Option Int := if y = 0 then none else some (Int.tdiv x y)
/-- `z.Rem(x, y)`: truncated remainder (sign of `x`), panics on a zero divisor -/
def bigRem (x y : Int) : Option Int := if y = 0 then none else some (Int.tmod x y)

/-- `z.Exp(x, y, nil)`: `x**y`, and 1 when `y ≤ 0` -/
def bigExp (x y : Int) : Int := if y ≤ 0 then 1 else x ^ y.toNat

/-- `z.Exp(x, y, m)` with a modulus: `x**y mod |m|` for `y ≥ 0` (Euclidean, result in `[0, |m|)`); `m = 0` is the
    same as `m == nil`.  For `y < 0` Go computes a modular inverse (or returns nil): outside this model, `none`. -/
def bigExpMod (x y m : Int) : Option Int :=
  if m = 0 then some (bigExp x y) else if y < 0 then none else some (x ^ y.toNat % (m.natAbs : Int))

/-- `x.IsUint64()` -/
def bigIsUint64 (x : Int) : Bool := decide (0 ≤ x ∧ x < 2 ^ 64)

/-- `z.Lsh(x, n)` -/
def bigLsh (x : Int) (n : Nat) : Int := x * 2 ^ n
/-- `z.Rsh(x, n)`: arithmetic shift (rounds towards minus infinity) -/
def bigRsh (x : Int) (n : Nat) : Int := x / 2 ^ n

/-- Burrow `binary.SignExtend(x, n)` for `x ≥ 0`:
    `mask := 1<<(n-1) - 1; if x.Bit(n-1) == 1 { x.Or(x, mask.Not(mask)) } else { x.And(x, mask) }`.
    `Or` with `^mask = -(1<<(n-1))` sets every bit from `n-1` upwards (an infinite run of ones, i.e. a
    negative number), `And` with `mask` clears them. -/
def signExtend (x : Int) (n : Nat) : Int :=
  if bigBit x (n - 1) = true then x % 2 ^ (n - 1) - 2 ^ (n - 1) else x % 2 ^ (n - 1)

end Shentu.Arith
