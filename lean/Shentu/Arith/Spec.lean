/-
  Reference semantics of the EVM arithmetic, comparison, bitwise and shift instructions on 256-bit
  words, following the Ethereum Yellow Paper (Appendix H.2, 0s/10s) and ethereum/execution-specs
  (`vm/instructions/arithmetic.py`, `comparison.py`, `bitwise.py`).  Hand-written, core Lean only,
  independent of the Go sources.  Operands are listed in stack order: first argument = top of stack (μs[0]).
-/
namespace Shentu.Arith.Spec

abbrev Word := BitVec 256

/-- Boolean results are pushed as the words 1 / 0 -/
def ofBool (b : Bool) : Word := if b then 1 else 0

/-- the word whose two's complement value is `i` (`U256.from_signed`; wraps modulo 2^256) -/
def ofSigned (i : Int) : Word := BitVec.ofInt 256 i

/-- ADD: μs[0] + μs[1] modulo 2^256 -/
def add (x y : Word) : Word := x + y
/-- MUL: μs[0] × μs[1] modulo 2^256 -/
def mul (x y : Word) : Word := x * y
/-- SUB: μs[0] − μs[1] modulo 2^256 -/
def sub (x y : Word) : Word := x - y
/-- DIV: 0 if μs[1] = 0, otherwise ⌊μs[0] ÷ μs[1]⌋ -/
def div (x y : Word) : Word := if y = 0 then 0 else BitVec.ofNat 256 (x.toNat / y.toNat)
/-- SDIV: 0 if μs[1] = 0; −2^255 if μs[0] = −2^255 ∧ μs[1] = −1; otherwise sgn(μs[0] ÷ μs[1]) ⌊|μs[0] ÷ μs[1]|⌋
    (signed operands, truncation towards zero) -/
def sdiv (x y : Word) : Word :=
  if y = 0 then 0
  else if x.toInt = -2 ^ 255 ∧ y.toInt = -1 then ofSigned (-2 ^ 255)
  else ofSigned (x.toInt.sign * y.toInt.sign * (x.toInt.natAbs / y.toInt.natAbs : Nat))
/-- MOD: 0 if μs[1] = 0, otherwise μs[0] mod μs[1] -/
def mod (x y : Word) : Word := if y = 0 then 0 else BitVec.ofNat 256 (x.toNat % y.toNat)
/-- SMOD: 0 if μs[1] = 0, otherwise sgn(μs[0]) (|μs[0]| mod |μs[1]|)  (the result has the sign of the dividend) -/
def smod (x y : Word) : Word :=
  if y = 0 then 0 else ofSigned (x.toInt.sign * (x.toInt.natAbs % y.toInt.natAbs : Nat))
/-- ADDMOD: 0 if μs[2] = 0, otherwise (μs[0] + μs[1]) mod μs[2], the sum not being reduced modulo 2^256 -/
def addmod (x y z : Word) : Word := if z = 0 then 0 else BitVec.ofNat 256 ((x.toNat + y.toNat) % z.toNat)
/-- MULMOD: 0 if μs[2] = 0, otherwise (μs[0] × μs[1]) mod μs[2], the product not being reduced modulo 2^256 -/
def mulmod (x y z : Word) : Word := if z = 0 then 0 else BitVec.ofNat 256 ((x.toNat * y.toNat) % z.toNat)
/-- EXP: μs[0] ^ μs[1] modulo 2^256 -/
def exp (x y : Word) : Word := BitVec.ofNat 256 (x.toNat ^ y.toNat)
/-- SIGNEXTEND(b, x): if b < 31, bit `t = 8(b+1) − 1` of x is copied to all higher bits (x is read as a signed
    (b+1)-byte integer); otherwise x is unchanged -/
def signextend (b x : Word) : Word :=
  if b.toNat < 31 then BitVec.signExtend 256 (BitVec.setWidth (8 * (b.toNat + 1)) x) else x

/-- LT / GT: unsigned comparison -/
def lt (x y : Word) : Word := ofBool (decide (x.toNat < y.toNat))
def gt (x y : Word) : Word := ofBool (decide (x.toNat > y.toNat))
/-- SLT / SGT: comparison of the two's complement values -/
def slt (x y : Word) : Word := ofBool (decide (x.toInt < y.toInt))
def sgt (x y : Word) : Word := ofBool (decide (x.toInt > y.toInt))
def eq (x y : Word) : Word := ofBool (decide (x = y))
def iszero (x : Word) : Word := ofBool (decide (x = 0))

def and (x y : Word) : Word := x &&& y
def or (x y : Word) : Word := x ||| y
def xor (x y : Word) : Word := x ^^^ y
def not (x : Word) : Word := ~~~x

/-- BYTE(i, x): the i-th byte of x counted from the most significant one, 0 if i ≥ 32 -/
def byte (i x : Word) : Word :=
  if i.toNat < 32 then (x >>> (8 * (31 - i.toNat))) &&& 0xff#256 else 0

/-- SHL(shift, x): x · 2^shift modulo 2^256 (0 if shift ≥ 256) -/
def shl (s x : Word) : Word := if s.toNat ≥ 256 then 0 else x <<< s.toNat
/-- SHR(shift, x): ⌊x ÷ 2^shift⌋ (0 if shift ≥ 256) -/
def shr (s x : Word) : Word := if s.toNat ≥ 256 then 0 else x >>> s.toNat
/-- SAR(shift, x): ⌊x ÷ 2^shift⌋ on the signed value; for shift ≥ 256 the result is 0 (x ≥ 0) or −1 (x < 0) -/
def sar (s x : Word) : Word :=
  if s.toNat ≥ 256 then (if x.toInt ≥ 0 then 0 else ofSigned (-1)) else ofSigned (x.toInt / 2 ^ s.toNat)

/-! ### Sanity checks of the reference semantics (the corner cases the specification singles out) -/

example : add (BitVec.allOnes 256) 1 = 0 := by decide
example : sub 0 1 = BitVec.allOnes 256 := by decide
example : mul (BitVec.ofNat 256 (2 ^ 255)) 2 = 0 := by decide
example : div 7 0 = 0 ∧ mod 7 0 = 0 ∧ sdiv 7 0 = 0 ∧ smod 7 0 = 0 := by decide
example : sdiv (ofSigned (-2 ^ 255)) (ofSigned (-1)) = ofSigned (-2 ^ 255) := by decide
example : sdiv (ofSigned (-7)) 2 = ofSigned (-3) := by decide
example : smod (ofSigned (-7)) 2 = ofSigned (-1) ∧ smod 7 (ofSigned (-2)) = 1 := by decide
example : addmod (BitVec.allOnes 256) (BitVec.allOnes 256) 7 = 2 := by decide
example : mulmod (BitVec.allOnes 256) (BitVec.allOnes 256) 7 = 1 := by decide
example : signextend 0 0xff#256 = BitVec.allOnes 256 ∧ signextend 0 0x17f#256 = 0x7f#256 ∧ signextend 31 0xff#256 = 0xff#256 := by decide
example : slt (ofSigned (-1)) 0 = 1 ∧ lt (ofSigned (-1)) 0 = 0 := by decide
example : byte 31 0x1234#256 = 0x34#256 ∧ byte 30 0x1234#256 = 0x12#256 ∧ byte 32 0x1234#256 = 0 := by decide
example : shl 256 1 = 0 ∧ shr 256 (BitVec.allOnes 256) = 0 ∧ sar 256 (BitVec.allOnes 256) = BitVec.allOnes 256 := by decide
example : sar 1 (ofSigned (-3)) = ofSigned (-2) := by decide

/-! ### The Yellow Paper's sign/absolute-value formulas are truncated (T-)division and remainder -/

private theorem sign_natCast_mul (m : Nat) (k : Int) (h : m = 0 → k = 0) : (m : Int).sign * k = k := by
  rcases Nat.eq_zero_or_pos m with h0 | h0
  · simp [h0, h h0]
  · rw [Int.sign_natCast_of_ne_zero (by omega)]; simp

theorem tdiv_eq_sign_mul (a b : Int) : Int.tdiv a b = a.sign * b.sign * ((a.natAbs / b.natAbs : Nat) : Int) := by
  have key : ∀ m n : Nat, (m : Int).sign * (n : Int).sign * ((m / n : Nat) : Int) = ((m / n : Nat) : Int) := by
    intro m n
    rw [Int.mul_assoc, sign_natCast_mul n _ (by intro h; simp [h]), sign_natCast_mul m _ (by intro h; simp [h])]
  rcases Int.natAbs_eq a with ha | ha <;> rcases Int.natAbs_eq b with hb | hb <;>
    generalize a.natAbs = m at * <;> generalize b.natAbs = n at * <;> subst ha hb <;>
    simp only [Int.tdiv_neg, Int.neg_tdiv, Int.sign_neg, ← Int.ofNat_tdiv, Int.neg_mul, Int.mul_neg, Int.neg_neg, key]

theorem tmod_eq_sign_mul (a b : Int) : Int.tmod a b = a.sign * ((a.natAbs % b.natAbs : Nat) : Int) := by
  have key : ∀ m n : Nat, (m : Int).sign * ((m % n : Nat) : Int) = ((m % n : Nat) : Int) := by
    intro m n
    rw [sign_natCast_mul m _ (by intro h; simp [h])]
  rcases Int.natAbs_eq a with ha | ha <;> rcases Int.natAbs_eq b with hb | hb <;>
    generalize a.natAbs = m at * <;> generalize b.natAbs = n at * <;> subst ha hb <;>
    simp only [Int.tmod_neg, Int.neg_tmod, Int.sign_neg, ← Int.ofNat_tmod, Int.neg_mul, key]

/-- SDIV is truncated division of the signed values, wrapped to a word (the special case −2^255 ÷ −1 is the wrap) -/
theorem sdiv_eq_tdiv (x y : Word) (hy : y ≠ 0) : sdiv x y = ofSigned (Int.tdiv x.toInt y.toInt) := by
  unfold sdiv
  rw [if_neg hy, ← tdiv_eq_sign_mul]
  split
  · next h => rw [h.1, h.2]; decide
  · rfl

/-- SMOD is the truncated remainder (sign of the dividend) of the signed values -/
theorem smod_eq_tmod (x y : Word) (hy : y ≠ 0) : smod x y = ofSigned (Int.tmod x.toInt y.toInt) := by
  unfold smod
  rw [if_neg hy, ← tmod_eq_sign_mul]

/-! ### Cross-check against Lean's `BitVec` library (SMT-LIB `bvsdiv`, `bvsrem`, `bvashr`): the signed operations
    above coincide with it, apart from the EVM's explicit zero-divisor convention -/

theorem sdiv_eq_bv (x y : Word) : sdiv x y = if y = 0 then 0 else x.sdiv y := by
  by_cases hy : y = 0
  · simp [sdiv, hy]
  · rw [if_neg hy, sdiv_eq_tdiv x y hy]
    apply BitVec.eq_of_toInt_eq
    rw [BitVec.toInt_sdiv, ofSigned, BitVec.toInt_ofInt]
theorem smod_eq_bv (x y : Word) : smod x y = if y = 0 then 0 else x.srem y := by
  by_cases hy : y = 0
  · simp [smod, hy]
  · rw [if_neg hy, smod_eq_tmod x y hy, ofSigned, ← BitVec.toInt_srem, BitVec.ofInt_toInt]
theorem sar_eq_bv (s x : Word) : sar s x = x.sshiftRight s.toNat := by
  have key : x.sshiftRight s.toNat = ofSigned (x.toInt / 2 ^ s.toNat) := by
    rw [ofSigned, ← BitVec.ofInt_toInt (x := x.sshiftRight s.toNat), BitVec.toInt_sshiftRight, Int.shiftRight_eq_div_pow]
    simp
  rw [key, sar]
  split
  · next h =>
    have hP : (2 : Int) ^ 256 ≤ 2 ^ s.toNat := by
      have : (2 : Nat) ^ 256 ≤ 2 ^ s.toNat := Nat.pow_le_pow_right (by decide) h
      have := Int.ofNat_le.mpr this
      simpa using this
    have hx := x.isLt
    have hxi := BitVec.toInt_eq_toNat_cond x
    generalize (2 : Int) ^ s.toNat = P at *
    split
    · next h0 =>
      rw [Int.ediv_eq_zero_of_lt h0 (by split at hxi <;> omega)]; rfl
    · next h0 =>
      have : x.toInt / P = -1 := by
        have := Int.ediv_emod_unique (a := x.toInt) (b := P) (q := -1) (r := x.toInt + P) (by omega)
        exact (this.2 ⟨by split at hxi <;> omega, by omega, by omega⟩).1
      rw [this]
  · rfl
end Shentu.Arith.Spec
