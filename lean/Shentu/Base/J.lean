import Lean.Data.Json
import Shentu.Base.Coins
/- JSON accessors for the trace protocol (drivers only; no theorem depends on this file). -/
namespace Shentu.J
open Lean

def get (j : Json) (k : String) : Json := (j.getObjVal? k).toOption.getD Json.null
def has (j : Json) (k : String) : Bool := (j.getObjVal? k).toOption.isSome
def str (j : Json) : String := match j with | .str s => s | _ => ""
def arr (j : Json) : List Json := match j with | .arr a => a.toList | _ => []
def int (j : Json) : Int :=
  match j with
  | .str s => s.toInt?.getD 0
  | .num n => if n.exponent == 0 then n.mantissa else (n.mantissa / (10 ^ n.exponent : Nat))
  | _ => 0
def bool (j : Json) : Bool := match j with | .bool b => b | _ => false
def isNull (j : Json) : Bool := match j with | .null => true | _ => false
def strOf (j : Json) (k : String) : String := str (get j k)
def intOf (j : Json) (k : String) : Int := int (get j k)
def arrOf (j : Json) (k : String) : List Json := arr (get j k)
def boolOf (j : Json) (k : String) : Bool := bool (get j k)

/-- coins as `[["uctk","12"],...]` -/
def coins (j : Json) : Coins := (arr j).map (fun e => match arr e with
  | [d, x] => (str d, int x)
  | _ => ("?", 0))
def coinsOf (j : Json) (k : String) : Coins := coins (get j k)

/-- sdk JSON coins `[{"denom":..,"amount":..}]` -/
def sdkCoins (j : Json) : Coins := (arr j).map (fun e => (strOf e "denom", intOf e "amount"))

/-- a `sdk.Dec` string "12.340000000000000000" as the integer 12.34 * 10^18 -/
def decRaw (s : String) : Int :=
  let neg := s.startsWith "-"
  let s := if neg then (s.drop 1).toString else s
  match s.splitOn "." with
  | [a] => let v : Int := (a.toNat?.getD 0) * (10 ^ 18 : Nat); if neg then -v else v
  | [a, b] =>
    let b18 := (b ++ "000000000000000000").take 18 |>.toString
    let v : Int := (a.toNat?.getD 0) * (10 ^ 18 : Nat) + (b18.toNat?.getD 0)
    if neg then -v else v
  | _ => 0

end Shentu.J
