/-
  Coins as posting lists.

  `sdk.Coins` is a sorted list of (denom, amount) without zeros.  The model keeps
  coins as an *unnormalised* list of signed entries; the meaning of a value is the
  function `amountOf c : Denom → Int`.  Addition is concatenation and subtraction
  is concatenation with the negation, so every algebraic law is a one-line `simp`
  over `amountOf`.  `canon` gives the sorted, zero-free list that the SDK stores;
  it is what gets compared with the implementation and what `Collateral[0]` reads.
-/
namespace Shentu

abbrev Denom := String
abbrev Coins := List (Denom × Int)

namespace Coins

def amountOf (c : Coins) (d : Denom) : Int :=
  ((c.filter (fun e => e.1 == d)).map (·.2)).sum

def zero : Coins := []
def add (a b : Coins) : Coins := a ++ b
def neg (a : Coins) : Coins := a.map (fun e => (e.1, - e.2))
def sub (a b : Coins) : Coins := a ++ neg b
def single (d : Denom) (x : Int) : Coins := [(d, x)]

@[simp] theorem amountOf_nil (d : Denom) : amountOf [] d = 0 := rfl
@[simp] theorem amountOf_zero (d : Denom) : amountOf zero d = 0 := rfl

@[simp] theorem amountOf_cons (e : Denom × Int) (c : Coins) (d : Denom) :
    amountOf (e :: c) d = (if e.1 == d then e.2 else 0) + amountOf c d := by
  unfold amountOf
  by_cases h : e.1 == d <;> simp [h]

@[simp] theorem amountOf_append (a b : Coins) (d : Denom) :
    amountOf (a ++ b) d = amountOf a d + amountOf b d := by
  induction a with
  | nil => simp
  | cons e a ih => simp [ih, Int.add_assoc]

@[simp] theorem amountOf_add (a b : Coins) (d : Denom) :
    amountOf (add a b) d = amountOf a d + amountOf b d := by simp [add]

@[simp] theorem amountOf_neg (a : Coins) (d : Denom) : amountOf (neg a) d = - amountOf a d := by
  induction a with
  | nil => simp [neg]
  | cons e a ih =>
    have : neg (e :: a) = (e.1, -e.2) :: neg a := rfl
    rw [this]; simp only [amountOf_cons, ih]
    by_cases h : e.1 == d <;> simp [h] <;> omega

@[simp] theorem amountOf_sub (a b : Coins) (d : Denom) :
    amountOf (sub a b) d = amountOf a d - amountOf b d := by simp [sub]; omega

@[simp] theorem amountOf_single (d d' : Denom) (x : Int) :
    amountOf (single d x) d' = if d == d' then x else 0 := by simp [single]

/-- denominations mentioned (with duplicates removed) -/
def denoms (c : Coins) : List Denom := (c.map (·.1)).eraseDups

/-- insertion sort on strings, enough for a handful of denominations -/
def insertSorted (d : Denom) : List Denom → List Denom
  | [] => [d]
  | x :: xs => if d < x then d :: x :: xs else if d == x then x :: xs else x :: insertSorted d xs

def sortDenoms (ds : List Denom) : List Denom := ds.foldr insertSorted []

/-- the sorted, zero-free form the SDK stores -/
def canon (c : Coins) : Coins :=
  (sortDenoms (denoms c)).filterMap (fun d => let x := amountOf c d; if x == 0 then none else some (d, x))

def beq (a b : Coins) : Bool := canon a == canon b

/-- `sdk.Coins.IsAnyNegative` on the (possibly unnormalised) value -/
def isAnyNegative (c : Coins) : Bool := (denoms c).any (fun d => amountOf c d < 0)
/-- every listed denomination strictly positive and at least one entry: `IsAllPositive` on a valid list -/
def isAllPositive (c : Coins) : Bool := !(canon c).isEmpty && (denoms c).all (fun d => amountOf c d > 0)
def isZero (c : Coins) : Bool := (canon c).isEmpty
/-- a ≥ b in every denomination of b (and b's entries positive): what `SubtractCoins` needs -/
def covers (a b : Coins) : Bool := (denoms b).all (fun d => amountOf a d ≥ amountOf b d)

def toStr (c : Coins) : String :=
  String.intercalate "," ((canon c).map (fun e => toString e.2 ++ e.1))

end Coins
end Shentu
