/-
  sdk.Dec (cosmos-sdk 0.42.4): an integer scaled by 10^18.
  `mul` and `quo` round half to even (`chopPrecisionAndRound`), `quoInt` and
  `truncateInt` truncate toward zero, `mulInt` is exact.
-/
namespace Shentu

structure Dec where
  raw : Int
  deriving DecidableEq, Repr, Inhabited

namespace Dec

def prec : Int := 1000000000000000000
def half : Int := 500000000000000000

def zero : Dec := ⟨0⟩
def one : Dec := ⟨prec⟩
def ofInt (i : Int) : Dec := ⟨i * prec⟩

/-- `chopPrecisionAndRound` on a non-negative value -/
def chopRoundNonneg (d : Int) : Int :=
  let q := Int.tdiv d prec
  let r := Int.tmod d prec
  if r == 0 then q
  else if r < half then q
  else if r > half then q + 1
  else if Int.tmod q 2 == 0 then q else q + 1

def chopRound (d : Int) : Int := if d < 0 then - chopRoundNonneg (-d) else chopRoundNonneg d

def add (a b : Dec) : Dec := ⟨a.raw + b.raw⟩
def sub (a b : Dec) : Dec := ⟨a.raw - b.raw⟩
def mul (a b : Dec) : Dec := ⟨chopRound (a.raw * b.raw)⟩
/-- `Quo`: (a·10^36) truncated-divided by b, then rounded back to 18 digits; division by zero panics in Go -/
def quo (a b : Dec) : Dec := ⟨chopRound (Int.tdiv (a.raw * prec * prec) b.raw)⟩
/-- `chopPrecisionAndRoundUp` on a non-negative value -/
def chopRoundUpNonneg (d : Int) : Int :=
  if Int.tmod d prec == 0 then Int.tdiv d prec else Int.tdiv d prec + 1
/-- `chopPrecisionAndRoundUp`: up for positive values, truncation for negative ones -/
def chopRoundUp (d : Int) : Int := if d < 0 then - Int.tdiv (-d) prec else chopRoundUpNonneg d
/-- `QuoRoundUp`: (a·10^36) truncated-divided by b, then rounded up to 18 digits -/
def quoRoundUp (a b : Dec) : Dec := ⟨chopRoundUp (Int.tdiv (a.raw * prec * prec) b.raw)⟩
def mulInt (a : Dec) (i : Int) : Dec := ⟨a.raw * i⟩
def quoInt (a : Dec) (i : Int) : Dec := ⟨Int.tdiv a.raw i⟩
def truncateInt (a : Dec) : Int := Int.tdiv a.raw prec
/-- `MulTruncate` -/
def mulTruncate (a b : Dec) : Dec := ⟨Int.tdiv (a.raw * b.raw) prec⟩
def quoTruncate (a b : Dec) : Dec := ⟨Int.tdiv (Int.tdiv (a.raw * prec * prec) b.raw) prec⟩
def roundInt (a : Dec) : Int := chopRound a.raw

def lt (a b : Dec) : Bool := a.raw < b.raw
def le (a b : Dec) : Bool := a.raw ≤ b.raw
def beq (a b : Dec) : Bool := a.raw == b.raw
def isZero (a : Dec) : Bool := a.raw == 0
def isPositive (a : Dec) : Bool := a.raw > 0
def isNegative (a : Dec) : Bool := a.raw < 0

/-- render like sdk.Dec.String(): 18 fractional digits -/
def toStr (a : Dec) : String :=
  let neg := a.raw < 0
  let m := a.raw.natAbs
  let ip := m / 1000000000000000000
  let fp := m % 1000000000000000000
  let fs := toString fp
  let pad := String.ofList (List.replicate (18 - fs.length) '0')
  (if neg then "-" else "") ++ toString ip ++ "." ++ pad ++ fs

end Dec
end Shentu
