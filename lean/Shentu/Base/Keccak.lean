/-
  Keccak-256 (the pre-NIST padding 0x01 … 0x80 that Ethereum uses), executable, core Lean only.
  State = 25 lanes of UInt64.  Validated against golang.org/x/crypto/sha3 by Drivers/VmDriver
  (`khash` lines of the harness).  No theorem depends on this file.
-/
namespace Shentu.Keccak

def rc : Array UInt64 := #[
  0x0000000000000001, 0x0000000000008082, 0x800000000000808a, 0x8000000080008000,
  0x000000000000808b, 0x0000000080000001, 0x8000000080008081, 0x8000000000008009,
  0x000000000000008a, 0x0000000000000088, 0x0000000080008009, 0x000000008000000a,
  0x000000008000808b, 0x800000000000008b, 0x8000000000008089, 0x8000000000008003,
  0x8000000000008002, 0x8000000000000080, 0x000000000000800a, 0x800000008000000a,
  0x8000000080008081, 0x8000000000008080, 0x0000000080000001, 0x8000000080008008]

def rotc : Array UInt64 := #[1, 3, 6, 10, 15, 21, 28, 36, 45, 55, 2, 14, 27, 41, 56, 8, 25, 43, 62, 18, 39, 61, 20, 44]
def piln : Array Nat := #[10, 7, 11, 17, 18, 3, 5, 16, 8, 21, 24, 4, 15, 23, 19, 13, 12, 2, 20, 14, 22, 9, 6, 1]

@[inline] def rotl (x : UInt64) (n : UInt64) : UInt64 := (x <<< n) ||| (x >>> (64 - n))

def keccakF (a0 : Array UInt64) : Array UInt64 := Id.run do
  let mut a := a0
  for round in [0:24] do
    -- theta
    let mut bc : Array UInt64 := Array.replicate 5 0
    for x in [0:5] do
      bc := bc.set! x (a[x]! ^^^ a[x+5]! ^^^ a[x+10]! ^^^ a[x+15]! ^^^ a[x+20]!)
    for x in [0:5] do
      let t := bc[(x + 4) % 5]! ^^^ rotl bc[(x + 1) % 5]! 1
      for y in [0:5] do
        a := a.set! (5 * y + x) (a[5 * y + x]! ^^^ t)
    -- rho, pi
    let mut t := a[1]!
    for i in [0:24] do
      let j := piln[i]!
      let b := a[j]!
      a := a.set! j (rotl t rotc[i]!)
      t := b
    -- chi
    for y in [0:5] do
      for x in [0:5] do
        bc := bc.set! x a[5 * y + x]!
      for x in [0:5] do
        a := a.set! (5 * y + x) (bc[x]! ^^^ ((~~~ bc[(x + 1) % 5]!) &&& bc[(x + 2) % 5]!))
    -- iota
    a := a.set! 0 (a[0]! ^^^ rc[round]!)
  return a

def rate : Nat := 136

/-- little-endian lane `i` of the block starting at `off` -/
@[inline] def lane (b : ByteArray) (off i : Nat) : UInt64 := Id.run do
  let mut v : UInt64 := 0
  for k in [0:8] do
    v := v ||| ((b.get! (off + 8 * i + k)).toUInt64 <<< (8 * k).toUInt64)
  return v

def pad (msg : ByteArray) : ByteArray := Id.run do
  let padLen := rate - msg.size % rate
  let mut m := msg
  for i in [0:padLen] do
    let b : UInt8 := (if i == 0 then 0x01 else 0) ||| (if i == padLen - 1 then 0x80 else 0)
    m := m.push b
  return m

def keccak256 (msg : ByteArray) : ByteArray := Id.run do
  let m := pad msg
  let mut a : Array UInt64 := Array.replicate 25 0
  for blk in [0:m.size / rate] do
    for i in [0:17] do
      a := a.set! i (a[i]! ^^^ lane m (blk * rate) i)
    a := keccakF a
  let mut out := ByteArray.emptyWithCapacity 32
  for i in [0:4] do
    for k in [0:8] do
      out := out.push ((a[i]! >>> (8 * k).toUInt64).toUInt8)
  return out

end Shentu.Keccak
