import Shentu.Model.Bank
import Shentu.Gen.Oracle
/-
  Executable model of x/oracle (keeper/operator.go, withdraw.go, pool.go, task.go,
  msg_server.go, abci.go).  One function per keeper entry point; a Go `panic` is
  `panicE`; loops are folds over the stored records.  The bank is the posting
  ledger of `Model/Bank.lean`.
-/
namespace Shentu.Oracle

structure Operator where
  addr : Addr
  proposer : Addr
  coll : Coins
  rew : Coins
  deriving Inhabited

structure Withdraw where
  addr : Addr
  amt : Coins
  due : Int
  deriving Inhabited

structure Response where
  op : Addr
  score : Int
  weight : Int
  reward : Coins
  deriving Inhabited

structure Task where
  contract : String
  function : String
  begin : Int
  bounty : Coins
  expiration : Int
  creator : Addr
  responses : List Response
  result : Int
  closing : Int
  waiting : Int
  status : Nat            -- 1 pending, 2 succeeded, 3 failed
  deriving Inhabited

structure Params where
  lock : Int
  minColl : Int
  window : Int
  aggRes : Int
  threshold : Int
  eps1 : Int
  eps2 : Int
  expDur : Int
  deriving Inhabited

structure State where
  ops : List Operator
  wds : List Withdraw
  total : Coins
  tasks : List Task
  closing : List (Int × List (String × String))
  params : Params
  deriving Inhabited

/-- block context and fixed addresses -/
structure Env where
  h : Int
  t : Int
  bond : Denom
  modAddr : Addr

def Task.key (t : Task) : String := t.contract ++ t.function

def findOp (s : State) (a : Addr) : Option Operator := s.ops.find? (·.addr == a)
def isOp (s : State) (a : Addr) : Bool := (findOp s a).isSome
def setOp (s : State) (o : Operator) : State :=
  if isOp s o.addr then { s with ops := s.ops.map (fun x => if x.addr == o.addr then o else x) }
  else { s with ops := s.ops ++ [o] }
def delOp (s : State) (a : Addr) : State := { s with ops := s.ops.filter (fun x => !(x.addr == a)) }

def findTask (s : State) (key : String) : Option Task := s.tasks.find? (fun t => t.key == key)
def setTask (s : State) (t : Task) : State :=
  if (findTask s t.key).isSome then { s with tasks := s.tasks.map (fun x => if x.key == t.key then t else x) }
  else { s with tasks := s.tasks ++ [t] }
def delTask (s : State) (key : String) : State := { s with tasks := s.tasks.filter (fun x => !(x.key == key)) }

def closingAt (s : State) (h : Int) : List (String × String) :=
  match s.closing.find? (·.1 == h) with
  | some e => e.2
  | none => []
def addClosing (s : State) (h : Int) (id : String × String) : State :=
  if (s.closing.find? (·.1 == h)).isSome then
    { s with closing := s.closing.map (fun e => if e.1 == h then (e.1, e.2 ++ [id]) else e) }
  else { s with closing := s.closing ++ [(h, [id])] }
def delClosing (s : State) (h : Int) : State := { s with closing := s.closing.filter (fun e => !(e.1 == h)) }

def belowMin (e : Env) (s : State) (c : Coins) : Bool := Gen.Oracle.belowMin (Coins.amountOf c e.bond) s.params.minColl

/-- store update at key (due block, address): add to the pending record if there is one, else insert -/
def upsertWd (a : Addr) (due : Int) (amt : Coins) : List Withdraw → List Withdraw
  | [] => [{ addr := a, amt := amt, due := due }]
  | w :: ws => if w.due == due && w.addr == a then { w with amt := Coins.add w.amt amt } :: ws
               else w :: upsertWd a due amt ws

/-- `CreateWithdraw`: keyed by (due block, address); a pending record with the same key is merged -/
def createWithdraw (e : Env) (s : State) (a : Addr) (amt : Coins) : State :=
  { s with wds := upsertWd a (Gen.Oracle.dueBlock e.h s.params.lock) amt s.wds }

/-- `Coins.Sub` panics when the result has a negative entry -/
def subPanics (a b : Coins) : Bool := Coins.isAnyNegative (Coins.sub a b)

def createOperator (e : Env) (l : Ledger) (s : State) (a : Addr) (coll : Coins) (proposer : Addr) :
    Except Err (Ledger × State) :=
  if !Coins.isAllPositive coll then err "basic:oracle:invalid-coins"
  else if isOp s a then err "oracle:operator-exists"
  else if belowMin e s coll then err "oracle:not-enough-collateral"
  else
    let s1 := setOp s { addr := a, proposer := proposer, coll := coll, rew := [] }
    let s2 := { s1 with total := Coins.add s1.total coll }
    match l.send a e.modAddr coll with
    | .error x => .error x
    | .ok l' => .ok (l', s2)

def removeOperator (e : Env) (l : Ledger) (s : State) (a : Addr) : Except Err (Ledger × State) :=
  match findOp s a with
  | none => err "oracle:no-operator"
  | some o =>
    if subPanics s.total o.coll then panicE "oracle:total-collateral-negative"
    else
      let s1 := { s with total := Coins.sub s.total o.coll }
      let s2 := createWithdraw e s1 a o.coll
      match l.send e.modAddr a o.rew with
      | .error x => .error x
      | .ok l' => .ok (l', delOp s2 a)

def addCollateral (e : Env) (l : Ledger) (s : State) (a : Addr) (inc : Coins) : Except Err (Ledger × State) :=
  if !Coins.isAllPositive inc then err "basic:oracle:invalid-coins"
  else match findOp s a with
  | none => err "oracle:no-operator"
  | some o =>
    let s1 := setOp s { o with coll := Coins.add o.coll inc }
    let s2 := { s1 with total := Coins.add s1.total inc }
    match l.send a e.modAddr inc with
    | .error x => .error x
    | .ok l' => .ok (l', s2)

def reduceCollateral (e : Env) (l : Ledger) (s : State) (a : Addr) (dec : Coins) : Except Err (Ledger × State) :=
  if !Coins.isAllPositive dec then err "basic:oracle:invalid-coins"
  else match findOp s a with
  | none => err "oracle:no-operator"
  | some o =>
    if subPanics o.coll dec then panicE "oracle:collateral-negative"
    else
      let c' := Coins.sub o.coll dec
      if belowMin e s c' then err "oracle:not-enough-collateral"
      else if subPanics s.total dec then panicE "oracle:total-collateral-negative"
      else
        let s1 := setOp s { o with coll := c' }
        let s2 := { s1 with total := Coins.sub s1.total dec }
        .ok (l, createWithdraw e s2 a dec)

def withdrawReward (e : Env) (l : Ledger) (s : State) (a : Addr) : Except Err (Ledger × State) :=
  match findOp s a with
  | none => err "oracle:no-operator"
  | some o =>
    match l.send e.modAddr a o.rew with
    | .error x => .error x
    | .ok l' => .ok (l', setOp s { o with rew := [] })

def createTask (e : Env) (l : Ledger) (s : State) (contract function : String) (bounty : Coins)
    (creator : Addr) (wait validNs : Int) : Except Err (Ledger × State) :=
  let window := if Gen.Oracle.waitIsDefault wait then s.params.window else wait
  -- `msg.ValidDuration.Microseconds() == 0`
  let expiration := if Gen.Oracle.validIsDefault validNs then e.t + s.params.expDur else e.t + validNs
  let key := contract ++ function
  let pre : Except Err State :=
    match findTask s key with
    | some t => if Gen.Oracle.ctNotClosed t.closing e.h then err "oracle:task-not-closed" else .ok (delTask s key)
    | none => .ok s
  match (if Gen.Oracle.ctBadWait window then err "oracle:invalid-wait" else pre) with
  | .error x => .error x
  | .ok s0 =>
    let closing := Gen.Oracle.ctClosingBlock e.h window
    let t : Task := { contract := contract, function := function, begin := e.h, bounty := bounty, expiration := expiration,
                      creator := creator, responses := [], result := 0, closing := closing, waiting := window, status := 1 }
    let s1 := addClosing (setTask s0 t) closing (contract, function)
    match l.send creator e.modAddr bounty with
    | .error x => .error x
    | .ok l' => .ok (l', s1)

def respond (e : Env) (s : State) (contract function : String) (score : Int) (op : Addr) : Except Err State :=
  if !isOp s op then err "oracle:unqualified-operator"
  else match findTask s (contract ++ function) with
  | none => err "oracle:no-task"
  | some t =>
    if Gen.Oracle.respClosed e.h t.closing then err "oracle:task-closed"
    else if t.responses.any (·.op == op) then err "oracle:duplicate-response"
    else if Gen.Oracle.badScore score then err "oracle:invalid-score"
    else .ok (setTask s { t with responses := t.responses ++ [{ op := op, score := score, weight := 0, reward := [] }] })

def deleteTask (e : Env) (s : State) (contract function : String) (force : Bool) (deleter : Addr) : Except Err State :=
  match findTask s (contract ++ function) with
  | none => err "oracle:no-task"
  | some t =>
    if Gen.Oracle.rmNotExpired force t.expiration e.t then err "oracle:not-expired"
    else if Gen.Oracle.rmNotFinished e.h t.closing then err "oracle:not-finished"
    else if Gen.Oracle.rmNotCreator t.creator deleter then err "oracle:not-creator"
    else .ok (delTask s (contract ++ function))

/-- `GetCollateralAmount`: the operator's collateral in the bond denomination. `none` = not an operator. -/
def collateralAmount (bond : Denom) (s : State) (a : Addr) : Except Err (Option Int) :=
  match findOp s a with
  | none => .ok none
  | some o => .ok (some (Gen.Oracle.collWeight (Coins.amountOf o.coll bond)))

structure Agg where
  result : Int
  total : Int
  minC : Int
  rs : List Response

def aggFold (bond : Denom) (s : State) : List Response → Agg → Except Err Agg
  | [], a => .ok a
  | r :: rest, a =>
    match collateralAmount bond s r.op with
    | .error x => .error x
    | .ok none => aggFold bond s rest { a with rs := a.rs ++ [r] }
    | .ok (some amt) =>
      let a' : Agg :=
        { result := Gen.Oracle.aggAccum a.result r.score amt, total := a.total + amt,
          minC := if Gen.Oracle.aggIsMinScore r.score then a.minC + amt else a.minC,
          rs := a.rs ++ [{ r with weight := amt }] }
      aggFold bond s rest a'

def aggregate (bond : Denom) (s : State) (key : String) : Except Err State :=
  match findTask s key with
  | none => err "oracle:no-task"
  | some t =>
    if Gen.Oracle.aggPending t.status then err "oracle:task-closed"
    else match aggFold bond s t.responses { result := Gen.Oracle.aggInit s.params.aggRes, total := 0, minC := 0, rs := [] } with
    | .error x => .error x
    | .ok a =>
      if Gen.Oracle.aggHasCollateral a.total then
        if Gen.Oracle.aggMinRegime a.minC a.total then
          .ok (setTask s { t with responses := a.rs.map (fun r => if r.score == Gen.Oracle.minScore then r else { r with weight := 0 }),
                                  result := Gen.Oracle.aggMinResult a.minC, status := 2 })
        else .ok (setTask s { t with responses := a.rs, result := Gen.Oracle.aggMean a.result a.total, status := 2 })
      else .ok (setTask s { t with responses := a.rs, result := Gen.Oracle.aggFailResult s.params.aggRes, status := 3 })


/-- which branch of TotalValidTaskCollateral / DistributeBounty applies: 0 min-score, 1 below threshold, 2 otherwise -/
def branch (s : State) (t : Task) : Nat :=
  if Gen.Oracle.tvBranchMin t.result then 0 else if Gen.Oracle.tvBranchLow t.result s.params.threshold then 1 else 2

def eligible (s : State) (b : Nat) (r : Response) : Bool :=
  match b with
  | 0 => Gen.Oracle.tvEligMin r.score
  | 1 => Gen.Oracle.tvEligLow r.score s.params.threshold
  | _ => Gen.Oracle.tvEligHigh r.score s.params.threshold

/-- the weight of an eligible response (`none`: responder is no longer an operator); sdk.Int.Quo panics on zero -/
def respWeight (bond : Denom) (s : State) (b : Nat) (r : Response) : Except Err (Option Int) :=
  match collateralAmount bond s r.op with
  | .error x => .error x
  | .ok none => .ok none
  | .ok (some c) =>
    match b with
    | 0 => .ok (some (Gen.Oracle.tvWeightMin c))
    | 1 => if r.score + s.params.eps1 == 0 then panicE "oracle:quo-zero-eps1"
           else .ok (some (Gen.Oracle.tvWeightLow c r.score s.params.eps1))
    | _ => if 100 - r.score + s.params.eps2 == 0 then panicE "oracle:quo-zero-eps2"
           else .ok (some (Gen.Oracle.tvWeightHigh c r.score s.params.eps2))

def totalValid (bond : Denom) (s : State) (b : Nat) : List Response → Int → Except Err Int
  | [], acc => .ok acc
  | r :: rest, acc =>
    if eligible s b r then
      match respWeight bond s b r with
      | .error x => .error x
      | .ok none => totalValid bond s b rest acc
      | .ok (some w) => totalValid bond s b rest (acc + w)
    else totalValid bond s b rest acc

/-- branch selection and eligibility as written in DistributeBounty (a second copy in the source) -/
def branchDB (s : State) (t : Task) : Nat :=
  if Gen.Oracle.dbBranchMin t.result then 0 else if Gen.Oracle.dbBranchLow t.result s.params.threshold then 1 else 2

def eligibleDB (s : State) (b : Nat) (r : Response) : Bool :=
  match b with
  | 0 => Gen.Oracle.dbEligMin r.score
  | 1 => Gen.Oracle.dbEligLow r.score s.params.threshold
  | _ => Gen.Oracle.dbEligHigh r.score s.params.threshold

/-- the reward of one eligible responder for one bounty coin -/
def payAmount (bond : Denom) (s : State) (b : Nat) (amount tv : Int) (r : Response) : Except Err (Option Int) :=
  match collateralAmount bond s r.op with
  | .error x => .error x
  | .ok none => .ok none
  | .ok (some c) =>
    match b with
    | 0 => .ok (some (Gen.Oracle.dbAmountMin amount c tv))
    | 1 => if r.score + s.params.eps1 == 0 then panicE "oracle:quo-zero-eps1"
           else .ok (some (Gen.Oracle.dbAmountLow amount c r.score s.params.eps1 tv))
    | _ => if 100 - r.score + s.params.eps2 == 0 then panicE "oracle:quo-zero-eps2"
           else .ok (some (Gen.Oracle.dbAmountHigh amount c r.score s.params.eps2 tv))

/-- one bounty coin over the responses; returns updated state (rewards credited) and responses -/
def payCoin (bond : Denom) (b : Nat) (denom : Denom) (amount tv : Int) :
    State → List Response → List Response → Except Err (State × List Response)
  | s, [], done => .ok (s, done)
  | s, r :: rest, done =>
    if eligibleDB s b r then
      match payAmount bond s b amount tv r with
      | .error x => .error x
      | .ok none => payCoin bond b denom amount tv s rest (done ++ [r])
      | .ok (some amt) =>
        if amt < 0 then panicE "oracle:negative-coin"
        else
          let reward : Coins := if amt == 0 then [] else [(denom, amt)]
          match findOp s r.op with
          | none => payCoin bond b denom amount tv s rest (done ++ [r])
          | some o =>
            let s' := setOp s { o with rew := Coins.add o.rew reward }
            payCoin bond b denom amount tv s' rest (done ++ [{ r with reward := reward }])
    else payCoin bond b denom amount tv s rest (done ++ [r])

def payAll (bond : Denom) (b : Nat) (tv : Int) : List (Denom × Int) → State → List Response → Except Err (State × List Response)
  | [], s, rs => .ok (s, rs)
  | c :: cs, s, rs =>
    match payCoin bond b c.1 c.2 tv s rs [] with
    | .error x => .error x
    | .ok (s', rs') => payAll bond b tv cs s' rs'

def distributeBounty (bond : Denom) (s : State) (t : Task) : Except Err State :=
  match totalValid bond s (branch s t) t.responses 0 with
  | .error x => .error x
  | .ok tv =>
    if Gen.Oracle.dbNoValid tv then err "oracle:task-failed"
    else match payAll bond (branchDB s t) tv (Coins.canon t.bounty) s t.responses with
    | .error x => .error x
    | .ok (s', rs) => .ok (setTask s' { t with responses := rs })

/-- a non-panic error is `continue` in the end-blocker; a panic halts the chain -/
def endOne (bond : Denom) (s : State) (id : String × String) : Except Err State :=
  let key := id.1 ++ id.2
  match aggregate bond s key with
  | .error x => if x.isPanic then .error x else .ok s
  | .ok s1 =>
    match findTask s1 key with
    | none => .ok s1
    | some t =>
      match distributeBounty bond s1 t with
      | .error x => if x.isPanic then .error x else .ok s1
      | .ok s2 => .ok s2

def endFold (bond : Denom) : List (String × String) → State → Except Err State
  | [], s => .ok s
  | id :: ids, s => match endOne bond s id with
    | .error x => .error x
    | .ok s' => endFold bond ids s'

def endBlock (e : Env) (s : State) : Except Err State :=
  match endFold e.bond (closingAt s e.h) s with
  | .error x => .error x
  | .ok s' => .ok (delClosing s' e.h)

/-- maturity test of `IterateMatureWithdraws` -/
def mature (h : Int) (w : Withdraw) : Bool := !(Gen.Oracle.matureSkip w.due h)

def payWithdraws (e : Env) : List Withdraw → Ledger → Except Err Ledger
  | [], l => .ok l
  | w :: ws, l =>
    match l.send e.modAddr w.addr w.amt with
    | .error _ => panicE "oracle:FinalizeMatureWithdraws-send"
    | .ok l' => payWithdraws e ws l'

def beginBlock (e : Env) (l : Ledger) (s : State) : Except Err (Ledger × State) :=
  match payWithdraws e (s.wds.filter (mature e.h)) l with
  | .error x => .error x
  | .ok l' => .ok (l', { s with wds := s.wds.filter (fun w => !(mature e.h w)) })

end Shentu.Oracle

namespace Shentu.Oracle

/-! ### The oracle module as a state machine over operations -/

inductive Op
  | createOperator (a : Addr) (coll : Coins) (proposer : Addr)
  | removeOperator (a : Addr)
  | addCollateral (a : Addr) (inc : Coins)
  | reduceCollateral (a : Addr) (dec : Coins)
  | withdrawReward (a : Addr)
  | createTask (contract function : String) (bounty : Coins) (creator : Addr) (wait validNs : Int)
  | respond (contract function : String) (score : Int) (op : Addr)
  | deleteTask (contract function : String) (force : Bool) (deleter : Addr)
  | beginBlock
  | endBlock

def stepE (e : Env) (l : Ledger) (s : State) : Op → Except Err (Ledger × State)
  | .createOperator a c p => createOperator e l s a c p
  | .removeOperator a => removeOperator e l s a
  | .addCollateral a c => addCollateral e l s a c
  | .reduceCollateral a c => reduceCollateral e l s a c
  | .withdrawReward a => withdrawReward e l s a
  | .createTask c f b cr w v => createTask e l s c f b cr w v
  | .respond c f sc o => (respond e s c f sc o).map (fun s' => (l, s'))
  | .deleteTask c f fo d => (deleteTask e s c f fo d).map (fun s' => (l, s'))
  | .beginBlock => beginBlock e l s
  | .endBlock => (endBlock e s).map (fun s' => (l, s'))

/-- a failed transaction leaves the state unchanged (the SDK runs messages on a cache) -/
def step (e : Env) (ls : Ledger × State) (op : Op) : Ledger × State :=
  match stepE e ls.1 ls.2 op with
  | .ok r => r
  | .error _ => ls

/-- an operator's claim on the module account: collateral plus pending withdrawals -/
def collAmt (s : State) (a : Addr) (d : Denom) : Int :=
  Coins.amountOf (((findOp s a).map (·.coll)).getD []) d
def pendList (l : List Withdraw) (a : Addr) (d : Denom) : Int :=
  ((l.filter (fun w => w.addr == a)).map (fun w => Coins.amountOf w.amt d)).sum
def pendAmt (s : State) (a : Addr) (d : Denom) : Int := pendList s.wds a d
def held (s : State) (a : Addr) (d : Denom) : Int := collAmt s a d + pendAmt s a d

end Shentu.Oracle
