import Shentu.Model.Vesting
import Shentu.EVM.Impl
/-
  The CVM message path (x/cvm/keeper/keeper.go `Tx`) at chain level, running the REAL interpreter model (`EVM.execTop`)
  instead of a library of known programs (`Shentu/Model/Cvm.lean`).

  The chain state is the bank ledger (`Ledger`), the vesting records and a `Store`: the accounts the auth module knows
  together with what x/cvm keeps for them (code, storage, contract metadata).  A store entry is an `EVM.Account` whose
  `balance` field is NOT read: balances live in the bank (`State.GetAccount` reads the bond-denomination balance, as a
  uint64).  One transaction:

   1. spendable check of the value (bank `SpendableCoins` of the bond denomination: `Vesting.canSpend`);
   2. `loadWorld`: the interpreter's cache is filled from the store, every account with its bond balance;
      for a deployment the new account is created first (`engine.CreateAccount`: an error if it exists);
   3. `execTop` on the callee's code (or on the init code), with the value transfer as the frame's first act;
   4. any error, Go panic or "outside the model" status of the interpreter: the transaction fails and NOTHING is written;
   5. for a deployment the returned code is stored in the new account (`engine.InitEVMCode`);
   6. `cache.Sync` = write-back: every account of the pre-state or of the final cache gets its bond balance set to its
      balance in the final cache (`State.UpdateAccount` → `SetBalance` of the bond denomination only); an account that is no
      longer in the final cache has been destroyed and is set to zero (`State.RemoveAccount`).  `SetBalance` is modelled as
      one posting of the difference, so that `Ledger.total` follows.  A write-back that would RAISE the balance of a
      blocked (module) address fails the whole transaction (`UpdateAccount`'s refusal).

  Left out: the gas fee (charged to the SDK gas meter, not to the ledger), eWASM, view calls, the code-size limit and the
  metadata update of a top-level deployment, the native contracts (addresses ≤ 0xff are outside the interpreter model).
  Burrow's `Sync` writes only the accounts whose `updated` flag is set; writing an unchanged account sets its balance to the
  value it has, so writing all of them is the same ledger.
-/
namespace Shentu.CvmTx
open Shentu Shentu.EVM

/-- the auth accounts with what x/cvm stores for them; `balance` is not read -/
abbrev Store := EVM.World

structure Cfg where
  bond : Denom
  /-- how a VM address (a number) is written as a bank address -/
  nm : Nat → Addr
  /-- bank `BlockedAddr`: the module accounts -/
  blocked : Addr → Bool := fun _ => false

/-- the rendering of addresses loses nothing -/
def Cfg.Inj (c : Cfg) : Prop := ∀ a b : Nat, c.nm a = c.nm b → a = b

/-- `State.GetAccount` for every account: the VM sees the bond-denomination balance (as a natural number; `WF.fits`
    says that it is below 2^64) -/
def loadWorld (c : Cfg) (l : Ledger) (st : Store) : World :=
  st.map (fun a => { a with balance := (l.balOf (c.nm a.addr) c.bond).toNat })

/-- balance of an address in a cache (0 if absent) -/
def cacheBal (w : World) (x : Nat) : Nat := ((w.get x).map (·.balance)).getD 0

/-- the addresses the write-back visits: every account of the pre-state, then the accounts that are new in the final cache -/
def touched (st : Store) (w : World) : List Nat :=
  st.map (·.addr) ++ (w.filter (fun a => (st.get a.addr).isNone)).map (·.addr)

/-- `SetBalance(addr, bond, v)` for a list of (address, new balance): one posting of the difference each -/
def setBalances (bond : Denom) (l : Ledger) : List (Addr × Int) → Ledger
  | [] => l
  | (a, v) :: rest => setBalances bond (l.credit a [(bond, v - l.balOf a bond)]) rest

def updates (c : Cfg) (st : Store) (w : World) : List (Addr × Int) :=
  (touched st w).map (fun x => (c.nm x, (cacheBal w x : Int)))

/-- `cache.Sync`, the ledger side: the bond balance of every visited address becomes its balance in the final cache
    (zero for an account that is no longer there: it was destroyed) -/
def writeBack (c : Cfg) (l : Ledger) (st : Store) (w : World) : Ledger := setBalances c.bond l (updates c st w)

/-- `cache.Sync`, the store side: code, storage and metadata of the final cache; a destroyed account keeps its (empty)
    auth account -/
def storeAfter (st : Store) (w : World) : Store :=
  (touched st w).map (fun x => match w.get x with
    | some a => { a with balance := 0 }
    | none => { addr := x })

/-- `UpdateAccount`'s refusal: some blocked address would end with more than the bank holds for it -/
def blockedRaise (c : Cfg) (l : Ledger) (st : Store) (w : World) : Bool :=
  (touched st w).any (fun x => c.blocked (c.nm x) && decide ((cacheBal w x : Int) > l.balOf (c.nm x) c.bond))

structure Msg where
  caller : Nat
  /-- the contract called; for a deployment the address derived for the new contract -/
  callee : Nat
  value : Nat
  data : ByteArray := .empty
  gas : Nat
  deploy : Bool := false
  height : Nat := 1
  time : Nat := 0
  chainId : Nat := 0
  /-- the address derivation of CREATE (an input of the interpreter model) -/
  fresh : Nat → Nat → Nat := fun _ _ => 0
  depth : Nat := 8

/-- the code the outermost frame runs -/
def codeOf (st : Store) (m : Msg) : ByteArray :=
  if m.deploy then m.data else ((st.get m.callee).map (·.code)).getD .empty

def envOf (st : Store) (m : Msg) : Env :=
  { code := codeOf st m, opBits := opcodeBits (codeOf st m), input := if m.deploy then .empty else m.data,
    caller := m.caller, callee := m.callee, origin := m.caller, value := m.value, height := m.height, time := m.time,
    chainId := m.chainId, fresh := m.fresh }

/-- the accounts before the execution: for a deployment the new account exists already -/
def preStore (st : Store) (m : Msg) : Store := if m.deploy then { addr := m.callee } :: st else st

/-- the interpreter's result for this message -/
def vmRun (c : Cfg) (l : Ledger) (st : Store) (m : Msg) : CallRes :=
  execTop (envOf st m) m.gas (loadWorld c l (preStore st m)) m.depth

/-- `engine.InitEVMCode` after a deployment: the returned bytes become the new account's code -/
def installCode (m : Msg) (r : CallRes) : Option World :=
  if m.deploy then
    match r.world.get m.callee with
    | some acc => some (r.world.put { acc with code := r.ret })
    | none => none
  else some r.world

/-- the spendable check of `Tx` -/
def spendCheck (c : Cfg) (l : Ledger) (vs : Vesting.Accounts) (m : Msg) : Except Shentu.Err Unit :=
  if m.value > 0 then Vesting.canSpend l vs (c.nm m.caller) [(c.bond, (m.value : Int))] else .ok ()

/-- `Keeper.Tx` -/
def tx (c : Cfg) (l : Ledger) (vs : Vesting.Accounts) (st : Store) (m : Msg) : Except Shentu.Err (Ledger × Store) :=
  match spendCheck c l vs m with
  | .error x => .error x
  | .ok _ =>
    if m.deploy && (st.get m.callee).isSome then err "cvm:DuplicateAddress"
    else if !m.deploy && (codeOf st m).size == 0 && m.data.size != 0 then err "cvm:CodeOutOfBounds"
    else
      let r := vmRun c l st m
      if r.status != 0 then err "cvm:vm-status"
      else match r.err with
      | some e => err ("cvm:" ++ e.name)
      | none =>
        match installCode m r with
        | none => err "cvm:init-code"
        | some w =>
          if blockedRaise c l (preStore st m) w then err "cvm:blocked-recipient"
          else .ok (writeBack c l (preStore st m) w, storeAfter (preStore st m) w)

/-- the transaction as the chain applies it: a failed transaction leaves the state it found -/
def deliver (c : Cfg) (l : Ledger) (vs : Vesting.Accounts) (st : Store) (m : Msg) : (Ledger × Store) × Option Shentu.Err :=
  match tx c l vs st m with
  | .ok r => (r, none)
  | .error e => ((l, st), some e)

end Shentu.CvmTx
