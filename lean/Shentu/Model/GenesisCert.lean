import Shentu.Model.Cert
/-
  Genesis export and import of x/cert (`x/cert/genesis.go`), on the model state `Cert.State`.

  `ExportGenesis` reads the primary records: the certifier store, the platform store, the certificate
  store and the certificate counter.  The alias store is NOT exported.  `InitGenesis` writes the records
  back one by one, in the order of the Go function, and the alias store is rebuilt as a side effect of
  `SetCertifier`.  Libraries (`data.Libraries`, `SetLibrary`) are not part of the model `Cert.State`,
  so they have no field here.

  The model keeps each store as a list (in insertion order).  A `store.Set` is an "overwrite the record
  with the same key, else append" on that list: `upsertBy`.
-/
namespace Shentu.Genesis.Cert
open Shentu Shentu.Cert

/-- the fields of the Go `GenesisState`, in Go order (without `Libraries`, which the model does not have) -/
structure Genesis where
  certifiers : List Certifier
  platforms : List (String × String)
  certificates : List Certificate
  nextCertificateId : Nat
  deriving Inhabited, DecidableEq

/-- `ExportGenesis`: field by field; the alias index is not exported -/
def exportGenesis (s : Cert.State) : Genesis :=
  { certifiers := s.certifiers
    platforms := s.platforms
    certificates := s.certs
    nextCertificateId := s.nextId }

/-- `store.Set(key x, x)` on a list that stands for a store: the record with the same key is overwritten
    in place, otherwise the new record is appended -/
def upsertBy {α κ : Type} [BEq κ] (key : α → κ) (l : List α) (x : α) : List α :=
  if l.any (fun y => key y == key x) then l.map (fun y => if key y == key x then x else y) else l ++ [x]

/-- the state of a fresh chain before `InitGenesis` -/
def empty : Cert.State := { certifiers := [], aliasIdx := [], certs := [], nextId := 0, platforms := [] }

/-- `SetCertifier`: `store.Set` by address; and, when the alias is not empty, `store.Set` by alias -/
def setCertifier (s : Cert.State) (c : Certifier) : Cert.State :=
  { s with certifiers := upsertBy (·.addr) s.certifiers c
           aliasIdx := if c.alias != "" then upsertBy (·.1) s.aliasIdx (c.alias, c.addr) else s.aliasIdx }

/-- `_ = k.CertifyPlatform(ctx, certifierAddr, pk, platform.Description)`: the model's own function, an error is ignored -/
def importPlatform (signer : Addr) (s : Cert.State) (p : String × String) : Cert.State :=
  match Cert.certifyPlatform s signer p.1 p.2 with
  | .ok s' => s'
  | .error _ => s

/-- `SetCertificate`: `store.Set` by certificate id -/
def setCertificate (s : Cert.State) (c : Certificate) : Cert.State :=
  { s with certs := upsertBy (·.id) s.certs c }

/-- the platform loop of `InitGenesis`: `if len(certifiers) > 0 { for _, platform := range platforms {...} }`,
    signed by the first certifier of the file -/
def importPlatforms (cs : List Certifier) (ps : List (String × String)) (s : Cert.State) : Cert.State :=
  match cs with
  | [] => s
  | c0 :: _ => ps.foldl (importPlatform c0.addr) s

/-- `InitGenesis`, in the order of the Go function: certifiers, platforms, certificates, counter -/
def initGenesis (g : Genesis) : Cert.State :=
  let s1 := g.certifiers.foldl setCertifier empty
  let s2 := importPlatforms g.certifiers g.platforms s1
  let s3 := g.certificates.foldl setCertificate s2
  { s3 with nextId := g.nextCertificateId }

end Shentu.Genesis.Cert

