import Shentu.Model.Bank
/-
  Manual vesting accounts (x/auth/types/vesting_account.go, x/auth/keeper/msg_server.go,
  x/bank/keeper/msg_server.go) and the SDK bank rules they rely on: an amount can be spent
  only if it is covered by the balance minus the locked coins.
-/
namespace Shentu.Vesting

structure MVA where
  addr : Addr
  ov : Coins          -- original vesting: everything ever received by locked send
  vested : Coins      -- unlocked so far
  dv : Coins          -- delegated vesting
  df : Coins          -- delegated free
  unlocker : Addr
  deriving Inhabited

abbrev Accounts := List MVA

def find (vs : Accounts) (a : Addr) : Option MVA := vs.find? (·.addr == a)
def set (vs : Accounts) (m : MVA) : Accounts :=
  if (find vs m.addr).isSome then vs.map (fun x => if x.addr == m.addr then m else x) else vs ++ [m]

/-- coins still vesting, per denomination: original − unlocked -/
def vestingAmt (m : MVA) (d : Denom) : Int := Coins.amountOf m.ov d - Coins.amountOf m.vested d
/-- `LockedCoinsFromVesting`: vesting − min(vesting, delegatedVesting) -/
def lockedAmt (m : MVA) (d : Denom) : Int := vestingAmt m d - min (vestingAmt m d) (Coins.amountOf m.dv d)
def lockedOf (vs : Accounts) (a : Addr) (d : Denom) : Int :=
  match find vs a with
  | some m => lockedAmt m d
  | none => 0

/-- `SubtractCoins`: every coin of the amount must be covered by balance − locked (an uncovered *lock* panics) -/
def canSpend (l : Ledger) (vs : Accounts) (a : Addr) (amt : Coins) : Except Err Unit :=
  if Coins.isAnyNegative amt then err "bank:invalid-coins"
  else if (Coins.denoms amt).any (fun d => l.balOf a d < lockedOf vs a d) then panicE "bank:locked-exceeds-balance"
  else if (Coins.denoms amt).all (fun d => l.balOf a d - lockedOf vs a d ≥ Coins.amountOf amt d) then .ok ()
  else err "bank:insufficient-funds"

def send (l : Ledger) (vs : Accounts) (src dst : Addr) (amt : Coins) : Except Err Ledger :=
  match canSpend l vs src amt with
  | .error x => .error x
  | .ok _ => .ok (l.move src dst amt)

/-- `MsgLockedSend`: the recipient becomes (or is) a manual vesting account; its original vesting grows by the amount -/
def lockedSend (l : Ledger) (vs : Accounts) (isPlainAccount : Addr → Bool) (src dst : Addr) (unlocker : Addr) (amt : Coins) :
    Except Err (Ledger × Accounts) :=
  if !Coins.isAllPositive amt then err "basic:bank:invalid-coins"
  else if unlocker != "" && dst == unlocker then err "bank:recipient-is-unlocker"
  else
    let target : Except Err MVA :=
      match find vs dst with
      | some m => if unlocker != "" then err "bank:cannot-change-unlocker" else .ok m
      | none =>
        if isPlainAccount dst then err "bank:not-a-vesting-account"
        else if unlocker == "" then err "bank:no-unlocker"
        else .ok { addr := dst, ov := [], vested := [], dv := [], df := [], unlocker := unlocker }
    match target with
    | .error x => .error x
    | .ok m =>
      -- AddCoins to the recipient, then SubtractCoins from the sender
      let l1 := l.credit dst amt
      let vs1 := set vs { m with ov := Coins.add m.ov amt }
      match canSpend l1 vs1 src amt with
      | .error x => .error x
      | .ok _ => .ok (l1.debit src amt, vs1)

/-- `IsAnyGT` of the SDK: some denomination of `a` exceeds a *non-zero* amount of `b` -/
def isAnyGT (a b : Coins) : Bool :=
  !(Coins.isZero b) && (Coins.denoms a).any (fun d => Coins.amountOf a d > Coins.amountOf b d && Coins.amountOf b d != 0)
/-- `IsAllGT`: a non-empty `a` strictly exceeds `b` in every denomination of `b` (and b ⊆ a) -/
def isAllGT (a b : Coins) : Bool :=
  if Coins.isZero a then false else if Coins.isZero b then true
  else (Coins.denoms b).all (fun d => Coins.amountOf a d > Coins.amountOf b d) &&
       (Coins.canon b).all (fun e => Coins.amountOf a e.1 != 0)

/-- `MsgUnlock` -/
def unlock (vs : Accounts) (exists_ : Addr → Bool) (issuer account : Addr) (amt : Coins) : Except Err Accounts :=
  if !Coins.isAllPositive amt then err "basic:auth:invalid-coins"
  else if !exists_ account then err "auth:unknown-account"
  else match find vs account with
  | none => err "auth:not-a-vesting-account"
  | some m =>
    if !(issuer == m.unlocker) then err "auth:not-the-unlocker"
    else
      let v' := Coins.add m.vested amt
      if isAnyGT v' m.ov then err "auth:unlock-exceeds-original"
      else if Coins.isAnyNegative (Coins.sub m.ov v') then panicE "auth:vested-exceeds-original"
      else
        let vesting := Coins.sub m.ov v'
        if isAllGT m.dv vesting then
          let excess := Coins.sub m.dv vesting
          .ok (set vs { m with vested := v', dv := Coins.sub m.dv excess, df := Coins.add m.df excess })
        else .ok (set vs { m with vested := v' })

/-- `TrackDelegation` for one denomination -/
def trackDelegation (m : MVA) (d : Denom) (amount : Int) : MVA :=
  let x := min (max (vestingAmt m d - Coins.amountOf m.dv d) 0) amount
  let y := amount - x
  { m with dv := if x == 0 then m.dv else Coins.add m.dv [(d, x)], df := if y == 0 then m.df else Coins.add m.df [(d, y)] }

/-- `DelegateCoins`: the delegated amount must be covered by the *whole* balance (locked coins may be delegated) -/
def delegate (l : Ledger) (vs : Accounts) (del pool : Addr) (d : Denom) (amount : Int) : Except Err (Ledger × Accounts) :=
  if amount ≤ 0 then err "basic:staking:invalid-amount"
  else if l.balOf del d < amount then err "bank:insufficient-funds"
  else
    let vs' := match find vs del with
      | some m => set vs (trackDelegation m d amount)
      | none => vs
    .ok (l.move del pool [(d, amount)], vs')

/-- C19's invariant for one account and denomination: what is locked is still there -/
def LockInv (l : Ledger) (vs : Accounts) : Prop := ∀ m ∈ vs, ∀ d, l.balOf m.addr d ≥ lockedAmt m d
def lockInvB (l : Ledger) (vs : Accounts) : List String :=
  vs.flatMap (fun m => ((Coins.denoms m.ov).filter (fun d => l.balOf m.addr d < lockedAmt m d)).map (fun d =>
    s!"{m.addr}: balance {l.balOf m.addr d}{d} < locked {lockedAmt m d}{d}"))

end Shentu.Vesting
