/-
  The staking module's unbonding delegations and their completion queue, as the shield module manipulates them
  (x/shield/keeper/withdraw.go: getUnbondingsByProviderMaturingByTime, DelayUnbonding;
   x/shield/keeper/proposal.go: GetSortedUnbondingDelegations, PayFromUnbondings and the walk over the unbonding entries in
   MakePayoutByProviderDelegations; x/staking/keeper/keeper.go: RemoveUBDQueue;
   cosmos-sdk v0.42.4 x/staking/keeper/delegation.go: GetUBDQueueTimeSlice, SetUBDQueueTimeSlice, InsertUBDQueue,
   DequeueAllMatureUBDQueue, SetUnbondingDelegationEntry, CompleteUnbonding; x/staking/keeper/val_state_change.go:
   BlockValidatorUpdates (the loop over the mature pairs); x/staking/types/delegation.go: AddEntry, RemoveEntry, IsMature).

  State: the unbonding delegations in store order (the key is delegator bytes ++ validator bytes; addresses are hex strings
  here, whose order is the byte order), each with its entries in store order, and the completion queue: one slice of
  (delegator, validator) pairs per completion time, in time order (the key is the formatted time, whose order is the
  chronological order).  An unbonding delegation without entries is never stored (the SDK removes it), so "not found" is the
  empty entry list.  Times are nanoseconds.  Go panics are `Except.error` with the panic's message.

  What is left out: creation height and initial balance of an entry (never read by the code modelled here), the coins
  (the not-bonded pool pays what an entry holds: Model/Payout.lean, Model/Shield.lean), the maximum number of entries per
  pair (checked by `Undelegate` before the part modelled here), slashing of entries (changes balances only).
-/
namespace Shentu.UbdQueue

/-- an unbonding entry: completion time and balance -/
structure Entry where
  t : Int
  bal : Int
  deriving DecidableEq, Repr, Inhabited

/-- a (delegator, validator) pair of the completion queue -/
abbrev Pair := String × String

/-- an unbonding delegation: delegator, validator, entries in store order -/
structure Ubd where
  del : String
  val : String
  entries : List Entry
  deriving DecidableEq, Repr, Inhabited

/-- a slice of the completion queue: the completion time and the pairs, in insertion order -/
abbrev Slice := Int × List Pair

structure State where
  ubds : List Ubd := []
  queue : List Slice := []
  deriving DecidableEq, Repr, Inhabited

/-! ## the two stores -/

def Ubd.is (u : Ubd) (d v : String) : Bool := u.del == d && u.val == v

/-- `GetUnbondingDelegation`; not found = no entries -/
def getEntries (us : List Ubd) (d v : String) : List Entry :=
  match us.find? (·.is d v) with
  | some u => u.entries
  | none => []

/-- `RemoveUnbondingDelegation` -/
def removeUbd (us : List Ubd) (d v : String) : List Ubd := us.filter (fun u => !u.is d v)

/-- store order: delegator, then validator -/
def Ubd.keyLt (x y : Ubd) : Bool := decide (x.del < y.del) || (x.del == y.del && decide (x.val < y.val))

def insertUbd (u : Ubd) : List Ubd → List Ubd
  | [] => [u]
  | x :: xs => if x.keyLt u then x :: insertUbd u xs else u :: x :: xs

/-- `SetUnbondingDelegation` -/
def setUbd (us : List Ubd) (d v : String) (es : List Entry) : List Ubd := insertUbd ⟨d, v, es⟩ (removeUbd us d v)

/-- "set the unbonding delegation or remove it if there are no more entries" -/
def setEntries (us : List Ubd) (d v : String) (es : List Entry) : List Ubd :=
  if es.isEmpty then removeUbd us d v else setUbd us d v es

/-- `GetUBDQueueTimeSlice`; no slice = no pairs -/
def getSlice (q : List Slice) (t : Int) : List Pair :=
  match q.find? (·.1 == t) with
  | some s => s.2
  | none => []

/-- `RemoveUBDQueue` (shentu's addition to the staking keeper): the whole slice is deleted -/
def removeSlice (q : List Slice) (t : Int) : List Slice := q.filter (fun s => !(s.1 == t))

def insertSlice (sl : Slice) : List Slice → List Slice
  | [] => [sl]
  | x :: xs => if x.1 < sl.1 then x :: insertSlice sl xs else sl :: x :: xs

/-- `SetUBDQueueTimeSlice` -/
def setSlice (q : List Slice) (t : Int) (ps : List Pair) : List Slice := insertSlice (t, ps) (removeSlice q t)

/-- `InsertUBDQueue` -/
def insertUBDQueue (q : List Slice) (p : Pair) (t : Int) : List Slice :=
  let sl := getSlice q t
  if sl.isEmpty then setSlice q t [p] else setSlice q t (sl ++ [p])

/-! ## the SDK side: undelegate, end-block completion -/

/-- the part of `Undelegate` that touches the two stores: `SetUnbondingDelegationEntry` (`AddEntry` appends, it never
    merges in v0.42.4: two undelegations of one pair in one block give two entries with the same completion time) and
    `InsertUBDQueue` (one more pair in the slice, also when the pair is there already) -/
def undelegate (s : State) (d v : String) (t bal : Int) : State :=
  { ubds := setUbd s.ubds d v (getEntries s.ubds d v ++ [⟨t, bal⟩]), queue := insertUBDQueue s.queue (d, v) t }

/-- `DequeueAllMatureUBDQueue`: the pairs of all slices up to `now` (inclusive) in queue order, and the queue without them -/
def dequeueAllMature (q : List Slice) (now : Int) : List Pair × List Slice :=
  ((q.filter (fun s => decide (s.1 ≤ now))).flatMap (·.2), q.filter (fun s => !decide (s.1 ≤ now)))

/-- `Entry.IsMature` -/
def Entry.isMature (e : Entry) (now : Int) : Bool := decide (e.t ≤ now)

/-- `CompleteUnbonding`: none = ErrNoUnbondingDelegation; otherwise the mature entries (paid back to the delegator) are
    removed, the others stay in order -/
def completeUnbonding (us : List Ubd) (now : Int) (d v : String) : Option (List Ubd × List Entry) :=
  let es := getEntries us d v
  if es.isEmpty then none
  else some (setEntries us d v (es.filter (fun e => !e.isMature now)), es.filter (·.isMature now))

/-- what an end-block paid back: delegator, validator, entry -/
abbrev Paid := String × String × Entry

/-- the loop of `BlockValidatorUpdates` over the mature pairs: a pair whose completion fails is skipped (`continue`) -/
def completeAll (now : Int) : List Pair → List Ubd → List Paid → List Ubd × List Paid
  | [], us, log => (us, log)
  | (d, v) :: ps, us, log =>
    match completeUnbonding us now d v with
    | none => completeAll now ps us log
    | some (us', m) => completeAll now ps us' (log ++ m.map (fun e => (d, v, e)))

/-- the staking end-blocker's unbonding part at block time `now` -/
def endBlock (s : State) (now : Int) : State × List Paid :=
  let dq := dequeueAllMature s.queue now
  let r := completeAll now dq.1 s.ubds []
  ({ ubds := r.1, queue := dq.2 }, r.2)

/-! ## the shield side: delaying a provider's unbondings -/

/-- `getUnbondingsByProviderMaturingByTime`: (validator, completion time) for every pair of the provider in the slices up
    to `time` (inclusive), in queue order -/
def maturingByTime (q : List Slice) (provider : String) (time : Int) : List (String × Int) :=
  (q.filter (fun s => decide (s.1 ≤ time))).flatMap (fun s => (s.2.filter (fun p => p.1 == provider)).map (fun p => (p.2, s.1)))

/-- the `for j := len-1 … 0` loop that cuts the last element satisfying `f` out of a slice -/
def eraseLastP (f : α → Bool) (l : List α) : List α := (l.reverse.eraseP f).reverse

/-- the re-sorting loop of `DelayUnbonding` after the entry `x` got its new time: while the next entry completes
    strictly before `x`, the two are swapped -/
def bubble (x : Entry) : List Entry → List Entry
  | [] => [x]
  | e :: es => if e.t < x.t then e :: bubble x es else x :: e :: es

/-- the `for j` loop of `DelayUnbonding` over the entries: the FIRST entry completing at `t` is moved to `delayed` and
    bubbled behind the later entries that complete before it; none = no such entry (the Go code then panics);
    the second component is the moved entry's balance -/
def retime : List Entry → Int → Int → Option (List Entry × Int)
  | [], _, _ => none
  | e :: es, t, delayed =>
    if e.t == t then some (bubble { e with t := delayed } es, e.bal)
    else match retime es t delayed with
      | none => none
      | some (es', a) => some (e :: es', a)

/-- "Remove from unbonding queue": in a slice of more than one pair the last pair of the provider with that validator is
    cut out (nothing happens if there is none); a slice of at most one pair is deleted wholesale, WITHOUT looking at it -/
def unqueueLast (q : List Slice) (p : Pair) (t : Int) : List Slice :=
  let sl := getSlice q t
  if sl.length > 1 then
    (if sl.any (· == p) then setSlice q t (eraseLastP (· == p) sl) else q)
  else removeSlice q t

/-- one round of the loop of `DelayUnbonding` for the candidate (validator, completion time): the new state and the balance
    of the entry that was postponed -/
def delayStep (s : State) (provider : String) (delayed : Int) (c : String × Int) : Except String (State × Int) :=
  let q1 := unqueueLast s.queue (provider, c.1) c.2
  let es := getEntries s.ubds provider c.1
  if es.isEmpty then .error "unbonding list was not found for the given provider-validator pair"
  else match retime es c.2 delayed with
    | none => .error "particular unbonding entry not found for the given timestamp"
    | some (es', a) =>
      .ok ({ ubds := setUbd s.ubds provider c.1 es', queue := insertUBDQueue q1 (provider, c.1) delayed }, a)

/-- the loop of `DelayUnbonding` over the candidates (given from the LAST one down, as `i` runs from `len-1` to 0) -/
def delayLoop (provider : String) (delayed : Int) : List (String × Int) → Int → State → Except String State
  | [], remaining, s => if remaining > 0 then .error "failed to delay enough unbondings" else .ok s
  | c :: cs, remaining, s =>
    if remaining ≤ 0 then .ok s
    else match delayStep s provider delayed c with
      | .error e => .error e
      | .ok (s', a) => delayLoop provider delayed cs (remaining - a) s'

/-- `DelayUnbonding(provider, amount, delayedTime)` -/
def delayUnbonding (s : State) (provider : String) (amount delayed : Int) : Except String State :=
  delayLoop provider delayed (maturingByTime s.queue provider delayed).reverse amount s

/-! ## the shield side: a payout out of unbonding entries -/

/-- `sort.SliceStable` with `After` on the completion time: latest first, equal times in the given order -/
def insertDesc (x : String × String × Entry) : List (String × String × Entry) → List (String × String × Entry)
  | [] => [x]
  | y :: ys => if y.2.2.t > x.2.2.t then y :: insertDesc x ys else x :: y :: ys

/-- `GetSortedUnbondingDelegations`: one element per entry of the delegator, latest completion first -/
def sortedUnbondings (us : List Ubd) (d : String) : List (String × String × Entry) :=
  ((us.filter (·.del == d)).flatMap (fun u => u.entries.map (fun e => (u.del, u.val, e)))).foldr insertDesc []

/-- "Update the unbonding queue" in `PayFromUnbondings`: in a slice of more than one pair the FIRST pair of the delegator
    with that validator is cut out; a slice of at most one pair is deleted wholesale, without looking at it -/
def unqueueFirst (q : List Slice) (p : Pair) (t : Int) : List Slice :=
  let sl := getSlice q t
  if sl.length > 1 then
    (if sl.any (· == p) then setSlice q t (sl.eraseP (· == p)) else q)
  else removeSlice q t

/-- the loop of `PayFromUnbondings` over the stored entries: the first entry with the snapshot's balance and completion time
    either goes (its balance is the payout: the result says so) or shrinks; none = no entry matches -/
def payEntry : List Entry → Entry → Int → Option (List Entry × Bool)
  | [], _, _ => none
  | e :: es, e0, payout =>
    if e.bal == e0.bal && e.t == e0.t then
      (if e.bal == payout then some (es, true) else some ({ e with bal := e.bal - payout } :: es, false))
    else match payEntry es e0 payout with
      | none => none
      | some (es', r) => some (e :: es', r)

/-- `PayFromUnbondings(ubd, payout)` where `ubd` is the snapshot element (d, v, e0).  The coins (`payout`, always) leave the
    not-bonded pool afterwards whatever the loop did: when no stored entry matches the snapshot, nothing is booked. -/
def payFromUnbondings (s : State) (d v : String) (e0 : Entry) (payout : Int) : Except String State :=
  let es := getEntries s.ubds d v
  if es.isEmpty then .error "unbonding delegation is not found"
  else match payEntry es e0 payout with
    | none => .ok s
    | some (es', removed) =>
      .ok { ubds := setEntries s.ubds d v es', queue := if removed then unqueueFirst s.queue (d, v) e0.t else s.queue }

/-- the walk of `MakePayoutByProviderDelegations` over the snapshot: the part of `purchased` that the bonded stake does not
    cover is skipped first, then every entry pays what it can until the payout is raised -/
def payWalk : List (String × String × Entry) → Int → Int → State → Except String State
  | [], _, rem, s => if rem != 0 then .error "exact pay out was not made from unbondings" else .ok s
  | (d, v, e) :: xs, uncovered, rem, s =>
    if rem ≤ 0 then (if rem != 0 then .error "exact pay out was not made from unbondings" else .ok s)
    else
      let remUbd := max (e.bal - uncovered) 0
      let uncovered' := max (uncovered - e.bal) 0
      if remUbd == 0 then payWalk xs uncovered' rem s
      else
        let t := min rem remUbd
        match payFromUnbondings s d v e t with
        | .error err => .error err
        | .ok s' => payWalk xs uncovered' (rem - t) s'

/-- the unbonding part of `MakePayoutByProviderDelegations(provider, …)`: `uncovered` of the purchased amount is not backed by
    bonded stake, `payout` is to be raised from unbonding entries -/
def payFromAllUnbondings (s : State) (d : String) (uncovered payout : Int) : Except String State :=
  if payout == 0 then .ok s else payWalk (sortedUnbondings s.ubds d) uncovered payout s

/-! ## histories -/

inductive Op where
  | undelegate (d v : String) (t bal : Int)
  | delay (provider : String) (amount delayed : Int)
  | pay (d : String) (uncovered payout : Int)
  | endBlock (now : Int)
  deriving Repr

/-- one operation; a panicking call is a failed transaction / proposal: the state stays -/
def step (s : State) : Op → State
  | .undelegate d v t bal => undelegate s d v t bal
  | .delay p a dl => match delayUnbonding s p a dl with | .ok s' => s' | .error _ => s
  | .pay d u p => match payFromAllUnbondings s d u p with | .ok s' => s' | .error _ => s
  | .endBlock now => (endBlock s now).1

def run (s : State) (ops : List Op) : State := ops.foldl step s

/-! ## the total of what is outstanding -/

def balSum (es : List Entry) : Int := (es.map (·.bal)).sum

/-- everything the delegator `d` has in unbonding entries -/
def outstanding (us : List Ubd) (d : String) : Int := ((us.filter (·.del == d)).map (fun u => balSum u.entries)).sum

end Shentu.UbdQueue
