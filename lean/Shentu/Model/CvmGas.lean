import Shentu.Model.Bank
import Shentu.Gen.CvmGas
/-
  x/cvm/keeper's gas bookkeeping (keeper.go: getOriginalGas and the fee part of Tx), over arithmetic regenerated from the
  source. Go computes in uint64: `u64` is the wrap-around, applied where Go's operators apply it.
-/
namespace Shentu.CvmGas
open Shentu

def two64 : Int := 18446744073709551616
/-- a uint64 result -/
def u64 (x : Int) : Int := x % two64

/-- `getOriginalGas`: the VM's allowance for what is left on the transaction's gas meter (`limit`, `consumed` as the meter
    reports them: an infinite meter reports a limit of 0) -/
def getOriginalGas (limit consumed rate : Int) : Except Err Int :=
  let gasCurrent := u64 (Gen.CvmGas.gasCurrent limit consumed)
  let raw := u64 (Gen.CvmGas.allowanceRaw gasCurrent rate)
  if Gen.CvmGas.allowanceOverflowed raw gasCurrent then err "cvm:IntegerOverflow"
  else .ok (Gen.CvmGas.allowanceCapped raw Gen.CvmGas.transactionGasLimit)

/-- what is charged to the transaction's gas meter after the execution: the VM leaves `gasLeft` of the allowance; a refund
    (never more than half of what was used) is granted only to an execution that did not fail -/
def charge (originalGas gasLeft refund rate : Int) (failed : Bool) : Int :=
  let tracker := if failed then gasLeft else u64 (Gen.CvmGas.afterRefund gasLeft originalGas refund)
  let fee := u64 (Gen.CvmGas.fee originalGas tracker)
  u64 (Gen.CvmGas.charged fee rate)

end Shentu.CvmGas
