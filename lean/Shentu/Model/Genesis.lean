import Shentu.Model.Shield
import Shentu.Model.Oracle
/-
  Export and import of the module states (x/shield/genesis.go, x/oracle/genesis.go), definitions only.
  (x/cert and x/gov are in `Model/GenesisCert.lean` and `Model/GenesisGov.lean`.)

  A `Genesis` record has the fields of the Go `GenesisState`, in the order of the Go constructor.  `exportGenesis`
  reads the state field by field, as `ExportGenesis` reads the stores.  `initGenesis` performs the writes of `InitGenesis`
  in the same order.  The *primary* records (pools, providers, purchase lists, operators, tasks ...) come out of a key-value
  store, so their keys are distinct and writing them back one by one into an empty store gives the exported list again:
  they are copied.  The *derived* indices are not part of the genesis file and are rebuilt by the import, one insertion at
  a time, with the model's own insertion functions:
    * x/shield: the withdraw queue (`InsertWithdrawQueue` for each exported withdrawal, in the exported order);
      the expiring-purchase queue is not kept in the model's state at all (`Shield.duePairs` recomputes the due pairs from the
      purchase lists in every end-blocker), so there is nothing to rebuild for it;
      the block service fees (`blockFees`) are NOT in the genesis file: an imported chain starts with none;
    * x/oracle: the closing-block index (`UpdateAndSetTask` → `SetTask` + `SetClosingBlockStore` for each exported task
      that is still waiting), the withdraw keys (due block, address) and the tasks' closing blocks, which are exported
      relative to the export height and re-based at the import height.
-/
namespace Shentu.Genesis.Shield
open Shentu Shentu.Shield

/-- `types.GenesisState` of x/shield, in the order of `NewGenesisState`; the model keeps pool parameters, claim-proposal
    parameters and the staking rate in one `Params` record -/
structure Genesis where
  admin : Addr
  nextPool : Nat
  nextPurchase : Nat
  params : Params
  totalCollateral : Int
  totalWithdrawing : Int
  totalShield : Int
  totalClaimed : Int
  serviceFees : Dec
  remaining : Dec
  pools : List Pool
  providers : List Provider
  lists : List PList
  withdraws : List Withdraw
  lastUpdate : Int
  stakingPool : Int
  stakes : List Stake
  origStakings : List (Nat × Int)
  reimbs : List Reimb

/-- `ExportGenesis`: every getter of the Go function, in its order.  `GetAllWithdraws` walks the withdraw queue in key
    (completion time) order, slice by slice: that is the model's queue as it stands.  The block service fees are not read. -/
def exportGenesis (s : State) : Genesis :=
  { params := s.params
    admin := s.admin
    totalCollateral := s.totalCollateral
    totalWithdrawing := s.totalWithdrawing
    totalShield := s.totalShield
    totalClaimed := s.totalClaimed
    serviceFees := s.serviceFees
    remaining := s.remaining
    pools := s.pools
    nextPool := s.nextPool
    nextPurchase := s.nextPurchase
    lists := s.lists
    providers := s.providers
    withdraws := s.withdraws
    lastUpdate := s.lastUpdate
    stakingPool := s.stakingPool
    stakes := s.stakes
    origStakings := s.origStakings
    reimbs := s.reimbs }

/-- the stores of a chain that has not been initialised: everything empty, `time.Time{}` as the last update time -/
def emptyState (params : Params) : State :=
  { admin := "", pools := [], lists := [], providers := [], withdraws := [], stakes := [], origStakings := [], reimbs := [],
    totalCollateral := 0, totalWithdrawing := 0, totalShield := 0, totalClaimed := 0,
    serviceFees := Dec.zero, remaining := Dec.zero, blockFees := Dec.zero, stakingPool := 0,
    lastUpdate := zeroTime, nextPool := 0, nextPurchase := 0, params := params }

/-- `for _, withdraw := range data.Withdraws { k.InsertWithdrawQueue(ctx, withdraw) }` -/
def rebuildQueue (ws : List Withdraw) : List Withdraw := ws.foldl (fun q w => insertWithdraw w q) []

/-- `InitGenesis`, write by write in the order of the Go function -/
def initGenesis (g : Genesis) : State :=
  let s := emptyState g.params                          -- SetPoolParams, SetClaimProposalParams (and SetShieldStakingRate below)
  let s := { s with admin := g.admin }                  -- SetAdmin
  let s := { s with totalCollateral := g.totalCollateral }
  let s := { s with totalWithdrawing := g.totalWithdrawing }
  let s := { s with totalShield := g.totalShield }
  let s := { s with totalClaimed := g.totalClaimed }
  let s := { s with serviceFees := g.serviceFees }
  let s := { s with remaining := g.remaining }
  let s := { s with stakingPool := g.stakingPool }      -- SetGlobalShieldStakingPool
  let s := { s with pools := g.pools }                  -- SetPool for each pool
  let s := { s with nextPool := g.nextPool }
  let s := { s with nextPurchase := g.nextPurchase }
  let s := { s with lists := g.lists }                  -- SetPurchaseList (+ InsertExpiringPurchaseQueue: not stored in the model)
  let s := { s with stakes := g.stakes }                -- SetStakeForShield
  let s := { s with origStakings := g.origStakings }    -- SetOriginalStaking
  let s := { s with providers := g.providers }          -- SetProvider
  let s := { s with withdraws := rebuildQueue g.withdraws }   -- InsertWithdrawQueue, one by one
  let s := { s with lastUpdate := g.lastUpdate }        -- SetLastUpdateTime
  { s with reimbs := g.reimbs }                         -- SetReimbursement

/-- the expiring-purchase queue that `InitGenesis` builds (`InsertExpiringPurchaseQueue` for every entry of every purchase
    list, keyed by `ProtectionEndTime`): time slices in key order, each slice in insertion order.  The model's state does not
    contain it; it is defined here to state what the import rebuilds. -/
def insertExpiring (t : Int) (pp : Nat × Addr) : List (Int × List (Nat × Addr)) → List (Int × List (Nat × Addr))
  | [] => [(t, [pp])]
  | x :: xs => if t < x.1 then (t, [pp]) :: x :: xs else if t == x.1 then (x.1, x.2 ++ [pp]) :: xs else x :: insertExpiring t pp xs

def rebuildExpiring (lists : List PList) : List (Int × List (Nat × Addr)) :=
  lists.foldl (fun q l => l.entries.foldl (fun q en => insertExpiring en.endTime (l.pool, l.purchaser) q) q) []

/-- the pairs that the end-blocker meets in the rebuilt queue up to `now` (`ExpiringPurchaseQueueIterator`) -/
def dueInQueue (q : List (Int × List (Nat × Addr))) (now : Int) : List (Nat × Addr) :=
  (q.filter (·.1 ≤ now)).flatMap (·.2)

end Shentu.Genesis.Shield

namespace Shentu.Genesis.Oracle
open Shentu Shentu.Oracle

/-- `types.GenesisState` of x/oracle in the order of `NewGenesisState`; the model keeps the locked-pool parameters and
    the task parameters in one `Params` record -/
structure Genesis where
  operators : List Operator
  totalCollateral : Coins
  params : Params
  withdraws : List Withdraw
  tasks : List Task

/-- `GetAllWithdrawsForExport`: `withdraw.DueBlock = withdraw.DueBlock - ctx.BlockHeight()` -/
def exportWd (h : Int) (w : Withdraw) : Withdraw := { w with due := w.due - h }
/-- `UpdateAndGetAllTasks`: `task.WaitingBlocks = task.ClosingBlock - ctx.BlockHeight()` (the stored closing block stays in
    the record) -/
def exportTask (h : Int) (t : Task) : Task := { t with waiting := t.closing - h }

/-- `ExportGenesis` at block height `h` -/
def exportGenesis (h : Int) (s : State) : Genesis :=
  { operators := s.ops
    totalCollateral := s.total
    params := s.params
    withdraws := s.wds.map (exportWd h)
    tasks := s.tasks.map (exportTask h) }

def emptyState (params : Params) : State :=
  { ops := [], wds := [], total := [], tasks := [], closing := [], params := params }

/-- `withdraw.DueBlock += ctx.BlockHeight(); k.SetWithdraw(ctx, withdraw)` -/
def importWd (h : Int) (w : Withdraw) : Withdraw := { w with due := w.due + h }

/-- `UpdateAndSetTask`: `task.ClosingBlock = ctx.BlockHeight() + task.WaitingBlocks; k.SetTask(ctx, task);
    if task.WaitingBlocks > 0 { k.SetClosingBlockStore(ctx, task) }` — with the model's own `setTask` and `addClosing` -/
def updateAndSetTask (h : Int) (s : State) (t : Task) : State :=
  let t' : Task := { t with closing := h + t.waiting }
  let s1 := setTask s t'
  if t.waiting > 0 then addClosing s1 t'.closing (t'.contract, t'.function) else s1

/-- `InitGenesis` at block height `h` (the initial height of the new chain), write by write in the order of the Go function -/
def initGenesis (h : Int) (g : Genesis) : State :=
  let s := emptyState g.params
  let s := { s with ops := g.operators }                       -- SetOperator for each operator
  let s := { s with total := g.totalCollateral }               -- SetTotalCollateral (then the two parameter sets)
  let s := { s with wds := g.withdraws.map (importWd h) }      -- DueBlock += height; SetWithdraw
  g.tasks.foldl (updateAndSetTask h) s                         -- UpdateAndSetTask for each task

end Shentu.Genesis.Oracle
