import Shentu.Base.Coins
/-
  The bank ledger as a posting list.

  A posting is (account, denomination, signed amount); the balance of an account
  is the sum of its postings.  A transfer appends two postings, so "no transfer
  creates or destroys coins" is a fact about concatenation.  `supply` is the
  separately recorded total supply (the SDK keeps it in its own store entry);
  C01 is the statement that the two always agree.
-/
namespace Shentu

abbrev Addr := String  -- lower-case hex of the 20 address bytes: string order = store byte order

structure Err where
  kind : String
  deriving Repr, DecidableEq, Inhabited

def err {α} (k : String) : Except Err α := .error ⟨k⟩
/-- a Go `panic`: inside DeliverTx it is recovered into a failed transaction, inside
    Begin/EndBlock it halts the chain -/
def panicE {α} (site : String) : Except Err α := .error ⟨"panic:" ++ site⟩
def Err.isPanic (e : Err) : Bool := e.kind.startsWith "panic:"
/-- rejected by the message's `ValidateBasic`, i.e. before the ante handler: no fee is charged -/
def Err.isBasic (e : Err) : Bool := e.kind.startsWith "basic:"

abbrev Posting := Addr × Denom × Int

structure Ledger where
  posts : List Posting
  supply : Coins
  deriving Inhabited

namespace Ledger

def bal (l : Ledger) (a : Addr) : Coins := (l.posts.filter (fun p => p.1 == a)).map (·.2)
def balOf (l : Ledger) (a : Addr) (d : Denom) : Int := Coins.amountOf (l.bal a) d
/-- sum of every account's balance in denomination d -/
def total (l : Ledger) (d : Denom) : Int := Coins.amountOf (l.posts.map (·.2)) d

def credit (l : Ledger) (a : Addr) (c : Coins) : Ledger :=
  { l with posts := l.posts ++ c.map (fun e => (a, e.1, e.2)) }
def debit (l : Ledger) (a : Addr) (c : Coins) : Ledger := l.credit a (Coins.neg c)
/-- unconditional move (what `SetBalances`-level code does) -/
def move (l : Ledger) (src dst : Addr) (c : Coins) : Ledger := (l.debit src c).credit dst c
def mint (l : Ledger) (a : Addr) (c : Coins) : Ledger :=
  { (l.credit a c) with supply := Coins.add l.supply c }
def burn (l : Ledger) (a : Addr) (c : Coins) : Ledger :=
  { (l.debit a c) with supply := Coins.sub l.supply c }

/-- `SendCoins` of the SDK for an account without locked coins: the amount must be
    valid (every entry positive) and covered by the balance. -/
def send (l : Ledger) (src dst : Addr) (c : Coins) : Except Err Ledger :=
  if Coins.isAnyNegative c then err "bank:invalid-coins"
  else if !(Coins.covers (l.bal src) c) then err "bank:insufficient-funds"
  else .ok (l.move src dst c)

/-- C01's invariant on a ledger -/
def Inv (l : Ledger) : Prop := ∀ d, l.total d = Coins.amountOf l.supply d

def denomsAll (l : Ledger) : List Denom := ((l.posts.map (·.2.1)) ++ l.supply.map (·.1)).eraseDups
/-- Boolean form evaluated on observed ledgers -/
def invB (l : Ledger) : Bool := (denomsAll l).all (fun d => l.total d == Coins.amountOf l.supply d)

def accounts (l : Ledger) : List Addr := (l.posts.map (·.1)).eraseDups

end Ledger
end Shentu
