import Shentu.Model.Bank
import Shentu.Base.Dec
import Shentu.Gen.Shield
/-
  Executable model of x/shield (keeper/pool.go, purchase.go, collateral.go, provider.go,
  withdraw.go, proposal.go, staking_purchase.go, rewards.go, abci.go).

  Amounts are integers of the bond denomination; fees and rewards are `Dec`s of the bond
  denomination (the only native denomination the module ever credits: the generated
  histories and the messages' own checks keep every other denomination out).

  The staking module is an input: `bondedAfter a` is the provider's bonded stake as the
  staking hooks recompute it (`UpdateDelegationAmount` / `RemoveDelegation`), read from
  the observed post-state.  Unbonding delegations (delays and payouts taken from them)
  live in the staking store and are not part of this state.
-/
namespace Shentu.Shield

/-- `time.Time{}` in nanoseconds since the epoch -/
def zeroTime : Int := -62135596800000000000

structure Pool where
  id : Nat
  shield : Int
  limit : Int
  active : Bool
  sponsor : String
  sponsorAddr : Addr
  deriving Inhabited, DecidableEq

structure Purchase where
  id : Nat
  endTime : Int
  delTime : Int
  shield : Int
  fees : Dec
  deriving Inhabited, DecidableEq

structure PList where
  pool : Nat
  purchaser : Addr
  entries : List Purchase
  deriving Inhabited, DecidableEq

structure Provider where
  addr : Addr
  collateral : Int
  withdrawing : Int
  bonded : Int
  rewards : Dec
  deriving Inhabited, DecidableEq

structure Withdraw where
  addr : Addr
  amount : Int
  time : Int
  deriving Inhabited, DecidableEq

structure Stake where
  pool : Nat
  purchaser : Addr
  amount : Int
  requested : Int
  deriving Inhabited, DecidableEq

structure Reimb where
  pid : Nat
  amount : Int
  beneficiary : Addr
  payoutTime : Int
  deriving Inhabited, DecidableEq

structure Params where
  protection : Int
  withdrawPeriod : Int
  feesRate : Dec
  poolLimit : Dec
  minPurchase : Int
  stakingRate : Dec
  payoutPeriod : Int
  claimMinDeposit : Int := 0
  claimDepositRate : Dec := Dec.zero
  deriving Inhabited, DecidableEq

structure State where
  admin : Addr
  pools : List Pool
  lists : List PList
  providers : List Provider          -- in store order (address bytes)
  withdraws : List Withdraw          -- the queue: by completion time, then insertion
  stakes : List Stake
  origStakings : List (Nat × Int)
  reimbs : List Reimb
  totalCollateral : Int
  totalWithdrawing : Int
  totalShield : Int
  totalClaimed : Int
  serviceFees : Dec
  remaining : Dec
  blockFees : Dec
  stakingPool : Int
  lastUpdate : Int
  nextPool : Nat
  nextPurchase : Nat
  params : Params
  deriving Inhabited

structure Env where
  t : Int
  bond : Denom
  modAddr : Addr
  bondedPool : Addr := ""
  /-- the provider's bonded stake as recomputed by the staking hooks in this step -/
  bondedAfter : Addr → Option Int := fun _ => none

/-! ## the accounting identities (C02, C03) -/

def sumI {α} (f : α → Int) (l : List α) : Int := (l.map f).sum

def sumRewards (s : State) : Int := sumI (fun p => p.rewards.raw) s.providers
def sumStakes (s : State) : Int := sumI (·.amount) s.stakes
def sumReimbs (s : State) : Int := sumI (·.amount) s.reimbs

/-- what the module owes, scaled by 10^18 -/
def owedRaw (s : State) : Int :=
  s.remaining.raw + sumRewards s + s.blockFees.raw + (sumStakes s + sumReimbs s) * Dec.prec

/-- C02: the module account holds exactly what it owes (so the fractional parts cancel). -/
def FundInv (modBal : Int) (s : State) : Prop :=
  modBal * Dec.prec = owedRaw s ∧ s.blockFees.raw % Dec.prec = 0
def fundInvB (modBal : Int) (s : State) : Bool :=
  modBal * Dec.prec == owedRaw s && s.blockFees.raw % Dec.prec == 0

def entriesOf (s : State) (pool : Nat) : List Purchase :=
  (s.lists.filter (·.pool == pool)).flatMap (·.entries)

/-- C03: every total is the sum of its parts, nothing negative, withdrawing ≤ collateral. -/
structure BooksInv (s : State) : Prop where
  coll : s.totalCollateral = sumI (·.collateral) s.providers
  wdr : s.totalWithdrawing = sumI (·.withdrawing) s.providers
  wdrQ : ∀ p ∈ s.providers, p.withdrawing = sumI (·.amount) (s.withdraws.filter (·.addr == p.addr))
  wdrOwner : ∀ w ∈ s.withdraws, ∃ p ∈ s.providers, p.addr = w.addr
  shield : s.totalShield = sumI (·.shield) s.pools
  poolShield : ∀ p ∈ s.pools, p.shield = sumI (·.shield) (entriesOf s p.id)
  listPool : ∀ l ∈ s.lists, ∀ e ∈ l.entries, e.shield ≠ 0 → ∃ p ∈ s.pools, p.id = l.pool
  stake : s.stakingPool = sumStakes s
  nonneg : 0 ≤ s.totalCollateral ∧ 0 ≤ s.totalWithdrawing ∧ 0 ≤ s.totalShield ∧ 0 ≤ s.totalClaimed ∧ 0 ≤ s.stakingPool
  provNonneg : ∀ p ∈ s.providers, 0 ≤ p.collateral ∧ 0 ≤ p.withdrawing ∧ p.withdrawing ≤ p.collateral ∧ 0 ≤ p.rewards.raw
  wdrPos : ∀ w ∈ s.withdraws, 0 < w.amount
  entryNonneg : ∀ l ∈ s.lists, ∀ e ∈ l.entries, 0 ≤ e.shield ∧ 0 ≤ e.fees.raw
  poolNonneg : ∀ p ∈ s.pools, 0 ≤ p.shield
  stakeNonneg : ∀ k ∈ s.stakes, 0 ≤ k.amount
  reimbNonneg : ∀ r ∈ s.reimbs, 0 ≤ r.amount
  feesNonneg : 0 ≤ s.remaining.raw ∧ 0 ≤ s.blockFees.raw

/-- the violated clauses of `BooksInv`, by name (evaluated on observed states) -/
def booksViolations (s : State) : List String :=
  let c (b : Bool) (msg : String) : List String := if b then [] else [msg]
  c (s.totalCollateral == sumI (·.collateral) s.providers) s!"total_collateral {s.totalCollateral} != sum over providers {sumI (·.collateral) s.providers}" ++
  c (s.totalWithdrawing == sumI (·.withdrawing) s.providers) s!"total_withdrawing {s.totalWithdrawing} != sum over providers {sumI (·.withdrawing) s.providers}" ++
  s.providers.flatMap (fun p =>
    let q := sumI (·.amount) (s.withdraws.filter (·.addr == p.addr))
    c (p.withdrawing == q) s!"provider {p.addr}: withdrawing {p.withdrawing} != queued {q}") ++
  s.withdraws.flatMap (fun w => c (s.providers.any (·.addr == w.addr)) s!"queued withdrawal of {w.amount} for {w.addr} without provider") ++
  c (s.totalShield == sumI (·.shield) s.pools) s!"total_shield {s.totalShield} != sum over pools {sumI (·.shield) s.pools}" ++
  s.pools.flatMap (fun p => c (p.shield == sumI (·.shield) (entriesOf s p.id)) s!"pool {p.id}: shield {p.shield} != sum over purchases {sumI (·.shield) (entriesOf s p.id)}") ++
  s.lists.flatMap (fun l => l.entries.flatMap (fun e => c (e.shield == 0 || s.pools.any (·.id == l.pool)) s!"purchase {e.id} with shield {e.shield} in closed pool {l.pool}")) ++
  c (s.stakingPool == sumStakes s) s!"global_staking_pool {s.stakingPool} != sum of stakes {sumStakes s}" ++
  c (0 ≤ s.totalCollateral && 0 ≤ s.totalWithdrawing && 0 ≤ s.totalShield && 0 ≤ s.totalClaimed && 0 ≤ s.stakingPool)
    s!"negative total: collateral {s.totalCollateral} withdrawing {s.totalWithdrawing} shield {s.totalShield} claimed {s.totalClaimed} staking {s.stakingPool}" ++
  s.providers.flatMap (fun p => c (0 ≤ p.collateral && 0 ≤ p.withdrawing && p.withdrawing ≤ p.collateral && 0 ≤ p.rewards.raw)
    s!"provider {p.addr}: collateral {p.collateral} withdrawing {p.withdrawing} rewards {p.rewards.raw}") ++
  s.withdraws.flatMap (fun w => c (0 < w.amount) s!"queued withdrawal of {w.amount} for {w.addr}") ++
  s.lists.flatMap (fun l => l.entries.flatMap (fun e => c (0 ≤ e.shield && 0 ≤ e.fees.raw) s!"purchase {e.id}: shield {e.shield} fees {e.fees.raw}")) ++
  s.pools.flatMap (fun p => c (0 ≤ p.shield) s!"pool {p.id}: shield {p.shield}") ++
  s.stakes.flatMap (fun k => c (0 ≤ k.amount) s!"stake of {k.purchaser} in pool {k.pool}: {k.amount}") ++
  s.reimbs.flatMap (fun r => c (0 ≤ r.amount) s!"reimbursement {r.pid}: {r.amount}") ++
  c (0 ≤ s.remaining.raw && 0 ≤ s.blockFees.raw) s!"negative fees: remaining {s.remaining.raw} block {s.blockFees.raw}"

/-! ## lookups and updates -/

def findPool (s : State) (id : Nat) : Option Pool := s.pools.find? (·.id == id)
def setPool (s : State) (p : Pool) : State := { s with pools := s.pools.map (fun x => if x.id == p.id then p else x) }
def findProvider (s : State) (a : Addr) : Option Provider := s.providers.find? (·.addr == a)
def setProvider (s : State) (p : Provider) : State :=
  { s with providers := s.providers.map (fun x => if x.addr == p.addr then p else x) }
def insertProvider (p : Provider) : List Provider → List Provider
  | [] => [p]
  | x :: xs => if p.addr < x.addr then p :: x :: xs else x :: insertProvider p xs
def findList (s : State) (pool : Nat) (a : Addr) : Option PList := s.lists.find? (fun l => l.pool == pool && l.purchaser == a)
def setList (s : State) (l : PList) : State :=
  if (findList s l.pool l.purchaser).isSome then
    { s with lists := s.lists.map (fun x => if x.pool == l.pool && x.purchaser == l.purchaser then l else x) }
  else { s with lists := s.lists ++ [l] }
def deleteList (s : State) (pool : Nat) (a : Addr) : State :=
  { s with lists := s.lists.filter (fun x => !(x.pool == pool && x.purchaser == a)) }
def findStake (s : State) (pool : Nat) (a : Addr) : Option Stake := s.stakes.find? (fun k => k.pool == pool && k.purchaser == a)
def setStake (s : State) (k : Stake) : State :=
  if (findStake s k.pool k.purchaser).isSome then
    { s with stakes := s.stakes.map (fun x => if x.pool == k.pool && x.purchaser == k.purchaser then k else x) }
  else { s with stakes := s.stakes ++ [k] }

/-- `InsertWithdrawQueue`: at the end of the time slice of its completion time -/
def insertWithdraw (w : Withdraw) : List Withdraw → List Withdraw
  | [] => [w]
  | x :: xs => if w.time < x.time then w :: x :: xs else x :: insertWithdraw w xs

/-- remove the last element satisfying `p` -/
def removeLast {α} (p : α → Bool) (l : List α) : List α :=
  match l with
  | [] => []
  | x :: xs => if xs.any p then x :: removeLast p xs else if p x then xs else x :: xs
/-- remove the first element satisfying `p` -/
def removeFirst {α} (p : α → Bool) : List α → List α
  | [] => []
  | x :: xs => if p x then xs else x :: removeFirst p xs
/-- replace the first element satisfying `p` -/
def replaceFirst {α} (p : α → Bool) (f : α → α) : List α → List α
  | [] => []
  | x :: xs => if p x then f x :: xs else x :: replaceFirst p f xs

/-! ## collateral -/

/-- `Keeper.WithdrawCollateral` -/
def withdrawCollateral (e : Env) (s : State) (from_ : Addr) (amount : Int) : Except Err State :=
  if amount == 0 then .ok s
  else match findProvider s from_ with
  | none => err "shield:provider-not-found"
  | some p =>
    if amount > p.collateral - p.withdrawing then err "shield:over-withdraw"
    else
      let s1 := { s with withdraws := insertWithdraw { addr := from_, amount := amount, time := e.t + s.params.withdrawPeriod } s.withdraws }
      let s2 := setProvider s1 { p with withdrawing := p.withdrawing + amount }
      .ok { s2 with totalWithdrawing := s2.totalWithdrawing + amount }

/-- `updateProviderForDelegationChanges`: the staking hooks -/
def stakingHook (e : Env) (s : State) (a : Addr) (staked : Int) : Except Err State :=
  match findProvider s a with
  | none => .ok s
  | some p =>
    let s1 := setProvider s { p with bonded := staked }
    let w := p.collateral - p.withdrawing - staked
    if w > 0 then
      match withdrawCollateral e s1 a w with
      | .ok s2 => .ok s2
      | .error _ => panicE "shield:forced-withdraw"
    else .ok s1

/-- the hooks as they fire for a staking message of `a`: the stake recomputed by the real hooks is an input -/
def stakingChanged (e : Env) (s : State) (a : Addr) : Except Err State :=
  match e.bondedAfter a with
  | none => .ok s
  | some b => stakingHook e s a b

/-- `MsgDepositCollateral` -/
def deposit (e : Env) (s : State) (from_ : Addr) (coins : Coins) : Except Err State :=
  if !Coins.isAllPositive coins then err "basic:shield:invalid-coins"
  else if (Coins.denoms coins).any (· != e.bond) then err "shield:bad-denom"
  else
    let amount := Coins.amountOf coins e.bond
    let (s1, p) : State × Provider := match findProvider s from_ with
      | some p => (s, p)
      | none =>
        let p : Provider := { addr := from_, collateral := 0, withdrawing := 0, bonded := (e.bondedAfter from_).getD 0, rewards := Dec.zero }
        ({ s with providers := insertProvider p s.providers }, p)
    if p.bonded < p.collateral + amount - p.withdrawing then err "shield:insufficient-staking"
    else
      let s2 := setProvider s1 { p with collateral := p.collateral + amount }
      .ok { s2 with totalCollateral := s2.totalCollateral + amount }

/-- `Keeper.DepositCollateral` as the message server calls it: an existing provider's recorded stake is first brought up to
    date (`UpdateDelegationAmount`: a slash changes what the delegations are worth without any staking hook), then the
    deposit is checked against it. In terms of the operations of the model: `stakingChanged` followed by `deposit`. -/
def depositMsg (e : Env) (s : State) (from_ : Addr) (coins : Coins) : Except Err State :=
  if !Coins.isAllPositive coins then err "basic:shield:invalid-coins"
  else match findProvider s from_ with
    | none => deposit e s from_ coins
    | some _ => match stakingChanged e s from_ with
      | .error x => .error x
      | .ok s1 => deposit e s1 from_ coins

/-- `MsgWithdrawCollateral` -/
def withdraw (e : Env) (s : State) (from_ : Addr) (coins : Coins) : Except Err State :=
  if !Coins.isAllPositive coins then err "basic:shield:invalid-coins"
  else if (Coins.denoms coins).any (· != e.bond) then err "shield:bad-denom"
  else withdrawCollateral e s from_ (Coins.amountOf coins e.bond)

/-! ## purchases -/

/-- `purchaseShield` (keeper/purchase.go): the common path of paid, staked and admin purchases -/
def purchaseCore (e : Env) (l : Ledger) (s : State) (poolID : Nat) (shield : Coins) (purchaser : Addr) (fees staking : Coins) :
    Except Err (Ledger × State) :=
  match findPool s poolID with
  | none => err "shield:no-pool"
  | some pool =>
    if !pool.active then err "shield:pool-inactive"
    else if Coins.isZero shield then err "shield:no-shield"
    else if Coins.isZero fees && Coins.isZero staking then err "shield:no-shield"
    else
      let shieldAmt := Coins.amountOf shield e.bond
      let free := s.totalCollateral - s.totalWithdrawing - s.totalClaimed
      if s.totalShield + shieldAmt > free then err "shield:not-enough-collateral"
      else
        let maxShield := min pool.limit (Dec.truncateInt (Dec.mul (Dec.ofInt free) s.params.poolLimit))
        if shieldAmt + pool.shield > maxShield then err "shield:pool-limit"
        else
          let pid := s.nextPurchase
          let s := { s with nextPurchase := pid + 1 }
          let paid : Except Err (Ledger × State) :=
            if !Coins.isZero fees then
              match l.send purchaser e.modAddr fees with
              | .error x => .error x
              | .ok l' =>
                let f := Dec.ofInt (Coins.amountOf fees e.bond)
                .ok (l', { s with serviceFees := Dec.add s.serviceFees f, remaining := Dec.add s.remaining f })
            else
              let amt := Coins.amountOf staking e.bond
              match l.send purchaser e.modAddr [(e.bond, amt)] with
              | .error x => .error x
              | .ok l' =>
                let k : Stake := match findStake s poolID purchaser with
                  | some k => { k with amount := k.amount + amt }
                  | none => { pool := poolID, purchaser := purchaser, amount := amt, requested := 0 }
                let s1 := setStake { s with stakingPool := s.stakingPool + amt } k
                .ok (l', { s1 with origStakings := (s1.origStakings.filter (·.1 != pid)) ++ [(pid, amt)] })
          match paid with
          | .error x => .error x
          | .ok (l', s1) =>
            let s2 := setPool { s1 with totalShield := s1.totalShield + shieldAmt } { pool with shield := pool.shield + shieldAmt }
            let endT := e.t + s.params.protection
            let entry : Purchase := { id := pid, endTime := endT, delTime := endT, shield := shieldAmt,
                                      fees := if Coins.isZero fees then Dec.zero else Dec.ofInt (Coins.amountOf fees e.bond) }
            let lst : PList := match findList s2 poolID purchaser with
              | some x => { x with entries := x.entries ++ [entry] }
              | none => { pool := poolID, purchaser := purchaser, entries := [entry] }
            let s3 := setList s2 lst
            .ok (l', if s3.lastUpdate == zeroTime then { s3 with lastUpdate := e.t } else s3)

/-- `Keeper.PurchaseShield`: a user's purchase at the standard rates (`MsgPurchaseShield`, `MsgStakeForShield`) -/
def purchase (e : Env) (l : Ledger) (s : State) (poolID : Nat) (shield : Coins) (purchaser : Addr) (staking : Bool) :
    Except Err (Ledger × State) :=
  let amt := Coins.amountOf shield e.bond
  if !staking && (poolID == 0 || !Coins.isAllPositive shield) then err "basic:shield:invalid-purchase"
  else if !Coins.isZero shield && s.params.minPurchase > amt && amt != 0 then err "shield:purchase-too-small"
  else if !staking then
    let fee := Dec.truncateInt (Dec.mul (Dec.ofInt amt) s.params.feesRate)
    purchaseCore e l s poolID shield purchaser [(e.bond, fee)] []
  else
    let st := Dec.truncateInt (Dec.mulInt s.params.stakingRate amt)
    purchaseCore e l s poolID shield purchaser [] [(e.bond, st)]

/-- `MsgCreatePool` -/
def createPool (e : Env) (l : Ledger) (s : State) (creator : Addr) (shield fees : Coins) (sponsor : String) (sponsorAddr : Addr) (limit : Int) :
    Except Err (Ledger × State) :=
  if sponsor.trimAscii.toString == "" || !Coins.isAllPositive shield then err "basic:shield:invalid-pool"
  else if creator != s.admin then err "shield:not-admin"
  else
    let id := s.nextPool
    let s1 := { s with pools := s.pools ++ [{ id := id, shield := 0, limit := limit, active := true, sponsor := sponsor, sponsorAddr := sponsorAddr }],
                       nextPool := id + 1 }
    purchaseCore e l s1 id shield creator fees []

/-- `MsgUpdatePool` -/
def updatePool (e : Env) (l : Ledger) (s : State) (updater : Addr) (poolID : Nat) (shield fees : Coins) (limit : Int) :
    Except Err (Ledger × State) :=
  if poolID == 0 || Coins.isAnyNegative shield then err "basic:shield:invalid-pool"
  else if updater != s.admin then err "shield:not-admin"
  else match findPool s poolID with
  | none => err "shield:no-pool"
  | some pool =>
    let s1 := setPool s (if limit != 0 then { pool with limit := limit } else pool)
    if !Coins.isZero shield then purchaseCore e l s1 poolID shield updater fees []
    else if !Coins.isZero fees then
      match l.send updater e.modAddr fees with
      | .error x => .error x
      | .ok l' =>
        let f := Dec.ofInt (Coins.amountOf fees e.bond)
        .ok (l', { s1 with serviceFees := Dec.add s1.serviceFees f, remaining := Dec.add s1.remaining f })
    else .ok (l, s1)

def pausePool (s : State) (updater : Addr) (poolID : Nat) (active : Bool) : Except Err State :=
  if poolID == 0 then err "basic:shield:invalid-pool"
  else if updater != s.admin then err "shield:not-admin"
  else match findPool s poolID with
  | none => err "shield:no-pool"
  | some pool => if pool.active == active then err "shield:pool-state" else .ok (setPool s { pool with active := active })

def updateSponsor (s : State) (updater : Addr) (poolID : Nat) (sponsor : String) (sponsorAddr : Addr) : Except Err State :=
  if sponsor.trimAscii.toString == "" then err "basic:shield:invalid-sponsor"
  else if updater != s.admin then err "shield:not-admin"
  else match findPool s poolID with
  | none => err "shield:no-pool"
  | some pool => .ok (setPool s { pool with sponsor := sponsor, sponsorAddr := sponsorAddr })

/-- `MsgUnstakeFromShield` -/
def unstake (e : Env) (s : State) (poolID : Nat) (purchaser : Addr) (coins : Coins) : Except Err State :=
  match findStake s poolID purchaser with
  | none => err "shield:purchase-not-found"
  | some k =>
    let amount := Coins.amountOf coins e.bond
    if k.requested + amount > k.amount then err "shield:not-enough-staked"
    else .ok (setStake s { k with requested := k.requested + amount })

/-- `MsgWithdrawRewards` -/
def withdrawRewards (e : Env) (l : Ledger) (s : State) (a : Addr) : Except Err (Ledger × State) :=
  match findProvider s a with
  | none => err "shield:provider-not-found"
  | some p =>
    let whole := Dec.truncateInt p.rewards
    if whole == 0 then .ok (l, s)
    else
      let change := Dec.sub p.rewards (Dec.ofInt whole)
      let s1 := setProvider s { p with rewards := Dec.zero }
      let s2 := { s1 with remaining := Dec.add s1.remaining change }
      match l.send e.modAddr a [(e.bond, whole)] with
      | .error x => .error x
      | .ok l' => .ok (l', s2)

/-- `MsgWithdrawReimbursement` -/
def withdrawReimbursement (e : Env) (l : Ledger) (s : State) (pid : Nat) (a : Addr) : Except Err (Ledger × State) :=
  match s.reimbs.find? (·.pid == pid) with
  | none => err "shield:reimbursement-not-found"
  | some r =>
    if r.beneficiary != a then err "shield:invalid-beneficiary"
    else if r.payoutTime > e.t then err "shield:not-payout-time"
    else match l.send e.modAddr a [(e.bond, r.amount)] with
      | .error _ => err "shield:not-payout-time"
      | .ok l' => .ok (l', { s with reimbs := s.reimbs.filter (·.pid != pid) })

/-! ## claims -/

/-- Admission of a claim proposal (x/gov/keeper/msg_server.go `validateProposalByType`): `none` = admitted.
    `holder` is the proposer named in the claim, `deposit` the initial deposit in the bond denomination. -/
def claimAdmissible (s : State) (now : Int) (holder : Addr) (poolID purchaseID : Nat) (loss deposit : Int) : Option String :=
  if Dec.lt (Dec.ofInt deposit) (Dec.mul (Dec.ofInt loss) s.params.claimDepositRate) || deposit < s.params.claimMinDeposit then some "deposit-too-small"
  else match findList s poolID holder with
  | none => some "no-purchase-list"
  | some l => match l.entries.find? (·.id == purchaseID) with
    | none => some "purchase-not-held"
    | some en =>
      if !(en.shield ≥ loss) then some "shield-below-loss"
      else if en.endTime < now then some "protection-ended"
      else none

/-- `DelayWithdraws`: push the provider's latest withdrawals maturing by `until_` back to `until_` -/
def delayLoop (a : Addr) (until_ : Int) : List Withdraw → Int → List Withdraw → Except Err (List Withdraw)
  | [], remaining, q => if remaining > 0 then panicE "shield:delay-withdraws" else .ok q
  | w :: ws, remaining, q =>
    if remaining ≤ 0 then .ok q
    else
      let q1 := removeLast (fun x => x.time == w.time && x.addr == a && x.amount == w.amount) q
      let q2 := insertWithdraw { w with time := until_ } q1
      delayLoop a until_ ws (remaining - w.amount) q2

def delayWithdraws (s : State) (a : Addr) (amount until_ : Int) : Except Err State :=
  let cands := (s.withdraws.filter (fun w => w.time ≤ until_ && w.addr == a)).reverse
  match delayLoop a until_ cands amount s.withdraws with
  | .error x => .error x
  | .ok q => .ok { s with withdraws := q }

/-- `SecureFromProvider` (the part that lives in the shield store) -/
def secureFromProvider (e : Env) (s : State) (p : Provider) (amount duration : Int) : Except Err State :=
  if p.collateral - p.withdrawing ≥ amount && p.bonded ≥ amount then .ok s
  else
    let endT := e.t + duration
    let byEnd := sumI (·.amount) (s.withdraws.filter (fun w => w.time ≤ endT && w.addr == p.addr))
    let avail := p.collateral - byEnd
    if amount > avail then delayWithdraws s p.addr (amount - avail) endT else .ok s

def secureLoop (e : Env) (ratio : Dec) (duration : Int) : List Provider → Int → State → Except Err State
  | [], _, s => .ok s
  | p :: ps, remaining, s =>
    let a0 := min (Dec.truncateInt (Dec.mul (Dec.ofInt p.collateral) ratio)) remaining
    let a := if a0 < remaining && a0 < p.collateral then a0 + 1 else a0
    match secureFromProvider e s p a duration with
    | .error x => .error x
    | .ok s' => secureLoop e ratio duration ps (remaining - a) s'

/-- `SecureCollaterals`: called when a claim proposal is submitted -/
def secureCollaterals (e : Env) (s : State) (poolID : Nat) (purchaser : Addr) (purchaseID : Nat) (loss duration : Int) : Except Err State :=
  match findPool s poolID with
  | none => err "shield:no-pool"
  | some pool =>
    if loss > pool.shield then err "shield:not-enough-shield"
    else
      let totalSecure := s.totalClaimed + loss
      if totalSecure > s.totalCollateral then panicE "shield:secure-exceeds-collateral"
      else match findList s poolID purchaser with
      | none => err "shield:purchase-not-found"
      | some lst =>
        -- the entry with the id, or the first one when there is none (the caller has checked that there is one)
        let target := ((lst.entries.find? (·.id == purchaseID)).orElse (fun _ => lst.entries.head?))
        match target with
        | none => panicE "shield:empty-purchase-list"
        | some pu =>
          if loss > pu.shield then err "shield:not-enough-shield"
          else if s.totalCollateral == 0 then panicE "shield:division-by-zero"
          else
            let ratio := Dec.quo (Dec.ofInt totalSecure) (Dec.ofInt s.totalCollateral)
            match secureLoop e ratio duration s.providers totalSecure s with
            | .error x => .error x
            | .ok s1 =>
              let vEnd := e.t + duration
              let pu' := { pu with shield := pu.shield - loss, delTime := if pu.delTime < vEnd then vEnd else pu.delTime }
              let s2 := setList s1 { lst with entries := replaceFirst (·.id == pu.id) (fun _ => pu') lst.entries }
              let s3 := setPool s2 { pool with shield := pool.shield - loss }
              .ok { s3 with totalShield := s3.totalShield - loss, totalClaimed := totalSecure }

/-- `ClaimEnd` -/
def claimEnd (s : State) (loss : Int) : State := { s with totalClaimed := s.totalClaimed - loss }

/-- `RestoreShield`: nothing is restored when the pool or the purchase is gone (the caller ignores the error) -/
def restoreShield (s : State) (poolID : Nat) (purchaser : Addr) (id : Nat) (loss : Int) : State :=
  match findPool s poolID with
  | none => s
  | some pool =>
    match findList s poolID purchaser with
    | none => s
    | some lst =>
      if !lst.entries.any (·.id == id) then s
      else
        let s1 := { s with totalShield := s.totalShield + loss }
        let s2 := setPool s1 { pool with shield := pool.shield + loss }
        setList s2 { lst with entries := replaceFirst (·.id == id) (fun x => { x with shield := x.shield + loss }) lst.entries }

/-- the walk over the provider's queued withdrawals, latest first, in `UpdateProviderCollateralForPayout` -/
def payoutWithdrawLoop : List Withdraw → Int → Int → List Withdraw → Except Err (List Withdraw)
  | [], _, fromWithdraw, q => if fromWithdraw != 0 then panicE "shield:payout-from-withdrawals" else .ok q
  | w :: ws, uncovered, fromWithdraw, q =>
    if fromWithdraw ≤ 0 then (if fromWithdraw != 0 then panicE "shield:payout-from-withdrawals" else .ok q)
    else
      let rem := max (w.amount - uncovered) 0
      let uncovered' := max (uncovered - w.amount) 0
      if rem == 0 then payoutWithdrawLoop ws uncovered' fromWithdraw q
      else
        let p := min fromWithdraw rem
        let isIt := fun (x : Withdraw) => x.time == w.time && x.addr == w.addr && x.amount == w.amount
        let q' := if w.amount == p then removeFirst isIt q else replaceFirst isIt (fun x => { x with amount := w.amount - p }) q
        payoutWithdrawLoop ws uncovered' (fromWithdraw - p) q'

/-- `UpdateProviderCollateralForPayout` -/
def updateProviderForPayout (s : State) (a : Addr) (purchased payout : Int) : Except Err State :=
  match findProvider s a with
  | none => panicE "shield:provider-not-found"
  | some p =>
    let free := p.collateral - p.withdrawing
    let (uncovered, fromCollateral) : Int × Int :=
      if free ≥ purchased + payout then (0, payout)
      else if free ≥ purchased then (0, free - purchased)
      else (purchased - free, 0)
    let fromWithdraw := payout - fromCollateral
    let mine := (s.withdraws.filter (·.addr == a)).reverse
    match payoutWithdrawLoop mine uncovered fromWithdraw s.withdraws with
    | .error x => .error x
    | .ok q =>
      let s1 := { s with withdraws := q, totalWithdrawing := s.totalWithdrawing - fromWithdraw }
      .ok (setProvider s1 { p with collateral := p.collateral - payout, withdrawing := p.withdrawing - fromWithdraw })

def reimburseLoop (e : Env) (purchaseRatio payoutRatio : Dec) :
    List Provider → Int → Int → Ledger → State → Except Err (Int × Ledger × State)
  | [], _, totalPayout, l, s => .ok (totalPayout, l, s)
  | p :: ps, totalPurchased, totalPayout, l, s =>
    if totalPayout ≤ 0 then .ok (totalPayout, l, s)
    else
      -- the shares and the "+1" guards are the definitions regenerated from proposal.go (Gen/Shield.lean)
      let pur0 := min (Gen.Shield.splitPurchased p.collateral purchaseRatio) totalPurchased
      let pay0 := min (Gen.Shield.splitPayout p.collateral payoutRatio) totalPayout
      let pur := if Gen.Shield.splitPurchasedPlusOne pur0 totalPurchased p.collateral pay0 then pur0 + 1 else pur0
      let pay := if Gen.Shield.splitPayoutPlusOne pay0 totalPayout p.collateral pur then pay0 + 1 else pay0
      match updateProviderForPayout s p.addr pur pay with
      | .error x => .error x
      | .ok s1 =>
        -- MakePayoutByProviderDelegations: the coins come out of the staking pools; the hooks recompute the bonded stake
        let l1 := l.move e.bondedPool e.modAddr [(e.bond, pay)]
        match stakingChanged e s1 p.addr with
        | .error x => .error x
        | .ok s2 => reimburseLoop e purchaseRatio payoutRatio ps (totalPurchased - pur) (totalPayout - pay) l1 s2

/-- `CreateReimbursement`: the handler of a claim proposal that passed -/
def createReimbursement (e : Env) (l : Ledger) (s : State) (pid : Nat) (amount : Int) (beneficiary : Addr) : Except Err (Ledger × State) :=
  if s.totalCollateral == 0 then panicE "shield:division-by-zero"
  else
    let purchaseRatio := Dec.quo (Dec.ofInt s.totalShield) (Dec.ofInt s.totalCollateral)
    let payoutRatio := Dec.quo (Dec.ofInt amount) (Dec.ofInt s.totalCollateral)
    match reimburseLoop e purchaseRatio payoutRatio s.providers s.totalShield amount l s with
    | .error x => .error x
    | .ok (left, l1, s1) =>
      if left > 0 then panicE "shield:not-enough-payout"
      else
        let r : Reimb := { pid := pid, amount := amount, beneficiary := beneficiary, payoutTime := e.t + s.params.payoutPeriod }
        .ok (l1, { s1 with reimbs := (s1.reimbs.filter (·.pid != pid)) ++ [r],
                           totalCollateral := s.totalCollateral - amount, totalClaimed := s1.totalClaimed - amount })

/-! ## end of block -/

/-- one purchase list met in the expiring-purchase queue -/
def expireEntries (now lastUpdate period : Int) :
    List Purchase → (Dec × Dec × Int) → List Purchase × (Dec × Dec × Int)
  | [], acc => ([], acc)
  | en :: es, (fees, totalFees, removedShield) =>
    let stream := en.endTime > lastUpdate && en.fees.raw > 0
    let fees' := if stream then Dec.add fees (Dec.mul en.fees (Dec.quo (Dec.ofInt (en.endTime - lastUpdate)) (Dec.ofInt period))) else fees
    let totalFees' := if stream then Dec.sub totalFees en.fees else totalFees
    let en' := if stream then { en with fees := Dec.zero } else en
    if en.delTime < now then
      expireEntries now lastUpdate period es (fees', totalFees', removedShield + en.shield)
    else
      let (rest, acc) := expireEntries now lastUpdate period es (fees', totalFees', removedShield)
      (en' :: rest, acc)

structure ExpAcc where
  s : State
  fees : Dec
  totalFees : Dec
  totalShield : Int

/-- the (pool, purchaser) pairs of the queue slices up to `now`, one per entry whose protection has ended -/
def duePairs (s : State) (now : Int) : List (Nat × Addr) :=
  s.lists.flatMap (fun l => (l.entries.filter (·.endTime ≤ now)).map (fun _ => (l.pool, l.purchaser)))

def expireLoop (now : Int) : List (Nat × Addr) → ExpAcc → Except Err ExpAcc
  | [], acc => .ok acc
  | (pool, a) :: rest, acc =>
    match findList acc.s pool a with
    | none => expireLoop now rest acc
    | some lst =>
      let (entries', (fees', totalFees', removed)) :=
        expireEntries now acc.s.lastUpdate acc.s.params.protection lst.entries (acc.fees, acc.totalFees, 0)
      let s1E : Except Err State :=
        if lst.entries.any (·.delTime < now) then
          match findPool acc.s pool with
          | none => panicE "shield:expired-purchase-without-pool"
          | some p => .ok (setPool acc.s { p with shield := p.shield - removed })
        else .ok acc.s
      match s1E with
      | .error x => .error x
      | .ok s1 =>
        let s2 := if entries'.isEmpty then deleteList s1 pool a else setList s1 { lst with entries := entries' }
        expireLoop now rest { s := s2, fees := fees', totalFees := totalFees', totalShield := acc.totalShield - removed }

def distributeLoop (total : Int) (fees : Dec) : List Provider → Dec → List Provider × Dec
  | [], remaining => ([], remaining)
  | p :: ps, remaining =>
    let share0 := Dec.mul fees (Dec.quoInt (Dec.ofInt p.collateral) total)
    let share := if share0.raw > remaining.raw then remaining else share0
    let (rest, r) := distributeLoop total fees ps (Dec.sub remaining share)
    ({ p with rewards := Dec.add p.rewards share } :: rest, r)

/-- `RemoveExpiredPurchasesAndDistributeFees` -/
def expireAndDistribute (e : Env) (s : State) : Except Err State :=
  if s.lastUpdate == zeroTime then .ok s
  else
    match expireLoop e.t (duePairs s e.t) { s := s, fees := Dec.zero, totalFees := s.serviceFees, totalShield := s.totalShield } with
    | .error x => .error x
    | .ok acc =>
      if s.lists.any (fun l => l.entries.any (fun en => s.origStakings.any (fun o => o.1 == en.id && o.2 != 0) && en.fees.raw > 0)) then
        err "unmodelled:stake-expiry"
      else if acc.totalFees.raw < 0 then panicE "shield:negative-service-fees"
      else
        let s1 : State := { acc.s with totalShield := acc.totalShield, serviceFees := acc.totalFees }
        let blockShare := Dec.quo (Dec.mul acc.totalFees (Dec.ofInt (e.t - s.lastUpdate))) (Dec.ofInt s.params.protection)
        let fees0 := Dec.add acc.fees blockShare
        let fees1 := if s1.remaining.raw < fees0.raw then s1.remaining else fees0
        let fees2 := Dec.add fees1 s1.blockFees
        -- nobody to share with when there is no collateral: the fees stay in `remaining`
        let (provs, rem) := if s1.totalCollateral > 0 then distributeLoop s1.totalCollateral fees2 s1.providers s1.remaining else (s1.providers, s1.remaining)
        if rem.raw < 0 then panicE "shield:negative-remaining"
        else .ok { s1 with providers := provs, remaining := Dec.add rem s1.blockFees, blockFees := Dec.zero, lastUpdate := e.t }

def completeLoop : List Withdraw → State → Except Err State
  | [], s => .ok s
  | w :: ws, s =>
    match findProvider s w.addr with
    | none => panicE "shield:withdrawal-without-provider"
    | some p =>
      let s1 := setProvider s { p with collateral := p.collateral - w.amount, withdrawing := p.withdrawing - w.amount }
      completeLoop ws { s1 with totalCollateral := s1.totalCollateral - w.amount, totalWithdrawing := s1.totalWithdrawing - w.amount }

/-- `DequeueCompletedWithdrawQueue` -/
def completeWithdrawals (e : Env) (s : State) : Except Err State :=
  let due := s.withdraws.filter (·.time ≤ e.t)
  completeLoop due { s with withdraws := s.withdraws.filter (fun w => !(w.time ≤ e.t)) }

/-- `ClosePools` -/
def closePools (s : State) : State :=
  { s with pools := s.pools.filter (fun p => p.shield > 0 || p.limit > 0 || s.lists.any (·.pool == p.id)) }

/-- the module's `EndBlocker` -/
def endBlock (e : Env) (s : State) : Except Err State :=
  match expireAndDistribute e s with
  | .error x => .error x
  | .ok s1 =>
    match completeWithdrawals e s1 with
    | .error x => .error x
    | .ok s2 => .ok (closePools s2)

/-- `FundShieldBlockRewards` (called by the mint module's BeginBlocker) -/
def fundBlockRewards (e : Env) (l : Ledger) (s : State) (sender : Addr) (amount : Int) : Ledger × State :=
  (l.move sender e.modAddr [(e.bond, amount)], { s with blockFees := Dec.add s.blockFees (Dec.ofInt amount) })

/-- how a claim proposal ended in governance's end-blocker -/
inductive ClaimOutcome where
  | paid | vetoed | rejected | failed
  deriving DecidableEq, Repr, Inhabited

/-- what governance's end-blocker does to the shield state when a claim proposal ends
    (`updateVeto`, `updateAbstain`, the proposal handler) -/
def claimEnds (e : Env) (l : Ledger) (s : State) (pid poolID : Nat) (restoreTo : Addr) (beneficiary : Addr) (purchaseID : Nat) (loss : Int)
    (o : ClaimOutcome) : Except Err (Ledger × State) :=
  match o with
  | .vetoed => .ok (l, claimEnd s loss)
  | .rejected => .ok (l, claimEnd (restoreShield s poolID restoreTo purchaseID loss) loss)
  | .paid => createReimbursement e l s pid loss beneficiary
  | .failed => .ok (l, s)

end Shentu.Shield
