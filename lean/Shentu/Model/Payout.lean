import Shentu.Base.Dec
/-
  The payout of one provider's share of an approved claim out of that provider's stake
  (x/shield/keeper/proposal.go: MakePayoutByProviderDelegations, PayFromDelegation, UndelegateShares, PayFromUnbondings;
   cosmos-sdk x/staking/types/validator.go: TokensFromShares, RemoveDelShares).

  The shield model (`Model/Shield.lean`) moves `payout` coins from the staking pools to the module account in one step;
  this file models *how* the code takes them: the split between delegations and unbonding entries, the pro-rata loop over
  the delegations with its rounding, the conversion of each amount into shares of the validator (rounded up) and back into
  the tokens the validator then issues, and the walk over the unbonding entries.  Two repaired defects lived here
  (2c959f7: shares truncated, one unit short per slashed validator; d75c287: the split used a stale stake).
-/
namespace Shentu.Payout
open Shentu

/-- `MakePayoutByProviderDelegations`, the three cases: what is paid from delegations, and the part of `purchased`
    that the delegations do not cover -/
def split (bonded purchased payout : Int) : Int × Int :=
  if bonded ≥ purchased + payout then (payout, 0)
  else if bonded ≥ purchased then (bonded - purchased, 0)
  else (0, purchased - bonded)

/-- a delegation as `PayFromDelegation` sees it: its shares, and its validator's tokens and delegator shares -/
structure Del where
  shares : Dec
  vtokens : Int
  vshares : Dec
  deriving Repr, Inhabited

/-- `Validator.TokensFromShares`: `shares.MulInt(v.Tokens).Quo(v.DelegatorShares)` -/
def tokensFromShares (vtokens : Int) (vshares sh : Dec) : Dec := Dec.quo (Dec.mulInt sh vtokens) vshares

/-- `val.TokensFromShares(del.GetShares()).TruncateInt()` -/
def Del.amount (d : Del) : Int := Dec.truncateInt (tokensFromShares d.vtokens d.vshares d.shares)

/-- `UpdateDelegationAmount`: the provider's stake is the sum over its delegations -/
def bondedOf (ds : List Del) : Int := (ds.map Del.amount).foldl (· + ·) 0

/-- the loop of `PayFromDelegation` over the delegations' token amounts: pro rata, rounded up while something is left,
    the last delegation takes the rest -/
def amounts (ratio : Dec) : List Int → Int → List Int
  | [], _ => []
  | [_], remaining => if remaining ≤ 0 then [] else [remaining]
  | d :: d2 :: ds, remaining =>
    if remaining ≤ 0 then []
    else
      let u0 := min (Dec.truncateInt (Dec.mulInt ratio d)) remaining
      let u := if u0 < remaining && u0 < d then u0 + 1 else u0
      u :: amounts ratio (d2 :: ds) (remaining - u)

/-- the shares undelegated for an amount: `DelegatorShares.MulInt(amount).QuoRoundUp(Tokens.ToDec())`, at most the delegation's -/
def ubdShares (d : Del) (a : Int) : Dec :=
  let s := Dec.quoRoundUp (Dec.mulInt d.vshares a) (Dec.ofInt d.vtokens)
  if s.raw > d.shares.raw then d.shares else s

/-- `Validator.RemoveDelShares`: the tokens the validator issues for the removed shares -/
def issued (d : Del) (sh : Dec) : Int :=
  if d.vshares.raw - sh.raw == 0 then d.vtokens else Dec.truncateInt (tokensFromShares d.vtokens d.vshares sh)

/-- `PayFromDelegation`: the coins that reach the module account, per delegation -/
def payFromDelegation (total : Int) (ds : List Del) (payout : Int) : List Int :=
  let ratio := Dec.quo (Dec.ofInt payout) (Dec.ofInt total)
  List.zipWith (fun d a => issued d (ubdShares d a)) ds (amounts ratio (ds.map Del.amount) payout)

/-- the loop over the unbonding entries (latest completion first): balances, the uncovered part of `purchased`, what is
    still to pay → what each entry pays, and what is left unpaid -/
def ubdLoop : List Int → Int → Int → List Int × Int
  | [], _, q => ([], q)
  | b :: bs, u, q =>
    if q ≤ 0 then ([], q)
    else
      let rem := max (b - u) 0
      let u' := max (u - b) 0
      if rem == 0 then
        let r := ubdLoop bs u' q
        (0 :: r.1, r.2)
      else
        let t := min q rem
        let r := ubdLoop bs u' (q - t)
        (t :: r.1, r.2)

def sum (l : List Int) : Int := l.foldl (· + ·) 0

/-- `MakePayoutByProviderDelegations` after the stake has been brought up to date: per delegation and per unbonding entry,
    the coins moved to the module account; an error is the panic "exact pay out was not made from unbondings" -/
def makePayout (bonded purchased payout : Int) (ds : List Del) (ubds : List Int) : Except String (List Int × List Int) :=
  let sp := split bonded purchased payout
  let fromUbd := payout - sp.1
  let paidDel := if sp.1 > 0 then payFromDelegation bonded ds sp.1 else []
  if fromUbd == 0 then .ok (paidDel, [])
  else
    let r := ubdLoop ubds sp.2 fromUbd
    if r.2 != 0 then .error "exact pay out was not made from unbondings" else .ok (paidDel, r.1)

/-- what the code did before 2c959f7: `SharesFromTokens` truncates (`MulInt(amt).QuoInt(tokens)`) -/
def ubdSharesTruncated (d : Del) (a : Int) : Dec :=
  let s := Dec.quoInt (Dec.mulInt d.vshares a) d.vtokens
  if s.raw > d.shares.raw then d.shares else s

end Shentu.Payout
