import Shentu.Model.Bank
/- Executable model of x/cert: certifier council, alias index, certificates, platform certifications. -/
namespace Shentu.Cert

structure Certifier where
  addr : Addr
  alias : String
  proposer : Addr
  deriving Inhabited, DecidableEq

structure Certificate where
  id : Nat
  kind : String
  content : String
  certifier : Addr
  deriving Inhabited, DecidableEq

structure State where
  certifiers : List Certifier
  aliasIdx : List (String × Addr)       -- the alias store: alias ↦ certifier
  certs : List Certificate
  nextId : Nat
  platforms : List (String × String)    -- validator public key ↦ description
  deriving Inhabited

def isCertifier (s : State) (a : Addr) : Bool := s.certifiers.any (·.addr == a)
/-- `HasCertifierAlias`: the empty alias always "exists" -/
def hasAlias (s : State) (alias : String) : Bool := alias == "" || s.aliasIdx.any (·.1 == alias)

def issue (s : State) (certifier : Addr) (kind content : String) : Except Err State :=
  if !isCertifier s certifier then err "cert:unqualified-certifier"
  else .ok { s with certs := s.certs ++ [{ id := s.nextId, kind := kind, content := content, certifier := certifier }],
                    nextId := s.nextId + 1 }

def revoke (s : State) (revoker : Addr) (id : Nat) : Except Err State :=
  if !(s.certs.any (·.id == id)) then err "cert:no-certificate"
  else if !isCertifier s revoker then err "cert:unqualified-revoker"
  else .ok { s with certs := s.certs.filter (fun c => !(c.id == id)) }

def certifyPlatform (s : State) (certifier : Addr) (pubkey desc : String) : Except Err State :=
  if !isCertifier s certifier then err "cert:rejected-validator"
  else .ok { s with platforms := (s.platforms.filter (fun p => !(p.1 == pubkey))) ++ [(pubkey, desc)] }

/-- `HandleCertifierUpdateProposal`: the only place where the council changes -/
def handleUpdate (s : State) (certifier : Addr) (alias : String) (proposer : Addr) (add : Bool) : Except Err State :=
  if add then
    if isCertifier s certifier then err "cert:certifier-exists"
    else if alias != "" && hasAlias s alias then err "cert:repeated-alias"
    else .ok { s with certifiers := s.certifiers ++ [{ addr := certifier, alias := alias, proposer := proposer }],
                      aliasIdx := if alias != "" then s.aliasIdx ++ [(alias, certifier)] else s.aliasIdx }
  else
    if s.certifiers.length == 1 then err "cert:only-one-certifier"
    else match s.certifiers.find? (·.addr == certifier) with
      | none => err "cert:no-certifier"
      | some c => .ok { s with certifiers := s.certifiers.filter (fun x => !(x.addr == certifier)),
                               aliasIdx := s.aliasIdx.filter (fun e => !(e.1 == c.alias)) }

end Shentu.Cert
