import Shentu.Model.Vesting
/-
  The CVM message path (x/cvm/keeper/keeper.go `Tx`, `Call`, `Deploy`, `Send`; state.go write-back)
  over a library of small contracts whose EVM semantics is known by construction
  (harness/sim/gen_bankvm.go `vmPrograms`).  The general interpreter is `Shentu/EVM`;
  this model is what the chain-level correspondence of C01/C18/C19 runs against.
-/
namespace Shentu.Cvm

structure Contract where
  addr : Addr
  code : String                       -- runtime code, upper-case hex
  storage : List (String × String)    -- slot ↦ value (opaque renderings), zero slots absent
  deriving Inhabited

structure State where
  contracts : List Contract
  deriving Inhabited

def kindOfCode (code : String) : String :=
  match code with
  | "00" => "stop"
  | "60006000FD" => "revert"
  | "5B600056" => "loop"
  | "FE" => "invalid"
  | "60003560005500" => "store"
  | "600160005560006000FD" => "storeRevert"
  | "6001600055FE" => "storeInvalid"
  | "33FF" => "suicide"
  | "600035FF" => "suicideTo"
  | "60006000A000" => "log"
  | "60006000A060006000FD" => "logRevert"
  | "6000600060006000346000355AF100" => "forward"
  | "600060006000600060006000355AF150600160015500" => "innerCall"
  | "" => "none"
  | _ => "unknown"

def find (s : State) (a : Addr) : Option Contract := s.contracts.find? (·.addr == a)
def kindAt (s : State) (a : Addr) : String := ((find s a).map (fun c => kindOfCode c.code)).getD "none"
def setStorage (s : State) (a : Addr) (slot val : String) (isZero : Bool) : State :=
  { contracts := s.contracts.map (fun c => if c.addr == a then
      { c with storage := (c.storage.filter (fun e => !(e.1 == slot))) ++ (if isZero then [] else [(slot, val)]) } else c) }
def remove (s : State) (a : Addr) : State := { contracts := s.contracts.filter (fun c => !(c.addr == a)) }

def slot0 : String := "0000000000000000000000000000000000000000000000000000000000000000"
def slot1 : String := "0000000000000000000000000000000000000000000000000000000000000001"

/-- what a callee of a known kind does when it is entered with `value` already credited to it.
    `data0` is the first calldata word (rendered), `data0Zero` whether it is zero, `target` its low 20 bytes. -/
def runKind (bond : Denom) (kind : String) (l : Ledger) (s : State) (caller callee : Addr) (value : Int)
    (data0 : String) (data0Zero : Bool) (target : Addr) (depth : Nat) : Except Err (Ledger × State) :=
  match kind with
  | "stop" | "log" | "none" => .ok (l, s)
  | "store" => .ok (l, setStorage s callee slot0 data0 data0Zero)
  | "revert" | "storeRevert" | "logRevert" => err "cvm:reverted"
  | "loop" => err "cvm:out-of-gas"
  | "invalid" | "storeInvalid" => err "cvm:aborted"
  | "suicide" =>
    -- the whole balance of the contract goes to the caller; the contract disappears
    let b := l.balOf callee bond
    .ok (l.move callee caller [(bond, b)], remove s callee)
  | "suicideTo" =>
    -- SELFDESTRUCT(calldata[0:32]): the whole balance goes to the named account (created if need be) and the contract
    -- disappears; a contract that names itself keeps its balance and stays (there is nobody to receive it, and the
    -- chain cannot burn coins from inside the VM)
    if target == callee then .ok (l, s)
    else
      let b := l.balOf callee bond
      .ok (l.move callee target [(bond, b)], remove s callee)
  | "forward" =>
    match depth with
    | 0 => err "cvm:depth"
    | depth + 1 =>
      -- CALL(target, value) with empty calldata; a reverted child leaves the value here
      let l1 := l.move callee target [(bond, value)]
      match runKind bond (kindAt s target) l1 s callee target value slot0 true "" depth with
      | .ok r => .ok r
      | .error x => if x.kind == "cvm:reverted" then .ok (l, s) else .error x
  | "innerCall" =>
    match depth with
    | 0 => err "cvm:depth"
    | depth + 1 =>
      let r : Except Err (Ledger × State) := match runKind bond (kindAt s target) l s callee target 0 slot0 true "" depth with
        | .ok r => .ok r
        | .error x => if x.kind == "cvm:reverted" then .ok (l, s) else .error x
      match r with
      | .error x => .error x
      | .ok (l2, s2) => .ok (l2, setStorage s2 callee slot1 "1" false)
  | _ => err "cvm:unknown-program"

/-- `Keeper.Tx` for a call: spendable check, value transfer, execution; any failure leaves everything as it was -/
def call (bond : Denom) (l : Ledger) (vs : Vesting.Accounts) (s : State) (caller callee : Addr) (value : Int)
    (data0 : String) (data0Zero : Bool) (target : Addr) (hasData : Bool) : Except Err (Ledger × State) :=
  match (if value > 0 then Vesting.canSpend l vs caller [(bond, value)] else .ok ()) with
  | .error x => .error x
  | .ok _ =>
    let kind := kindAt s callee
    if kind == "none" && hasData then err "cvm:no-code"
    else runKind bond kind (l.move caller callee [(bond, value)]) s caller callee value data0 data0Zero target 3

/-- `Keeper.Tx` for a deployment of one of the known programs (the init code returns the runtime code) -/
def deploy (bond : Denom) (l : Ledger) (vs : Vesting.Accounts) (s : State) (caller newAddr : Addr) (code : String) (value : Int) :
    Except Err (Ledger × State) :=
  match (if value > 0 then Vesting.canSpend l vs caller [(bond, value)] else .ok ()) with
  | .error x => .error x
  | .ok _ => .ok (l.move caller newAddr [(bond, value)], { contracts := s.contracts ++ [{ addr := newAddr, code := code, storage := [] }] })

/-- bank `SendCoins` to a contract address: only the bond denomination, executed as a call with empty data -/
def sendToContract (bond : Denom) (l : Ledger) (vs : Vesting.Accounts) (s : State) (src dst : Addr) (amt : Coins) : Except Err (Ledger × State) :=
  if !(Coins.beq amt [(bond, Coins.amountOf amt bond)]) then err "cvm:only-bond-denom"
  else if Coins.amountOf amt bond ≤ 0 then err "cvm:invalid-coins"
  else call bond l vs s src dst (Coins.amountOf amt bond) slot0 true "" false

end Shentu.Cvm
