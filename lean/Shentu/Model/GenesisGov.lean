import Shentu.Model.Gov
/-
  Export and import of the x/gov state (x/gov/genesis.go), on top of the governance model.

  `ExportGenesis` lists, for each proposal in store order, the deposits of that proposal and then the votes of that
  proposal; `InitGenesis` sets the proposal counter and the parameters, re-sets every deposit (`SetDeposit` = `store.Set`
  keyed by proposal and depositor), every vote (`SetVote`, keyed by proposal and voter), and every proposal; a proposal
  in its deposit period is put into the inactive queue (key: deposit end time, id), a proposal in one of the two voting
  periods into the active queue (key: voting end time, id).

  The model keeps deposits and votes as single lists in insertion order, so the import changes their order (grouping by
  proposal): `normalise` is that change of representation.  The model does not store the queues: `endBlock` derives them
  from the proposals; here they are explicit derived data, so that the one-by-one rebuild of `InitGenesis` can be compared
  with what a running node holds.

  Definitions only.
-/
namespace Shentu.Genesis.Gov
open Shentu Shentu.Gov

/-- `types.GenesisState`, fields in the Go order; the model has one parameter record for the deposit, voting and tally
    parameters -/
structure Genesis where
  startingProposalId : Nat
  deposits : List Deposit
  votes : List Vote
  proposals : List Proposal
  params : Params
  deriving Inhabited

/-- the deposits of the listed proposals, proposal by proposal (`GetDepositsByProposalID` for each proposal) -/
def groupDeposits (ps : List Proposal) (ds : List Deposit) : List Deposit :=
  ps.flatMap (fun p => ds.filter (·.pid == p.id))

/-- the votes of the listed proposals, proposal by proposal (`GetVotes` for each proposal) -/
def groupVotes (ps : List Proposal) (vs : List Vote) : List Vote :=
  ps.flatMap (fun p => vs.filter (·.pid == p.id))

/-- `ExportGenesis` -/
def exportGenesis (g : State) : Genesis :=
  { startingProposalId := g.nextId
    deposits := groupDeposits g.proposals g.deposits
    votes := groupVotes g.proposals g.votes
    proposals := g.proposals
    params := g.params }

/-- `store.Set` on a list of records: the record with the same key is overwritten in place, a new key goes to the end -/
def upsert {α : Type} (same : α → α → Bool) (x : α) : List α → List α
  | [] => [x]
  | y :: ys => if same y x then x :: ys else y :: upsert same x ys

/-- the key of a deposit record: proposal and depositor -/
def sameDeposit (a b : Deposit) : Bool := a.pid == b.pid && a.depositor == b.depositor
/-- the key of a vote record: proposal and voter -/
def sameVote (a b : Vote) : Bool := a.pid == b.pid && a.voter == b.voter
/-- the key of a proposal record: its id -/
def sameProposal (a b : Proposal) : Bool := a.id == b.id

/-- `InitGenesis`, in the Go order: counter, parameters, every deposit, every vote, every proposal -/
def initGenesis (gen : Genesis) : State :=
  { nextId := gen.startingProposalId
    params := gen.params
    deposits := gen.deposits.foldl (fun acc d => upsert sameDeposit d acc) []
    votes := gen.votes.foldl (fun acc v => upsert sameVote v acc) []
    proposals := gen.proposals.foldl (fun acc p => upsert sameProposal p acc) [] }

/-! ### the two queues -/

/-- the inactive and the active proposal queue: (end time, proposal id), in store key order -/
structure Queues where
  inactive : List (Int × Nat)
  active : List (Int × Nat)
  deriving Inhabited, DecidableEq

/-- store key order of the queues: by time, then by id -/
def keyLE (a b : Int × Nat) : Bool := a.1 < b.1 || (a.1 == b.1 && a.2 ≤ b.2)

/-- `InsertInactiveProposalQueue` / `InsertActiveProposalQueue`: one entry goes to its place in key order -/
def insertQueue (k : Int × Nat) : List (Int × Nat) → List (Int × Nat)
  | [] => [k]
  | x :: xs => if keyLE k x then k :: x :: xs else x :: insertQueue k xs

/-- the status switch of `InitGenesis` for one proposal -/
def enqueue (q : Queues) (p : Proposal) : Queues :=
  if p.status == 1 then { q with inactive := insertQueue (p.depositEnd, p.id) q.inactive }
  else if p.status == 2 || p.status == 3 then { q with active := insertQueue (p.votingEnd, p.id) q.active }
  else q

/-- the queues as `InitGenesis` rebuilds them: one proposal after the other, in the order of the genesis file -/
def rebuildQueues (ps : List Proposal) : Queues := ps.foldl enqueue ⟨[], []⟩

/-- the queue entry of a proposal in the inactive queue / in the active queue -/
def inactiveKey (p : Proposal) : Int × Nat := (p.depositEnd, p.id)
def activeKey (p : Proposal) : Int × Nat := (p.votingEnd, p.id)

/-- the queues a running node holds: what the model's end blocker walks (the proposals in deposit period sorted by
    deposit end, those in a voting period sorted by voting end) -/
def queuesOf (g : State) : Queues :=
  { inactive := (sortByKey (·.depositEnd) (g.proposals.filter (fun p => p.status == 1))).map inactiveKey
    active := (sortByKey (·.votingEnd) (g.proposals.filter (fun p => p.status == 2 || p.status == 3))).map activeKey }

/-- the ids of the queue entries due at time `t` (the iterators of the end blocker include the end time) -/
def dueIds (q : List (Int × Nat)) (t : Int) : List Nat := (q.filter (fun k => k.1 ≤ t)).map (·.2)

/-! ### the representation after an import -/

/-- deposits and votes grouped by proposal, in the order of the proposals; within one proposal the order is kept -/
def normalise (g : State) : State :=
  { g with deposits := groupDeposits g.proposals g.deposits, votes := groupVotes g.proposals g.votes }

/-! ### well-formedness and observational equality -/

/-- well-formed governance state: the keys of the three stores are keys, and no record is left behind by a proposal
    that no longer exists -/
structure WFG (g : State) : Prop where
  /-- no two deposit records have the same proposal and depositor -/
  depKeys : g.deposits.Pairwise (fun a b => sameDeposit a b = false)
  /-- no two vote records have the same proposal and voter -/
  voteKeys : g.votes.Pairwise (fun a b => sameVote a b = false)
  /-- no two proposals have the same id -/
  ids : g.proposals.Pairwise (fun a b => sameProposal a b = false)
  /-- every deposit record belongs to a proposal in the store -/
  depOwned : ∀ d ∈ g.deposits, ∃ p ∈ g.proposals, p.id = d.pid
  /-- every vote record belongs to a proposal in the store -/
  voteOwned : ∀ v ∈ g.votes, ∃ p ∈ g.proposals, p.id = v.pid

/-- the invariant that histories keep: well-formed, every proposal id is below the counter, and votes are only held by
    proposals that have left the deposit period -/
structure WFH (g : State) : Prop extends WFG g where
  /-- every proposal id is below the next id to be handed out -/
  fresh : ∀ p ∈ g.proposals, p.id < g.nextId
  /-- a proposal that holds a vote is not in its deposit period -/
  voteStarted : ∀ v ∈ g.votes, ∀ p ∈ g.proposals, p.id = v.pid → p.status ≠ 1

/-- two governance states that differ at most in how the deposit and vote records of DIFFERENT proposals are
    interleaved: same proposals, counter, parameters; for every proposal the same deposit records in the same order and
    the same vote records in the same order -/
def Equiv (a b : State) : Prop :=
  a.proposals = b.proposals ∧ a.nextId = b.nextId ∧ a.params = b.params ∧
  (∀ pid, a.deposits.filter (·.pid == pid) = b.deposits.filter (·.pid == pid)) ∧
  (∀ pid, a.votes.filter (·.pid == pid) = b.votes.filter (·.pid == pid))

/-- worlds with equal ledgers, equal certification states and equivalent governance states -/
def EquivW (a b : World) : Prop := a.l = b.l ∧ a.c = b.c ∧ Equiv a.g b.g

/-- equal outcome of an operation on two worlds: both fail with the same error, or both succeed with equivalent worlds -/
def RelE (x y : Except Err World) : Prop :=
  match x, y with
  | .ok a, .ok b => EquivW a b
  | .error s, .error t => s = t
  | _, _ => False

end Shentu.Genesis.Gov
