import Shentu.Model.Bank
import Shentu.Model.Cert
import Shentu.Base.Dec
import Shentu.Gen.Gov
/-
  Executable model of x/gov (keeper/msg_server.go, proposal.go, deposit.go, vote.go,
  tally.go, endblocker.go).  The staking module is an input (`StakeView`): bonded
  validators, the voters' delegations and the bonded total, as observed.
-/
namespace Shentu.Gov

/-- `time.Time{}` in nanoseconds since the epoch -/
def zeroTime : Int := -62135596800000000000

structure Tally where
  yes : Int
  abstain : Int
  no : Int
  veto : Int
  deriving Inhabited, DecidableEq

structure Proposal where
  id : Nat
  kind : String          -- text | certifierUpdate | upgrade | claim | other
  cuCertifier : Addr := ""
  cuAlias : String := ""
  cuAdd : Bool := true
  cuProposer : Addr := ""
  clPool : Nat := 0         -- shield claim: pool, purchase, loss (the content's proposer is `cuProposer`)
  clPurchase : Nat := 0
  clLoss : Coins := []
  status : Nat           -- 1 deposit, 2 certifier voting, 3 validator voting, 4 passed, 5 rejected, 6 failed
  isCouncil : Bool
  proposer : Addr
  totalDeposit : Coins
  submitTime : Int
  depositEnd : Int
  votingStart : Int
  votingEnd : Int
  tally : Tally
  deriving Inhabited

structure Deposit where
  pid : Nat
  depositor : Addr
  amount : Coins
  deriving Inhabited

structure Vote where
  pid : Nat
  voter : Addr
  option : Nat           -- 1 yes, 2 abstain, 3 no, 4 no-with-veto
  deriving Inhabited

structure TallyParams where
  quorum : Dec
  threshold : Dec
  veto : Dec
  deriving Inhabited

structure Params where
  minInitial : Coins
  minDeposit : Coins
  depositPeriod : Int
  votingPeriod : Int
  default : TallyParams
  security : TallyParams
  certStake : TallyParams
  deriving Inhabited

structure State where
  proposals : List Proposal
  deposits : List Deposit
  votes : List Vote
  nextId : Nat
  params : Params
  deriving Inhabited

/-- what governance reads from staking -/
structure StakeView where
  vals : List (Addr × Int × Dec)          -- bonded validators: operator, bonded tokens, delegator shares
  dels : List (Addr × Addr × Dec)         -- delegator, validator, shares
  totalBonded : Int
  deriving Inhabited

structure Env where
  t : Int
  bond : Denom
  modAddr : Addr
  stake : StakeView

structure World where
  l : Ledger
  g : State
  c : Cert.State
  deriving Inhabited

def findP (g : State) (id : Nat) : Option Proposal := g.proposals.find? (·.id == id)
def setP (g : State) (p : Proposal) : State :=
  if (findP g p.id).isSome then { g with proposals := g.proposals.map (fun x => if x.id == p.id then p else x) }
  else { g with proposals := g.proposals ++ [p] }
def delP (g : State) (id : Nat) : State := { g with proposals := g.proposals.filter (fun x => !(x.id == id)) }

def isValidator (e : Env) (a : Addr) : Bool := e.stake.vals.any (·.1 == a)
def isCouncil (e : Env) (c : Cert.State) (a : Addr) : Bool := isValidator e a || Cert.isCertifier c a

/-- `IsAllGTE` -/
def isAllGTE (a b : Coins) : Bool :=
  if Coins.isZero b then true else if Coins.isZero a then false
  else (Coins.denoms b).all (fun d => Coins.amountOf a d ≥ Coins.amountOf b d)

def hasSecurityVoting (kind : String) : Bool := Gen.Gov.securityVotingKinds.contains kind

/-- the proposal record after `ActivateVotingPeriod` -/
def activated (e : Env) (g : State) (p : Proposal) : Proposal :=
  let p1 := { p with votingStart := e.t, votingEnd := e.t + g.params.votingPeriod }
  if Gen.Gov.entersCertifierRound (hasSecurityVoting p.kind) p.status then { p1 with status := 2 }
  else if p.status == 2 then { p1 with status := 3 }
  else { p1 with status := 3, depositEnd := e.t }

def activateVotingPeriod (e : Env) (g : State) (p : Proposal) : State := setP g (activated e g p)

def upsertDeposit (pid : Nat) (a : Addr) (amt : Coins) : List Deposit → List Deposit
  | [] => [{ pid := pid, depositor := a, amount := amt }]
  | d :: ds => if d.pid == pid && d.depositor == a then { d with amount := Coins.add d.amount amt } :: ds
               else d :: upsertDeposit pid a amt ds

def addDeposit (e : Env) (w : World) (pid : Nat) (depositor : Addr) (amt : Coins) : Except Err World :=
  match findP w.g pid with
  | none => err "gov:unknown-proposal"
  | some p =>
    if Gen.Gov.depositRefused p.status p.isCouncil then err "gov:already-active"
    else match w.l.send depositor e.modAddr amt with
    | .error x => .error x
    | .ok l' =>
      let p' := { p with totalDeposit := Coins.add p.totalDeposit amt }
      let g1 := setP w.g p'
      let g2 := if Gen.Gov.depositActivates p'.status (isAllGTE p'.totalDeposit g1.params.minDeposit) (p'.kind == "claim")
                then activateVotingPeriod e g1 p' else g1
      .ok { w with l := l', g := { g2 with deposits := upsertDeposit pid depositor amt g2.deposits } }

/-- the proposal handler of each kind; `none` = kind whose effect is not modelled (treated as success without effect) -/
def runHandler (w : World) (p : Proposal) : Except Err World :=
  if p.kind == "certifierUpdate" then
    match Cert.handleUpdate w.c p.cuCertifier p.cuAlias p.cuProposer p.cuAdd with
    | .error x => .error x
    | .ok c' => .ok { w with c := c' }
  else .ok w

def submit (e : Env) (w : World) (proposer : Addr) (p0 : Proposal) (deposit : Coins) : Except Err World :=
  let council := isCouncil e w.c proposer
  if Coins.isAnyNegative deposit then err "basic:gov:invalid-deposit"
  else if Gen.Gov.submitRefused (Coins.amountOf deposit e.bond) (Coins.amountOf w.g.params.minInitial e.bond) council then err "gov:insufficient-initial-deposit"
  else if Gen.Gov.validatedKinds.contains p0.kind && p0.kind == "certifierUpdate" && p0.cuAlias != "" && Cert.hasAlias w.c p0.cuAlias then err "cert:repeated-alias"
  else match runHandler w p0 with     -- dry run in a discarded cache context
  | .error _ => err "gov:invalid-content"
  | .ok _ =>
    let p : Proposal := { p0 with id := w.g.nextId, status := 1, isCouncil := council, proposer := proposer, totalDeposit := [],
                                  submitTime := e.t, depositEnd := e.t + w.g.params.depositPeriod,
                                  votingStart := zeroTime, votingEnd := zeroTime, tally := ⟨0, 0, 0, 0⟩ }
    let g1 := { (setP w.g p) with nextId := w.g.nextId + 1 }
    if council then .ok { w with g := activateVotingPeriod e g1 p }
    else addDeposit e { w with g := g1 } p.id proposer deposit

def isCertifiedIdentity (c : Cert.State) (a : Addr) : Bool :=
  c.certs.any (fun x => x.kind == "identity" && x.content == a)

def setVote (pid : Nat) (a : Addr) (o : Nat) : List Vote → List Vote
  | [] => [{ pid := pid, voter := a, option := o }]
  | v :: vs => if v.pid == pid && v.voter == a then { v with option := o } :: vs else v :: setVote pid a o vs

def vote (w : World) (pid : Nat) (voter : Addr) (option : Nat) : Except Err World :=
  if !(Gen.Gov.validOption option) then err "basic:gov:invalid-vote"   -- MsgVote.ValidateBasic, before the ante handler
  else match findP w.g pid with
  | none => err "gov:unknown-proposal"
  | some p =>
    if Gen.Gov.voteInactive p.status then err "gov:inactive-proposal"
    else if p.status == 2 && !(Gen.Gov.certifierRoundOption option) then err "gov:invalid-vote-certifier-round"
    else if p.status == 2 && !Cert.isCertifier w.c voter then err "gov:not-certifier"
    else if p.kind == "claim" && p.status == 3 && !isCertifiedIdentity w.c voter then err "gov:not-certified-identity"
    else .ok { w with g := { w.g with votes := setVote pid voter option w.g.votes } }

/-! ### Tally -/

structure Results where
  yes : Dec := Dec.zero
  abstain : Dec := Dec.zero
  no : Dec := Dec.zero
  veto : Dec := Dec.zero
  total : Dec := Dec.zero
  deriving Inhabited

def Results.addTo (r : Results) (opt : Nat) (p : Dec) : Results :=
  let r := { r with total := Dec.add r.total p }
  match opt with
  | 1 => { r with yes := Dec.add r.yes p }
  | 2 => { r with abstain := Dec.add r.abstain p }
  | 3 => { r with no := Dec.add r.no p }
  | 4 => { r with veto := Dec.add r.veto p }
  | _ => r

def Results.tally (r : Results) : Tally :=
  ⟨Dec.truncateInt r.yes, Dec.truncateInt r.abstain, Dec.truncateInt r.no, Dec.truncateInt r.veto⟩

/-- insertion sort of votes by voter address (store order) -/
def insVote (v : Vote) : List Vote → List Vote
  | [] => [v]
  | x :: xs => if v.voter ≤ x.voter then v :: x :: xs else x :: insVote v xs
def sortVotes (l : List Vote) : List Vote := l.foldr insVote []

structure ValInfo where
  addr : Addr
  tokens : Int
  shares : Dec
  deductions : Dec
  vote : Nat

/-- a delegator's vote: its shares in every bonded validator -/
def delegatorVoting (e : Env) (v : Vote) (vals : List ValInfo) (r : Results) : List ValInfo × Results :=
  (e.stake.dels.filter (·.1 == v.voter)).foldl (fun (acc : List ValInfo × Results) d =>
    match acc.1.find? (·.addr == d.2.1) with
    | none => acc
    | some vi =>
      let power := Dec.mulInt (Dec.quo d.2.2 vi.shares) vi.tokens
      (acc.1.map (fun x => if x.addr == vi.addr then { x with deductions := Dec.add x.deductions d.2.2 } else x),
       acc.2.addTo v.option power)) (vals, r)

/-- `passAndVetoStakeResult` -/
def stakePassVeto (bonded : Int) (r : Results) (tp : TallyParams) : Bool × Bool :=
  if Gen.Gov.stakeNoBonded bonded then (false, false)
  else if Gen.Gov.stakeBelowQuorum (Gen.Gov.stakePercent r.total bonded) tp.quorum then (false, false)
  else if Gen.Gov.stakeAllAbstain r.total r.abstain then (false, false)
  else if Gen.Gov.stakeVetoed r.veto r.total tp.veto then (false, true)
  else if Gen.Gov.stakePasses r.yes r.total r.abstain tp.threshold then (true, false)
  else (false, false)

/-- `passAndVetoStakeResultForShieldClaim`: the denominator is the stake of certified identities -/
def claimPassVeto (bonded : Int) (r : Results) (tp : TallyParams) : Bool × Bool :=
  if Gen.Gov.claimNoBonded bonded then (false, false)
  else if Gen.Gov.claimBelowQuorum (Gen.Gov.claimPercent r.total bonded) tp.quorum then (false, false)
  else if Gen.Gov.claimAllAbstain r.total r.abstain then (false, false)
  else if Gen.Gov.claimVetoed r.veto r.total tp.veto then (false, true)
  else if Gen.Gov.claimPasses r.yes r.total r.abstain tp.threshold then (true, false)
  else (false, false)

/-- `Tally` (stake round): returns pass, veto, the stored result; the votes of the proposal are deleted -/
def stakeTally (e : Env) (g : State) (p : Proposal) (claimDenominator : Int) : Bool × Bool × Tally × State :=
  let vals0 : List ValInfo := e.stake.vals.map (fun v => { addr := v.1, tokens := v.2.1, shares := v.2.2, deductions := Dec.zero, vote := 0 })
  let mine := sortVotes (g.votes.filter (·.pid == p.id))
  let (vals1, r1) := mine.foldl (fun (acc : List ValInfo × Results) v =>
    if acc.1.any (·.addr == v.voter) then (acc.1.map (fun x => if x.addr == v.voter then { x with vote := v.option } else x), acc.2)
    else delegatorVoting e v acc.1 acc.2) (vals0, ({} : Results))
  let r2 := vals1.foldl (fun (r : Results) vi =>
    if vi.vote == 0 then r
    else r.addTo vi.vote (Dec.mulInt (Dec.quo (Dec.sub vi.shares vi.deductions) vi.shares) vi.tokens)) r1
  let tp := if Gen.Gov.certStakeTallyKinds.contains p.kind then g.params.certStake else g.params.default
  let pv := if p.kind == "claim" then claimPassVeto claimDenominator r2 tp else stakePassVeto e.stake.totalBonded r2 tp
  (pv.1, pv.2, r2.tally, { g with votes := g.votes.filter (fun v => !(v.pid == p.id)) })

/-- `SecurityTally`: one certifier one vote; returns pass, endVoting, result -/
def securityTally (g : State) (c : Cert.State) (p : Proposal) : Bool × Bool × Tally :=
  -- only the certifiers in office when the round is tallied have a vote (a vote cast by a certifier removed since is skipped)
  let mine := g.votes.filter (fun v => v.pid == p.id && v.option != 0 && Cert.isCertifier c v.voter)
  let r := mine.foldl (fun (r : Results) v => r.addTo v.option Dec.one) ({} : Results)
  let n := c.certifiers.length
  let tp := g.params.security
  let pass :=
    if Gen.Gov.secNoCertifiers (Dec.ofInt n) then false
    else if Gen.Gov.secBelowQuorum (Gen.Gov.secPercent r.total (Dec.ofInt n)) tp.quorum then false
    else if Gen.Gov.secNoVotes r.total then false
    else Gen.Gov.secPasses r.yes r.total tp.threshold
  let isCert := p.kind == "certifierUpdate"
  (pass, Gen.Gov.endVoting pass isCert, r.tally)

/-! ### End blocker -/

def refundDeposits (e : Env) (w : World) (pid : Nat) : Except Err World :=
  let mine := w.g.deposits.filter (·.pid == pid)
  let rec go : List Deposit → Ledger → Except Err Ledger
    | [], l => .ok l
    | d :: ds, l => match l.send e.modAddr d.depositor d.amount with
      | .error _ => panicE "gov:RefundDeposits-send"
      | .ok l' => go ds l'
  match go mine w.l with
  | .error x => .error x
  | .ok l' => .ok { w with l := l', g := { w.g with deposits := w.g.deposits.filter (fun d => !(d.pid == pid)) } }

def burnDeposits (e : Env) (w : World) (pid : Nat) : Except Err World :=
  let mine := w.g.deposits.filter (·.pid == pid)
  let total := mine.foldl (fun acc d => Coins.add acc d.amount) ([] : Coins)
  if !(Coins.covers (w.l.bal e.modAddr) total) then panicE "gov:DeleteDeposits-burn"
  else .ok { w with l := w.l.burn e.modAddr total, g := { w.g with deposits := w.g.deposits.filter (fun d => !(d.pid == pid)) } }

/-- finalise with the handler -/
def finish (w : World) (p : Proposal) (pass : Bool) (t : Tally) : World :=
  if pass then
    match runHandler w p with
    | .ok w' => { w' with g := setP w'.g { p with status := 4, tally := t } }
    | .error _ => { w with g := setP w.g { p with status := 6, tally := t } }
  else { w with g := setP w.g { p with status := 5, tally := t } }

def processActive (e : Env) (w : World) (p : Proposal) : Except Err World :=
  if p.status == 2 then
    let (pass, endVoting, t) := securityTally w.g w.c p
    if !endVoting then
      let g1 := { w.g with votes := w.g.votes.filter (fun v => !(v.pid == p.id)) }
      .ok { w with g := activateVotingPeriod e g1 p }
    else match refundDeposits e w p.id with
      | .error x => .error x
      | .ok w1 => .ok (finish w1 p pass t)
  else
    let (pass, veto, t, g1) := stakeTally e w.g p 0
    let w1 := { w with g := g1 }
    if veto then
      match burnDeposits e w1 p.id with
      | .error x => .error x
      | .ok w2 => .ok (finish w2 p pass t)
    else match refundDeposits e w1 p.id with
      | .error x => .error x
      | .ok w2 => .ok (finish w2 p pass t)

def processSecurityVote (e : Env) (w : World) (p : Proposal) : Except Err World :=
  if p.status != 2 then .ok w
  else
    let (pass, endVoting, t) := securityTally w.g w.c p
    if !pass then .ok w
    else if endVoting then
      match (if Gen.Gov.earlyPassRefunds then refundDeposits e w p.id else .ok w) with
      | .error x => .error x
      | .ok w1 => .ok (finish w1 p true t)
    else
      let g1 := { w.g with votes := w.g.votes.filter (fun v => !(v.pid == p.id)) }
      .ok { w with g := activateVotingPeriod e g1 p }

def insByKey (k : Proposal → Int) (p : Proposal) : List Proposal → List Proposal
  | [] => [p]
  | x :: xs => if k p < k x || (k p == k x && p.id ≤ x.id) then p :: x :: xs else x :: insByKey k p xs
def sortByKey (k : Proposal → Int) (l : List Proposal) : List Proposal := l.foldr (insByKey k) []

def foldIds (f : World → Proposal → Except Err World) : List Nat → World → Except Err World
  | [], w => .ok w
  | id :: ids, w => match findP w.g id with
    | none => foldIds f ids w
    | some p => match f w p with
      | .error x => .error x
      | .ok w' => foldIds f ids w'

def endBlock (e : Env) (w : World) : Except Err World :=
  -- 1. proposals whose deposit period ended
  let inactive := (sortByKey (·.depositEnd) (w.g.proposals.filter (fun p => p.status == 1 && p.depositEnd ≤ e.t))).map (·.id)
  match foldIds (fun w p => refundDeposits e { w with g := delP w.g p.id } p.id) inactive w with
  | .error x => .error x
  | .ok w1 =>
    -- 2. proposals whose voting period ended
    let active := (sortByKey (·.votingEnd) (w1.g.proposals.filter (fun p => (p.status == 2 || p.status == 3) && p.votingEnd ≤ e.t))).map (·.id)
    match foldIds (processActive e) active w1 with
    | .error x => .error x
    | .ok w2 =>
      -- 3. early decision of the certifier round
      let all := (sortByKey (·.votingEnd) (w2.g.proposals.filter (fun p => p.status == 2 || p.status == 3))).map (·.id)
      foldIds (processSecurityVote e) all w2

end Shentu.Gov
