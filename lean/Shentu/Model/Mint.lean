import Shentu.Model.Bank
import Shentu.Gen.Mint
/-
  Executable model of x/mint's BeginBlocker (x/mint/abci.go, x/mint/keeper/keeper.go).

  The block provision is minted into the mint module account and split three ways:
  a share for the community pool (community pool / supply), a share for the shield
  rewards (global stake-for-shield pool / supply), the rest for the fee collector.
  The arithmetic (`cpRatio`, `sspRatio`, `poolMint`) is *regenerated* from the Go
  source on every run (`Shentu.Gen.Mint`); how BeginBlocker puts the shares together
  is pinned by the tie theorems of Props/C01m.lean.

  The size of the provision (inflation, annual provisions: the SDK's minter) is an
  input of the model: it is read off the implementation as the growth of the supply.
-/
namespace Shentu.Mint
open Shentu

/-- the module accounts BeginBlocker touches -/
structure Accts where
  mint : Addr
  feeCollector : Addr
  distr : Addr
  shield : Addr
  deriving Repr, Inhabited

/-- `GetCommunityPoolRatio`: the bond-denomination entry of the community pool (if there is one) over the bond
    supply. `Dec.Quo` panics on a zero divisor. -/
def cpRatio (cp : Option Dec) (supply : Int) : Except Err Dec :=
  match cp with
  | none => .ok Dec.zero
  | some c => if (Gen.Mint.supplyDecCp supply).raw == 0 then panicE "mint:quo-by-zero"
              else .ok (Gen.Mint.cpRatio c (Gen.Mint.supplyDecCp supply))

/-- `GetShieldStakeForShieldPoolRatio` -/
def sspRatio (pool supply : Int) : Dec :=
  if Gen.Mint.sspZeroGuard (Gen.Mint.supplyDecSsp supply) then Dec.zero
  else Gen.Mint.sspRatio pool (Gen.Mint.supplyDecSsp supply)

/-- `GetPoolMint`: ratio × provision, truncated -/
def poolMint (ratio : Dec) (minted : Int) : Int := Gen.Mint.poolMintAmt (Gen.Mint.poolMintDec ratio minted)

structure Split where
  fees : Int
  cp : Int
  ssp : Int
  deriving Repr, DecidableEq, Inhabited

/-- the three shares. `sdk.NewCoin` panics on a negative amount, `Coins.Sub` on a negative result. -/
def split (minted : Int) (rc rs : Dec) : Except Err Split :=
  let c := poolMint rc minted
  let s := poolMint rs minted
  if c < 0 || s < 0 then panicE "mint:negative-coin"
  else if minted - c < 0 then panicE "mint:coins-sub"
  else if minted - c - s < 0 then panicE "mint:coins-sub"
  else .ok ⟨minted - c - s, c, s⟩

/-- `BeginBlocker` on the ledger: mint, read the ratios (the supply already contains the provision), send the three
    shares. A share of zero is not sent (`SendToCommunityPool`, `SendToShieldRewards`). -/
def beginBlock (a : Accts) (bond : Denom) (l : Ledger) (minted : Int) (cp : Option Dec) (pool : Int) : Except Err (Ledger × Split) := do
  if minted < 0 then panicE "mint:negative-coin"
  let l1 := l.mint a.mint [(bond, minted)]
  let supply := Coins.amountOf l1.supply bond
  let rc ← cpRatio cp supply
  let sp ← split minted rc (sspRatio pool supply)
  let l2 := l1.move a.mint a.feeCollector [(bond, sp.fees)]
  let l3 := if Gen.Mint.sendCpSkips sp.cp then l2 else l2.move a.mint a.distr [(bond, sp.cp)]
  let l4 := if Gen.Mint.sendSspSkips sp.ssp then l3 else l3.move a.mint a.shield [(bond, sp.ssp)]
  .ok (l4, sp)

end Shentu.Mint
