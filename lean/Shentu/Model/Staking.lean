import Shentu.Model.Bank
/-
  What C09 says about staking, as an executable specification.

  The Cosmos SDK staking keeper is a dependency (modelled, not verified).  What the repository owns is the wiring:
  x/staking/module.go must run the SDK end-blocker and hand its validator updates to consensus, app.go must order the
  end-blockers, and x/shield may delay (never advance) unbonding entries.  The specification below is what consensus must
  see: after every block its view of the validator set is the set of validators that deserve to be bonded, and every
  unbonding entry whose time has come is paid back.
-/
namespace Shentu.Staking

structure Val where
  op : Addr            -- operator address (hex): ties in power are broken by the lower address
  pk : String          -- consensus public key
  tokens : Int
  jailed : Bool
  deriving Inhabited, DecidableEq

/-- `sdk.TokensToConsensusPower` with the default power reduction 10^6 -/
def powerOf (tokens : Int) : Int := tokens / 1000000

abbrev View := List (String × Int)       -- consensus' validator set: public key ↦ power (> 0)

def insVal (v : Val) : List Val → List Val
  | [] => [v]
  | x :: xs =>
    if powerOf v.tokens > powerOf x.tokens || (powerOf v.tokens == powerOf x.tokens && v.op ≤ x.op) then v :: x :: xs
    else x :: insVal v xs
/-- by power, highest first; equal powers by operator address, lowest first (the order of the power index) -/
def ranked (vs : List Val) : List Val := vs.foldr insVal []

/-- the validators that deserve to be bonded: not jailed, non-zero power, the `maxN` strongest -/
def target (vs : List Val) (maxN : Nat) : View :=
  ((ranked (vs.filter (fun v => !v.jailed && powerOf v.tokens > 0))).take maxN).map (fun v => (v.pk, powerOf v.tokens))

/-- the power consensus holds for a key (0 = not in the set) -/
def lookup : View → String → Int
  | [], _ => 0
  | e :: es, pk => if e.1 == pk then e.2 else lookup es pk

/-- the updates consensus must receive to move from `last` to `next`: changed or new powers, and power 0 for those that left -/
def updates (last next : View) : View :=
  (next.filter (fun e => lookup last e.1 != e.2)) ++
  ((last.filter (fun e => !(next.any (·.1 == e.1)))).map (fun e => (e.1, 0)))

/-- what consensus does with one update -/
def applyOne (w : View) (u : String × Int) : View :=
  let w' := w.filter (fun e => !(e.1 == u.1))
  if u.2 == 0 then w' else w' ++ [u]
def applyUpdates (w : View) (us : View) : View := us.foldl applyOne w

/-- two views agree as maps -/
def sameView (a b : View) : Prop := ∀ pk, lookup a pk = lookup b pk
def insStr (x : String × Int) : List (String × Int) → List (String × Int)
  | [] => [x]
  | y :: ys => if x.1 ≤ y.1 then x :: y :: ys else y :: insStr x ys
def canonView (w : View) : View := (w.filter (·.2 != 0)).foldr insStr []
def sameViewB (a b : View) : Bool := canonView a == canonView b

/-! ### unbonding queue -/
structure Ubd where
  del : Addr
  val : Addr
  balance : Int
  time : Int
  height : Int
  deriving Inhabited, DecidableEq

/-- the end-blocker completes every entry whose time has come and pays it back to the delegator -/
def matured (now : Int) (q : List Ubd) : List Ubd := q.filter (·.time ≤ now)
def pending (now : Int) (q : List Ubd) : List Ubd := q.filter (fun u => !(u.time ≤ now))
def payBack (l : Ledger) (pool : Addr) (bond : Denom) : List Ubd → Ledger
  | [] => l
  | u :: us => payBack (l.move pool u.del [(bond, u.balance)]) pool bond us
def completeUnbondings (l : Ledger) (pool : Addr) (bond : Denom) (now : Int) (q : List Ubd) : Ledger × List Ubd :=
  (payBack l pool bond (matured now q), pending now q)

def returnedTo (a : Addr) (us : List Ubd) : Int := ((us.filter (·.del == a)).map (·.balance)).sum

end Shentu.Staking
