import Shentu.Gen.Gas
import Shentu.Base.Keccak
import Shentu.EVM.Monad
import Shentu.EVM.Bytes
/-
  Executable model of ONE frame of the chain's EVM interpreter, exactly as
  /repo/vm/contract.go (execute, gasLookUp, subslice), gas.go, memory.go, utils.go and
  Burrow v0.31.0's Stack / dynamicMemory / errors.Maybe behave — quirks included.
  Every cost comes from `Shentu.Gen.Gas` (generated from op_table.go / gas.go).
  The call family, CREATE / CREATE2, BALANCE, EXTCODE*, BLOCKHASH and SELFDESTRUCT are modelled over an account cache
  (`World`); callee and constructor frames are run by the `ChildFn` the frame is given (`runDepth`).
  Outside the model (`Step.unsupported`): native / precompile addresses, re-use of an address destroyed earlier in the
  transaction, nesting deeper than `runDepth`'s bound.  The address CREATE derives is SHA-256 based and is an input of
  the model (`Env.fresh`); the address of CREATE2 is computed (Keccak-256).
-/
namespace Shentu.EVM
open Shentu.Gen.Gas (OpInfo Dyn MemRule)

/-- One Boolean per known deviation of the implementation from the Ethereum Yellow Paper /
    execution-specs semantics: `true` = behave like /repo/vm, `false` = behave like the specification.
    `Quirks.impl` is the model that is compared with the code; `Quirks.spec` is the specification mode. -/
structure Quirks where
  /-- CALLDATALOAD / CALLDATACOPY / CODECOPY / EXTCODECOPY with an offset beyond the data raise InputOutOfBounds (spec: zero padding) -/
  readBeyondErr : Bool := true
  /-- data offsets and JUMP destinations are popped with Pop64: words ≥ 2^64 raise IntegerOverflow -/
  dataOffsetU64 : Bool := true
  /-- a zero-length memory access still grows the memory to its offset, uncharged, so MSIZE is not word aligned (spec: no access) -/
  zeroLenGrows : Bool := true
  /-- no 1024-item limit on the data stack -/
  noStackLimit : Bool := true
  /-- offsets / lengths that overflow uint64 or exceed the memory cap give IntegerOverflow / Generic errors or Go panics (spec: out of gas) -/
  hugeOffsetNotOog : Bool := true
  /-- an exception of a callee other than REVERT (out of gas, INVALID, stack underflow, failed value transfer, write in a static
      context …) is pushed into the CALLER's error sink and aborts it too (spec: the CALL pushes 0 and the caller goes on) -/
  childExceptionAborts : Bool := true
  /-- CALLCODE / DELEGATECALL / STATICCALL to an address without an account raise UnknownAddress (spec: a call into empty code succeeds) -/
  callUnknownErr : Bool := true
  /-- the return window of a call receives the whole return data, zero padded up to the window (spec: min(window, data) bytes) -/
  callOutputWindow : Bool := true
  /-- BALANCE / EXTCODESIZE / EXTCODECOPY of an address without an account raise NonExistentAccount (spec: 0 / zeros) -/
  queryUnknownErr : Bool := true
  /-- a CALL that cannot pay its value runs the callee anyway and then fails with InsufficientBalance / IntegerOverflow,
      which aborts the caller (spec: the callee is not run, the CALL pushes 0) -/
  valueFailAborts : Bool := true
  /-- the callee of a STATICCALL sees the caller's CALLVALUE (spec: 0) -/
  staticCallValue : Bool := true
  /-- a CALL without value to an address without an account creates an empty account, in the caller's frame (spec: no account) -/
  callCreatesAccount : Bool := true
  /-- BLOCKHASH of a block that is not among the last 256 raises an error (spec: 0) -/
  blockhashErr : Bool := true
  /-- frames called from a static frame are not read-only themselves: their writes fail only when written back (spec: inherited) -/
  staticNotInherited : Bool := true
  /-- SELFDESTRUCT naming the running contract itself does nothing (the contract and its balance stay; repair of a coin
      loss, C01) — spec: the balance is burnt and the account removed -/
  selfDestructSelfKeeps : Bool := true
  /-- CREATE2 derives the address from the hash of the CREATOR's deployed code (spec: the hash of the init code) -/
  create2HashesCreatorCode : Bool := true
  /-- the constructor of CREATE / CREATE2 receives the init code as its call data too (spec: empty call data) -/
  createInputIsInitCode : Bool := true
  /-- CREATE / CREATE2 in a read-only (STATICCALL) frame runs the constructor in a writable child frame and fails only when a
      successful creation is written back (spec: the instruction is an exceptional halt) -/
  staticCreateRuns : Bool := true
  /-- a CREATE whose endowment the creator cannot pay runs the constructor anyway, then pushes 0 and keeps the constructor's
      output as return data (spec: the constructor is not run, the return data is empty) -/
  unpayableCreateRuns : Bool := true
  /-- a CREATE / CREATE2 whose derived address already has an account puts DuplicateAddress into the CREATOR's error sink: the
      creator's frame fails (spec: the creation fails, 0 is pushed, the creator goes on) -/
  createCollisionAborts : Bool := true
  /-- a constructor that destroys the account being created makes InitChildCode fail (NonExistentAccount) in the CREATOR's
      frame (spec: the creation succeeds, the address is pushed) -/
  constructorSelfdestructAborts : Bool := true
  /-- no limit on the size of deployed code other than the memory cap (spec, EIP-170: more than 24576 bytes fail the creation) -/
  noCodeSizeLimit : Bool := true
  /-- Burrow's contract metadata: when the creator (or the contract it descends from) lists code hashes, a constructor whose
      returned code is not on the list makes InitChildCode fail (InvalidContractCode) in the CREATOR's frame, after the
      constructor has succeeded (spec: no such restriction) -/
  childCodeWhitelist : Bool := true
  deriving Repr, Inhabited

/-- the interpreter as it is (repaired since the first version of this record: the call output window, the call value
    seen by a STATICCALL callee, and zero-length memory operands, which no longer grow memory).  The stack limit stays a recorded deviation: Burrow's `DataStackMaxDepth` option cannot
    enforce it, because the gas functions read their operands with `Dup` + `Pop` (vm/utils.go `GetWord256`) and so overflow
    a stack of exactly 1024 words, which the specification allows. -/
def Quirks.impl : Quirks := { callOutputWindow := false, staticCallValue := false, zeroLenGrows := false }
/-- the interpreter before the repair of the zero-length memory operands (a zero-length access grew memory to its offset, for
    nothing): kept so that the defect stays a theorem about a named configuration -/
def Quirks.implBeforeZeroLenFix : Quirks := { Quirks.impl with zeroLenGrows := true }
def Quirks.spec : Quirks :=
  { readBeyondErr := false, dataOffsetU64 := false, zeroLenGrows := false, noStackLimit := false, hugeOffsetNotOog := false,
    childExceptionAborts := false, callUnknownErr := false, callOutputWindow := false, queryUnknownErr := false,
    valueFailAborts := false, staticCallValue := false, callCreatesAccount := false, blockhashErr := false,
    staticNotInherited := false, selfDestructSelfKeeps := false, create2HashesCreatorCode := false,
    createInputIsInitCode := false, staticCreateRuns := false, unpayableCreateRuns := false, createCollisionAborts := false,
    constructorSelfdestructAborts := false, noCodeSizeLimit := false, childCodeWhitelist := false }

/-- ids of the deviation points (Frame.dev) -/
def devName : Nat → String
  | 1 => "read_beyond_data" | 2 => "data_offset_uint64" | 3 => "zero_length_grows_memory" | 4 => "stack_limit"
  | 5 => "oversized_offset_panics" | 6 => "jump_dest_overflow_code"
  | 7 => "child_exception_aborts_parent" | 8 => "call_unknown_address" | 9 => "call_output_window"
  | 10 => "account_query_unknown_address" | 11 => "unpayable_call_aborts" | 12 => "static_call_value"
  | 13 => "call_creates_empty_account" | 14 => "blockhash_out_of_range" | 15 => "selfdestruct_to_self_keeps_account"
  | 16 => "create2_hashes_creator_code" | 17 => "constructor_calldata_is_init_code" | 18 => "create_in_static_context"
  | 19 => "unpayable_create_runs_constructor" | 20 => "create_collision_aborts_creator"
  | 21 => "selfdestruct_in_constructor_aborts_creator" | 22 => "code_size_limit" | 23 => "child_code_hash_whitelist"
  | _ => "unexplained"

/-- a cost no gas allowance covers (specification mode: "this instruction runs out of gas") -/
def hugeCost : Nat := 2 ^ 200

structure Env where
  q : Quirks := Quirks.impl
  code : ByteArray
  opBits : ByteArray
  input : ByteArray
  caller : Nat
  callee : Nat
  origin : Nat
  value : Nat
  height : Nat
  time : Nat        -- uint64(LastBlockTime().Unix())
  chainId : Nat     -- crypto.GetEthChainID(ChainID())
  callType : Nat := 0        -- exec.CallType: 0 Call, 1 CallCode, 2 DelegateCall, 3 StaticCall
  readOnly : Bool := false   -- this frame's cache is read-only and its event sink log-free (the callee of a STATICCALL)
  fuelCap : Nat := 2 ^ 62    -- bound on the iterations of one frame (the specification mode runs with unlimited gas)
  seq0 : Nat := 0            -- the CVM's sequence counter when this frame starts
  /-- `crypto.NewContractAddress(creator, txNonce ‖ BE64(sequence))` (SHA-256 based): an input of the model, as a function of
      the creator and the sequence number -/
  fresh : Nat → Nat → Nat := fun _ _ => 0

/-- what a call frame hands back to `CallFromSite` / `CVM.Execute` -/
structure CallRes where
  ret : ByteArray := .empty
  err : Option Err := none     -- engine.Call's error: the value transfer's first, then the code's
  gasLeft : Nat := 0
  world : World := []          -- the frame's cache at the end (adopted by the caller iff `err = none`)
  dirty : Bool := false
  removed : List Nat := []
  logs : List Log := []        -- the frame's buffered events, oldest first
  status : Nat := 0            -- 0 finished, 1 Go panic, 2 outside the model, 3 out of fuel
  seen : Nat := 0
  dev : Nat := 0
  devs : Nat := 0
  seq : Nat := 0               -- the CVM's sequence counter when the frame ended (kept by the caller whatever the outcome)

/-- runs a callee frame: environment, gas allowance, the caller's cache, destroyed accounts -/
abbrev ChildFn := Env → Nat → World → List Nat → CallRes

-- ---------------------------------------------------------------- the generated table

def noInfo : OpInfo := ⟨0, "?", 0, .none, .none⟩
def infoOf (op : Nat) : OpInfo := (Shentu.Gen.Gas.table.find? (fun i => i.code == op)).getD { noInfo with code := op }
def infoArr : Array OpInfo := Array.ofFn (n := 256) (fun i => infoOf i.val)
@[inline] def opInfo (op : Nat) : OpInfo := infoArr.getD op noInfo
def sstoreCost (i : Nat) : Nat := Shentu.Gen.Gas.sstoreCosts.getD i 0

-- ---------------------------------------------------------------- Burrow's Stack (1 gas per operation)

def push (w : Nat) : M Unit := do
  useGas 1
  let s ← getF
  setStack (w :: s.stack)

def pop : M Nat := do
  useGas 1
  let s ← getF
  match s.stack with
  | [] =>
    pushErr .dataStackUnderflow
    pure 0
  | x :: r =>
    setStack r
    pure x

/-- Stack.Pop64: words above 2^64 raise IntegerOverflow and read as 0 -/
def pop64 : M Nat := do
  let d ← pop
  if d ≥ U64 then
    pushErr .integerOverflow
    pure 0
  else pure d

def dup (n : Nat) : M Unit := do
  useGas 1
  let s ← getF
  if s.stack.length < n then pushErr .dataStackUnderflow
  else push (s.stack.getD (n - 1) 0)

def swap (n : Nat) : M Unit := do
  useGas 1
  let s ← getF
  if s.stack.length < n then pushErr .dataStackUnderflow
  else
    let top := s.stack.getD 0 0
    let other := s.stack.getD (n - 1) 0
    setStack ((s.stack.set 0 other).set (n - 1) top)

/-- vm/utils.go Get / GetWord256: Dup(n+1) then Pop — three charged stack operations, and on
    underflow the Pop removes the real top of the stack -/
def peek (n : Nat) : M Nat := do
  dup (n + 1)
  pop

-- ---------------------------------------------------------------- Burrow's dynamicMemory

/-- dynamicMemory.ensureCapacity -/
def ensureCap (m : ByteArray) (cap : Nat) : Option ByteArray :=
  if cap > maxInt32 then none
  else if cap ≤ m.size then some m
  else if cap > memCap then none
  else some (m ++ zeros (cap - m.size))

/-- Memory.Read(offset, length); `nil` is the empty string -/
def memRead (q : Quirks) (o l : Nat) : M ByteArray := do
  if l == 0 && !q.zeroLenGrows then
    return .empty
  if o ≥ U64 || l ≥ U64 then
    pushErr .generic
    return .empty
  let cap := (o + l) % U64
  let m ← takeMem
  match ensureCap m cap with
  | none =>
    setMem m
    pushErr .generic
    return .empty
  | some m' =>
    setMem m'
    if l > maxAlloc then goPanic          -- make([]byte, length)
    else if o > cap then goPanic          -- mem.slice[offset:capacity]
    else return m'.extract o cap

/-- Memory.Write(offset, value) -/
def memWrite (q : Quirks) (o : Nat) (v : ByteArray) : M Unit := do
  if v.size == 0 && !q.zeroLenGrows then
    pure ()
  else if o ≥ U64 then
    pushErr .generic
  else
    let cap := (o + v.size) % U64
    let m ← takeMem
    match ensureCap m cap with
    | none =>
      setMem m
      pushErr .generic
    | some m' =>
      if o > cap then
        setMem m'
        goPanic
      else setMem (v.copySlice 0 m' o v.size)

/-- Memory.Write of a value of `len > memCap` bytes whose content does not matter: it cannot fit,
    so the outcome is a Generic error or (after uint64 wrap-around) a Go panic -/
def memWriteBig (o len : Nat) : M Unit := do
  noteAlloc len
  if o ≥ U64 then
    pushErr .generic
  else
    let cap := (o + len) % U64
    let s ← getF
    if cap > maxInt32 || (cap > s.mem.size && cap > memCap) then pushErr .generic
    else
      let m ← takeMem
      match ensureCap m cap with
      | none =>
        setMem m
        pushErr .generic
      | some m' =>
        setMem m'
        goPanic            -- cap < o after wrap-around: mem.slice[offset:capacity]

/-- the `for mem > capacity { Write(capacity, make([]byte, mem-capacity)) … }` of gasLookUp:
    one allocation of the missing bytes, then growth (or a Generic error above the limits) -/
def memGrow (target : Nat) : M Unit := do
  let m ← takeMem
  if target ≤ m.size then setMem m
  else
    let n := target - m.size
    if n > maxAlloc then
      setMem m
      goPanic                      -- make([]byte, n): len out of range
    else
      noteAlloc n
      match ensureCap m target with
      | none =>
        setMem m
        pushErr .generic
      | some m' => setMem m'

-- ---------------------------------------------------------------- gas.go

def toWordSize (n : Nat) : Nat := if n > U64 - 1 - 31 then (U64 - 1) / 32 + 1 else (n + 31) / 32

/-- memGasCost: `none` = errGasUintOverflow -/
def memGasCost (newMemSize : Nat) : M (Option Nat) := do
  if newMemSize == 0 then return some 0
  if newMemSize > 0x1FFFFFFFE0 then return none
  let words := toWordSize newMemSize
  let s ← getF
  if words * 32 ≤ s.mem.size then return some 0
  let total := words * Shentu.Gen.Gas.MemoryGas + words * words / Shentu.Gen.Gas.QuadCoeffDiv
  setLastGasCost total
  return some ((total + U64 - s.lastGasCost) % U64)

/-- calcMemSize64WithUint -/
def memSize64U (off len : Nat) : Nat × Bool :=
  if len == 0 then (0, false)
  else if off ≥ U64 then (0, true)
  else ((off + len) % U64, off + len ≥ U64)

/-- calcMemSize64 -/
def memSize64 (off len : Nat) : Nat × Bool := if len ≥ U64 then (0, true) else memSize64U off len

def calcMemSize (r : MemRule) : M (Nat × Bool) := do
  match r with
  | .mem64 a b => let x ← peek a; let y ← peek b; pure (memSize64 x y)
  | .memUint64 a n => let x ← peek a; pure (memSize64U x n)
  | .mem64Comp a b c d =>
    let x1 ← peek a; let x2 ← peek b
    let (x, of) := memSize64 x1 x2
    if of then pure (0, true)
    else
      let y1 ← peek c; let y2 ← peek d
      let (y, of) := memSize64 y1 y2
      if of then pure (0, true) else pure (max x y, false)
  | _ => pure (0, false)

/-- memoryGas: memGasCost plus a constant, with overflow check -/
def memoryGas (mem add : Nat) : M (Option Nat) := do
  match ← memGasCost mem with
  | none => pure none
  | some g => if g + add ≥ U64 then pure none else pure (some (g + add))

def addrOf (w : Nat) : Nat := w % 2 ^ 160

/-- `GetAccount` through native.State: Burrow's precompiles answer with a sentinel account -/
def accountKnown (w : World) (a : Nat) : Bool := a ∈ [1, 2, 3, 4, 5, 20] || (w.get a).isSome

def dynGas (self : Nat) (d : Dyn) (mem : Nat) : M (Option Nat) := do
  match d with
  | .memOnly => memGasCost mem
  | .copyGas pos _ perWord =>
    match ← memGasCost mem with
    | none => pure none
    | some g =>
      let n ← peek pos
      if n ≥ U64 then pure none
      else
        let w := toWordSize n * perWord
        if w ≥ U64 || g + w ≥ U64 then pure none else pure (some (g + w))
  | .log n =>
    let size ← peek 1
    if size ≥ U64 then pure none
    else match ← memGasCost mem with
      | none => pure none
      | some g =>
        let g := g + Shentu.Gen.Gas.LogGas + n * Shentu.Gen.Gas.LogTopicGas
        let d := size * Shentu.Gen.Gas.LogDataGas
        if g ≥ U64 || d ≥ U64 || g + d ≥ U64 then pure none else pure (some (g + d))
  | .exp =>
    let y ← peek 1
    pure (some (byteLen y * Shentu.Gen.Gas.GasExpByte + Shentu.Gen.Gas.ExpGas))
  | .sstore =>
    let x ← peek 0
    let y ← peek 1
    let s ← getF
    let cur := s.world.sload self x
    if cur == 0 && y != 0 then pure (some (sstoreCost 0))
    else if cur != 0 && y == 0 then
      addRefund Shentu.Gen.Gas.sstoreRefund
      pure (some (sstoreCost 1))
    else if cur == y then pure (some (sstoreCost 2))
    else pure (some (sstoreCost 3))
  | .call =>
    let v ← peek 2
    let a ← peek 1
    let s ← getF
    let mut gas := Shentu.Gen.Gas.GasCalls
    if v != 0 && !accountKnown s.world (addrOf a) then gas := gas + Shentu.Gen.Gas.CallNewAccountGas
    if v != 0 then gas := gas + Shentu.Gen.Gas.CallValueTransferGas
    memoryGas mem gas
  | .callCode =>
    let v ← peek 2
    memoryGas mem (if v != 0 then Shentu.Gen.Gas.GasCalls + Shentu.Gen.Gas.CallValueTransferGas else Shentu.Gen.Gas.GasCalls)
  | .memoryGas add => memoryGas mem add
  | .selfdestruct =>
    let a ← peek 0
    let s ← getF
    addRefund Shentu.Gen.Gas.SelfdestructRefundGas
    pure (some (if !accountKnown s.world (addrOf a) then Shentu.Gen.Gas.GasSelfdestruct + Shentu.Gen.Gas.GasCreateBySelfdestruct
                else Shentu.Gen.Gas.GasSelfdestruct))
  | _ => pure (some 0)

def dynPart (q : Quirks) (self : Nat) (info : OpInfo) (d : Dyn) : M (Nat × Nat) := do
  let mut mem := 0
  let mut oog := false
  match info.mem with
  | .none => pure ()
  | r =>
    let (m, of) ← calcMemSize r
    let w := toWordSize m * 32
    if !q.hugeOffsetNotOog && (of || w ≥ U64 || w > memCap) then
      noteDev 5
      oog := true
    else
      if of then pushErr .integerOverflow
      if w ≥ U64 then pushErr .integerOverflow
      mem := w % U64
  if oog then return (hugeCost, 0)
  let g ← dynGas self d mem
  match g with
  | none => if q.hugeOffsetNotOog then pushErr .generic else return (hugeCost, 0)
  | some _ => pure ()
  pure (g.getD 0, mem)

/-- contract.go gasLookUp: the cost of the instruction and the (word aligned) memory size it needs.
    As side effects it charges the stack operations of its peeks and records overflow errors. -/
def gasLookUp (q : Quirks) (self : Nat) (info : OpInfo) : M (Nat × Nat) :=
  if info.dyn = .none then pure (info.static, 0)
  else dynPart q self info info.dyn >>= fun gm => pure (info.static + gm.1, gm.2)

/-- contract.go expandMemory (after the cost has been charged): nothing when the error sink is set -/
def expandMemory (mem : Nat) : M Unit := do
  let s ← getF
  if s.err.isSome then pure () else memGrow mem

-- ---------------------------------------------------------------- the instructions

inductive Ctl where
  | next                    -- pc++
  | jumped                  -- `continue`
  | halt (ret : ByteArray)  -- return ret, maybe.Error()
  | unsupported

def popSigned : M Int := do let x ← pop; pure (s256 x)
def pushInt (i : Int) : M Unit := push (ofInt i)
def pushBool (b : Bool) : M Unit := push (if b then 1 else 0)

def binop (f : Nat → Nat → Nat) : M Ctl := do
  let x ← pop; let y ← pop; push (u256 (f x y)); pure .next

def jumpTo (env : Env) (to : Nat) : M Unit := do
  let dest := if env.code.size ≤ to then 0 else (env.code.get! to).toNat
  let isOp := to < env.opBits.size && env.opBits.get! to == 1
  if dest != 0x5b || !isOp then pushErr .invalidJumpDest else setPc to

def word (b : ByteArray) : Nat := beNat b   -- LeftPadWord256 of at most 32 bytes

def copyToMem (q : Quirks) (src : ByteArray) : M Ctl := do
  let memOff ← pop
  if q.readBeyondErr || q.dataOffsetU64 then
    let off ← pop64
    let len ← pop64
    match subslice src off len with
    | .err =>
      pushErr .inputOutOfBounds
      memWrite q memOff .empty
    | .panic => goPanic
    | .ok b => memWrite q memOff b
    | .big n => memWriteBig memOff n
  else
    -- specification: bytes beyond the data read as zero (the length is bounded by the memory the cost lookup allowed)
    let off ← pop
    let len ← pop
    if off ≥ U64 then noteDev 2 else if src.size < off then noteDev 1
    memWrite q memOff (if len ≤ memCap then extractPad src off len else .empty)
  pure .next

/-- JUMP / taken JUMPI -/
def jumpWord (env : Env) (to : Nat) (viaPop64 : Bool) : M Unit := do
  if to ≥ U64 then
    if env.q.dataOffsetU64 then pushErr .integerOverflow
    else
      noteDev 6
      pushErr .invalidJumpDest
    if viaPop64 && env.q.dataOffsetU64 then jumpTo env 0   -- Pop64 read the word as 0 and the jump is still attempted
  else jumpTo env to

/-- opcodes with a case in the `switch` of execute -/
def isKnown (op : Nat) : Bool :=
  op ≤ 0x0b || (0x10 ≤ op && op ≤ 0x1d) || op == 0x20 || (0x30 ≤ op && op ≤ 0x46) || (0x50 ≤ op && op ≤ 0x5b) ||
  (0x60 ≤ op && op ≤ 0xa4) || (0xf0 ≤ op && op ≤ 0xf5) || op == 0xfa || op == 0xfd || op == 0xfe || op == 0xff

/-- instructions that end the frame: STOP, RETURN, REVERT, INVALID, SELFDESTRUCT and every unknown opcode -/
def isHalting (op : Nat) : Bool := op == 0x00 || op == 0xf3 || op == 0xfd || op == 0xfe || op == 0xff || !isKnown op

/-- instructions whose table cost can be 0 although they continue (EXP, RETURNDATACOPY, CHAINID, SSTORE, LOG0-4,
    DELEGATECALL, CREATE2, STATICCALL have `staticGas` 0): their first action is a charged stack operation -/
def isFree (op : Nat) : Bool :=
  op == 0x0a || op == 0x3e || op == 0x46 || op == 0x55 || (0xa0 ≤ op && op ≤ 0xa4) || op == 0xf4 || op == 0xf5 || op == 0xfa

/-- the return value of a halting instruction -/
def haltBody0 (env : Env) (op : Nat) : M ByteArray := do
  let q := env.q
  match op with
  | 0x00 => pure .empty
  | 0xf3 => do
    let o ← pop; let l ← pop
    memRead q o l
  | 0xfd => do
    let o ← pop; let l ← pop
    let out ← memRead q o l
    pushErr .executionReverted
    pure out
  | 0xfe => do pushErr .executionAborted; pure .empty
  | _ => do pushErr .generic; pure .empty           -- unknown opcode

/-- SELFDESTRUCT; `none` = outside the model -/
def selfdestruct (env : Env) : M (Option ByteArray) := do
  let receiver := addrOf (← pop)
  useGas 1
  let s ← getF
  if env.q.selfDestructSelfKeeps && receiver == env.callee then pure (some .empty)
  else if receiver ≤ 0xff || s.removed.contains receiver then pure none   -- outside the model: natives, re-use of a destroyed address
  else
    if receiver == env.callee then noteDev 15
    let mut stop := false
    if (s.world.get receiver).isNone then
      useGas 1
      if (s.world.get env.callee).isNone then
        pushErr .generic                 -- CreateAccount checks the creator's permission: the running contract's account is gone
        stop := true
      else if env.readOnly then
        pushErr .illegalWrite
        stop := true
      else setWorld (s.world.put { addr := receiver })
    if !stop then
      let s ← getF
      let bal := ((s.world.get env.callee).map (·.balance)).getD 0
      if (s.world.get env.callee).isNone then pushErr .nonExistentAccount
      if env.readOnly then pushErr .illegalWrite
      else
        match s.world.get receiver with
        | some r =>
          if r.balance + bal ≥ U64 then pushErr .integerOverflow
          else setWorld (s.world.put { r with balance := r.balance + bal })
        | none => pushErr .nonExistentAccount
        let s ← getF
        if (s.world.get env.callee).isNone then pushErr .duplicateAddress
        else
          setWorld (s.world.del env.callee)
          setRemoved (env.callee :: s.removed)
    pure (some .empty)

/-- the return value of a halting instruction; `none` = outside the model -/
def haltBody (env : Env) (op : Nat) : M (Option ByteArray) :=
  if op == 0xff then selfdestruct env else haltBody0 env op >>= fun b => pure (some b)

def execHalt (env : Env) (op : Nat) : M Ctl :=
  haltBody env op >>= fun r => pure (match r with | some b => .halt b | none => .unsupported)

-- ---------------------------------------------------------------- the call family

/-- engine.Transfer inside the callee's frame -/
def transfer (w : World) (frm to value : Nat) : Except Err World :=
  if value ≥ 2 ^ 63 then .error .integerOverflow            -- !amount.IsInt64()
  else if value == 0 then .ok w
  else match w.get frm with
    | none => .error .nonExistentAccount
    | some f =>
      if f.balance < value then .error .insufficientBalance
      else
        let w1 := w.put { f with balance := f.balance - value }
        match w1.get to with
        | none => .error .nonExistentAccount
        | some t => if t.balance + value ≥ U64 then .error .integerOverflow else .ok (w1.put { t with balance := t.balance + value })

/-- what `engine.CallFromSite` reports to the CALL instruction -/
structure SiteRes where
  ret : ByteArray := .empty
  err : Option Err := none
  refund : Nat := 0            -- what is added back to the frame's gas: the callee's remaining gas, or the raw operand after an early return
  logs : List Log := []        -- the callee's buffered events (flushed by the caller iff `err = none`)
  status : Nat := 0            -- 0 finished, 1 Go panic, 2 outside the model

/-- what the caller's frame looks like after the callee has returned, and what the CALL instruction is told -/
structure Settled where
  world : World
  dirty : Bool
  removed : List Nat
  res : SiteRes

/-- The commit rule of `CallFromSite`: the callee's cache is written into the caller's (`Sync`) only if the callee
    finished without error — and a read-only caller refuses any write, which turns the call into a failure.
    The callee's buffered events are handed over only in the successful case. -/
def settle (readOnly : Bool) (w : World) (dirty : Bool) (removed : List Nat) (r : CallRes) : Settled :=
  match r.err with
  | some e => ⟨w, dirty, removed, { ret := r.ret, err := some e, refund := r.gasLeft }⟩
  | none =>
    if readOnly && r.dirty then ⟨w, dirty, removed, { ret := r.ret, err := some .illegalWrite, refund := r.gasLeft }⟩
    else if r.dirty then ⟨r.world, true, r.removed, { ret := r.ret, refund := r.gasLeft, logs := r.logs }⟩
    else ⟨w, dirty, removed, { ret := r.ret, refund := r.gasLeft, logs := r.logs }⟩

/-- engine.CallFromSite (Burrow execution/engine/call.go) followed by the caller-side Sync -/
def callFromSite (child : ChildFn) (env : Env) (op gasLimit target value : Nat) (input : ByteArray) : M SiteRes := do
  let s ← getF
  if s.gas < 1 then return { err := some .insufficientGas, refund := gasLimit }     -- UseGasNegative(site.Gas, GasGetAccount)
  takeGas 1
  if target ≤ 0xff || s.removed.contains target then return { status := 2 }           -- natives / re-use of a destroyed address
  let mut w := s.world
  match w.get target with
  | some _ => pure ()
  | none =>
    if op != 0xf1 then
      if env.q.callUnknownErr then return { err := some .unknownAddress, refund := gasLimit }
      else noteDev 8                   -- specification: a call into empty code
    else if env.readOnly then
      if env.q.callCreatesAccount || value != 0 then return { err := some .illegalWrite, refund := gasLimit }
    else if env.q.callCreatesAccount || value != 0 then
      -- CALL creates the missing account in the CALLER's frame: it stays even if the call then fails
      w := w.put { addr := target }
      setWorld w
    else noteDev 13
  -- specification: a CALL / CALLCODE that cannot pay its value does not run the callee
  if !env.q.valueFailAborts && (op == 0xf1 || op == 0xf2) && value > ((w.get env.callee).map (·.balance)).getD 0 then
    noteDev 11
    return { err := some .insufficientBalance, refund := gasLimit }
  let code := ((w.get target).map (·.code)).getD .empty
  let s ← getF
  let targetGas := if s.gas < gasLimit then s.gas - s.gas / 64 else gasLimit             -- the 63/64 rule
  takeGas targetGas
  let cenv : Env := { env with
    code := code, opBits := opcodeBits code, input := input,
    value := if op == 0xfa && !env.q.staticCallValue then 0 else value,
    caller := if op == 0xf4 then env.caller else env.callee,
    callee := if op == 0xf1 || op == 0xfa then target else env.callee,
    callType := if op == 0xf1 then 0 else if op == 0xf2 then 1 else if op == 0xf4 then 2 else 3,
    readOnly := op == 0xfa || (env.readOnly && !env.q.staticNotInherited),
    seq0 := s.seq }
  if op == 0xfa && !env.q.staticCallValue && Quirks.impl.staticCallValue && value != 0 then noteDev 12   -- (repaired: no longer a deviation)
  let r := child cenv targetGas w s.removed
  orSeen r.seen r.dev r.devs
  setSeq r.seq
  if r.status != 0 then return { status := if r.status == 3 then 2 else r.status }
  let s ← getF
  let st := settle env.readOnly s.world s.dirty s.removed r
  applySettled st.world st.dirty st.removed
  return st.res

/-- `EnsurePermission(st.CallFrame, params.Callee, permission.Call)`: fails (a plain Go error, code Generic) when the
    running contract's own account is gone — a DELEGATECALL / CALLCODE callee executed SELFDESTRUCT in its place -/
def selfGone (env : Env) : M Bool := do
  let s ← getF
  pure (s.world.get env.callee).isNone

/-- binary.RightPadBytes(returnData, int(retSize)) -/
def rightPad (b : ByteArray) (l : Nat) : ByteArray := if l ≥ 2 ^ 63 || l < b.size then b else b ++ zeros (l - b.size)

/-- CALL / CALLCODE / DELEGATECALL / STATICCALL after the gas operand has been popped -/
def callRest (child : ChildFn) (env : Env) (op gasLimit : Nat) : M Ctl := do
  setRetBuf .empty
  let target := addrOf (← pop)
  let value ← if op == 0xf1 || op == 0xf2 then pop else pure env.value
  let inOff ← pop; let inSize ← pop
  let retOff ← pop
  let retSize ← pop64
  withRefund do
    let input ← memRead env.q inOff inSize
    let r ← callFromSite child env op gasLimit target value input
    if r.status == 1 then goPanic
    else if r.status != 0 then pure (.unsupported, 0)
    else
      setRetBuf r.ret
      if r.err.isSome then push 0
      else
        push 1
        -- childSink.flush(): a log-free sink refuses the first event
        if !r.logs.isEmpty then (if env.readOnly then pushErr .illegalWrite else addLogs r.logs)
      match r.err with
      | some .executionReverted | none =>
        if !env.q.callOutputWindow then
          if r.ret.size != retSize && Quirks.impl.callOutputWindow then noteDev 9   -- (repaired: no longer a deviation)
          memWrite env.q retOff (r.ret.extract 0 (min retSize r.ret.size))
        else if retSize < 2 ^ 63 && retSize > r.ret.size && retSize > memCap then memWriteBig retOff retSize
        else memWrite env.q retOff (rightPad r.ret retSize)
      | some e =>
        if env.q.childExceptionAborts then pushErr e
        else
          noteDev 7                   -- specification: the caller goes on with 0 on its stack and an empty return buffer
          setRetBuf .empty
      pure (.next, r.refund)

-- ---------------------------------------------------------------- CREATE, CREATE2

/-- EIP-170 (specification mode only) -/
def maxCodeSize : Nat := 24576

/-- crypto.NewContractAddress2(creator, salt, code): keccak256(0xff ‖ creator ‖ salt ‖ keccak256(code))[12:] -/
def create2Addr (creator salt : Nat) (code : ByteArray) : Nat :=
  addrOf (word (Keccak.keccak256 (((ByteArray.empty.push 0xff ++ natBE creator 20) ++ natBE salt 32) ++ Keccak.keccak256 code)))

/-- the opcodes that read the call data (bit set over `Frame.seen`) -/
def calldataOps : Nat := (1 <<< 0x35) ||| (1 <<< 0x36) ||| (1 <<< 0x37)

/-- The address of the account to be created.  CREATE: `c.sequence++` — the counter is a field of the CVM, shared by every
    frame of the transaction and never rolled back — then the SHA-256 based derivation, an input of the model.
    CREATE2: pops the salt and hashes the CREATOR's deployed code. -/
def deriveAddr (env : Env) (op : Nat) (input : ByteArray) : M Nat := do
  if op == 0xf0 then
    let s ← getF
    setSeq (s.seq + 1)
    pure (env.fresh env.callee (s.seq + 1))
  else
    let salt ← pop
    let s ← getF
    if (s.world.get env.callee).isNone then pushErr .nonExistentAccount            -- MustGetAccount(…, params.Callee)
    let own := ((s.world.get env.callee).map (·.code)).getD .empty
    let a := create2Addr env.callee salt own
    if env.q.create2HashesCreatorCode then pure a
    else
      let a' := create2Addr env.callee salt input
      if a' != a then noteDev 16
      pure a'

/-- what the creator's frame looks like after the constructor has returned, and what the CREATE instruction does with it -/
structure Created where
  world : World
  dirty : Bool
  removed : List Nat
  err : Option Err := none       -- goes into the CREATOR's error sink (InitChildCode, Sync)
  logs : List Log := []          -- the constructor's buffered events, flushed into the creator's sink
  pushed : Nat := 0              -- the word the instruction pushes: the new address, or 0
  retBuf : ByteArray := .empty   -- the return-data buffer afterwards

/-- compile.GetDeployCodeHash: "libraries lie about their deployed bytecode" — code that starts with PUSH20 of the contract's
    own address is hashed with that address zeroed -/
def deployCodeHash (code : ByteArray) (addr : Nat) : Nat :=
  let pre := ByteArray.empty.push 0x73 ++ natBE addr 20
  if code.size ≥ 21 && code.extract 0 21 == pre then
    word (Keccak.keccak256 ((ByteArray.empty.push 0x73 ++ zeros 20) ++ code.extract 21 code.size))
  else word (Keccak.keccak256 code)

/-- the contract whose metadata governs what `creator` may create, and which becomes the new contract's forebear: the
    creator's own forebear if it has one, else the creator.  `none`: an account that is looked up does not exist. -/
def ancestorOf (creator : Nat) (w : World) : Option Account :=
  match w.get creator with
  | none => none
  | some c =>
    match c.forebear with
    | none => some c
    | some f => w.get f

/-- what InitChildCode records as the new contract's forebear: the creator when it has none itself; otherwise — the code reads
    `forebear = ancestor.Forebear` AFTER `ancestor` has been replaced by the creator's forebear — the forebear's own forebear.
    A contract set up by `engine.InitEVMCode` is its own forebear, so the root is handed down; a root that records none (an
    account as x/cvm's keeper rebuilds it from the store: the field is not persisted) breaks the chain after its children. -/
def forebearOf (creator : Nat) (w : World) : Option Nat :=
  match w.get creator with
  | none => none
  | some c =>
    match c.forebear with
    | none => some creator
    | some f => (w.get f).bind (·.forebear)

/-- InitChildCode dereferences a nil account when the creator's forebear does not exist (any more): the error message is
    built from `*ancestor.Forebear` after `ancestor == nil` — a Go panic -/
def initChildPanics (creator addr : Nat) (w : World) : Bool :=
  match w.get addr, w.get creator with
  | some acc, some c =>
    acc.code.size == 0 && (match c.forebear with | some f => (w.get f).isNone | none => false)
  | _, _ => false

/-- `codehashPermitted` over the ancestor's metadata (an empty list permits everything) -/
def codePermitted (metaList : List Nat) (code : ByteArray) (addr : Nat) : Bool :=
  metaList.isEmpty || metaList.contains (word (Keccak.keccak256 code)) || metaList.contains (deployCodeHash code addr)

/-- the error of `engine.InitChildCode(childCallFrame, addr, creator, code)` on the constructor's accounts `w`: the new account
    must (still) exist and have no code, the creator and its forebear must exist, and the code's hash must be permitted by
    the ancestor's metadata -/
def initChildErr (q : Quirks) (creator addr : Nat) (code : ByteArray) (w : World) : Option Err :=
  match w.get addr with
  | none => if q.constructorSelfdestructAborts then some .nonExistentAccount else none   -- the constructor destroyed the account it was creating
  | some acc =>
    if acc.code.size != 0 then some .illegalWrite                       -- `acc.EVMCode != nil`
    else match ancestorOf creator w with
      | none => some .nonExistentAccount
      | some anc => if q.childCodeWhitelist && !codePermitted anc.allowed code addr then some .invalidContractCode else none

/-- what `InitChildCode` writes when it has no error: the returned bytes become the new account's code, and the account
    records its forebear -/
def initChildCode (creator addr : Nat) (code : ByteArray) (w : World) : World :=
  match w.get addr with
  | none => w
  | some acc => w.put { acc with code := code, forebear := forebearOf creator w }

/-- The commit rule of CREATE / CREATE2.  A constructor that ended with an error (revert, out of gas, any exception, a
    failed endowment) leaves the creator's frame as it was: 0 is pushed and the constructor's output is the return data.
    Otherwise `InitChildCode` stores the returned bytes as the new account's code inside the child frame, the child frame is
    written into the creator's (`Sync` — refused by a read-only creator) and the events are handed over; the errors of
    these steps go into the CREATOR's error sink. -/
def settleCreate (q : Quirks) (readOnly : Bool) (creator addr : Nat) (w : World) (dirty : Bool) (removed : List Nat)
    (r : CallRes) : Created :=
  match r.err with
  | some _ => { world := w, dirty := dirty, removed := removed, retBuf := r.ret }
  | none =>
    if !q.noCodeSizeLimit && r.ret.size > maxCodeSize then { world := w, dirty := dirty, removed := removed }
    else
      let e1 := initChildErr q creator addr r.ret r.world
      if readOnly then
        { world := w, dirty := dirty, removed := removed, err := if e1.isSome then e1 else some .illegalWrite, logs := r.logs, pushed := addr }
      else
        { world := if e1.isSome then r.world else initChildCode creator addr r.ret r.world, dirty := true, removed := r.removed,
          err := e1, logs := r.logs, pushed := addr }

/-- statistics and deviation points of a finished constructor (no effect on the execution) -/
def createNotes (env : Env) (addr : Nat) (input : ByteArray) (r : CallRes) : M Unit := do
  -- a constructor that ran out of gas is not an error of the creator (bit 256 of `seen`)
  if r.err == some .insufficientGas then noteSeen 256
  if !env.q.createInputIsInitCode && input.size != 0 && r.seen &&& calldataOps != 0 then noteDev 17
  if !env.q.noCodeSizeLimit && r.err.isNone && r.ret.size > maxCodeSize then noteDev 22
  if !env.q.constructorSelfdestructAborts && r.err.isNone && (r.world.get addr).isNone then noteDev 21
  if !env.q.childCodeWhitelist && r.err.isNone &&
      (initChildErr { env.q with childCodeWhitelist := true } env.callee addr r.ret r.world) == some .invalidContractCode then noteDev 23

/-- CREATE / CREATE2, last part: the constructor's frame has returned `r` (status 0) -/
def createAfter (env : Env) (addr : Nat) (input : ByteArray) (r : CallRes) : M Ctl := do
  createNotes env addr input r
  if r.err.isNone && initChildPanics env.callee addr r.world then goPanic
  else
    let s ← getF
    let c := settleCreate env.q env.readOnly env.callee addr s.world s.dirty s.removed r
    applySettled c.world c.dirty c.removed
    match c.err with
    | some e => pushErr e
    | none => pure ()
    -- childSink.flush(): a log-free sink refuses the first event
    if !c.logs.isEmpty then (if env.readOnly then pushErr .illegalWrite else addLogs c.logs)
    setRetBuf c.retBuf
    push c.pushed
    pure .next

/-- the accounts the constructor's frame starts with: `engine.CreateAccount(childCallFrame, addr)` adds the new, empty account
    unless the address is in use -/
def createWorld (w : World) (addr : Nat) : World := if (w.get addr).isSome then w else w.put { addr := addr }

/-- the constructor's call parameters: the init code is code and (in the implementation) call data, the creator is the
    caller, the new address the callee; `seq` is the CVM's sequence counter at this point -/
def createEnv (env : Env) (value addr : Nat) (input : ByteArray) (seq : Nat) : Env :=
  { env with
    code := input, opBits := opcodeBits input, input := if env.q.createInputIsInitCode then input else .empty,
    value := value, caller := env.callee, callee := addr, callType := 0,
    readOnly := env.readOnly && !env.q.staticNotInherited, seq0 := seq }

theorem createEnv_q (env : Env) (value addr : Nat) (input : ByteArray) (seq : Nat) : (createEnv env value addr input seq).q = env.q := rfl

/-- CREATE / CREATE2, middle part: the child frame in which the new account exists, and the constructor's run in it -/
def createRun (child : ChildFn) (env : Env) (value addr : Nat) (input : ByteArray) : M Ctl := do
  let s ← getF
  let taken := (s.world.get addr).isSome
  -- engine.CreateAccount(childCallFrame, addr): the account exists in the child frame only; an address in use is an error
  -- of the CREATOR's frame (and the constructor still runs, on the account that is there)
  if taken then pushErr .duplicateAddress
  let s ← getF
  -- `Gas: params.Gas`: the constructor runs on the creator's own gas
  let r := child (createEnv env value addr input s.seq) s.gas (createWorld s.world addr) s.removed
  orSeen r.seen r.dev r.devs
  setSeq r.seq
  leaveGas r.gasLeft
  if r.status == 1 then goPanic
  else if r.status != 0 then pure .unsupported
  else createAfter env addr input r

/-- CREATE / CREATE2 after the endowment has been popped (vm/contract.go `case CREATE, CREATE2`) -/
def createRest (child : ChildFn) (env : Env) (op value : Nat) : M Ctl := do
  setRetBuf .empty
  let off ← pop; let size ← pop
  if env.readOnly && !env.q.staticCreateRuns then
    noteDev 18                        -- specification: no creation in a static context
    pushErr .illegalWrite
    return .next
  let input ← memRead env.q off size
  useGas Shentu.Gen.Gas.GasCreateAccount
  let addr ← deriveAddr env op input
  if ← selfGone env then
    pushErr .generic                  -- EnsurePermission(…, CreateContract): the running contract's own account is gone; `continue`
    return .jumped
  let s ← getF
  if addr ≤ 0xff || s.removed.contains addr then return .unsupported      -- natives / re-use of a destroyed address
  if (s.world.get addr).isSome && !env.q.createCollisionAborts then
    noteDev 20                        -- specification: the creation fails, the creator goes on
    push 0
    return .next
  if !env.q.unpayableCreateRuns && (value ≥ 2 ^ 63 || value > ((s.world.get env.callee).map (·.balance)).getD 0) then
    noteDev 19                        -- specification: the constructor is not run
    push 0
    return .next
  createRun child env value addr input

/-- what EXP, RETURNDATACOPY, SSTORE, LOGn, DELEGATECALL, CREATE2 and STATICCALL do after their first Pop -/
def freeRest (child : ChildFn) (env : Env) (op : Nat) (a : Nat) : M Ctl := do
  match op with
  | 0x0a => do
    let x := a; let y ← pop
    push (modPow x y W); pure .next
  | 0x3e => do
    let memOff := a; let off ← pop; let len ← pop
    let s ← getF
    if off + len ≥ U64 || s.retBuf.size < off + len then
      pushErr .returnDataOutOfBounds
      pure .jumped
    else
      memWrite env.q memOff (s.retBuf.extract off (off + len))
      pure .next
  | 0x55 => do
    let k := a; let v ← pop
    useGas 1
    if env.readOnly then pushErr .illegalWrite
    else
      let s ← getF
      if (s.world.get env.callee).isNone then pushErr .illegalWrite else setWorld (s.world.sstore env.callee k v)
    pure .next
  | 0xf4 => do if ← selfGone env then pure .unsupported else callRest child env op a
  | 0xf5 => createRest child env op a
  | 0xfa => do if ← selfGone env then pure .unsupported else callRest child env op a
  | _ => do                                        -- LOG0 … LOG4
    let o := a; let l ← pop
    let mut topics : List Nat := []
    for _ in [0:op - 0xa0] do
      topics := (← pop) :: topics
    let data ← memRead env.q o l
    if env.readOnly then pushErr .illegalWrite else addLog ⟨env.callee, topics.reverse, data⟩
    pure .next

def execFree (child : ChildFn) (env : Env) (op : Nat) : M Ctl :=
  if op == 0x46 then push (u256 env.chainId) >>= fun _ => pure .next
  else pop >>= fun a => freeRest child env op a

/-- BALANCE, EXTCODESIZE, EXTCODECOPY, EXTCODEHASH, BLOCKHASH -/
def execQuery (env : Env) (op : Nat) : M Ctl := do
  if op == 0x40 then
    let n ← pop64
    if n ≥ env.height || env.height - n > 256 then
      if env.q.blockhashErr then pushErr (if n ≥ env.height then .invalidBlockNumber else .blockNumberOutOfRange)
      else
        noteDev 14
        push 0
    else push n                                    -- the harness' stub: the block number as a 32-byte hash
    pure .next
  else
    let a := addrOf (← pop)
    if op != 0x3f then useGas 1
    let s ← getF
    if a ≤ 0xff || s.removed.contains a then pure .unsupported
    else
      let acc := s.world.get a
      if acc.isNone && op != 0x3f && !env.q.queryUnknownErr then noteDev 10
      let unknownErr := acc.isNone && env.q.queryUnknownErr
      match op with
      | 0x31 =>
        if unknownErr then pushErr .nonExistentAccount
        push ((acc.map (·.balance)).getD 0); pure .next
      | 0x3b =>
        if unknownErr then pushErr .nonExistentAccount
        push ((acc.map (·.code.size)).getD 0); pure .next
      | 0x3c =>
        if unknownErr then pushErr .nonExistentAccount
        copyToMem env.q ((acc.map (·.code)).getD .empty)
      | _ =>
        match acc with
        | none => push 0
        | some x => push (word (Keccak.keccak256 x.code))
        pure .next

def execRegular (child : ChildFn) (env : Env) (op : Nat) : M Ctl := do
  match op with
  | 0x01 => binop (· + ·)
  | 0x02 => binop (· * ·)
  | 0x03 => binop (fun x y => x + W - y)
  | 0x04 => binop (fun x y => if y == 0 then 0 else x / y)
  | 0x05 => do
    let x ← popSigned; let y ← popSigned
    if y == 0 then push 0 else pushInt (Int.tdiv x y)
    pure .next
  | 0x06 => binop (fun x y => if y == 0 then 0 else x % y)
  | 0x07 => do
    let x ← popSigned; let y ← popSigned
    if y == 0 then push 0 else pushInt (Int.tmod x y)
    pure .next
  | 0x08 => do
    let x ← pop; let y ← pop; let z ← pop
    push (if z == 0 then 0 else (x + y) % z); pure .next
  | 0x09 => do
    let x ← pop; let y ← pop; let z ← pop
    push (if z == 0 then 0 else (x * y) % z); pure .next
  | 0x0b => do
    let back ← pop
    if back < 31 then
      let x ← pop
      push (signExtend x ((back + 1) * 8))
    pure .next
  | 0x10 => do let x ← pop; let y ← pop; pushBool (x < y); pure .next
  | 0x11 => do let x ← pop; let y ← pop; pushBool (x > y); pure .next
  | 0x12 => do let x ← popSigned; let y ← popSigned; pushBool (x < y); pure .next
  | 0x13 => do let x ← popSigned; let y ← popSigned; pushBool (x > y); pure .next
  | 0x14 => do let x ← pop; let y ← pop; pushBool (x == y); pure .next
  | 0x15 => do let x ← pop; pushBool (x == 0); pure .next
  | 0x16 => binop (· &&& ·)
  | 0x17 => binop (· ||| ·)
  | 0x18 => binop (· ^^^ ·)
  | 0x19 => do let x ← pop; push (W - 1 - x); pure .next
  | 0x1a => do
    let idx ← pop
    let v ← pop
    push (if idx < 32 then (v / 256 ^ (31 - idx)) % 256 else 0); pure .next
  | 0x1b => do
    let sh ← pop; let x ← pop
    push (if sh ≥ 256 then 0 else u256 (x <<< sh)); pure .next
  | 0x1c => do
    let sh ← pop; let x ← pop
    push (if sh ≥ 256 then 0 else x >>> sh); pure .next
  | 0x1d => do
    let sh ← pop; let x ← popSigned
    if sh ≥ 256 then pushInt (if x < 0 then -1 else 0) else pushInt (x / (2 ^ sh : Nat))
    pure .next
  | 0x20 => do
    useGas 1
    let o ← pop; let l ← pop
    let data ← memRead env.q o l
    push (word (Keccak.keccak256 data)); pure .next
  | 0x30 => do push env.callee; pure .next
  | 0x32 => do push env.origin; pure .next
  | 0x33 => do push env.caller; pure .next
  | 0x34 => do push (u256 env.value); pure .next
  | 0x35 => do
    if env.q.readBeyondErr || env.q.dataOffsetU64 then
      let off ← pop64
      match subslice env.input off 32 with
      | .err =>
        pushErr .inputOutOfBounds
        push 0
      | .panic => goPanic
      | .ok b => push (word b)
      | .big _ => goPanic        -- not reached: the length is 32
    else
      let off ← pop
      if off ≥ U64 then noteDev 2 else if env.input.size < off then noteDev 1
      push (word (extractPad env.input off 32))
    pure .next
  | 0x36 => do push env.input.size; pure .next
  | 0x37 => copyToMem env.q env.input
  | 0x38 => do push env.code.size; pure .next
  | 0x39 => copyToMem env.q env.code
  | 0x3a => do push 0; pure .next
  | 0x3d => do let s ← getF; push s.retBuf.size; pure .next
  | 0x31 => execQuery env op
  | 0x3b => execQuery env op
  | 0x3c => execQuery env op
  | 0x3f => execQuery env op
  | 0x40 => execQuery env op
  | 0xf1 => do
    if ← selfGone env then
      pushErr .generic
      pure .jumped
    else
      let g ← pop
      callRest child env op g
  | 0xf2 => do
    if ← selfGone env then
      pushErr .generic
      pure .jumped
    else
      let g ← pop
      callRest child env op g
  | 0xf0 => do
    let v ← pop
    createRest child env op v
  | 0x41 => do push 0; pure .next
  | 0x42 => do push env.time; pure .next
  | 0x43 => do push env.height; pure .next
  | 0x44 => do push 1; pure .next
  | 0x45 => do let s ← getF; push s.gas; pure .next
  | 0x50 => do let _ ← pop; pure .next
  | 0x51 => do
    let o ← pop
    let d ← memRead env.q o 32
    push (word d); pure .next
  | 0x52 => do
    let o ← pop; let v ← pop
    memWrite env.q o (natBE v 32); pure .next
  | 0x53 => do
    let o ← pop; let v ← pop
    memWrite env.q o (natBE (v % 256) 1); pure .next
  | 0x54 => do
    let k ← pop
    let s ← getF
    if (s.world.get env.callee).isNone then pure .unsupported     -- the cache still answers for a destroyed account
    else
      push (s.world.sload env.callee k); pure .next
  | 0x56 => do
    let to ← pop
    jumpWord env to true
    pure .jumped
  | 0x57 => do
    let to ← pop
    let c ← pop
    if c != 0 then
      jumpWord env to false
      pure .jumped
    else pure .next
  | 0x58 => do let s ← getF; push s.pc; pure .next
  | 0x59 => do let s ← getF; push s.mem.size; pure .next
  | 0x5a => do let s ← getF; push s.gas; pure .next
  | 0x5b => pure .next
  | _ =>
    if 0x60 ≤ op && op ≤ 0x7f then do
      let n := op - 0x60 + 1
      let s ← getF
      match subslice env.code (s.pc + 1) n with
      | .err =>
        pushErr .inputOutOfBounds
        push 0
      | .panic => goPanic
      | .ok b => push (word b)
      | .big _ => goPanic      -- not reached: the length is at most 32
      setPc (s.pc + n)
      pure .next
    else if 0x80 ≤ op && op ≤ 0x8f then do dup (op - 0x80 + 1); pure .next
    else if 0x90 ≤ op && op ≤ 0x9f then do swap (op - 0x90 + 2); pure .next
    else do pushErr .generic; pure (.halt .empty)   -- not reached: `exec` sends every other opcode elsewhere

def exec (child : ChildFn) (env : Env) (op : Nat) : M Ctl :=
  if isHalting op then execHalt env op
  else if isFree op then execFree child env op
  else execRegular child env op

-- ---------------------------------------------------------------- the loop

inductive Step where
  | cont
  | done (ret : ByteArray) (err : Option Err)
  | unsupported

/-- charge the table cost: `engine.UseGasNegative(params.Gas, gasLookUp(…))`, whose failure is
    returned directly (not through the error sink) -/
def chargeOrStop (cost : Nat) : M Bool := fun s =>
  if cost ≤ s.gas then ⟨(some true, { s with gas := s.gas - cost }), ⟨Nat.sub_le _ _, id⟩⟩
  else ⟨(some false, s), Inv.refl s⟩

def finish (c : Ctl) : M Step :=
  match c with
  | .next => getF >>= fun s => setPc (s.pc + 1) >>= fun _ => pure .cont
  | .jumped => pure .cont
  | .halt ret => getF >>= fun s => pure (.done ret s.err)
  | .unsupported => pure .unsupported

/-- the body of one iteration for opcode `op`: look the cost up (side effects included), charge
    it or stop with InsufficientGas, run the instruction -/
def stepBody (child : ChildFn) (env : Env) (op : Nat) : M Step :=
  (noteSeen op >>= fun _ => gasLookUp env.q env.callee (opInfo op)) >>= fun cm =>
  chargeOrStop cm.1 >>= fun ok =>
  if ok then
    expandMemory cm.2 >>= fun _ => getF >>= fun s =>
    match s.err with
    | some e => pure (.done .empty (some e))   -- the cost or the memory need could not be computed: the instruction does not run
    | none => exec child env op >>= finish
  else pure (.done .empty (some .insufficientGas))

def opAt (env : Env) (pc : Nat) : Nat := if env.code.size ≤ pc then 0 else (env.code.get! pc).toNat

/-- storage access by a contract whose own account was destroyed under it (SELFDESTRUCT in a DELEGATECALL / CALLCODE
    callee): Burrow's cache keeps answering from the removed entry; not modelled -/
def outsideModel (env : Env) (s : Frame) : Bool :=
  (opAt env s.pc == 0x54 || opAt env s.pc == 0x55) && (s.world.get env.callee).isNone

/-- one iteration of the `for` loop of `execute` -/
def step (child : ChildFn) (env : Env) : M Step := fun s =>
  match s.err with
  | some e => ⟨(some (.done .empty (some e)), s), Inv.refl s⟩
  | none =>
    if outsideModel env s then ⟨(some .unsupported, s), Inv.refl s⟩
    else if !env.q.noStackLimit && s.stack.length > 1024 then
      -- specification: the instruction that pushed the 1025th item was an exceptional halt
      (noteDev 4 >>= fun _ => pure (.done .empty (some .dataStackOverflow))) s
    else stepBody child env (opAt env s.pc) s

inductive Outcome where
  | done (ret : ByteArray) (err : Option Err)
  | panic
  | unsupported
  | outOfFuel

def run (child : ChildFn) (env : Env) : Nat → Frame → Outcome × Frame
  | 0, s => (.outOfFuel, s)
  | fuel + 1, s =>
    match step child env s with
    | ⟨(none, s'), _⟩ => (.panic, s')
    | ⟨(some .cont, s'), _⟩ => run child env fuel s'
    | ⟨(some (.done r e), s'), _⟩ => (.done r e, s')
    | ⟨(some .unsupported, s'), _⟩ => (.unsupported, s')

end Shentu.EVM

namespace Shentu.EVM

/-- `engine.Call`, first half: the value transfer (CALL and CALLCODE only) inside the frame's own cache.
    Result: the cache the code starts with, the transfer's error, whether the cache was written. -/
def openFrame (env : Env) (w : World) : World × Option Err × Bool :=
  if env.callType ≤ 1 then
    match transfer w env.caller env.callee env.value with
    | .ok w' => (w', none, env.value != 0)
    | .error e => (w, some e, false)
  else (w, none, false)

/-- `execute`: nothing to do without code, else the interpreter loop -/
def frameRun (child : ChildFn) (env : Env) (s0 : Frame) : Outcome × Frame :=
  if env.code.size == 0 then (Outcome.done .empty none, s0) else run child env (min (s0.gas + 2) env.fuelCap) s0

/-- `engine.Call`, second half: the transfer's error comes first, but the code has run anyway -/
def packRes (terr : Option Err) (o : Outcome) (s : Frame) : CallRes :=
  match o with
  | .done r e =>
    { ret := r, err := if terr.isSome then terr else e, gasLeft := s.gas, world := s.world, dirty := s.dirty,
      removed := s.removed, logs := s.logs.reverse, seen := s.seen, dev := s.dev, devs := s.devs, seq := s.seq }
  | .panic => { status := 1, gasLeft := s.gas, logs := s.logs.reverse, seen := s.seen, dev := s.dev, devs := s.devs, seq := s.seq }
  | .unsupported => { status := 2, gasLeft := s.gas, seen := s.seen, dev := s.dev, devs := s.devs, seq := s.seq }
  | .outOfFuel => { status := 3, gasLeft := s.gas, seen := s.seen, dev := s.dev, devs := s.devs, seq := s.seq }

/-- one call frame as `engine.Call` runs it -/
def runFrame (child : ChildFn) (env : Env) (gas : Nat) (w : World) (removed : List Nat) : CallRes :=
  let t := openFrame env w
  let os := frameRun child env { gas := gas, world := t.1, dirty := t.2.2, removed := removed, seq := env.seq0 }
  packRes t.2.1 os.1 os.2

/-- frames nested at most `d` deep below this one; deeper calls are outside the model -/
def runDepth : Nat → ChildFn
  | 0 => fun _ g _ _ => { status := 2, gasLeft := g }
  | d + 1 => fun env g w r => runFrame (runDepth d) env g w r

def normStorage (st : List (Nat × Nat)) : List (Nat × Nat) :=
  (st.filter (·.2 != 0)).mergeSort (fun a b => a.1 ≤ b.1)

/-- `CVM.Execute`: the outermost frame; its cache is written back (`Sync`) iff there was no error -/
def execTop (env : Env) (gas : Nat) (pre : World) (depth : Nat := 8) : CallRes :=
  let r := runFrame (runDepth depth) env gas pre []
  if r.status == 0 && r.err.isNone then r else { r with world := pre }

end Shentu.EVM
