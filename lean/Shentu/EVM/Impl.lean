import Shentu.Gen.Gas
import Shentu.Base.Keccak
import Shentu.EVM.Monad
import Shentu.EVM.Bytes
/-
  Executable model of ONE frame of the chain's EVM interpreter, exactly as
  /repo/vm/contract.go (execute, gasLookUp, subslice), gas.go, memory.go, utils.go and
  Burrow v0.31.0's Stack / dynamicMemory / errors.Maybe behave — quirks included.
  Every cost comes from `Shentu.Gen.Gas` (generated from op_table.go / gas.go).
  The call family, BALANCE, EXTCODE*, BLOCKHASH and SELFDESTRUCT are not modelled: reaching one
  of them ends the run with `Step.unsupported`.
-/
namespace Shentu.EVM
open Shentu.Gen.Gas (OpInfo Dyn MemRule)

structure Env where
  code : ByteArray
  opBits : ByteArray
  input : ByteArray
  caller : Nat
  callee : Nat
  origin : Nat
  value : Nat
  height : Nat
  time : Nat        -- uint64(LastBlockTime().Unix())
  chainId : Nat     -- crypto.GetEthChainID(ChainID())

-- ---------------------------------------------------------------- the generated table

def noInfo : OpInfo := ⟨0, "?", 0, .none, .none⟩
def infoOf (op : Nat) : OpInfo := (Shentu.Gen.Gas.table.find? (fun i => i.code == op)).getD { noInfo with code := op }
def infoArr : Array OpInfo := Array.ofFn (n := 256) (fun i => infoOf i.val)
@[inline] def opInfo (op : Nat) : OpInfo := infoArr.getD op noInfo
def sstoreCost (i : Nat) : Nat := Shentu.Gen.Gas.sstoreCosts.getD i 0

-- ---------------------------------------------------------------- Burrow's Stack (1 gas per operation)

def push (w : Nat) : M Unit := do
  useGas 1
  let s ← getF
  setStack (w :: s.stack)

def pop : M Nat := do
  useGas 1
  let s ← getF
  match s.stack with
  | [] =>
    pushErr .dataStackUnderflow
    pure 0
  | x :: r =>
    setStack r
    pure x

/-- Stack.Pop64: words above 2^64 raise IntegerOverflow and read as 0 -/
def pop64 : M Nat := do
  let d ← pop
  if d ≥ U64 then
    pushErr .integerOverflow
    pure 0
  else pure d

def dup (n : Nat) : M Unit := do
  useGas 1
  let s ← getF
  if s.stack.length < n then pushErr .dataStackUnderflow
  else push (s.stack.getD (n - 1) 0)

def swap (n : Nat) : M Unit := do
  useGas 1
  let s ← getF
  if s.stack.length < n then pushErr .dataStackUnderflow
  else
    let top := s.stack.getD 0 0
    let other := s.stack.getD (n - 1) 0
    setStack ((s.stack.set 0 other).set (n - 1) top)

/-- vm/utils.go Get / GetWord256: Dup(n+1) then Pop — three charged stack operations, and on
    underflow the Pop removes the real top of the stack -/
def peek (n : Nat) : M Nat := do
  dup (n + 1)
  pop

-- ---------------------------------------------------------------- Burrow's dynamicMemory

/-- dynamicMemory.ensureCapacity -/
def ensureCap (m : ByteArray) (cap : Nat) : Option ByteArray :=
  if cap > maxInt32 then none
  else if cap ≤ m.size then some m
  else if cap > memCap then none
  else some (m ++ zeros (cap - m.size))

/-- Memory.Read(offset, length); `nil` is the empty string -/
def memRead (o l : Nat) : M ByteArray := do
  if o ≥ U64 || l ≥ U64 then
    pushErr .generic
    return .empty
  let cap := (o + l) % U64
  let m ← takeMem
  match ensureCap m cap with
  | none =>
    setMem m
    pushErr .generic
    return .empty
  | some m' =>
    setMem m'
    if l > maxAlloc then goPanic          -- make([]byte, length)
    else if o > cap then goPanic          -- mem.slice[offset:capacity]
    else return m'.extract o cap

/-- Memory.Write(offset, value) -/
def memWrite (o : Nat) (v : ByteArray) : M Unit := do
  if o ≥ U64 then
    pushErr .generic
  else
    let cap := (o + v.size) % U64
    let m ← takeMem
    match ensureCap m cap with
    | none =>
      setMem m
      pushErr .generic
    | some m' =>
      if o > cap then
        setMem m'
        goPanic
      else setMem (v.copySlice 0 m' o v.size)

/-- Memory.Write of a value of `len > memCap` bytes whose content does not matter: it cannot fit,
    so the outcome is a Generic error or (after uint64 wrap-around) a Go panic -/
def memWriteBig (o len : Nat) : M Unit := do
  noteAlloc len
  if o ≥ U64 then
    pushErr .generic
  else
    let cap := (o + len) % U64
    let s ← getF
    if cap > maxInt32 || (cap > s.mem.size && cap > memCap) then pushErr .generic
    else
      let m ← takeMem
      match ensureCap m cap with
      | none =>
        setMem m
        pushErr .generic
      | some m' =>
        setMem m'
        goPanic            -- cap < o after wrap-around: mem.slice[offset:capacity]

/-- the `for mem > capacity { Write(capacity, make([]byte, mem-capacity)) … }` of gasLookUp:
    one allocation of the missing bytes, then growth (or a Generic error above the limits) -/
def memGrow (target : Nat) : M Unit := do
  let m ← takeMem
  if target ≤ m.size then setMem m
  else
    let n := target - m.size
    if n > maxAlloc then
      setMem m
      goPanic                      -- make([]byte, n): len out of range
    else
      noteAlloc n
      match ensureCap m target with
      | none =>
        setMem m
        pushErr .generic
      | some m' => setMem m'

-- ---------------------------------------------------------------- gas.go

def toWordSize (n : Nat) : Nat := if n > U64 - 1 - 31 then (U64 - 1) / 32 + 1 else (n + 31) / 32

/-- memGasCost: `none` = errGasUintOverflow -/
def memGasCost (newMemSize : Nat) : M (Option Nat) := do
  if newMemSize == 0 then return some 0
  if newMemSize > 0x1FFFFFFFE0 then return none
  let words := toWordSize newMemSize
  let s ← getF
  if words * 32 ≤ s.mem.size then return some 0
  let total := words * Shentu.Gen.Gas.MemoryGas + words * words / Shentu.Gen.Gas.QuadCoeffDiv
  setLastGasCost total
  return some ((total + U64 - s.lastGasCost) % U64)

/-- calcMemSize64WithUint -/
def memSize64U (off len : Nat) : Nat × Bool :=
  if len == 0 then (0, false)
  else if off ≥ U64 then (0, true)
  else ((off + len) % U64, off + len ≥ U64)

/-- calcMemSize64 -/
def memSize64 (off len : Nat) : Nat × Bool := if len ≥ U64 then (0, true) else memSize64U off len

def calcMemSize (r : MemRule) : M (Nat × Bool) := do
  match r with
  | .mem64 a b => let x ← peek a; let y ← peek b; pure (memSize64 x y)
  | .memUint64 a n => let x ← peek a; pure (memSize64U x n)
  | _ => pure (0, false)

def dynGas (d : Dyn) (mem : Nat) : M (Option Nat) := do
  match d with
  | .memOnly => memGasCost mem
  | .copyGas pos _ perWord =>
    match ← memGasCost mem with
    | none => pure none
    | some g =>
      let n ← peek pos
      if n ≥ U64 then pure none
      else
        let w := toWordSize n * perWord
        if w ≥ U64 || g + w ≥ U64 then pure none else pure (some (g + w))
  | .log n =>
    let size ← peek 1
    if size ≥ U64 then pure none
    else match ← memGasCost mem with
      | none => pure none
      | some g =>
        let g := g + Shentu.Gen.Gas.LogGas + n * Shentu.Gen.Gas.LogTopicGas
        let d := size * Shentu.Gen.Gas.LogDataGas
        if g ≥ U64 || d ≥ U64 || g + d ≥ U64 then pure none else pure (some (g + d))
  | .exp =>
    let y ← peek 1
    pure (some (byteLen y * Shentu.Gen.Gas.GasExpByte + Shentu.Gen.Gas.ExpGas))
  | .sstore =>
    let x ← peek 0
    let y ← peek 1
    let s ← getF
    let cur := ((s.storage.find? (·.1 == x)).map (·.2)).getD 0
    if cur == 0 && y != 0 then pure (some (sstoreCost 0))
    else if cur != 0 && y == 0 then
      addRefund Shentu.Gen.Gas.sstoreRefund
      pure (some (sstoreCost 1))
    else if cur == y then pure (some (sstoreCost 2))
    else pure (some (sstoreCost 3))
  | _ => pure (some 0)

def dynPart (info : OpInfo) (d : Dyn) : M (Nat × Nat) := do
  let mut mem := 0
  match info.mem with
  | .none => pure ()
  | r =>
    let (m, of) ← calcMemSize r
    if of then pushErr .integerOverflow
    let w := toWordSize m * 32
    if w ≥ U64 then pushErr .integerOverflow
    mem := w % U64
  let g ← dynGas d mem
  match g with
  | none => pushErr .generic
  | some _ => pure ()
  pure (g.getD 0, mem)

/-- contract.go gasLookUp: the cost of the instruction and the (word aligned) memory size it needs.
    As side effects it charges the stack operations of its peeks and records overflow errors. -/
def gasLookUp (info : OpInfo) : M (Nat × Nat) :=
  if info.dyn = .none then pure (info.static, 0)
  else dynPart info info.dyn >>= fun gm => pure (info.static + gm.1, gm.2)

/-- contract.go expandMemory (after the cost has been charged): nothing when the error sink is set -/
def expandMemory (mem : Nat) : M Unit := do
  let s ← getF
  if s.err.isSome then pure () else memGrow mem

-- ---------------------------------------------------------------- the instructions

inductive Ctl where
  | next                    -- pc++
  | jumped                  -- `continue`
  | halt (ret : ByteArray)  -- return ret, maybe.Error()
  | unsupported

def popSigned : M Int := do let x ← pop; pure (s256 x)
def pushInt (i : Int) : M Unit := push (ofInt i)
def pushBool (b : Bool) : M Unit := push (if b then 1 else 0)

def binop (f : Nat → Nat → Nat) : M Ctl := do
  let x ← pop; let y ← pop; push (u256 (f x y)); pure .next

def jumpTo (env : Env) (to : Nat) : M Unit := do
  let dest := if env.code.size ≤ to then 0 else (env.code.get! to).toNat
  let isOp := to < env.opBits.size && env.opBits.get! to == 1
  if dest != 0x5b || !isOp then pushErr .invalidJumpDest else setPc to

def word (b : ByteArray) : Nat := beNat b   -- LeftPadWord256 of at most 32 bytes

def copyToMem (src : ByteArray) : M Ctl := do
  let memOff ← pop
  let off ← pop64
  let len ← pop64
  match subslice src off len with
  | .err =>
    pushErr .inputOutOfBounds
    memWrite memOff .empty
  | .panic => goPanic
  | .ok b => memWrite memOff b
  | .big n => memWriteBig memOff n
  pure .next

def isExt (op : Nat) : Bool := op ∈ [0x31, 0x3b, 0x3c, 0x3f, 0x40, 0xf0, 0xf1, 0xf2, 0xf4, 0xf5, 0xfa, 0xff]

/-- opcodes with a case in the `switch` of execute (call family etc. excluded) -/
def isKnown (op : Nat) : Bool :=
  op ≤ 0x0b || (0x10 ≤ op && op ≤ 0x1d) || op == 0x20 || op == 0x30 || (0x32 ≤ op && op ≤ 0x3a) || op == 0x3d || op == 0x3e ||
  (0x41 ≤ op && op ≤ 0x46) || (0x50 ≤ op && op ≤ 0x5b) || (0x60 ≤ op && op ≤ 0xa4) || op == 0xf3 || op == 0xfd || op == 0xfe

/-- instructions that end the frame: STOP, RETURN, REVERT, INVALID and every unknown opcode -/
def isHalting (op : Nat) : Bool := op == 0x00 || op == 0xf3 || op == 0xfd || op == 0xfe || !isKnown op

/-- instructions whose table cost can be 0 although they continue (EXP, RETURNDATACOPY, CHAINID, SSTORE,
    LOG0-4 have `staticGas` 0): their first action is a charged stack operation -/
def isFree (op : Nat) : Bool := op == 0x0a || op == 0x3e || op == 0x46 || op == 0x55 || (0xa0 ≤ op && op ≤ 0xa4)

/-- the return value of a halting instruction -/
def haltBody (op : Nat) : M ByteArray := do
  match op with
  | 0x00 => pure .empty
  | 0xf3 => do
    let o ← pop; let l ← pop
    memRead o l
  | 0xfd => do
    let o ← pop; let l ← pop
    let out ← memRead o l
    pushErr .executionReverted
    pure out
  | 0xfe => do pushErr .executionAborted; pure .empty
  | _ => do pushErr .generic; pure .empty           -- unknown opcode

def execHalt (op : Nat) : M Ctl := haltBody op >>= fun r => pure (.halt r)

/-- what EXP, RETURNDATACOPY, SSTORE and LOGn do after their first Pop -/
def freeRest (env : Env) (op : Nat) (a : Nat) : M Ctl := do
  match op with
  | 0x0a => do
    let x := a; let y ← pop
    push (modPow x y W); pure .next
  | 0x3e => do
    let memOff := a; let off ← pop; let len ← pop
    if off + len ≥ U64 || 0 < off + len then
      pushErr .returnDataOutOfBounds
      pure .jumped
    else
      memWrite memOff .empty
      pure .next
  | 0x55 => do
    let k := a; let v ← pop
    useGas 1
    let s ← getF
    setStorage ((k, v) :: s.storage.filter (·.1 != k)); pure .next
  | _ => do                                        -- LOG0 … LOG4
    let o := a; let l ← pop
    let mut topics : List Nat := []
    for _ in [0:op - 0xa0] do
      topics := (← pop) :: topics
    let data ← memRead o l
    addLog ⟨env.callee, topics.reverse, data⟩
    pure .next

def execFree (env : Env) (op : Nat) : M Ctl :=
  if op == 0x46 then push (u256 env.chainId) >>= fun _ => pure .next
  else pop >>= fun a => freeRest env op a

def execRegular (env : Env) (op : Nat) : M Ctl := do
  match op with
  | 0x01 => binop (· + ·)
  | 0x02 => binop (· * ·)
  | 0x03 => binop (fun x y => x + W - y)
  | 0x04 => binop (fun x y => if y == 0 then 0 else x / y)
  | 0x05 => do
    let x ← popSigned; let y ← popSigned
    if y == 0 then push 0 else pushInt (Int.tdiv x y)
    pure .next
  | 0x06 => binop (fun x y => if y == 0 then 0 else x % y)
  | 0x07 => do
    let x ← popSigned; let y ← popSigned
    if y == 0 then push 0 else pushInt (Int.tmod x y)
    pure .next
  | 0x08 => do
    let x ← pop; let y ← pop; let z ← pop
    push (if z == 0 then 0 else (x + y) % z); pure .next
  | 0x09 => do
    let x ← pop; let y ← pop; let z ← pop
    push (if z == 0 then 0 else (x * y) % z); pure .next
  | 0x0b => do
    let back ← pop
    if back < 31 then
      let x ← pop
      push (signExtend x ((back + 1) * 8))
    pure .next
  | 0x10 => do let x ← pop; let y ← pop; pushBool (x < y); pure .next
  | 0x11 => do let x ← pop; let y ← pop; pushBool (x > y); pure .next
  | 0x12 => do let x ← popSigned; let y ← popSigned; pushBool (x < y); pure .next
  | 0x13 => do let x ← popSigned; let y ← popSigned; pushBool (x > y); pure .next
  | 0x14 => do let x ← pop; let y ← pop; pushBool (x == y); pure .next
  | 0x15 => do let x ← pop; pushBool (x == 0); pure .next
  | 0x16 => binop (· &&& ·)
  | 0x17 => binop (· ||| ·)
  | 0x18 => binop (· ^^^ ·)
  | 0x19 => do let x ← pop; push (W - 1 - x); pure .next
  | 0x1a => do
    let idx ← pop
    let v ← pop
    push (if idx < 32 then (v / 256 ^ (31 - idx)) % 256 else 0); pure .next
  | 0x1b => do
    let sh ← pop; let x ← pop
    push (if sh ≥ 256 then 0 else u256 (x <<< sh)); pure .next
  | 0x1c => do
    let sh ← pop; let x ← pop
    push (if sh ≥ 256 then 0 else x >>> sh); pure .next
  | 0x1d => do
    let sh ← pop; let x ← popSigned
    if sh ≥ 256 then pushInt (if x < 0 then -1 else 0) else pushInt (x / (2 ^ sh : Nat))
    pure .next
  | 0x20 => do
    useGas 1
    let o ← pop; let l ← pop
    let data ← memRead o l
    push (word (Keccak.keccak256 data)); pure .next
  | 0x30 => do push env.callee; pure .next
  | 0x32 => do push env.origin; pure .next
  | 0x33 => do push env.caller; pure .next
  | 0x34 => do push (u256 env.value); pure .next
  | 0x35 => do
    let off ← pop64
    match subslice env.input off 32 with
    | .err =>
      pushErr .inputOutOfBounds
      push 0
    | .panic => goPanic
    | .ok b => push (word b)
    | .big _ => goPanic        -- not reached: the length is 32
    pure .next
  | 0x36 => do push env.input.size; pure .next
  | 0x37 => copyToMem env.input
  | 0x38 => do push env.code.size; pure .next
  | 0x39 => copyToMem env.code
  | 0x3a => do push 0; pure .next
  | 0x3d => do push 0; pure .next            -- the return buffer of a single frame is empty
  | 0x41 => do push 0; pure .next
  | 0x42 => do push env.time; pure .next
  | 0x43 => do push env.height; pure .next
  | 0x44 => do push 1; pure .next
  | 0x45 => do let s ← getF; push s.gas; pure .next
  | 0x50 => do let _ ← pop; pure .next
  | 0x51 => do
    let o ← pop
    let d ← memRead o 32
    push (word d); pure .next
  | 0x52 => do
    let o ← pop; let v ← pop
    memWrite o (natBE v 32); pure .next
  | 0x53 => do
    let o ← pop; let v ← pop
    memWrite o (natBE (v % 256) 1); pure .next
  | 0x54 => do
    let k ← pop
    let s ← getF
    push (((s.storage.find? (·.1 == k)).map (·.2)).getD 0); pure .next
  | 0x56 => do
    let to ← pop64
    jumpTo env to; pure .jumped
  | 0x57 => do
    let to ← pop
    let c ← pop
    if c != 0 then
      if to ≥ U64 then pushErr .integerOverflow else jumpTo env to
      pure .jumped
    else pure .next
  | 0x58 => do let s ← getF; push s.pc; pure .next
  | 0x59 => do let s ← getF; push s.mem.size; pure .next
  | 0x5a => do let s ← getF; push s.gas; pure .next
  | 0x5b => pure .next
  | _ =>
    if 0x60 ≤ op && op ≤ 0x7f then do
      let n := op - 0x60 + 1
      let s ← getF
      match subslice env.code (s.pc + 1) n with
      | .err =>
        pushErr .inputOutOfBounds
        push 0
      | .panic => goPanic
      | .ok b => push (word b)
      | .big _ => goPanic      -- not reached: the length is at most 32
      setPc (s.pc + n)
      pure .next
    else if 0x80 ≤ op && op ≤ 0x8f then do dup (op - 0x80 + 1); pure .next
    else if 0x90 ≤ op && op ≤ 0x9f then do swap (op - 0x90 + 2); pure .next
    else do pushErr .generic; pure (.halt .empty)   -- not reached: `exec` sends every other opcode elsewhere

def exec (env : Env) (op : Nat) : M Ctl :=
  if isExt op then pure .unsupported
  else if isHalting op then execHalt op
  else if isFree op then execFree env op
  else execRegular env op

-- ---------------------------------------------------------------- the loop

inductive Step where
  | cont
  | done (ret : ByteArray) (err : Option Err)
  | unsupported

/-- charge the table cost: `engine.UseGasNegative(params.Gas, gasLookUp(…))`, whose failure is
    returned directly (not through the error sink) -/
def chargeOrStop (cost : Nat) : M Bool := fun s =>
  if cost ≤ s.gas then ⟨(some true, { s with gas := s.gas - cost }), ⟨Nat.sub_le _ _, id⟩⟩
  else ⟨(some false, s), Inv.refl s⟩

def finish (c : Ctl) : M Step :=
  match c with
  | .next => getF >>= fun s => setPc (s.pc + 1) >>= fun _ => pure .cont
  | .jumped => pure .cont
  | .halt ret => getF >>= fun s => pure (.done ret s.err)
  | .unsupported => pure .unsupported

/-- the body of one iteration for opcode `op`: look the cost up (side effects included), charge
    it or stop with InsufficientGas, run the instruction -/
def stepBody (env : Env) (op : Nat) : M Step :=
  (noteSeen op >>= fun _ => gasLookUp (opInfo op)) >>= fun cm =>
  chargeOrStop cm.1 >>= fun ok =>
  if ok then (expandMemory cm.2 >>= fun _ => exec env op) >>= finish
  else pure (.done .empty (some .insufficientGas))

def opAt (env : Env) (pc : Nat) : Nat := if env.code.size ≤ pc then 0 else (env.code.get! pc).toNat

/-- one iteration of the `for` loop of `execute` -/
def step (env : Env) : M Step := fun s =>
  match s.err with
  | some e => ⟨(some (.done .empty (some e)), s), Inv.refl s⟩
  | none =>
    if isExt (opAt env s.pc) then ⟨(some .unsupported, s), Inv.refl s⟩
    else stepBody env (opAt env s.pc) s

inductive Outcome where
  | done (ret : ByteArray) (err : Option Err)
  | panic
  | unsupported
  | outOfFuel

def run (env : Env) : Nat → Frame → Outcome × Frame
  | 0, s => (.outOfFuel, s)
  | fuel + 1, s =>
    match step env s with
    | ⟨(none, s'), _⟩ => (.panic, s')
    | ⟨(some .cont, s'), _⟩ => run env fuel s'
    | ⟨(some (.done r e), s'), _⟩ => (.done r e, s')
    | ⟨(some .unsupported, s'), _⟩ => (.unsupported, s')

end Shentu.EVM

namespace Shentu.EVM

/-- what the caller of `CVM.Execute` observes -/
structure Result where
  outcome : Outcome
  err : Option Err              -- engine.Call's accumulated error (transfer error first)
  ret : ByteArray
  gasLeft : Nat
  storage : List (Nat × Nat)    -- the callee's non-zero slots after the call
  logs : List Log               -- oldest first, as handed to the event sink
  frame : Frame

def normStorage (st : List (Nat × Nat)) : List (Nat × Nat) :=
  (st.filter (·.2 != 0)).mergeSort (fun a b => a.1 ≤ b.1)

/-- `CVM.Execute` → `engine.Call` → `execute`, then `Sync` iff there was no error.
    The value transfer happens (and may fail) before the code runs; the code runs anyway. -/
def execTop (env : Env) (gas callerBal : Nat) (pre : List (Nat × Nat)) : Result :=
  let transferErr := if env.value != 0 && callerBal < env.value then some Err.insufficientBalance else none
  let s0 : Frame := { gas := gas, storage := pre }
  let (o, s) := if env.code.size == 0 then (Outcome.done .empty none, s0) else run env (gas + 2) s0
  let (ret, err) := match o with
    | .done r e => (r, if transferErr.isSome then transferErr else e)
    | _ => (ByteArray.empty, none)
  let committed := match o with
    | .done _ _ => err.isNone
    | _ => false
  { outcome := o, err := err, ret := ret, gasLeft := s.gas,
    storage := normStorage (if committed then s.storage else pre), logs := s.logs.reverse, frame := s }

end Shentu.EVM
