/-
  Words, byte strings and Go's slice behaviour as the interpreter relies on it.
-/
namespace Shentu.EVM

def W : Nat := 2 ^ 256
def U64 : Nat := 2 ^ 64
def maxInt32 : Nat := 2147483647
/-- runtime.maxAlloc on linux/amd64: `make([]byte, n)` panics ("len out of range") above it -/
def maxAlloc : Nat := 2 ^ 48
/-- engine.NewDynamicMemory(0, 0x1000000, …) in vm.wrappedDDMP -/
def memCap : Nat := 0x1000000

@[inline] def u256 (n : Nat) : Nat := n % W
/-- two's complement reading of a word (binary.S256) -/
@[inline] def s256 (n : Nat) : Int := if n < 2 ^ 255 then (n : Int) else (n : Int) - (W : Int)
/-- binary.U256 of a possibly negative big.Int -/
@[inline] def ofInt (i : Int) : Nat := (i % (W : Int)).toNat

def zeros (n : Nat) : ByteArray := Id.run do
  if n == 0 then return .empty
  let mut z : ByteArray := (ByteArray.emptyWithCapacity n).push 0
  -- doubling; `n` iterations are more than enough
  for _ in [0:64] do
    if z.size * 2 ≤ n then z := z ++ z
  return z ++ z.extract 0 (n - z.size)

/-- big-endian value of a byte string -/
def beNat (b : ByteArray) : Nat := b.foldl (fun acc x => acc * 256 + x.toNat) 0

/-- `len` big-endian bytes of `n` (truncating on the left) -/
def natBE (n len : Nat) : ByteArray := Id.run do
  let mut out := zeros len
  let mut v := n
  for i in [0:len] do
    out := out.set! (len - 1 - i) (v % 256).toUInt8
    v := v / 256
  return out

/-- bytes `[off, off+len)` of `b`, zero padded on the right -/
def extractPad (b : ByteArray) (off len : Nat) : ByteArray :=
  if off ≥ b.size then zeros len else
  let part := b.extract off (off + len)
  if part.size == len then part else part ++ zeros (len - part.size)

/-- number of bytes of the minimal big-endian encoding (len(big.Int.Bytes())) -/
def byteLen (n : Nat) : Nat := (Nat.log2 n + (if n == 0 then 0 else 1) + 7) / 8

/-- result of vm.subslice: an error, a Go panic, or bytes -/
inductive Sub where
  | err | panic | ok (b : ByteArray)
  | big (len : Nat)   -- a zero-padded copy longer than the memory cap: Go allocates it, the model only keeps its length

/-- vm/contract.go subslice with uint64 wrap-around -/
def subslice (data : ByteArray) (offset length : Nat) : Sub :=
  let size := data.size
  if size < offset then .err
  else
    let e := (offset + length) % U64
    if size < e then
      (if length > maxAlloc then .panic else if length > memCap then .big length else .ok (extractPad data offset length))
    else if offset > e then .panic
    else .ok (data.extract offset e)

/-- evm.opcodeBitset: which code positions hold an instruction (the others are PUSH data) -/
def opcodeBits (code : ByteArray) : ByteArray := Id.run do
  let mut bits := zeros code.size
  let mut i := 0
  for _ in [0:code.size] do
    if i < code.size then
      bits := bits.set! i 1
      let b := (code.get! i).toNat
      if 0x60 ≤ b && b ≤ 0x7f then i := i + (b - 0x60 + 1)
      i := i + 1
  return bits

def modPow (b e m : Nat) : Nat := Id.run do
  let mut r := 1 % m
  let mut base := b % m
  let mut ex := e
  for _ in [0:Nat.log2 e + 1] do
    if ex % 2 == 1 then r := r * base % m
    base := base * base % m
    ex := ex / 2
  return r

/-- binary.SignExtend of the low `bits` bits, as a word -/
def signExtend (x bits : Nat) : Nat :=
  let m := 2 ^ (bits - 1)
  if (x / m) % 2 == 1 then u256 (W - m + x % m) else x % m

end Shentu.EVM
