/-
  Specification of the EVM's machine state, independent of the interpreter model and of the Go code, following the
  Ethereum Yellow Paper (section 9.1 machine state, Appendix H.2 opcodes 0x35-0x3e, 0x50-0x5b, 0x60-0x9f) and
  ethereum/execution-specs (`vm/memory.py`, `vm/stack.py`, `vm/runtime.py` `get_valid_jump_destinations`).
  Core Lean only, no imports.

  * memory: a total function from byte addresses to bytes (zero where nothing was written) and the number of active
    32-byte words (μ_i);
  * stack: a list of words, top first, with the size limit as a parameter;
  * byte strings (call data, code, return data): lists of bytes, read with zero padding on the right;
  * valid jump destinations: the positions reached by scanning the code from 0 and skipping PUSH data that hold 0x5b.
-/
namespace Shentu.EVM.MemSpec

abbrev Byte := UInt8

-- ---------------------------------------------------------------- words and bytes

/-- the 32 bytes of a word, most significant first -/
def wordBytes (v : Nat) : List Byte := (List.range 32).map (fun j => (v / 256 ^ (31 - j) % 256).toUInt8)

/-- big-endian value of a byte string -/
def bytesWord (bs : List Byte) : Nat := bs.foldl (fun acc b => acc * 256 + b.toNat) 0

/-- bytes `[off, off+len)` of a byte string; positions beyond its end read as zero -/
def readPad (data : List Byte) (off len : Nat) : List Byte := (List.range len).map (fun i => data.getD (off + i) 0)

-- ---------------------------------------------------------------- memory

structure Mem where
  /-- content: total, zero where nothing was written -/
  byte : Nat → Byte
  /-- number of active words (μ_i); MSIZE is 32 times this -/
  words : Nat

/-- the memory of a fresh frame -/
def Mem.empty : Mem := ⟨fun _ => 0, 0⟩

/-- number of 32-byte words needed to cover `n` bytes -/
def ceil32 (n : Nat) : Nat := (n + 31) / 32

/-- the active-words rule M(s, f, l) of the Yellow Paper (equation 328): an access of length 0 touches nothing -/
def Mem.touch (m : Mem) (o len : Nat) : Mem :=
  if len = 0 then m else { m with words := max m.words (ceil32 (o + len)) }

/-- MSIZE -/
def Mem.size (m : Mem) : Nat := 32 * m.words

/-- write a byte string at offset `o` -/
def Mem.write (m : Mem) (o : Nat) (bs : List Byte) : Mem :=
  { byte := fun i => if o ≤ i ∧ i < o + bs.length then bs.getD (i - o) 0 else m.byte i
    words := (m.touch o bs.length).words }

/-- read `len` bytes at offset `o` (the access extends the active words) -/
def Mem.read (m : Mem) (o len : Nat) : List Byte × Mem :=
  ((List.range len).map (fun i => m.byte (o + i)), m.touch o len)

def Mem.mstore (m : Mem) (o v : Nat) : Mem := m.write o (wordBytes v)
def Mem.mstore8 (m : Mem) (o v : Nat) : Mem := m.write o [(v % 256).toUInt8]
def Mem.mload (m : Mem) (o : Nat) : Nat × Mem := (bytesWord (m.read o 32).1, (m.read o 32).2)

/-- CALLDATACOPY / CODECOPY: `len` bytes of `data` from `off`, zero padded, written at `memOff` -/
def Mem.copyIn (m : Mem) (memOff : Nat) (data : List Byte) (off len : Nat) : Mem := m.write memOff (readPad data off len)

/-- RETURNDATACOPY (EIP-211): reading beyond the end of the return data is an exceptional halt -/
def Mem.returnDataCopy (m : Mem) (memOff : Nat) (data : List Byte) (off len : Nat) : Option Mem :=
  if off + len ≤ data.length then some (m.write memOff (readPad data off len)) else none

/-- CALLDATALOAD -/
def dataLoad (data : List Byte) (off : Nat) : Nat := bytesWord (readPad data off 32)

-- ---------------------------------------------------------------- stack

/-- the data stack, top first -/
abbrev Stack := List Nat

/-- push: fails when the stack already holds `limit` items -/
def Stack.push (limit : Nat) (st : Stack) (w : Nat) : Option Stack := if st.length < limit then some (w :: st) else none
/-- pop: fails on the empty stack -/
def Stack.pop : Stack → Option (Nat × Stack)
  | [] => none
  | x :: r => some (x, r)
/-- DUPn (1 ≤ n): pushes a copy of the n-th item -/
def Stack.dup (limit : Nat) (st : Stack) (n : Nat) : Option Stack :=
  match st[n - 1]? with
  | some x => Stack.push limit st x
  | none => none
/-- SWAPn (1 ≤ n): exchanges the top with the item n below it (position n, counting the top as 0) -/
def Stack.swap (st : Stack) (n : Nat) : Option Stack :=
  match st[0]?, st[n]? with
  | some top, some other => some ((st.set 0 other).set n top)
  | _, _ => none

-- ---------------------------------------------------------------- code

/-- number of immediate bytes of the instruction with opcode `b`: PUSH1 … PUSH32 have 1 … 32 -/
def pushLen (b : Byte) : Nat := if 0x60 ≤ b.toNat ∧ b.toNat ≤ 0x7f then b.toNat - 0x5f else 0

/-- position of the instruction after the one at `p` -/
def nextPc (code : List Byte) (p : Nat) : Nat := p + 1 + pushLen (code.getD p 0)

/-- `p` is the position of an instruction when the code is scanned from position 0 (the positions that are not
    immediate data of a preceding PUSH) -/
inductive IsInstr (code : List Byte) : Nat → Prop
  | zero : IsInstr code 0
  | next {p : Nat} : IsInstr code p → p < code.length → IsInstr code (nextPc code p)

/-- valid jump destination: a JUMPDEST byte at an instruction position -/
def ValidJump (code : List Byte) (p : Nat) : Prop := p < code.length ∧ code.getD p 0 = 0x5b ∧ IsInstr code p

/-- the value PUSHn at position `pc` pushes: the `n` bytes after the opcode, zero padded at the end of the code -/
def pushValue (code : List Byte) (pc n : Nat) : Nat := bytesWord (readPad code (pc + 1) n)

end Shentu.EVM.MemSpec
