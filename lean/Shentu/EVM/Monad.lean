/-
  State of one interpreter frame and the monad the model is written in.

  `M α` is a state monad over `Frame` whose computations carry, in their type, the proof that
  they never increase the remaining gas and never clear the error sink (`Inv`).  Everything in
  `Shentu.EVM.Impl` is built from the few primitives below, so "gas never increases while a
  frame runs" holds by construction for every instruction (Props/C17.lean states it).
  A result `none` stands for a Go runtime panic (the frame is abandoned where it is).
-/
namespace Shentu.EVM

/-- Burrow error codes that a single frame can raise (execution/errors/codes.go) -/
inductive Err where
  | insufficientGas | dataStackUnderflow | integerOverflow | generic | inputOutOfBounds
  | invalidJumpDest | executionAborted | executionReverted | returnDataOutOfBounds | insufficientBalance
  | dataStackOverflow | unknownAddress | nonExistentAccount | illegalWrite | duplicateAddress
  | invalidBlockNumber | blockNumberOutOfRange | invalidContractCode
  deriving DecidableEq, Repr, Inhabited

def Err.name : Err → String
  | .insufficientGas => "InsufficientGas" | .dataStackUnderflow => "DataStackUnderflow"
  | .integerOverflow => "IntegerOverflow" | .generic => "Generic" | .inputOutOfBounds => "InputOutOfBounds"
  | .invalidJumpDest => "InvalidJumpDest" | .executionAborted => "ExecutionAborted"
  | .executionReverted => "ExecutionReverted" | .returnDataOutOfBounds => "ReturnDataOutOfBounds"
  | .insufficientBalance => "InsufficientBalance"
  | .dataStackOverflow => "DataStackOverflow" | .unknownAddress => "UnknownAddress"
  | .nonExistentAccount => "NonExistentAccount" | .illegalWrite => "IllegalWrite"
  | .duplicateAddress => "DuplicateAddress" | .invalidBlockNumber => "InvalidBlockNumber"
  | .blockNumberOutOfRange => "BlockNumberOutOfRange"
  | .invalidContractCode => "InvalidContractCode"

structure Log where
  addr : Nat
  topics : List Nat
  data : ByteArray

/-- an account as the VM sees it (Burrow acm.Account: EVM code, native balance; storage kept alongside) -/
structure Account where
  addr : Nat
  code : ByteArray := .empty
  balance : Nat := 0
  storage : List (Nat × Nat) := []   -- absent = 0
  /-- acm.Account.ContractMeta, as far as the VM reads it: the code hashes (Keccak-256, as words) of the contracts this
      contract — or a contract descending from it — may create; empty = no restriction -/
  allowed : List Nat := []
  /-- acm.Account.Forebear: the contract at the root of the chain of creations this contract descends from -/
  forebear : Option Nat := none

/-- the accounts that exist, as one call frame's cache sees them -/
abbrev World := List Account

namespace World
def get (w : World) (a : Nat) : Option Account := w.find? (·.addr == a)
def put (w : World) (acc : Account) : World := acc :: w.filter (·.addr != acc.addr)
def del (w : World) (a : Nat) : World := w.filter (·.addr != a)
def sload (w : World) (a k : Nat) : Nat :=
  match w.get a with
  | some acc => ((acc.storage.find? (·.1 == k)).map (·.2)).getD 0
  | none => 0
def sstore (w : World) (a k v : Nat) : World :=
  match w.get a with
  | some acc => w.put { acc with storage := (k, v) :: acc.storage.filter (·.1 != k) }
  | none => w
end World

structure Frame where
  gas : Nat
  /-- errors.Maybe: the first error pushed; the frame stops at the top of the next iteration -/
  err : Option Err := none
  stack : List Nat := []          -- top first
  mem : ByteArray := .empty        -- Burrow dynamicMemory.slice (its length is the "capacity")
  lastGasCost : Nat := 0           -- gasMemory.lastGasCost
  pc : Nat := 0
  world : World := []              -- this frame's cache: every account, with the frame's own updates
  dirty : Bool := false            -- some account of the cache was updated (decides whether Sync writes anything)
  removed : List Nat := []         -- accounts destroyed so far in this transaction
  retBuf : ByteArray := .empty     -- return data of the last call
  logs : List Log := []            -- newest first; a child frame's logs arrive here only when it succeeded
  refund : Nat := 0
  seq : Nat := 0                   -- CVM.sequence: CREATE instructions executed so far by this transaction, in any frame (never rolled back)
  bigAlloc : Nat := 0              -- largest `make([]byte, n)` requested before gas was charged
  seen : Nat := 0                  -- bit set of opcodes executed (statistics only)
  dev : Nat := 0                   -- specification mode: the first point where the implementation is known to deviate (0 = none)
  devs : Nat := 0                  -- … and the bit set of all such points that were reached

/-- what every computation of the model preserves -/
def Inv (s s' : Frame) : Prop := s'.gas ≤ s.gas ∧ (s.err.isSome = true → s'.err.isSome = true)

theorem Inv.refl (s : Frame) : Inv s s := ⟨Nat.le_refl _, id⟩
theorem Inv.trans {a b c : Frame} (h1 : Inv a b) (h2 : Inv b c) : Inv a c :=
  ⟨Nat.le_trans h2.1 h1.1, fun h => h2.2 (h1.2 h)⟩

def M (α : Type) : Type := (s : Frame) → { r : Option α × Frame // Inv s r.2 }

namespace M
@[inline] def pure (a : α) : M α := fun s => ⟨(some a, s), Inv.refl s⟩
@[inline] def bind (m : M α) (f : α → M β) : M β := fun s =>
  match m s with
  | ⟨(none, s1), h1⟩ => ⟨(none, s1), h1⟩
  | ⟨(some a, s1), h1⟩ =>
    match f a s1 with
    | ⟨r, h2⟩ => ⟨r, Inv.trans h1 h2⟩
end M

instance : Monad M where
  pure := M.pure
  bind := M.bind

/-- a Go runtime panic -/
@[inline] def goPanic : M α := fun s => ⟨(none, s), Inv.refl s⟩
@[inline] def getF : M Frame := fun s => ⟨(some s, s), Inv.refl s⟩

/-- errors.Maybe.PushError: keep the first error -/
@[inline] def pushErr (e : Err) : M Unit := fun s =>
  match s.err with
  | some _ => ⟨(some (), s), Inv.refl s⟩
  | none => ⟨(some (), { s with err := some e }), ⟨Nat.le_refl _, fun _ => rfl⟩⟩

/-- engine.UseGasNegative followed by PushError of its result (Stack.useGas, SHA3, SSTORE) -/
@[inline] def useGas (n : Nat) : M Unit := fun s =>
  if n ≤ s.gas then ⟨(some (), { s with gas := s.gas - n }), ⟨Nat.sub_le _ _, id⟩⟩
  else pushErr .insufficientGas s

-- updates of the fields that are neither gas nor the error sink
@[inline] def setStack (st : List Nat) : M Unit := fun s => ⟨(some (), { s with stack := st }), Inv.refl s⟩
@[inline] def setMem (m : ByteArray) : M Unit := fun s => ⟨(some (), { s with mem := m }), Inv.refl s⟩
@[inline] def setPc (pc : Nat) : M Unit := fun s => ⟨(some (), { s with pc := pc }), Inv.refl s⟩
@[inline] def setWorld (w : World) : M Unit := fun s => ⟨(some (), { s with world := w, dirty := true }), Inv.refl s⟩
@[inline] def setRemoved (r : List Nat) : M Unit := fun s => ⟨(some (), { s with removed := r }), Inv.refl s⟩
@[inline] def setRetBuf (b : ByteArray) : M Unit := fun s => ⟨(some (), { s with retBuf := b }), Inv.refl s⟩
/-- adopt a child frame's cache (Sync) -/
@[inline] def syncChild (w : World) (dirty : Bool) (removed : List Nat) : M Unit := fun s =>
  ⟨(some (), { s with world := w, dirty := s.dirty || dirty, removed := removed }), Inv.refl s⟩
@[inline] def applySettled (w : World) (dirty : Bool) (removed : List Nat) : M Unit := fun s =>
  ⟨(some (), { s with world := w, dirty := dirty, removed := removed }), Inv.refl s⟩

/-- frameEventSink.flush: the child's events, oldest first in `ls`, reach this frame's list -/
@[inline] def addLogs (ls : List Log) : M Unit := fun s => ⟨(some (), { s with logs := ls.reverse ++ s.logs }), Inv.refl s⟩
@[inline] def orSeen (seen dev devs : Nat) : M Unit := fun s =>
  ⟨(some (), { s with seen := s.seen ||| seen, dev := if s.dev == 0 then dev else s.dev, devs := s.devs ||| devs }), Inv.refl s⟩

/-- the CVM's sequence counter after a CREATE or after a callee has returned -/
@[inline] def setSeq (n : Nat) : M Unit := fun s => ⟨(some (), { s with seq := n }), Inv.refl s⟩

/-- The constructor of a CREATE runs on the creator's own gas (`Gas: params.Gas`, the same `*big.Int`): when it has returned
    the frame has what the constructor left.  A callee never hands back more than it was given (`C18vm.callee_gas_bounded`),
    so the `min` changes nothing for the frames of the model; it makes "gas never increases" hold by construction. -/
@[inline] def leaveGas (n : Nat) : M Unit := fun s => ⟨(some (), { s with gas := min n s.gas }), ⟨Nat.min_le_right _ _, id⟩⟩

/-- subtract an amount the caller has checked to be available (big.Int.Sub on the frame's gas) -/
@[inline] def takeGas (n : Nat) : M Unit := fun s => ⟨(some (), { s with gas := s.gas - n }), ⟨Nat.sub_le _ _, id⟩⟩

/-- `gasBeforeCall := params.Gas … params.Gas.Add(params.Gas, refund); if params.Gas > gasBeforeCall { params.Gas.Set(gasBeforeCall) }`:
    run `body`, add the refund it reports, never ending above the gas the frame had on entry -/
@[inline] def withRefund (body : M (α × Nat)) : M α := fun s =>
  match body s with
  | ⟨(none, s'), h⟩ => ⟨(none, s'), h⟩
  | ⟨(some (a, refund), s'), h⟩ =>
    ⟨(some a, { s' with gas := min (s'.gas + refund) s.gas }), ⟨Nat.min_le_right _ _, h.2⟩⟩
@[inline] def setLastGasCost (n : Nat) : M Unit := fun s => ⟨(some (), { s with lastGasCost := n }), Inv.refl s⟩
@[inline] def addRefund (n : Nat) : M Unit := fun s => ⟨(some (), { s with refund := s.refund + n }), Inv.refl s⟩
@[inline] def addLog (l : Log) : M Unit := fun s => ⟨(some (), { s with logs := l :: s.logs }), Inv.refl s⟩
@[inline] def noteAlloc (n : Nat) : M Unit := fun s => ⟨(some (), { s with bigAlloc := max s.bigAlloc n }), Inv.refl s⟩
@[inline] def noteSeen (op : Nat) : M Unit := fun s => ⟨(some (), { s with seen := s.seen ||| (1 <<< op) }), Inv.refl s⟩

/-- specification mode: remember the first known deviation point that was reached -/
@[inline] def noteDev (id : Nat) : M Unit := fun s =>
  ⟨(some (), { s with dev := if s.dev == 0 then id else s.dev, devs := s.devs ||| (1 <<< id) }), Inv.refl s⟩

/-- take the memory out of the frame so that it can be updated in place -/
@[inline] def takeMem : M ByteArray := fun s => ⟨(some s.mem, { s with mem := .empty }), Inv.refl s⟩

end Shentu.EVM
