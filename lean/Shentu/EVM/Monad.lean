/-
  State of one interpreter frame and the monad the model is written in.

  `M α` is a state monad over `Frame` whose computations carry, in their type, the proof that
  they never increase the remaining gas and never clear the error sink (`Inv`).  Everything in
  `Shentu.EVM.Impl` is built from the few primitives below, so "gas never increases while a
  frame runs" holds by construction for every instruction (Props/C17.lean states it).
  A result `none` stands for a Go runtime panic (the frame is abandoned where it is).
-/
namespace Shentu.EVM

/-- Burrow error codes that a single frame can raise (execution/errors/codes.go) -/
inductive Err where
  | insufficientGas | dataStackUnderflow | integerOverflow | generic | inputOutOfBounds
  | invalidJumpDest | executionAborted | executionReverted | returnDataOutOfBounds | insufficientBalance
  deriving DecidableEq, Repr, Inhabited

def Err.name : Err → String
  | .insufficientGas => "InsufficientGas" | .dataStackUnderflow => "DataStackUnderflow"
  | .integerOverflow => "IntegerOverflow" | .generic => "Generic" | .inputOutOfBounds => "InputOutOfBounds"
  | .invalidJumpDest => "InvalidJumpDest" | .executionAborted => "ExecutionAborted"
  | .executionReverted => "ExecutionReverted" | .returnDataOutOfBounds => "ReturnDataOutOfBounds"
  | .insufficientBalance => "InsufficientBalance"

structure Log where
  addr : Nat
  topics : List Nat
  data : ByteArray

structure Frame where
  gas : Nat
  /-- errors.Maybe: the first error pushed; the frame stops at the top of the next iteration -/
  err : Option Err := none
  stack : List Nat := []          -- top first
  mem : ByteArray := .empty        -- Burrow dynamicMemory.slice (its length is the "capacity")
  lastGasCost : Nat := 0           -- gasMemory.lastGasCost
  pc : Nat := 0
  storage : List (Nat × Nat) := [] -- the frame's view of the callee's storage (absent = 0)
  logs : List Log := []            -- newest first
  refund : Nat := 0
  bigAlloc : Nat := 0              -- largest `make([]byte, n)` requested before gas was charged
  seen : Nat := 0                  -- bit set of opcodes executed (statistics only)

/-- what every computation of the model preserves -/
def Inv (s s' : Frame) : Prop := s'.gas ≤ s.gas ∧ (s.err.isSome = true → s'.err.isSome = true)

theorem Inv.refl (s : Frame) : Inv s s := ⟨Nat.le_refl _, id⟩
theorem Inv.trans {a b c : Frame} (h1 : Inv a b) (h2 : Inv b c) : Inv a c :=
  ⟨Nat.le_trans h2.1 h1.1, fun h => h2.2 (h1.2 h)⟩

def M (α : Type) : Type := (s : Frame) → { r : Option α × Frame // Inv s r.2 }

namespace M
@[inline] def pure (a : α) : M α := fun s => ⟨(some a, s), Inv.refl s⟩
@[inline] def bind (m : M α) (f : α → M β) : M β := fun s =>
  match m s with
  | ⟨(none, s1), h1⟩ => ⟨(none, s1), h1⟩
  | ⟨(some a, s1), h1⟩ =>
    match f a s1 with
    | ⟨r, h2⟩ => ⟨r, Inv.trans h1 h2⟩
end M

instance : Monad M where
  pure := M.pure
  bind := M.bind

/-- a Go runtime panic -/
@[inline] def goPanic : M α := fun s => ⟨(none, s), Inv.refl s⟩
@[inline] def getF : M Frame := fun s => ⟨(some s, s), Inv.refl s⟩

/-- errors.Maybe.PushError: keep the first error -/
@[inline] def pushErr (e : Err) : M Unit := fun s =>
  match s.err with
  | some _ => ⟨(some (), s), Inv.refl s⟩
  | none => ⟨(some (), { s with err := some e }), ⟨Nat.le_refl _, fun _ => rfl⟩⟩

/-- engine.UseGasNegative followed by PushError of its result (Stack.useGas, SHA3, SSTORE) -/
@[inline] def useGas (n : Nat) : M Unit := fun s =>
  if n ≤ s.gas then ⟨(some (), { s with gas := s.gas - n }), ⟨Nat.sub_le _ _, id⟩⟩
  else pushErr .insufficientGas s

-- updates of the fields that are neither gas nor the error sink
@[inline] def setStack (st : List Nat) : M Unit := fun s => ⟨(some (), { s with stack := st }), Inv.refl s⟩
@[inline] def setMem (m : ByteArray) : M Unit := fun s => ⟨(some (), { s with mem := m }), Inv.refl s⟩
@[inline] def setPc (pc : Nat) : M Unit := fun s => ⟨(some (), { s with pc := pc }), Inv.refl s⟩
@[inline] def setStorage (st : List (Nat × Nat)) : M Unit := fun s => ⟨(some (), { s with storage := st }), Inv.refl s⟩
@[inline] def setLastGasCost (n : Nat) : M Unit := fun s => ⟨(some (), { s with lastGasCost := n }), Inv.refl s⟩
@[inline] def addRefund (n : Nat) : M Unit := fun s => ⟨(some (), { s with refund := s.refund + n }), Inv.refl s⟩
@[inline] def addLog (l : Log) : M Unit := fun s => ⟨(some (), { s with logs := l :: s.logs }), Inv.refl s⟩
@[inline] def noteAlloc (n : Nat) : M Unit := fun s => ⟨(some (), { s with bigAlloc := max s.bigAlloc n }), Inv.refl s⟩
@[inline] def noteSeen (op : Nat) : M Unit := fun s => ⟨(some (), { s with seen := s.seen ||| (1 <<< op) }), Inv.refl s⟩

/-- take the memory out of the frame so that it can be updated in place -/
@[inline] def takeMem : M ByteArray := fun s => ⟨(some s.mem, { s with mem := .empty }), Inv.refl s⟩

end Shentu.EVM
