import Shentu.Proofs.ShieldPoolClaim
import Shentu.Props.C03b
/-
  C05 — Claims are admitted only against live protection, and locks are undone.

  "A shield claim proposal is accepted only if the proposer holds the referenced purchase in the referenced pool,
   that purchase's protection has not ended, its remaining shield covers the loss, and the initial deposit is at
   least the larger of the minimum claim deposit and the deposit rate times the loss.  On acceptance exactly the
   loss is moved from that purchase, its pool and the total shield into the amount locked for claims; when the
   proposal ends the locked amount is released, and unless the claim was paid or vetoed the shield is restored to
   that same purchase."

  Property theorems only.  `findPurchase s pool holder id` (Shentu/Proofs/ShieldPoolClaim.lean) is what a client
  reads: the first entry with that id in the holder's list for the pool.
-/
namespace Shentu.Props.C05
open Shentu Shentu.Shield Shentu.Shield.PoolLm

/-! ## admission -/

/-- **Admission rule** (first sentence of C05), with the model's `find?` semantics: the claim is admitted iff the holder
    has a purchase list in that pool whose first entry with the purchase id has its protection not ended
    (`endTime ≥ now`), has at least `loss` of shield left, and the deposit is at least the minimum claim deposit and
    at least rate × loss (`Dec` comparison as the keeper makes it). -/
theorem admitted_iff (s : State) (now : Int) (holder : Addr) (pool purchase : Nat) (loss deposit : Int) :
    claimAdmissible s now holder pool purchase loss deposit = none ↔
      ∃ l en, findList s pool holder = some l ∧ l.entries.find? (·.id == purchase) = some en ∧
        en.endTime ≥ now ∧ en.shield ≥ loss ∧ deposit ≥ s.params.claimMinDeposit ∧
        Dec.lt (Dec.ofInt deposit) (Dec.mul (Dec.ofInt loss) s.params.claimDepositRate) = false := by
  unfold claimAdmissible
  constructor
  · intro h
    split at h; · cases h
    rename_i hdep
    split at h; · cases h
    rename_i l hl
    split at h; · cases h
    rename_i en hen
    split at h; · cases h
    rename_i hsh
    split at h; · cases h
    rename_i hend
    simp only [Bool.or_eq_true, decide_eq_true_eq, not_or, Bool.not_eq_true, Int.not_lt] at hdep
    simp only [Bool.not_eq_true', decide_eq_false_iff_not, Decidable.not_not] at hsh
    exact ⟨l, en, hl, hen, by omega, hsh, hdep.2, hdep.1⟩
  · rintro ⟨l, en, hl, hen, h1, h2, h3, h4⟩
    have h3' : ¬ deposit < s.params.claimMinDeposit := by omega
    simp only [h4, h3', decide_false, Bool.or_self, Bool.false_eq_true, if_false, hl, hen]
    have h2' : (!decide (en.shield ≥ loss)) = false := by simpa using h2
    have h1' : ¬ en.endTime < now := by omega
    simp only [h2', Bool.false_eq_true, if_false, h1']

/-- the same rule read through `findPurchase`, with the deposit condition spelled out on the 18-digit representation:
    "the initial deposit is at least the larger of the minimum claim deposit and the deposit rate times the loss" -/
theorem admitted_iff' (s : State) (now : Int) (holder : Addr) (pool purchase : Nat) (loss deposit : Int) :
    claimAdmissible s now holder pool purchase loss deposit = none ↔
      ∃ en, findPurchase s pool holder purchase = some en ∧ now ≤ en.endTime ∧ loss ≤ en.shield ∧
        s.params.claimMinDeposit ≤ deposit ∧
        (Dec.mul (Dec.ofInt loss) s.params.claimDepositRate).raw ≤ (Dec.ofInt deposit).raw := by
  rw [admitted_iff]
  constructor
  · rintro ⟨l, en, hl, hen, h1, h2, h3, h4⟩
    refine ⟨en, (findPurchase_some_iff _ _ _ _ _).mpr ⟨l, hl, hen⟩, h1, h2, h3, ?_⟩
    simpa [Dec.lt] using h4
  · rintro ⟨en, hf, h1, h2, h3, h4⟩
    rcases (findPurchase_some_iff _ _ _ _ _).mp hf with ⟨l, hl, hen⟩
    exact ⟨l, en, hl, hen, h1, h2, h3, by simpa [Dec.lt] using h4⟩

/-- "the proposer holds the referenced purchase in the referenced pool": an admitted claim names a purchase record that
    is stored in a list of that pool owned by the holder and carries the purchase id -/
theorem admitted_holds (s : State) (now : Int) (holder : Addr) (pool purchase : Nat) (loss deposit : Int)
    (h : claimAdmissible s now holder pool purchase loss deposit = none) :
    ∃ l ∈ s.lists, l.pool = pool ∧ l.purchaser = holder ∧ ∃ en ∈ l.entries, en.id = purchase ∧ now ≤ en.endTime ∧ loss ≤ en.shield := by
  rcases (admitted_iff _ _ _ _ _ _ _).mp h with ⟨l, en, hl, hen, h1, h2, _, _⟩
  have hk := findList_key hl
  refine ⟨l, findList_mem hl, hk.1, hk.2, en, List.mem_of_find?_eq_some hen, ?_, h1, h2⟩
  have := List.find?_some hen; simpa using this

/-- in a store with consistent books (`PoolInv`: purchase ids are unique) the admitted purchase is the only record with
    that id anywhere: a foreign purchase id (held by somebody else, or in another pool) is never admitted -/
theorem foreign_purchase_rejected {s : State} (hinv : PoolInv s) (now : Int) (holder : Addr) (pool purchase : Nat) (loss deposit : Int)
    {l' : PList} (hl' : l' ∈ s.lists) (hother : ¬(l'.pool = pool ∧ l'.purchaser = holder))
    {en' : Purchase} (hen' : en' ∈ l'.entries) (hid : en'.id = purchase) :
    claimAdmissible s now holder pool purchase loss deposit ≠ none := by
  intro h
  rcases admitted_holds _ _ _ _ _ _ _ h with ⟨l, hl, hp, ha, en, hen, hide, _, _⟩
  have hne : l ≠ l' := by
    intro hc; subst hc; exact hother ⟨hp, ha⟩
  have := pairwise_of_mem_ne (fun a b : PList => ∀ x ∈ a.entries, ∀ y ∈ b.entries, x.id ≠ y.id)
    (fun a b hab x hx y hy hxy => hab y hy x hx hxy.symm) s.lists hinv.crossIds l hl l' hl' hne
  exact this en hen en' hen' (hide.trans hid.symm)

/-- non-vacuity on `C03b.demo` at time 50 (minimum deposit 0, rate 0): purchase 1 of "aa" in pool 1 is admitted for a
    loss of 10; rejected are a foreign purchase id (2 belongs to "bb"), a non-existent id, a wrong pool, a loss above the
    remaining shield, and a claim after the protection ended -/
example : claimAdmissible C03b.demo 50 "aa" 1 1 10 0 = none := by decide
example : claimAdmissible C03b.demo 50 "aa" 1 2 10 0 = some "purchase-not-held" := by decide
example : claimAdmissible C03b.demo 50 "aa" 1 9 10 0 = some "purchase-not-held" := by decide
example : claimAdmissible C03b.demo 50 "aa" 2 1 10 0 = some "no-purchase-list" := by decide
example : claimAdmissible C03b.demo 50 "aa" 1 1 51 0 = some "shield-below-loss" := by decide
example : claimAdmissible C03b.demo 101 "aa" 1 1 10 0 = some "protection-ended" := by decide
/-- with a minimum deposit of 5 and a rate of 1/2: deposit 5 covers loss 10, deposit 4 does not, deposit 5 does not cover loss 12 -/
example : let s := { C03b.demo with params := { C03b.demo.params with claimMinDeposit := 5, claimDepositRate := ⟨Dec.half⟩ } }
    claimAdmissible s 50 "aa" 1 1 10 5 = none ∧ claimAdmissible s 50 "aa" 1 1 10 4 = some "deposit-too-small" ∧
    claimAdmissible s 50 "aa" 1 1 12 5 = some "deposit-too-small" := by decide

/-! ## the lock -/

/-- **On acceptance exactly the loss is moved** (second sentence): the exact post-state of `secureCollaterals` when the
    holder's list contains the purchase id.  The first entry with that id loses `loss` of shield and its deletion time
    becomes `max delTime (e.t + dur)` (`lockedEntry`); the pool and `totalShield` lose `loss`; `totalClaimed` gains `loss`;
    every other field of the store — providers (collateral, withdrawing, bonded, rewards), stakes, reimbursements,
    fees, the other totals — is unchanged, except that the withdrawal queue `q` may have been re-arranged by delays. -/
theorem lock_exact {e : Env} {s s' : State} {pool : Nat} {holder : Addr} {purchase : Nat} {loss dur : Int}
    (h : secureCollaterals e s pool holder purchase loss dur = .ok s')
    {lst : PList} (hl : findList s pool holder = some lst) {en : Purchase}
    (hen : lst.entries.find? (·.id == purchase) = some en) :
    ∃ p q, findPool s pool = some p ∧ loss ≤ en.shield ∧ loss ≤ p.shield ∧
      s' = { s with
             withdraws := q,
             lists := s.lists.map (fun x => if x.pool == pool && x.purchaser == holder then
               { pool := pool, purchaser := holder,
                 entries := replaceFirst (·.id == purchase) (fun _ => lockedEntry e en loss dur) lst.entries } else x),
             pools := s.pools.map (fun x => if x.id == pool then { p with shield := p.shield - loss } else x),
             totalShield := s.totalShield - loss, totalClaimed := s.totalClaimed + loss } := by
  rcases secureCollaterals_exact h hl hen with ⟨p, q, h1, h2, h3, _, h5⟩
  exact ⟨p, q, h1, h2, h3, h5⟩

/-- the locked purchase record: `loss` less shield, deletion time `max delTime (e.t + dur)`, everything else as before -/
theorem lockedEntry_fields (e : Env) (en : Purchase) (loss dur : Int) :
    (lockedEntry e en loss dur).shield = en.shield - loss ∧
    (lockedEntry e en loss dur).delTime = max en.delTime (e.t + dur) ∧
    (lockedEntry e en loss dur).id = en.id ∧ (lockedEntry e en loss dur).endTime = en.endTime ∧
    (lockedEntry e en loss dur).fees = en.fees :=
  ⟨rfl, lockedEntry_delTime e en loss dur, rfl, rfl, rfl⟩

/-- the lock as a reader of the store sees it: that purchase becomes `lockedEntry`, every other
    (pool, holder, purchase id) reads as before; that pool loses `loss`, every other pool reads as before;
    `totalShield` drops and `totalClaimed` grows by exactly `loss` -/
theorem lock_exact_reads {e : Env} {s s' : State} {pool : Nat} {holder : Addr} {purchase : Nat} {loss dur : Int}
    (h : secureCollaterals e s pool holder purchase loss dur = .ok s')
    {en : Purchase} (hen : findPurchase s pool holder purchase = some en) :
    findPurchase s' pool holder purchase = some (lockedEntry e en loss dur) ∧
    (∀ pool' holder' id', ¬(pool' = pool ∧ holder' = holder ∧ id' = purchase) →
      findPurchase s' pool' holder' id' = findPurchase s pool' holder' id') ∧
    (∃ p, findPool s pool = some p ∧ findPool s' pool = some { p with shield := p.shield - loss }) ∧
    (∀ pool', pool' ≠ pool → findPool s' pool' = findPool s pool') ∧
    s'.totalShield = s.totalShield - loss ∧ s'.totalClaimed = s.totalClaimed + loss := by
  rcases (findPurchase_some_iff _ _ _ _ _).mp hen with ⟨lst, hl, hen'⟩
  rcases lock_exact h hl hen' with ⟨p, q, hfp, _, _, rfl⟩
  have hid : en.id = purchase := by have := List.find?_some hen'; simpa using this
  have hshift := findPurchase_shift (s := s)
    (s' := { s with
             withdraws := q,
             lists := s.lists.map (fun x => if x.pool == pool && x.purchaser == holder then
               { pool := pool, purchaser := holder,
                 entries := replaceFirst (·.id == purchase) (fun _ => lockedEntry e en loss dur) lst.entries } else x),
             pools := s.pools.map (fun x => if x.id == pool then { p with shield := p.shield - loss } else x),
             totalShield := s.totalShield - loss, totalClaimed := s.totalClaimed + loss })
    (f := fun _ => lockedEntry e en loss dur) hl (fun _ _ => hid) rfl
  have hpid : p.id = pool := findPool_id hfp
  have hpools := find?_pools_replace s.pools pool { p with shield := p.shield - loss } hpid
  refine ⟨?_, ?_, ⟨p, hfp, ?_⟩, ?_, rfl, rfl⟩
  · rw [hshift, if_pos ⟨rfl, rfl, rfl⟩, hen]; rfl
  · intro pool' holder' id' hne
    rw [hshift, if_neg hne]
  · show (s.pools.map _).find? _ = _
    rw [hpools pool, if_pos rfl]
    have : s.pools.find? (·.id == pool) = some p := hfp
    rw [this]; rfl
  · intro pool' hne
    show (s.pools.map _).find? _ = _
    rw [hpools pool', if_neg hne]; rfl

/-- the lock leaves providers, stakes, reimbursements, fees and the collateral totals alone -/
theorem lock_exact_frame {e : Env} {s s' : State} {pool : Nat} {holder : Addr} {purchase : Nat} {loss dur : Int}
    (h : secureCollaterals e s pool holder purchase loss dur = .ok s') :
    s'.providers = s.providers ∧ s'.stakes = s.stakes ∧ s'.stakingPool = s.stakingPool ∧ s'.origStakings = s.origStakings ∧
    s'.reimbs = s.reimbs ∧ s'.serviceFees = s.serviceFees ∧ s'.remaining = s.remaining ∧ s'.blockFees = s.blockFees ∧
    s'.totalCollateral = s.totalCollateral ∧ s'.totalWithdrawing = s.totalWithdrawing ∧ s'.params = s.params ∧
    s'.nextPool = s.nextPool ∧ s'.nextPurchase = s.nextPurchase ∧ s'.lastUpdate = s.lastUpdate ∧ s'.admin = s.admin := by
  rcases secureCollaterals_ok h with ⟨_, _, _, _, _, _, _, _, _, _, rfl⟩
  exact ⟨rfl, rfl, rfl, rfl, rfl, rfl, rfl, rfl, rfl, rfl, rfl, rfl, rfl, rfl, rfl⟩

/-- an admitted claim is locked against exactly the admitted purchase (admission and lock run on the same state in
    the same transaction): the fallback of `secureCollaterals` to the first entry of the list is never taken -/
theorem admitted_lock_exact {e : Env} {s s' : State} {pool : Nat} {holder : Addr} {purchase : Nat} {loss dur deposit : Int}
    (hadm : claimAdmissible s e.t holder pool purchase loss deposit = none)
    (h : secureCollaterals e s pool holder purchase loss dur = .ok s') :
    ∃ en, findPurchase s pool holder purchase = some en ∧ e.t ≤ en.endTime ∧ loss ≤ en.shield ∧
      findPurchase s' pool holder purchase = some (lockedEntry e en loss dur) ∧
      s'.totalShield = s.totalShield - loss ∧ s'.totalClaimed = s.totalClaimed + loss := by
  rcases (admitted_iff' _ _ _ _ _ _ _).mp hadm with ⟨en, hf, h1, h2, _, _⟩
  have := lock_exact_reads h hf
  exact ⟨en, hf, h1, h2, this.1, this.2.2.2.2.1, this.2.2.2.2.2⟩

/-- non-vacuity: the lock of 10 against purchase 1 of "aa" on `C03b.demo` succeeds, and reads as the theorems say -/
example : (secureCollaterals C03b.demoEnv C03b.demo 1 "aa" 1 10 100).toOption.map
      (fun s' => [[s'.totalShield, s'.totalClaimed], ((findPool s' 1).map (·.shield)).toList,
                  ((findPurchase s' 1 "aa" 1).map (fun x => [x.shield, x.delTime])).getD [],
                  ((findPurchase s' 1 "bb" 2).map (fun x => [x.shield, x.delTime])).getD []]) =
    some [[60, 10], [60], [40, 150], [20, 200]] := by decide

/-! ## the end of the proposal -/

/-- **"when the proposal ends the locked amount is released"**: vetoed, rejected or paid, `totalClaimed` drops by exactly
    `loss` (for `paid` through `createReimbursement`) -/
theorem release_on_end {e : Env} {l l' : Ledger} {s s' : State} {pid pool : Nat} {restoreTo beneficiary : Addr} {purchase : Nat}
    {loss : Int} {o : ClaimOutcome}
    (h : claimEnds e l s pid pool restoreTo beneficiary purchase loss o = .ok (l', s')) (ho : o ≠ .failed) :
    s'.totalClaimed = s.totalClaimed - loss := by
  unfold claimEnds at h
  cases o with
  | vetoed => cases h; rfl
  | rejected =>
    cases h
    show (restoreShield s pool restoreTo purchase loss).totalClaimed - loss = _
    have : (restoreShield s pool restoreTo purchase loss).totalClaimed = s.totalClaimed := by
      cases hfp : findPool s pool with
      | none => rw [restoreShield_none (Or.inl hfp)]
      | some p =>
        cases hfl : findList s pool restoreTo with
        | none => rw [restoreShield_none (Or.inr (Or.inl hfl))]
        | some lst =>
          cases hen : lst.entries.find? (·.id == purchase) with
          | none => rw [restoreShield_none (Or.inr (Or.inr ⟨lst, hfl, hen⟩))]
          | some en => rw [restoreShield_exact hfp hfl hen]
    rw [this]
  | paid => exact (createReimbursement_ok h).2.2.2.2.2.2.2.2
  | failed => exact absurd rfl ho

/-- the outcome `failed` (the proposal passed but its handler returned an error) releases nothing: the model mirrors
    governance's end-blocker, which discards the handler's writes and calls neither `ClaimEnd` nor `RestoreShield` -/
theorem failed_keeps_lock {e : Env} {l l' : Ledger} {s s' : State} {pid pool : Nat} {restoreTo beneficiary : Addr} {purchase : Nat}
    {loss : Int} (h : claimEnds e l s pid pool restoreTo beneficiary purchase loss .failed = .ok (l', s')) : s' = s ∧ l' = l := by
  unfold claimEnds at h; cases h; exact ⟨rfl, rfl⟩

/-- **"unless the claim was paid or vetoed the shield is restored to that same purchase"**, purchase still there: the exact
    post-state of a rejected claim.  The first entry with the purchase id in the holder's list, its pool and `totalShield`
    gain exactly `loss`; `totalClaimed` drops by `loss`; nothing else in the store changes. -/
theorem rejected_restores {e : Env} {l l' : Ledger} {s s' : State} {pid pool : Nat} {holder beneficiary : Addr} {purchase : Nat}
    {loss : Int} (h : claimEnds e l s pid pool holder beneficiary purchase loss .rejected = .ok (l', s'))
    {p : Pool} (hfp : findPool s pool = some p) {lst : PList} (hl : findList s pool holder = some lst) {en : Purchase}
    (hen : lst.entries.find? (·.id == purchase) = some en) :
    l' = l ∧
    s' = { s with
           totalShield := s.totalShield + loss, totalClaimed := s.totalClaimed - loss,
           pools := s.pools.map (fun x => if x.id == pool then { p with shield := p.shield + loss } else x),
           lists := s.lists.map (fun x => if x.pool == pool && x.purchaser == holder then
             { pool := pool, purchaser := holder,
               entries := replaceFirst (·.id == purchase) (fun x => { x with shield := x.shield + loss }) lst.entries } else x) } := by
  unfold claimEnds at h
  cases h
  rw [restoreShield_exact hfp hl hen]
  exact ⟨rfl, rfl⟩

/-- a rejected claim as a reader of the store sees it -/
theorem rejected_restores_reads {e : Env} {l l' : Ledger} {s s' : State} {pid pool : Nat} {holder beneficiary : Addr} {purchase : Nat}
    {loss : Int} (h : claimEnds e l s pid pool holder beneficiary purchase loss .rejected = .ok (l', s'))
    {p : Pool} (hfp : findPool s pool = some p) {en : Purchase} (hen : findPurchase s pool holder purchase = some en) :
    findPurchase s' pool holder purchase = some { en with shield := en.shield + loss } ∧
    (∀ pool' holder' id', ¬(pool' = pool ∧ holder' = holder ∧ id' = purchase) →
      findPurchase s' pool' holder' id' = findPurchase s pool' holder' id') ∧
    findPool s' pool = some { p with shield := p.shield + loss } ∧
    (∀ pool', pool' ≠ pool → findPool s' pool' = findPool s pool') ∧
    s'.totalShield = s.totalShield + loss ∧ s'.totalClaimed = s.totalClaimed - loss := by
  rcases (findPurchase_some_iff _ _ _ _ _).mp hen with ⟨lst, hl, hen'⟩
  rcases rejected_restores h hfp hl hen' with ⟨_, rfl⟩
  have hshift := findPurchase_shift (s := s)
    (s' := { s with
           totalShield := s.totalShield + loss, totalClaimed := s.totalClaimed - loss,
           pools := s.pools.map (fun x => if x.id == pool then { p with shield := p.shield + loss } else x),
           lists := s.lists.map (fun x => if x.pool == pool && x.purchaser == holder then
             { pool := pool, purchaser := holder,
               entries := replaceFirst (·.id == purchase) (fun x => { x with shield := x.shield + loss }) lst.entries } else x) })
    (f := fun x => { x with shield := x.shield + loss }) hl (fun _ ha => ha) rfl
  have hpid : p.id = pool := findPool_id hfp
  have hpools := find?_pools_replace s.pools pool { p with shield := p.shield + loss } hpid
  refine ⟨?_, ?_, ?_, ?_, rfl, rfl⟩
  · rw [hshift, if_pos ⟨rfl, rfl, rfl⟩, hen]; rfl
  · intro pool' holder' id' hne
    rw [hshift, if_neg hne]
  · show (s.pools.map _).find? _ = _
    rw [hpools pool, if_pos rfl]
    have : s.pools.find? (·.id == pool) = some p := hfp
    rw [this]; rfl
  · intro pool' hne
    show (s.pools.map _).find? _ = _
    rw [hpools pool', if_neg hne]; rfl

/-- a rejected claim whose pool or purchase no longer exists (closed pool, expired purchase): only the lock is released;
    nothing about purchases, pools or `totalShield` changes -/
theorem rejected_restores_absent {e : Env} {l l' : Ledger} {s s' : State} {pid pool : Nat} {holder beneficiary : Addr} {purchase : Nat}
    {loss : Int} (h : claimEnds e l s pid pool holder beneficiary purchase loss .rejected = .ok (l', s'))
    (habs : findPool s pool = none ∨ findPurchase s pool holder purchase = none) :
    l' = l ∧ s' = { s with totalClaimed := s.totalClaimed - loss } := by
  unfold claimEnds at h
  cases h
  have : restoreShield s pool holder purchase loss = s := by
    apply restoreShield_none
    rcases habs with h1 | h1
    · exact Or.inl h1
    · exact Or.inr ((findPurchase_none_iff _ _ _ _).mp h1)
  rw [this]
  exact ⟨rfl, rfl⟩

/-- a vetoed claim: only the lock is released; the shield is not restored; nothing else changes -/
theorem vetoed_restores_nothing {e : Env} {l l' : Ledger} {s s' : State} {pid pool : Nat} {holder beneficiary : Addr} {purchase : Nat}
    {loss : Int} (h : claimEnds e l s pid pool holder beneficiary purchase loss .vetoed = .ok (l', s')) :
    l' = l ∧ s' = { s with totalClaimed := s.totalClaimed - loss } := by
  unfold claimEnds at h
  cases h
  exact ⟨rfl, rfl⟩

/-- a paid claim does not touch purchases, pools, stakes or `totalShield` either: the shield stays consumed -/
theorem paid_restores_nothing {e : Env} {l l' : Ledger} {s s' : State} {pid pool : Nat} {holder beneficiary : Addr} {purchase : Nat}
    {loss : Int} (h : claimEnds e l s pid pool holder beneficiary purchase loss .paid = .ok (l', s')) :
    s'.pools = s.pools ∧ s'.lists = s.lists ∧ s'.totalShield = s.totalShield ∧ s'.totalClaimed = s.totalClaimed - loss := by
  unfold claimEnds at h
  have := createReimbursement_ok h
  exact ⟨this.1, this.2.1, this.2.2.2.1, this.2.2.2.2.2.2.2.2⟩

/-! ## lock, then rejection -/

/-- **Round trip**: a lock followed by the rejection of the same claim — with the purchase lists, pools and the two totals
    as the lock left them (no expiry in between; anything else may have happened) — gives back the original `totalShield`,
    `totalClaimed`, the pool record, and the purchase with its original shield (only its deletion time keeps the
    extension); every other purchase and pool reads as before the lock. -/
theorem lock_then_reject_roundtrip {e e' : Env} {l l' : Ledger} {s s1 s1' s2 : State} {pid pool : Nat} {holder beneficiary : Addr}
    {purchase : Nat} {loss dur : Int}
    (h1 : secureCollaterals e s pool holder purchase loss dur = .ok s1)
    {en : Purchase} (hen : findPurchase s pool holder purchase = some en)
    (hlists : s1'.lists = s1.lists) (hpools : s1'.pools = s1.pools)
    (hts : s1'.totalShield = s1.totalShield) (htc : s1'.totalClaimed = s1.totalClaimed)
    (h2 : claimEnds e' l s1' pid pool holder beneficiary purchase loss .rejected = .ok (l', s2)) :
    s2.totalShield = s.totalShield ∧ s2.totalClaimed = s.totalClaimed ∧
    findPool s2 pool = findPool s pool ∧
    findPurchase s2 pool holder purchase = some { en with delTime := max en.delTime (e.t + dur) } ∧
    (∀ pool' holder' id', ¬(pool' = pool ∧ holder' = holder ∧ id' = purchase) →
      findPurchase s2 pool' holder' id' = findPurchase s pool' holder' id') ∧
    (∀ pool', findPool s2 pool' = findPool s pool') := by
  have hr1 := lock_exact_reads h1 hen
  rcases hr1 with ⟨r1, r2, ⟨p, hfp, r3⟩, r4, r5, r6⟩
  have hfp1 : findPool s1' pool = some { p with shield := p.shield - loss } := by
    rw [findPool_congr hpools]; exact r3
  have hfpu : ∀ a b c, findPurchase s1' a b c = findPurchase s1 a b c := by
    intro a b c; unfold findPurchase; rw [findList_congr hlists]
  have hen1 : findPurchase s1' pool holder purchase = some (lockedEntry e en loss dur) := by rw [hfpu]; exact r1
  have hr2 := rejected_restores_reads h2 hfp1 hen1
  rcases hr2 with ⟨q1, q2, q3, q4, q5, q6⟩
  have hpool : findPool s2 pool = findPool s pool := by
    rw [q3, hfp]
    congr 1
    show Pool.mk p.id (p.shield - loss + loss) p.limit p.active p.sponsor p.sponsorAddr = p
    have : p.shield - loss + loss = p.shield := by omega
    rw [this]
  refine ⟨by rw [q5, hts, r5]; omega, by rw [q6, htc, r6]; omega, hpool, ?_, ?_, ?_⟩
  · rw [q1]
    congr 1
    show Purchase.mk en.id en.endTime (lockedEntry e en loss dur).delTime (en.shield - loss + loss) en.fees = _
    have : en.shield - loss + loss = en.shield := by omega
    rw [this, lockedEntry_delTime]
  · intro pool' holder' id' hne
    rw [q2 pool' holder' id' hne, hfpu, r2 pool' holder' id' hne]
  · intro pool'
    by_cases hp : pool' = pool
    · subst hp; exact hpool
    · rw [q4 pool' hp, findPool_congr hpools]; exact r4 pool' hp

/-- non-vacuity of the round trip on `C03b.demo`: lock 10 against purchase 1, reject: totals, pool and purchase are back
    (the deletion time keeps the extension to 150) -/
example :
    (match secureCollaterals C03b.demoEnv C03b.demo 1 "aa" 1 10 100 with
     | .ok s1 =>
       match claimEnds C03b.demoEnv C03b.demoLedger s1 7 1 "aa" "aa" 1 10 .rejected with
       | .ok (_, s2) => some [[s2.totalShield, s2.totalClaimed], ((findPool s2 1).map (·.shield)).toList,
                              ((findPurchase s2 1 "aa" 1).map (fun x => [x.shield, x.delTime])).getD []]
       | .error _ => none
     | .error _ => none) = some [[70, 0], [70], [50, 150]] := by decide

/-- non-vacuity of `release_on_end` for a paid claim: the lock of 10 is released and a reimbursement of 10 created -/
example :
    (match secureCollaterals C03b.demoEnv C03b.demo 1 "aa" 1 10 100 with
     | .ok s1 =>
       match claimEnds C03b.demoEnv C03b.demoLedger s1 7 1 "aa" "aa" 1 10 .paid with
       | .ok (_, s2) => some [[s1.totalClaimed, s2.totalClaimed, s2.totalShield], s2.reimbs.map (·.amount)]
       | .error _ => none
     | .error _ => none) = some [[10, 0, 60], [10]] := by decide

end Shentu.Props.C05
