import Shentu.Props.C09q
import Shentu.Proofs.C09q2Ledger
/-
  C09 for the unbonding queue, history level — "no coin of an unbonding entry disappears or is counted twice".

  `Shentu/Props/C09q.lean` proves what each single operation of `Model/UbdQueue.lean` does to the balances: an undelegation
  adds its balance (`undelegate_total`), a delay changes no balance (`delay_entries`), a payout takes exactly its amount
  (`pay_exact`), an end-block pays back exactly what leaves (`endBlock_conservation`).  This file assembles them into ONE
  statement about every history of operations from the empty state.

  The ghost log (`Ghost`, Proofs/C09q2Ledger.lean) is kept beside the state and never read by it (`ghost_is_silent`):
  `made` lists every entry an undelegation created, `outs` every successful payout with its amount (the coins that go to the
  shield module), `back` every entry an end-block paid back with the balance it then had, `consumed` counts the entries that
  payouts used up.  A call that panics (a failed transaction or proposal) changes neither the state nor the log.

  Proved for ALL histories, of any length, from the empty state (`ledger_history`), and from any state that satisfies the
  book-keeping invariant `Ledger` (`ledger_preserved`; `ledger_initial`: the empty state with the empty log satisfies it):
   * coins: the sum of all outstanding entry balances = the sum created − the sum taken by payouts − the sum paid back;
   * entries: the number of entries created = the number still stored + the number paid back + the number used up by payouts;
   * every entry still stored is queued in the slice of its completion time, and every queued pair has such an entry
     (the queue invariant `Inv`), so the end-blocker will reach each of them.
  `paid_back_once`: an end-block after any history appends to `back` exactly the stored entries that are mature, each as often
  as it is stored, and none of them is stored afterwards — no later end-block or payout can count it again.
  `consumed_counts_removals`: a successful payout after any history never adds an entry, so `consumed` grows by the number of
  entries that left; every entry that stays keeps its completion time and does not grow.

  What this file does NOT say.  The model's entries carry no identity (an entry is a completion time and a balance; two
  undelegations can create equal entries, a delay changes the time and a payout the balance), so "every entry ever created is,
  at the end, in exactly one of the three classes" is stated as the two sums above (balances and numbers), not as a map from
  created entries to their fate.  Stating it per entry needs entry identifiers in the model, which it does not have.
  Nothing is assumed about signs of balances or amounts.
-/
namespace Shentu.Props.C09q2
open Shentu.UbdQueue Shentu.C09q2H

/-- The ghost log is silent: running with the log gives the same states as running without it. -/
theorem ghost_is_silent (sg : State × Ghost) (ops : List Op) : (grun sg ops).1 = run sg.1 ops := grun_state sg ops

/-- The empty state with the empty log satisfies the book-keeping invariant. -/
theorem ledger_initial : Ledger (({} : State), ({} : Ghost)) := ledger_empty

/-- Every operation preserves the book-keeping invariant. A panicking call changes neither state nor log. -/
theorem ledger_preserved (sg : State × Ghost) (ops : List Op) (h : Ledger sg) : Ledger (grun sg ops) := ledger_run sg ops h

/-- **The ledger after every history from the empty state.**
    Coins: what is outstanding in all entries is what undelegations created, minus what successful payouts took, minus what
    end-blocks paid back.
    Entries: the entries created are as many as those still stored plus those paid back plus those used up by payouts.
    Every stored entry is queued at its completion time, and every queued pair has an entry completing then. -/
theorem ledger_history (ops : List Op) :
    let r := grun ({}, {}) ops
    r.1 = run {} ops ∧
    total r.1.ubds = paidSum r.2.made - outSum r.2.outs - paidSum r.2.back ∧
    numEntries r.1.ubds + r.2.back.length + r.2.consumed = r.2.made.length ∧
    (∀ d v e, e ∈ getEntries r.1.ubds d v → (d, v) ∈ getSlice r.1.queue e.t) ∧
    (∀ d v t, (d, v) ∈ getSlice r.1.queue t → ∃ e ∈ getEntries r.1.ubds d v, e.t = t) := by
  have h := ledger_run ({}, {}) ops ledger_empty
  exact ⟨grun_state _ ops, h.coins, h.entries, fun d v e he => C09q.entry_queued _ h.inv d v e he,
    fun d v t hq => C09q.queued_pair_has_entry _ h.inv d v t hq⟩

/-- **Paid back exactly once.** After any history, an end-block at `now` appends to the log exactly what it pays back.
    That is every stored entry completing at or before `now`, as often as it is stored.
    Afterwards each pair keeps exactly its entries completing after `now`, so a paid-back entry is not stored any more. -/
theorem paid_back_once (ops : List Op) (now : Int) :
    let r := grun ({}, {}) ops
    let r' := grun ({}, {}) (ops ++ [.endBlock now])
    r'.2.back = r.2.back ++ (endBlock r.1 now).2 ∧ r'.2.made = r.2.made ∧ r'.2.outs = r.2.outs ∧ r'.2.consumed = r.2.consumed ∧
    (∀ d v e, ((endBlock r.1 now).2).count (d, v, e) = ((getEntries r.1.ubds d v).filter (·.isMature now)).count e) ∧
    (∀ d v, getEntries r'.1.ubds d v = (getEntries r.1.ubds d v).filter (fun e => !e.isMature now)) := by
  have h := ledger_run ({}, {}) ops ledger_empty
  have hr : grun ({}, {}) (ops ++ [.endBlock now]) = gstep (grun ({}, {}) ops) (.endBlock now) := by
    simp [grun, List.foldl_append]
  simp only [hr]
  exact ⟨rfl, rfl, rfl, rfl, fun d v e => C09q.endBlock_paid _ now h.inv d v e, fun d v => C09q.endBlock_entries _ now h.inv d v⟩

/-- **What a payout uses up.** After any history, a successful payout of `x` from the delegator `d` is logged with its amount.
    It never adds an entry, so `consumed` grows by exactly the number of entries that left.
    The total outstanding shrinks by exactly `x`.
    Every entry of `d` that stays has the completion time of an entry that was there, and not more balance. -/
theorem consumed_counts_removals (ops : List Op) (d : String) (u x : Int) (s' : State)
    (ok : payFromAllUnbondings (grun ({}, {}) ops).1 d u x = .ok s') :
    let r := grun ({}, {}) ops
    let r' := grun ({}, {}) (ops ++ [.pay d u x])
    r'.1 = s' ∧ r'.2.outs = r.2.outs ++ [(d, x)] ∧ r'.2.made = r.2.made ∧ r'.2.back = r.2.back ∧
    numEntries s'.ubds + (r'.2.consumed - r.2.consumed) = numEntries r.1.ubds ∧
    total s'.ubds = total r.1.ubds - x ∧
    (∀ v e', e' ∈ getEntries s'.ubds d v → ∃ e ∈ getEntries r.1.ubds d v, e.t = e'.t ∧ e'.bal ≤ e.bal) := by
  have h := ledger_run ({}, {}) ops ledger_empty
  have hr : grun ({}, {}) (ops ++ [.pay d u x]) = gstep (grun ({}, {}) ops) (.pay d u x) := by
    simp [grun, List.foldl_append]
  obtain ⟨h1, h2⟩ := pay_sums _ _ _ _ _ h.inv.toWF ok
  simp only [hr, gstep, ok]
  refine ⟨trivial, trivial, trivial, trivial, by omega, h1, fun v e' he => C09q.pay_times _ _ _ _ _ h.inv.toWF ok v e' he⟩

/-- A panicking payout or delay leaves state and log as they were. -/
theorem failed_call_changes_nothing (sg : State × Ghost) :
    (∀ d u x msg, payFromAllUnbondings sg.1 d u x = .error msg → gstep sg (.pay d u x) = sg) ∧
    (∀ p a dl msg, delayUnbonding sg.1 p a dl = .error msg → gstep sg (.delay p a dl) = sg) := by
  refine ⟨fun d u x msg h => by simp only [gstep, h], fun p a dl msg h => ?_⟩
  simp only [gstep, step, h]

/-- A delay, successful or not, writes nothing into the log and changes neither the total nor the number of entries. -/
theorem delay_moves_no_coin (sg : State × Ghost) (p : String) (a dl : Int) (h : Ledger sg) :
    (gstep sg (.delay p a dl)).2 = sg.2 ∧ total (gstep sg (.delay p a dl)).1.ubds = total sg.1.ubds ∧
    numEntries (gstep sg (.delay p a dl)).1.ubds = numEntries sg.1.ubds := by
  refine ⟨rfl, ?_⟩
  show total (step sg.1 (.delay p a dl)).ubds = _ ∧ numEntries (step sg.1 (.delay p a dl)).ubds = _
  cases hd : delayUnbonding sg.1 p a dl with
  | error e =>
    have : step sg.1 (.delay p a dl) = sg.1 := by simp only [step, hd]
    rw [this]; exact ⟨rfl, rfl⟩
  | ok s' =>
    have : step sg.1 (.delay p a dl) = s' := by simp only [step, hd]
    rw [this]; exact delay_sums _ _ _ _ _ h.inv hd

/-! ## non-vacuity: the history `hist` of C09q (five undelegations, a delay, a payout, an end-block) -/

/-- the ghost log of `hist`: five entries created (26 coins), one payout of 9, one entry (4 coins) paid back, one entry used up -/
example : grun ({}, {}) C09q.hist =
    ({ ubds := [⟨"b", "v", [⟨90, 7⟩]⟩, ⟨"p", "v", [⟨90, 1⟩]⟩, ⟨"p", "w", [⟨100, 5⟩]⟩],
       queue := [(90, [("p", "v"), ("b", "v")]), (100, [("p", "w")])] },
     { made := [("p", "v", ⟨50, 4⟩), ("p", "v", ⟨90, 5⟩), ("p", "v", ⟨90, 1⟩), ("b", "v", ⟨90, 7⟩), ("p", "w", ⟨100, 9⟩)],
       outs := [("p", 9)], back := [("p", "v", ⟨50, 4⟩)], consumed := 1 }) := by decide

/-- … and the two identities of `ledger_history` on it: 13 = 26 − 9 − 4 and 3 + 1 + 1 = 5 -/
example : total (grun ({}, {}) C09q.hist).1.ubds = 13 ∧ paidSum (grun ({}, {}) C09q.hist).2.made = 26 ∧
    outSum (grun ({}, {}) C09q.hist).2.outs = 9 ∧ paidSum (grun ({}, {}) C09q.hist).2.back = 4 ∧
    numEntries (grun ({}, {}) C09q.hist).1.ubds = 3 := by decide

/-- the hypothesis of `consumed_counts_removals` holds for the payout of `hist` after its first six operations -/
example : ∃ s', payFromAllUnbondings (grun ({}, {}) (C09q.hist.take 6)).1 "p" 0 9 = .ok s' ∧
    numEntries (grun ({}, {}) (C09q.hist.take 6)).1.ubds = 5 ∧ numEntries s'.ubds = 4 := by
  refine ⟨(grun ({}, {}) (C09q.hist.take 7)).1, by decide, by decide, by decide⟩

/-- the hypothesis of `ledger_preserved` / `delay_moves_no_coin`: a non-empty state with its log satisfies `Ledger` -/
example : Ledger (grun ({}, {}) (C09q.hist.take 5)) ∧ (grun ({}, {}) (C09q.hist.take 5)).2.made.length = 5 :=
  ⟨ledger_run _ _ ledger_empty, by decide⟩

end Shentu.Props.C09q2

#print axioms Shentu.Props.C09q2.ghost_is_silent
#print axioms Shentu.Props.C09q2.ledger_initial
#print axioms Shentu.Props.C09q2.ledger_preserved
#print axioms Shentu.Props.C09q2.ledger_history
#print axioms Shentu.Props.C09q2.paid_back_once
#print axioms Shentu.Props.C09q2.consumed_counts_removals
#print axioms Shentu.Props.C09q2.failed_call_changes_nothing
#print axioms Shentu.Props.C09q2.delay_moves_no_coin
