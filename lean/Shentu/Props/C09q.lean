import Shentu.Proofs.C09qBlock
import Shentu.Proofs.C09qDelay
import Shentu.Proofs.C09qPay
import Shentu.Proofs.C09qSpec
/-
  C09 (and C04, C07) for the staking module's UNBONDING QUEUE as the shield module manipulates it — "an unbonding entry is
  never lost, never completes early, and is paid back exactly once".

  The model is Model/UbdQueue.lean: the unbonding delegations and the completion queue, the SDK's `undelegate` (the part of
  Undelegate that writes the two stores) and the end-blocker's completion (`endBlock`), the shield module's `delayUnbonding`
  (a claim locks a provider's stake: entries completing before the lock's end are postponed) and `payFromAllUnbondings`
  (a claim payout taken from unbonding entries, latest first), every loop and branch of the Go code kept (the cut of the LAST
  resp. FIRST matching pair out of a slice, the wholesale deletion of a slice of at most one pair without looking at it, the
  swap loop that re-sorts the entries, the four panics).  It is tied to the code by the engine `ubdqueue`: the real
  DelayUnbonding, PayFromUnbondings and staking end-blocker run in a discarded cache context on populations built by the real
  Undelegate (several entries per pair, equal completion times, shared slices, slices of one pair, entries exactly at the
  delayed time), the model runs on the same complete state and must give the same two stores.

  The invariant `Inv` (Proofs/C09qDefs.lean): slices in strictly increasing time order, one record per pair, and for every
  pair and every time the slice of that time names the pair exactly as often as the pair has entries completing then.
  It holds in the empty state and is preserved by every operation, hence after every history (`inv_run`).

  Proved for ALL states, inputs and histories:
   Q1 `entry_queued`, Q2 `queued_pair_has_entry`  (after every history: `entry_queued_run`, `queued_pair_has_entry_run`);
   Q3 `delay_*`: touches only the provider (entries and queue pairs), keeps every balance, moves times only from ≤ delayed to
      exactly delayed (never earlier), latest slice first, equals the specification function `Spec.delaySpec` (which has none
      of the risky branches), panics only with "failed to delay enough unbondings";
   Q4 `pay_*`: the provider's entries shrink by exactly the payout, nobody else is touched, completion times do not change,
      exactly the used-up entries are removed, the invariant is kept;
   Q5 `endBlock_*`, `completes_on_time`: the end-blocker at `now` pays back exactly the entries with completion time ≤ now,
      each once, keeps all others in order, and the balances are conserved; by `inv_run` this holds after every history, so a
      postponed entry is paid back at the first end-block at or after its new time and not before.

  FALSE of the model AND of the Go code (reproduced against the real keeper, evidence/C09q/ubdq_repro_test.go.txt):
  "the delay covers the amount / panics exactly when the candidates do not cover it".  When one pair of the provider has two
  entries completing EXACTLY at the delayed time, the first one's balance is counted twice and the other's not at all
  (`delay_covered_fails`, `delay_panics_fails`, `delay_ok_of_covered_fails`).  The three statements are proved with the extra
  hypothesis "at most one entry per pair at the delayed time" (`…_partial`).  The queue invariant is not affected.

  Assumed: nothing about sortedness of the entries (the SDK appends; `Spec.moveFirst_sorted` shows a delay keeps sorted lists
  sorted); for the `_partial` coverage statements non-negative balances.  Without `Inv` the wholesale slice deletion of
  PayFromUnbondings removes a bystander's pair and the end-blocker loses a mature entry (examples at the end).
-/
namespace Shentu.Props.C09q
open Shentu.UbdQueue

/-! ## the invariant after every history -/

/-- The empty state satisfies the invariant. -/
theorem inv_empty : Inv ({} : State) := Block.inv_empty

/-- Every operation preserves the invariant. A call that panics leaves the state as it was. -/
theorem inv_step (s : State) (op : Op) (h : Inv s) : Inv (step s op) := by
  cases op with
  | undelegate d v t bal => exact Block.undelegate_inv s d v t bal h
  | delay p a dl =>
    simp only [step]
    cases hd : delayUnbonding s p a dl with
    | error e => exact h
    | ok s' => exact Delay.delay_inv s s' p a dl h hd
  | pay d u x =>
    simp only [step]
    cases hd : payFromAllUnbondings s d u x with
    | error e => exact h
    | ok s' => exact Pay.pay_inv s s' d u x h hd
  | endBlock now => exact Block.endBlock_inv s now h

/-- The invariant holds after every history that starts in a state satisfying it. -/
theorem inv_run (s : State) (ops : List Op) (h : Inv s) : Inv (run s ops) := by
  induction ops generalizing s with
  | nil => exact h
  | cons op ops ih => exact ih (step s op) (inv_step s op h)

/-- The invariant holds after every history from the empty state. -/
theorem inv_reachable (ops : List Op) : Inv (run {} ops) := inv_run {} ops inv_empty

/-- a history with all four operations: two entries of one pair at one time, a shared slice, a delay that lands on an
    existing slice, a payout that removes an entry, an end-block -/
def hist : List Op :=
  [.undelegate "p" "v" 50 4, .undelegate "p" "v" 90 5, .undelegate "p" "v" 90 1, .undelegate "b" "v" 90 7,
   .undelegate "p" "w" 100 9, .delay "p" 10 100, .pay "p" 0 9, .endBlock 60]

example : Inv (run {} hist) := inv_reachable hist
example : run {} hist = { ubds := [⟨"b", "v", [⟨90, 7⟩]⟩, ⟨"p", "v", [⟨90, 1⟩]⟩, ⟨"p", "w", [⟨100, 5⟩]⟩],
                          queue := [(90, [("p", "v"), ("b", "v")]), (100, [("p", "w")])] } := by decide
example : run {} (hist.take 6) = { ubds := [⟨"b", "v", [⟨90, 7⟩]⟩, ⟨"p", "v", [⟨50, 4⟩, ⟨90, 1⟩, ⟨100, 5⟩]⟩, ⟨"p", "w", [⟨100, 9⟩]⟩],
                                   queue := [(50, [("p", "v")]), (90, [("p", "v"), ("b", "v")]), (100, [("p", "w"), ("p", "v")])] } := by decide

/-- **Q1, never lost.** Every entry of every unbonding delegation is queued: its pair stands in the slice of its completion time. -/
theorem entry_queued (s : State) (h : Inv s) (d v : String) (e : Entry) (he : e ∈ getEntries s.ubds d v) :
    (d, v) ∈ getSlice s.queue e.t := by
  have hc := h.counts d v e.t
  unfold queuedAt entriesAt at hc
  have : 0 < (getEntries s.ubds d v).countP (fun x => x.t == e.t) :=
    List.countP_pos_iff.mpr ⟨e, he, by simp⟩
  exact List.count_pos_iff.mp (by omega)

/-- **Q2, no stale pair.** Every queued pair has an entry completing at the slice's time. The SDK's end-blocker would skip a
    stale pair without harm, but `delayUnbonding` panics on one (`Spec` examples), so a stale pair of a provider would block
    every claim that has to lock that provider's unbondings. -/
theorem queued_pair_has_entry (s : State) (h : Inv s) (d v : String) (t : Int) (hq : (d, v) ∈ getSlice s.queue t) :
    ∃ e ∈ getEntries s.ubds d v, e.t = t := by
  have hc := h.counts d v t
  unfold queuedAt entriesAt at hc
  have : 0 < (getSlice s.queue t).count (d, v) := List.count_pos_iff.mpr hq
  obtain ⟨e, he, ht⟩ := List.countP_pos_iff.mp (show 0 < (getEntries s.ubds d v).countP (fun x => x.t == t) by omega)
  exact ⟨e, he, by simpa using ht⟩

/-- Q1 after every history. -/
theorem entry_queued_run (ops : List Op) (d v : String) (e : Entry) (he : e ∈ getEntries (run {} ops).ubds d v) :
    (d, v) ∈ getSlice (run {} ops).queue e.t := entry_queued _ (inv_reachable ops) d v e he

/-- Q2 after every history. -/
theorem queued_pair_has_entry_run (ops : List Op) (d v : String) (t : Int) (hq : (d, v) ∈ getSlice (run {} ops).queue t) :
    ∃ e ∈ getEntries (run {} ops).ubds d v, e.t = t := queued_pair_has_entry _ (inv_reachable ops) d v t hq

example : (⟨90, 1⟩ : Entry) ∈ getEntries (run {} hist).ubds "p" "v" := by decide
example : ("b", "v") ∈ getSlice (run {} hist).queue 90 := by decide

/-! ## Q3: the delay -/

/-- A delay leaves the entries of every other delegator as they are. No hypothesis. -/
theorem delay_frame_entries (s s' : State) (p : String) (a D : Int) (ok : delayUnbonding s p a D = .ok s') (d v : String)
    (hd : d ≠ p) : getEntries s'.ubds d v = getEntries s.ubds d v := Delay.delay_frame_entries s s' p a D ok d v hd

/-- A delay leaves the pairs of every other delegator in every slice as they are, in order. In particular the slice of one
    pair that the code deletes without looking at it is always the provider's. -/
theorem delay_frame_queue (s s' : State) (p : String) (a D : Int) (h : Inv s) (ok : delayUnbonding s p a D = .ok s')
    (d : String) (hd : d ≠ p) (t : Int) :
    (getSlice s'.queue t).filter (fun pr => pr.1 == d) = (getSlice s.queue t).filter (fun pr => pr.1 == d) :=
  Delay.delay_frame_queue s s' p a D h ok d hd t

/-- **Never earlier, no balance changed, nothing lost or created.** After a delay, the entries of each pair of the provider are,
    up to order, the old entries one by one (`Delay.List.Forall₂` is the usual element-by-element relation of two lists of equal
    length, which core Lean does not have): the balance is the same; the time is the same, or it was at most `D` and is now
    exactly `D`. -/
theorem delay_entries (s s' : State) (p : String) (a D : Int) (h : Inv s) (ok : delayUnbonding s p a D = .ok s') (v : String) :
    ∃ es, List.Perm es (getEntries s'.ubds p v) ∧ Delay.List.Forall₂ (Delayed D) (getEntries s.ubds p v) es :=
  Delay.delay_entries s s' p a D h ok v

/-- The correspondence of `delay_entries` never makes a time earlier. -/
theorem delayed_never_earlier (D : Int) (e e' : Entry) (h : Delayed D e e') : e.t ≤ e'.t ∧ e'.bal = e.bal := by
  obtain ⟨hb, ht | ⟨hle, ht⟩⟩ := h <;> exact ⟨by omega, hb⟩

/-- Under the invariant a delay panics for one reason only: the candidates did not cover the amount. The two "not found" panics
    are unreachable. -/
theorem delay_error (s : State) (p : String) (a D : Int) (msg : String) (h : Inv s)
    (herr : delayUnbonding s p a D = .error msg) : msg = "failed to delay enough unbondings" :=
  Delay.delay_error s p a D msg h herr

/-- A delay by nothing changes nothing. -/
theorem delay_noop (s : State) (p : String) (a D : Int) (ha : a ≤ 0) : delayUnbonding s p a D = .ok s :=
  Delay.delay_noop s p a D ha

/-- **Which entries are moved.** Under the invariant the implementation equals the specification function `Spec.delaySpec`:
    the provider's queued pairs in the slices up to `D` are taken from the LATEST slice down (the Go comment says "oldest"; the
    loop runs from the end), within a slice from the last pair to the first; for each one the slice loses the last occurrence of
    the pair (and disappears when empty), the FIRST entry of the pair completing at that time gets the time `D` and moves behind
    the directly following entries that complete before it, the pair is appended to the slice of `D`; the loop stops as soon as
    the balances of the moved entries reach the amount. It fails exactly when the specification finds the amount uncovered. -/
theorem delay_eq_spec (s : State) (p : String) (a D : Int) (h : Inv s) :
    delayUnbonding s p a D = match Spec.delaySpec s p a D with
      | some s' => .ok s'
      | none => .error "failed to delay enough unbondings" := Spec.delayUnbonding_eq_spec s p a D h

/-- The delay keeps the invariant (part of `inv_step`; stated for a single call). -/
theorem delay_inv (s s' : State) (p : String) (a D : Int) (h : Inv s) (ok : delayUnbonding s p a D = .ok s') : Inv s' :=
  Delay.delay_inv s s' p a D h ok

/-- Re-timing keeps a sorted entry list sorted (the swap loop is an insertion). Nothing in the queue invariant depends on
    sortedness; `ComputeUnbondingAmountByTime` (not modelled) stops at the first immature entry and does. -/
theorem delay_keeps_sorted (es : List Entry) (t D : Int) (hs : es.Pairwise (fun a b => a.t ≤ b.t)) (hle : t ≤ D) :
    (Spec.moveFirst es t D).Pairwise (fun a b => a.t ≤ b.t) := Spec.moveFirst_sorted es t D hs hle

example : Inv (run {} (hist.take 5)) ∧ (delayUnbonding (run {} (hist.take 5)) "p" 10 100).toOption = some (run {} (hist.take 6)) :=
  ⟨inv_reachable _, by decide⟩

/-- **FALSE: "a successful delay covers the amount".** Two entries of one pair at the delayed time: the first one's balance is
    counted twice; the call returns although the entries then completing at the delayed time hold less than the amount. -/
theorem delay_covered_fails : ¬ (∀ (s s' : State) (p : String) (a D : Int), Inv s → NonNeg s.ubds p → 0 < a →
    delayUnbonding s p a D = .ok s' → a ≤ atTime s'.ubds p D) := Delay.delay_covered_fails

/-- **FALSE: "an uncovered amount is refused".** Same situation: the call returns although all candidates together hold less. -/
theorem delay_panics_fails : ¬ (∀ (s : State) (p : String) (a D : Int), Inv s → NonNeg s.ubds p → byTime s.ubds p D < a →
    ∃ msg, delayUnbonding s p a D = .error msg) := Delay.delay_panics_fails

/-- **FALSE: "a covered amount is accepted".** Same situation with the small entry first: the call panics although the
    candidates cover the amount. -/
theorem delay_ok_of_covered_fails : ¬ (∀ (s : State) (p : String) (a D : Int), Inv s → NonNeg s.ubds p →
    a ≤ byTime s.ubds p D → ∃ s', delayUnbonding s p a D = .ok s') := Delay.delay_ok_of_covered_fails

/-- **The true part of "covers the amount".** With non-negative balances and at most one entry per pair of the provider completing
    exactly at `D` beforehand, after a successful delay by `a > 0` the provider's entries completing exactly at `D` hold at
    least `a`: that much of its unbonding stake cannot complete before the lock ends. -/
theorem delay_covered_partial (s s' : State) (p : String) (a D : Int) (h : Inv s) (hn : NonNeg s.ubds p)
    (hone : ∀ v, entriesAt s p v D ≤ 1) (ha : 0 < a) (ok : delayUnbonding s p a D = .ok s') : a ≤ atTime s'.ubds p D :=
  Delay.delay_covered_partial s s' p a D h hn hone ha ok

/-- The true part of "an uncovered amount is refused", same extra hypothesis. -/
theorem delay_panics_partial (s : State) (p : String) (a D : Int) (h : Inv s) (hn : NonNeg s.ubds p)
    (hone : ∀ v, entriesAt s p v D ≤ 1) (hc : byTime s.ubds p D < a) :
    delayUnbonding s p a D = .error "failed to delay enough unbondings" := Delay.delay_panics_partial s p a D h hn hone hc

/-- The true part of "a covered amount is accepted", same extra hypothesis: a claim lock never fails at this point when the
    provider's entries completing by `D` cover the amount. -/
theorem delay_ok_of_covered_partial (s : State) (p : String) (a D : Int) (h : Inv s) (hn : NonNeg s.ubds p)
    (hone : ∀ v, entriesAt s p v D ≤ 1) (hc : a ≤ byTime s.ubds p D) : ∃ s', delayUnbonding s p a D = .ok s' :=
  Delay.delay_ok_of_covered_partial s p a D h hn hone hc

example : Inv Delay.s2 ∧ NonNeg Delay.s2.ubds "p" ∧ (∀ v, entriesAt Delay.s2 "p" v 100 ≤ 1) ∧ (10 : Int) ≤ byTime Delay.s2.ubds "p" 100 :=
  ⟨Delay.inv_s2, Delay.nonneg_s2, Delay.hone_s2, by decide⟩

/-- **Latest first.** If an entry of the provider still completes at some `T < D` after the delay, nothing was moved out of any
    earlier time: the candidates are taken from the latest slice down. -/
theorem delay_latest_first (s s' : State) (p : String) (a D : Int) (h : Inv s) (ok : delayUnbonding s p a D = .ok s')
    (v : String) (T : Int) (hT : T < D) (hleft : 0 < entriesAt s' p v T) (v' : String) (T' : Int) (hT' : T' < T) :
    entriesAt s' p v' T' = entriesAt s p v' T' := Delay.delay_latest_first s s' p a D h ok v T hT hleft v' T' hT'

/-! ## Q4: the payout -/

/-- **Exactly the payout.** A successful payout walk lowers what the delegator has in unbonding entries by exactly the payout
    (every snapshot element still finds its stored entry, also after earlier elements were paid from). -/
theorem pay_exact (s s' : State) (d : String) (u x : Int) (h : WF s) (ok : payFromAllUnbondings s d u x = .ok s') :
    outstanding s'.ubds d = outstanding s.ubds d - x := Pay.pay_exact s s' d u x h ok

/-- The payout keeps the invariant: a used-up entry leaves together with one queue pair of its slice. -/
theorem pay_inv (s s' : State) (d : String) (u x : Int) (h : Inv s) (ok : payFromAllUnbondings s d u x = .ok s') : Inv s' :=
  Pay.pay_inv s s' d u x h ok

/-- Nothing is taken from other delegators. No hypothesis. -/
theorem pay_frame_entries (s s' : State) (d : String) (u x : Int) (ok : payFromAllUnbondings s d u x = .ok s') (d' v : String)
    (hd : d' ≠ d) : getEntries s'.ubds d' v = getEntries s.ubds d' v := Pay.pay_frame_entries s s' d u x ok d' v hd

/-- Other delegators' queue pairs stay, in order (the slice of one pair deleted wholesale is the delegator's own: this needs Q1). -/
theorem pay_frame_queue (s s' : State) (d : String) (u x : Int) (h : Inv s) (ok : payFromAllUnbondings s d u x = .ok s')
    (d' : String) (hd : d' ≠ d) (t : Int) :
    (getSlice s'.queue t).filter (fun pr => pr.1 == d') = (getSlice s.queue t).filter (fun pr => pr.1 == d') :=
  Pay.pay_frame_queue s s' d u x h ok d' hd t

/-- No completion time changes and balances only shrink. -/
theorem pay_times (s s' : State) (d : String) (u x : Int) (h : WF s) (ok : payFromAllUnbondings s d u x = .ok s') (v : String)
    (e' : Entry) (he : e' ∈ getEntries s'.ubds d v) : ∃ e ∈ getEntries s.ubds d v, e.t = e'.t ∧ e'.bal ≤ e.bal :=
  Pay.pay_times s s' d u x h ok v e' he

/-- **Exactly the used-up entries are removed.** With positive balances before, all balances are positive afterwards. -/
theorem pay_no_empty_entry (s s' : State) (d : String) (u x : Int) (h : WF s) (hu : 0 ≤ u)
    (hpos : ∀ v, ∀ e ∈ getEntries s.ubds d v, 0 < e.bal) (ok : payFromAllUnbondings s d u x = .ok s') (v : String) :
    ∀ e ∈ getEntries s'.ubds d v, 0 < e.bal := Pay.pay_no_empty_entry s s' d u x h hu hpos ok v

/-- One call of `PayFromUnbondings` on a stored entry keeps the invariant. -/
theorem payOne_inv (s s' : State) (d v : String) (e0 : Entry) (x : Int) (h : Inv s) (hm : e0 ∈ getEntries s.ubds d v)
    (ok : payFromUnbondings s d v e0 x = .ok s') : Inv s' := Pay.payOne_inv s s' d v e0 x h hm ok

/-- One call of `PayFromUnbondings` on a stored entry takes exactly `x` from the delegator's entries. -/
theorem payOne_exact (s s' : State) (d v : String) (e0 : Entry) (x : Int) (h : WF s) (hm : e0 ∈ getEntries s.ubds d v)
    (ok : payFromUnbondings s d v e0 x = .ok s') : outstanding s'.ubds d = outstanding s.ubds d - x :=
  Pay.payOne_exact s s' d v e0 x h hm ok

example : Inv (run {} (hist.take 6)) ∧ (payFromAllUnbondings (run {} (hist.take 6)) "p" 0 9).toOption = some (run {} (hist.take 7))
    ∧ outstanding (run {} (hist.take 6)).ubds "p" = 19 ∧ outstanding (run {} (hist.take 7)).ubds "p" = 10 :=
  ⟨inv_reachable _, by decide, by decide, by decide⟩

/-! ## Q5: completion -/

/-- **On time, never early.** After the end-blocker at `now`, every pair keeps exactly its entries that complete after `now`, in order. -/
theorem endBlock_entries (s : State) (now : Int) (h : Inv s) (d v : String) :
    getEntries (endBlock s now).1.ubds d v = (getEntries s.ubds d v).filter (fun e => !e.isMature now) :=
  Block.endBlock_entries s now h d v

/-- After the end-blocker at `now` no entry with completion time ≤ now is left. -/
theorem endBlock_no_mature (s : State) (now : Int) (h : Inv s) (d v : String) (e : Entry)
    (he : e ∈ getEntries (endBlock s now).1.ubds d v) : now < e.t := Block.endBlock_no_mature s now h d v e he

/-- The slices up to `now` are gone, the later ones untouched. -/
theorem endBlock_queue (s : State) (now : Int) (h : WF s) (t : Int) :
    getSlice (endBlock s now).1.queue t = if t ≤ now then [] else getSlice s.queue t := Block.endBlock_queue s now h t

/-- **Exactly once.** What the end-blocker pays back is exactly the mature entries, each as often as it is stored (also when the
    pair is dequeued twice). -/
theorem endBlock_paid (s : State) (now : Int) (h : Inv s) (d v : String) (e : Entry) :
    ((endBlock s now).2).count (d, v, e) = ((getEntries s.ubds d v).filter (·.isMature now)).count e :=
  Block.endBlock_paid s now h d v e

/-- What is outstanding afterwards plus what was paid back is what was outstanding before. -/
theorem endBlock_conservation (s : State) (now : Int) (h : Inv s) :
    total (endBlock s now).1.ubds + paidSum (endBlock s now).2 = total s.ubds := Block.endBlock_conservation s now h

/-- An undelegation adds its balance, and its entry at the end of the pair's list. -/
theorem undelegate_total (s : State) (d v : String) (t bal : Int) (h : WF s) :
    total (undelegate s d v t bal).ubds = total s.ubds + bal := Block.undelegate_total s d v t bal h

/-- **After every history** (undelegations, delays, payouts, end-blocks in any order) the next end-block at `now` pays back
    exactly the entries completing at or before `now`, each once, and keeps all the others. So an entry — also one that was
    postponed, whose time is then the delayed time — is paid back at the first end-block at or after its completion time, not
    before, and only once (it is gone afterwards). -/
theorem completes_on_time (ops : List Op) (now : Int) (d v : String) :
    getEntries (endBlock (run {} ops) now).1.ubds d v = (getEntries (run {} ops).ubds d v).filter (fun e => !e.isMature now)
    ∧ ∀ e, ((endBlock (run {} ops) now).2).count (d, v, e) = ((getEntries (run {} ops).ubds d v).filter (·.isMature now)).count e :=
  ⟨endBlock_entries _ now (inv_reachable ops) d v, fun e => endBlock_paid _ now (inv_reachable ops) d v e⟩

example : (endBlock (run {} (hist.take 6)) 99).2 = [("p", "v", ⟨50, 4⟩), ("p", "v", ⟨90, 1⟩), ("b", "v", ⟨90, 7⟩)]
    ∧ getEntries (endBlock (run {} (hist.take 6)) 99).1.ubds "p" "v" = [⟨100, 5⟩] := by decide

/-- Without Q1 the end-blocker loses a mature entry for ever: its pair is not queued, nothing will complete it. -/
example : ∃ s : State, WF s ∧ ∃ e ∈ getEntries (endBlock s 100).1.ubds "p" "v", e.t ≤ 100 :=
  ⟨{ ubds := [⟨"p", "v", [⟨50, 4⟩]⟩], queue := [] }, ⟨by decide, by decide⟩, ⟨50, 4⟩, by decide, by decide⟩

end Shentu.Props.C09q

#print axioms Shentu.Props.C09q.inv_empty
#print axioms Shentu.Props.C09q.inv_step
#print axioms Shentu.Props.C09q.inv_run
#print axioms Shentu.Props.C09q.inv_reachable
#print axioms Shentu.Props.C09q.entry_queued
#print axioms Shentu.Props.C09q.queued_pair_has_entry
#print axioms Shentu.Props.C09q.entry_queued_run
#print axioms Shentu.Props.C09q.queued_pair_has_entry_run
#print axioms Shentu.Props.C09q.delay_frame_entries
#print axioms Shentu.Props.C09q.delay_frame_queue
#print axioms Shentu.Props.C09q.delay_entries
#print axioms Shentu.Props.C09q.delayed_never_earlier
#print axioms Shentu.Props.C09q.delay_error
#print axioms Shentu.Props.C09q.delay_noop
#print axioms Shentu.Props.C09q.delay_eq_spec
#print axioms Shentu.Props.C09q.delay_inv
#print axioms Shentu.Props.C09q.delay_keeps_sorted
#print axioms Shentu.Props.C09q.delay_covered_fails
#print axioms Shentu.Props.C09q.delay_panics_fails
#print axioms Shentu.Props.C09q.delay_ok_of_covered_fails
#print axioms Shentu.Props.C09q.delay_covered_partial
#print axioms Shentu.Props.C09q.delay_panics_partial
#print axioms Shentu.Props.C09q.delay_ok_of_covered_partial
#print axioms Shentu.Props.C09q.delay_latest_first
#print axioms Shentu.Props.C09q.pay_exact
#print axioms Shentu.Props.C09q.pay_inv
#print axioms Shentu.Props.C09q.pay_frame_entries
#print axioms Shentu.Props.C09q.pay_frame_queue
#print axioms Shentu.Props.C09q.pay_times
#print axioms Shentu.Props.C09q.pay_no_empty_entry
#print axioms Shentu.Props.C09q.payOne_inv
#print axioms Shentu.Props.C09q.payOne_exact
#print axioms Shentu.Props.C09q.endBlock_entries
#print axioms Shentu.Props.C09q.endBlock_no_mature
#print axioms Shentu.Props.C09q.endBlock_queue
#print axioms Shentu.Props.C09q.endBlock_paid
#print axioms Shentu.Props.C09q.endBlock_conservation
#print axioms Shentu.Props.C09q.undelegate_total
#print axioms Shentu.Props.C09q.completes_on_time
