import Shentu.Gen.Vesting
import Shentu.Proofs.BankLemmas
import Shentu.Model.Cvm
import Shentu.Proofs.Tactics
import Shentu.Gen.Wiring
/-
  C19 — Locked coins stay locked until the designated unlocker releases them.
-/
namespace Shentu.Props.C19
open Shentu Shentu.Vesting

/-- tie (regenerated on every run): the lock check of a VM call carrying value reads the spendable amount of the denomination the
    VM moves — the staking bond denomination, not a constant that happens to equal it under the default configuration -/
theorem tie_spendable_denomination : Gen.Wiring.cvmSpendableDenom_found = true ∧ Gen.Wiring.cvmSpendableDenom = ["k.sk.BondDenom(ctx)"] := by decide

/-! ## the lock's code, pinned (regenerated from x/auth and x/bank on every run)

The guards and updates below are coins-valued, so they are extracted as the ordered skeleton of each function (every `if`
condition, every field update, every value returned, every account or coin move) and pinned here, next to the model function
that mirrors them (`Vesting.unlock`, `Vesting.lockedSend`, `Vesting.locked`). A change of a guard, of an updated field or of the
order of the moves breaks the tie. -/

/-- every function of the lock was found in the source -/
theorem tie_vesting_sites : Gen.Vesting.allFound = true := by decide

/-- `MsgUnlock`: the account must exist and be a manual vesting account, the signer must be its recorded unlocker, the unlocked
    total may not exceed the locked total in any denomination; then the unlocked total grows by the amount (and delegated-vesting
    moves to delegated-free by what became unlocked) and the account is saved -/
theorem tie_unlock : Gen.Vesting.unlock =
    ["call k.ak.GetAccount(ctx, accountAddr)", "if acc == nil", "if !ok", "if !issuerAddr.Equals(unlocker)",
     "if mvacc.VestedCoins.Add(msg.UnlockAmount...).IsAnyGT(mvacc.OriginalVesting)",
     "mvacc.VestedCoins = mvacc.VestedCoins.Add(msg.UnlockAmount...)",
     "if mvacc.DelegatedVesting.IsAllGT(mvacc.OriginalVesting.Sub(mvacc.VestedCoins))",
     "mvacc.DelegatedVesting = mvacc.DelegatedVesting.Sub(unlockedDelegated)",
     "mvacc.DelegatedFree = mvacc.DelegatedFree.Add(unlockedDelegated...)",
     "call k.ak.SetAccount(ctx, mvacc)"] := by decide

/-- `MsgLockedSend`: the recipient may not be its own unlocker; a new recipient needs an unlocker and starts with nothing locked
    and nothing unlocked; an existing one must already be a manual vesting account and its unlocker cannot be named again; the
    coins are credited, the locked total grows by exactly the amount, the account is saved, and the sender is debited (through
    `SubtractCoins`, which respects the sender's own lock) -/
theorem tie_lockedSend : Gen.Vesting.lockedSend =
    ["if msg.UnlockerAddress != \"\"", "call k.ak.GetAccount(ctx, fromAddr)", "if from == nil", "if toAddr.Equals(unlocker)",
     "call k.ak.GetAccount(ctx, toAddr)", "if acc == nil", "call k.ak.NewAccountWithAddress(ctx, toAddr)", "if unlocker.Empty()",
     "call vesting.NewManualVestingAccount(baseAcc, sdk.NewCoins(), sdk.NewCoins(), unlocker)", "if !ok", "if !unlocker.Empty()",
     "call k.AddCoins(ctx, toAddr, msg.Amount)", "toAcc.OriginalVesting = toAcc.OriginalVesting.Add(msg.Amount...)",
     "call k.ak.SetAccount(ctx, toAcc)", "call k.SubtractCoins(ctx, fromAddr, msg.Amount)"] := by decide

/-- what the bank treats as locked: the original amount minus the unlocked total (minus what is delegated while locked: the SDK's
    `LockedCoinsFromVesting`), whatever the block time -/
theorem tie_locked_amount :
    Gen.Vesting.lockedCoins = ["return mva.BaseVestingAccount.LockedCoinsFromVesting(mva.GetVestingCoins(blockTime))"] ∧
    Gen.Vesting.vestingCoins = ["return mva.OriginalVesting.Sub(mva.GetVestedCoins(blockTime))"] ∧
    Gen.Vesting.vestedCoins = ["if !mva.VestedCoins.IsZero()", "return mva.VestedCoins"] ∧
    Gen.Vesting.trackDelegation = ["call mva.BaseVestingAccount.TrackDelegation(balance, mva.GetVestingCoins(blockTime), amount)"] := by decide

theorem denoms_single (d : Denom) (x : Int) : d ∈ Coins.denoms [(d, x)] := by
  unfold Coins.denoms; rw [List.mem_eraseDups]; simp
macro "decide_denoms" : tactic => `(tactic| exact denoms_single _ _)

/-- the spendable-balance rule: whatever `canSpend` lets through leaves the locked amount in the account -/
theorem canSpend_leaves_locked (l : Ledger) (vs : Accounts) (a : Addr) (amt : Coins) (h : canSpend l vs a amt = .ok ()) :
    ∀ d ∈ Coins.denoms amt, l.balOf a d - Coins.amountOf amt d ≥ lockedOf vs a d := by
  unfold canSpend at h
  split at h; · cases h
  split at h; · cases h
  split at h
  · rename_i hall
    intro d hd
    have := (List.all_eq_true.mp hall) d hd
    have h2 : l.balOf a d - lockedOf vs a d ≥ Coins.amountOf amt d := by simpa using this
    omega
  · cases h

/-- **A plain send** (and every path that goes through the bank's `SubtractCoins`: multi-send inputs, deposits, fees, escrow)
    cannot take the sender below its locked amount. -/
theorem send_respects_lock (l l' : Ledger) (vs : Accounts) (a b : Addr) (amt : Coins) (hab : a ≠ b)
    (h : send l vs a b amt = .ok l') : ∀ d ∈ Coins.denoms amt, l'.balOf a d ≥ lockedOf vs a d := by
  unfold send at h
  split at h; · cases h
  rename_i hc
  injection h with h; subst h
  intro d hd
  have := canSpend_leaves_locked l vs a amt hc d hd
  rw [Ledger.balOf_move]
  have hb : (b == a) = false := by simpa using Ne.symm hab
  simp [hb]; omega

/-- **Value attached to a contract call or deployment** is subject to the same rule (the check the VM path lacked) -/
theorem call_value_respects_lock (bond : Denom) (l l' : Ledger) (vs : Accounts) (s s' : Cvm.State) (caller callee : Addr) (v : Int)
    (d0 : String) (z : Bool) (t : Addr) (hd : Bool) (hv : 0 < v)
    (h : Cvm.call bond l vs s caller callee v d0 z t hd = .ok (l', s')) :
    l.balOf caller bond - v ≥ lockedOf vs caller bond := by
  unfold Cvm.call at h
  split at h; · cases h
  rename_i hc
  simp only [hv, if_true] at hc
  have := canSpend_leaves_locked l vs caller [(bond, v)] hc bond (by decide_denoms)
  simpa using this

theorem deploy_value_respects_lock (bond : Denom) (l l' : Ledger) (vs : Accounts) (s s' : Cvm.State) (caller na : Addr) (code : String) (v : Int)
    (hv : 0 < v) (h : Cvm.deploy bond l vs s caller na code v = .ok (l', s')) :
    l.balOf caller bond - v ≥ lockedOf vs caller bond := by
  unfold Cvm.deploy at h
  split at h; · cases h
  rename_i hc
  simp only [hv, if_true] at hc
  have := canSpend_leaves_locked l vs caller [(bond, v)] hc bond (by decide_denoms)
  simpa using this

/-- locked coins can be delegated: delegation only needs the balance -/
theorem delegate_allowed (l : Ledger) (vs : Accounts) (del pool : Addr) (d : Denom) (amount : Int)
    (hpos : 0 < amount) (hbal : amount ≤ l.balOf del d) : ∃ r, delegate l vs del pool d amount = .ok r := by
  unfold delegate
  have h1 : ¬ amount ≤ 0 := by omega
  have h2 : ¬ l.balOf del d < amount := by omega
  simp [h1, h2]

/-! ### Unlocking -/

/-- only the unlocker recorded in the account can unlock; the unlocked total never exceeds what was locked, in any denomination;
    nothing but the unlocked amount (and the delegated split) changes — in particular not the unlocker and not the original amount -/
theorem unlock_spec (vs vs' : Accounts) (ex : Addr → Bool) (issuer account : Addr) (amt : Coins)
    (h : unlock vs ex issuer account amt = .ok vs') :
    ∃ m m', find vs account = some m ∧ issuer = m.unlocker ∧ vs' = set vs m' ∧
      m'.addr = m.addr ∧ m'.unlocker = m.unlocker ∧ m'.ov = m.ov ∧ m'.vested = Coins.add m.vested amt ∧
      (∀ d, Coins.amountOf m'.vested d ≤ Coins.amountOf m.ov d) := by
  unfold unlock at h
  split at h; · cases h
  split at h; · cases h
  split at h; · cases h
  rename_i m hm
  split at h; · cases h
  rename_i hiss
  dsimp only at h
  split at h; · cases h
  split at h; · cases h
  rename_i hneg
  have hle : ∀ d, Coins.amountOf (Coins.add m.vested amt) d ≤ Coins.amountOf m.ov d := by
    intro d
    by_cases hmem : d ∈ Coins.denoms (Coins.sub m.ov (Coins.add m.vested amt))
    · have : ¬ (Coins.amountOf (Coins.sub m.ov (Coins.add m.vested amt)) d < 0) := by
        intro hlt
        apply hneg
        simp only [Coins.isAnyNegative, List.any_eq_true, decide_eq_true_eq]
        exact ⟨d, hmem, hlt⟩
      simp only [Coins.amountOf_sub] at this; omega
    · -- a denomination mentioned nowhere has amount 0 on both sides
      have hz : ∀ (c : Coins), d ∉ Coins.denoms c → Coins.amountOf c d = 0 := by
        intro c hc
        unfold Coins.denoms at hc
        rw [List.mem_eraseDups] at hc
        unfold Coins.amountOf
        have : c.filter (fun e => e.1 == d) = [] := by
          apply List.filter_eq_nil_iff.mpr
          intro e he hed
          exact hc (List.mem_map.mpr ⟨e, he, beq_iff_eq.mp hed⟩)
        simp [this]
      have := hz _ hmem
      simp only [Coins.amountOf_sub] at this; omega
  have hissuer : issuer = m.unlocker := by simpa using hiss
  split at h
  · injection h with h
    exact ⟨m, _, hm, hissuer, h.symm, rfl, rfl, rfl, rfl, hle⟩
  · injection h with h
    exact ⟨m, _, hm, hissuer, h.symm, rfl, rfl, rfl, rfl, hle⟩

/-- nobody but the designated unlocker -/
theorem unlock_refused_for_others (vs : Accounts) (ex : Addr → Bool) (issuer account : Addr) (amt : Coins) (m : MVA)
    (hm : find vs account = some m) (hne : issuer ≠ m.unlocker) : ∃ x, unlock vs ex issuer account amt = .error x := by
  unfold unlock
  split; · exact ⟨_, rfl⟩
  split; · exact ⟨_, rfl⟩
  rw [hm]; dsimp only
  have : (issuer == m.unlocker) = false := by simpa using hne
  simp only [this]
  exact ⟨_, rfl⟩

/-- **The unlocker of an existing account cannot be changed**: a locked send that names an unlocker for an existing vesting
    account is refused, and an accepted one keeps the recorded unlocker. -/
theorem lockedSend_keeps_unlocker (l l' : Ledger) (vs vs' : Accounts) (f : Addr → Bool) (src dst u : Addr) (amt : Coins) (m : MVA)
    (hm : find vs dst = some m) (h : lockedSend l vs f src dst u amt = .ok (l', vs')) :
    u = "" ∧ vs' = set vs { m with ov := Coins.add m.ov amt } := by
  unfold lockedSend at h
  dsimp only at h
  split at h; · cases h
  split at h; · cases h
  rw [hm] at h
  dsimp only at h
  by_cases hu : u != ""
  · simp only [hu, if_true] at h; cases h
  · have hu' : u = "" := by simpa using hu
    simp only [hu] at h
    split at h; · cases h
    rename_i tgt m2 heq
    simp only [Bool.false_eq_true, if_false] at heq
    injection heq with heq; subst heq
    split at h; · cases h
    injection h with h; injection h with _ h2
    exact ⟨hu', h2.symm⟩

/-- non-vacuity: an account with 100 locked and 50 free can spend 50 and not 51 -/
example : (match canSpend { posts := [("m", "uctk", 150)], supply := [("uctk", 150)] }
    [{ addr := "m", ov := [("uctk", 100)], vested := [], dv := [], df := [], unlocker := "u" }] "m" [("uctk", 50)] with | .ok _ => true | .error _ => false) = true := by decide
example : (match canSpend { posts := [("m", "uctk", 150)], supply := [("uctk", 150)] }
    [{ addr := "m", ov := [("uctk", 100)], vested := [], dv := [], df := [], unlocker := "u" }] "m" [("uctk", 51)] with | .ok _ => true | .error _ => false) = false := by decide

end Shentu.Props.C19

#print axioms Shentu.Props.C19.send_respects_lock
#print axioms Shentu.Props.C19.call_value_respects_lock
#print axioms Shentu.Props.C19.unlock_spec
#print axioms Shentu.Props.C19.lockedSend_keeps_unlocker
