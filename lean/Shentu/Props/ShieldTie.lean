import Shentu.Model.Shield
import Shentu.Gen.Shield
import Shentu.Gen.Wiring
/-
  The regenerated tie of the shield model: every guard and amount below is translated from the current Go source on every
  run (Shentu/Gen/Shield.lean); each theorem states that the translated expression is the one the model (and the C02–C07
  theorems about it) uses.  A change to one of these lines of x/shield or x/gov changes the generated definition and the
  corresponding theorem stops checking.
-/
namespace Shentu.Props.ShieldTie
open Shentu Shentu.Shield

/-- tie (regenerated on every run): every module account is a blocked recipient of the bank — `ModuleAccountAddrs` marks all of
    `maccPerms`, without exceptions.  The modules' exact books (C02, C11, the staking pools of C09) rely on it; the VM honours the
    same list since b6f072c. -/
theorem tie_module_accounts_blocked : Gen.Wiring.moduleAccountAddrs_found = true ∧ Gen.Wiring.moduleAccountAddrsBody =
    ["modAccAddrs := make(map[string]bool)",
     "for acc := range maccPerms { modAccAddrs[authtypes.NewModuleAddress(acc).String()] = true }",
     "return modAccAddrs"] := by decide

theorem all_sites_found : Gen.Shield.allFound = true := by decide

/-- purchase.go: "not enough collateral" ⇔ total shield + amount > collateral − withdrawing − claimed (the model's `free`) -/
theorem tie_oversold (s : State) (amt : Int) :
    Gen.Shield.oversold s.totalShield amt s.totalCollateral s.totalWithdrawing s.totalClaimed
      = decide (s.totalShield + amt > s.totalCollateral - s.totalWithdrawing - s.totalClaimed) := rfl
theorem tie_poolExceeds (amt poolShield maxShield : Int) :
    Gen.Shield.poolExceeds amt poolShield maxShield = decide (amt + poolShield > maxShield) := rfl
/-- the fraction-of-free-collateral bound of `purchaseCore` -/
theorem tie_freeFraction (s : State) :
    Gen.Shield.freeFraction s.totalCollateral s.totalWithdrawing s.totalClaimed s.params.poolLimit
      = Dec.truncateInt (Dec.mul (Dec.ofInt (s.totalCollateral - s.totalWithdrawing - s.totalClaimed)) s.params.poolLimit) := rfl
/-- collateral.go DepositCollateral ⇔ the model's `deposit` guard -/
theorem tie_depositUnbacked (p : Provider) (amount : Int) :
    Gen.Shield.depositUnbacked p.bonded p.collateral amount p.withdrawing = decide (p.bonded < p.collateral + amount - p.withdrawing) := rfl
theorem tie_overWithdraw (p : Provider) (amount : Int) :
    Gen.Shield.overWithdraw amount (Gen.Shield.withdrawable p.collateral p.withdrawing) = decide (amount > p.collateral - p.withdrawing) := rfl
/-- provider.go updateProviderForDelegationChanges: the forced withdrawal is exactly the shortfall of `stakingHook` -/
theorem tie_shortfall (p : Provider) (staked : Int) :
    Gen.Shield.shortfall p.collateral p.withdrawing staked = p.collateral - p.withdrawing - staked := rfl
theorem tie_lock_guards (loss poolShield purchaseShield totalSecure totalCollateral : Int) :
    Gen.Shield.lossAbovePool loss poolShield = decide (loss > poolShield) ∧
    Gen.Shield.lossAbovePurchase loss purchaseShield = decide (loss > purchaseShield) ∧
    Gen.Shield.secureExceeds totalSecure totalCollateral = decide (totalSecure > totalCollateral) := ⟨rfl, rfl, rfl⟩
theorem tie_lenientCover (p : Provider) (amount : Int) :
    Gen.Shield.lenientCover p.collateral p.withdrawing amount p.bonded = (decide (p.collateral - p.withdrawing ≥ amount) && decide (p.bonded ≥ amount)) := rfl
/-- gov msg_server.go validateProposalByType ⇔ the three tests of `claimAdmissible` -/
theorem tie_claim_admission (s : State) (loss deposit : Int) (en : Purchase) (now : Int) :
    Gen.Shield.claimDepositShort (Dec.ofInt deposit) (Dec.ofInt loss) s.params.claimDepositRate (Dec.ofInt s.params.claimMinDeposit)
      = (Dec.lt (Dec.ofInt deposit) (Dec.mul (Dec.ofInt loss) s.params.claimDepositRate) || Dec.lt (Dec.ofInt deposit) (Dec.ofInt s.params.claimMinDeposit)) ∧
    Gen.Shield.claimShieldShort en.shield loss = !(decide (en.shield ≥ loss)) ∧
    Gen.Shield.claimProtectionEnded en.endTime now = decide (en.endTime < now) := ⟨rfl, rfl, rfl⟩
/-- comparing the deposit with the minimum as decimals (Go) or as integers (model) is the same -/
theorem minDeposit_dec_int (deposit minDep : Int) : Dec.lt (Dec.ofInt deposit) (Dec.ofInt minDep) = decide (deposit < minDep) := by
  unfold Dec.lt Dec.ofInt Dec.prec
  simp only
  congr 1
  apply propext
  constructor <;> intro h <;> omega
theorem tie_notPayoutTime (r : Reimb) (now : Int) : Gen.Shield.notPayoutTime r.payoutTime now = decide (r.payoutTime > now) := rfl
theorem tie_unstake (k : Stake) (amount : Int) : Gen.Shield.unstakeTooMuch k.requested amount k.amount = decide (k.requested + amount > k.amount) := rfl
/-- pool.go ClosePools ⇔ the complement of the filter of the model's `closePools` -/
theorem tie_poolClosable (s : State) (p : Pool) :
    Gen.Shield.poolClosable p.shield p.limit (s.lists.any (·.pool == p.id)) = !(decide (p.shield > 0) || decide (p.limit > 0) || s.lists.any (·.pool == p.id)) := by
  unfold Gen.Shield.poolClosable
  cases decide (p.shield > 0) <;> cases decide (p.limit > 0) <;> cases s.lists.any (·.pool == p.id) <;> rfl
/-- pool.go UpdatePool: adding fees without shield collects the coins (the model's `updatePool` sends them) -/
theorem tie_feeOnlyCollects : Gen.Shield.feeOnlyCollects = true := by decide

end Shentu.Props.ShieldTie
