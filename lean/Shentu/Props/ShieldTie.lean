import Shentu.Model.Shield
import Shentu.Gen.Shield
import Shentu.Gen.Wiring
import Shentu.Proofs.ShieldFundClaim
/-
  The regenerated tie of the shield model: every guard and amount below is translated from the current Go source on every
  run (Shentu/Gen/Shield.lean); each theorem states that the translated expression is the one the model (and the C02–C07
  theorems about it) uses.  A change to one of these lines of x/shield or x/gov changes the generated definition and the
  corresponding theorem stops checking.
-/
namespace Shentu.Props.ShieldTie
open Shentu Shentu.Shield

/-- tie (regenerated on every run): every module account is a blocked recipient of the bank — `ModuleAccountAddrs` marks all of
    `maccPerms`, without exceptions.  The modules' exact books (C02, C11, the staking pools of C09) rely on it; the VM honours the
    same list since b6f072c. -/
theorem tie_module_accounts_blocked : Gen.Wiring.moduleAccountAddrs_found = true ∧ Gen.Wiring.moduleAccountAddrsBody =
    ["modAccAddrs := make(map[string]bool)",
     "for acc := range maccPerms { modAccAddrs[authtypes.NewModuleAddress(acc).String()] = true }",
     "return modAccAddrs"] := by decide

theorem all_sites_found : Gen.Shield.allFound = true := by decide

/-- purchase.go: "not enough collateral" ⇔ total shield + amount > collateral − withdrawing − claimed (the model's `free`) -/
theorem tie_oversold (s : State) (amt : Int) :
    Gen.Shield.oversold s.totalShield amt s.totalCollateral s.totalWithdrawing s.totalClaimed
      = decide (s.totalShield + amt > s.totalCollateral - s.totalWithdrawing - s.totalClaimed) := rfl
theorem tie_poolExceeds (amt poolShield maxShield : Int) :
    Gen.Shield.poolExceeds amt poolShield maxShield = decide (amt + poolShield > maxShield) := rfl
/-- the fraction-of-free-collateral bound of `purchaseCore` -/
theorem tie_freeFraction (s : State) :
    Gen.Shield.freeFraction s.totalCollateral s.totalWithdrawing s.totalClaimed s.params.poolLimit
      = Dec.truncateInt (Dec.mul (Dec.ofInt (s.totalCollateral - s.totalWithdrawing - s.totalClaimed)) s.params.poolLimit) := rfl
/-- collateral.go DepositCollateral ⇔ the model's `deposit` guard -/
theorem tie_depositUnbacked (p : Provider) (amount : Int) :
    Gen.Shield.depositUnbacked p.bonded p.collateral amount p.withdrawing = decide (p.bonded < p.collateral + amount - p.withdrawing) := rfl
theorem tie_overWithdraw (p : Provider) (amount : Int) :
    Gen.Shield.overWithdraw amount (Gen.Shield.withdrawable p.collateral p.withdrawing) = decide (amount > p.collateral - p.withdrawing) := rfl
/-- provider.go updateProviderForDelegationChanges: the forced withdrawal is exactly the shortfall of `stakingHook` -/
theorem tie_shortfall (p : Provider) (staked : Int) :
    Gen.Shield.shortfall p.collateral p.withdrawing staked = p.collateral - p.withdrawing - staked := rfl
theorem tie_lock_guards (loss poolShield purchaseShield totalSecure totalCollateral : Int) :
    Gen.Shield.lossAbovePool loss poolShield = decide (loss > poolShield) ∧
    Gen.Shield.lossAbovePurchase loss purchaseShield = decide (loss > purchaseShield) ∧
    Gen.Shield.secureExceeds totalSecure totalCollateral = decide (totalSecure > totalCollateral) := ⟨rfl, rfl, rfl⟩
theorem tie_lenientCover (p : Provider) (amount : Int) :
    Gen.Shield.lenientCover p.collateral p.withdrawing amount p.bonded = (decide (p.collateral - p.withdrawing ≥ amount) && decide (p.bonded ≥ amount)) := rfl
/-- gov msg_server.go validateProposalByType ⇔ the three tests of `claimAdmissible` -/
theorem tie_claim_admission (s : State) (loss deposit : Int) (en : Purchase) (now : Int) :
    Gen.Shield.claimDepositShort (Dec.ofInt deposit) (Dec.ofInt loss) s.params.claimDepositRate (Dec.ofInt s.params.claimMinDeposit)
      = (Dec.lt (Dec.ofInt deposit) (Dec.mul (Dec.ofInt loss) s.params.claimDepositRate) || Dec.lt (Dec.ofInt deposit) (Dec.ofInt s.params.claimMinDeposit)) ∧
    Gen.Shield.claimShieldShort en.shield loss = !(decide (en.shield ≥ loss)) ∧
    Gen.Shield.claimProtectionEnded en.endTime now = decide (en.endTime < now) := ⟨rfl, rfl, rfl⟩
/-- comparing the deposit with the minimum as decimals (Go) or as integers (model) is the same -/
theorem minDeposit_dec_int (deposit minDep : Int) : Dec.lt (Dec.ofInt deposit) (Dec.ofInt minDep) = decide (deposit < minDep) := by
  unfold Dec.lt Dec.ofInt Dec.prec
  simp only
  congr 1
  apply propext
  constructor <;> intro h <;> omega
theorem tie_notPayoutTime (r : Reimb) (now : Int) : Gen.Shield.notPayoutTime r.payoutTime now = decide (r.payoutTime > now) := rfl
theorem tie_unstake (k : Stake) (amount : Int) : Gen.Shield.unstakeTooMuch k.requested amount k.amount = decide (k.requested + amount > k.amount) := rfl
/-- pool.go ClosePools ⇔ the complement of the filter of the model's `closePools` -/
theorem tie_poolClosable (s : State) (p : Pool) :
    Gen.Shield.poolClosable p.shield p.limit (s.lists.any (·.pool == p.id)) = !(decide (p.shield > 0) || decide (p.limit > 0) || s.lists.any (·.pool == p.id)) := by
  unfold Gen.Shield.poolClosable
  cases decide (p.shield > 0) <;> cases decide (p.limit > 0) <;> cases s.lists.any (·.pool == p.id) <;> rfl
/-- pool.go UpdatePool: adding fees without shield collects the coins (the model's `updatePool` sends them) -/
theorem tie_feeOnlyCollects : Gen.Shield.feeOnlyCollects = true := by decide

/-! ## the split of an approved claim's loss (`CreateReimbursement`, `UpdateProviderCollateralForPayout`) -/

/-- proposal.go CreateReimbursement: a provider's two truncated shares are its collateral times the two ratios -/
theorem tie_split_shares (c : Int) (pr yr : Dec) :
    Gen.Shield.splitPurchased c pr = Dec.truncateInt (Dec.mul (Dec.ofInt c) pr) ∧
    Gen.Shield.splitPayout c yr = Dec.truncateInt (Dec.mul (Dec.ofInt c) yr) := ⟨rfl, rfl⟩
/-- each share is capped by what is still outstanding -/
theorem tie_split_caps (x total : Int) :
    Gen.Shield.splitPurchasedCapped x total = decide (x > total) ∧ Gen.Shield.splitPayoutCapped x total = decide (x > total) := ⟨rfl, rfl⟩
/-- the two "+1" corrections: each is taken only while something is outstanding AND the collateral exceeds payout + purchased,
    read at that moment (the second guard sees the purchased share already raised by the first correction).  A refactoring that
    evaluates the spare-collateral test once for both corrections changes the regenerated guard (it then mentions a variable that is
    not a parameter of the site, `splitPurchasedPlusOne_found` becomes false) and this theorem and `all_sites_found` stop checking. -/
theorem tie_split_plus_one (pur tp c pay ty : Int) :
    Gen.Shield.splitPurchasedPlusOne pur tp c pay = (decide (pur < tp) && decide (c > pay + pur)) ∧
    Gen.Shield.splitPayoutPlusOne pay ty c pur = (decide (pay < ty) && decide (c > pay + pur)) := ⟨rfl, rfl⟩
/-- the loop stops when nothing is outstanding; afterwards anything outstanding is the panic "not enough payout made" -/
theorem tie_split_end (ty : Int) :
    Gen.Shield.splitDone ty = decide (ty ≤ 0) ∧ Gen.Shield.splitShort ty = decide (ty > 0) := by
  refine ⟨?_, rfl⟩
  unfold Gen.Shield.splitDone
  by_cases h : ty > 0
  · have h2 : ¬ ty ≤ 0 := by omega
    simp [h, h2]
  · have h2 : ty ≤ 0 := by omega
    simp [h, h2]
/-- the order of the statements, as source text: shares and caps first, then the "+1" of the purchased share, then the "+1" of the
    payout, each `if` reading the current values -/
theorem tie_split_steps : Gen.Shield.splitSteps =
    ["purchased := provider.Collateral.ToDec().Mul(purchaseRatio).TruncateInt()",
     "if purchased.GT(totalPurchased) { purchased = totalPurchased }",
     "payout := provider.Collateral.ToDec().Mul(payoutRatio).TruncateInt()",
     "if payout.GT(totalPayout) { payout = totalPayout }",
     "if purchased.LT(totalPurchased) && provider.Collateral.GT(payout.Add(purchased)) { purchased = purchased.Add(sdk.OneInt()) }",
     "if payout.LT(totalPayout) && provider.Collateral.GT(payout.Add(purchased)) { payout = payout.Add(sdk.OneInt()) }"] := by decide

/-- one provider's two amounts, assembled from the regenerated pieces in the order of `splitSteps` -/
def genSplit (c : Int) (pr yr : Dec) (tp ty : Int) : Int × Int :=
  let pur0 := Gen.Shield.splitPurchased c pr
  let pur1 := if Gen.Shield.splitPurchasedCapped pur0 tp then tp else pur0
  let pay0 := Gen.Shield.splitPayout c yr
  let pay1 := if Gen.Shield.splitPayoutCapped pay0 ty then ty else pay0
  let pur2 := if Gen.Shield.splitPurchasedPlusOne pur1 tp c pay1 then pur1 + 1 else pur1
  let pay2 := if Gen.Shield.splitPayoutPlusOne pay1 ty c pur2 then pay1 + 1 else pay1
  (pur2, pay2)

theorem cap_eq_min (a b : Int) : (if decide (a > b) = true then b else a) = min a b := by
  by_cases h : a > b
  · simp only [h, decide_true, if_true]; omega
  · simp only [h, decide_false, Bool.false_eq_true, if_false]; omega

/-- **the regenerated split is the model's split**: `Shield.reimburseLoop` itself is written with the regenerated shares and "+1"
    guards (`Gen.Shield.splitPurchased`, `splitPayout`, `splitPurchasedPlusOne`, `splitPayoutPlusOne`); what it asks of one provider
    (`Fund.payoutPur`, `Fund.payoutPay`: the loop body in the terms every C02–C08 theorem about the payout is stated in,
    `Fund.reimburseLoop_cons`) is the composition of the regenerated shares, caps and guards in the order of `splitSteps` -/
theorem tie_split_is_model (pr yr : Dec) (p : Provider) (tp ty : Int) :
    genSplit p.collateral pr yr tp ty = (Fund.payoutPur pr yr p tp ty, Fund.payoutPay pr yr p tp ty) := by
  unfold genSplit Fund.payoutPay Fund.payoutPur Gen.Shield.splitPurchased Gen.Shield.splitPayout Gen.Shield.splitPurchasedCapped
    Gen.Shield.splitPayoutCapped Gen.Shield.splitPurchasedPlusOne Gen.Shield.splitPayoutPlusOne
  simp only [cap_eq_min]
/-- example: the regenerated split on two providers of 3 with shield 4 and loss 2 (the smallest input on which the payments fall short:
    Props/C04r): the first provider is asked to cover 3 and pay 0 -/
example : genSplit 3 (Dec.quo (Dec.ofInt 4) (Dec.ofInt 6)) (Dec.quo (Dec.ofInt 2) (Dec.ofInt 6)) 4 2 = (3, 0) := by decide

/-- proposal.go UpdateProviderCollateralForPayout ⇔ the three cases of the model's `updateProviderForPayout`: the payment comes out of
    the free collateral entirely, partly (what the free collateral leaves after the purchased share), or not at all -/
theorem tie_payout_three_way (p : Provider) (purchased payout : Int) :
    Gen.Shield.payoutFitsFree p.collateral p.withdrawing purchased payout = decide (p.collateral - p.withdrawing ≥ purchased + payout) ∧
    Gen.Shield.purchasedFitsFree p.collateral p.withdrawing purchased = decide (p.collateral - p.withdrawing ≥ purchased) ∧
    Gen.Shield.payoutFromFreePartly p.collateral p.withdrawing purchased = p.collateral - p.withdrawing - purchased ∧
    Gen.Shield.uncoveredPurchase p.collateral p.withdrawing purchased = purchased - (p.collateral - p.withdrawing) := ⟨rfl, rfl, rfl, rfl⟩

end Shentu.Props.ShieldTie
